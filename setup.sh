#!/bin/sh
# Offline build of the Coq development from files on disk only.
cd "$(dirname "$0")" || exit 2
export PYTHONPATH=/repo PYTHONHASHSEED=0 PIP_NO_INDEX=1
/venv/bin/python tools/extract.py || echo "setup: extraction failed (the checks will report it)"
/venv/bin/python tools/alias_extract.py > /dev/null || echo "setup: alias extraction failed (check C18 will report it)"
/venv/bin/python tools/kernel_extract.py > /dev/null || echo "setup: kernel translation failed (check C01 will report it)"
/venv/bin/python - <<'PY'
import sys; sys.path.insert(0, 'tools')
import check
check.write_coqproject()
PY
cd coq && timeout 7000 make -j16 -k 2>&1 | grep -v "coercion path\|ambiguous-paths\|deprecated" | tail -30
exit 0
