(* C20 correspondence: exception class raised by the implementation vs the verdict of Model/Validate.v *)
From Coq Require Import ZArith List Bool String NArith.
From FF Require Import Model.B64 Model.Pulse Model.Validate Corr.PulseObs.
Import ListNotations.

Definition verdict_eqb (a b : verdict) : bool := result_eqb (fun _ _ => true) a b.
Definition chk_v (model impl : verdict) : N * N * N := okb (verdict_eqb model impl).
