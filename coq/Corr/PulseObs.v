(* Observables of the C17 correspondence check: the model of Model/Pulse.v evaluated on the inputs the
   implementation was run on, compared exactly (no tolerance) with what the implementation returned. *)
From Coq Require Import ZArith List Bool String Ascii NArith.
From FF Require Import Model.B64 Model.Pulse.
Import ListNotations.
Local Notation length := List.length (only parsing).

(* identifiers are emitted as UTF-8 byte lists *)
Definition bstr (l : list N) : string := fold_right (fun n s => String (ascii_of_N n) s) EmptyString l.

Definition okb (b : bool) : N * N * N := if b then (1, 0, 0)%N else (0, 0, 1)%N.

Fixpoint list_eqb {A} (f : A -> A -> bool) (a b : list A) : bool :=
  match a, b with
  | [], [] => true
  | x :: r, y :: s => f x y && list_eqb f r s
  | _, _ => false
  end.
Definition mat_eqb' (a b : mat) : bool := list_eqb (list_eqb cnum_eqb) a b.
Definition rows_eqb (a b : list (list num)) : bool := list_eqb (list_eqb num_eqb) a b.

Definition pulse_eqb (p q : pulse) : bool :=
  list_eqb mat_eqb' (c_opers p) (c_opers q) && list_eqb String.eqb (c_ids p) (c_ids q) &&
  rows_eqb (c_coeffs p) (c_coeffs q) &&
  list_eqb mat_eqb' (n_opers p) (n_opers q) && list_eqb String.eqb (n_ids p) (n_ids q) &&
  rows_eqb (n_coeffs p) (n_coeffs q) &&
  list_eqb num_eqb (dt p) (dt q) && Nat.eqb (dim p) (dim q) && list_eqb mat_eqb' (basis p) (basis q).

Definition exn_eqb (a b : exn) : bool :=
  match a, b with
  | TypeError, TypeError | ValueError, ValueError | IndexError, IndexError
  | CalculationError, CalculationError | NotImplementedError, NotImplementedError | OtherError, OtherError => true
  | _, _ => false
  end.
Definition result_eqb {A} (f : A -> A -> bool) (a b : result A) : bool :=
  match a, b with
  | Ok x, Ok y => f x y
  | Raise e, Raise e' => exn_eqb e e'
  | _, _ => false
  end.

(* PulseSequence.__eq__ *)
Definition chk_eq (p q : pulse) (impl : bool) : N * N * N := okb (Bool.eqb (eq64 p q) impl).
(* _join_equal_segments *)
Definition chk_join (p : pulse) (cc nc : list (list num)) (dts : list num) : N * N * N :=
  let '(a, b, c) := join64 p in okb (rows_eqb a cc && rows_eqb b nc && list_eqb num_eqb c dts).
(* _parse_Hamiltonian through the constructor *)
Definition parsed_eqb (a b : parsed) : bool :=
  list_eqb mat_eqb' (fst (fst a)) (fst (fst b)) && list_eqb String.eqb (snd (fst a)) (snd (fst b)) &&
  rows_eqb (snd a) (snd b).
Definition chk_parse (noise : bool) (n_dt : nat) (H : list hentry) (impl : result parsed) : N * N * N :=
  okb (result_eqb parsed_eqb (parse_hamiltonian noise n_dt H) impl).
(* identifiers only (with duplicate identifiers the order of the tied operators depends on NumPy's sort) *)
Definition chk_parse_ids (noise : bool) (n_dt : nat) (H : list hentry) (impl : list string) : N * N * N :=
  match parse_hamiltonian noise n_dt H with
  | Ok r => okb (list_eqb String.eqb (snd (fst r)) impl)
  | Raise _ => okb false
  end.
(* __getitem__: the selected segment positions (decoded from pairwise distinct durations) or the exception *)
Definition getitem_idx (len : nat) (k : key) : result (list nat) :=
  match key_indices k len with
  | Raise e => Raise e
  | Ok [] => Raise IndexError
  | Ok l => Ok l
  end.
Definition chk_keys (len : nat) (cases : list (key * result (list nat))) : N * N * N :=
  fold_left (fun acc kr =>
               let '(a, u, d) := acc in
               if result_eqb (list_eqb Nat.eqb) (getitem_idx len (fst kr)) (snd kr)
               then (N.succ a, u, d) else (a, u, N.succ d)) cases (0, 0, 0)%N.
(* __getitem__: the complete result *)
Definition chk_getitem (p : pulse) (k : key) (impl : result pulse) : N * N * N :=
  okb (result_eqb pulse_eqb (getitem p k) impl).
