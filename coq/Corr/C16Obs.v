(* C16 correspondence observables: exact comparison (inside Coq) of the model of the tensor-product
   helpers / Pauli index maps with the implementation's result (array or exception class). *)
From Coq Require Import ZArith List NArith Bool.
From FF Require Import Model.Tensor Model.PauliIdx.
Import ListNotations.

Fixpoint list_eqb {A} (eqb : A -> A -> bool) (x y : list A) : bool :=
  match x, y with
  | [], [] => true
  | a :: x', b :: y' => eqb a b && list_eqb eqb x' y'
  | _, _ => false
  end.
Definition arr_eqb (a b : arr) : bool :=
  list_eqb Nat.eqb (shp a) (shp b) && list_eqb Z.eqb (dat a) (dat b).
Definition exn_eqb (x y : exn) : bool :=
  match x, y with
  | ValueError, ValueError | IndexError, IndexError | TypeError, TypeError | OutOfScope, OutOfScope => true
  | _, _ => false
  end.
Definition verdict (b : bool) : N * N * N := if b then (1, 0, 0)%N else (0, 0, 1)%N.
Definition chk_res {A} (eqb : A -> A -> bool) (m e : res A) : N * N * N :=
  match m, e with
  | Ok a, Ok b => verdict (eqb a b)
  | Err x, Err y => verdict (exn_eqb x y)
  | _, _ => verdict false
  end.
Definition chk (m e : res arr) : N * N * N := chk_res arr_eqb m e.
Definition chkl (m e : res (list nat)) : N * N * N := chk_res (list_eqb Nat.eqb) m e.

(* np.arange(size).reshape(shape) + off *)
Fixpoint zrange (n : nat) (z : Z) : list Z :=
  match n with 0 => [] | S n' => z :: zrange n' (z + 1)%Z end.
Definition ar (shape : list nat) (off : Z) : arr := mkArr shape (zrange (prodn shape) off).
