(* Observables of the C08 / C09 / C12 correspondence checks (model values on intervals vs the
   implementation's outputs).                                                              *)
From Coq Require Import ZArith List NArith.
From FF Require Import Base.Ops Model.Numeric Model.Decay Model.Cumulant Corr.Agree Corr.Obs.
Import ListNotations.

Section O.
Context {T : Type} (Op : Ops T (option bool)).
Notation Cc := (C (T:=T)).

(* reading complex rank-3 / rank-4 arrays *)
Definition ra3 (x : list (list (list ((Z*Z)*(Z*Z))))) : Arr3 (T:=T) := map (map (map (cdy Op))) x.
Definition ra3s (x : list (list (list (list ((Z*Z)*(Z*Z)))))) : list (Arr3 (T:=T)) := map ra3 x.
Definition rsp1 (x : list ((Z*Z)*(Z*Z))) : spectrum (T:=T) := Sp1 (map (cdy Op) x).
Definition rsp2 (x : list (list ((Z*Z)*(Z*Z)))) : spectrum (T:=T) := Sp2 (map (map (cdy Op)) x).
Definition rsp3 (x : list (list (list ((Z*Z)*(Z*Z))))) : spectrum (T:=T) := Sp3 (map (map (map (cdy Op))) x).
Definition rrm (x : list (list (Z*Z))) : RM (T:=T) := map (map (dy Op)) x.
Definition rrms (x : list (list (list (Z*Z)))) : list (RM (T:=T)) := map rrm x.

Definition flat_rms (x : list (RM (T:=T))) : list T := concat (concat x).
Definition flat_pc (x : list (list (list (list (list T))))) : list T := concat (concat (concat (concat x))).
Definition flat_pc1 (x : list (list (list T))) : list T := concat (concat x).

End O.

(* util.get_indices_from_identifiers: exact comparison of the model's index list with the implementation's *)
From Coq Require Import String.
Definition idx_check (all_ids : list string) (ids : option (list string)) (expected : list nat) : N * N * N :=
  match indices_from_identifiers all_ids ids with
  | Some l => if list_eq_dec Nat.eq_dec l expected then (1, 0, 0)%N else (0, 0, 1)%N
  | None => (0, 0, 1)%N
  end.
