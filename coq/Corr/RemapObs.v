(* Exact comparison of the remap model (Model/Remap.v, instantiated with dyadic entries) with
   the implementation's output, and of the index maps with the implementation's helpers.     *)
From Coq Require Import ZArith List NArith String Bool.
From FF Require Import Base.Ops Spec.DigitPerm Spec.StrSort Model.Remap.
Import ListNotations.

Definition QR : Type := (Z * Z)%type.
Definition QC : Type := (QR * QR)%type.
Definition eqQR (a b : QR) : bool := Z.eqb (fst a) (fst b) && Z.eqb (snd a) (snd b).
Definition eqQC (a b : QC) : bool := eqQR (fst a) (fst b) && eqQR (snd a) (snd b).
Definition dQR : QR := (0, 0)%Z.
Definition dQC : QC := (dQR, dQR).
Definition qpulse : Type := @pulse QR QC.

Definition count_bools (l : list bool) : N * N * N :=
  fold_left (fun (acc : N * N * N) (b : bool) => let '(a, u, d) := acc in if b then (N.succ a, u, d) else (a, u, N.succ d)) l (0, 0, 0)%N.
Definition verdict_b (b : bool) : N * N * N := if b then (1, 0, 0)%N else (0, 0, 1)%N.

(* model output vs implementation output, field by field; exceptions must coincide *)
Definition remap_tally (p : qpulse) (order : list nat) (dq : nat) (mapping : option (list (string * string)))
           (impl : option qpulse) : N * N * N :=
  match remap dQR dQC p order dq mapping, impl with
  | None, None => (1, 0, 0)%N
  | Some m, Some i => count_bools (pulse_agree_fields eqQR eqQC m i)
  | _, _ => (0, 0, 1)%N
  end.

Definition nat_list_eqb := list_eqb Nat.eqb.
(* util.tensor_transpose applied to the index array arange(D): result[j] = source index *)
Definition tt_src_tally (dq n : nat) (order : list nat) (impl : list nat) : N * N * N :=
  verdict_b (nat_list_eqb (build (dq ^ n) (tt_src dq n order)) impl).
Definition remap_pauli_tally (n : nat) (order : list nat) (impl : list nat) : N * N * N :=
  verdict_b (nat_list_eqb (remap_pauli n order) impl).
Definition map_ids_tally (ids : list string) (mapping : option (list (string * string)))
           (impl_ids : list string) (impl_idx : list nat) : N * N * N :=
  match map_identifiers ids mapping with
  | Some (a, b) => verdict_b (list_eqb String.eqb a impl_ids && nat_list_eqb b impl_idx)
  | None => (0, 0, 1)%N
  end.
