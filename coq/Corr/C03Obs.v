(* Observables of the C03 correspondence check.
   (a) bookkeeping: Model/Concat.v instantiated with operators = matrices of exact dyadics (normal form
       printed by the harness: value equality = structural equality, -0.0 printed as 0) and exact
       comparison of outcomes;
   (b) numeric: Model/Atomic.v evaluated on an interval instance, compared with the implementation.  *)
From Coq Require Import ZArith List NArith String Bool Arith.
From FF Require Import Base.Ops Model.Numeric Model.Atomic Model.Concat Corr.Agree Corr.Obs.
Import ListNotations.

(* ---------------- (a) bookkeeping ---------------- *)
Definition dyad := (Z * Z)%type.
Definition opmat := list (list (dyad * dyad)).
Definition dy_eqb (a b : dyad) : bool := Z.eqb (fst a) (fst b) && Z.eqb (snd a) (snd b).
Definition cdy_eqb (a b : dyad * dyad) : bool := dy_eqb (fst a) (fst b) && dy_eqb (snd a) (snd b).
Fixpoint list_eqb {A} (e : A -> A -> bool) (a b : list A) : bool :=
  match a, b with [] , [] => true | x :: a', y :: b' => e x y && list_eqb e a' b' | _, _ => false end.
Definition op_eqb : opmat -> opmat -> bool := list_eqb (list_eqb cdy_eqb).

Definition bk_ham := concatenate_hamiltonian opmat dyad op_eqb dy_eqb (0, 0)%Z.
Definition bk_concat := concatenate_without_ff opmat dyad op_eqb dy_eqb (0, 0)%Z.
Definition bk_outcome := concatenate_outcome opmat dyad op_eqb dy_eqb (0, 0)%Z.

Definition pair_eqb {A B} (ea : A -> A -> bool) (eb : B -> B -> bool) (x y : A * B) : bool :=
  ea (fst x) (fst y) && eb (snd x) (snd y).
Definition hres_eqb (x y : hresult opmat dyad) : bool :=
  list_eqb op_eqb (r_ops x) (r_ops y) && list_eqb String.eqb (r_ids x) (r_ids y) &&
  list_eqb (list_eqb dy_eqb) (r_rows x) (r_rows y) &&
  list_eqb (list_eqb (pair_eqb String.eqb String.eqb)) (r_map x) (r_map y).
Definition kind_eqb (a b : kind) : bool := match a, b with Control, Control | Noise, Noise => true | _, _ => false end.
Definition herror_eqb (a b : herror) : bool :=
  match a, b with EOperIds k, EOperIds k' => kind_eqb k k' | EDupIds k, EDupIds k' => kind_eqb k k' | ENoInfer, ENoInfer => true | _, _ => false end.
Definition cerror_eqb (a b : cerror) : bool :=
  match a, b with
  | EShapes, EShapes | EBases, EBases | EForced, EForced | ENoFreqPC, ENoFreqPC
  | EIndexError, EIndexError | EShapeError, EShapeError => true
  | EHam x, EHam y => herror_eqb x y
  | _, _ => false end.
Definition newpulse_eqb (x y : newpulse opmat dyad) : bool :=
  hres_eqb (n_ctrl x) (n_ctrl y) && hres_eqb (n_noise x) (n_noise y) && list_eqb dy_eqb (n_dt x) (n_dt y).
Definition res_eqb (x y : cerror + newpulse opmat dyad) : bool :=
  match x, y with inl a, inl b => cerror_eqb a b | inr a, inr b => newpulse_eqb a b | _, _ => false end.
Definition verdictN (b : bool) : N * N * N := if b then (1, 0, 0)%N else (0, 0, 1)%N.
Definition bk_check (ps : list (pulse opmat dyad)) (expected : cerror + newpulse opmat dyad) : N * N * N :=
  verdictN (res_eqb (bk_concat ps) expected).

Definition onat_eqb (a b : option nat) : bool :=
  match a, b with None, None => true | Some x, Some y => Nat.eqb x y | _, _ => false end.
Definition path_eqb (a b : path) : bool :=
  match a, b with PHamOnly, PHamOnly | PScratch, PScratch | PAtomic, PAtomic => true | _, _ => false end.
Definition ret_eqb (a b : ret) : bool :=
  path_eqb (t_path a) (t_path b) && Bool.eqb (t_tp a) (t_tp b) && onat_eqb (t_grid a) (t_grid b) &&
  Bool.eqb (t_cm a) (t_cm b) && Bool.eqb (t_ff a) (t_ff b) && Bool.eqb (t_ffgen a) (t_ffgen b) &&
  Bool.eqb (t_pc a) (t_pc b) && Bool.eqb (t_pcgen a) (t_pcgen b).
Definition outcome_eqb (a b : outcome) : bool :=
  match a, b with
  | ORaise x, ORaise y => cerror_eqb x y | OCopy, OCopy => true | ORet x, ORet y => ret_eqb x y | _, _ => false end.
(* one input list, many (cache states, options, observed outcome) *)
Definition dec_check (ps : list (pulse opmat dyad)) (cases : list (list cache * opts * outcome)) : N * N * N :=
  fold_left (fun acc c => tadd acc (verdictN (outcome_eqb (bk_outcome ps (fst (fst c)) (snd (fst c))) (snd c))))
            cases (0, 0, 0)%N.
(* which row of each pulse's own control matrix lands in which row of the new pulse *)
Definition rows_check (new_ids : list string) (maps : list (list (string * string)))
           (expected : list (list (option nat))) : N * N * N :=
  verdictN (list_eqb (list_eqb onat_eqb) (row_sources new_ids maps) expected).

(* ---------------- (b) numeric ---------------- *)
Section O.
Context {T : Type} (Op : Ops T (option bool)).
Notation Cc := (C (T:=T)).
Variable d : nat.

Definition rd_piece (ev : list (list (Z*Z))) (Vs : list (list (list ((Z*Z)*(Z*Z))))) (dts : list (Z*Z))
           (nc : list (list (Z*Z))) : piece (T:=T) :=
  mkPiece (rvecs Op ev) (rmats Op Vs) (rvec Op dts) (rvecs Op nc).

Definition flat_mats (l : list (Mat (T:=T))) : list Cc := List.concat (map (@List.concat _) l).
Definition flat5 (F : list (list (Arr3 (T:=T)))) : list Cc := List.concat (map (fun r => List.concat (map (@flat3 _) r)) F).
Definition flat7 (F : list (list (list (list (Arr3 (T:=T)))))) : list Cc :=
  List.concat (map (fun r => List.concat (map (fun s => List.concat (map (fun u => List.concat (map (@flat3 _) u)) s)) r)) F).

(* eigh validation for a piece: H_g given separately *)
Definition tally_eig_piece (tol : T) (Hs : list (Mat (T:=T))) (p : piece (T:=T)) : N * N * N :=
  tally_eig Op d tol Hs (pc_Vs p) (pc_evs p).

End O.
