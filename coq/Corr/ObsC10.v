(* Observables of the C10 correspondence check: second-order filter function and frequency shifts
   of the model (enclosures) from the eigh data of the implementation.                           *)
From Coq Require Import ZArith List NArith.
From Coq Require Import String.
From FF Require Import Base.Ops Extracted.Src Model.Numeric Model.SecondOrder Corr.Agree.
Import ListNotations.

(* threshold of the case selection of numeric._second_order_integral (binary64 value of the literal 1e-8) *)
Definition soi_thr : Z * Z := snd (hd (""%string, (0, 0)%Z) thr_numeric__second_order_integral).

Section O.
Context {T : Type} (Op : Ops T (option bool)).
Variable d : nat.

Definition model_F2 (thr thr2 : T) (evs : list (list T)) (Vs : list (Mat (T:=T))) (om : list T)
           (bs ns : list (Mat (T:=T))) (nc : list (list T)) (dts : list T) : Arr5 (T:=T) :=
  second_order_from_eig Op d thr thr2 evs Vs om bs ns nc dts.

Definition flat5 {A} (x : list (list (list (list (list A))))) : list A := List.concat (List.concat (List.concat (List.concat x))).

(* reading a rank-5 complex array of dyadics (the implementation's F2) *)
Definition rarr5 (x : list (list (list (list (list ((Z*Z)*(Z*Z))))))) : Arr5 (T:=T) :=
  map (map (map (map (map (cdy Op))))) x.
Definition model_shifts (na nk : nat) (F2 : Arr5 (T:=T)) (S : list (list T)) (om : list T) : list T :=
  flat3 (frequency_shifts Op na nk F2 S om).

(* one entry of _second_order_integral *)
Definition model_soi (thr2 w evi evj evm evn dt : T) : C (T:=T) := soi_entry Op thr2 w evi evj evm evn dt.

End O.
