(* Comparison of implementation outputs (exact dyadics) with the model's interval enclosures,
   evaluated inside Coq.  Polymorphic in an Ops whose boolean type is [option bool].       *)
From Coq Require Import ZArith List NArith.
From FF Require Import Base.Ops.
Import ListNotations.

Inductive verdict := VAgree | VUndec | VDisagree.

Section A.
Context {T : Type} (Op : Ops T (option bool)).
Notation Cc := (C (T:=T)).

Definition dy (z : Z * Z) : T := odya Op (fst z) (snd z).
Definition cdy (z : (Z * Z) * (Z * Z)) : Cc := (dy (fst z), dy (snd z)).

(* |enc - z| < tol for every point of the enclosure *)
Definition close1 (tol z enc : T) : verdict :=
  match ogt Op tol (oabs Op (osub Op enc z)) with
  | Some true => VAgree | Some false => VDisagree | None => VUndec end.
Definition vworst (a b : verdict) : verdict :=
  match a, b with
  | VDisagree, _ | _, VDisagree => VDisagree
  | VUndec, _ | _, VUndec => VUndec
  | _, _ => VAgree end.
Definition closeC (tol : T) (z enc : Cc) : verdict :=
  vworst (close1 tol (fst z) (fst enc)) (close1 tol (snd z) (snd enc)).

(* counts (agree, undecided, disagree) over two flat lists; a length mismatch is a disagreement *)
Fixpoint tally {A E} (cl : A -> E -> verdict) (zs : list A) (es : list E) (acc : N * N * N) : N * N * N :=
  match zs, es with
  | [], [] => acc
  | z :: zs', e :: es' =>
      let '(a, u, dd) := acc in
      tally cl zs' es' (match cl z e with VAgree => (N.succ a, u, dd) | VUndec => (a, N.succ u, dd) | VDisagree => (a, u, N.succ dd) end)
  | _, _ => let '(a, u, dd) := acc in (a, u, N.succ dd)
  end.
Definition tallyC (tol : T) (impl : list ((Z*Z)*(Z*Z))) (enc : list Cc) : N * N * N :=
  tally (fun z e => closeC tol (cdy z) e) impl enc (0, 0, 0)%N.
Definition tallyR (tol : T) (impl : list (Z*Z)) (enc : list T) : N * N * N :=
  tally (fun z e => close1 tol (dy z) e) impl enc (0, 0, 0)%N.
Definition tadd (x y : N * N * N) : N * N * N :=
  let '(a, b, c) := x in let '(a', b', c') := y in (a + a', b + b', c + c')%N.

Definition flat3 {A} (x : list (list (list A))) : list A := concat (concat x).
Definition flat2 {A} (x : list (list A)) : list A := concat x.

(* reading dyadic input arrays *)
Definition rvec (v : list (Z*Z)) : list T := map dy v.
Definition rmat (m : list (list ((Z*Z)*(Z*Z)))) : Mat (T:=T) := map (map cdy) m.
Definition rmats (ms : list (list (list ((Z*Z)*(Z*Z))))) : list (Mat (T:=T)) := map rmat ms.
Definition rvecs (vs : list (list (Z*Z))) : list (list T) := map rvec vs.

End A.
