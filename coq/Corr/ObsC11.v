(* Observables of the C11 correspondence check: the gradient model (Model/Gradient.v) evaluated from
   the eigh data only (propagators and times recomputed by the model), flattened for the tallies. *)
From Coq Require Import ZArith List NArith String Bool.
From FF Require Import Base.Ops Model.Numeric Model.Gradient Corr.Agree.
Import ListNotations.

Section O.
Context {T B : Type} (Op : Ops T B).
Notation Cc := (C (T:=T)).
Variable d : nat.

(* gradient._derivative_integral for a list of frequencies, flattened in the order [o][p][q][m][n] *)
Definition model_di (th3 : T * T) (om ev : list T) (dt : T) : list Cc :=
  List.concat (map (fun w => List.concat (List.concat (List.concat (deriv_integral Op d th3 w ev dt)))) om).

(* calculate_derivative_of_control_matrix_from_scratch on the selected operators: [a][h][s][o][k] *)
Definition model_cd (thr : T) (th3 : T * T) (thrA : T) (evs : list (list T)) (Vs : list (Mat (T:=T))) (om : list T)
           (bs ns cs : list (Mat (T:=T))) (nc : list (list T)) (dts : list T)
           (n_idx c_idx : list nat) (use_ncd : bool) (ncd : list (list (list T))) :=
  ctrlmat_deriv Op d thr th3 thrA evs Vs (propagators Op d evs Vs dts) om bs
                (select [] n_idx ns) (select [] c_idx cs) (select [] n_idx nc) dts (times Op dts) use_ncd ncd.
Definition flat5 {A} (x : list (list (list (list (list A))))) : list A :=
  List.concat (List.concat (List.concat (List.concat x))).
Definition flat4 {A} (x : list (list (list (list A)))) : list A := List.concat (List.concat (List.concat x)).

(* PulseSequence.get_filter_function_derivative: [a][s][h][o] *)
Definition model_ffd (thr : T) (th3 : T * T) (thrA : T) (evs : list (list T)) (Vs : list (Mat (T:=T))) (om : list T)
           (bs ns cs : list (Mat (T:=T))) (nc : list (list T)) (dts : list T)
           (n_idx c_idx : list nat) (use_ncd : bool) (ncd : list (list (list T))) : list (list (list (list T))) :=
  let Qs := propagators Op d evs Vs dts in
  let Bm := select [] n_idx (control_matrix_from_scratch Op d thr evs Vs Qs om bs ns nc dts (times Op dts)) in
  let CD := model_cd thr th3 thrA evs Vs om bs ns cs nc dts n_idx c_idx use_ncd ncd in
  filter_function_derivative Op (List.length n_idx) (List.length c_idx) (List.length dts) (List.length bs) (List.length om) Bm CD.

(* gradient.infidelity_derivative with an already broadcast spectrum [a][o]: [a][s][h] *)
Definition model_infid (thr : T) (th3 : T * T) (thrA : T) (evs : list (list T)) (Vs : list (Mat (T:=T))) (om : list T)
           (bs ns cs : list (Mat (T:=T))) (nc : list (list T)) (dts : list T)
           (n_idx c_idx : list nat) (use_ncd : bool) (ncd : list (list (list T))) (spec : list (list T)) :=
  infidelity_derivative Op d thr om spec (model_ffd thr th3 thrA evs Vs om bs ns cs nc dts n_idx c_idx use_ncd ncd)
    use_ncd ncd (select [] n_idx ns) (select [] n_idx nc) dts (times Op dts).
(* all three observables with the shared intermediate results computed once: ((CD, FD), ID) *)
Definition model_all (thr : T) (th3 : T * T) (thrA : T) (evs : list (list T)) (Vs : list (Mat (T:=T))) (om : list T)
           (bs ns cs : list (Mat (T:=T))) (nc : list (list T)) (dts : list T)
           (n_idx c_idx : list nat) (use_ncd : bool) (ncd : list (list (list T))) (spec : list (list T)) :=
  let Qs := propagators Op d evs Vs dts in
  let ts := times Op dts in
  let CD := ctrlmat_deriv Op d thr th3 thrA evs Vs Qs om bs
              (select [] n_idx ns) (select [] c_idx cs) (select [] n_idx nc) dts ts use_ncd ncd in
  let Bm := select [] n_idx (control_matrix_from_scratch Op d thr evs Vs Qs om bs ns nc dts ts) in
  let FD := filter_function_derivative Op (List.length n_idx) (List.length c_idx) (List.length dts) (List.length bs) (List.length om) Bm CD in
  (CD, FD, infidelity_derivative Op d thr om spec FD use_ncd ncd (select [] n_idx ns) (select [] n_idx nc) dts ts).
End O.

(* exact comparison of the identifier resolution with the implementation's index arrays *)
Definition list_nat_eqb (a b : list nat) : bool :=
  Nat.eqb (List.length a) (List.length b) && forallb (fun p => Nat.eqb (fst p) (snd p)) (combine a b).
Definition tally_idx (all : list string) (ids : option (list string)) (impl : option (list nat)) : N * N * N :=
  match get_indices_from_identifiers all ids, impl with
  | Some a, Some b => if list_nat_eqb a b then (1, 0, 0)%N else (0, 0, 1)%N
  | None, None => (1, 0, 0)%N
  | _, _ => (0, 0, 1)%N
  end.
Definition tally_bool (model impl : bool) : N * N * N := if Bool.eqb model impl then (1, 0, 0)%N else (0, 0, 1)%N.
