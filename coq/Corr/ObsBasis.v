(* Observables of the C14 correspondence check: comparison of flags (booleans) and helpers. *)
From Coq Require Import ZArith List NArith Bool.
From FF Require Import Base.Ops Model.BasisModel Corr.Agree.
Import ListNotations.

(* implementation's boolean against the model's (possibly undecided) boolean *)
Definition tallyB (impl : bool) (m : option bool) : N * N * N :=
  match m with
  | None => (0, 1, 0)%N
  | Some b => if Bool.eqb impl b then (1, 0, 0)%N else (0, 0, 1)%N
  end.
Definition tallyNat (impl model : nat) : N * N * N := if Nat.eqb impl model then (1, 0, 0)%N else (0, 0, 1)%N.
Definition tallyNats (impl model : list nat) : N * N * N :=
  if list_eq_dec Nat.eq_dec impl model then (1, 0, 0)%N else (0, 0, 1)%N.

Section OB.
Context {T : Type} (Op : Ops T (option bool)).
(* residual <= tol, as a verdict *)
Definition tally_small (tol x : T) : N * N * N :=
  match ogt Op x tol with Some false => (1, 0, 0)%N | Some true => (0, 0, 1)%N | None => (0, 1, 0)%N end.
Definition flat_mats (bs : list (Mat (T:=T))) : list (C (T:=T)) := concat (concat bs).
Definition cflat (x : list (list (C (T:=T)))) : list (C (T:=T)) := concat x.
End OB.

Section OB2.
Context {T : Type} (Op : Ops T (option bool)).
Notation Matc := (Mat (T:=T)).
Notation Cc := (C (T:=T)).

(* implementation's flag (True = property holds) against the model's violation test *)
Definition tally_flag (impl : bool) (viol : option bool) : N * N * N := tallyB impl (option_map negb viol).
Definition flags_case (d : nat) (bs : list Matc) (ih io it : bool) : N * N * N :=
  tadd (tally_flag ih (isherm_viol Op d bs))
       (tadd (tally_flag io (isorthonorm_viol Op d bs)) (tally_flag it (istraceless_viol Op d bs))).

Definition outcome_code (o : fp_outcome) : nat :=
  match o with FpOk false => 0 | FpOk true => 1 | FpNotOrthonormal => 2 | FpNotTraceless => 3 | FpBadLabels => 4 end.
(* control flow of _full_from_partial.  The flags are evaluated on the implementation's normalised
   elements [en] (exact binary64 values: the exact comparisons of istraceless are decidable on them);
   the normalisation itself is compared separately. *)
Definition tally_outcome (impl : nat) (d : nat) (elems en : list Matc) (en_impl : list ((Z*Z)*(Z*Z))) (tol : T)
           (traceless : option bool) (labels_ok : bool) : N * N * N :=
  tadd (tallyC Op tol en_impl (flat_mats (normalize Op d elems)))
  (match isorthonorm_viol Op d en with
  | None => (0, 1, 0)%N
  | Some true => tallyNat impl (outcome_code (fp_control true false traceless labels_ok))
  | Some false =>
      match istraceless_viol Op d en with
      | None => (0, 1, 0)%N
      | Some tv => tallyNat impl (outcome_code (fp_control false tv traceless labels_ok))
      end
  end).

(* numeric part of _full_from_partial: coefficient matrix, oracle validation, completed basis *)
Definition fp_case (d : nat) (traceless herm : bool) (elems : list Matc)
           (coeffs_impl : list ((Z*Z)*(Z*Z))) (A Nn : list (list Cc)) (basis_impl : list ((Z*Z)*(Z*Z)))
           (tol tol_orc : T) : N * N * N :=
  let en := normalize Op d elems in
  let cm := fp_coeffs Op d traceless herm en in
  let W := A ++ Nn in
  let WT := build (length (fp_ggm Op d traceless)) (fun j => map (fun row => cconj Op (nth j row (c0 Op))) W) in
  tadd (tallyC Op tol coeffs_impl (cflat cm))
  (tadd (match A with [] => (1, 0, 0)%N | _ => tadd (tally_small Op tol_orc (rows_orth_residual Op W))
                                                    (tally_small Op tol_orc (rows_orth_residual Op WT)) end)
        (tallyC Op tol basis_impl (flat_mats (fp_basis Op d traceless A Nn)))).

Definition rlist (l : list (list ((Z*Z)*(Z*Z)))) : list (list Cc) := map (map (cdy Op)) l.
End OB2.
