(* Observables of the C14 correspondence check: comparison of flags (booleans) and helpers. *)
From Coq Require Import ZArith List NArith Bool.
From FF Require Import Base.Ops Model.BasisModel Corr.Agree.
Import ListNotations.

(* implementation's boolean against the model's (possibly undecided) boolean *)
Definition tallyB (impl : bool) (m : option bool) : N * N * N :=
  match m with
  | None => (0, 1, 0)%N
  | Some b => if Bool.eqb impl b then (1, 0, 0)%N else (0, 0, 1)%N
  end.
Definition tallyNat (impl model : nat) : N * N * N := if Nat.eqb impl model then (1, 0, 0)%N else (0, 0, 1)%N.
Definition tallyNats (impl model : list nat) : N * N * N :=
  if list_eq_dec Nat.eq_dec impl model then (1, 0, 0)%N else (0, 0, 1)%N.

Section OB.
Context {T : Type} (Op : Ops T (option bool)).
(* residual <= tol, as a verdict *)
Definition tally_small (tol x : T) : N * N * N :=
  match ogt Op x tol with Some false => (1, 0, 0)%N | Some true => (0, 0, 1)%N | None => (0, 1, 0)%N end.
Definition flat_mats (bs : list (Mat (T:=T))) : list (C (T:=T)) := concat (concat bs).
Definition cflat (x : list (list (C (T:=T)))) : list (C (T:=T)) := concat x.
End OB.
