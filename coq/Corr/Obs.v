(* Observables evaluated by the correspondence check: model value (enclosure) against the
   implementation's output, as (agree, undecided, disagree) tallies.                    *)
From Coq Require Import ZArith List NArith.
From FF Require Import Base.Ops Model.Numeric Corr.Agree.
Import ListNotations.

Section O.
Context {T : Type} (Op : Ops T (option bool)).
Notation Cc := (C (T:=T)).
Variable d : nat.

(* eigh oracle validation: H V = V D and V^dagger V = 1, entrywise within tol *)
Definition eig_residual (H V : Mat (T:=T)) (ev : list T) : list Cc :=
  let HV := mmul Op d H V in
  let VD := mbuild d d (fun i j => cscal Op (vget Op ev j) (mget Op V i j)) in
  let VV := mmul Op d (madj Op d V) V in
  concat (mbuild d d (fun i j => csub Op (mget Op HV i j) (mget Op VD i j))) ++
  concat (mbuild d d (fun i j => csub Op (mget Op VV i j) (mget Op (mid Op d) i j))).
Definition zeroC (tol : T) (z : Cc) : verdict :=
  closeC Op tol (c0 Op) z.
Definition tally_eig (tol : T) (Hs Vs : list (Mat (T:=T))) (evs : list (list T)) : N * N * N :=
  let res := concat (map (fun x => eig_residual (fst (fst x)) (snd (fst x)) (snd x)) (combine (combine Hs Vs) evs)) in
  tally (fun (_ : unit) z => zeroC tol z) (map (fun _ => tt) res) res (0, 0, 0)%N.

(* control matrix from the eigh data only (propagators recomputed by the model) *)
Definition model_cm (thr : T) (evs : list (list T)) (Vs : list (Mat (T:=T))) (om : list T)
           (bs ns : list (Mat (T:=T))) (nc : list (list T)) (dts : list T) : Arr3 (T:=T) :=
  control_matrix_from_scratch Op d thr evs Vs (propagators Op d evs Vs dts) om bs ns nc dts (times Op dts).

End O.
