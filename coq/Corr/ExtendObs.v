(* Exact comparison of the extend bookkeeping model (Model/Extend.v) with what the harness
   observes of the implementation (result + recorded calls of the tensor helpers).        *)
From Coq Require Import ZArith List NArith String Bool.
From FF Require Import Base.Ops Spec.DigitPerm Spec.StrSort Model.Remap Model.Extend Corr.RemapObs.
Import ListNotations.

Definition err_eqb (a b : err) : bool :=
  match a, b with
  | ErrRemap, ErrRemap | ErrSingleDim, ErrSingleDim | ErrMultiDim, ErrMultiDim | ErrDt, ErrDt | ErrClash, ErrClash
  | ErrN, ErrN | ErrOmega, ErrOmega | ErrCacheDiag, ErrCacheDiag | ErrAddDim, ErrAddDim | ErrAddDup, ErrAddDup
  | ErrKey, ErrKey | ErrDupMap, ErrDupMap | ErrDupIds, ErrDupIds | ErrNoArgs, ErrNoArgs => true
  | _, _ => false end.
Definition src_eqb (a b : src) : bool :=
  match a, b with
  | FromPulse x y, FromPulse x' y' => Nat.eqb x x' && Nat.eqb y y'
  | Additional k, Additional k' => Nat.eqb k k'
  | _, _ => false end.
Definition step_eqb (a b : step) : bool :=
  match a, b with
  | OpInsert p, OpInsert p' | EvInsert p, EvInsert p' | Merge p, Merge p' => nat_list_eqb p p'
  | Insert p, Insert p' => Nat.eqb p p'
  | _, _ => false end.

(* fields of the plan the harness can observe *)
Definition plan_agree (m o : plan) : list bool :=
  [ Nat.eqb (pl_N m) (pl_N o);
    list_eqb nat_list_eqb (pl_remaps m) (pl_remaps o);
    list_eqb String.eqb (pl_c_ids m) (pl_c_ids o); list_eqb String.eqb (pl_n_ids m) (pl_n_ids o);
    list_eqb src_eqb (pl_c_src m) (pl_c_src o); list_eqb src_eqb (pl_n_src m) (pl_n_src o);
    String.eqb (pl_basis m) (pl_basis o);
    Bool.eqb (pl_cache_ff m) (pl_cache_ff o);
    negb (pl_cache_ff m) || Bool.eqb (pl_omega_given m) (pl_omega_given o);
    list_eqb step_eqb (pl_steps m) (pl_steps o);
    list_eqb nat_list_eqb (map (fun x => fst (fst (fst x))) (pl_cm_blocks m)) (map (fun x => fst (fst (fst x))) (pl_cm_blocks o));
    Bool.eqb (pl_has_eig m) (pl_has_eig o); Bool.eqb (pl_has_tp m) (pl_has_tp o); Bool.eqb (pl_has_ff m) (pl_has_ff o) ].

Definition extend_tally (entries : list entry) (Narg : option nat) (dq : nat) (additional : option (nat * list string))
           (cache_diag cache_ff : option bool) (omega_arg : option nat) (observed : outcome) : N * N * N :=
  match extend entries Narg dq additional cache_diag cache_ff omega_arg, observed with
  | Raise a, Raise b => verdict_b (err_eqb a b)
  | ReturnSame a, ReturnSame b => verdict_b (nat_list_eqb a b)
  | Extended m, Extended o => count_bools (plan_agree m o)
  | _, _ => (0, 0, 1)%N
  end.

Definition equiv_idx_tally (ind : list nat) (n : nat) (impl : list nat) : N * N * N :=
  verdict_b (nat_list_eqb (equiv_idx ind n) impl).
Definition suffix_tally (ids : list string) (qs : list nat) (impl : list string) : N * N * N :=
  match map_ids ids None qs with inr l => verdict_b (list_eqb String.eqb l impl) | inl _ => (0, 0, 1)%N end.
