(* Setoid structure on function matrices (Base/RAlg.fmat with [feq d]) so that associativity,
   cyclicity etc. can be rewritten under products and traces; finite sums of matrices;
   complete orthonormal Hermitian operator bases and their consequences (four-element traces,
   Parseval).  Shared by C08 / C09 / C12.                                                   *)
From Coq Require Import ZArith Reals List Lra Lia Setoid Morphisms.
From FF Require Import Base.Ops Inst.RInst Base.RAlg.
Import ListNotations.
Local Open Scope R_scope.

Global Instance feq_equiv d : Equivalence (feq d).
Proof. split. intros A; apply feq_refl. intros A B; apply feq_sym. intros A B Cm; apply feq_trans. Qed.
Global Instance fmul_proper d : Proper (feq d ==> feq d ==> feq d) (fmul d).
Proof. intros A A' HA B B' HB. apply fmul_ext; auto. Qed.
Global Instance ftr_proper d : Proper (feq d ==> eq) (ftr d).
Proof. intros A A' HA. apply ftr_ext; auto. Qed.
Global Instance fadd_proper d : Proper (feq d ==> feq d ==> feq d) fadd.
Proof. intros A A' HA B B' HB i j Hi Hj. unfold fadd. rewrite HA, HB; auto. Qed.
Global Instance fscal_proper d z : Proper (feq d ==> feq d) (fscal z).
Proof. intros A A' HA i j Hi Hj. unfold fscal. rewrite HA; auto. Qed.
Global Instance fadj_proper d : Proper (feq d ==> feq d) fadj.
Proof. intros A A' HA i j Hi Hj. unfold fadj. rewrite HA; auto. Qed.

Definition fsub (A B : fmat) : fmat := fun i j => csub' (A i j) (B i j).
Global Instance fsub_proper d : Proper (feq d ==> feq d ==> feq d) fsub.
Proof. intros A A' HA B B' HB i j Hi Hj. unfold fsub. rewrite HA, HB; auto. Qed.
Definition fzero : fmat := fun _ _ => 0c.

(* ---------- scalars ---------- *)
Lemma fmul_fscal_l d z A B : feq d (fmul d (fscal z A) B) (fscal z (fmul d A B)).
Proof. intros i j _ _. unfold fmul, fscal. rewrite <- csumn_mul_l. apply csumn_ext. intros; ring. Qed.
Lemma fmul_fscal_r d z A B : feq d (fmul d A (fscal z B)) (fscal z (fmul d A B)).
Proof. intros i j _ _. unfold fmul, fscal. rewrite <- csumn_mul_l. apply csumn_ext. intros; ring. Qed.
Lemma ftr_fscal d z A : ftr d (fscal z A) = cmul' z (ftr d A).
Proof. unfold ftr, fscal. apply csumn_mul_l. Qed.
Lemma ftr_fsub d A B : ftr d (fsub A B) = csub' (ftr d A) (ftr d B).
Proof. unfold ftr, fsub. induction d; simpl. ring. rewrite IHd. ring. Qed.
Lemma fmul_fadd_l d A B Cm : feq d (fmul d (fadd A B) Cm) (fadd (fmul d A Cm) (fmul d B Cm)).
Proof. intros i j _ _. unfold fmul, fadd. rewrite <- csumn_add. apply csumn_ext. intros; ring. Qed.
Lemma fmul_fadd_r d A B Cm : feq d (fmul d A (fadd B Cm)) (fadd (fmul d A B) (fmul d A Cm)).
Proof. intros i j _ _. unfold fmul, fadd. rewrite <- csumn_add. apply csumn_ext. intros; ring. Qed.
Lemma fmul_fsub_l d A B Cm : feq d (fmul d (fsub A B) Cm) (fsub (fmul d A Cm) (fmul d B Cm)).
Proof. intros i j _ _. unfold fmul, fsub. induction d; simpl. ring. rewrite IHd. ring. Qed.
Lemma fmul_fsub_r d A B Cm : feq d (fmul d A (fsub B Cm)) (fsub (fmul d A B) (fmul d A Cm)).
Proof. intros i j _ _. unfold fmul, fsub. induction d; simpl. ring. rewrite IHd. ring. Qed.

(* d as a complex number *)
Definition cnat (d : nat) : Cx := (INR d, 0).
Lemma csumn_const n (z : Cx) : csumn' n (fun _ => z) = cmul' (cnat n) z.
Proof. induction n. simpl. unfold cnat. simpl. apply c_eq; csimp; ring.
  rewrite csumn_S, IHn. unfold cnat. rewrite S_INR. apply c_eq; csimp; ring. Qed.
Lemma ftr_fid d : ftr d fid = cnat d.
Proof. unfold ftr, fid. rewrite (csumn_ext d _ (fun _ => 1c)). rewrite csumn_const. ring.
  intros k _. rewrite Nat.eqb_refl. reflexivity. Qed.

(* ---------- finite sums of matrices ---------- *)
Definition fsum (n : nat) (F : nat -> fmat) : fmat := fun a b => csumn' n (fun i => F i a b).
Lemma fsum_ext d n F G : (forall i, (i < n)%nat -> feq d (F i) (G i)) -> feq d (fsum n F) (fsum n G).
Proof. intros H a b Ha Hb. unfold fsum. apply csumn_ext. intros i Hi. apply H; auto. Qed.
Lemma fmul_fsum_r d n A F : feq d (fmul d A (fsum n F)) (fsum n (fun i => fmul d A (F i))).
Proof.
  intros a b _ _. unfold fmul, fsum.
  rewrite (csumn_ext d _ (fun k => csumn' n (fun i => cmul' (A a k) (F i k b)))).
  apply csumn_swap. intros k _. symmetry. apply csumn_mul_l.
Qed.
Lemma fmul_fsum_l d n A F : feq d (fmul d (fsum n F) A) (fsum n (fun i => fmul d (F i) A)).
Proof.
  intros a b _ _. unfold fmul, fsum.
  rewrite (csumn_ext d _ (fun k => csumn' n (fun i => cmul' (F i a k) (A k b)))).
  apply csumn_swap. intros k _. symmetry. apply csumn_mul_r.
Qed.
Lemma ftr_fsum d n F : ftr d (fsum n F) = csumn' n (fun i => ftr d (F i)).
Proof. unfold ftr, fsum. apply csumn_swap. Qed.

(* ---------- Hermitian matrices ---------- *)
Lemma ftr_herm_real d A : fherm d A -> snd (ftr d A) = 0.
Proof.
  intros H. assert (E : ftr d (fadj A) = ftr d A) by (apply ftr_ext; exact H).
  rewrite ftr_adj in E. destruct (ftr d A) as [x y]. unfold cconj in E. simpl in *. injection E. intros. lra.
Qed.
(* conj tr(M C) = tr(C M^dagger) for Hermitian C *)
Lemma ftr_mul_conj d M Cm : fherm d Cm -> cconj' (ftr d (fmul d M Cm)) = ftr d (fmul d Cm (fadj M)).
Proof.
  intros H. unfold fherm in H. rewrite <- ftr_adj. rewrite (fadj_mul d M Cm). rewrite H. reflexivity.
Qed.

(* ---------- complete orthonormal Hermitian bases ---------- *)
Section Basis.
Variables (d n : nat) (Cb : nat -> fmat).

Definition basis_herm : Prop := forall k, (k < n)%nat -> fherm d (Cb k).
Definition basis_orthonormal : Prop := forall k l, (k < n)%nat -> (l < n)%nat ->
  ftr d (fmul d (Cb k) (Cb l)) = if Nat.eqb k l then 1c else 0c.
(* completeness relation: sum_i C_i X C_i = tr(X) 1 *)
Definition basis_complete : Prop := forall X : fmat,
  feq d (fsum n (fun i => fmul d (fmul d (Cb i) X) (Cb i))) (fscal (ftr d X) fid).

(* four-element traces tr(C_i C_j C_k C_l), associated as in the model *)
Definition T4 (i j k l : nat) : Cx := ftr d (fmul d (fmul d (Cb i) (Cb j)) (fmul d (Cb k) (Cb l))).
Definition tC (k : nat) : Cx := ftr d (Cb k).

Lemma T4_cyclic i j k l : T4 i j k l = T4 j k l i.
Proof.
  unfold T4.
  rewrite <- (fmul_assoc d (Cb i) (Cb j)). rewrite ftr_cyclic.
  rewrite (fmul_assoc d (Cb j)). rewrite <- (fmul_assoc d (fmul d (Cb j) (Cb k))). reflexivity.
Qed.
Lemma T4_chain i j k l : T4 i j k l = ftr d (fmul d (Cb i) (fmul d (Cb j) (fmul d (Cb k) (Cb l)))).
Proof. unfold T4. rewrite <- (fmul_assoc d (Cb i) (Cb j)). reflexivity. Qed.

Hypothesis Hcomp : basis_complete.

Lemma sum_CC : feq d (fsum n (fun i => fmul d (Cb i) (Cb i))) (fscal (cnat d) fid).
Proof.
  rewrite <- ftr_fid. rewrite <- (Hcomp fid). apply fsum_ext. intros i _.
  rewrite fmul_id_r. reflexivity.
Qed.

Lemma T4_sum_klii k l : csumn' n (fun i => T4 k l i i) = cmul' (cnat d) (ftr d (fmul d (Cb k) (Cb l))).
Proof.
  unfold T4. rewrite <- ftr_fsum.
  rewrite <- (fmul_fsum_r d n (fmul d (Cb k) (Cb l)) (fun i => fmul d (Cb i) (Cb i))).
  rewrite sum_CC. rewrite fmul_fscal_r, ftr_fscal, fmul_id_r. reflexivity.
Qed.
Lemma T4_sum_kili k l : csumn' n (fun i => T4 k i l i) = cmul' (tC k) (tC l).
Proof.
  unfold T4, tC.
  rewrite (csumn_ext n _ (fun i => ftr d (fmul d (Cb k) (fmul d (fmul d (Cb i) (Cb l)) (Cb i))))).
  2:{ intros i _. rewrite <- (fmul_assoc d (Cb k) (Cb i)). rewrite (fmul_assoc d (Cb i) (Cb l) (Cb i)). reflexivity. }
  rewrite <- ftr_fsum.
  rewrite <- (fmul_fsum_r d n (Cb k) (fun i => fmul d (fmul d (Cb i) (Cb l)) (Cb i))).
  rewrite (Hcomp (Cb l)). rewrite fmul_fscal_r, ftr_fscal, fmul_id_r. ring.
Qed.
Lemma T4_sum_kiil k l : csumn' n (fun i => T4 k i i l) = cmul' (cnat d) (ftr d (fmul d (Cb l) (Cb k))).
Proof.
  rewrite <- T4_sum_klii. apply csumn_ext. intros i _.
  rewrite (T4_cyclic l k i i), (T4_cyclic k i i l). rewrite (T4_cyclic i i l k). reflexivity.
Qed.

(* entrywise completeness and Parseval *)
Definition funit (b c : nat) : fmat := fun x y => if (Nat.eqb x b && Nat.eqb y c)%bool then 1c else 0c.
Lemma fmul_funit d' A b c Bq a e : (b < d')%nat -> (c < d')%nat ->
  fmul d' (fmul d' A (funit b c)) Bq a e = cmul' (A a b) (Bq c e).
Proof.
  intros Hb Hc. unfold fmul, funit.
  rewrite (csumn_ext d' _ (fun k => if Nat.eqb c k then cmul' (A a b) (Bq k e) else 0c)).
  rewrite (csumn_delta d' c (fun k => cmul' (A a b) (Bq k e))) by auto. reflexivity.
  intros k Hk.
  rewrite (csumn_ext d' _ (fun m => if Nat.eqb b m then (if Nat.eqb k c then A a m else 0c) else 0c)).
  rewrite (csumn_delta d' b (fun m => if Nat.eqb k c then A a m else 0c)) by auto.
  rewrite (Nat.eqb_sym c k). destruct (Nat.eqb k c); ring.
  intros m _. rewrite (Nat.eqb_sym b m). destruct (Nat.eqb m b), (Nat.eqb k c); simpl; ring.
Qed.
Lemma ftr_funit d' b c : (b < d')%nat -> (c < d')%nat -> ftr d' (funit b c) = if Nat.eqb b c then 1c else 0c.
Proof.
  intros Hb Hc. unfold ftr, funit.
  rewrite (csumn_ext d' _ (fun i => if Nat.eqb b i then (if Nat.eqb i c then 1c else 0c) else 0c)).
  rewrite (csumn_delta d' b (fun i => if Nat.eqb i c then 1c else 0c)) by auto. reflexivity.
  intros i _. rewrite (Nat.eqb_sym b i). destruct (Nat.eqb i b), (Nat.eqb i c); reflexivity.
Qed.
(* sum_i (C_i)_ab (C_i)_ce = delta_ae delta_bc *)
Lemma completeness_entries a b c e : (a < d)%nat -> (b < d)%nat -> (c < d)%nat -> (e < d)%nat ->
  csumn' n (fun i => cmul' (Cb i a b) (Cb i c e)) = if (Nat.eqb a e && Nat.eqb b c)%bool then 1c else 0c.
Proof.
  intros Ha Hb Hc He.
  pose proof (Hcomp (funit b c) a e Ha He) as H. unfold fsum in H.
  rewrite (csumn_ext n _ (fun i => cmul' (Cb i a b) (Cb i c e))) in H
    by (intros i _; apply fmul_funit; auto).
  rewrite H. unfold fscal, fid. rewrite ftr_funit by auto.
  destruct (Nat.eqb b c), (Nat.eqb a e); simpl; ring.
Qed.
(* Parseval: sum_i tr(Y C_i) tr(C_i Z) = tr(Y Z) *)
Lemma parseval_tr Y Z :
  csumn' n (fun i => cmul' (ftr d (fmul d Y (Cb i))) (ftr d (fmul d (Cb i) Z))) = ftr d (fmul d Y Z).
Proof.
  unfold ftr, fmul.
  (* expand to a quadruple sum and use entrywise completeness *)
  rewrite (csumn_ext n _ (fun i => csumn' d (fun a => csumn' d (fun b => csumn' d (fun c => csumn' d (fun e =>
     cmul' (cmul' (Y a b) (Z e c)) (cmul' (Cb i b a) (Cb i c e)))))))).
  2:{ intros i _. rewrite <- csumn_mul_r. apply csumn_ext. intros a _.
      rewrite <- csumn_mul_r. apply csumn_ext. intros b _.
      rewrite <- csumn_mul_l. apply csumn_ext. intros c _.
      rewrite <- csumn_mul_l. apply csumn_ext. intros e _. ring. }
  rewrite csumn_swap. apply csumn_ext. intros a Ha.
  rewrite csumn_swap. apply csumn_ext. intros b Hb.
  rewrite csumn_swap.
  rewrite (csumn_ext d _ (fun c => if Nat.eqb a c then cmul' (Y a b) (Z b a) else 0c)).
  rewrite (csumn_delta d a (fun c => cmul' (Y a b) (Z b a))) by auto. reflexivity.
  intros c Hc. rewrite csumn_swap.
  rewrite (csumn_ext d _ (fun e => if Nat.eqb b e then (if Nat.eqb a c then cmul' (Y a b) (Z e c) else 0c) else 0c)).
  rewrite (csumn_delta d b (fun e => if Nat.eqb a c then cmul' (Y a b) (Z e c) else 0c)) by auto.
  destruct (Nat.eqb a c) eqn:E; auto. apply Nat.eqb_eq in E. subst. reflexivity.
  intros e He. rewrite csumn_mul_l. rewrite completeness_entries by auto.
  destruct (Nat.eqb b e), (Nat.eqb a c); simpl; ring.
Qed.

End Basis.
