(* Scalar operations the numeric model is polymorphic in.
   Two instances: reals (Inst/RInst.v, all theorems) and floating-point intervals
   (Inst/IInst.v, execution by vm_compute in the correspondence check).          *)
From Coq Require Import ZArith List.
Import ListNotations.

Record Ops (T B : Type) := mkOps {
  o0 : T; o1 : T; opi : T;
  oadd : T -> T -> T; osub : T -> T -> T; omul : T -> T -> T; odiv : T -> T -> T;
  oneg : T -> T; oabs : T -> T; osqrt : T -> T; ocos : T -> T; osin : T -> T;
  odya : Z -> Z -> T;              (* odya m e = m * 2^e : exact value of a binary64 *)
  ogt : T -> T -> B;               (* x > y, possibly undecided in the interval instance *)
  oite : B -> T -> T -> T }.

Arguments o0 {T B}. Arguments o1 {T B}. Arguments opi {T B}.
Arguments oadd {T B}. Arguments osub {T B}. Arguments omul {T B}. Arguments odiv {T B}.
Arguments oneg {T B}. Arguments oabs {T B}. Arguments osqrt {T B}.
Arguments ocos {T B}. Arguments osin {T B}. Arguments odya {T B}.
Arguments ogt {T B}. Arguments oite {T B}.

Section Generic.
Context {T B : Type} (Op : Ops T B).

Definition oZ (z : Z) : T := odya Op z 0.
Definition o2 : T := oadd Op (o1 Op) (o1 Op).

(* ---------- complex numbers as pairs ---------- *)
Definition C : Type := (T * T)%type.
Definition c0 : C := (o0 Op, o0 Op).
Definition c1 : C := (o1 Op, o0 Op).
Definition ci : C := (o0 Op, o1 Op).
Definition cre (z : C) : T := fst z.
Definition cim (z : C) : T := snd z.
Definition cofr (x : T) : C := (x, o0 Op).
Definition cadd (a b : C) : C := (oadd Op (fst a) (fst b), oadd Op (snd a) (snd b)).
Definition csub (a b : C) : C := (osub Op (fst a) (fst b), osub Op (snd a) (snd b)).
Definition cneg (a : C) : C := (oneg Op (fst a), oneg Op (snd a)).
Definition cconj (a : C) : C := (fst a, oneg Op (snd a)).
Definition cmul (a b : C) : C :=
  (osub Op (omul Op (fst a) (fst b)) (omul Op (snd a) (snd b)),
   oadd Op (omul Op (fst a) (snd b)) (omul Op (snd a) (fst b))).
Definition cscal (x : T) (a : C) : C := (omul Op x (fst a), omul Op x (snd a)).
Definition cdivr (a : C) (x : T) : C := (odiv Op (fst a) x, odiv Op (snd a) x).
Definition cabs2 (a : C) : T := oadd Op (omul Op (fst a) (fst a)) (omul Op (snd a) (snd a)).
Definition cexp (th : T) : C := (ocos Op th, osin Op th).          (* e^{i th} *)
Definition cite (b : B) (x y : C) : C := (oite Op b (fst x) (fst y), oite Op b (snd x) (snd y)).
Definition cdya (re im : Z * Z) : C := (odya Op (fst re) (snd re), odya Op (fst im) (snd im)).

(* ---------- finite sums ---------- *)
Fixpoint sumn (n : nat) (f : nat -> T) : T :=
  match n with O => o0 Op | S k => oadd Op (sumn k f) (f k) end.
Fixpoint csumn (n : nat) (f : nat -> C) : C :=
  match n with O => c0 | S k => cadd (csumn k f) (f k) end.
Fixpoint sumlist (l : list T) : T :=
  match l with [] => o0 Op | x :: r => oadd Op x (sumlist r) end.
Fixpoint csumlist (l : list C) : C :=
  match l with [] => c0 | x :: r => cadd x (csumlist r) end.

(* ---------- vectors and matrices as lists ---------- *)
Definition build {A} (n : nat) (f : nat -> A) : list A := map f (seq 0 n).
Definition vget (v : list T) (i : nat) : T := nth i v (o0 Op).
Definition cvget (v : list C) (i : nat) : C := nth i v c0.
Definition Mat : Type := list (list C).
Definition mget (A : Mat) (i j : nat) : C := nth j (nth i A []) c0.
Definition mbuild (m n : nat) (f : nat -> nat -> C) : Mat := build m (fun i => build n (f i)).
Definition mid (d : nat) : Mat := mbuild d d (fun i j => if Nat.eqb i j then c1 else c0).
Definition mzero (m n : nat) : Mat := mbuild m n (fun _ _ => c0).
Definition mmul (d : nat) (A Bm : Mat) : Mat :=
  mbuild d d (fun i j => csumn d (fun k => cmul (mget A i k) (mget Bm k j))).
Definition madj (d : nat) (A : Mat) : Mat := mbuild d d (fun i j => cconj (mget A j i)).
Definition madd (d : nat) (A Bm : Mat) : Mat := mbuild d d (fun i j => cadd (mget A i j) (mget Bm i j)).
Definition mscal (d : nat) (z : C) (A : Mat) : Mat := mbuild d d (fun i j => cmul z (mget A i j)).
Definition mtrace (d : nat) (A : Mat) : C := csumn d (fun i => mget A i i).
(* tr (A B) without forming the product *)
Definition mtrprod (d : nat) (A Bm : Mat) : C :=
  csumn d (fun i => csumn d (fun k => cmul (mget A i k) (mget Bm k i))).
Definition mdiag (d : nat) (v : list C) : Mat :=
  mbuild d d (fun i j => if Nat.eqb i j then cvget v i else c0).

End Generic.
