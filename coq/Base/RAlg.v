(* Algebra of the real instance: complex numbers as pairs of reals form a commutative
   ring (so that [ring] works on the model's own operations), finite sums, and matrices
   viewed as functions nat -> nat -> C together with the refinement lemmas from the
   list representation used by the executable model.                                  *)
From Coq Require Import ZArith Reals List Lra Lia Ring.
From FF Require Import Base.Ops Inst.RInst.
Import ListNotations.
Local Open Scope R_scope.

Notation Cx := (C (T:=R)).
Notation "0c" := (c0 RO).
Notation "1c" := (c1 RO).
Notation ic := (ci RO).
Notation cadd' := (cadd RO).
Notation cmul' := (cmul RO).
Notation csub' := (csub RO).
Notation cneg' := (cneg RO).
Notation cconj' := (cconj RO).
Notation cexp' := (cexp RO).
Notation csumn' := (csumn RO).
Notation sumn' := (sumn RO).

Lemma c_eq (a b : Cx) : fst a = fst b -> snd a = snd b -> a = b.
Proof. destruct a, b; simpl; intros; subst; auto. Qed.

Ltac csimp := unfold cadd, cmul, csub, cneg, cconj, cscal, cdivr, cabs2, cexp, c0, c1, ci, cofr, cre, cim; simpl.
Ltac cring := intros; apply c_eq; csimp; try ring.

Lemma cring_theory : ring_theory 0c 1c cadd' cmul' csub' cneg' eq.
Proof. constructor; intros; apply c_eq; csimp; ring. Qed.
Add Ring CxRing : cring_theory.

Lemma cmul_comm (a b : Cx) : cmul' a b = cmul' b a. Proof. ring. Qed.
Lemma cmul_assoc (a b c : Cx) : cmul' a (cmul' b c) = cmul' (cmul' a b) c. Proof. ring. Qed.
Lemma cadd_comm (a b : Cx) : cadd' a b = cadd' b a. Proof. ring. Qed.
Lemma cadd_assoc (a b c : Cx) : cadd' a (cadd' b c) = cadd' (cadd' a b) c. Proof. ring. Qed.
Lemma cadd_0_l (a : Cx) : cadd' 0c a = a. Proof. ring. Qed.
Lemma cadd_0_r (a : Cx) : cadd' a 0c = a. Proof. ring. Qed.
Lemma cmul_0_l (a : Cx) : cmul' 0c a = 0c. Proof. ring. Qed.
Lemma cmul_0_r (a : Cx) : cmul' a 0c = 0c. Proof. ring. Qed.
Lemma cmul_1_l (a : Cx) : cmul' 1c a = a. Proof. ring. Qed.
Lemma cmul_1_r (a : Cx) : cmul' a 1c = a. Proof. ring. Qed.
Lemma cmul_add_distr_l (a b c : Cx) : cmul' a (cadd' b c) = cadd' (cmul' a b) (cmul' a c). Proof. ring. Qed.
Lemma cmul_add_distr_r (a b c : Cx) : cmul' (cadd' a b) c = cadd' (cmul' a c) (cmul' b c). Proof. ring. Qed.

Lemma cconj_add (a b : Cx) : cconj' (cadd' a b) = cadd' (cconj' a) (cconj' b). Proof. cring. Qed.
Lemma cconj_mul (a b : Cx) : cconj' (cmul' a b) = cmul' (cconj' a) (cconj' b). Proof. cring. Qed.
Lemma cconj_invol (a : Cx) : cconj' (cconj' a) = a. Proof. cring. Qed.
Lemma cconj_0 : cconj' 0c = 0c. Proof. cring. Qed.
Lemma cconj_1 : cconj' 1c = 1c. Proof. cring. Qed.
Lemma cmul_conj_abs2 (a : Cx) : cmul' (cconj' a) a = cofr RO (cabs2 RO a). Proof. cring. Qed.
Lemma cabs2_nonneg (a : Cx) : 0 <= cabs2 RO a.
Proof. csimp. nra. Qed.

(* e^{i th} *)
Lemma cexp_add (a b : R) : cexp' (a + b) = cmul' (cexp' a) (cexp' b).
Proof. apply c_eq; csimp; [apply cos_plus | rewrite sin_plus; ring]. Qed.
Lemma cexp_0 : cexp' 0 = 1c.
Proof. apply c_eq; csimp; [apply cos_0 | apply sin_0]. Qed.
Lemma cexp_neg (a : R) : cexp' (- a) = cconj' (cexp' a).
Proof. apply c_eq; csimp; [apply cos_neg | apply sin_neg]. Qed.
Lemma cexp_abs2 (a : R) : cabs2 RO (cexp' a) = 1.
Proof. csimp. generalize (sin2_cos2 a). unfold Rsqr. lra. Qed.
Lemma cexp_conj_mul (a : R) : cmul' (cconj' (cexp' a)) (cexp' a) = 1c.
Proof. rewrite cmul_conj_abs2, cexp_abs2. reflexivity. Qed.

(* ---------- finite sums ---------- *)
Lemma csumn_S n (f : nat -> Cx) : csumn' (S n) f = cadd' (csumn' n f) (f n).
Proof. reflexivity. Qed.
Lemma csumn_ext n (f g : nat -> Cx) : (forall k, (k < n)%nat -> f k = g k) -> csumn' n f = csumn' n g.
Proof. induction n; intros H; simpl; auto. rewrite IHn, H; auto. Qed.
Lemma csumn_0 n : csumn' n (fun _ => 0c) = 0c.
Proof. induction n; simpl; auto. rewrite IHn. ring. Qed.
Lemma csumn_add n (f g : nat -> Cx) : csumn' n (fun k => cadd' (f k) (g k)) = cadd' (csumn' n f) (csumn' n g).
Proof. induction n; simpl. ring. rewrite IHn. ring. Qed.
Lemma csumn_mul_l n (a : Cx) (f : nat -> Cx) : csumn' n (fun k => cmul' a (f k)) = cmul' a (csumn' n f).
Proof. induction n; simpl. ring. rewrite IHn. ring. Qed.
Lemma csumn_mul_r n (a : Cx) (f : nat -> Cx) : csumn' n (fun k => cmul' (f k) a) = cmul' (csumn' n f) a.
Proof. induction n; simpl. ring. rewrite IHn. ring. Qed.
Lemma csumn_conj n (f : nat -> Cx) : cconj' (csumn' n f) = csumn' n (fun k => cconj' (f k)).
Proof. induction n; simpl. apply cconj_0. rewrite cconj_add, IHn. reflexivity. Qed.
Lemma csumn_swap m n (f : nat -> nat -> Cx) :
  csumn' m (fun i => csumn' n (fun j => f i j)) = csumn' n (fun j => csumn' m (fun i => f i j)).
Proof.
  induction m; simpl. symmetry; apply csumn_0.
  rewrite IHm. rewrite <- csumn_add. reflexivity.
Qed.
Lemma csumn_delta n i (f : nat -> Cx) : (i < n)%nat ->
  csumn' n (fun k => if Nat.eqb i k then f k else 0c) = f i.
Proof.
  induction n; intros H. lia. simpl.
  destruct (Nat.eqb_spec i n) as [->|Hne].
  - rewrite (csumn_ext n _ (fun _ => 0c)). rewrite csumn_0. ring.
    intros k Hk. destruct (Nat.eqb_spec n k); auto. lia.
  - rewrite IHn by lia. ring.
Qed.
Lemma csumn_delta' n i (f : nat -> Cx) : (i < n)%nat ->
  csumn' n (fun k => if Nat.eqb k i then f k else 0c) = f i.
Proof. intros H. rewrite <- (csumn_delta n i f H). apply csumn_ext. intros k _. rewrite Nat.eqb_sym. reflexivity. Qed.
Lemma csumn_app m n (f : nat -> Cx) :
  csumn' (m + n) f = cadd' (csumn' m f) (csumn' n (fun k => f (m + k)%nat)).
Proof. induction n; simpl. rewrite Nat.add_0_r. ring. rewrite Nat.add_succ_r. simpl. rewrite IHn. ring. Qed.
Lemma csumn_re n (f : nat -> Cx) : fst (csumn' n f) = sumn' n (fun k => fst (f k)).
Proof. induction n; simpl; auto. rewrite IHn. reflexivity. Qed.
Lemma csumn_im n (f : nat -> Cx) : snd (csumn' n f) = sumn' n (fun k => snd (f k)).
Proof. induction n; simpl; auto. rewrite IHn. reflexivity. Qed.

Lemma sumn_ext n (f g : nat -> R) : (forall k, (k < n)%nat -> f k = g k) -> sumn' n f = sumn' n g.
Proof. induction n; intros H; simpl; auto. rewrite IHn, H; auto. Qed.
Lemma sumn_add n (f g : nat -> R) : sumn' n (fun k => f k + g k) = sumn' n f + sumn' n g.
Proof. induction n; simpl. ring. rewrite IHn. ring. Qed.
Lemma sumn_mul_l n a (f : nat -> R) : sumn' n (fun k => a * f k) = a * sumn' n f.
Proof. induction n; simpl. ring. rewrite IHn. ring. Qed.
Lemma sumn_0 n : sumn' n (fun _ => 0) = 0.
Proof. induction n; simpl; auto. rewrite IHn. ring. Qed.
Lemma sumn_nonneg n (f : nat -> R) : (forall k, (k < n)%nat -> 0 <= f k) -> 0 <= sumn' n f.
Proof. induction n; intros H; simpl. lra. apply Rplus_le_le_0_compat; auto. Qed.
Lemma sumn_le n (f g : nat -> R) : (forall k, (k < n)%nat -> f k <= g k) -> sumn' n f <= sumn' n g.
Proof. induction n; intros H; simpl. lra. apply Rplus_le_compat; auto. Qed.
Lemma sumn_swap m n (f : nat -> nat -> R) :
  sumn' m (fun i => sumn' n (fun j => f i j)) = sumn' n (fun j => sumn' m (fun i => f i j)).
Proof. induction m; simpl. symmetry; apply sumn_0. rewrite IHm, <- sumn_add. reflexivity. Qed.

(* ---------- lists: build / nth ---------- *)
Lemma build_length {A} n (f : nat -> A) : length (build n f) = n.
Proof. unfold build. rewrite map_length, seq_length. reflexivity. Qed.
Lemma nth_build {A} n (f : nat -> A) i d : (i < n)%nat -> nth i (build n f) d = f i.
Proof.
  intros H. unfold build.
  rewrite (nth_indep _ d (f 0%nat)) by (rewrite map_length, seq_length; auto).
  rewrite map_nth, seq_nth; auto.
Qed.
Lemma mget_mbuild m n (f : nat -> nat -> Cx) i j : (i < m)%nat -> (j < n)%nat ->
  mget RO (mbuild m n f) i j = f i j.
Proof. intros Hi Hj. unfold mget, mbuild. rewrite nth_build by auto. rewrite nth_build by auto. reflexivity. Qed.

(* ---------- matrices as functions ---------- *)
Definition fmat := nat -> nat -> Cx.
Definition feq (d : nat) (A B : fmat) : Prop := forall i j, (i < d)%nat -> (j < d)%nat -> A i j = B i j.
Definition fmul (d : nat) (A B : fmat) : fmat := fun i j => csumn' d (fun k => cmul' (A i k) (B k j)).
Definition fadj (A : fmat) : fmat := fun i j => cconj' (A j i).
Definition fid : fmat := fun i j => if Nat.eqb i j then 1c else 0c.
Definition fadd (A B : fmat) : fmat := fun i j => cadd' (A i j) (B i j).
Definition fscal (z : Cx) (A : fmat) : fmat := fun i j => cmul' z (A i j).
Definition ftr (d : nat) (A : fmat) : Cx := csumn' d (fun i => A i i).
Definition funitary (d : nat) (U : fmat) : Prop := feq d (fmul d (fadj U) U) fid /\ feq d (fmul d U (fadj U)) fid.
Definition fherm (d : nat) (A : fmat) : Prop := feq d (fadj A) A.
Definition toF (A : Mat) : fmat := mget RO A.

Lemma feq_refl d A : feq d A A. Proof. intros i j _ _; reflexivity. Qed.
Lemma feq_sym d A B : feq d A B -> feq d B A. Proof. intros H i j Hi Hj; symmetry; auto. Qed.
Lemma feq_trans d A B Cm : feq d A B -> feq d B Cm -> feq d A Cm.
Proof. intros H1 H2 i j Hi Hj. rewrite H1, H2; auto. Qed.

Lemma fmul_ext d A A' B B' : feq d A A' -> feq d B B' -> feq d (fmul d A B) (fmul d A' B').
Proof. intros HA HB i j Hi Hj. unfold fmul. apply csumn_ext. intros k Hk. rewrite HA, HB; auto. Qed.
Lemma fmul_assoc d A B Cm : feq d (fmul d A (fmul d B Cm)) (fmul d (fmul d A B) Cm).
Proof.
  intros i j _ _. unfold fmul.
  rewrite (csumn_ext d _ (fun k => csumn' d (fun l => cmul' (cmul' (A i k) (B k l)) (Cm l j)))).
  2:{ intros k _. rewrite <- csumn_mul_l. apply csumn_ext. intros l _. ring. }
  rewrite csumn_swap. apply csumn_ext. intros l _. rewrite <- csumn_mul_r. reflexivity.
Qed.
Lemma fmul_id_l d A : feq d (fmul d fid A) A.
Proof. intros i j Hi Hj. unfold fmul, fid.
  rewrite (csumn_ext d _ (fun k => if Nat.eqb i k then A k j else 0c)).
  apply (csumn_delta d i (fun k => A k j)); auto. intros k _. destruct (Nat.eqb i k); ring. Qed.
Lemma fmul_id_r d A : feq d (fmul d A fid) A.
Proof. intros i j Hi Hj. unfold fmul, fid.
  rewrite (csumn_ext d _ (fun k => if Nat.eqb k j then A i k else 0c)).
  apply (csumn_delta' d j (fun k => A i k)); auto. intros k _. destruct (Nat.eqb k j); ring. Qed.
Lemma fadj_mul d A B : feq d (fadj (fmul d A B)) (fmul d (fadj B) (fadj A)).
Proof. intros i j _ _. unfold fadj, fmul. rewrite csumn_conj. apply csumn_ext. intros k _.
  rewrite cconj_mul. ring. Qed.
Lemma fadj_invol A i j : fadj (fadj A) i j = A i j.
Proof. unfold fadj. apply cconj_invol. Qed.
Lemma fadj_id d : feq d (fadj fid) fid.
Proof. intros i j _ _. unfold fadj, fid. rewrite Nat.eqb_sym. destruct (Nat.eqb i j); [apply cconj_1|apply cconj_0]. Qed.
Lemma ftr_ext d A B : feq d A B -> ftr d A = ftr d B.
Proof. intros H. apply csumn_ext. intros; apply H; auto. Qed.
Lemma ftr_cyclic d A B : ftr d (fmul d A B) = ftr d (fmul d B A).
Proof. unfold ftr, fmul. rewrite csumn_swap. apply csumn_ext. intros k _. apply csumn_ext. intros i _. ring. Qed.
Lemma ftr_add d A B : ftr d (fadd A B) = cadd' (ftr d A) (ftr d B).
Proof. unfold ftr, fadd. apply csumn_add. Qed.
Lemma ftr_adj d A : ftr d (fadj A) = cconj' (ftr d A).
Proof. unfold ftr, fadj. rewrite csumn_conj. reflexivity. Qed.

Lemma funitary_id d : funitary d fid.
Proof. split; (eapply feq_trans; [apply fmul_ext; [apply fadj_id || apply feq_refl | apply fadj_id || apply feq_refl] | apply fmul_id_l]). Qed.
Lemma funitary_mul d U V : funitary d U -> funitary d V -> funitary d (fmul d U V).
Proof.
  intros [HU1 HU2] [HV1 HV2]. split.
  - (* (UV)† UV = V† U† U V *)
    eapply feq_trans. apply fmul_ext; [apply fadj_mul | apply feq_refl].
    eapply feq_trans. apply feq_sym, fmul_assoc.
    eapply feq_trans. apply fmul_ext; [apply feq_refl | apply fmul_assoc].
    eapply feq_trans. apply fmul_ext; [apply feq_refl | apply fmul_ext; [apply HU1 | apply feq_refl]].
    eapply feq_trans. apply fmul_ext; [apply feq_refl | apply fmul_id_l]. exact HV1.
  - eapply feq_trans. apply fmul_ext; [apply feq_refl | apply fadj_mul].
    eapply feq_trans. apply feq_sym, fmul_assoc.
    eapply feq_trans. apply fmul_ext; [apply feq_refl | apply fmul_assoc].
    eapply feq_trans. apply fmul_ext; [apply feq_refl | apply fmul_ext; [apply HV2 | apply feq_refl]].
    eapply feq_trans. apply fmul_ext; [apply feq_refl | apply fmul_id_l]. exact HU2.
Qed.

(* refinement: list matrices -> function matrices *)
Lemma toF_mmul d A B : feq d (toF (mmul RO d A B)) (fmul d (toF A) (toF B)).
Proof. intros i j Hi Hj. unfold toF, mmul. rewrite mget_mbuild; auto. Qed.
Lemma toF_madj d A : feq d (toF (madj RO d A)) (fadj (toF A)).
Proof. intros i j Hi Hj. unfold toF, madj. rewrite mget_mbuild; auto. Qed.
Lemma toF_mid d : feq d (toF (mid RO d)) fid.
Proof. intros i j Hi Hj. unfold toF, mid. rewrite mget_mbuild; auto. Qed.
Lemma toF_madd d A B : feq d (toF (madd RO d A B)) (fadd (toF A) (toF B)).
Proof. intros i j Hi Hj. unfold toF, madd. rewrite mget_mbuild; auto. Qed.
Lemma toF_mscal d z A : feq d (toF (mscal RO d z A)) (fscal z (toF A)).
Proof. intros i j Hi Hj. unfold toF, mscal. rewrite mget_mbuild; auto. Qed.
Lemma mtrace_ftr d A : mtrace RO d A = ftr d (toF A).
Proof. reflexivity. Qed.
Lemma mtrprod_ftr d A B : mtrprod RO d A B = ftr d (fmul d (toF A) (toF B)).
Proof. reflexivity. Qed.
