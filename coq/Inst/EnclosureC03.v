(* Enclosure for the C03 numeric model (paramcoq, kernel-checked): the atomic-path control matrix, the
   per-pulse control matrices, the pulse-correlation filter functions and the ordered propagator product
   evaluated on the interval instance enclose their values on the real instance.                      *)
From Coq Require Import ZArith Reals List.
From Param Require Import Param.
From FF Require Import Base.Ops Inst.RInst Inst.IInst Inst.Param Model.Numeric Model.Atomic.
Import ListNotations.

Parametricity Recursive concat_atomic.
Parametricity Recursive concat_atomic_pc.
Parametricity Recursive pc_filter_function.
Parametricity Recursive pc_filter_function_gen.
Parametricity Recursive mdot_rev.
Parametricity Recursive cm_pc_total.

Module EnclC03.
  Import PP.
  Definition concat_atomic_enclosure := concat_atomic_R M.I.type R TR (option bool) bool BR IOP RO IOP_RO.
  Definition concat_atomic_pc_enclosure := concat_atomic_pc_R M.I.type R TR (option bool) bool BR IOP RO IOP_RO.
  Definition pc_filter_function_enclosure := pc_filter_function_R M.I.type R TR (option bool) bool BR IOP RO IOP_RO.
  Definition pc_filter_function_gen_enclosure := pc_filter_function_gen_R M.I.type R TR (option bool) bool BR IOP RO IOP_RO.
  Definition mdot_rev_enclosure := mdot_rev_R M.I.type R TR (option bool) bool BR IOP RO IOP_RO.
End EnclC03.
Check EnclC03.concat_atomic_enclosure.
