(* Enclosure theorems (paramcoq) for the C08 / C09 model functions: evaluated on the interval
   instance they enclose their value on the real instance.                                   *)
From Coq Require Import ZArith Reals List Lra.
From Param Require Import Param.
From Interval Require Import Xreal Interval Basic.
From FF Require Import Base.Ops Inst.RInst Inst.IInst Inst.Param Model.Numeric Model.Decay Model.Cumulant.
Import ListNotations.

Parametricity Recursive decay_amplitudes.
Parametricity Recursive decay_amplitudes_pc.
Parametricity Recursive infidelity_total.
Parametricity Recursive infidelity_pc.
Parametricity Recursive cm_pc_sum.
Parametricity Recursive cumulant_function.
Parametricity Recursive cumulant_sum.
Parametricity Recursive exp_taylor.
Parametricity Recursive liouville_to_choi.
Parametricity Recursive projected_choi.

Module EnclC08.
  Import PP.
  Definition decay_enclosure := decay_amplitudes_R M.I.type R TR (option bool) bool BR IOP RO IOP_RO.
  Definition infidelity_enclosure := infidelity_total_R M.I.type R TR (option bool) bool BR IOP RO IOP_RO.
  Definition infidelity_pc_enclosure := infidelity_pc_R M.I.type R TR (option bool) bool BR IOP RO IOP_RO.
  Definition cumulant_enclosure := cumulant_function_R M.I.type R TR (option bool) bool BR IOP RO IOP_RO.
  Definition exp_taylor_enclosure := exp_taylor_R M.I.type R TR (option bool) bool BR IOP RO IOP_RO.
  Definition choi_enclosure := liouville_to_choi_R M.I.type R TR (option bool) bool BR IOP RO IOP_RO.
End EnclC08.
Check EnclC08.decay_enclosure.
Print Assumptions EnclC08.decay_enclosure.
