(* Enclosure of the basis model (Model/BasisModel.v): produced by paramcoq and checked by the kernel,
   every polymorphic function of the model evaluated on the interval instance is related to its value
   on the real instance as soon as the Ops records are (Inst/Param.v: IOP_RO / IOB_RO).            *)
From Coq Require Import ZArith Reals List.
From Param Require Import Param.
From FF Require Import Base.Ops Inst.RInst Inst.IInst Inst.Param Model.BasisModel.

(* nat -> nat functions whose fixpoints return their own argument leave paramcoq obligations: their
   translations are supplied by hand (nat_R is equality) *)
Parametricity Recursive nat.
Lemma nat_R_eq' : forall n m, nat_R n m -> n = m.
Proof. induction 1; congruence. Qed.
Lemma nat_R_refl' : forall n, nat_R n n.
Proof. induction n; constructor; auto. Qed.
Definition nat2_R (f : nat -> nat -> nat) :
  forall n1 n2 (nR : nat_R n1 n2) m1 m2 (mR : nat_R m1 m2), nat_R (f n1 m1) (f n2 m2).
Proof. intros. apply nat_R_eq' in nR. apply nat_R_eq' in mR. subst. apply nat_R_refl'. Defined.
Realizer Nat.sub as Nat_sub_R := (nat2_R Nat.sub).
Realizer Nat.div as Nat_div_R := (nat2_R Nat.div).
Realizer Nat.modulo as Nat_modulo_R := (nat2_R Nat.modulo).

Parametricity Recursive pauli_basis.
Parametricity Recursive ggm_basis.
Parametricity Recursive normalize.
Parametricity Recursive expand_c.
Parametricity Recursive ggm_expand.
Parametricity Recursive reconstruct.
Parametricity Recursive isherm_viol.
Parametricity Recursive isorthonorm_viol.
Parametricity Recursive istraceless_viol.
Parametricity Recursive tidyup.
Parametricity Recursive fp_coeffs.
Parametricity Recursive fp_basis.
Parametricity Recursive rows_orth_residual.

(* instances for the 160-bit interval arithmetic used by the C14 correspondence check *)
Module EnclB.
  Import PB.
  Definition pauli_enclosure := pauli_basis_R M.I.type R TR (option bool) bool BR IOB RO IOB_RO.
  Definition ggm_enclosure := ggm_basis_R M.I.type R TR (option bool) bool BR IOB RO IOB_RO.
  Definition normalize_enclosure := normalize_R M.I.type R TR (option bool) bool BR IOB RO IOB_RO.
  Definition expand_enclosure := expand_c_R M.I.type R TR (option bool) bool BR IOB RO IOB_RO.
  Definition ggm_expand_enclosure := ggm_expand_R M.I.type R TR (option bool) bool BR IOB RO IOB_RO.
  Definition isherm_enclosure := isherm_viol_R M.I.type R TR (option bool) bool BR IOB RO IOB_RO.
  Definition isorthonorm_enclosure := isorthonorm_viol_R M.I.type R TR (option bool) bool BR IOB RO IOB_RO.
  Definition istraceless_enclosure := istraceless_viol_R M.I.type R TR (option bool) bool BR IOB RO IOB_RO.
  Definition fp_coeffs_enclosure := fp_coeffs_R M.I.type R TR (option bool) bool BR IOB RO IOB_RO.
  Definition fp_basis_enclosure := fp_basis_R M.I.type R TR (option bool) bool BR IOB RO IOB_RO.
  Definition rows_orth_enclosure := rows_orth_residual_R M.I.type R TR (option bool) bool BR IOB RO IOB_RO.
End EnclB.
Check EnclB.pauli_enclosure.
Check EnclB.istraceless_enclosure.

