(* Enclosure theorems for the gradient model (produced by paramcoq, checked by the kernel): the
   observables of the C11 correspondence check evaluated on the interval instance enclose their
   values on the real instance, which the theorems of Proofs/Gradient.v are about.            *)
From Coq Require Import ZArith Reals List Lra.
From Param Require Import Param.
From Interval Require Import Xreal Interval Basic.
From FF Require Import Base.Ops Inst.RInst Inst.IInst Inst.Param Model.Numeric Model.Gradient Corr.Agree Corr.ObsC11.
Import ListNotations.

Parametricity Recursive model_di.
Parametricity Recursive model_all.

Module EnclC11.
  Import PP.
  (* gradient._derivative_integral, all branches *)
  Definition di_enclosure := model_di_R M.I.type R TR (option bool) bool BR IOP RO IOP_RO.
  (* (ctrlmat_deriv, filter_function_derivative, infidelity_derivative) *)
  Definition all_enclosure := model_all_R M.I.type R TR (option bool) bool BR IOP RO IOP_RO.
  Definition di_enclosure_big := model_di_R PB.M.I.type R PB.TR (option bool) bool PB.BR IOB RO IOB_RO.
  Definition all_enclosure_big := model_all_R PB.M.I.type R PB.TR (option bool) bool PB.BR IOB RO IOB_RO.
End EnclC11.
Print Assumptions EnclC11.all_enclosure.
