(* Interval instance of Ops (Coq-Interval): the executable model used by the
   correspondence check (vm_compute).  Functor over the float implementation; it is
   applied in Inst/Param.v to hardware floats and to multi-precision (BigZ) floats. *)
From Coq Require Import ZArith Reals List.
From Interval Require Import Float_full Xreal Interval Basic.
From FF Require Import Base.Ops.

Module MkI (F : Interval.Float.Sig.FloatOps with Definition sensible_format := true).
  Module I := FloatIntervalFull F.
  Section P.
  Variable prec : F.precision.
  Definition igt (x y : I.type) : option bool :=
    let d := I.sub prec x y in
    match I.sign_strict d with
    | Xgt => Some true
    | _ => match I.sign_large d with
           | Xlt | Xeq => Some false
           | _ => None end
    end.
  Definition iite (b : option bool) (x y : I.type) : I.type :=
    match b with Some true => x | Some false => y | None => I.nai end.
  Definition idya (m e : Z) : I.type :=
    I.mul prec (I.fromZ prec m) (I.power_int prec (I.fromZ prec 2) e).
  Definition IO : Ops I.type (option bool) :=
    mkOps I.type (option bool) (I.fromZ prec 0) (I.fromZ prec 1) (I.pi prec)
      (I.add prec) (I.sub prec) (I.mul prec) (I.div prec) I.neg I.abs (I.sqrt prec)
      (I.cos prec) (I.sin prec) idya igt iite.
  End P.
End MkI.
