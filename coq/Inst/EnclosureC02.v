(* Enclosure for the C02 / C04 numeric models (paramcoq, kernel-checked): propagators, the arbitrary-time
   propagator, t / tau bookkeeping, the periodic control matrix, the explicit geometric sum, the residual of
   the solve oracle and the atomic rule on G copies, evaluated on the interval instances, enclose their
   values on the real instance (the one the theorems of Properties/C02.v and C04.v are about).         *)
From Coq Require Import ZArith Reals List.
From Param Require Import Param.
From FF Require Import Base.Ops Inst.RInst Inst.IInst Inst.Param Model.Numeric Model.Propagator Model.Periodic.
Import ListNotations.

Parametricity Recursive propagators.
Parametricity Recursive times.
Parametricity Recursive total_propagator.
Parametricity Recursive propagator_at_arb_t.
Parametricity Recursive tau_get.
Parametricity Recursive t_get.
Parametricity Recursive concat_tau_assigned.
Parametricity Recursive periodic_tau_assigned.
Parametricity Recursive cm_periodic.
Parametricity Recursive S_list_from.
Parametricity Recursive solve_residual.
Parametricity Recursive atomic_repeated.
Parametricity Recursive mpow.
Parametricity Recursive cpow.

Module EnclC02.
  Import PP.
  Definition propagators_enclosure := propagators_R M.I.type R TR (option bool) bool BR IOP RO IOP_RO.
  Definition total_propagator_enclosure := total_propagator_R M.I.type R TR (option bool) bool BR IOP RO IOP_RO.
  Definition arb_t_enclosure := propagator_at_arb_t_R M.I.type R TR (option bool) bool BR IOP RO IOP_RO.
  Definition times_enclosure := times_R M.I.type R TR (option bool) bool BR IOP RO IOP_RO.
  Definition tau_get_enclosure := tau_get_R M.I.type R TR (option bool) bool BR IOP RO IOP_RO.
  Definition cm_periodic_enclosure := cm_periodic_R M.I.type R TR (option bool) bool BR IOP RO IOP_RO.
  Definition solve_residual_enclosure := solve_residual_R M.I.type R TR (option bool) bool BR IOP RO IOP_RO.
  Definition atomic_repeated_enclosure := atomic_repeated_R M.I.type R TR (option bool) bool BR IOP RO IOP_RO.
  Definition mpow_enclosure := mpow_R M.I.type R TR (option bool) bool BR IOP RO IOP_RO.
End EnclC02.
Module EnclC02B.
  Import PB.
  Definition propagators_enclosure := propagators_R M.I.type R TR (option bool) bool BR IOB RO IOB_RO.
  Definition arb_t_enclosure := propagator_at_arb_t_R M.I.type R TR (option bool) bool BR IOB RO IOB_RO.
  Definition cm_periodic_enclosure := cm_periodic_R M.I.type R TR (option bool) bool BR IOB RO IOB_RO.
  Definition solve_residual_enclosure := solve_residual_R M.I.type R TR (option bool) bool BR IOB RO IOB_RO.
  Definition atomic_repeated_enclosure := atomic_repeated_R M.I.type R TR (option bool) bool BR IOB RO IOB_RO.
End EnclC02B.
Check EnclC02.arb_t_enclosure.
Check EnclC02.cm_periodic_enclosure.
Check EnclC02.atomic_repeated_enclosure.
Check EnclC02.propagators_enclosure.
Check EnclC02.tau_get_enclosure.
