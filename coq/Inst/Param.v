(* Enclosure: the interval instance is related to the real instance (paramcoq relation),
   so by parametricity every model function evaluated on intervals encloses its real value. *)
From Coq Require Import ZArith Reals List Lra.
From Param Require Import Param.
From Interval Require Import Primitive_ops Specific_bigint Specific_ops Float_full Xreal Interval Basic.
From FF Require Import Base.Ops Inst.RInst Inst.IInst.

Parametricity Recursive Ops.
Parametricity Recursive Z.

Lemma Z_R_eq : forall a b, Z_R a b -> a = b.
Proof.
  assert (P: forall p q, positive_R p q -> p = q) by (induction 1; congruence).
  intros a b [| p q H | p q H]; auto; f_equal; auto.
Qed.
Lemma positive_R_refl : forall p, positive_R p p.
Proof. induction p; constructor; auto. Qed.
Lemma Z_R_refl : forall a, Z_R a a.
Proof. destruct a; constructor; apply positive_R_refl. Qed.

Module MkP (F : Interval.Float.Sig.FloatOps with Definition sensible_format := true).
  Module M := MkI F.
  Import M.
  Definition TR (i : I.type) (r : R) : Prop := contains (I.convert i) (Xreal r).
  Definition BR (ob : option bool) (b : bool) : Prop := ob = None \/ ob = Some b.

  Section P.
  Variable prec : F.precision.

  Lemma iite_ok b1 b2 : BR b1 b2 -> forall x1 x2, TR x1 x2 -> forall y1 y2, TR y1 y2 ->
    TR (iite b1 x1 y1) (if b2 then x2 else y2).
  Proof.
    intros [-> | ->] x1 x2 Hx y1 y2 Hy; simpl.
    - unfold TR. rewrite I.nai_correct. exact Logic.I.
    - destruct b2; assumption.
  Qed.

  Lemma igt_ok x1 x2 : TR x1 x2 -> forall y1 y2, TR y1 y2 -> BR (igt prec x1 y1) (Rgtb x2 y2).
  Proof.
    intros Hx y1 y2 Hy. unfold igt, BR.
    assert (Hd : contains (I.convert (I.sub prec x1 y1)) (Xreal (x2 - y2)%R))
      by (apply (I.sub_correct prec x1 y1 (Xreal x2) (Xreal y2)); assumption).
    set (d := I.sub prec x1 y1) in *.
    assert (Hgt : I.sign_strict d = Xgt -> Rgtb x2 y2 = true).
    { intros E. generalize (I.sign_strict_correct d). rewrite E. intros Hs.
      apply Rgtb_true. destruct (Hs _ Hd) as [_ H]. simpl in H. lra. }
    assert (Hle : I.sign_large d = Xlt \/ I.sign_large d = Xeq -> Rgtb x2 y2 = false).
    { intros E. pose proof (I.sign_large_correct d) as H. apply Rgtb_false.
      destruct E as [E|E]; rewrite E in H.
      - destruct (H _ Hd) as [_ H1]. simpl in H1. lra.
      - specialize (H _ Hd). inversion H as [H0]. lra. }
    destruct (I.sign_strict d) eqn:Es.
    3:{ right. rewrite Hgt; auto. }
    all: destruct (I.sign_large d) eqn:El; auto; right; rewrite Hle; auto.
  Qed.

  Lemma idya_ok m1 m2 : Z_R m1 m2 -> forall e1 e2, Z_R e1 e2 -> TR (idya prec m1 e1) (Rdya m2 e2).
  Proof.
    intros Hm e1 e2 He. apply Z_R_eq in Hm. apply Z_R_eq in He. subst.
    unfold idya, Rdya, TR.
    assert (H2 : contains (I.convert (I.power_int prec (I.fromZ prec 2) e2)) (Xreal (powerRZ 2 e2))).
    { generalize (I.power_int_correct prec e2 (I.fromZ prec 2) (Xreal 2) (I.fromZ_correct prec 2)).
      unfold Xpower_int, Xbind, Xpower_int'. 
      destruct e2; simpl; auto.
      rewrite (is_zero_false 2) by lra. auto. }
    apply (I.mul_correct prec _ _ (Xreal (IZR m2)) (Xreal (powerRZ 2 e2))); auto.
    apply I.fromZ_correct.
  Qed.

  Lemma div_ok x1 x2 : TR x1 x2 -> forall y1 y2, TR y1 y2 -> TR (I.div prec x1 y1) (x2 / y2)%R.
  Proof.
    intros Hx y1 y2 Hy. unfold TR.
    generalize (I.div_correct prec x1 y1 (Xreal x2) (Xreal y2) Hx Hy).
    unfold Xbind2, Xdiv'. destruct (is_zero y2); auto.
    intros H. destruct (I.convert (I.div prec x1 y1)); simpl in *; auto. contradiction.
  Qed.

  Lemma IO_RO : Ops_R I.type R TR (option bool) bool BR (IO prec) RO.
  Proof.
    unfold IO, RO. constructor.
    - apply I.fromZ_correct.
    - apply I.fromZ_correct.
    - apply I.pi_correct.
    - intros x1 x2 Hx y1 y2 Hy. apply (I.add_correct prec x1 y1 (Xreal x2) (Xreal y2)); auto.
    - intros x1 x2 Hx y1 y2 Hy. apply (I.sub_correct prec x1 y1 (Xreal x2) (Xreal y2)); auto.
    - intros x1 x2 Hx y1 y2 Hy. apply (I.mul_correct prec x1 y1 (Xreal x2) (Xreal y2)); auto.
    - apply div_ok.
    - intros x1 x2 Hx. apply (I.neg_correct x1 (Xreal x2)); auto.
    - intros x1 x2 Hx. apply (I.abs_correct x1 (Xreal x2)); auto.
    - intros x1 x2 Hx. apply (I.sqrt_correct prec x1 (Xreal x2)); auto.
    - intros x1 x2 Hx. apply (I.cos_correct prec x1 (Xreal x2)); auto.
    - intros x1 x2 Hx. apply (I.sin_correct prec x1 (Xreal x2)); auto.
    - apply idya_ok.
    - apply igt_ok.
    - apply iite_ok.
  Qed.
  End P.
End MkP.

Module PP := MkP PrimitiveFloat.
Module FB := SpecificFloat BigIntRadix2.
Module PB := MkP FB.

(* The two executable instances and their relation to the real instance. *)
Definition precP := PrimitiveFloat.PtoP 53.
Definition precB := FB.PtoP 160.
Definition IOP := PP.M.IO precP.
Definition IOB := PB.M.IO precB.
Definition IOP_RO := PP.IO_RO precP.
Definition IOB_RO := PB.IO_RO precB.
