(* Enclosure theorems (checked by the kernel, produced by paramcoq): every numeric model function
   evaluated on the interval instance encloses its value on the real instance, and the in-Coq
   comparison [close1] = VAgree really bounds the distance between the implementation's number
   and the real-valued model value.                                                           *)
From Coq Require Import ZArith Reals List Lra.
From Param Require Import Param.
From Interval Require Import Xreal Interval Basic.
From FF Require Import Base.Ops Inst.RInst Inst.IInst Inst.Param Model.Numeric Model.Top Corr.Agree Corr.Obs.
Import ListNotations.

Parametricity Recursive control_matrix_from_scratch.
Parametricity Recursive propagators.
Parametricity Recursive times.
Parametricity Recursive filter_function.
Parametricity Recursive liouville.
Parametricity Recursive cm_from_atomic.
Parametricity Recursive trapz.
Parametricity Recursive pulse_cm.
Parametricity Recursive pulse_ff.

Lemma nat_R_refl : forall n, nat_R n n.
Proof. induction n; constructor; auto. Qed.
Lemma list_R_refl {A} (R : A -> A -> Type) (H : forall a, R a a) : forall l, list_R A A R l l.
Proof. induction l; constructor; auto. Qed.

Module EnclP.
  Import PP.
  Definition TRc (i : C (T:=M.I.type)) (r : C (T:=R)) : Prop := TR (fst i) (fst r) /\ TR (snd i) (snd r).

  (* soundness of the comparison: an [VAgree] verdict bounds |real model value - implementation value| *)
  Lemma close1_sound (tol z enc : M.I.type) (tolr zr r : R) :
    TR tol tolr -> TR z zr -> TR enc r ->
    close1 IOP tol z enc = VAgree -> (Rabs (r - zr) < tolr)%R.
  Proof.
    intros Ht Hz He. unfold close1.
    assert (Hd : TR (oabs IOP (osub IOP enc z)) (Rabs (r - zr))).
    { unfold IOP, M.IO; simpl.
      apply (M.I.abs_correct _ (Xreal (r - zr))).
      apply (M.I.sub_correct precP enc z (Xreal r) (Xreal zr)); assumption. }
    pose proof (igt_ok precP _ _ Ht _ _ Hd) as Hgt.
    change (M.igt precP tol (oabs IOP (osub IOP enc z))) with (ogt IOP tol (oabs IOP (osub IOP enc z))) in Hgt.
    destruct (ogt IOP tol (oabs IOP (osub IOP enc z))) as [[|]|] eqn:E; try discriminate.
    intros _. destruct Hgt as [Hn|Hs]; [discriminate|].
    injection Hs as Hs. symmetry in Hs. apply Rgtb_true in Hs. exact Hs.
  Qed.

  (* the control matrix computed on intervals encloses the real-valued model's control matrix *)
  Definition cm_enclosure :=
    pulse_cm_R M.I.type R TR (option bool) bool BR IOP RO IOP_RO.
  Definition ff_enclosure :=
    pulse_ff_R M.I.type R TR (option bool) bool BR IOP RO IOP_RO.
  (* the model used by the correspondence check is the one the enclosure theorem is about *)
  Lemma model_cm_is_pulse_cm d thr evs Vs om bs ns nc dts :
    model_cm IOP d thr evs Vs om bs ns nc dts = pulse_cm IOP d thr evs Vs om bs ns nc dts.
  Proof. reflexivity. Qed.
End EnclP.


Print Assumptions EnclP.close1_sound.
