(* Real-number instance of Ops: every theorem of the development is about this one. *)
From Coq Require Import ZArith Reals List.
From FF Require Import Base.Ops.
Local Open Scope R_scope.

Definition Rgtb (x y : R) : bool := if Rlt_dec y x then true else false.
Definition Rdya (m e : Z) : R := IZR m * powerRZ 2 e.

Definition RO : Ops R bool :=
  mkOps R bool 0 1 PI Rplus Rminus Rmult Rdiv Ropp Rabs sqrt cos sin Rdya Rgtb
        (fun (b : bool) x y => if b then x else y).

Lemma Rgtb_true x y : Rgtb x y = true <-> y < x.
Proof. unfold Rgtb; destruct (Rlt_dec y x); split; auto; discriminate. Qed.
Lemma Rgtb_false x y : Rgtb x y = false <-> x <= y.
Proof. unfold Rgtb; destruct (Rlt_dec y x); split; intros; try discriminate; auto.
  exfalso; apply (Rlt_irrefl x); eapply Rle_lt_trans; eauto. apply Rnot_lt_le; auto. Qed.
