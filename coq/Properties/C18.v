(* C18 -- computations never modify caller-owned data; failures leave pulses usable.
   Second half (failures): proved on the cache state machine of C07.
   First half (ownership): proved for the alias IR of every function of the package (Model/Alias.v: semantics,
   checker [safe], soundness theorem [safe_sound]; Extracted/AliasIR.v: the IR of the current sources with an
   untrusted certificate, regenerated on every run by tools/alias_extract.py).  What is trusted for this half is
   the translation Python -> IR (the numpy view / copy classification table and the translation rules listed in
   tools/alias_extract.py); the exploration of tools/ffv/props/c18.py (fingerprinted / write-protected arguments)
   is kept as supporting evidence for exactly that trusted part.
   This file contains only statements closed by [exact <lemma>] and their assumptions.                 *)
From Coq Require Import List Bool Arith NArith String.
From FF Require Import Model.Alias Extracted.AliasIR Proofs.AliasSafe.
(* imported last: Cache.Call, Cache.step, Cache.guard, Cache.upd take precedence over the names of Model.Alias *)
From FF Require Import Extracted.Src Model.Cache Model.Tie.C07 Model.Tie.C18 Proofs.Cache.
Import ListNotations.

(* ---------------------------------------------------------------- ownership *)
(* Soundness of the checker, for any program and certificate: in every execution of a public function (any call
   depth n, any sequence of its statements and of those of the functions it calls, any valuation of the guards)
   every object written is local to the computation (CL) or a parameter documented as written in place. *)
Theorem C18_safe_sound : forall P C publics, safe P C publics = true ->
  forall f inplace, In (f, inplace) publics ->
  forall n ws rs, fn_beh P n f ws rs ->
  forall w, In w ws -> w = CL \/ exists i, w = CP i /\ In i inplace.
Proof. exact safe_sound. Qed.
Print Assumptions C18_safe_sound.

(* the translator expressed every function of the current sources *)
Theorem C18_all_functions_translated : alias_untranslated = [].
Proof. exact alias_translated. Qed.

(* the checker accepts the current sources *)
Theorem C18_ownership_checked : safe alias_prog alias_cert alias_publics = true.
Proof. exact alias_safe. Qed.

(* hence: no public function of the package (103 of them; parameter i of the Python function is the pair of IR
   parameters 2i -- the object -- and 2i+1 -- what is reachable from it) writes memory of provenance CX (attributes
   of self or of an input pulse, module data, anything possibly owned by the caller or returned earlier) or memory
   of a parameter that is not documented as in-place (out=, Basis.normalize / tidyup, remove_float_errors, the
   object under construction in __init__ / __new__ / __array_finalize__). *)
Theorem C18_ownership : forall f inplace, In (f, inplace) alias_publics ->
  forall n ws rs, fn_beh alias_prog n f ws rs ->
  forall w, In w ws -> w = CL \/ exists i, w = CP i /\ In i inplace.
Proof. exact alias_ownership. Qed.
Print Assumptions C18_ownership.

Theorem C18_ownership_nonvacuous :
  Nat.leb 100 (List.length alias_publics) = true /\ Nat.leb 300 (List.length alias_prog) = true /\
  forallb (fun pub => defined alias_prog (fst pub)) alias_publics = true.
Proof. exact alias_nonvacuous. Qed.
(* the semantics has executions that write external memory, and the checker rejects certificates hiding them *)
Theorem C18_checker_rejects :
  check_all ex_prog ex_cert_good = true /\ check_all ex_prog ex_cert_bad = false /\
  safe ex_prog ex_cert_good [(0%N, [0%nat])] = true /\ safe ex_prog ex_cert_good [(0%N, [])] = false /\
  safe ex_prog ex_cert_good [(1%N, [0%nat])] = false.
Proof. exact ex_checks. Qed.
Theorem C18_semantics_example : fn_beh ex_prog 2 1%N [CX; CX] [].
Proof. exact ex_semantics. Qed.

(* ---------------------------------------------------------------- failures *)
(* A call that raises -- an exception out of numeric code at any of the modelled raise points (k arbitrary),
   CalculationError of the pulse-correlation getters, ValueError of argument validation before the first
   effect or of a request for other frequencies -- leaves every object of the store coherent. *)
Theorem C18_failure_coherent : forall st i o k e, Coherent st -> op_ok o = true ->
  snd (fst (exec fixed st (Call i o k))) = Raise e -> Coherent (step st (Call i o k)).
Proof. exact failure_coherent. Qed.
Print Assumptions C18_failure_coherent.

(* ... and all subsequent results are still correct: after the failed call and any further history (which may
   contain further failed calls), every request naming its frequencies is answered as on a fresh pulse. *)
Theorem C18_failure_then_correct : forall st i o k e ops j o' g,
  Coherent st -> op_ok o = true -> snd (fst (exec fixed st (Call i o k))) = Raise e ->
  forallb gop_ok ops = true ->
  let st' := fold_left step ops (step st (Call i o k)) in
  j < nobj st' -> grid_getter o' g ->
  value_of (result st' (Call j o' never)) = value_of (result init (Call 0 o' never)).
Proof. exact failure_then_correct. Qed.
Print Assumptions C18_failure_then_correct.

(* argument validation fails before any effect *)
Theorem C18_validation_no_effect : forall l k,
  run_op fixed BadParams l k = (l, k, Raise E_value).
Proof. exact (fun l k => eq_refl). Qed.

(* the hypotheses are satisfiable: a call aborted at its second numeric routine on a store with a copy *)
Example C18_failure_example :
  let st := fold_left step [Call 0 (GetFF g1 Generalized First true) never; Copy 0] init in
  snd (fst (exec fixed st (Call 1 (GetFF g2 Fidelity Second false) (Some 0)))) = Raise (E_injected L_f2) /\
  occupancy (step st (Call 1 (GetFF g2 Fidelity Second false) (Some 0))) 1 = 197051%N.
Proof. split; vm_compute; reflexivity. Qed.

