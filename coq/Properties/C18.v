(* C18 -- computations never modify caller-owned data; failures leave pulses usable.
   PARTIAL: this file proves the second half (failures) on the cache state machine of C07.  The first half
   (ownership: no public computation writes into an array owned by the caller or returned earlier) is decided
   by exploration in tools/ffv/props/c18.py (fingerprinted / write-protected arguments), not by a theorem;
   the theorem names carry the suffix _partial for that reason.
   This file contains only statements closed by [exact <lemma>] and their assumptions.                 *)
From Coq Require Import List Bool Arith NArith.
From FF Require Import Extracted.Src Model.Cache Model.Tie.C07 Model.Tie.C18 Proofs.Cache.
Import ListNotations.

(* A call that raises -- an exception out of numeric code at any of the modelled raise points (k arbitrary),
   CalculationError of the pulse-correlation getters, ValueError of argument validation before the first
   effect or of a request for other frequencies -- leaves every object of the store coherent. *)
Theorem C18_failure_coherent_partial : forall st i o k e, Coherent st -> op_ok o = true ->
  snd (fst (exec fixed st (Call i o k))) = Raise e -> Coherent (step st (Call i o k)).
Proof. exact failure_coherent. Qed.
Print Assumptions C18_failure_coherent_partial.

(* ... and all subsequent results are still correct: after the failed call and any further history (which may
   contain further failed calls), every request naming its frequencies is answered as on a fresh pulse. *)
Theorem C18_failure_then_correct_partial : forall st i o k e ops j o' g,
  Coherent st -> op_ok o = true -> snd (fst (exec fixed st (Call i o k))) = Raise e ->
  forallb gop_ok ops = true ->
  let st' := fold_left step ops (step st (Call i o k)) in
  j < nobj st' -> grid_getter o' g ->
  value_of (result st' (Call j o' never)) = value_of (result init (Call 0 o' never)).
Proof. exact failure_then_correct. Qed.
Print Assumptions C18_failure_then_correct_partial.

(* argument validation fails before any effect *)
Theorem C18_validation_no_effect_partial : forall l k,
  run_op fixed BadParams l k = (l, k, Raise E_value).
Proof. exact (fun l k => eq_refl). Qed.

(* the hypotheses are satisfiable: a call aborted at its second numeric routine on a store with a copy *)
Example C18_failure_example :
  let st := fold_left step [Call 0 (GetFF g1 Generalized First true) never; Copy 0] init in
  snd (fst (exec fixed st (Call 1 (GetFF g2 Fidelity Second false) (Some 0)))) = Raise (E_injected L_f2) /\
  occupancy (step st (Call 1 (GetFF g2 Fidelity Second false) (Some 0))) 1 = 197051%N.
Proof. split; vm_compute; reflexivity. Qed.

(* Not proved: the ownership half ("no public computation writes into an array owned by the caller or
   returned to the caller earlier").  No formal statement of it is claimed here: the alias IR of DESIGN.md
   (Model/Alias.v, safe_sound) was not built, so there is no model of Python aliasing in which the statement
   could be written.  It is decided by exploration (tools/ffv/props/c18.py), see docs/notes/C18.md. *)
