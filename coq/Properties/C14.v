(* C14 -- constructed bases are complete, orthonormal, Hermitian; expansion is exact.
   Statements about the real instance of Model/BasisModel.v; only [exact <lemma>] proofs here.
   Oracles (null_space, matrix_rank) are explicit premises; see docs/notes/C14.md.               *)
From Coq Require Import ZArith Reals List.
From FF Require Import Base.Ops Inst.RInst Base.RAlg Model.BasisModel Model.Tie.C14 Proofs.BasisProofs.
(* libraries the generated correspondence cases import (kept in the dependency cone of this file) *)
From FF Require Model.Consts Inst.Param Corr.Agree Corr.ObsBasis.
(* enclosure of the model's real instance by its interval instance (paramcoq) *)
From FF Require Inst.EnclosureBasis.
Import ListNotations.
Local Open Scope R_scope.

(* ---------------- Basis.pauli(n), every n ---------------- *)
Theorem C14_pauli_orthonormal : forall n, trace_orthonormal (2 ^ n) (4 ^ n) (pauli_C n).
Proof. exact pauli_orthonormal. Qed.
Print Assumptions C14_pauli_orthonormal.
Theorem C14_pauli_hs_orthonormal : forall n, hs_orthonormal (2 ^ n) (4 ^ n) (pauli_C n).
Proof. exact pauli_hs_orthonormal. Qed.
Theorem C14_pauli_hermitian : forall n, basis_herm (2 ^ n) (4 ^ n) (pauli_C n).
Proof. exact pauli_hermitian. Qed.
Theorem C14_pauli_complete : forall n, basis_complete (2 ^ n) (4 ^ n) (pauli_C n).
Proof. exact pauli_complete. Qed.
Print Assumptions C14_pauli_complete.
Theorem C14_pauli_first : forall n a b, (a < 2 ^ n)%nat -> (b < 2 ^ n)%nat ->
  pauli_C n 0 a b = cdivr RO (delta a b) (sqrt (2 ^ n)).
Proof. exact pauli_first. Qed.
Theorem C14_pauli_length : forall n, length (pauli_basis RO n) = (4 ^ n)%nat.
Proof. exact pauli_basis_length. Qed.

(* ---------------- Basis.ggm(d), every d ---------------- *)
(* the code's triangular enumeration (j, k) hits every pair of the strict upper triangle exactly once *)
Theorem C14_ggm_index_bijection : forall d,
  (forall m, (m < n_sym d)%nat -> (ggm_j d m < ggm_k d m < d)%nat) /\
  (forall m m', (m < n_sym d)%nat -> (m' < n_sym d)%nat -> ggm_j d m = ggm_j d m' -> ggm_k d m = ggm_k d m' -> m = m') /\
  (forall a b, (a < b < d)%nat -> exists m, (m < n_sym d)%nat /\ ggm_j d m = a /\ ggm_k d m = b).
Proof. exact ggm_index_bijection. Qed.
Print Assumptions C14_ggm_index_bijection.
Theorem C14_ggm_orthonormal : forall d, (0 < d)%nat -> trace_orthonormal d (d * d) (ggm_C d).
Proof. exact ggm_orthonormal. Qed.
Print Assumptions C14_ggm_orthonormal.
Theorem C14_ggm_hs_orthonormal : forall d, (0 < d)%nat -> hs_orthonormal d (d * d) (ggm_C d).
Proof. exact ggm_hs_orthonormal. Qed.
Theorem C14_ggm_hermitian : forall d, (0 < d)%nat -> basis_herm d (d * d) (ggm_C d).
Proof. exact ggm_hermitian. Qed.
Theorem C14_ggm_first : forall d a b, (a < d)%nat -> (b < d)%nat ->
  ggm_C d 0 a b = if Nat.eqb a b then (1 / sqrt (INR d), 0) else 0c.
Proof. exact ggm_C_id. Qed.
(* completeness relation, every d (index bijection for the off-diagonal part, telescoping sum of 1/(l(l+1)) for the diagonal part) *)
Theorem C14_ggm_complete : forall d, (0 < d)%nat -> basis_complete d (d * d) (ggm_C d).
Proof. exact ggm_complete. Qed.
Print Assumptions C14_ggm_complete.

(* ---------------- expansion ---------------- *)
Theorem C14_expand_reconstruct : forall d n Cb M, basis_herm d n Cb -> basis_complete d n Cb ->
  feq d (freconstruct n (fexpand d M Cb) Cb) M.
Proof. exact expand_reconstruct_f. Qed.
Print Assumptions C14_expand_reconstruct.
Theorem C14_expand_real : forall d M Cm, fherm d M -> fherm d Cm -> snd (ftr d (fmul d M Cm)) = 0.
Proof. exact expand_real. Qed.
(* the hypotheses are satisfiable: the Pauli basis of every n *)
Example C14_expand_reconstruct_pauli : forall n M,
  feq (2 ^ n) (freconstruct (4 ^ n) (fexpand (2 ^ n) M (pauli_C n)) (pauli_C n)) M.
Proof. exact (fun n M => expand_reconstruct_f (2 ^ n) (4 ^ n) (pauli_C n) M (pauli_hermitian n) (pauli_complete n)). Qed.
Example C14_expand_reconstruct_ggm : forall d M, (0 < d)%nat ->
  feq d (freconstruct (d * d) (fexpand d M (ggm_C d)) (ggm_C d)) M.
Proof. exact (fun d M Hd => expand_reconstruct_f d (d * d) (ggm_C d) M (ggm_hermitian d Hd) (ggm_complete d Hd)). Qed.
(* closed-form Gell-Mann expansion = generic expansion, every d and every coefficient *)
Theorem C14_ggm_expand_eq_expand : forall d (M : Mat) idx, (0 < d)%nat -> (idx < d * d)%nat ->
  ggm_expand_coeff RO d false M idx = mtrprod RO d M (ggm_elem RO d idx).
Proof. exact ggm_expand_eq_expand. Qed.
Print Assumptions C14_ggm_expand_eq_expand.

(* ---------------- flags ---------------- *)
Theorem C14_isherm_meaning : forall d bs,
  isherm_viol RO d bs = false <->
  forall Cm, In Cm bs -> forall a b, (a < d)%nat -> (b < d)%nat ->
    cabs RO (csub' (cconj' (mget RO Cm b a)) (mget RO Cm a b)) <= atol_basis RO d.
Proof. exact isherm_meaning. Qed.
Theorem C14_isorthonorm_meaning : forall d bs,
  isorthonorm_viol RO d bs = false <->
  length bs = 1%nat \/
  forall i j, (i < length bs)%nat -> (j < length bs)%nat ->
    cabs RO (csub' (gram RO d bs i j) (if (i =? j)%nat then 1c else 0c)) <= atol_orth RO d.
Proof. exact isorthonorm_meaning. Qed.
Theorem C14_istraceless_meaning : forall d bs,
  istraceless_viol RO d bs = false <->
  Forall (fun Cm => ~ tr_nonzero d Cm) bs \/
  (exists pre Cm post, bs = pre ++ Cm :: post /\
     Forall (fun X => ~ tr_nonzero d X) pre /\ Forall (fun X => ~ tr_nonzero d X) post /\
     tr_nonzero d Cm /\ is_scalar d Cm).
Proof. exact istraceless_meaning. Qed.
Print Assumptions C14_istraceless_meaning.
(* the test of the pinned revision (before fix 74dc707) accepts [[1,5],[0,1]], sigma_x; the repaired one rejects it *)
Theorem C14_istraceless_prefix_refuted :
  exists bs : list (Mat (T:=R)), istraceless_viol RO 2 bs = true /\ istraceless_viol_prefix RO 2 bs = false.
Proof. exact istraceless_prefix_refuted. Qed.

(* ---------------- from_partial under the validated null-space oracle ---------------- *)
Theorem C14_mix_orthonormal : forall d n G W m, hs_orthonormal d n G -> rows_orthonormal n W m ->
  hs_orthonormal d m (mixB n G W).
Proof. exact mix_orthonormal. Qed.
Theorem C14_mix_hermitian : forall d n G W m, basis_herm d n G ->
  (forall i j, (i < m)%nat -> (j < n)%nat -> snd (W i j) = 0) -> basis_herm d m (mixB n G W).
Proof. exact mix_hermitian. Qed.
Theorem C14_mix_complete : forall d n G W m, basis_complete d n G -> cols_orthonormal n W m ->
  basis_complete d m (mixB n G W).
Proof. exact mix_complete. Qed.
Theorem C14_mix_contains : forall d n G W i E, basis_herm d n G -> basis_complete d n G ->
  (forall j, (j < n)%nat -> W i j = fexpand d E G j) -> feq d (mixB n G W i) E.
Proof. exact mix_contains. Qed.
Theorem C14_mix_contains_traceless : forall d n G W i E, basis_herm d (S n) G -> basis_complete d (S n) G ->
  fexpand d E G 0 = 0c -> (forall j, (j < n)%nat -> W i j = fexpand d E G (S j)) ->
  feq d (mixB n (fun j => G (S j)) W i) E.
Proof. exact mix_contains_traceless. Qed.
Theorem C14_from_partial_onb_full : forall d, (0 < d)%nat -> forall A N, A <> [] ->
  rows_orthonormal (d * d) (Wf (A ++ N)) (length (A ++ N)) ->
  hs_orthonormal d (length (A ++ N)) (fun i => toF (nth i (fp_basis_raw RO d false A N) [])).
Proof. exact from_partial_onb_full. Qed.
Print Assumptions C14_from_partial_onb_full.
Example C14_from_partial_hypothesis_sat : rows_orthonormal (2 * 2) (Wf (exA ++ exN)) (length (exA ++ exN)).
Proof. exact rows_orthonormal_sat. Qed.
Theorem C14_from_partial_onb_traceless : forall d, (0 < d)%nat -> forall A N, A <> [] ->
  rows_orthonormal (d * d - 1) (Wf (A ++ N)) (length (A ++ N)) ->
  hs_orthonormal d (S (length (A ++ N))) (fun i => toF (nth i (fp_basis_raw RO d true A N) [])).
Proof. exact from_partial_onb_traceless. Qed.
Theorem C14_from_partial_onb_empty : forall d, (0 < d)%nat -> forall traceless N,
  hs_orthonormal d (d * d) (fun i => toF (nth i (fp_basis_raw RO d traceless [] N) [])).
Proof. exact from_partial_onb_empty. Qed.
Theorem C14_from_partial_identity_first : forall d, (0 < d)%nat -> forall A N a b, (a < d)%nat -> (b < d)%nat ->
  toF (nth 0 (fp_basis_raw RO d true A N) []) a b = if Nat.eqb a b then (1 / sqrt (INR d), 0) else 0c.
Proof. exact from_partial_identity_first. Qed.
Theorem C14_tidyup_close : forall atol x, 0 <= atol -> Rabs (rfe RO atol x - x) <= atol.
Proof. exact rfe_close. Qed.
Theorem C14_labels_length : forall (L : Type) (dflt : nat -> L) d nelems traceless isid ls out,
  (nelems <= d * d)%nat -> length ls = nelems ->
  fp_labels L dflt d nelems traceless isid (Some ls) = Some (Some out) -> length out = (d * d)%nat.
Proof. exact fp_labels_length. Qed.
Theorem C14_labels_reject : forall (L : Type) (dflt : nat -> L) d nelems traceless isid ls,
  length ls <> nelems -> length ls <> (d * d)%nat -> fp_labels L dflt d nelems traceless isid (Some ls) = None.
Proof. exact fp_labels_reject. Qed.
(* REFUTED on the current code (known finding c14-labels-no-identity): traceless completion without a supplied
   identity shifts the elements by one but not the labels *)
Theorem C14_labels_refuted :
  exists out, fp_labels nat (fun i => 1000 + i)%nat 2 2 true [false; false] (Some [7; 8]%nat) = Some (Some out) /\
              ~ labels_aligned nat [7; 8]%nat out 1.
Proof. exact fp_labels_refuted. Qed.
Theorem C14_reject_not_orthonormal : forall tv tr lab, fp_control true tv tr lab = FpNotOrthonormal.
Proof. exact fp_control_reject_orth. Qed.
Theorem C14_reject_not_traceless : forall lab, fp_control false true (Some true) lab = FpNotTraceless.
Proof. exact fp_control_reject_traceless. Qed.

(* ---------------- instances for the other properties (Proofs/BasisInstances.v, BasisInstancesSuperop.v) ----------------
   The shipped bases satisfy the hypothesis shapes of Base/FMat.v (C08/C09/C12), Proofs/Superop.v (C15) and
   Proofs/AtomicAlg.v (C03) for every n / every d.                                                          *)
From FF Require Base.FMat Proofs.SuperopAlg Proofs.Superop Proofs.AtomicAlg Model.Superop.
From FF Require Import Proofs.BasisInstances Proofs.BasisInstancesSuperop.
Theorem C14_fmat_complete_pauli : forall n, FMat.basis_complete (2 ^ n) (4 ^ n) (pauli_C n).
Proof. exact fmat_complete_pauli. Qed.
Theorem C14_fmat_complete_ggm : forall d, (0 < d)%nat -> FMat.basis_complete d (d * d) (ggm_C d).
Proof. exact fmat_complete_ggm. Qed.
Print Assumptions C14_fmat_complete_ggm.
Theorem C14_fmat_orthonormal_pauli : forall n, FMat.basis_orthonormal (2 ^ n) (4 ^ n) (pauli_C n).
Proof. exact fmat_orthonormal_pauli. Qed.
Theorem C14_fmat_orthonormal_ggm : forall d, (0 < d)%nat -> FMat.basis_orthonormal d (d * d) (ggm_C d).
Proof. exact fmat_orthonormal_ggm. Qed.
Theorem C14_superop_complete_pauli : forall n, Superop.basis_complete (2 ^ n) (pauli_basis RO n).
Proof. exact superop_basis_complete_pauli. Qed.
Theorem C14_superop_complete_ggm : forall d, (0 < d)%nat -> Superop.basis_complete d (ggm_basis RO d).
Proof. exact superop_basis_complete_ggm. Qed.
Theorem C14_atomic_complete_pauli : forall n (X : fmat),
  feq (2 ^ n) X (AtomicAlg.flin (length (pauli_basis RO n)) (fun l => ftr (2 ^ n) (fmul (2 ^ n) (AtomicAlg.Cf (pauli_basis RO n) l) X))
                                (AtomicAlg.Cf (pauli_basis RO n))).
Proof. exact atomic_Hcomplete_pauli. Qed.
Theorem C14_atomic_complete_ggm : forall d, (0 < d)%nat -> forall X : fmat,
  feq d X (AtomicAlg.flin (length (ggm_basis RO d)) (fun l => ftr d (fmul d (AtomicAlg.Cf (ggm_basis RO d) l) X))
                          (AtomicAlg.Cf (ggm_basis RO d))).
Proof. exact atomic_Hcomplete_ggm. Qed.
(* the Gell-Mann list of the C15 model (Model/Superop.v) is elementwise the one of Model/BasisModel.v *)
Theorem C14_c15_ggm_elem : forall d, (0 < d)%nat -> forall k, (k < d * d)%nat ->
  feq d (toF (Numeric.nthm (Superop.ggm_basis RO d) k)) (ggm_C d k).
Proof. exact c15_ggm_elem. Qed.
Theorem C14_c15_basis_complete : forall d, (0 < d)%nat -> Superop.basis_complete d (Superop.ggm_basis RO d).
Proof. exact c15_basis_complete. Qed.
Theorem C14_c15_basis_orth : forall d, (0 < d)%nat -> Superop.basis_orth d (Superop.ggm_basis RO d).
Proof. exact c15_basis_orth. Qed.
Theorem C14_c15_basis_herm : forall d, (0 < d)%nat -> Superop.basis_herm d (Superop.ggm_basis RO d).
Proof. exact c15_basis_herm. Qed.
