(* C09 -- cumulant function follows its formula on every path; error map is physical.
   Only statements closed by [exact <lemma>] and their assumptions; the part of the property that
   is not proved is stated as [C09_full] (Definition) and named below.                           *)
From Coq Require Import ZArith Reals List.
From FF Require Import Base.Ops Inst.RInst Base.RAlg Base.FMat Model.Numeric Model.Decay Model.Cumulant
     Model.Tie.C09 Proofs.Trapz Proofs.TraceId Proofs.PauliOnb Proofs.CumulantAlg Proofs.CumulantPauli Proofs.CumulantLabel Proofs.CumulantCCP.
From FF Require Model.Consts Inst.Param Inst.EnclosureC08 Corr.Agree Corr.Obs Corr.ObsC08.
Import ListNotations.
Local Open Scope R_scope.

(* trace_tensor_formula (every d, every basis list): the four contractions of the general branch are
   -1/2 sum_kl Gamma_kl tr(C_i [C_k,[C_l,C_j]])   and   1/2 sum_kl Delta_kl tr(C_i [[C_k,C_l],C_j]) (subtracted) *)
Theorem C09_trace_tensor_formula_first_order : forall d n (Cb : nat -> fmat) (G : RMr) i j,
  K1_entry RO n (T4 d Cb) G i j =
  cneg' (half RO (contract RO n G (fun k l => ftr d (fmul d (Cb i) (comm d (Cb k) (comm d (Cb l) (Cb j))))))).
Proof. exact K1_commutator_form. Qed.
Print Assumptions C09_trace_tensor_formula_first_order.
Theorem C09_trace_tensor_formula_second_order : forall d n (Cb : nat -> fmat) (D : RMr) i j,
  K2_entry RO n (T4 d Cb) D i j =
  half RO (contract RO n D (fun k l => ftr d (fmul d (Cb i) (comm d (comm d (Cb k) (Cb l)) (Cb j))))).
Proof. exact K2_commutator_form. Qed.
Print Assumptions C09_trace_tensor_formula_second_order.
(* the trace tensor the model materialises IS tr(C_i C_j C_k C_l) of the basis list *)
Theorem C09_model_traces : forall d (basis : list MatR) i j k l,
  (i < length basis)%nat -> (j < length basis)%nat -> (k < length basis)%nat -> (l < length basis)%nat ->
  a4get RO (four_traces_arr RO d (pair_products RO d basis) (length basis)) i j k l =
  T4 d (fun k => toF (nthm basis k)) i j k l.
Proof. exact a4get_four_traces. Qed.
Print Assumptions C09_model_traces.

(* shortcut_eq_general: on the normalised Pauli basis the d = 2 shortcut (after fix 72be0f3) equals the
   general branch for ALL Gamma, Delta, first and second order *)
Theorem C09_shortcut_eq_general : forall second (G D : RMr) i j, (i < 4)%nat -> (j < 4)%nat ->
  rmget RO (cumulant_shortcut RO 4 second G D) i j =
  rmget RO (cumulant_general RO 4 (four_traces_arr RO 2 (pair_products RO 2 pauli_basis) 4) second G D) i j.
Proof. exact shortcut_eq_general. Qed.
Print Assumptions C09_shortcut_eq_general.
(* the pre-fix shortcut (untransposed off-diagonal block) is the formula applied to Gamma^T ... *)
Theorem C09_shortcut_prefix_general_transposed : forall second (G D : RMr) i j, (i < 4)%nat -> (j < 4)%nat ->
  cumulant_shortcut_prefix_fn 4 second G D i j =
  rmget RO (cumulant_general RO 4 (four_traces_arr RO 2 (pair_products RO 2 pauli_basis) 4) second (rm_transpose 4 G) D) i j.
Proof. exact shortcut_prefix_general_transposed. Qed.
(* ... equal to the formula for symmetric Gamma (auto-correlations) ... *)
Theorem C09_shortcut_prefix_eq_general_symmetric : forall second (G D : RMr) i j, (i < 4)%nat -> (j < 4)%nat -> rm_symmetric 4 G ->
  cumulant_shortcut_prefix_fn 4 second G D i j =
  rmget RO (cumulant_general RO 4 (four_traces_arr RO 2 (pair_products RO 2 pauli_basis) 4) second G D) i j.
Proof. exact shortcut_prefix_eq_general_symmetric. Qed.
(* ... and REFUTED without the symmetry (fixed defect: cross-correlated spectra / pulse-correlation pairs) *)
Theorem C09_shortcut_prefix_cross_refuted :
  exists (G D : RMr) i j, (i < 4)%nat /\ (j < 4)%nat /\
    cumulant_shortcut_prefix_fn 4 false G D i j <>
    rmget RO (cumulant_general RO 4 (four_traces_arr RO 2 (pair_products RO 2 pauli_basis) 4) false G D) i j.
Proof. exact shortcut_prefix_cross_refuted. Qed.
Print Assumptions C09_shortcut_prefix_cross_refuted.

(* shortcut_guard (after fix 63446ae): whatever the label, on a basis that IS Basis.pauli(1) both branches agree *)
Theorem C09_shortcut_guard_sound : forall (basis : list MatR) second (G D : RMr) i j,
  is_pauli1 basis -> (i < 4)%nat -> (j < 4)%nat ->
  rmget RO (nth 0 (cumulant_function RO 2 true 4 basis second [G] [D]) []) i j =
  rmget RO (nth 0 (cumulant_function RO 2 false 4 basis second [G] [D]) []) i j.
Proof. exact shortcut_guard_sound. Qed.
Print Assumptions C09_shortcut_guard_sound.
Theorem C09_guard_requires_basis : forall d bt, use_shortcut d bt false = false.
Proof. exact guard_requires_basis. Qed.
Example C09_is_pauli1_satisfiable : is_pauli1 pauli_basis.
Proof. split. reflexivity. intros k Hk. reflexivity. Qed.
(* the pre-fix guard trusted the label: REFUTED (fixed defect: non-traceless custom d = 2 basis labelled 'Pauli') *)
Theorem C09_label_prefix_refuted :
  exists (basis : list MatR) (G D : RMr) i j,
    let n := length basis in let Cb := fun k => toF (nthm basis k) in
    basis_herm 2 n Cb /\ basis_orthonormal 2 n Cb /\ basis_complete 2 n Cb /\
    use_shortcut_prefix 2 BPauli = true /\ (i < n)%nat /\ (j < n)%nat /\
    rmget RO (nth 0 (cumulant_function RO 2 (use_shortcut_prefix 2 BPauli) n basis false [G] [D]) []) i j <>
    rmget RO (nth 0 (cumulant_function RO 2 false n basis false [G] [D]) []) i j.
Proof. exact label_prefix_refuted. Qed.
Print Assumptions C09_label_prefix_refuted.
Theorem C09_mislabelled_basis_rejected : ~ is_pauli1 nt_basis.
Proof. exact nt_basis_is_not_pauli1. Qed.

(* second_order_antisymmetric (any trace tensor) *)
Theorem C09_second_order_antisymmetric : forall n (Tr : nat -> nat -> nat -> nat -> Cx) (D : RMr) i j,
  K2_entry RO n Tr D i j = cneg' (K2_entry RO n Tr D j i).
Proof. exact K2_antisymmetric. Qed.
Print Assumptions C09_second_order_antisymmetric.

(* generator trace preserving and unital for every complete basis: sum_i tr(C_i) K_ij = 0 = sum_j K_ij tr(C_j) *)
Theorem C09_K1_trace_preserving : forall d n (Cb : nat -> fmat), basis_complete d n Cb -> forall (G : RMr) j,
  csumn' n (fun i => cmul' (tC d Cb i) (K1_entry RO n (T4 d Cb) G i j)) = 0c.
Proof. exact K1_trace_preserving. Qed.
Theorem C09_K1_unital : forall d n (Cb : nat -> fmat), basis_complete d n Cb -> forall (G : RMr) i,
  csumn' n (fun j => cmul' (tC d Cb j) (K1_entry RO n (T4 d Cb) G i j)) = 0c.
Proof. exact K1_unital. Qed.
Theorem C09_K2_trace_preserving : forall d n (Cb : nat -> fmat), basis_complete d n Cb -> forall (D : RMr) j,
  csumn' n (fun i => cmul' (tC d Cb i) (K2_entry RO n (T4 d Cb) D i j)) = 0c.
Proof. exact K2_trace_preserving. Qed.
Theorem C09_K2_unital : forall d n (Cb : nat -> fmat), basis_complete d n Cb -> forall (D : RMr) i,
  csumn' n (fun j => cmul' (tC d Cb j) (K2_entry RO n (T4 d Cb) D i j)) = 0c.
Proof. exact K2_unital. Qed.
Print Assumptions C09_K1_trace_preserving.
(* K_first_row_col_zero: bases whose only non-traceless element is C_0 *)
Theorem C09_K1_first_row_zero : forall d n (Cb : nat -> fmat), basis_complete d n Cb -> (0 < n)%nat ->
  (forall i, (1 <= i < n)%nat -> tC d Cb i = 0c) -> tC d Cb 0 <> 0c -> forall (G : RMr) j, K1_entry RO n (T4 d Cb) G 0 j = 0c.
Proof. exact K1_first_row_zero. Qed.
Theorem C09_K1_first_col_zero : forall d n (Cb : nat -> fmat), basis_complete d n Cb -> (0 < n)%nat ->
  (forall i, (1 <= i < n)%nat -> tC d Cb i = 0c) -> tC d Cb 0 <> 0c -> forall (G : RMr) i, K1_entry RO n (T4 d Cb) G i 0 = 0c.
Proof. exact K1_first_col_zero. Qed.
Print Assumptions C09_K1_first_col_zero.

(* K_cCP: complete Hermitian basis, positive-semidefinite decay amplitudes (x^T Gamma x >= 0): the Choi form of the
   first-order cumulant function -- entries [choi_entry] as computed by liouville_to_choi -- is non-negative on every
   V orthogonal to the maximally entangled state (sum_a V_aa = 0); this is Q choi Q >= 0 of liouville_is_cCP without
   the index flattening.  Value: sum_kl Gamma_kl Re(p_k conj p_l), p_k = sum_ac conj(V_ac)(C_k)_ca. *)
Theorem C09_K_cCP : forall d (basis : list MatR),
  basis_herm d (length basis) (fun k => toF (nthm basis k)) ->
  basis_complete d (length basis) (fun k => toF (nthm basis k)) ->
  forall (G D : RMr) (V : nat -> nat -> Cx),
  rm_psd_form (length basis) G -> csumn' d (fun a => V a a) = 0c ->
  let K := cumulant_general RO (length basis) (four_traces_arr RO d (pair_products RO d basis) (length basis)) false G D in
  0 <= fst (csumn' d (fun a => csumn' d (fun b => csumn' d (fun c => csumn' d (fun e =>
         cmul' (cmul' (cconj' (V a c)) (choi_entry RO (length basis) K basis a c b e)) (V b e)))))).
Proof. exact model_K_cCP. Qed.
Print Assumptions C09_K_cCP.
Example C09_psd_form_satisfiable : rm_psd_form 4 [[0;0;0;0];[0;1;0;0];[0;0;1;0];[0;0;0;1]].
Proof. exact psd_form_example. Qed.

(* ---------- not proved: stated ---------- *)
(* Choi matrix of a Liouville matrix E in the basis is positive semidefinite *)
Definition choi_psd (d n : nat) (basis : list MatR) (E : RMr) : Prop :=
  forall v : nat -> Cx,
    0 <= fst (csumn' (d * d) (fun r => csumn' (d * d) (fun s =>
           cmul' (cmul' (cconj' (v r)) (mget RO (liouville_to_choi RO d n E basis) r s)) (v s)))).
(* E is the limit of the Taylor polynomials of exp K *)
Definition is_exp (n : nat) (K E : RMr) : Prop :=
  forall i j, (i < n)%nat -> (j < n)%nat -> forall eps, 0 < eps ->
    exists M0, forall M, (M0 <= M)%nat -> Rabs (rmget RO (exp_taylor RO n K M) i j - rmget RO E i j) < eps.
(* decay amplitudes of a positive-semidefinite spectrum form a positive-semidefinite real matrix *)
Definition rm_psd (n : nat) (G : RMr) : Prop :=
  rm_symmetric n G /\ forall x : nat -> R, 0 <= sumn' n (fun k => sumn' n (fun l => x k * rmget RO G k l * x l)).
Definition C09_full : Prop :=
  forall d (basis : list MatR), (0 < d)%nat ->
  let n := length basis in let Cb := fun k => toF (nthm basis k) in
  basis_herm d n Cb -> basis_orthonormal d n Cb -> basis_complete d n Cb ->
  forall (G D : RMr) (second : bool) (E : RMr), rm_psd n G ->
  is_exp n (cumulant_general RO n (four_traces_arr RO d (pair_products RO d basis) n) second G D) E ->
  choi_psd d n basis E.
(* PARTIAL: C09_full ("exp K is completely positive", Lindblad's theorem: from C09_K_cCP, and the Pade
   approximant of scipy.linalg.expm) is NOT proved here; the package's own maps are sampled (Choi eigenvalues of the error transfer matrix, liouville_is_cCP of K,
   expm against the Taylor polynomial on intervals) in tools/ffv/props/c09.py.                       *)

(* ------------------------------------------------------------------------------------------------
   Semantic tie of numeric.calculate_cumulant_function, general branch (Proofs/KernelTieC09.v; docs/notes/kernel-tie.md): the
   terms translated on every run from the CURRENT Python body by tools/kernel_extract.py (the guards, the eight
   oe.contract('...kl,<pqrs>->...ij', ..) contractions with their signs, /2, .real) ARE cumulant_general_fn.
   ------------------------------------------------------------------------------------------------ *)
From FF Require Import Extracted.Kernels Proofs.KernelTieC09.

Theorem C09_kernels_translated : kernel_untranslated_C09 = nil.
Proof. exact kernels_translated_C09. Qed.

Theorem C09_kernel_cumulant_general_is_source : forall n (Tr : nat -> nat -> nat -> nat -> C (T:=R)) (G D : RM (T:=R)) a b i j,
  cumulant_general_fn RO n Tr false G D i j =
  cumulant_general_src RO n (fun _ _ k l => rmget RO G k l) Tr a b i j.
Proof. exact cumulant_general_is_source. Qed.
Print Assumptions C09_kernel_cumulant_general_is_source.

Theorem C09_kernel_cumulant_general2_is_source : forall n (Tr : nat -> nat -> nat -> nat -> C (T:=R)) (G D : RM (T:=R)) a b i j,
  cumulant_general_fn RO n Tr true G D i j =
  cumulant_general2_src RO n (fun _ _ k l => rmget RO G k l) (fun _ _ k l => rmget RO D k l) Tr a b i j.
Proof. exact cumulant_general2_is_source. Qed.
