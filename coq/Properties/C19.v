(* C19 -- shipped closed-form decoupling filter functions agree with the numerical engine.
   [dd_F ts z] (Spec/DD.v) is w^2 F(w) of the numeric model specialised to H_c = 0 with the
   dephasing sensitivity flipped at the pulse-time fractions [ts], z = w tau.  The right-hand sides
   are the definitions of Extracted/Analytic.v (regenerated from analytic.py on every run).
   This file contains only statements closed by [exact <lemma>] and their assumptions.        *)
From Coq Require Import ZArith Reals List.
From FF Require Import Base.Ops Inst.RInst Base.RAlg Model.Numeric Spec.DDBase Spec.DD Extracted.Analytic
  Model.Tie.C19 Proofs.DD.
(* libraries the generated correspondence cases import (kept in the dependency cone of this file) *)
From FF Require Model.Consts Inst.Param Corr.Agree Corr.Obs.
Local Open Scope R_scope.

(* free induction decay: no pulse *)
Theorem C19_fid_closed : forall z, dd_F fid_times z = FID z.
Proof. exact fid_closed. Qed.
Print Assumptions C19_fid_closed.

(* spin echo: one pulse at tau/2 *)
Theorem C19_se_closed : forall z, dd_F se_times z = SE z.
Proof. exact se_closed. Qed.
Print Assumptions C19_se_closed.

(* periodic DD, every order n (both parity branches), away from the poles of tan(z/(2n+2)) *)
Theorem C19_pdd_closed : forall (n : nat) z, cos (z / (2 * INR n + 2)) <> 0 ->
  dd_F (pdd_times n) z = PDD z (Z.of_nat n).
Proof. exact pdd_closed. Qed.
Print Assumptions C19_pdd_closed.

(* CPMG, every order n >= 1 (both parity branches), away from the zeros of cos(z/(2n)) *)
Theorem C19_cpmg_closed : forall (n : nat) z, (1 <= n)%nat -> cos (z / (2 * INR n)) <> 0 ->
  dd_F (cpmg_times n) z = CPMG z (Z.of_nat n).
Proof. exact cpmg_closed. Qed.
Print Assumptions C19_cpmg_closed.

(* concatenated DD, every level g, every z *)
Theorem C19_cdd_closed : forall (g : nat) z, dd_F (cdd_times g) z = CDD z (Z.of_nat g).
Proof. exact cdd_closed. Qed.
Print Assumptions C19_cdd_closed.

(* Uhrig DD, every order n, every z *)
Theorem C19_udd_closed : forall (n : nat) z, dd_F (udd_times n) z = UDD z (Z.of_nat n).
Proof. exact udd_closed. Qed.
Print Assumptions C19_udd_closed.

(* the guards are satisfiable *)
Example C19_pdd_guard_sat : cos (1 / (2 * INR 3 + 2)) <> 0.
Proof. exact pdd_guard_sat. Qed.
Example C19_cpmg_guard_sat : cos (1 / (2 * INR 4)) <> 0.
Proof. exact cpmg_guard_sat. Qed.

(* link of the specification to the numeric model: one segment of the control matrix for H_c = 0 *)
Theorem C19_segment_is_model : forall thr w tg dt, thr < Rabs (w * dt) -> 0 <= thr ->
  cmul' (cmul' ic (cofr RO w)) (cmul' (cexp' (w * tg)) (foi_entry RO thr w 0 0 dt)) =
  csub' (cexp' (w * (tg + dt))) (cexp' (w * tg)).
Proof. exact foi_segment_dd. Qed.
Print Assumptions C19_segment_is_model.
