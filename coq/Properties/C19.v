(* C19 -- shipped closed-form decoupling filter functions agree with the numerical engine.
   [dd_F ts z] (Spec/DD.v) is w^2 F(w) of the numeric model specialised to H_c = 0 with the
   dephasing sensitivity flipped at the pulse-time fractions [ts], z = w tau.  The right-hand sides
   are the definitions of Extracted/Analytic.v (regenerated from analytic.py on every run).
   This file contains only statements closed by [exact <lemma>] and their assumptions.        *)
From Coq Require Import ZArith Reals List.
Import ListNotations.
From FF Require Import Base.Ops Inst.RInst Base.RAlg Model.Numeric Spec.DDBase Spec.DD Extracted.Analytic
  Model.Tie.C19 Proofs.DD Proofs.CMBase Proofs.DDModel Model.BasisModel.
(* libraries the generated correspondence cases import (kept in the dependency cone of this file) *)
From FF Require Model.Consts Inst.Param Corr.Agree Corr.Obs.
Local Open Scope R_scope.

(* free induction decay: no pulse *)
Theorem C19_fid_closed : forall z, dd_F fid_times z = FID z.
Proof. exact fid_closed. Qed.
Print Assumptions C19_fid_closed.

(* spin echo: one pulse at tau/2 *)
Theorem C19_se_closed : forall z, dd_F se_times z = SE z.
Proof. exact se_closed. Qed.
Print Assumptions C19_se_closed.

(* periodic DD, every order n (both parity branches), away from the poles of tan(z/(2n+2)) *)
Theorem C19_pdd_closed : forall (n : nat) z, cos (z / (2 * INR n + 2)) <> 0 ->
  dd_F (pdd_times n) z = PDD z (Z.of_nat n).
Proof. exact pdd_closed. Qed.
Print Assumptions C19_pdd_closed.

(* CPMG, every order n >= 1 (both parity branches), away from the zeros of cos(z/(2n)) *)
Theorem C19_cpmg_closed : forall (n : nat) z, (1 <= n)%nat -> cos (z / (2 * INR n)) <> 0 ->
  dd_F (cpmg_times n) z = CPMG z (Z.of_nat n).
Proof. exact cpmg_closed. Qed.
Print Assumptions C19_cpmg_closed.

(* concatenated DD, every level g, every z *)
Theorem C19_cdd_closed : forall (g : nat) z, dd_F (cdd_times g) z = CDD z (Z.of_nat g).
Proof. exact cdd_closed. Qed.
Print Assumptions C19_cdd_closed.

(* the pulse-time recursion of CDD_g and the product of the first g Rademacher functions on 2^g equal
   segments describe the same sequence *)
Theorem C19_cdd_rademacher : forall (g : nat) z, dd_y (cdd_times g) z = rad_y g z.
Proof. exact cdd_rademacher. Qed.
Print Assumptions C19_cdd_rademacher.

(* Uhrig DD, every order n, every z *)
Theorem C19_udd_closed : forall (n : nat) z, dd_F (udd_times n) z = UDD z (Z.of_nat n).
Proof. exact udd_closed. Qed.
Print Assumptions C19_udd_closed.

(* the guards are satisfiable *)
Example C19_pdd_guard_sat : cos (1 / (2 * INR 3 + 2)) <> 0.
Proof. exact pdd_guard_sat. Qed.
Example C19_cpmg_guard_sat : cos (1 / (2 * INR 4)) <> 0.
Proof. exact cpmg_guard_sat. Qed.

(* link of the specification to the numeric model: one segment of the control matrix for H_c = 0 *)
Theorem C19_segment_is_model : forall thr w tg dt, thr < Rabs (w * dt) -> 0 <= thr ->
  cmul' (cmul' ic (cofr RO w)) (cmul' (cexp' (w * tg)) (foi_entry RO thr w 0 0 dt)) =
  csub' (cexp' (w * (tg + dt))) (cexp' (w * tg)).
Proof. exact foi_segment_dd. Qed.
Print Assumptions C19_segment_is_model.

(* link of the specification to the numeric model for WHOLE sequences (every number of pulses): the control
   matrix the package's formula computes from the spectral data of the idle control Hamiltonian
   (eigenvalues 0, eigenvectors 1; propagators and time grid recomputed by the model) for a noise operator
   whose sensitivity alternates in sign satisfies  i w B_jk(w) = tr(N_j C_k) y(w tau)  on the masked branch *)
Theorem C19_model_is_spec : forall d thr om bs ns nc tau ts j k o,
  0 <= thr -> (j < length ns)%nat -> (k < length bs)%nat -> (o < length om)%nat ->
  let dts := dd_dts tau 0 ts in
  sens_row (length dts) nc j = dd_signs 1 (length dts) ->
  Forall (fun dt => thr < Rabs (vg RO om o * dt)) dts ->
  cmul' (cmul' ic (cofr RO (vg RO om o)))
    (a3get RO (control_matrix_from_scratch RO d thr (repeat (ev0 d) (length dts)) (repeat (mid RO d) (length dts))
              (propagators RO d (repeat (ev0 d) (length dts)) (repeat (mid RO d) (length dts)) dts)
              om bs ns nc dts (times RO dts)) j k o) =
  cmul' (mtrprod RO d (nthm ns j) (nthm bs k)) (dd_y ts (vg RO om o * tau)).
Proof. exact cm_is_spec. Qed.
Print Assumptions C19_model_is_spec.

(* ... and for the noise operator sigma_z/2 in the basis Basis.pauli(1) the fidelity filter function of the
   package's formula times w^2 IS dd_F(w tau) *)
Theorem C19_filter_function_is_dd_F : forall thr om nc tau ts o,
  0 <= thr -> (o < length om)%nat ->
  let dts := dd_dts tau 0 ts in
  sens_row (length dts) nc 0 = dd_signs 1 (length dts) ->
  Forall (fun dt => thr < Rabs (vg RO om o * dt)) dts ->
  let Bm := control_matrix_from_scratch RO 2 thr (repeat (ev0 2) (length dts)) (repeat (mid RO 2) (length dts))
              (propagators RO 2 (repeat (ev0 2) (length dts)) (repeat (mid RO 2) (length dts)) dts)
              om (pauli_basis RO 1) [sz_half] nc dts (times RO dts) in
  cmul' (cofr RO (vg RO om o * vg RO om o)) (a3get RO (filter_function RO 1 (length (pauli_basis RO 1)) (length om) Bm) 0 0 o) =
  cofr RO (dd_F ts (vg RO om o * tau)).
Proof. exact ff_is_dd_F. Qed.
Print Assumptions C19_filter_function_is_dd_F.

Example C19_filter_function_hypotheses_sat :
  let ts := [1/2] in let nc := [[1; Ropp 1]] in let om := [3] in
  sens_row (length (dd_dts 1 0 ts)) nc 0 = dd_signs 1 (length (dd_dts 1 0 ts)) /\
  Forall (fun dt => 1/10 < Rabs (vg RO om 0 * dt)) (dd_dts 1 0 ts).
Proof. exact ff_is_dd_F_sat. Qed.
