(* C08 -- infidelity, decay amplitudes and cumulant trace are mutually consistent.
   Only statements closed by [exact <lemma>] and their assumptions.                    *)
From Coq Require Import ZArith Reals List.
From FF Require Import Base.Ops Inst.RInst Base.RAlg Base.FMat Model.Numeric Model.Decay Model.Cumulant
     Model.Tie.C08 Proofs.Trapz Proofs.Decay Proofs.DecayPrefix Proofs.TraceId Proofs.PauliOnb Proofs.InfidPos Proofs.PcWitness.
(* the correspondence check's observables and constants are part of the cone rebuilt by ./check *)
From FF Require Model.Consts Inst.Param Inst.EnclosureC08 Corr.Agree Corr.Obs Corr.ObsC08.
Import ListNotations.
Local Open Scope R_scope.

(* util.integrate on a grid of matching length is the weighted sum  sum_o (f_{o+1}+f_o)(x_{o+1}-x_o)/2 *)
Theorem C08_trapz_closed_form : forall n (f : nat -> R) x, length x = n -> trapz RO (build n f) x = trapz_w n f x.
Proof. exact trapz_build. Qed.
Print Assumptions C08_trapz_closed_form.

(* decay_is_trapz: the control-matrix path computes trapz( Re(conj(B_ak) S_ab B_bl) ) / 2 pi *)
Theorem C08_decay_is_trapz : forall Lm Rm idx sp no omega i j k l, length omega = no ->
  decay_entry_cm RO Lm Rm idx sp no omega i j k l = Gamma Lm Rm idx sp no omega i j k l.
Proof. exact decay_is_trapz. Qed.
Print Assumptions C08_decay_is_trapz.

(* parsimonious_eq_direct + ffpath_eq_cmpath: the four option combinations return the same array *)
Theorem C08_decay_options_independent : forall pars use_ff na nk no Lm Rm idx sp omega,
  idx_ok na idx ->
  decay_amplitudes RO pars use_ff na nk no Lm Rm idx sp omega =
  decay_amplitudes RO false false na nk no Lm Rm idx sp omega.
Proof. exact decay_options_independent. Qed.
Print Assumptions C08_decay_options_independent.

(* every entry of the returned array, on every path, is that trapezoidal sum *)
Theorem C08_decay_amplitudes_entry : forall pars use_ff na nk no Lm Rm idx sp omega i j k l,
  idx_ok na idx -> length omega = no ->
  (i < length idx)%nat -> (j < length idx)%nat -> (is_cross sp = false -> i = j) -> (k < nk)%nat -> (l < nk)%nat ->
  dget RO (decay_amplitudes RO pars use_ff na nk no Lm Rm idx sp omega) (lead_pos sp (length idx) i j) k l =
  Gamma Lm Rm idx sp no omega i j k l.
Proof. exact decay_amplitudes_entry. Qed.
Print Assumptions C08_decay_amplitudes_entry.

(* util.get_indices_from_identifiers: None selects all operators in order; a list of identifiers selects position by
   position an index holding that identifier, and all indices are valid (so [idx_ok] holds for what the package passes) *)
Theorem C08_indices_none : forall all_ids, indices_from_identifiers all_ids None = Some (seq 0 (length all_ids)).
Proof. exact indices_none. Qed.
Theorem C08_indices_some : forall all_ids l idx, indices_from_identifiers all_ids (Some l) = Some idx ->
  length idx = length l /\
  forall i, (i < length l)%nat -> (sel idx i < length all_ids)%nat /\ nth (sel idx i) all_ids String.EmptyString = nth i l String.EmptyString.
Proof. exact indices_some. Qed.
Print Assumptions C08_indices_some.

(* slice_commutes: selecting identifiers = slicing the result for all operators *)
Theorem C08_slice_commutes : forall na Lm Rm idx spF spS no omega i j k l,
  spectrum_selected spF spS idx -> (sel idx i < na)%nat -> (sel idx j < na)%nat ->
  Gamma Lm Rm idx spS no omega i j k l = Gamma Lm Rm (seq 0 na) spF no omega (sel idx i) (sel idx j) k l.
Proof. exact slice_commutes. Qed.
Print Assumptions C08_slice_commutes.

(* pulse correlations: the (g,h) decay amplitudes sum to those of the summed control matrix *)
Theorem C08_pc_decay_sum : forall (Bpc : list A3r) na nk no idx sp omega i j k l,
  (sel idx i < na)%nat -> (sel idx j < na)%nat -> (k < nk)%nat -> (l < nk)%nat -> length omega = no ->
  Gamma (cm_pc_sum RO na nk no Bpc) (cm_pc_sum RO na nk no Bpc) idx sp no omega i j k l =
  sumn' (length Bpc) (fun g => sumn' (length Bpc) (fun h =>
     Gamma (nth g Bpc []) (nth h Bpc []) idx sp no omega i j k l)).
Proof. exact pc_decay_sum. Qed.
Print Assumptions C08_pc_decay_sum.

(* trace_identity: for a complete orthonormal Hermitian basis
   tr K = -( d sum_k Gamma_kk - sum_kl Gamma_kl tr C_k tr C_l ) *)
Theorem C08_trace_identity : forall d (basis : list MatR),
  let n := length basis in let Cb := fun k => toF (nthm basis k) in
  basis_herm d n Cb -> basis_orthonormal d n Cb -> basis_complete d n Cb ->
  forall G Dl : RMr,
  sumn' n (fun i => cumulant_general_fn RO n (a4get RO (four_traces_arr RO d (pair_products RO d basis) n)) false G Dl i i)
  = - (INR d * trG basis G - GT d basis G).
Proof. exact trace_identity. Qed.
Print Assumptions C08_trace_identity.

(* infidelity = - tr K / d^2 for EVERY complete orthonormal Hermitian basis, traceless or not (after fix 2891db3:
   fidelity filter function minus the rank-one identity term) *)
Theorem C08_infidelity_is_cumulant_trace : forall d (basis : list MatR), (0 < d)%nat ->
  let n := length basis in let Cb := fun k => toF (nthm basis k) in
  basis_herm d n Cb -> basis_orthonormal d n Cb -> basis_complete d n Cb ->
  forall na nk no (Bm : A3r) idx (sp : spectrumR) omega, nk = n -> idx_ok na idx -> length omega = no ->
  forall i j Dl, (i < length idx)%nat -> (j < length idx)%nat -> (is_cross sp = false -> i = j) ->
  nth (lead_pos sp (length idx) i j) (infidelity_total RO d na nk no Bm basis idx sp omega) 0 =
  - sumn' n (fun m => cumulant_general_fn RO n (a4get RO (four_traces_arr RO d (pair_products RO d basis) n)) false
                        (rmbuild nk nk (fun k l => Gamma Bm Bm idx sp no omega i j k l)) Dl m m) / (INR d * INR d).
Proof. exact infidelity_is_cumulant_trace. Qed.
Print Assumptions C08_infidelity_is_cumulant_trace.
(* its value in decay amplitudes (needs only a Hermitian basis): (d sum_k Gamma_kk - sum_kl Gamma_kl trC_k trC_l)/d^2 *)
Theorem C08_infidelity_entry : forall d (basis : list MatR), (0 < d)%nat ->
  basis_herm d (length basis) (fun k => toF (nthm basis k)) ->
  forall na nk no (Bm : A3r) idx (sp : spectrumR) omega, nk = length basis -> idx_ok na idx -> length omega = no ->
  forall i j, (i < length idx)%nat -> (j < length idx)%nat -> (is_cross sp = false -> i = j) ->
  nth (lead_pos sp (length idx) i j) (infidelity_total RO d na nk no Bm basis idx sp omega) 0 =
  (INR d * trG basis (rmbuild nk nk (fun k l => Gamma Bm Bm idx sp no omega i j k l))
   - GT d basis (rmbuild nk nk (fun k l => Gamma Bm Bm idx sp no omega i j k l))) / (INR d * INR d).
Proof. exact infidelity_entry. Qed.
Print Assumptions C08_infidelity_entry.

(* the removed trace-tensor branch computed the same value (pre-fix, non-traceless bases) ... *)
Theorem C08_infidelity_general_prefix_is_cumulant_trace : forall d (basis : list MatR), (0 < d)%nat ->
  let n := length basis in let Cb := fun k => toF (nthm basis k) in
  basis_herm d n Cb -> basis_orthonormal d n Cb -> basis_complete d n Cb ->
  forall na nk no (Bm : A3r) idx (sp : spectrumR) omega, nk = n -> idx_ok na idx -> length omega = no ->
  forall i j Dl, (i < length idx)%nat -> (j < length idx)%nat -> (is_cross sp = false -> i = j) ->
  nth (lead_pos sp (length idx) i j) (infidelity_total_prefix d false na nk no Bm basis idx sp omega) 0 =
  - sumn' n (fun m => cumulant_general_fn RO n (a4get RO (four_traces_arr RO d (pair_products RO d basis) n)) false
                        (rmbuild nk nk (fun k l => Gamma Bm Bm idx sp no omega i j k l)) Dl m m) / (INR d * INR d).
Proof. exact infidelity_general_prefix_is_cumulant_trace. Qed.
(* ... while the pre-fix traceless branch was - tr K / d^2 PLUS the identity component ... *)
Theorem C08_infidelity_traceless_prefix_excess : forall d (basis : list MatR), (0 < d)%nat ->
  let n := length basis in let Cb := fun k => toF (nthm basis k) in
  basis_herm d n Cb -> basis_orthonormal d n Cb -> basis_complete d n Cb ->
  forall na nk no (Bm : A3r) idx (sp : spectrumR) omega, nk = n -> idx_ok na idx -> length omega = no ->
  forall i j Dl, (i < length idx)%nat -> (j < length idx)%nat -> (is_cross sp = false -> i = j) ->
  nth (lead_pos sp (length idx) i j) (infidelity_total_prefix d true na nk no Bm basis idx sp omega) 0 =
  - sumn' n (fun m => cumulant_general_fn RO n (a4get RO (four_traces_arr RO d (pair_products RO d basis) n)) false
                        (rmbuild nk nk (fun k l => Gamma Bm Bm idx sp no omega i j k l)) Dl m m) / (INR d * INR d)
  + GT d basis (rmbuild nk nk (fun k l => Gamma Bm Bm idx sp no omega i j k l)) / (INR d * INR d).
Proof. exact infidelity_traceless_prefix_excess. Qed.
Print Assumptions C08_infidelity_traceless_prefix_excess.
(* ... REFUTED as an identity (fixed defect: traceless basis, noise operator with trace) *)
Theorem C08_traceless_branch_prefix_refuted :
  exists (basis : list MatR) (Bm : A3r) (sp : spectrumR) (omega : list R),
    let d := 2%nat in let n := length basis in let Cb := fun k => toF (nthm basis k) in
    basis_herm d n Cb /\ basis_orthonormal d n Cb /\ basis_complete d n Cb /\
    (forall k, (1 <= k < n)%nat -> ftr d (Cb k) = 0c) /\
    let G := rmbuild n n (fun k l => Gamma Bm Bm [0%nat] sp 2 omega 0 0 k l) in
    let Tr := a4get RO (four_traces_arr RO d (pair_products RO d basis) n) in
    nth 0 (infidelity_total_prefix d true 1 n 2 Bm basis [0%nat] sp omega) 0 <>
    - sumn' n (fun m => cumulant_general_fn RO n Tr false G G m m) / (INR d * INR d).
Proof. exact traceless_branch_prefix_refuted. Qed.
Print Assumptions C08_traceless_branch_prefix_refuted.

(* pc_infid_sum: the branch of the package (after fix a9e668a) returns a value or raises CalculationError ([None]);
   WHENEVER a value is returned the pulse-correlation infidelities sum to the total infidelity.  [sel_tl] is the verdict
   of np.allclose(tr N_a, 0) on the selected operators, read as: the identity component of the selected rows vanishes *)
Theorem C08_pc_infid_sum_returned : forall d (basis : list MatR), (0 < d)%nat ->
  basis_herm d (length basis) (fun k => toF (nthm basis k)) ->
  forall na nk no (Bpc : list A3r) idx (sp : spectrumR) omega, nk = length basis -> idx_ok na idx -> length omega = no ->
  forall has_cm sel_tl Rv i j,
  infidelity_pc RO d has_cm sel_tl na nk no Bpc basis idx sp omega = Some Rv ->
  (sel_tl = true -> identity_component_vanishes d basis nk no Bpc idx) ->
  (i < length idx)%nat -> (j < length idx)%nat -> (is_cross sp = false -> i = j) ->
  sumn' (length Bpc) (fun g => sumn' (length Bpc) (fun h => nth (lead_pos sp (length idx) i j) (nth h (nth g Rv []) []) 0)) =
  nth (lead_pos sp (length idx) i j) (infidelity_total RO d na nk no (cm_pc_sum RO na nk no Bpc) basis idx sp omega) 0.
Proof. exact pc_infid_sum_returned. Qed.
Print Assumptions C08_pc_infid_sum_returned.
(* the error outcome occurs exactly when the control matrix is gone and a selected operator has a trace *)
Theorem C08_pc_error_iff : forall d (basis : list MatR) na nk no (Bpc : list A3r) idx (sp : spectrumR) omega has_cm sel_tl,
  infidelity_pc RO d has_cm sel_tl na nk no Bpc basis idx sp omega = None <-> (has_cm = false /\ sel_tl = false).
Proof. exact pc_error_iff. Qed.
(* corrected values (control matrix cached) sum to the total *)
Theorem C08_pc_infid_sum : forall d (basis : list MatR), (0 < d)%nat ->
  basis_herm d (length basis) (fun k => toF (nthm basis k)) ->
  forall na nk no (Bpc : list A3r) idx (sp : spectrumR) omega, nk = length basis -> idx_ok na idx -> length omega = no ->
  forall i j, (i < length idx)%nat -> (j < length idx)%nat -> (is_cross sp = false -> i = j) ->
  sumn' (length Bpc) (fun g => sumn' (length Bpc) (fun h =>
     nth (lead_pos sp (length idx) i j) (nth h (nth g (infidelity_pc_value RO d true na nk no Bpc basis idx sp omega) []) []) 0)) =
  nth (lead_pos sp (length idx) i j) (infidelity_total RO d na nk no (cm_pc_sum RO na nk no Bpc) basis idx sp omega) 0.
Proof. exact pc_infid_sum. Qed.
Print Assumptions C08_pc_infid_sum.
(* PRE-FIX (before a9e668a): without the cached control matrix the uncorrected values were returned for every operator:
   the sum exceeds the total by the identity component ... *)
Theorem C08_pc_uncached_prefix_excess : forall d (basis : list MatR), (0 < d)%nat ->
  basis_herm d (length basis) (fun k => toF (nthm basis k)) ->
  forall na nk no (Bpc : list A3r) idx (sp : spectrumR) omega, nk = length basis -> idx_ok na idx -> length omega = no ->
  forall i j, (i < length idx)%nat -> (j < length idx)%nat -> (is_cross sp = false -> i = j) ->
  sumn' (length Bpc) (fun g => sumn' (length Bpc) (fun h =>
     nth (lead_pos sp (length idx) i j) (nth h (nth g (infidelity_pc_value RO d false na nk no Bpc basis idx sp omega) []) []) 0)) =
  nth (lead_pos sp (length idx) i j) (infidelity_total RO d na nk no (cm_pc_sum RO na nk no Bpc) basis idx sp omega) 0
  + GT d basis (rmbuild nk nk (fun k l => Gamma (cm_pc_sum RO na nk no Bpc) (cm_pc_sum RO na nk no Bpc) idx sp no omega i j k l))
    / (INR d * INR d).
Proof. exact pc_uncached_excess. Qed.
(* ... REFUTED as "pulse-correlation infidelities sum to the total" (fixed defect) *)
Theorem C08_pc_uncached_prefix_refuted :
  exists (basis : list MatR) (Bpc : list A3r) (sp : spectrumR) (omega : list R),
    let d := 2%nat in let n := length basis in let Cb := fun k => toF (nthm basis k) in
    basis_herm d n Cb /\ basis_orthonormal d n Cb /\ basis_complete d n Cb /\
    sumn' (length Bpc) (fun g => sumn' (length Bpc) (fun h =>
       nth 0 (nth h (nth g (infidelity_pc_value RO d false 1 n 2 Bpc basis [0%nat] sp omega) []) []) 0)) <>
    nth 0 (infidelity_total RO d 1 n 2 (cm_pc_sum RO 1 n 2 Bpc) basis [0%nat] sp omega) 0.
Proof. exact pc_uncached_prefix_refuted. Qed.
Print Assumptions C08_pc_uncached_prefix_refuted.

(* infid_nonneg: positive-semidefinite spectrum, non-decreasing grid => total infidelity >= 0 *)
Theorem C08_infid_nonneg : forall d na nk no (Bm : A3r) idx (sp : spectrumR) omega,
  (0 < d)%nat -> idx_ok na idx -> length omega = no -> grid_nondecreasing no omega ->
  spectrum_psd sp (leads sp (length idx)) no ->
  forall basis : list MatR, nk = length basis ->
  let n := length basis in let Cb := fun k => toF (nthm basis k) in
  basis_herm d n Cb -> basis_complete d n Cb ->
  0 <= sumlist RO (infidelity_total RO d na nk no Bm basis idx sp omega).
Proof. exact infid_nonneg. Qed.
Print Assumptions C08_infid_nonneg.
Example C08_psd_hypotheses_satisfiable : spectrum_psd spw_ex (leads spw_ex 1) 2 /\ grid_nondecreasing 2 [0; 1].
Proof. exact psd_example. Qed.

(* the hypotheses on the basis are satisfiable: normalised Pauli basis, d = 2 *)
Example C08_pauli_is_complete_onb :
  basis_herm 2 4 pauli_Cb /\ basis_orthonormal 2 4 pauli_Cb /\ basis_complete 2 4 pauli_Cb.
Proof. exact (conj pauli_herm (conj pauli_orthonormal pauli_complete)). Qed.

(* ------------------------------------------------------------------------------------------------
   Semantic tie of numeric._get_integrand (control-matrix path, which_FF = 'generalized', spectrum of 1, 2 or 3 dimensions) and
   of the direct path of numeric.calculate_decay_amplitudes (Proofs/KernelTieC08.v; docs/notes/kernel-tie.md): the terms
   translated on every run from the CURRENT Python bodies by tools/kernel_extract.py (conj / identity applied through the
   comprehension, the gathers [..., idx, :, :], the einsum strings, .real, util.integrate, / (2 pi)) ARE the model
   functions integrand_cm / decay_entry_cm.  util.parse_spectrum and util.get_indices_from_identifiers are oracles.
   ------------------------------------------------------------------------------------------------ *)
From FF Require Import Extracted.Kernels Proofs.KernelTieC08.

Theorem C08_kernels_translated : kernel_untranslated_C08 = nil.
Proof. exact kernels_translated_C08. Qed.

Theorem C08_kernel_integrand1_is_source : forall (L : Arr3 (T:=R)) idx (s : list (C (T:=R))) i k l o,
  integrand_cm RO L L idx (Sp1 s) i i k l o =
  integrand1_src RO (fun p => sel idx p) (fun o' => nth o' s (c0 RO)) (fun a k' o' => a3get RO L a k' o') i k l o.
Proof. exact integrand1_is_source. Qed.

Theorem C08_kernel_integrand2_is_source : forall (L : Arr3 (T:=R)) idx (s : list (list (C (T:=R)))) i k l o,
  integrand_cm RO L L idx (Sp2 s) i i k l o =
  integrand2_src RO (fun p => sel idx p) (fun i' o' => nth o' (nth i' s nil) (c0 RO)) (fun a k' o' => a3get RO L a k' o') i k l o.
Proof. exact integrand2_is_source. Qed.

Theorem C08_kernel_integrand3_is_source : forall (L : Arr3 (T:=R)) idx (s : list (list (list (C (T:=R))))) i j k l o,
  integrand_cm RO L L idx (Sp3 s) i j k l o =
  integrand3_src RO (fun p => sel idx p) (fun i' j' o' => nth o' (nth j' (nth i' s nil) nil) (c0 RO))
                 (fun a k' o' => a3get RO L a k' o') i j k l o.
Proof. exact integrand3_is_source. Qed.
Print Assumptions C08_kernel_integrand3_is_source.

Theorem C08_kernel_decay2_is_source : forall (L : Arr3 (T:=R)) idx (s : list (list (C (T:=R)))) (omega : list R) i k l,
  decay_entry_cm RO L L idx (Sp2 s) (length omega) omega i i k l =
  decay2_src RO (length omega) (fun p => sel idx p) (fun o => vget RO omega o) (fun i' o' => nth o' (nth i' s nil) (c0 RO))
             (fun a k' o' => a3get RO L a k' o') i k l.
Proof. exact decay2_is_source. Qed.
Print Assumptions C08_kernel_decay2_is_source.

Theorem C08_kernel_decay3_is_source : forall (L : Arr3 (T:=R)) idx (s : list (list (list (C (T:=R))))) (omega : list R) i j k l,
  decay_entry_cm RO L L idx (Sp3 s) (length omega) omega i j k l =
  decay3_src RO (length omega) (fun p => sel idx p) (fun o => vget RO omega o)
             (fun i' j' o' => nth o' (nth j' (nth i' s nil) nil) (c0 RO)) (fun a k' o' => a3get RO L a k' o') i j k l.
Proof. exact decay3_is_source. Qed.

(* filter-function path of _get_integrand (moveaxis, F[..., tuple(idx), tuple(idx), :] * spectrum, moveaxis back, .real) and the
   direct path of calculate_decay_amplitudes with the cached generalized filter function *)
Theorem C08_kernel_integrand_ff1_is_source : forall (F : Arr5 (T:=R)) idx (s : list (C (T:=R))) i k l o,
  integrand_ff RO F idx (Sp1 s) i i k l o =
  integrand_ff1_src RO (fun p => sel idx p) (fun o' => nth o' s (c0 RO)) (fun a b k' l' o' => a5get RO F a b k' l' o') i k l o.
Proof. exact integrand_ff1_is_source. Qed.

Theorem C08_kernel_integrand_ff2_is_source : forall (F : Arr5 (T:=R)) idx (s : list (list (C (T:=R)))) i k l o,
  integrand_ff RO F idx (Sp2 s) i i k l o =
  integrand_ff2_src RO (fun p => sel idx p) (fun i' o' => nth o' (nth i' s nil) (c0 RO))
                    (fun a b k' l' o' => a5get RO F a b k' l' o') i k l o.
Proof. exact integrand_ff2_is_source. Qed.

Theorem C08_kernel_decay_ff2_is_source : forall (F : Arr5 (T:=R)) idx (s : list (list (C (T:=R)))) (omega : list R) i k l,
  decay_entry_ff RO F idx (Sp2 s) (length omega) omega i i k l =
  decay_ff2_src RO (length omega) (fun p => sel idx p) (fun o => vget RO omega o) (fun i' o' => nth o' (nth i' s nil) (c0 RO))
                (fun a b k' l' o' => a5get RO F a b k' l' o') i k l.
Proof. exact decay_ff2_is_source. Qed.
