(* C06 -- remapping qubits equals rebuilding the pulse with permuted tensor factors.
   Only statements closed by [exact <lemma>], their assumptions, and examples that the
   hypotheses are satisfiable.  Model: Model/Remap.v (tied to the source by Model/Tie/C06.v
   and compared with the implementation exactly by tools/ffv/props/c06.py).

   Reading guide.  [rremap p order dq mapping = Some r]: the model of pulse_sequence.remap
   returned r.  N = ilog dq (p_d p) qubits, D = dq^N, tau = tt_src dq N order is the source-index
   map of util.tensor_transpose, [mrel D tau M M'] says M'[i][j] = M[tau i][tau j] (that is
   M' = P M P^dagger for the permutation unitary P = fpermM tau), pi = dperm 4 N order is
   basis.remap_pauli_basis_elements.  The "from scratch" quantities are those of the numeric engine
   Model/Numeric.v (C01), evaluated on the data of the remapped pulse.                         *)
From Coq Require Import String ZArith Reals List Sorted Bool.
From FF Require Import Base.Ops Inst.RInst Base.RAlg Spec.Kron2 Spec.DigitPerm Spec.StrSort
     Model.Numeric Model.Remap Model.Tie.C06 Proofs.RemapIdx Proofs.RemapCov Proofs.Remap Proofs.RemapFinal Proofs.RemapCompose Proofs.RemapDischarged Proofs.RemapEx.
(* the comparison functions of the correspondence check are built with this file's dependency cone *)
From FF Require Corr.RemapObs.
From FF Require Model.Tensor Spec.Kron Proofs.KronBridgeC.
Import ListNotations.
Local Open Scope nat_scope.

(* --- digit permutations: bijection, composition (first o1 then o2 = o1[o2[.]]), identity --- *)
Theorem C06_dperm_bij : forall d N o, 0 < d -> is_perm N o -> bij_on (d ^ N) (dperm d N o).
Proof. exact dperm_bij. Qed.
Print Assumptions C06_dperm_bij.
Theorem C06_dperm_compose : forall d N o1 o2 i, 0 < d -> is_perm N o1 -> is_perm N o2 -> i < d ^ N ->
  dperm d N o2 (dperm d N o1 i) = dperm d N (sel 0 o1 o2) i.
Proof. exact dperm_compose. Qed.
Theorem C06_dperm_id : forall d N i, 0 < d -> i < d ^ N -> dperm d N (seq 0 N) i = i.
Proof. exact dperm_id. Qed.

(* --- tensor_transpose of a Kronecker chain is the chain of the permuted factors --- *)
Theorem C06_transpose_kron : forall d N l o, 0 < d -> is_perm N o -> length l = N ->
  feq (d ^ N) (gather2 (dperm d N (inv_order o)) (kronl d l)) (kronl d (sel fdummy l o)).
Proof. exact kronl_transpose. Qed.
Print Assumptions C06_transpose_kron.

(* --- remapped operators are P A P^dagger, P unitary --- *)
Theorem C06_operator_conjugation : forall dq N o M, 0 < dq -> is_perm N o ->
  let P := fpermM (tt_src dq N o) in
  feq (dq ^ N) (toF (tt2 0c dq N o M)) (fmul (dq ^ N) P (fmul (dq ^ N) (toF M) (fadj P))) /\ funitary (dq ^ N) P.
Proof. exact tt2_is_conjugation. Qed.
Print Assumptions C06_operator_conjugation.

(* --- DISCHARGED: the transposition used by the remap model is what the C16 model of util.tensor_transpose
       (Model/Tensor.v at complex entries, tied to the source by Model/Tie/C16.v) returns; bridge Proofs/KronBridgeC.v
       (agent-c16).  Remaining: eigenvalues (rank-1 transposition, compared exactly by the correspondence check), the
       normalisation and the stack axis of Basis.pauli, cache consistency of the input (C07) --- *)
Theorem C06_transpose_discharged : forall dq N ord (M : Mat), 0 < dq -> 1 <= N -> is_perm N ord ->
  exists Rr, Tensor.tensor_transpose 2 (KronBridgeC.ofMat (dq ^ N) M) (map Z.of_nat ord) [repeat dq N; repeat dq N] = Tensor.Ok Rr /\
             meq (dq ^ N) (tt2 0c dq N ord M) (KronBridgeC.toMat (dq ^ N) Rr).
Proof. exact tt2_is_c16_transpose. Qed.
Theorem C06_operators_discharged : forall (p r : rpulse) order dq mapping,
  rremap p order dq mapping = Some r -> 0 < dq -> 1 <= ilog dq (p_d p) -> wf_pulse p ->
  let N := ilog dq (p_d p) in
  exists cidx nidx,
    is_perm (length (c_ids p)) cidx /\ is_perm (length (n_ids p)) nidx /\
    (forall a, a < length (c_ids p) -> exists Rr,
        Tensor.tensor_transpose 2 (KronBridgeC.ofMat (dq ^ N) (nthm (c_opers p) (nth a cidx 0))) (map Z.of_nat order) [repeat dq N; repeat dq N] = Tensor.Ok Rr /\
        meq (dq ^ N) (nthm (c_opers r) a) (KronBridgeC.toMat (dq ^ N) Rr)) /\
    (forall a, a < length (n_ids p) -> exists Rr,
        Tensor.tensor_transpose 2 (KronBridgeC.ofMat (dq ^ N) (nthm (n_opers p) (nth a nidx 0))) (map Z.of_nat order) [repeat dq N; repeat dq N] = Tensor.Ok Rr /\
        meq (dq ^ N) (nthm (n_opers r) a) (KronBridgeC.toMat (dq ^ N) Rr)).
Proof. exact remap_operators_discharged. Qed.
Theorem C06_pauli_chain_discharged : forall (sig : nat -> KronBridgeC.carr) N k, 1 <= N ->
  (forall a, Kron.wf 2 (sig a) /\ Tensor.shp (sig a) = [2; 2]) ->
  exists Rr, Tensor.tensor 2 (map sig (digits 4 N k)) = Tensor.Ok Rr /\
             feq (2 ^ N) (KronBridgeC.cF Rr) (kronl 2 (map (fun a => KronBridgeC.cF (sig a)) (digits 4 N k))).
Proof. exact pauli_chain_discharged. Qed.
Print Assumptions C06_operators_discharged.

(* --- Pauli basis: P C_k P^dagger = C_{pi(k)} --- *)
Theorem C06_pauli_covariance : forall sigma nrm N o k, is_perm N o -> k < 4 ^ N ->
  feq (2 ^ N) (gather2 (tt_src 2 N o) (pauli_el sigma nrm N k)) (pauli_el sigma nrm N (dperm 4 N o k)).
Proof. exact pauli_cov. Qed.
Print Assumptions C06_pauli_covariance.

(* --- structure of the remapped pulse: operators, coefficients, identifiers, Hamiltonian --- *)
Theorem C06_structure : forall p r order dq mapping,
  rremap p order dq mapping = Some r -> 0 < dq -> wf_pulse p ->
  let N := ilog dq (p_d p) in let D := dq ^ N in let tau := tt_src dq N order in
  is_perm N order /\ D = p_d p /\ p_d r = p_d p /\ p_dt r = p_dt p /\
  exists cidx nidx,
    is_perm (length (c_ids p)) cidx /\ is_perm (length (n_ids p)) nidx /\
    nrel D tau (length (c_ids p)) (fun a => nth a cidx 0) (c_opers p) (c_opers r) /\
    nrel D tau (length (n_ids p)) (fun a => nth a nidx 0) (n_opers p) (n_opers r) /\
    (forall a, a < length (c_ids p) -> nth a (c_coeffs r) [] = nth (nth a cidx 0) (c_coeffs p) []) /\
    (forall a, a < length (n_ids p) -> nth a (n_coeffs r) [] = nth (nth a nidx 0) (n_coeffs p) []) /\
    (forall g, feq D (ham (c_opers r) (c_coeffs r) g) (gather2 tau (ham (c_opers p) (c_coeffs p) g))) /\
    (forall m, mapping = Some m ->
       (forall a, a < length (n_ids p) ->
          lookup m (nth (nth a nidx 0) (n_ids p) EmptyString) = Some (nth a (n_ids r) EmptyString)) /\
       (forall a, a < length (c_ids p) ->
          lookup m (nth (nth a cidx 0) (c_ids p) EmptyString) = Some (nth a (c_ids r) EmptyString)) /\
       StronglySorted (fun a b => String.leb a b = true) (n_ids r) /\
       StronglySorted (fun a b => String.leb a b = true) (c_ids r)) /\
    (mapping = None -> n_ids r = n_ids p /\ c_ids r = c_ids p).
Proof. exact remap_structure_final. Qed.
Print Assumptions C06_structure.

(* with an identifier mapping the identifiers of the remapped pulse are distinct (the code rejects mappings that are
   not one-to-one since 510524e) *)
Theorem C06_ids_distinct : forall p r order dq mapping, rremap p order dq mapping = Some r ->
  forall m, mapping = Some m -> NoDup (c_ids r) /\ NoDup (n_ids r).
Proof. exact remap_ids_nodup_final. Qed.

(* --- spectral data carried over diagonalizes the remapped Hamiltonian --- *)
Theorem C06_spectral : forall p r order dq mapping,
  rremap p order dq mapping = Some r -> 0 < dq -> wf_pulse p ->
  let N := ilog dq (p_d p) in let D := dq ^ N in let tau := tt_src dq N order in
  forall evs' Vs', eigvals r = Have evs' -> eigvecs r = Have Vs' ->
  exists evs Vs, eigvals p = Have evs /\ eigvecs p = Have Vs /\
    Forall2 (vrel D tau) evs evs' /\ Forall2 (mrel D tau) Vs Vs' /\
    forall g, valid_eig D (ham (c_opers p) (c_coeffs p) g) (nthv evs g) (nthm Vs g) ->
              valid_eig D (ham (c_opers r) (c_coeffs r) g) (nthv evs' g) (nthm Vs' g).
Proof. exact remap_spectral_final. Qed.
Print Assumptions C06_spectral.

(* --- propagators carried over are the propagators computed from the carried-over spectral data --- *)
Theorem C06_propagators : forall p r order dq mapping,
  rremap p order dq mapping = Some r -> 0 < dq ->
  let N := ilog dq (p_d p) in let D := dq ^ N in
  forall evs' Vs' Qs', eigvals r = Have evs' -> eigvecs r = Have Vs' -> propagators r = Have Qs' ->
  exists evs Vs Qs, eigvals p = Have evs /\ eigvecs p = Have Vs /\ propagators p = Have Qs /\
    (Forall2 (meq D) Qs (Numeric.propagators RO D evs Vs (p_dt p)) ->
     Forall2 (meq D) Qs' (Numeric.propagators RO D evs' Vs' (p_dt r))).
Proof. exact remap_propagators_final. Qed.
Theorem C06_total_propagator : forall p r order dq mapping,
  rremap p order dq mapping = Some r -> 0 < dq ->
  let N := ilog dq (p_d p) in
  forall U', total_propagator r = Have U' ->
  exists U, total_propagator p = Have U /\ mrel (dq ^ N) (tt_src dq N order) U U'.
Proof. exact remap_total_propagator_final. Qed.
Theorem C06_phases : forall p r order dq mapping, rremap p order dq mapping = Some r ->
  forall ph, total_phases r = Have ph -> total_phases p = Have ph /\ omega r = omega p.
Proof. exact remap_phases_final. Qed.

(* --- control matrix: B'_{sigma(a), pi(k)} = B_{a,k} is the from-scratch control matrix of the remapped pulse --- *)
Theorem C06_control_matrix : forall p r order dq mapping,
  rremap p order dq mapping = Some r -> 0 < dq -> wf_pulse p ->
  let N := ilog dq (p_d p) in let K := 4 ^ N in let pi := dperm 4 N order in
  forall sigma nrm basis thr, dq = 2 -> basis_is_pauli sigma nrm N basis ->
  forall Bm', control_matrix r = Have Bm' ->
  exists Bm, control_matrix p = Have Bm /\ omega r = omega p /\
    (is_arr (length (n_ids p)) K Bm ->
       (exists nidx, is_perm (length (n_ids p)) nidx /\
          brel (length (n_ids p)) K (fun a => nth a nidx 0) pi (length (hd [] (hd [] Bm))) Bm Bm') /\
       forall evs Vs om, a3eq (length (n_ids p)) K (length om) Bm (cm_scratch basis thr p evs Vs om) ->
         a3eq (length (n_ids p)) K (length om) Bm'
              (cm_scratch basis thr r (map (tt1 0%R dq N order) evs) (map (tt2 0c dq N order) Vs) om)).
Proof. exact remap_control_matrix_final. Qed.
Print Assumptions C06_control_matrix.

(* --- filter function: rows / columns re-sorted like the noise operators = sum_k conj(B'_ak) B'_bk --- *)
Theorem C06_filter_function : forall p r order dq mapping,
  rremap p order dq mapping = Some r -> 0 < dq -> wf_pulse p ->
  let N := ilog dq (p_d p) in let K := 4 ^ N in
  forall sigma nrm basis thr, dq = 2 -> basis_is_pauli sigma nrm N basis ->
  forall Fm', filter_function r = Have Fm' ->
  exists Fm, filter_function p = Have Fm /\ omega r = omega p /\
    (length Fm = length (n_ids p) ->
     forall evs Vs om,
       a3eq (length (n_ids p)) (length (n_ids p)) (length om) Fm
         (Numeric.filter_function RO (length (n_ids p)) K (length om) (cm_scratch basis thr p evs Vs om)) ->
       a3eq (length (n_ids p)) (length (n_ids p)) (length om) Fm'
         (Numeric.filter_function RO (length (n_ids p)) K (length om)
            (cm_scratch basis thr r (map (tt1 0%R dq N order) evs) (map (tt2 0c dq N order) Vs) om))).
Proof. exact remap_filter_function_final. Qed.
Print Assumptions C06_filter_function.

(* --- Liouville propagator: L'_{pi i, pi j} = L_{ij} is the Liouville representation of the remapped propagator --- *)
Theorem C06_liouville : forall p r order dq mapping,
  rremap p order dq mapping = Some r -> 0 < dq -> wf_pulse p ->
  let N := ilog dq (p_d p) in let K := 4 ^ N in let D := dq ^ N in
  forall sigma nrm basis, dq = 2 -> basis_is_pauli sigma nrm N basis ->
  forall L', tpl r = Have L' ->
  exists L, tpl p = Have L /\
    (is_arr K K L -> forall U, req K L (liouville RO D U basis) ->
       req K L' (liouville RO D (tt2 0c dq N order U) basis)).
Proof. exact remap_liouville_final. Qed.
Print Assumptions C06_liouville.

(* --- composition and identity --- *)
Theorem C06_compose_operators : forall dq N o1 o2 M, 0 < dq -> is_perm N o1 -> is_perm N o2 ->
  tt2 0c dq N o2 (tt2 0c dq N o1 M) = tt2 0c dq N (sel 0 o1 o2) M.
Proof. exact (tt2_compose 0c). Qed.
Theorem C06_compose_eigvals : forall dq N o1 o2 v, 0 < dq -> is_perm N o1 -> is_perm N o2 ->
  tt1 0%R dq N o2 (tt1 0%R dq N o1 v) = tt1 0%R dq N (sel 0 o1 o2) v.
Proof. exact (tt1_compose 0%R). Qed.
Theorem C06_compose_pauli : forall N o1 o2 k, is_perm N o1 -> is_perm N o2 -> k < 4 ^ N ->
  nth (nth k (remap_pauli N o1) 0) (remap_pauli N o2) 0 = nth k (remap_pauli N (sel 0 o1 o2)) 0.
Proof. exact remap_pauli_compose. Qed.
Theorem C06_compose_sorting : forall (ks : list string) i1, NoDup ks -> is_perm (length ks) i1 ->
  sel 0 i1 (argsort (sel EmptyString ks i1)) = argsort ks.
Proof. exact sort_compose. Qed.
Theorem C06_order_compose_perm : forall N o1 o2, is_perm N o1 -> is_perm N o2 -> is_perm N (sel 0 o1 o2).
Proof. exact sel_perm_comp. Qed.
Print Assumptions C06_compose_sorting.

Theorem C06_identity_partial : forall (p r : rpulse) dq N,
  0 < dq -> rremap p (seq 0 N) dq None = Some r -> ilog dq (p_d p) = N ->
  Forall (is_mat (dq ^ N)) (c_opers p) -> Forall (is_mat (dq ^ N)) (n_opers p) ->
  length (c_opers p) = length (c_ids p) -> length (n_opers p) = length (n_ids p) ->
  length (c_coeffs p) = length (c_ids p) -> length (n_coeffs p) = length (n_ids p) ->
  c_opers r = c_opers p /\ n_opers r = n_opers p /\ c_ids r = c_ids p /\ n_ids r = n_ids p /\
  c_coeffs r = c_coeffs p /\ n_coeffs r = n_coeffs p /\ p_dt r = p_dt p /\
  (forall U, is_mat (dq ^ N) U -> total_propagator p = Have U -> need_tp p = false -> total_propagator r = Have U) /\
  (forall Fm, filter_function p = Have Fm -> has_om p = true -> length Fm = length (n_ids p) ->
     Forall (fun row => length row = length (n_ids p)) Fm -> filter_function r = Have Fm).
Proof. exact remap_id_fields. Qed.
Print Assumptions C06_identity_partial.

(* --- record-level composition: remap (remap p o1 m1) o2 m2 and remap p (o1[o2[.]]) (m2 o m1) agree on every field
       and every cache slot.  [remap_facts p r ...] is what a successful remap looks like (C06_remap_inv); the index
       hypotheses hold when identifiers are sorted and distinct and the mappings compose (C06_compose_indices);
       the cache of p must be closed (omega + Liouville propagator never cached without phases / FF / CM -- otherwise
       the two-step remap drops the Liouville propagator, see docs/notes/C06.md) --- *)
Theorem C06_remap_inv : forall p order dq mapping r, rremap p order dq mapping = Some r ->
  exists cids nids cidx nidx, remap_facts p r order dq mapping (ilog dq (p_d p)) cids nids cidx nidx.
Proof. exact remap_inv. Qed.
Theorem C06_compose_indices : forall (ks12 : list string) i1, NoDup ks12 -> is_perm (length ks12) i1 ->
  let ks2 := sel EmptyString ks12 i1 in
  sel 0 i1 (argsort ks2) = argsort ks12 /\
  sel EmptyString ks2 (argsort ks2) = sel EmptyString ks12 (argsort ks12).
Proof. exact compose_indices. Qed.
Theorem C06_compose_record : forall (p q r r' : rpulse) o1 o2 dq m1 m2 m12 N c1 n1 c2 n2 c12 n12 ci1 ni1 ci2 ni2 ci12 ni12,
  remap_facts p q o1 dq m1 N c1 n1 ci1 ni1 -> remap_facts q r o2 dq m2 N c2 n2 ci2 ni2 ->
  remap_facts p r' (sel 0 o1 o2) dq m12 N c12 n12 ci12 ni12 -> 0 < dq ->
  ci12 = sel 0 ci1 ci2 -> ni12 = sel 0 ni1 ni2 ->
  sel EmptyString c2 ci2 = sel EmptyString c12 ci12 -> sel EmptyString n2 ni2 = sel EmptyString n12 ni12 ->
  is_perm (length (c_ids p)) ci1 -> is_perm (length (c_ids p)) ci2 ->
  is_perm (length (n_ids p)) ni1 -> is_perm (length (n_ids p)) ni2 ->
  (length (c_opers p) = length (c_ids p) /\ length (c_coeffs p) = length (c_ids p)) ->
  (length (n_opers p) = length (n_ids p) /\ length (n_coeffs p) = length (n_ids p)) ->
  (forall Bm, control_matrix p = Have Bm -> is_arr (length (n_ids p)) (4 ^ N) Bm) ->
  (forall L, tpl p = Have L -> is_arr (4 ^ N) (4 ^ N) L) ->
  (forall Fm, filter_function p = Have Fm -> is_arr (length (n_ids p)) (length (n_ids p)) Fm) ->
  (has_liou p && cached (tpl p) = true ->
     (has_om p && cached (total_phases p)) || (has_om p && cached (filter_function p)) || has_cm p = true) ->
  c_opers r = c_opers r' /\ n_opers r = n_opers r' /\ (c_ids r = c_ids r' /\ n_ids r = n_ids r') /\
  (c_coeffs r = c_coeffs r' /\ n_coeffs r = n_coeffs r') /\ (p_dt r = p_dt r' /\ p_d r = p_d r' /\ btype r = btype r') /\
  (eigvals r = eigvals r' /\ eigvecs r = eigvecs r' /\ propagators r = propagators r' /\ total_propagator r = total_propagator r') /\
  (omega r = omega r' /\ total_phases r = total_phases r' /\ filter_function r = filter_function r') /\
  control_matrix r = control_matrix r' /\ tpl r = tpl r'.
Proof. exact compose_record. Qed.
Print Assumptions C06_compose_record.

(* --- record-level identity: the identity permutation without identifier mapping leaves operators, identifiers and
       coefficients unchanged and never changes a cached value ([slot_sub sr sp]: a value held by the result is the
       value held by the input; other slots were recomputed by the new pulse itself or dropped) --- *)
Theorem C06_identity_record : forall (p r : rpulse) dq N,
  0 < dq -> rremap p (seq 0 N) dq None = Some r -> ilog dq (p_d p) = N ->
  Forall (is_mat (dq ^ N)) (c_opers p) -> Forall (is_mat (dq ^ N)) (n_opers p) ->
  length (c_opers p) = length (c_ids p) -> length (n_opers p) = length (n_ids p) ->
  length (c_coeffs p) = length (c_ids p) -> length (n_coeffs p) = length (n_ids p) ->
  (forall evs, eigvals p = Have evs -> Forall (fun v => length v = dq ^ N) evs) ->
  (forall Vs, eigvecs p = Have Vs -> Forall (is_mat (dq ^ N)) Vs) ->
  (forall Qs, propagators p = Have Qs -> Forall (is_mat (dq ^ N)) Qs) ->
  (forall U, total_propagator p = Have U -> is_mat (dq ^ N) U) ->
  (forall Bm, control_matrix p = Have Bm -> is_arr (length (n_ids p)) (4 ^ N) Bm) ->
  (forall L, tpl p = Have L -> is_arr (4 ^ N) (4 ^ N) L) ->
  (forall Fm, filter_function p = Have Fm -> is_arr (length (n_ids p)) (length (n_ids p)) Fm) ->
  c_opers r = c_opers p /\ n_opers r = n_opers p /\ c_ids r = c_ids p /\ n_ids r = n_ids p /\
  c_coeffs r = c_coeffs p /\ n_coeffs r = n_coeffs p /\ p_dt r = p_dt p /\ p_d r = p_d p /\ btype r = btype p /\
  slot_sub (eigvals r) (eigvals p) /\ slot_sub (eigvecs r) (eigvecs p) /\ slot_sub (propagators r) (propagators p) /\
  slot_sub (total_propagator r) (total_propagator p) /\ slot_sub (omega r) (omega p) /\
  slot_sub (total_phases r) (total_phases p) /\ slot_sub (filter_function r) (filter_function p) /\
  slot_sub (tpl r) (tpl p) /\ slot_sub (control_matrix r) (control_matrix p).
Proof. exact remap_id_record. Qed.
Print Assumptions C06_identity_record.

(* --- the hypotheses are satisfiable --- *)
Example C06_ex_remap_succeeds :
  exists r, rremap ex_pulse [1; 0] 2 (Some ex_map) = Some r
    /\ n_ids r = ["k"; "z"]%string
    /\ (exists B, control_matrix r = Have B) /\ (exists Fm, filter_function r = Have Fm)
    /\ (exists L, tpl r = Have L) /\ (exists e V, eigvals r = Have e /\ eigvecs r = Have V)
    /\ (exists U, total_propagator r = Have U).
Proof. exact ex_remap_succeeds. Qed.
Example C06_ex_wf : wf_pulse ex_pulse /\ is_perm 2 [1; 0] /\ is_perm 3 [2; 0; 1]
  /\ is_arr 2 16 ex_cm /\ is_arr 16 16 ex_tpl /\ length ex_ff = 2.
Proof. exact (conj ex_wf (conj (proj1 ex_order_perm) (conj (proj2 ex_order_perm) ex_shapes))). Qed.
Example C06_ex_basis : forall sigma nrm N, basis_is_pauli sigma nrm N (pauli_list sigma nrm N).
Proof. exact ex_basis. Qed.
Example C06_ex_consistent : forall n1 n2 n3 X, a3eq n1 n2 n3 X X.
Proof. exact ex_consistent. Qed.
