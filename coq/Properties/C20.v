(* C20 -- inconsistent input is rejected with the documented exception, valid input never.
   Statements about the decision functions of Model/Validate.v (descriptors of inputs -> Ok | Raise class),
   closed by [exact <lemma>].  Every corruption is applied at an ARBITRARY position i of the descriptor list.
   The model is tied to the source by the raise-site catalogue (Model/Tie/C20.v) and compared with the
   implementation's exception classes by tools/ffv/props/c20.py. *)
From Coq Require Import ZArith List Bool String PeanoNat.
From FF Require Import Model.B64 Model.Pulse Model.Validate Model.Tie.C20 Proofs.PulseBase Proofs.Validate.
From FF Require Corr.ValidateObs.
Import ListNotations.
Local Notation length := List.length (only parsing).

(* ---------------------------------------------------------------- sound: the documented domain is accepted *)
Theorem C20_sound_constructor : forall d k, valid_ctor d k -> validate_ctor k = ok.
Proof. exact validate_ctor_sound. Qed.
Theorem C20_sound_concatenate : forall l, valid_pulses l -> validate_concat_wo (PsList l) = ok.
Proof. exact validate_concat_wo_sound. Qed.
Theorem C20_sound_extend : forall x, valid_extend x -> validate_extend x = ok.
Proof. exact validate_extend_sound. Qed.
Theorem C20_sound_remap : forall r,
  p_d (r_pulse r) = r_dpq r ^ r_N r -> r_order_ints r = true -> is_perm_of_range (r_order r) (r_N r) = true ->
  r_mapping r = None -> uniqueb (map c_id (p_c (r_pulse r))) = true -> uniqueb (map n_id (p_n (r_pulse r))) = true ->
  validate_remap r = ok.
Proof. exact validate_remap_sound. Qed.
(* array_like arguments (ndarray or list / tuple) are in the documented domain: the implementation rejects
   lists with AttributeError -- a finding about /repo, found by the correspondence check *)
Theorem C20_sound_infidelity : forall a, valid_analysis a -> validate_infidelity a = ok.
Proof. exact validate_infidelity_sound. Qed.
Theorem C20_sound_decay_amplitudes : forall a, valid_analysis a -> validate_decay_amplitudes a = ok.
Proof. exact validate_decay_sound. Qed.
Theorem C20_sound_spectrum : forall s n_idx n_omega,
  documented_spectrum_shape (s_shape s) n_idx n_omega -> (length (s_shape s) = 3 -> s_herm s = true) ->
  validate_spectrum s n_idx n_omega = ok.
Proof. exact validate_spectrum_sound. Qed.
Theorem C20_sound_identifiers : forall all_ids ids, (forall l, ids = Some l -> incl l all_ids) -> validate_ids all_ids ids = ok.
Proof. exact validate_ids_sound. Qed.
Theorem C20_option_accepted_iff_allowed : forall v allowed, validate_option v allowed = ok <-> In v allowed.
Proof. exact validate_option_spec. Qed.
Theorem C20_sound_basis : forall d os labels, os <> [] -> Forall (good_oper d) os -> length os <= d * d ->
  (labels = None \/ labels = Some (length os)) -> validate_basis_new (Build_basis_new_d (GOpers os) labels) = ok.
Proof. exact validate_basis_new_sound. Qed.
Theorem C20_sound_dims : forall dims rank m, length dims = rank -> Forall (fun x => length x = m) dims -> validate_dims dims rank = ok.
Proof. exact validate_dims_sound. Qed.
Theorem C20_pulse_correlation_computed : forall p, p_pc p = true ->
  validate_get_pc_control_matrix p = ok /\
  (forall w, In w ["fidelity"; "generalized"]%string -> validate_get_pc_filter_function p w = ok).
Proof. exact pc_computed. Qed.
Print Assumptions C20_sound_constructor.
Print Assumptions C20_sound_extend.

(* hypotheses satisfiable: a two-operator, two-segment constructor call *)
Example C20_valid_ctor_example :
  let e := fun s => Build_entry_d true (Build_oper_d OArray [2; 2]) (Some 2) (Id s) in
  valid_ctor 2 (Build_ctor_d (Build_dt_d true [DPos; DZero]) (HList [e "x"; e "y"]%string) (HList [e "z"]%string) (BBasis [4; 2; 2])).
Proof.
  cbv zeta. unfold valid_ctor. cbn [k_dt dt_haslen dt_vals k_Hc k_Hn k_basis length].
  split; [reflexivity|]. split; [split; [constructor; [left; reflexivity|]; constructor; [right; reflexivity|]; constructor | discriminate]|].
  split; [eexists; split; [reflexivity|]; split; [discriminate|]; split; [repeat constructor | intros _; reflexivity]|].
  split; [eexists; split; [reflexivity|]; split; [discriminate|]; split; [repeat constructor | intros _; reflexivity]|].
  right. exists 4. reflexivity.
Qed.

(* ---------------------------------------------------------------- complete: constructor *)
Theorem C20_ctor_durations_not_a_sequence : forall d k, valid_ctor d k ->
  validate_ctor (Build_ctor_d (Build_dt_d false (dt_vals (k_dt k))) (k_Hc k) (k_Hn k) (k_basis k)) = Raise TypeError.
Proof. exact ctor_complete_dt_no_len. Qed.
Theorem C20_ctor_durations_empty : forall d k, valid_ctor d k ->
  validate_ctor (Build_ctor_d (Build_dt_d true []) (k_Hc k) (k_Hn k) (k_basis k)) = Raise ValueError.
Proof. exact ctor_complete_dt_empty. Qed.
(* a negative, complex or non-finite (nan, inf) duration at any position *)
Theorem C20_ctor_duration_value : forall d k i v, valid_ctor d k -> i < length (dt_vals (k_dt k)) -> v = DNeg \/ v = DComplex \/ v = DNonFinite ->
  validate_ctor (Build_ctor_d (Build_dt_d true (upd (dt_vals (k_dt k)) i v)) (k_Hc k) (k_Hn k) (k_basis k)) = Raise ValueError.
Proof. exact ctor_complete_dt_value. Qed.
(* an entry that is not a list, an operator of a wrong type, a non-square or three-dimensional operator,
   coefficients that are not a sequence or have the wrong length -- at any position of H_c or H_n *)
Theorem C20_ctor_entry : forall d k (noise : bool) es i c,
  valid_ctor d k -> (if noise then k_Hn k else k_Hc k) = HList es -> i < length es ->
  validate_ctor (Build_ctor_d (k_dt k)
                   (if noise then k_Hc k else HList (upd es i (apply_e d (length (dt_vals (k_dt k))) c (nth i es e0))))
                   (if noise then HList (upd es i (apply_e d (length (dt_vals (k_dt k))) c (nth i es e0))) else k_Hn k)
                   (k_basis k)) = Raise (ecorr_class c).
Proof. exact ctor_complete_entry. Qed.
(* an operator of another dimension at any position (also when it is the only operator of its Hamiltonian) *)
Theorem C20_ctor_operator_dimension : forall d k (noise : bool) es i,
  valid_ctor d k -> (if noise then k_Hn k else k_Hc k) = HList es -> i < length es ->
  let x := Build_entry_d true (Build_oper_d OArray [S d; S d]) (Some (length (dt_vals (k_dt k)))) (e_id (nth i es e0)) in
  validate_ctor (Build_ctor_d (k_dt k) (if noise then k_Hc k else HList (upd es i x)) (if noise then HList (upd es i x) else k_Hn k)
                   (k_basis k)) = Raise ValueError.
Proof. exact ctor_complete_dimension. Qed.
(* entry i carries the identifier of entry j *)
Theorem C20_ctor_duplicate_identifier : forall noise d n es i j s,
  valid_H noise d n es -> i < length es -> j < length es -> i <> j -> e_id (nth j es e0) = Id s ->
  let e := nth i es e0 in
  validate_H noise n (HList (upd es i (Build_entry_d (e_islist e) (e_oper e) (e_coeff e) (Id s)))) = Raise ValueError.
Proof. exact validate_H_complete_duplicate. Qed.
Theorem C20_ctor_H_not_list : forall d k (noise : bool), valid_ctor d k ->
  validate_ctor (Build_ctor_d (k_dt k) (if noise then k_Hc k else HNotList) (if noise then HNotList else k_Hn k) (k_basis k)) = Raise TypeError.
Proof. exact ctor_complete_H_not_list. Qed.
Theorem C20_ctor_basis : forall d k b, valid_ctor d k ->
  b = BNotBasis \/ (exists m d', b = BBasis [m; d'; d'] /\ d' <> d) ->
  validate_ctor (Build_ctor_d (k_dt k) (k_Hc k) (k_Hn k) b) = Raise ValueError.
Proof. exact ctor_complete_basis. Qed.
Print Assumptions C20_ctor_entry.

(* ---------------------------------------------------------------- complete: concatenation *)
Theorem C20_concat_not_a_pulse : forall l i x, i < length l -> p_ispulse x = false ->
  validate_concat_wo (PsList (upd l i x)) = Raise TypeError.
Proof. exact concat_complete_not_pulse. Qed.
Theorem C20_concat_dimension : forall l i x, valid_pulses l -> 2 <= length l -> i < length l ->
  p_ispulse x = true -> p_d x <> p_d (nth i l x) -> validate_concat_wo (PsList (upd l i x)) = Raise ValueError.
Proof. exact concat_complete_dimension. Qed.
Theorem C20_concat_basis : forall l i x, valid_pulses l -> 2 <= length l -> i < length l ->
  p_ispulse x = true -> p_d x = p_d (nth i l x) -> p_basis x <> p_basis (nth i l x) ->
  validate_concat_wo (PsList (upd l i x)) = Raise ValueError.
Proof. exact concat_complete_basis. Qed.
Theorem C20_concat_operator_two_identifiers : forall l (noise : bool) t u,
  l <> [] -> Forall (fun p => p_ispulse p = true) l ->
  (exists d, Forall (fun x => x = d) (map p_d l)) -> (exists b, Forall (fun x => x = b) (map p_basis l)) ->
  (noise = true -> functional (cterms l) /\ uniqueb (concat_ids false l) = true) ->
  In t (if noise then nterms l else cterms l) -> In u (if noise then nterms l else cterms l) ->
  fst t = fst u -> snd t <> snd u -> validate_concat_wo (PsList l) = Raise ValueError.
Proof. exact concat_complete_two_identifiers. Qed.
Theorem C20_concat_sensitivity_not_inferable : forall l p q t,
  l <> [] -> Forall (fun p => p_ispulse p = true) l ->
  (exists d, Forall (fun x => x = d) (map p_d l)) -> (exists b, Forall (fun x => x = b) (map p_basis l)) ->
  functional (cterms l) -> functional (nterms l) ->
  uniqueb (concat_ids false l) = true -> uniqueb (concat_ids true l) = true ->
  In p l -> In q l -> In t (p_n p) -> n_sens t = None -> has_op (n_op t) q = false ->
  validate_concat_wo (PsList l) = Raise ValueError.
Proof. exact concat_complete_sensitivity. Qed.
Theorem C20_concat_suffix_clash : forall l (noise : bool),
  l <> [] -> Forall (fun p => p_ispulse p = true) l ->
  (exists d, Forall (fun x => x = d) (map p_d l)) -> (exists b, Forall (fun x => x = b) (map p_basis l)) ->
  functional (cterms l) -> (noise = true -> uniqueb (concat_ids false l) = true /\ functional (nterms l)) ->
  uniqueb (concat_ids noise l) = false -> validate_concat_wo (PsList l) = Raise ValueError.
Proof. exact concat_complete_suffix_clash. Qed.
Print Assumptions C20_concat_sensitivity_not_inferable.

(* ---------------------------------------------------------------- complete: extend / remap *)
Theorem C20_extend_not_a_pulse : forall x i e, x_entries x <> [] -> i < length (x_entries x) -> p_ispulse (x_pulse e) = false ->
  validate_extend (Build_extend_d (upd (x_entries x) i e) (x_ndt x) (x_N x) (x_dpq x) (x_add x) (x_cache_diag x) (x_cache_ff x) (x_omega_given x))
  = Raise TypeError.
Proof. exact extend_complete_not_pulse. Qed.
Theorem C20_extend_noninteger_qubit : forall x i e, x_entries x <> [] -> Forall (fun e => p_ispulse (x_pulse e) = true) (x_entries x) ->
  i < length (x_entries x) -> p_ispulse (x_pulse e) = true -> x_qubits e = QNonInt ->
  validate_extend (Build_extend_d (upd (x_entries x) i e) (x_ndt x) (x_N x) (x_dpq x) (x_add x) (x_cache_diag x) (x_cache_ff x) (x_omega_given x))
  = Raise TypeError.
Proof. exact extend_complete_nonint_qubit. Qed.
Theorem C20_concatenate_periodic : forall p n,
  (p_ispulse p = true -> (1 <= n)%Z -> validate_concat_periodic p n = ok) /\
  (p_ispulse p = false -> validate_concat_periodic p n = Raise TypeError) /\
  (p_ispulse p = true -> (n < 1)%Z -> validate_concat_periodic p n = Raise ValueError).
Proof. exact validate_concat_periodic_spec. Qed.
Theorem C20_extend_time_grid : forall x i e, valid_extend x -> 2 <= length (x_entries x) -> i < length (x_entries x) ->
  let e0' := nth i (x_entries x) e in
  p_ispulse (x_pulse e) = true -> x_qubits e = x_qubits e0' -> p_d (x_pulse e) = p_d (x_pulse e0') ->
  p_dt (x_pulse e) <> p_dt (x_pulse e0') ->
  validate_extend (Build_extend_d (upd (x_entries x) i e) (x_ndt x) (x_N x) (x_dpq x) (x_add x) (x_cache_diag x) (x_cache_ff x) (x_omega_given x))
  = Raise ValueError.
Proof. exact extend_complete_time_grid. Qed.
Theorem C20_extend_clash_or_register : forall x,
  x_entries x <> [] -> Forall (fun e => p_ispulse (x_pulse e) = true) (x_entries x) ->
  Forall (entry_dim_ok (x_dpq x)) (x_entries x) ->
  (exists t, Forall (fun v => v = t) (map (fun e => p_dt (x_pulse e)) (x_entries x))) ->
  let active := flat_map (fun e => qubit_list (x_qubits e)) (x_entries x) in
  (~ NoDup active \/ (exists n, x_N x = Some n /\ n < fold_right Nat.max 0 active + 1)) ->
  validate_extend x = Raise ValueError.
Proof. exact extend_complete_clash_or_register. Qed.
(* the register-size test precedes the single-pulse shortcut: also ONE pulse whose register has exactly as many qubits as
   the pulse is rejected when its highest qubit index does not fit *)
Theorem C20_extend_register_single_or_many : forall x n,
  x_entries x <> [] -> Forall (fun e => p_ispulse (x_pulse e) = true) (x_entries x) ->
  Forall (entry_dim_ok (x_dpq x)) (x_entries x) ->
  (exists t, Forall (fun v => v = t) (map (fun e => p_dt (x_pulse e)) (x_entries x))) ->
  x_N x = Some n -> n < fold_right Nat.max 0 (flat_map (fun e => qubit_list (x_qubits e)) (x_entries x)) + 1 ->
  validate_extend x = Raise ValueError.
Proof. exact extend_complete_register. Qed.
Example C20_extend_register_before_shortcut :
  validate_extend (Build_extend_d [Build_ext_entry (one_pulse 4) (QTuple [1; 2]) None] 2 (Some 2) 2 None None None false) = Raise ValueError /\
  validate_extend (Build_extend_d [Build_ext_entry (one_pulse 2) (QInt 1) None] 2 (Some 1) 2 None None None false) = Raise ValueError /\
  validate_extend (Build_extend_d [Build_ext_entry (one_pulse 2) (QTuple [1]) None] 2 (Some 1) 2 None None None false) = Raise ValueError /\
  validate_extend (Build_extend_d [Build_ext_entry (one_pulse 4) (QTuple [0; 1]) None] 2 (Some 2) 2 None None (Some true) false) = ok /\
  validate_extend (Build_extend_d [Build_ext_entry (one_pulse 2) (QInt 0) None] 2 None 2 None None (Some true) false) = ok.
Proof. exact extend_register_before_shortcut. Qed.
Theorem C20_remap_complete : forall r, p_d (r_pulse r) = r_dpq r ^ r_N r ->
  (r_order_ints r = false -> validate_remap r = Raise TypeError) /\
  (r_order_ints r = true -> length (r_order r) <> r_N r -> validate_remap r = Raise ValueError) /\
  (forall d', d' <> r_dpq r ^ r_N r ->
     validate_remap (Build_remap_d (Build_pulse_d (p_ispulse (r_pulse r)) d' (p_basis (r_pulse r)) (p_c (r_pulse r)) (p_n (r_pulse r))
                                      (p_dt (r_pulse r)) (p_omega (r_pulse r)) (p_cm (r_pulse r)) (p_pc (r_pulse r)))
                                   (r_order r) (r_order_ints r) (r_dpq r) (r_N r) (r_mapping r)) = Raise ValueError).
Proof. exact validate_remap_complete. Qed.
Theorem C20_mapping_unknown_identifier : forall tbl ids i s, i <= length ids -> lookup tbl s = None ->
  map_ids (Some tbl) (firstn i ids ++ s :: skipn i ids) = Raise ValueError.
Proof. exact map_ids_unknown. Qed.
Print Assumptions C20_extend_time_grid.

(* ---------------------------------------------------------------- complete: spectra, identifiers, options, analysis *)
Theorem C20_option_rejected : forall v allowed, ~ In v allowed -> validate_option v allowed = Raise ValueError.
Proof. exact validate_option_complete. Qed.
Theorem C20_unknown_identifier : forall all_ids l i s, i <= length l -> ~ In s all_ids ->
  validate_ids all_ids (Some (firstn i l ++ s :: skipn i l)) = Raise ValueError.
Proof. exact validate_ids_complete. Qed.
Theorem C20_spectrum_frequency_axis : forall s n_idx n_omega m,
  documented_spectrum_shape (s_shape s) n_idx n_omega -> m <> n_omega -> m <> 1 ->
  validate_spectrum (Build_spectrum_d (s_kind s) (removelast (s_shape s) ++ [m]) (s_herm s)) n_idx n_omega = Raise ValueError.
Proof. exact validate_spectrum_complete_omega. Qed.
Theorem C20_spectrum_operator_axis : forall s n_idx n_omega m (first : bool), m <> n_idx -> m <> 1 ->
  validate_spectrum (Build_spectrum_d (s_kind s) (if first then [m; n_idx; n_omega] else [n_idx; m; n_omega]) (s_herm s)) n_idx n_omega = Raise ValueError
  /\ validate_spectrum (Build_spectrum_d (s_kind s) [m; n_omega] (s_herm s)) n_idx n_omega = Raise ValueError.
Proof. exact validate_spectrum_complete_axis. Qed.
Theorem C20_spectrum_not_hermitian : forall k n_idx n_omega,
  validate_spectrum (Build_spectrum_d k [n_idx; n_idx; n_omega] false) n_idx n_omega = Raise ValueError.
Proof. exact validate_spectrum_complete_hermitian. Qed.
Theorem C20_spectrum_four_dimensional : forall k h a b c e n_idx n_omega,
  validate_spectrum (Build_spectrum_d k [a; b; c; e] h) n_idx n_omega = Raise ValueError.
Proof. exact validate_spectrum_complete_4d. Qed.
Theorem C20_analysis_option : forall a w, ~ In w ["total"; "correlations"]%string ->
  validate_infidelity (with_which a w) = Raise ValueError /\ validate_decay_amplitudes (with_which a w) = Raise ValueError.
Proof. exact analysis_complete_option. Qed.
Theorem C20_analysis_identifier : forall a l i s, In (a_which a) ["total"; "correlations"]%string ->
  i <= length l -> ~ In s (map n_id (p_n (a_pulse a))) ->
  validate_infidelity (with_ids a (firstn i l ++ s :: skipn i l)) = Raise ValueError /\
  validate_decay_amplitudes (with_ids a (firstn i l ++ s :: skipn i l)) = Raise ValueError.
Proof. exact analysis_complete_identifier. Qed.
Theorem C20_analysis_correlations : forall a, valid_analysis a -> a_which a = "correlations"%string ->
  let p := a_pulse a in
  validate_infidelity (with_pulse a (Build_pulse_d (p_ispulse p) (p_d p) (p_basis p) (p_c p) (p_n p) (p_dt p) (p_omega p) (p_cm p) false))
    = Raise CalculationError /\
  validate_decay_amplitudes (with_pulse a (Build_pulse_d (p_ispulse p) (p_d p) (p_basis p) (p_c p) (p_n p) (p_dt p) (p_omega p) (p_cm p) false))
    = Raise CalculationError /\
  (forall t, t <> a_omega_tag a ->
     validate_infidelity (with_pulse a (Build_pulse_d (p_ispulse p) (p_d p) (p_basis p) (p_c p) (p_n p) (p_dt p) (Some t) (p_cm p) (p_pc p)))
       = Raise ValueError /\
     validate_decay_amplitudes (with_pulse a (Build_pulse_d (p_ispulse p) (p_d p) (p_basis p) (p_c p) (p_n p) (p_dt p) (Some t) (p_cm p) (p_pc p)))
       = Raise ValueError).
Proof. exact analysis_complete_correlations. Qed.
Theorem C20_pulse_correlation_not_computed : forall p, p_pc p = false ->
  validate_get_pc_control_matrix p = Raise CalculationError /\
  (forall w, In w ["fidelity"; "generalized"]%string -> validate_get_pc_filter_function p w = Raise CalculationError).
Proof. exact pc_not_computed. Qed.
Print Assumptions C20_analysis_correlations.

(* ---------------------------------------------------------------- cumulant function, error transfer matrix *)
Theorem C20_sound_cumulant : forall q, valid_analysis (q_a q) -> q_have_spectrum q = true -> q_have_omega q = true ->
  q_decay_given q = false -> (q_second_order q = true -> a_which (q_a q) = "total"%string /\ (q_shifts_given q = true -> q_shifts_shape_ok q = true)) ->
  validate_cumulant q = ok.
Proof. exact validate_cumulant_sound. Qed.
Theorem C20_cumulant_complete : forall q, In (a_which (q_a q)) ["total"; "correlations"]%string ->
  (q_have_spectrum q = false -> q_have_omega q = false -> q_decay_given q = false -> validate_cumulant q = Raise ValueError) /\
  (q_have_spectrum q = false -> q_have_omega q = false -> q_second_order q = true -> q_shifts_given q = false -> validate_cumulant q = Raise ValueError) /\
  (q_have_spectrum q = true -> a_which (q_a q) = "correlations"%string -> q_second_order q = true -> validate_cumulant q = Raise ValueError) /\
  (q_decay_given q = true -> a_which (q_a q) = "total"%string -> q_second_order q = true -> q_shifts_given q = true -> q_shifts_shape_ok q = false ->
   validate_cumulant q = Raise ValueError).
Proof. exact validate_cumulant_complete. Qed.
Theorem C20_error_transfer_matrix : forall t,
  (t_cum t = KNotArray -> validate_etm t = Raise TypeError) /\
  (forall s a b, t_cum t = KArray (s ++ [a; b]) -> a <> b -> validate_etm t = Raise ValueError) /\
  (forall a, t_cum t = KArray [a] -> validate_etm t = Raise ValueError) /\
  (t_cum t = KNone -> t_have_pulse t && q_have_spectrum (t_q t) && q_have_omega (t_q t) = false -> validate_etm t = Raise ValueError) /\
  (forall s a, t_cum t = KArray (s ++ [a; a]) -> validate_etm t = ok).
Proof. exact validate_etm_complete. Qed.

(* ---------------------------------------------------------------- remaining entry points, position-quantified *)
(* remap: an order with an entry out of range or a repeated entry, wherever they sit *)
Theorem C20_remap_order : forall r, p_d (r_pulse r) = r_dpq r ^ r_N r -> r_order_ints r = true ->
  (exists z, In z (r_order r) /\ ~ (0 <= z < Z.of_nat (r_N r))%Z) \/ ~ NoDup (r_order r) -> validate_remap r = Raise ValueError.
Proof. exact validate_remap_complete_order. Qed.
(* extend: every entry corruption at every position of the additional noise Hamiltonian; its dimension; an
   identifier already in use; the cache flags *)
Theorem C20_extend_additional_entry : forall x cd es i c, valid_extend x -> cd <> Some false ->
  valid_H true (x_dpq x ^ ext_N x) (x_ndt x) es -> i < length es ->
  validate_extend (with_add x (HList (upd es i (apply_e (x_dpq x ^ ext_N x) (x_ndt x) c (nth i es e0)))) cd) = Raise (ecorr_class c).
Proof. exact extend_complete_additional_entry. Qed.
Theorem C20_extend_additional_dimension : forall x cd es d', valid_extend x -> cd <> Some false ->
  valid_H true d' (x_ndt x) es -> d' <> x_dpq x ^ ext_N x -> validate_extend (with_add x (HList es) cd) = Raise ValueError.
Proof. exact extend_complete_additional_dimension. Qed.
Theorem C20_extend_additional_identifier : forall x cd es cids nids s, valid_extend x -> cd <> Some false ->
  collect (map (ext_ids false) (x_entries x)) = Ok cids -> collect (map (ext_ids true) (x_entries x)) = Ok nids ->
  valid_H true (x_dpq x ^ ext_N x) (x_ndt x) es -> In s (entry_ids true es) -> In s nids ->
  validate_extend (with_add x (HList es) cd) = Raise ValueError.
Proof. exact extend_complete_additional_identifier. Qed.
Theorem C20_extend_flags : forall x H, valid_extend x ->
  validate_extend (with_add x H (Some false)) = Raise ValueError /\
  (2 <= length (x_entries x) ->
   x_omega_given x = false -> ~ (all_equal_nonempty (optnat_tags (map (fun e => p_omega (x_pulse e)) (x_entries x))) = true /\
                                 forallb (fun e => negb (is_none (p_omega (x_pulse e)))) (x_entries x) = true) ->
   validate_extend (Build_extend_d (x_entries x) (x_ndt x) (x_N x) (x_dpq x) (x_add x) (x_cache_diag x) (Some true) false) = Raise ValueError).
Proof. exact extend_complete_flags. Qed.
(* concatenate: filter functions requested without frequencies *)
Theorem C20_concat_frequencies : forall l which cff cpc, valid_pulses l -> 2 <= length l ->
  In which ["fidelity"; "generalized"]%string -> equal_omega l = false -> (cff = Some true \/ cpc = true) ->
  validate_concat (Build_concat_d (PsList l) which cff cpc false) = Raise ValueError /\
  validate_concat (Build_concat_d (PsList l) which cff cpc true) = ok.
Proof. exact validate_concat_frequencies. Qed.
(* infidelity: smallness parameter for cross-spectra, convergence test *)
Theorem C20_infidelity_smallness : forall a, valid_analysis a -> (2 < length (s_shape (a_spectrum a))) ->
  validate_infidelity (Build_analysis_d (a_pulse a) (a_which a) (a_ids a) (a_spectrum a) (a_omega_kind a) (a_omega_len a) (a_omega_tag a)
                         true (a_test_conv a) (a_omega_isdict a) (a_spacing a)) = Raise NotImplementedError.
Proof. exact infidelity_smallness. Qed.
Theorem C20_infidelity_convergence_test : forall p w ids s ok_kind olen otag sm isdict spacing,
  In w ["total"; "correlations"]%string -> (forall l, ids = Some l -> incl l (map n_id (p_n p))) ->
  let a := Build_analysis_d p w ids s ok_kind olen otag sm true isdict spacing in
  (s_kind s <> ACallable -> validate_infidelity a = Raise TypeError) /\
  (s_kind s = ACallable -> isdict = false -> validate_infidelity a = Raise TypeError) /\
  (s_kind s = ACallable -> isdict = true -> ~ In spacing ["linear"; "log"]%string -> validate_infidelity a = Raise ValueError) /\
  (s_kind s = ACallable -> isdict = true -> In spacing ["linear"; "log"]%string -> validate_infidelity a = ok).
Proof. exact infidelity_convergence_test. Qed.
Print Assumptions C20_extend_additional_entry.

(* exactly one noise operator selected (single identifier, one-element list, single-operator pulse): a spectrum with k >= 2
   rows, two- or three-dimensional, is rejected by infidelity, decay amplitudes (hence cumulant function and error transfer
   matrix, which call it) and infidelity_derivative *)
Theorem C20_spectrum_more_rows : forall k kind h n_omega, 2 <= k ->
  validate_spectrum (Build_spectrum_d kind [k; n_omega] h) 1 n_omega = Raise ValueError /\
  validate_spectrum (Build_spectrum_d kind [k; k; n_omega] h) 1 n_omega = Raise ValueError.
Proof. exact spectrum_more_rows. Qed.
Theorem C20_analysis_more_rows : forall a k s, valid_analysis a -> n_selected (map n_id (p_n (a_pulse a))) (a_ids a) = 1 -> 2 <= k ->
  s_kind s = s_kind (a_spectrum a) -> s_shape s = [k; a_omega_len a] \/ s_shape s = [k; k; a_omega_len a] ->
  let a' := Build_analysis_d (a_pulse a) (a_which a) (a_ids a) s (a_omega_kind a) (a_omega_len a) (a_omega_tag a)
                             (a_smallness a) (a_test_conv a) (a_omega_isdict a) (a_spacing a) in
  validate_infidelity a' = Raise ValueError /\ validate_decay_amplitudes a' = Raise ValueError /\
  (forall cs ci, validate_infidelity_derivative a' cs ci = Raise ValueError).
Proof. exact analysis_more_rows. Qed.

(* infidelity(which='correlations') when the pulse-correlation control matrix may be gone (cleanup('greedy')): accepted with
   the control matrix cached, accepted for a traceless selection, CalculationError as soon as ONE selected operator has
   non-zero trace -- at any position of the selection and whatever the other traces are (also when they cancel in the sum) *)
Theorem C20_pc_infidelity_control_matrix_gone : forall x, pc_ready x ->
  let sel := selected_traces (map n_id (p_n (a_pulse (pi_a x)))) (a_ids (pi_a x)) (pi_traces x) in
  (pi_cm_cached x = true -> validate_pc_infidelity x = ok) /\
  (pi_cm_cached x = false -> Forall (fun b => b = false) sel -> validate_pc_infidelity x = ok) /\
  (pi_cm_cached x = false -> (exists i, i < length sel /\ nth i sel false = true) -> validate_pc_infidelity x = Raise CalculationError).
Proof. exact pc_infidelity_spec. Qed.

(* ---------------------------------------------------------------- caches, basis sizes, propagator times *)
Theorem C20_cache_control_matrix : forall n_nops n_basis n_omega,
  validate_cache_control_matrix None n_nops n_basis n_omega = ok /\
  (forall g, validate_cache_control_matrix (Some [n_nops; n_basis; n_omega]) n_nops n_basis n_omega = ok /\
             validate_cache_control_matrix (Some [g; n_nops; n_basis; n_omega]) n_nops n_basis n_omega = ok) /\
  (forall a b c, (a, b, c) <> (n_nops, n_basis, n_omega) ->
     validate_cache_control_matrix (Some [a; b; c]) n_nops n_basis n_omega = Raise ValueError /\
     forall g, validate_cache_control_matrix (Some [g; a; b; c]) n_nops n_basis n_omega = Raise ValueError) /\
  (forall s, length s <> 3 -> length s <> 4 -> validate_cache_control_matrix (Some s) n_nops n_basis n_omega = Raise ValueError).
Proof. exact cache_control_matrix_spec. Qed.
Theorem C20_cache_filter_function : forall which order n b o, In which ["fidelity"; "generalized"]%string -> order = 1 \/ order = 2 ->
  let expected := if (order =? 1) && String.eqb which "fidelity" then [n; n; o] else [n; n; b; b; o] in
  validate_cache_filter_function None which order n b o = ok /\
  validate_cache_filter_function (Some expected) which order n b o = ok /\
  (forall s, s <> expected -> validate_cache_filter_function (Some s) which order n b o = Raise ValueError).
Proof. exact cache_filter_function_spec. Qed.
Theorem C20_cache_total_phases : forall n_omega,
  validate_cache_total_phases None n_omega = ok /\ validate_cache_total_phases (Some [n_omega]) n_omega = ok /\
  (forall m, m <> n_omega -> validate_cache_total_phases (Some [m]) n_omega = Raise ValueError) /\
  (forall s, length s <> 1 -> validate_cache_total_phases (Some s) n_omega = Raise ValueError).
Proof. exact cache_total_phases_spec. Qed.
Theorem C20_basis_size : forall n, ((1 <= n)%Z -> validate_basis_size n = ok) /\ ((n < 1)%Z -> validate_basis_size n = Raise ValueError).
Proof. exact basis_size_spec. Qed.
Theorem C20_propagator_times : forall l, (Forall (fun b => b = false) l -> validate_propagator_times l = ok) /\
  (forall i, i < length l -> validate_propagator_times (upd l i true) = Raise ValueError).
Proof. exact propagator_times_spec. Qed.

(* ---------------------------------------------------------------- complete: Basis, dims arguments *)
Theorem C20_basis_complete : forall d os labels, os <> [] -> Forall (good_oper d) os ->
  (d * d < length os -> validate_basis_new (Build_basis_new_d (GOpers os) labels) = Raise ValueError) /\
  (forall m, length os <= d * d -> m <> length os -> validate_basis_new (Build_basis_new_d (GOpers os) (Some m)) = Raise ValueError) /\
  validate_basis_new (Build_basis_new_d GNoGetitem labels) = Raise TypeError /\
  (forall i, i < length os -> validate_basis_new (Build_basis_new_d (GOpers (upd os i (Build_oper_d OBad [d; d]))) labels) = Raise TypeError).
Proof. exact validate_basis_new_complete. Qed.
Theorem C20_from_partial_spec : forall f, validate_basis_new (f_new f) = ok ->
  (validate_from_partial f = ok <->
   f_orthonorm f = true /\ (f_want_traceless f = Some true -> f_traceless f = true) /\
   (forall n, f_labels f = Some n -> n = f_n f \/ n = f_d f * f_d f)).
Proof. exact validate_from_partial_spec. Qed.
Theorem C20_dims_rank : forall dims rank, length dims <> rank -> validate_dims dims rank = Raise ValueError.
Proof. exact validate_dims_complete_rank. Qed.
Theorem C20_dims_ragged : forall dims rank m i x, length dims = rank -> 2 <= rank ->
  Forall (fun y => length y = m) dims -> i < length dims -> length x <> m -> validate_dims (upd dims i x) rank = Raise ValueError.
Proof. exact validate_dims_complete_ragged. Qed.
Print Assumptions C20_from_partial_spec.
