(* C02 -- diagonalization and propagators solve the pulse's Schroedinger equation.
   Only statements closed by [exact <lemma>], their assumptions, and examples showing that the
   hypotheses are satisfiable.  Notation (Proofs/Propagator.v), for spectral data evs / Vs (the
   output of eigh, one entry per segment) and durations dts:
     Q_ d evs Vs dts g   cumulative propagator number g of the model (propagators[g])
     P_ d evs Vs dts g   segment propagator V_g e^{-i D_g dt_g} V_g^dagger
     H_ d evs Vs g       V_g D_g V_g^dagger  (= the segment's Hamiltonian when H V_g = V_g D_g)
     t_ dts g            t[g] of  t = 0 :: cumsum dt
     U_ d evs Vs dts g t V_g e^{-i D_g (t - t_g)} V_g^dagger Q_g  (what propagator_at_arb_t computes)
   The spectral hypothesis "every V_g is unitary" is the eigh oracle; the correspondence check
   validates it (and H V = V D) in interval arithmetic for every sampled case.                  *)
From Coq Require Import ZArith Reals List Lra Lia.
From Coquelicot Require Import Coquelicot.
From FF Require Import Base.Ops Inst.RInst Base.RAlg Model.Numeric Model.Propagator Model.Tie.C02
                       Proofs.MatAlg Proofs.Propagator Proofs.PropagatorDeriv.
From FF Require Import Inst.IInst Inst.Param Inst.EnclosureC02.
Import ListNotations.
Local Open Scope R_scope.

Definition eigh_unitary (d : nat) (evs : list (list R)) (Vs : list (Mat (T:=R))) : Prop :=
  forall g, (g < length evs)%nat -> funitary d (toF (nth g Vs [])).

(* ---- cumulative propagators ---- *)
Theorem C02_Q0_identity : forall d evs Vs dts, feq d (Q_ d evs Vs dts 0) fid.
Proof. exact propagators_0. Qed.
Print Assumptions C02_Q0_identity.

Theorem C02_Q_step : forall d evs Vs dts, length Vs = length evs -> length dts = length evs ->
  forall g, (g < length evs)%nat ->
  feq d (Q_ d evs Vs dts (S g)) (fmul d (P_ d evs Vs dts g) (Q_ d evs Vs dts g)).
Proof. exact propagators_S. Qed.
Print Assumptions C02_Q_step.

Theorem C02_P_is_exponential : forall d evs Vs dts g,
  feq d (P_ d evs Vs dts g) (fexpm d (toF (nth g Vs [])) (vg RO (nth g evs [])) (nth g dts 0)).
Proof. exact P_spectral. Qed.

Theorem C02_P_unitary : forall d evs Vs dts, eigh_unitary d evs Vs ->
  forall g, (g < length evs)%nat -> funitary d (P_ d evs Vs dts g).
Proof. exact P_unitary. Qed.
Print Assumptions C02_P_unitary.

Theorem C02_Q_unitary : forall d evs Vs dts, length Vs = length evs -> length dts = length evs ->
  eigh_unitary d evs Vs -> forall g, (g <= length evs)%nat -> funitary d (Q_ d evs Vs dts g).
Proof. exact propagators_unitary. Qed.
Print Assumptions C02_Q_unitary.

Theorem C02_total_is_last : forall d evs Vs dts, length Vs = length evs -> length dts = length evs ->
  toF (total_propagator RO d (propagators RO d evs Vs dts)) = Q_ d evs Vs dts (length evs).
Proof. exact total_is_last. Qed.

Theorem C02_total_unitary : forall d evs Vs dts, length Vs = length evs -> length dts = length evs ->
  eigh_unitary d evs Vs -> funitary d (toF (total_propagator RO d (propagators RO d evs Vs dts))).
Proof. exact total_unitary. Qed.

Theorem C02_zero_length_segment : forall d evs Vs dts, length Vs = length evs -> length dts = length evs ->
  eigh_unitary d evs Vs -> forall g, (g < length evs)%nat -> nth g dts 0 = 0 ->
  feq d (Q_ d evs Vs dts (S g)) (Q_ d evs Vs dts g).
Proof. exact zero_length_segment. Qed.

(* ---- spectral data and the Hamiltonian ---- *)
Theorem C02_H_hermitian : forall d evs Vs g, fherm d (H_ d evs Vs g).
Proof. exact H_hermitian. Qed.
Theorem C02_H_eigen : forall d evs Vs, eigh_unitary d evs Vs -> forall g, (g < length evs)%nat ->
  feq d (fmul d (H_ d evs Vs g) (toF (nth g Vs [])))
        (fmul d (toF (nth g Vs [])) (fdiagv (fun j => cofr RO (vg RO (nth g evs []) j)))).
Proof. exact H_eigen. Qed.
Theorem C02_H_unique : forall d H V ev, funitary d V ->
  feq d (fmul d H V) (fmul d V (fdiagv (fun j => cofr RO (ev j)))) -> feq d H (fspec d V ev).
Proof. exact fspec_of_eig. Qed.

(* ---- the interpolated propagator solves the Schroedinger equation ---- *)
Theorem C02_U_initial : forall d evs Vs dts, eigh_unitary d evs Vs -> (0 < length evs)%nat ->
  feq d (U_ d evs Vs dts 0 0) fid.
Proof. exact U_initial. Qed.

Theorem C02_U_left_edge : forall d evs Vs dts, eigh_unitary d evs Vs -> forall g, (g < length evs)%nat ->
  feq d (U_ d evs Vs dts g (t_ dts g)) (Q_ d evs Vs dts g).
Proof. exact U_left_edge. Qed.

Theorem C02_U_right_edge : forall d evs Vs dts, length Vs = length evs -> length dts = length evs ->
  forall g, (g < length evs)%nat ->
  feq d (U_ d evs Vs dts g (t_ dts (S g))) (Q_ d evs Vs dts (S g)).
Proof. exact U_right_edge. Qed.

Theorem C02_U_unitary : forall d evs Vs dts, length Vs = length evs -> length dts = length evs ->
  eigh_unitary d evs Vs -> forall g t, (g < length evs)%nat -> funitary d (U_ d evs Vs dts g t).
Proof. exact U_unitary. Qed.

Theorem C02_schroedinger : forall d evs Vs dts, eigh_unitary d evs Vs ->
  forall g t i j, (g < length evs)%nat -> (i < d)%nat -> (j < d)%nat ->
  cderive (fun s => U_ d evs Vs dts g s i j) t
          (fscal (cneg' ic) (fmul d (H_ d evs Vs g) (U_ d evs Vs dts g t)) i j).
Proof. exact U_schroedinger. Qed.
Print Assumptions C02_schroedinger.

Theorem C02_schroedinger_H : forall d evs Vs dts, eigh_unitary d evs Vs ->
  forall (Hm : fmat) g t i j, (g < length evs)%nat -> (i < d)%nat -> (j < d)%nat ->
  feq d (fmul d Hm (toF (nth g Vs []))) (fmul d (toF (nth g Vs [])) (fdiagv (fun k => cofr RO (vg RO (nth g evs []) k)))) ->
  cderive (fun s => U_ d evs Vs dts g s i j) t (fscal (cneg' ic) (fmul d Hm (U_ d evs Vs dts g t)) i j).
Proof. exact U_schroedinger_H. Qed.
Print Assumptions C02_schroedinger_H.

Theorem C02_U_compose : forall d evs Vs dts, eigh_unitary d evs Vs -> forall g s1 s2, (g < length evs)%nat ->
  feq d (U_ d evs Vs dts g (t_ dts g + (s1 + s2)))
        (fmul d (fexpm d (toF (nth g Vs [])) (vg RO (nth g evs [])) s2) (U_ d evs Vs dts g (t_ dts g + s1))).
Proof. exact U_compose. Qed.

(* ---- propagator_at_arb_t ---- *)
Theorem C02_searchsorted_spec : forall ts tq, nondecr ts -> (2 <= length ts)%nat -> tq <= last ts 0 ->
  let g := ss_idx ts tq in
  (S g < length ts)%nat /\ tq <= nth (S g) ts 0 /\ (nth g ts 0 < tq \/ (g = O /\ tq <= nth 0 ts 0)).
Proof. exact searchsorted_spec. Qed.
Print Assumptions C02_searchsorted_spec.

Theorem C02_arb_t_select : forall d evs Vs dts, length Vs = length evs -> length dts = length evs ->
  forall tq, (0 < length evs)%nat -> nondecr (times RO dts) -> tq <= last (times RO dts) 0 ->
  let g := ss_idx (times RO dts) tq in
  (g < length evs)%nat /\
  feq d (toF (propagator_at_arb_t RO d evs Vs (propagators RO d evs Vs dts) (times RO dts) tq)) (U_ d evs Vs dts g tq).
Proof. exact arb_t_select. Qed.
Print Assumptions C02_arb_t_select.

(* the domain test (ValueError for t > t[-1], /repo d28f031) is the hypothesis of C02_arb_t_select *)
Theorem C02_arb_t_accepts_iff : forall ts tq, arb_t_rejects RO ts tq = false <-> tq <= last ts 0.
Proof. exact arb_t_accepts_iff. Qed.
Theorem C02_arb_t_in_segment : forall d evs Vs dts, length Vs = length evs -> length dts = length evs ->
  forall g tq, (g < length evs)%nat -> nondecr (times RO dts) -> t_ dts g < tq -> tq <= t_ dts (S g) ->
  feq d (toF (propagator_at_arb_t RO d evs Vs (propagators RO d evs Vs dts) (times RO dts) tq)) (U_ d evs Vs dts g tq).
Proof. exact arb_t_in_segment. Qed.

Theorem C02_arb_t_at_edge : forall d evs Vs dts, length Vs = length evs -> length dts = length evs ->
  forall g, (g < length evs)%nat -> nondecr (times RO dts) -> t_ dts g < t_ dts (S g) ->
  feq d (toF (propagator_at_arb_t RO d evs Vs (propagators RO d evs Vs dts) (times RO dts) (t_ dts (S g))))
        (Q_ d evs Vs dts (S g)).
Proof. exact arb_t_at_edge. Qed.

Theorem C02_arb_t_at_zero : forall d evs Vs dts, length Vs = length evs -> length dts = length evs ->
  eigh_unitary d evs Vs -> (0 < length evs)%nat -> nondecr (times RO dts) ->
  feq d (toF (propagator_at_arb_t RO d evs Vs (propagators RO d evs Vs dts) (times RO dts) 0)) fid.
Proof. exact arb_t_at_zero. Qed.

(* the model function itself (selection included) satisfies the Schroedinger equation inside every segment *)
Theorem C02_arb_t_schroedinger : forall d evs Vs dts, length Vs = length evs -> length dts = length evs ->
  eigh_unitary d evs Vs ->
  forall g t i j, (g < length evs)%nat -> (i < d)%nat -> (j < d)%nat -> nondecr (times RO dts) ->
  t_ dts g < t -> t < t_ dts (S g) ->
  cderive (fun tq => arb_entry d evs Vs dts i j tq) t
          (fscal (cneg' ic) (fmul d (H_ d evs Vs g)
             (toF (propagator_at_arb_t RO d evs Vs (propagators RO d evs Vs dts) (times RO dts) t))) i j).
Proof. exact arb_t_schroedinger. Qed.
Print Assumptions C02_arb_t_schroedinger.

(* limits from the left and from the right at the edges of every segment of positive length;
   across zero-length segments Q does not change (C02_zero_length_segment) *)
Theorem C02_arb_t_left_limit : forall d evs Vs dts, length Vs = length evs -> length dts = length evs ->
  eigh_unitary d evs Vs -> forall g i j, (g < length evs)%nat -> (i < d)%nat -> (j < d)%nat ->
  nondecr (times RO dts) -> t_ dts g < t_ dts (S g) ->
  filterlim (fun tq => fst (arb_entry d evs Vs dts i j tq)) (at_left (t_ dts (S g))) (locally (fst (Q_ d evs Vs dts (S g) i j))) /\
  filterlim (fun tq => snd (arb_entry d evs Vs dts i j tq)) (at_left (t_ dts (S g))) (locally (snd (Q_ d evs Vs dts (S g) i j))).
Proof. exact arb_t_left_limit. Qed.
Print Assumptions C02_arb_t_left_limit.

Theorem C02_arb_t_right_limit : forall d evs Vs dts, length Vs = length evs -> length dts = length evs ->
  eigh_unitary d evs Vs -> forall g i j, (g < length evs)%nat -> (i < d)%nat -> (j < d)%nat ->
  nondecr (times RO dts) -> t_ dts g < t_ dts (S g) ->
  filterlim (fun tq => fst (arb_entry d evs Vs dts i j tq)) (at_right (t_ dts g)) (locally (fst (Q_ d evs Vs dts g i j))) /\
  filterlim (fun tq => snd (arb_entry d evs Vs dts i j tq)) (at_right (t_ dts g)) (locally (snd (Q_ d evs Vs dts g i j))).
Proof. exact arb_t_right_limit. Qed.
Print Assumptions C02_arb_t_right_limit.

(* ---- t and tau ---- *)
Theorem C02_t_step : forall dts g, (g < length dts)%nat ->
  nth (S g) (times RO dts) 0 = nth g (times RO dts) 0 + nth g dts 0.
Proof. exact times_nth_S. Qed.
Theorem C02_t_zero : forall dts, nth 0 (times RO dts) 0 = 0.
Proof. exact times_nth_0. Qed.
Theorem C02_t_nondecreasing : forall dts, (forall g, (g < length dts)%nat -> 0 <= nth g dts 0) -> nondecr (times RO dts).
Proof. exact times_nondecr. Qed.
(* tau = t[-1] (the getter since /repo f6ab3ac) is the sum of the durations *)
Theorem C02_tau_is_sum : forall cached dts, t_consistent cached dts -> tau_get RO cached dts = sumlist RO dts.
Proof. exact tau_get_sum. Qed.
(* remark on the code before f6ab3ac (two-branch getter: t[-1] if _t is cached, else dt.sum()): over the reals the
   two branches agreed and gave the present value; in floating point they differed by ulps (former finding
   c02-tau-exceeds-t-last, repaired) *)
Theorem C02_tau_prefix_branches_agree : forall dts, tau_of_t RO dts = tau_of_dt RO dts.
Proof. exact tau_branches_agree. Qed.
Theorem C02_tau_prefix_agrees : forall cached dts, t_consistent cached dts ->
  tau_get_prefix RO cached dts = tau_get RO cached dts.
Proof. exact tau_prefix_agrees. Qed.
Theorem C02_t_concat : forall a b,
  times RO (a ++ b) = times RO a ++ map (fun x => tau_of_dt RO a + x) (tl (times RO b)).
Proof. exact times_app. Qed.
Theorem C02_tau_concatenate : forall dtss cached, length cached = length dtss ->
  (forall i, (i < length dtss)%nat -> t_consistent (nth i cached None) (nth i dtss [])) ->
  concat_tau_assigned RO dtss cached = tau_get RO None (concat_dt dtss)
  /\ tau_get RO None (concat_dt dtss) = tau_of_t RO (concat_dt dtss).
Proof. exact concat_tau. Qed.
Theorem C02_tau_periodic : forall G cached dts, t_consistent cached dts ->
  periodic_tau_assigned RO G cached dts = tau_get RO None (tile dts G)
  /\ tau_get RO None (tile dts G) = tau_of_t RO (tile dts G).
Proof. exact periodic_tau. Qed.
Theorem C02_t_tau_copied : forall cached dts, t_consistent cached dts ->
  t_get RO (copied_t cached) dts = times RO dts /\ tau_get RO (copied_t cached) dts = tau_of_t RO dts.
Proof. exact copied_t_tau. Qed.
Theorem C02_t_tau_slice : forall a b (dts : list R),
  t_get RO None (slice a b dts) = times RO (slice a b dts)
  /\ tau_get RO None (slice a b dts) = tau_of_t RO (slice a b dts).
Proof. exact slice_t_tau. Qed.
Theorem C02_t_tau_select : forall idxs (dts : list R),
  t_get RO None (select 0 idxs dts) = times RO (select 0 idxs dts)
  /\ tau_get RO None (select 0 idxs dts) = sumlist RO (select 0 idxs dts).
Proof. exact select_t_tau. Qed.
Theorem C02_slice_is_select : forall a b (dts : list R), (b <= length dts)%nat ->
  slice a b dts = select 0 (seq a (b - a)) dts.
Proof. exact slice_is_select. Qed.
Theorem C02_t_slice_shift : forall a b dts, (a <= length dts)%nat -> (a <= b)%nat ->
  times RO (slice a b dts) = map (fun x => x - nth a (times RO dts) 0) (slice a (S b) (times RO dts)).
Proof. exact slice_times. Qed.
Print Assumptions C02_t_slice_shift.

(* ---- enclosure (paramcoq, kernel-checked): what the correspondence check evaluates on hardware-float intervals
        encloses the real-valued model value the theorems above are about (propagators, total propagator, t, tau
        likewise: Inst/EnclosureC02.v) ---- *)
Theorem C02_arb_t_enclosure :
  forall d1 d2 : nat, nat_R d1 d2 ->
  forall (evs1 : list (list PP.M.I.type)) (evs2 : list (list R)), list_R _ _ (list_R _ _ PP.TR) evs1 evs2 ->
  forall Vs1 Vs2, list_R _ _ (Mat_R _ _ PP.TR) Vs1 Vs2 ->
  forall Qs1 Qs2, list_R _ _ (Mat_R _ _ PP.TR) Qs1 Qs2 ->
  forall (ts1 : list PP.M.I.type) (ts2 : list R), list_R _ _ PP.TR ts1 ts2 ->
  forall (tq1 : PP.M.I.type) (tq2 : R), PP.TR tq1 tq2 ->
  Mat_R _ _ PP.TR (propagator_at_arb_t IOP d1 evs1 Vs1 Qs1 ts1 tq1) (propagator_at_arb_t RO d2 evs2 Vs2 Qs2 ts2 tq2).
Proof. exact EnclC02.arb_t_enclosure. Qed.
Theorem C02_propagators_enclosure :
  forall d1 d2 : nat, nat_R d1 d2 ->
  forall (evs1 : list (list PP.M.I.type)) (evs2 : list (list R)), list_R _ _ (list_R _ _ PP.TR) evs1 evs2 ->
  forall Vs1 Vs2, list_R _ _ (Mat_R _ _ PP.TR) Vs1 Vs2 ->
  forall (dts1 : list PP.M.I.type) (dts2 : list R), list_R _ _ PP.TR dts1 dts2 ->
  list_R _ _ (Mat_R _ _ PP.TR) (propagators IOP d1 evs1 Vs1 dts1) (propagators RO d2 evs2 Vs2 dts2).
Proof. exact EnclC02.propagators_enclosure. Qed.

(* ---- the hypotheses are satisfiable: a two-level pulse with a rotated eigenbasis, a zero-length
        segment in the middle and an idle (degenerate) last segment ---- *)
Definition ex_V : Mat (T:=R) := [[(3/5, 0); (0, 4/5)]; [(0, 4/5); (3/5, 0)]].
Definition ex_evs : list (list R) := [[1; -1]; [2; 0]; [0; 0]].
Definition ex_Vs : list (Mat (T:=R)) := [ex_V; mid RO 2; ex_V].
Definition ex_dts : list R := [1/2; 0; 3].

Example C02_hypotheses_satisfiable :
  length ex_Vs = length ex_evs /\ length ex_dts = length ex_evs /\ eigh_unitary 2 ex_evs ex_Vs /\
  nondecr (times RO ex_dts) /\ t_ ex_dts 0 < t_ ex_dts 1 /\ t_ ex_dts 2 < t_ ex_dts 3 /\
  (0 < length ex_evs)%nat /\ 1 <= last (times RO ex_dts) 0.
Proof.
  repeat split; try reflexivity.
  - intros i j Hi Hj. destruct g as [|[|[|g]]]; simpl in H; try lia;
      destruct i as [|[|i]]; try lia; destruct j as [|[|j]]; try lia; apply c_eq; csimp; field.
  - intros i j Hi Hj. destruct g as [|[|[|g]]]; simpl in H; try lia;
      destruct i as [|[|i]]; try lia; destruct j as [|[|j]]; try lia; apply c_eq; csimp; field.
  - apply times_nondecr. intros g Hg. destruct g as [|[|[|g]]]; simpl in *; try lia; lra.
  - unfold t_. simpl. lra.
  - unfold t_. simpl. lra.
  - simpl. lia.
  - simpl. lra.
Qed.

(* ------------------------------------------------------------------------------------------------
   Semantic tie of the propagator kernels (Proofs/KernelTieC02.v; see docs/notes/kernel-tie.md): the terms translated
   on every run from the CURRENT Python bodies by tools/kernel_extract.py (Extracted/Kernels.v) are the model functions.
   ------------------------------------------------------------------------------------------------ *)
From FF Require Import Extracted.Kernels Proofs.KernelTieC02.

Theorem C02_kernels_translated : kernel_untranslated_C02 = nil.
Proof. exact kernels_translated_C02. Qed.

(* numeric.diagonalize: the array `piecewise` (einsum 'lij,jl,lkj->lik' with cexp(-dt * eigvals.T)) is segment_propagator *)
Theorem C02_kernel_piecewise_is_source : forall d (ev : list R) (V : Mat (T:=R)) (dt : R) l i k, (i < d)%nat -> (k < d)%nat ->
  mget RO (segment_propagator RO d ev V dt) i k =
  diag_piecewise_src RO d (fun _ => dt) (fun _ j => vg RO ev j) (fun _ i' j => mget RO V i' j) l i k.
Proof. exact diag_piecewise_is_source. Qed.
Print Assumptions C02_kernel_piecewise_is_source.

(* PulseSequence.propagator_at_arb_t, given the selected segment: V cexp((t_g - tq) ev) V^dagger Q_g *)
Theorem C02_kernel_arb_t_is_source : forall d (ev : list R) (V Q : Mat (T:=R)) (tg tq : R) sel l i c, (i < d)%nat -> (c < d)%nat ->
  mget RO (arb_t_segment RO d ev V Q tg tq) i c =
  arb_t_entry_src RO d sel (fun _ => tq) (fun _ => tg) (fun _ j => vg RO ev j)
                  (fun _ i' j => mget RO V i' j) (fun _ i' j => mget RO Q i' j) l i c.
Proof. exact arb_t_is_source. Qed.
Print Assumptions C02_kernel_arb_t_is_source.

(* numeric.diagonalize, the whole function after eigh: cumulative[0] = identity, cumulative[i+1] = piecewise[i] @ cumulative[i]
   (the recurrence is emitted with nat_rect) gives the model's list of cumulative propagators *)
Theorem C02_kernel_cumulative_is_source : forall d evs Vs dts, length Vs = length evs -> length dts = length evs ->
  forall r, (r <= length evs)%nat -> forall a b, (a < d)%nat -> (b < d)%nat ->
  mget RO (nth r (propagators RO d evs Vs dts) nil) a b =
  diag_cumulative_src RO d (fun g => nth g dts 0) (fun g j => vg RO (nth g evs nil) j)
                      (fun g i j => mget RO (nth g Vs nil) i j) r a b.
Proof. exact diag_cumulative_is_source. Qed.
Print Assumptions C02_kernel_cumulative_is_source.
