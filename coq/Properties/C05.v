(* C05 -- extension to a qubit register equals the tensor-product pulse computed afresh.
   Only statements closed by [exact <lemma>], their assumptions, and examples that the
   hypotheses are satisfiable.  Bookkeeping model: Model/Extend.v (tied to the source by
   Model/Tie/C05.v, compared with the implementation exactly by tools/ffv/props/c05.py);
   numeric content: Kronecker algebra (Spec/Kron2.v) and the numeric engine Model/Numeric.v.

   Reading guide.  [krel d1 d2 A B M]: the list matrix M is A (x) B (what util.tensor /
   tensor_insert / tensor_merge produce: hypothesis discharged by C16 and re-checked numerically
   per case); [evrel]: eigenvalue vector of sums a_i + b_j (tensor(...ones...) sums);
   [Forall3]: the relation holds segment by segment.                                         *)
From Coq Require Import String ZArith Reals List.
From FF Require Import Base.Ops Inst.RInst Base.RAlg Spec.Kron2 Spec.DigitPerm Model.Numeric Model.Remap Model.Extend
     Model.Tie.C05 Proofs.RemapIdx Proofs.RemapCov Proofs.Remap Proofs.ExtendKron Proofs.ExtendKron2 Proofs.Extend Proofs.Extend2 Proofs.Extend3 Proofs.ExtendDischarged Proofs.ExtendPlace Proofs.PauliProd Proofs.PauliEx Proofs.ExtendEx.
(* the comparison functions of the correspondence check are built with this file's dependency cone *)
From FF Require Corr.RemapObs Corr.ExtendObs.
From FF Require Model.Tensor Spec.Kron Proofs.TensorTranspose Proofs.KronBridge Properties.C16.
Import ListNotations.
Local Open Scope nat_scope.

(* --- link to C16: the hypotheses [krel] (and [mrel], [basis_is_pauli] in C06) say that the outputs of util.tensor /
       tensor_insert / tensor_merge / tensor_transpose are the Kronecker products of the rearranged factor lists.  For
       integer tensors this is proved in Properties/C16.v:
         C16_insert_equals_tensor_of_rearranged, C16_merge_equals_tensor_of_rearranged,
         C16_transpose_equals_tensor_of_rearranged  (and C16_merge_spec, C16_insert_int_spec);
       the Kronecker product of that specification is the one used here, and its list permutation is [sel]: --- *)
Theorem C05_c16_kron_is_fkron : forall (A B : Tensor.arr) d1 d2, Tensor.shp A = [d1; d1] -> Tensor.shp B = [d2; d2] ->
  feq (d1 * d2) (KronBridge.zF (Kron.kron2 A B)) (fkron d2 (KronBridge.zF A) (KronBridge.zF B)).
Proof. exact KronBridge.kron2_is_fkron. Qed.
Theorem C05_c16_permute_is_sel : forall ord (L : list Tensor.arr), TensorTranspose.permute_list ord L = sel (Tensor.mkArr [] []) L ord.
Proof. exact KronBridge.permute_list_is_sel. Qed.

(* --- Kronecker algebra --- *)
Theorem C05_sum_split : forall d1 d2 (f : nat -> Cx),
  csumn' (d1 * d2) f = csumn' d1 (fun a => csumn' d2 (fun b => f (a * d2 + b))).
Proof. exact csumn_prod. Qed.
Theorem C05_kron_mixed_product : forall d1 d2 A B C D,
  feq (d1 * d2) (fmul (d1 * d2) (fkron d2 A B) (fkron d2 C D)) (fkron d2 (fmul d1 A C) (fmul d2 B D)).
Proof. exact fkron_mul. Qed.
Theorem C05_kron_adjoint : forall d2 A B i j, fadj (fkron d2 A B) i j = fkron d2 (fadj A) (fadj B) i j.
Proof. exact fkron_adj. Qed.
Theorem C05_kron_trace : forall d1 d2 A B, ftr (d1 * d2) (fkron d2 A B) = cmul' (ftr d1 A) (ftr d2 B).
Proof. exact ftr_fkron. Qed.
Theorem C05_kron_unitary : forall d1 d2 U V, funitary d1 U -> funitary d2 V -> funitary (d1 * d2) (fkron d2 U V).
Proof. exact funitary_fkron. Qed.
Theorem C05_kron_local_commute : forall d1 d2 A B,
  feq (d1 * d2) (fmul (d1 * d2) (fkron d2 A fid) (fkron d2 fid B)) (fmul (d1 * d2) (fkron d2 fid B) (fkron d2 A fid)).
Proof. exact fkron_local_commute. Qed.
Print Assumptions C05_kron_mixed_product.

(* --- spectral structure of H1 (x) 1 + 1 (x) H2: eigenvalues add, eigenvectors tensor --- *)
Theorem C05_kron_spectral : forall d1 d2 H1 H2 V1 V2 (a b : nat -> R),
  feq d1 (fmul d1 H1 V1) (fmul d1 V1 (fdiagf a)) -> feq d2 (fmul d2 H2 V2) (fmul d2 V2 (fdiagf b)) ->
  funitary d1 V1 -> funitary d2 V2 ->
  let H := fadd (fkron d2 H1 fid) (fkron d2 fid H2) in
  let V := fkron d2 V1 V2 in
  feq (d1 * d2) (fmul (d1 * d2) H V) (fmul (d1 * d2) V (fdiagf (fun i => Rplus (a (i / d2)) (b (i mod d2)))))
  /\ funitary (d1 * d2) V.
Proof. exact kron_spectral. Qed.
Print Assumptions C05_kron_spectral.

(* --- propagators of the tensor-product spectral data are the Kronecker products of the propagators, unitary --- *)
Theorem C05_propagators_tensor : forall d1 d2 evs1 evs2 evs Vs1 Vs2 Vs dts,
  Forall3 (evrel d1 d2) evs1 evs2 evs -> Forall3 (krel d1 d2) Vs1 Vs2 Vs ->
  Forall3 (krel d1 d2) (Numeric.propagators RO d1 evs1 Vs1 dts) (Numeric.propagators RO d2 evs2 Vs2 dts) (Numeric.propagators RO (d1 * d2) evs Vs dts).
Proof. exact propagators_krel. Qed.
Theorem C05_propagators_unitary : forall d evs Vs dts, Forall (fun V => funitary d (toF V)) Vs ->
  Forall (fun P => funitary d (toF P)) (Numeric.propagators RO d evs Vs dts).
Proof. exact propagators_unitary. Qed.
Print Assumptions C05_propagators_tensor.

(* --- cm_embed: control matrix of B (x) 1 in a product basis --- *)
Theorem C05_control_matrix_embed : forall d1 d2 K1 K2 na basis1 basis2 basis ns1 ns,
  length basis1 = K1 -> length basis = K1 * K2 ->
  (forall k l, k < K1 -> l < K2 -> krel d1 d2 (nthm basis1 k) (nthm basis2 l) (nthm basis (k * K2 + l))) ->
  length ns1 = na -> length ns = na ->
  (forall a, a < na -> krel d1 d2 (nthm ns1 a) (mid RO d2) (nthm ns a)) ->
  forall thr evs1 evs2 evs Vs1 Vs2 Vs omega nc dts,
  Forall3 (evrel d1 d2) evs1 evs2 evs -> Forall3 (krel d1 d2) Vs1 Vs2 Vs ->
  Forall (fun V => funitary d2 (toF V)) Vs2 ->
  embrel d2 K1 K2 na basis2 (length omega)
    (control_matrix_from_scratch RO d1 thr evs1 Vs1 (Numeric.propagators RO d1 evs1 Vs1 dts) omega basis1 ns1 nc dts (times RO dts))
    (control_matrix_from_scratch RO (d1 * d2) thr evs Vs (Numeric.propagators RO (d1 * d2) evs Vs dts) omega basis ns nc dts (times RO dts)).
Proof. exact control_matrix_embed. Qed.

Theorem C05_cm_embed : forall d1 d2 K1 K2 na basis1 basis2 basis ns1 ns,
  length basis1 = K1 -> length basis = K1 * K2 ->
  (forall k l, k < K1 -> l < K2 -> krel d1 d2 (nthm basis1 k) (nthm basis2 l) (nthm basis (k * K2 + l))) ->
  length ns1 = na -> length ns = na ->
  (forall a, a < na -> krel d1 d2 (nthm ns1 a) (mid RO d2) (nthm ns a)) ->
  (forall l m, l < K2 -> m < K2 ->
     mtrprod RO d2 (madj RO d2 (nthm basis2 l)) (nthm basis2 m) = if Nat.eqb l m then 1c else 0c) ->
  0 < d2 -> 0 < K2 ->
  feq d2 (toF (nthm basis2 0)) (fscal (cofr RO (Rinv (sqrt (INR d2)))) fid) ->
  forall thr evs1 evs2 evs Vs1 Vs2 Vs omega nc dts,
  Forall3 (evrel d1 d2) evs1 evs2 evs -> Forall3 (krel d1 d2) Vs1 Vs2 Vs ->
  Forall (fun V => funitary d2 (toF V)) Vs2 ->
  let B1 := control_matrix_from_scratch RO d1 thr evs1 Vs1 (Numeric.propagators RO d1 evs1 Vs1 dts) omega basis1 ns1 nc dts (times RO dts) in
  let Bm := control_matrix_from_scratch RO (d1 * d2) thr evs Vs (Numeric.propagators RO (d1 * d2) evs Vs dts) omega basis ns nc dts (times RO dts) in
  forall a k l o, a < na -> k < K1 -> l < K2 -> o < length omega ->
    a3get RO Bm a (k * K2 + l) o =
      if Nat.eqb l 0 then cmul' (cofr RO (sqrt (INR d2))) (a3get RO B1 a k o) else 0c.
Proof. exact cm_embed. Qed.
Print Assumptions C05_cm_embed.

(* --- what extend caches for the first block IS the from-scratch control matrix of the product pulse --- *)
Theorem C05_assembled_first_block : forall d1 d2 K1 K2 na nrows basis1 basis2 basis ns1 ns,
  length basis1 = K1 -> length basis = K1 * K2 ->
  (forall k l, k < K1 -> l < K2 -> krel d1 d2 (nthm basis1 k) (nthm basis2 l) (nthm basis (k * K2 + l))) ->
  length ns1 = na -> length ns = na ->
  (forall a, a < na -> krel d1 d2 (nthm ns1 a) (mid RO d2) (nthm ns a)) ->
  (forall l m, l < K2 -> m < K2 ->
     mtrprod RO d2 (madj RO d2 (nthm basis2 l)) (nthm basis2 m) = if Nat.eqb l m then 1c else 0c) ->
  0 < d2 -> 0 < K2 ->
  feq d2 (toF (nthm basis2 0)) (fscal (cofr RO (Rinv (sqrt (INR d2)))) fid) ->
  na <= nrows ->
  forall thr evs1 evs2 evs Vs1 Vs2 Vs omega nc dts B1 rest,
  Forall3 (evrel d1 d2) evs1 evs2 evs -> Forall3 (krel d1 d2) Vs1 Vs2 Vs ->
  Forall (fun V => funitary d2 (toF V)) Vs2 ->
  a3eq_cm na K1 (length omega) B1
    (control_matrix_from_scratch RO d1 thr evs1 Vs1 (Numeric.propagators RO d1 evs1 Vs1 dts) omega basis1 ns1 nc dts (times RO dts)) ->
  forall a k l o, a < na -> k < K1 -> l < K2 -> o < length omega ->
  a3get RO (assemble_cm RO nrows (K1 * K2) (length omega)
              ((build K1 (fun x => x * K2), 0, na, sqrt (INR d2), B1) :: rest)) a (k * K2 + l) o =
  a3get RO (control_matrix_from_scratch RO (d1 * d2) thr evs Vs (Numeric.propagators RO (d1 * d2) evs Vs dts) omega basis ns nc dts (times RO dts))
        a (k * K2 + l) o.
Proof. exact assembled_first_block. Qed.
Print Assumptions C05_assembled_first_block.

(* --- the complete two-block statement (arbitrary dimensions d1, d2; any numbers of noise operators and segments):
       cm1 / cm2 / cm12 are the control matrices the numeric engine computes from scratch for the two pulses and for
       the tensor-product pulse; B1, B2 what the pulses have cached; two_blocks the assembly extend performs --- *)
Theorem C05_two_block_control_matrix : forall (d1 d2 K1 K2 na1 na2 : nat) (basis1 basis2 basis ns1 ns2 ns : list Mat),
  length basis1 = K1 -> length basis2 = K2 -> length basis = K1 * K2 ->
  (forall k l, k < K1 -> l < K2 -> krel d1 d2 (nthm basis1 k) (nthm basis2 l) (nthm basis (k * K2 + l))) ->
  (forall l m, l < K1 -> m < K1 -> mtrprod RO d1 (madj RO d1 (nthm basis1 l)) (nthm basis1 m) = (if Nat.eqb l m then 1c else 0c)) ->
  (forall l m, l < K2 -> m < K2 -> mtrprod RO d2 (madj RO d2 (nthm basis2 l)) (nthm basis2 m) = (if Nat.eqb l m then 1c else 0c)) ->
  0 < d1 -> 0 < d2 -> 0 < K1 -> 0 < K2 ->
  feq d1 (toF (nthm basis1 0)) (fscal (cofr RO (Rinv (sqrt (INR d1)))) fid) ->
  feq d2 (toF (nthm basis2 0)) (fscal (cofr RO (Rinv (sqrt (INR d2)))) fid) ->
  length ns1 = na1 -> length ns2 = na2 -> length ns = na1 + na2 ->
  (forall a, a < na1 -> krel d1 d2 (nthm ns1 a) (mid RO d2) (nthm ns a)) ->
  (forall b, b < na2 -> krel d1 d2 (mid RO d1) (nthm ns2 b) (nthm ns (na1 + b))) ->
  forall (thr : R) (evs1 evs2 evs : list (list R)) (Vs1 Vs2 Vs : list Mat) (omega : list R)
    (nc1 nc2 nc : list (list R)) (dts : list R),
  Forall3 (evrel d1 d2) evs1 evs2 evs -> Forall3 (krel d1 d2) Vs1 Vs2 Vs ->
  Forall (fun V : Mat => funitary d1 (toF V)) Vs1 -> Forall (fun V : Mat => funitary d2 (toF V)) Vs2 ->
  length nc1 = na1 -> length nc2 = na2 -> length nc = na1 + na2 ->
  (forall a, a < na1 -> nth a nc [] = nth a nc1 []) -> (forall b, b < na2 -> nth (na1 + b) nc [] = nth b nc2 []) ->
  forall B1 B2 : Arr3,
  a3eq_cm na1 K1 (length omega) B1 (cm1 d1 basis1 ns1 thr evs1 Vs1 omega nc1 dts) ->
  a3eq_cm na2 K2 (length omega) B2 (cm2 d2 basis2 ns2 thr evs2 Vs2 omega nc2 dts) ->
  forall a kk o, a < na1 + na2 -> kk < K1 * K2 -> o < length omega ->
  a3get RO (assemble_cm RO (na1 + na2) (K1 * K2) (length omega) (two_blocks d1 d2 K1 K2 na1 na2 B1 B2)) a kk o =
  a3get RO (cm12 d1 d2 basis ns thr evs Vs omega nc dts) a kk o.
Proof. exact two_block_control_matrix. Qed.
(* the COMPLETE matrix of filter functions, cross-correlations between the two pulses included *)
Theorem C05_two_block_filter_function : forall (d1 d2 K1 K2 na1 na2 : nat) (basis1 basis2 basis ns1 ns2 ns : list Mat),
  length basis1 = K1 -> length basis2 = K2 -> length basis = K1 * K2 ->
  (forall k l, k < K1 -> l < K2 -> krel d1 d2 (nthm basis1 k) (nthm basis2 l) (nthm basis (k * K2 + l))) ->
  (forall l m, l < K1 -> m < K1 -> mtrprod RO d1 (madj RO d1 (nthm basis1 l)) (nthm basis1 m) = (if Nat.eqb l m then 1c else 0c)) ->
  (forall l m, l < K2 -> m < K2 -> mtrprod RO d2 (madj RO d2 (nthm basis2 l)) (nthm basis2 m) = (if Nat.eqb l m then 1c else 0c)) ->
  0 < d1 -> 0 < d2 -> 0 < K1 -> 0 < K2 ->
  feq d1 (toF (nthm basis1 0)) (fscal (cofr RO (Rinv (sqrt (INR d1)))) fid) ->
  feq d2 (toF (nthm basis2 0)) (fscal (cofr RO (Rinv (sqrt (INR d2)))) fid) ->
  length ns1 = na1 -> length ns2 = na2 -> length ns = na1 + na2 ->
  (forall a, a < na1 -> krel d1 d2 (nthm ns1 a) (mid RO d2) (nthm ns a)) ->
  (forall b, b < na2 -> krel d1 d2 (mid RO d1) (nthm ns2 b) (nthm ns (na1 + b))) ->
  forall (thr : R) (evs1 evs2 evs : list (list R)) (Vs1 Vs2 Vs : list Mat) (omega : list R)
    (nc1 nc2 nc : list (list R)) (dts : list R),
  Forall3 (evrel d1 d2) evs1 evs2 evs -> Forall3 (krel d1 d2) Vs1 Vs2 Vs ->
  Forall (fun V : Mat => funitary d1 (toF V)) Vs1 -> Forall (fun V : Mat => funitary d2 (toF V)) Vs2 ->
  length nc1 = na1 -> length nc2 = na2 -> length nc = na1 + na2 ->
  (forall a, a < na1 -> nth a nc [] = nth a nc1 []) -> (forall b, b < na2 -> nth (na1 + b) nc [] = nth b nc2 []) ->
  forall B1 B2 : Arr3,
  a3eq_cm na1 K1 (length omega) B1 (cm1 d1 basis1 ns1 thr evs1 Vs1 omega nc1 dts) ->
  a3eq_cm na2 K2 (length omega) B2 (cm2 d2 basis2 ns2 thr evs2 Vs2 omega nc2 dts) ->
  forall a b o, a < na1 + na2 -> b < na1 + na2 -> o < length omega ->
  a3get RO (assemble_ff RO (na1 + na2) (K1 * K2) (length omega) (two_blocks d1 d2 K1 K2 na1 na2 B1 B2)) a b o =
  a3get RO (Numeric.filter_function RO (na1 + na2) (K1 * K2) (length omega) (cm12 d1 d2 basis ns thr evs Vs omega nc dts)) a b o.
Proof. exact two_block_filter_function. Qed.
Print Assumptions C05_two_block_filter_function.

(* --- DISCHARGED versions: the helper hypotheses [krel] are replaced by "the matrix is what util.tensor / tensor_insert /
       tensor_merge -- the C16 model Model/Tensor.v at complex entries, tied to the source by Model/Tie/C16.v -- returns
       on these arguments" ([is_tensor_pair], [is_insert_end], [is_merge_end]; bridge: Proofs/KronBridgeC.v by agent-c16).
       Remaining hypotheses: eigenvalue vectors are the sums a_i + b_j ([evrel]; a rank-1 tensor of ones, no helper
       statement), the bases are orthonormal products (C05_pauli_product / _onb / _first), eigh validity (unitarity),
       cache consistency of the inputs (B1, B2) --- *)
Theorem C05_two_block_control_matrix_discharged : forall (dq nA nB K1 K2 na1 na2 : nat) (basis1 basis2 basis ns1 ns2 ns : list Mat),
  0 < dq -> 1 <= nA -> 1 <= nB ->
  length basis1 = K1 -> length basis2 = K2 -> length basis = K1 * K2 ->
  (forall k l, k < K1 -> l < K2 -> is_tensor_pair (dq ^ nA) (dq ^ nB) (nthm basis1 k) (nthm basis2 l) (nthm basis (k * K2 + l))) ->
  (forall l m, l < K1 -> m < K1 -> mtrprod RO (dq ^ nA) (madj RO (dq ^ nA) (nthm basis1 l)) (nthm basis1 m) = (if Nat.eqb l m then 1c else 0c)) ->
  (forall l m, l < K2 -> m < K2 -> mtrprod RO (dq ^ nB) (madj RO (dq ^ nB) (nthm basis2 l)) (nthm basis2 m) = (if Nat.eqb l m then 1c else 0c)) ->
  0 < K1 -> 0 < K2 ->
  feq (dq ^ nA) (toF (nthm basis1 0)) (fscal (cofr RO (Rinv (sqrt (INR (dq ^ nA))))) fid) ->
  feq (dq ^ nB) (toF (nthm basis2 0)) (fscal (cofr RO (Rinv (sqrt (INR (dq ^ nB))))) fid) ->
  length ns1 = na1 -> length ns2 = na2 -> length ns = na1 + na2 ->
  (forall a, a < na1 -> is_tensor_pair (dq ^ nA) (dq ^ nB) (nthm ns1 a) (mid RO (dq ^ nB)) (nthm ns a)) ->
  (forall b, b < na2 -> is_tensor_pair (dq ^ nA) (dq ^ nB) (mid RO (dq ^ nA)) (nthm ns2 b) (nthm ns (na1 + b))) ->
  forall (thr : R) (evs1 evs2 evs : list (list R)) (Vs1 Vs2 Vs : list Mat) (omega : list R)
    (nc1 nc2 nc : list (list R)) (dts : list R),
  Forall3 (evrel (dq ^ nA) (dq ^ nB)) evs1 evs2 evs -> Forall3 (is_merge_end dq nA nB) Vs1 Vs2 Vs ->
  Forall (fun V : Mat => funitary (dq ^ nA) (toF V)) Vs1 -> Forall (fun V : Mat => funitary (dq ^ nB) (toF V)) Vs2 ->
  length nc1 = na1 -> length nc2 = na2 -> length nc = na1 + na2 ->
  (forall a, a < na1 -> nth a nc [] = nth a nc1 []) -> (forall b, b < na2 -> nth (na1 + b) nc [] = nth b nc2 []) ->
  forall B1 B2 : Arr3,
  a3eq_cm na1 K1 (length omega) B1 (cm1 (dq ^ nA) basis1 ns1 thr evs1 Vs1 omega nc1 dts) ->
  a3eq_cm na2 K2 (length omega) B2 (cm2 (dq ^ nB) basis2 ns2 thr evs2 Vs2 omega nc2 dts) ->
  forall a kk o, a < na1 + na2 -> kk < K1 * K2 -> o < length omega ->
  a3get RO (assemble_cm RO (na1 + na2) (K1 * K2) (length omega) (two_blocks (dq ^ nA) (dq ^ nB) K1 K2 na1 na2 B1 B2)) a kk o =
  a3get RO (cm12 (dq ^ nA) (dq ^ nB) basis ns thr evs Vs omega nc dts) a kk o.
Proof. exact two_block_control_matrix_discharged. Qed.
Theorem C05_two_block_filter_function_discharged : forall (dq nA nB K1 K2 na1 na2 : nat) (basis1 basis2 basis ns1 ns2 ns : list Mat),
  0 < dq -> 1 <= nA -> 1 <= nB ->
  length basis1 = K1 -> length basis2 = K2 -> length basis = K1 * K2 ->
  (forall k l, k < K1 -> l < K2 -> is_tensor_pair (dq ^ nA) (dq ^ nB) (nthm basis1 k) (nthm basis2 l) (nthm basis (k * K2 + l))) ->
  (forall l m, l < K1 -> m < K1 -> mtrprod RO (dq ^ nA) (madj RO (dq ^ nA) (nthm basis1 l)) (nthm basis1 m) = (if Nat.eqb l m then 1c else 0c)) ->
  (forall l m, l < K2 -> m < K2 -> mtrprod RO (dq ^ nB) (madj RO (dq ^ nB) (nthm basis2 l)) (nthm basis2 m) = (if Nat.eqb l m then 1c else 0c)) ->
  0 < K1 -> 0 < K2 ->
  feq (dq ^ nA) (toF (nthm basis1 0)) (fscal (cofr RO (Rinv (sqrt (INR (dq ^ nA))))) fid) ->
  feq (dq ^ nB) (toF (nthm basis2 0)) (fscal (cofr RO (Rinv (sqrt (INR (dq ^ nB))))) fid) ->
  length ns1 = na1 -> length ns2 = na2 -> length ns = na1 + na2 ->
  (forall a, a < na1 -> is_tensor_pair (dq ^ nA) (dq ^ nB) (nthm ns1 a) (mid RO (dq ^ nB)) (nthm ns a)) ->
  (forall b, b < na2 -> is_tensor_pair (dq ^ nA) (dq ^ nB) (mid RO (dq ^ nA)) (nthm ns2 b) (nthm ns (na1 + b))) ->
  forall (thr : R) (evs1 evs2 evs : list (list R)) (Vs1 Vs2 Vs : list Mat) (omega : list R)
    (nc1 nc2 nc : list (list R)) (dts : list R),
  Forall3 (evrel (dq ^ nA) (dq ^ nB)) evs1 evs2 evs -> Forall3 (is_merge_end dq nA nB) Vs1 Vs2 Vs ->
  Forall (fun V : Mat => funitary (dq ^ nA) (toF V)) Vs1 -> Forall (fun V : Mat => funitary (dq ^ nB) (toF V)) Vs2 ->
  length nc1 = na1 -> length nc2 = na2 -> length nc = na1 + na2 ->
  (forall a, a < na1 -> nth a nc [] = nth a nc1 []) -> (forall b, b < na2 -> nth (na1 + b) nc [] = nth b nc2 []) ->
  forall B1 B2 : Arr3,
  a3eq_cm na1 K1 (length omega) B1 (cm1 (dq ^ nA) basis1 ns1 thr evs1 Vs1 omega nc1 dts) ->
  a3eq_cm na2 K2 (length omega) B2 (cm2 (dq ^ nB) basis2 ns2 thr evs2 Vs2 omega nc2 dts) ->
  forall a b o, a < na1 + na2 -> b < na1 + na2 -> o < length omega ->
  a3get RO (assemble_ff RO (na1 + na2) (K1 * K2) (length omega) (two_blocks (dq ^ nA) (dq ^ nB) K1 K2 na1 na2 B1 B2)) a b o =
  a3get RO (Numeric.filter_function RO (na1 + na2) (K1 * K2) (length omega) (cm12 (dq ^ nA) (dq ^ nB) basis ns thr evs Vs omega nc dts)) a b o.
Proof. exact two_block_filter_function_discharged. Qed.
Print Assumptions C05_two_block_filter_function_discharged.
Theorem C05_propagators_tensor_discharged : forall dq nA nB evs1 evs2 evs Vs1 Vs2 Vs dts, 0 < dq -> 1 <= nA -> 1 <= nB ->
  Forall3 (evrel (dq ^ nA) (dq ^ nB)) evs1 evs2 evs -> Forall3 (is_merge_end dq nA nB) Vs1 Vs2 Vs ->
  Forall3 (krel (dq ^ nA) (dq ^ nB)) (Numeric.propagators RO (dq ^ nA) evs1 Vs1 dts) (Numeric.propagators RO (dq ^ nB) evs2 Vs2 dts)
          (Numeric.propagators RO (dq ^ nA * dq ^ nB) evs Vs dts).
Proof. exact propagators_tensor_discharged. Qed.
Theorem C05_cm_embed_discharged : forall d1 d2 ds K1 K2 na basis1 basis2 basis ns1 ns,
  1 <= length ds -> Tensor.prodn ds = d1 -> 0 < d2 -> 0 < K2 ->
  length basis1 = K1 -> length basis = K1 * K2 ->
  (forall k l, k < K1 -> l < K2 -> is_tensor_pair d1 d2 (nthm basis1 k) (nthm basis2 l) (nthm basis (k * K2 + l))) ->
  length ns1 = na -> length ns = na ->
  (forall a, a < na -> is_insert_end d1 d2 ds (nthm ns1 a) (mid RO d2) (nthm ns a)) ->
  (forall l m, l < K2 -> m < K2 -> mtrprod RO d2 (madj RO d2 (nthm basis2 l)) (nthm basis2 m) = if Nat.eqb l m then 1c else 0c) ->
  feq d2 (toF (nthm basis2 0)) (fscal (cofr RO (Rinv (sqrt (INR d2)))) fid) ->
  forall thr evs1 evs2 evs Vs1 Vs2 Vs omega nc dts,
  Forall3 (evrel d1 d2) evs1 evs2 evs -> Forall3 (is_insert_end d1 d2 ds) Vs1 Vs2 Vs ->
  Forall (fun V => funitary d2 (toF V)) Vs2 ->
  let B1 := control_matrix_from_scratch RO d1 thr evs1 Vs1 (Numeric.propagators RO d1 evs1 Vs1 dts) omega basis1 ns1 nc dts (times RO dts) in
  let Bm := control_matrix_from_scratch RO (d1 * d2) thr evs Vs (Numeric.propagators RO (d1 * d2) evs Vs dts) omega basis ns nc dts (times RO dts) in
  forall a k l o, a < na -> k < K1 -> l < K2 -> o < length omega ->
    a3get RO Bm a (k * K2 + l) o = if Nat.eqb l 0 then cmul' (cofr RO (sqrt (INR d2))) (a3get RO B1 a k o) else 0c.
Proof. exact cm_embed_discharged. Qed.

(* --- more than two blocks: seen from block j a register of any number of blocks is (before) (x) (block j) (x) (after);
       for noise operators 1 (x) B (x) 1 and a product basis C_k (x) D_l (x) E_m the from-scratch control matrix is
       tr(C_k) B2_{a,l} tr(E_m)  [= sqrt(d1 d3) B2_{a,l} on (0,l,0), zero elsewhere, by C05_pauli_onb / basis2_trace]:
       the rows extend assembles for block j, whatever the number and sizes of the other blocks --- *)
Theorem C05_cm_embed_middle : forall (d1 d2 d3 K1 K2 K3 : nat) (basis1 basis2 basis3 basis12 basis : list Mat),
  length basis2 = K2 -> length basis12 = K1 * K2 -> length basis = K1 * K2 * K3 ->
  (forall k l, k < K1 -> l < K2 -> krel d1 d2 (nthm basis1 k) (nthm basis2 l) (nthm basis12 (k * K2 + l))) ->
  (forall kl m, kl < K1 * K2 -> m < K3 -> krel (d1 * d2) d3 (nthm basis12 kl) (nthm basis3 m) (nthm basis (kl * K3 + m))) ->
  forall (na2 na12 na : nat) (ns2 ns12 ns : list Mat) (rho12 rho : nat -> nat),
  length ns2 = na2 -> length ns12 = na12 -> length ns = na ->
  (forall a, a < na2 -> rho12 a < na12) -> (forall a, a < na12 -> rho a < na) ->
  (forall a, a < na2 -> krel d1 d2 (mid RO d1) (nthm ns2 a) (nthm ns12 (rho12 a))) ->
  (forall a, a < na12 -> krel (d1 * d2) d3 (nthm ns12 a) (mid RO d3) (nthm ns (rho a))) ->
  forall thr evs1 evs2 evs3 evs12 evs Vs1 Vs2 Vs3 Vs12 Vs omega nc2 nc12 nc dts,
  Forall3 (evrel d1 d2) evs1 evs2 evs12 -> Forall3 (krel d1 d2) Vs1 Vs2 Vs12 ->
  Forall3 (evrel (d1 * d2) d3) evs12 evs3 evs -> Forall3 (krel (d1 * d2) d3) Vs12 Vs3 Vs ->
  Forall (fun V => funitary d1 (toF V)) Vs1 -> Forall (fun V => funitary d3 (toF V)) Vs3 ->
  length nc2 = na2 -> length nc12 = na12 -> length nc = na ->
  (forall a, a < na2 -> nth (rho12 a) nc12 [] = nth a nc2 []) ->
  (forall a, a < na12 -> nth (rho a) nc [] = nth a nc12 []) ->
  let B2 := control_matrix_from_scratch RO d2 thr evs2 Vs2 (Numeric.propagators RO d2 evs2 Vs2 dts) omega basis2 ns2 nc2 dts (times RO dts) in
  let Bm := control_matrix_from_scratch RO (d1 * d2 * d3) thr evs Vs (Numeric.propagators RO (d1 * d2 * d3) evs Vs dts) omega basis ns nc dts (times RO dts) in
  forall a k l m o, a < na2 -> k < K1 -> l < K2 -> m < K3 -> o < length omega ->
    a3get RO Bm (rho (rho12 a)) ((k * K2 + l) * K3 + m) o =
    cmul' (cmul' (mtrace RO d1 (nthm basis1 k)) (a3get RO B2 a l o)) (mtrace RO d3 (nthm basis3 m)).
Proof. exact cm_embed_middle. Qed.
Print Assumptions C05_cm_embed_middle.

(* --- rows of the from-scratch control matrix depend only on their own noise operator and coefficients: the rows extend
       computes separately for the additional noise Hamiltonian (calculate_control_matrix_from_scratch on the assembled
       spectral data, restricted to those operators) are the corresponding rows of the complete control matrix --- *)
Theorem C05_additional_rows : forall (d K : nat) (basis : list Mat), length basis = K ->
  forall thr evs Vs Qs omega ns ns' nc nc' dts ts a a',
  a < length ns -> a' < length ns' -> length nc = length ns -> length nc' = length ns' ->
  nthm ns a = nthm ns' a' -> nth a nc [] = nth a' nc' [] ->
  forall k o, k < K -> o < length omega ->
  a3get RO (control_matrix_from_scratch RO d thr evs Vs Qs omega basis ns nc dts ts) a k o =
  a3get RO (control_matrix_from_scratch RO d thr evs Vs Qs omega basis ns' nc' dts ts) a' k o.
Proof. exact cm_row_local. Qed.

(* --- filter function: by construction sum_k conj(B_ak) B_bk of the assembled control matrix; the pinned
       (pre-fix) block-diagonal filling is refuted by a 2-qubit witness --- *)
Theorem C05_ff_from_cm : forall nrows K no bs a b o, a < nrows -> b < nrows -> o < no ->
  a3get RO (assemble_ff RO nrows K no bs) a b o =
  csumn' K (fun k => cmul' (cconj' (a3get RO (assemble_cm RO nrows K no bs) a k o))
                           (a3get RO (assemble_cm RO nrows K no bs) b k o)).
Proof. exact ff_from_cm. Qed.
Theorem C05_prefix_refuted :
  a3get RO (assemble_ff RO 2 16 1 w_blocks) 0 1 0 = (2%R, 0%R) /\
  a3get RO (prefix_ff RO 2 1 w_prefix) 0 1 0 = 0c /\
  a3get RO (assemble_ff RO 2 16 1 w_blocks) 0 1 0 <> a3get RO (prefix_ff RO 2 1 w_prefix) 0 1 0.
Proof. exact prefix_refuted. Qed.
Print Assumptions C05_prefix_refuted.

(* --- equivalent_pauli_basis_elements: digits of k on the active qubits, identity (0) elsewhere --- *)
Theorem C05_equiv_idx_digits : forall ind N k,
  let m := length (filter (fun i => memb i ind) (seq 0 N)) in
  k < 4 ^ m -> digits 4 N (nth k (equiv_idx ind N) 0) = spread N 0 ind (digits 4 m k).
Proof. exact equiv_idx_digits. Qed.
Theorem C05_equiv_idx_inactive : forall N pos ind ds q, q < N -> memb (pos + q) ind = false ->
  nth q (spread N pos ind ds) 0 = 0.
Proof. exact spread_inactive. Qed.

(* --- N-factor placement for arbitrary position sets [ind]: reduction to the leading block by the qubit permutation
       that brings the active qubits to the front (order = argsort of front; covariance of the from-scratch control
       matrix from C06) and the index identity  pi(k,0) = equivalent_pauli_basis_elements(ind, N)[k] --- *)
Theorem C05_placement_index : forall ind N k, let m := length (act ind 0 N) in k < 4 ^ m ->
  dperm 4 N (inv_order (front ind N)) (k * 4 ^ (N - m)) = nth k (equiv_idx ind N) 0.
Proof. exact placement_index. Qed.

Theorem C05_placement_control_matrix : forall (d1 d2 K1 K2 na : nat) (basis1 basis2 basis ns1 ns : list Mat),
  length basis1 = K1 -> length basis = K1 * K2 ->
  (forall k l, k < K1 -> l < K2 -> krel d1 d2 (nthm basis1 k) (nthm basis2 l) (nthm basis (k * K2 + l))) ->
  length ns1 = na -> length ns = na ->
  (forall a, a < na -> krel d1 d2 (nthm ns1 a) (mid RO d2) (nthm ns a)) ->
  (forall l m, l < K2 -> m < K2 -> mtrprod RO d2 (madj RO d2 (nthm basis2 l)) (nthm basis2 m) = if Nat.eqb l m then 1c else 0c) ->
  0 < d2 -> 0 < K2 ->
  feq d2 (toF (nthm basis2 0)) (fscal (cofr RO (Rinv (sqrt (INR d2)))) fid) ->
  forall tau pi : nat -> nat, bij_on (d1 * d2) tau -> bij_on (K1 * K2) pi ->
  (forall kk, kk < K1 * K2 -> mrel (d1 * d2) tau (nthm basis kk) (nthm basis (pi kk))) ->
  forall thr evs1 evs2 evs evs' Vs1 Vs2 Vs Vs' omega ns' nc dts,
  Forall3 (evrel d1 d2) evs1 evs2 evs -> Forall3 (krel d1 d2) Vs1 Vs2 Vs ->
  Forall (fun V => funitary d2 (toF V)) Vs2 ->
  Forall2 (vrel (d1 * d2) tau) evs evs' -> Forall2 (mrel (d1 * d2) tau) Vs Vs' ->
  length ns' = na -> (forall a, a < na -> mrel (d1 * d2) tau (nthm ns a) (nthm ns' a)) ->
  length nc = na ->
  let B1 := control_matrix_from_scratch RO d1 thr evs1 Vs1 (Numeric.propagators RO d1 evs1 Vs1 dts) omega basis1 ns1 nc dts (times RO dts) in
  let Bp := control_matrix_from_scratch RO (d1 * d2) thr evs' Vs' (Numeric.propagators RO (d1 * d2) evs' Vs' dts) omega basis ns' nc dts (times RO dts) in
  forall a k l o, a < na -> k < K1 -> l < K2 -> o < length omega ->
    a3get RO Bp a (pi (k * K2 + l)) o =
      if Nat.eqb l 0 then cmul' (cofr RO (sqrt (INR d2))) (a3get RO B1 a k o) else 0c.
Proof. exact placement_control_matrix. Qed.

(* qubits, Pauli basis: a pulse on the qubits [ind] of an N-qubit register *)
Theorem C05_placement_qubits : forall ind N sigma nrm basis basis1 basis2 ns1 ns na,
  let m := length (act ind 0 N) in
  let d1 := 2 ^ m in let d2 := 2 ^ (N - m) in let K1 := 4 ^ m in let K2 := 4 ^ (N - m) in
  let ord := inv_order (front ind N) in
  basis_is_pauli sigma nrm N basis ->
  length basis1 = K1 ->
  (forall k l, k < K1 -> l < K2 -> krel d1 d2 (nthm basis1 k) (nthm basis2 l) (nthm basis (k * K2 + l))) ->
  length ns1 = na -> length ns = na ->
  (forall a, a < na -> krel d1 d2 (nthm ns1 a) (mid RO d2) (nthm ns a)) ->
  (forall l m', l < K2 -> m' < K2 ->
     mtrprod RO d2 (madj RO d2 (nthm basis2 l)) (nthm basis2 m') = if Nat.eqb l m' then 1c else 0c) ->
  feq d2 (toF (nthm basis2 0)) (fscal (cofr RO (Rinv (sqrt (INR d2)))) fid) ->
  forall thr evs1 evs2 evs evs' Vs1 Vs2 Vs Vs' omega ns' nc dts,
  Forall3 (evrel d1 d2) evs1 evs2 evs -> Forall3 (krel d1 d2) Vs1 Vs2 Vs ->
  Forall (fun V => funitary d2 (toF V)) Vs2 ->
  Forall2 (vrel (2 ^ N) (tt_src 2 N ord)) evs evs' -> Forall2 (mrel (2 ^ N) (tt_src 2 N ord)) Vs Vs' ->
  length ns' = na -> (forall a, a < na -> mrel (2 ^ N) (tt_src 2 N ord) (nthm ns a) (nthm ns' a)) ->
  length nc = na ->
  let B1 := control_matrix_from_scratch RO d1 thr evs1 Vs1 (Numeric.propagators RO d1 evs1 Vs1 dts) omega basis1 ns1 nc dts (times RO dts) in
  let Bp := control_matrix_from_scratch RO (2 ^ N) thr evs' Vs' (Numeric.propagators RO (2 ^ N) evs' Vs' dts) omega basis ns' nc dts (times RO dts) in
  forall a k o, a < na -> k < K1 -> o < length omega ->
    a3get RO Bp a (nth k (equiv_idx ind N) 0) o = cmul' (cofr RO (sqrt (INR d2))) (a3get RO B1 a k o) /\
    (forall l, 0 < l < K2 -> a3get RO Bp a (dperm 4 N ord (k * K2 + l)) o = 0c).
Proof. exact placement_control_matrix_qubits. Qed.
Print Assumptions C05_placement_qubits.

(* the Pauli basis is the product of the bases of the leading m and the trailing r qubits, orthonormal, first element
   the normalised identity (so the basis hypotheses above hold for the actual basis, every n) *)
Theorem C05_kron_chain_append : forall d l1 l2 i j, 0 < d -> i < d ^ (length l1 + length l2) -> j < d ^ (length l1 + length l2) ->
  kronl d (l1 ++ l2) i j = fkron (d ^ length l2) (kronl d l1) (kronl d l2) i j.
Proof. exact kronl_app. Qed.
Theorem C05_pauli_product : forall m r basis, basis_is_pauli sigmaP nrmP (m + r) basis -> forall k l, k < 4 ^ m -> l < 4 ^ r ->
  krel (2 ^ m) (2 ^ r) (nthm (pauli_list sigmaP nrmP m) k) (nthm (pauli_list sigmaP nrmP r) l) (nthm basis (k * 4 ^ r + l)).
Proof. exact pauliP_product. Qed.
Theorem C05_pauli_onb : forall n l m, l < 4 ^ n -> m < 4 ^ n ->
  mtrprod RO (2 ^ n) (madj RO (2 ^ n) (nthm (pauli_list sigmaP nrmP n) l)) (nthm (pauli_list sigmaP nrmP n) m)
  = if Nat.eqb l m then 1c else 0c.
Proof. exact pauliP_onb. Qed.
Theorem C05_pauli_first : forall n,
  feq (2 ^ n) (toF (nthm (pauli_list sigmaP nrmP n) 0)) (fscal (cofr RO (Rinv (sqrt (INR (2 ^ n))))) fid).
Proof. exact pauliP_first. Qed.
Print Assumptions C05_pauli_onb.

(* --- a multi-qubit pulse mapped onto the whole register together with an identifier mapping or an additional noise
       Hamiltonian (no shortcut since 9255946): the code since e379e51 extends it like any other input and never calls
       util.tensor_insert without arguments; between 9255946 and e379e51 it raised (model [extend_prefix]) --- *)
Theorem C05_never_noargs : forall entries Narg dq additional cd cff om,
  extend entries Narg dq additional cd cff om <> Raise ErrNoArgs.
Proof. exact extend_never_noargs. Qed.
Theorem C05_full_register :
  (exists pl, extend [mkEntry fr_pulse (QTup [0; 1]) (Some [("a", "A"); ("n", "Nn")]%string)] None 2 None None None None = Extended pl
      /\ pl_N pl = 2 /\ pl_c_ids pl = ["A"%string] /\ pl_n_ids pl = ["Nn"%string] /\ pl_steps pl = []
      /\ pl_c_src pl = [FromPulse 0 0] /\ pl_n_src pl = [FromPulse 0 0])
  /\ (exists pl, extend [mkEntry fr_pulse (QTup [1; 0]) None] None 2 (Some (4, ["extra"%string])) None None None = Extended pl
      /\ pl_remaps pl = [[1; 0]] /\ pl_c_ids pl = ["a_01"%string] /\ pl_n_ids pl = ["extra"%string; "n_01"%string]
      /\ pl_n_src pl = [Additional 0; FromPulse 0 0] /\ pl_steps pl = [])
  /\ extend [mkEntry fr_pulse (QTup [0; 1]) None] None 2 None None None None = ReturnSame [].
Proof. exact full_register_ok. Qed.
Theorem C05_full_register_prefix_refuted :
  extend_prefix [mkEntry fr_pulse (QTup [0; 1]) (Some [("a", "A"); ("n", "Nn")]%string)] None 2 None None None None = Raise ErrNoArgs
  /\ extend_prefix [mkEntry fr_pulse (QTup [0; 1]) None] None 2 (Some (4, ["extra"%string])) None None None = Raise ErrNoArgs.
Proof. exact full_register_prefix_refuted. Qed.

(* --- the hypotheses are satisfiable --- *)
Example C05_ex_krel : forall d1 d2 A B, krel d1 d2 A B (mkron d1 d2 A B).
Proof. exact krel_mkron. Qed.
Example C05_ex_product_basis : forall d1 d2 K1 K2 b1 b2,
  length (product_basis d1 d2 K1 K2 b1 b2) = K1 * K2 /\
  forall k l, k < K1 -> l < K2 -> krel d1 d2 (nthm b1 k) (nthm b2 l) (nthm (product_basis d1 d2 K1 K2 b1 b2) (k * K2 + l)).
Proof. exact product_basis_ok. Qed.
Example C05_ex_extended_operators : forall d1 d2 ns1,
  length (extend_ops d1 d2 ns1) = length ns1 /\
  forall a, a < length ns1 -> krel d1 d2 (nthm ns1 a) (mid RO d2) (nthm (extend_ops d1 d2 ns1) a).
Proof. exact extend_ops_ok. Qed.
Example C05_ex_eigvals : forall d1 d2 ev1 ev2,
  evrel d1 d2 ev1 ev2 (build (d1 * d2) (fun i => Rplus (vg RO ev1 (i / d2)) (vg RO ev2 (i mod d2)))).
Proof. exact evrel_ex. Qed.
Example C05_ex_pauli_onb : forall l m, l < 4 -> m < 4 ->
  mtrprod RO 2 (madj RO 2 (nthm pauli1 l)) (nthm pauli1 m) = if Nat.eqb l m then 1c else 0c.
Proof. exact pauli1_onb. Qed.
Example C05_ex_pauli_first : feq 2 (toF (nthm pauli1 0)) (fscal (cofr RO (Rinv (sqrt (INR 2)))) fid).
Proof. exact pauli1_first. Qed.
