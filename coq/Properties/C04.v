(* C04 -- periodic concatenation equals explicit repetition for every count and frequency.
   Only statements closed by [exact <lemma>], their assumptions, and examples showing that the
   hypotheses are satisfiable.
   The model (Model/Periodic.v) of numeric.calculate_control_matrix_periodic takes the per-frequency
   invertibility flag (det / isclose) and the result of numpy.linalg.solve as oracle inputs.
   Proved: on the explicit-sum branch, and on the solve branch whenever solve returned a solution of
   (1 - T) S = 1 - T^G and 1 - T is injective, the result equals the atomic concatenation rule applied
   to G copies of the pulse -- at every frequency and for every G >= 1.
   NOT proved (C04_full below): that the floating-point solve is accurate when 1 - T is
   ill-conditioned but passes the determinant test; that part is sampled by the plugin.          *)
From Coq Require Import ZArith Reals List Lra Lia.
From FF Require Import Base.Ops Inst.RInst Base.RAlg Model.Numeric Model.Propagator Model.Periodic Model.Atomic
                       Model.Tie.C04 Proofs.MatAlg Proofs.AtomicAlg Proofs.Atomic Proofs.Propagator Proofs.Periodic
                       Proofs.PeriodicScratch Proofs.PeriodicBound.
From FF Require Import Inst.IInst Inst.Param Inst.EnclosureC02.
Import ListNotations.
Local Open Scope R_scope.

(* geometric series *)
Theorem C04_geom_explicit : forall n (Tm : Mat (T:=R)) G, (1 <= G)%nat ->
  feq n (toF (geom_explicit RO n Tm G)) (fgeom n (toF Tm) G).
Proof. exact geom_explicit_correct. Qed.
Print Assumptions C04_geom_explicit.

Theorem C04_geom_explicit_one : forall n (Tm : Mat (T:=R)), feq n (toF (geom_explicit RO n Tm 1)) fid.
Proof. exact geom_explicit_one. Qed.

Theorem C04_geom_telescope : forall n Tm G, feq n (fmul n (fsub fid Tm) (fgeom n Tm G)) (fsub fid (fpow n Tm G)).
Proof. exact fgeom_telescope. Qed.

Theorem C04_geom_unique : forall n (Tf S : fmat) G, fleft_cancel n (fsub fid Tf) ->
  feq n (fmul n (fsub fid Tf) S) (fsub fid (fpow n Tf G)) -> feq n S (fgeom n Tf G).
Proof. exact geom_unique. Qed.
Print Assumptions C04_geom_unique.

Theorem C04_left_inverse_cancel : forall n M, (exists N, feq n (fmul n N M) fid) -> fleft_cancel n M.
Proof. exact left_inverse_cancel. Qed.

(* at a singular point the linear system does not determine S: why the branch is needed *)
Theorem C04_singular_not_unique : forall n (S : fmat) G, feq n (fmul n (fsub fid fid) S) (fsub fid (fpow n fid G)).
Proof. exact geom_not_unique_at_identity. Qed.

Theorem C04_solve_residual : forall n (Tm S : Mat (T:=R)) G,
  feq n (toF (solve_residual RO n Tm S G)) fzero <->
  feq n (fmul n (fsub fid (toF Tm)) (toF S)) (fsub fid (fpow n (toF Tm) G)).
Proof. exact solve_residual_zero. Qed.

(* matrix powers *)
Theorem C04_pow_add : forall d A m n, feq d (fpow d A (m + n)) (fmul d (fpow d A m) (fpow d A n)).
Proof. exact fpow_add. Qed.
Theorem C04_pow_phase : forall n z A g, feq n (fpow n (fscal z A) g) (fscal (cpow RO z g) (fpow n A g)).
Proof. exact fpow_fscal. Qed.
Theorem C04_pow_liouville : forall n (L : list (list R)) g, feq n (toFr (rmpow_l RO n L g)) (fpow n (toFr L) g).
Proof. exact toFr_rmpow_l. Qed.

(* the periodic control matrix is the atomic rule on G copies *)
Theorem C04_periodic_eq_atomic : forall n na no G (ph : list Cx) (cm : Arr3 (T:=R)) (L : list (list R)) (Sl : list (Mat (T:=R))) a k o,
  (a < na)%nat -> (k < n)%nat -> (o < no)%nat -> length ph = no ->
  feq n (toF (nth o Sl [])) (fgeom n (toF (T_of RO n (nth o ph 0c) L)) G) ->
  a3get RO (cm_apply RO n na no cm Sl) a k o = a3get RO (atomic_repeated RO n na no G ph cm L) a k o.
Proof. exact periodic_eq_atomic. Qed.
Print Assumptions C04_periodic_eq_atomic.

Theorem C04_cm_periodic_partial : forall n na no G (ph : list Cx) (cm : Arr3 (T:=R)) (L : list (list R)) inv Ss a k o,
  (1 <= G)%nat -> (a < na)%nat -> (k < n)%nat -> (o < no)%nat -> length ph = no ->
  (nth o inv false = false \/
   (feq n (toF (solve_residual RO n (T_of RO n (nth o ph 0c) L) (nth o Ss []) G)) fzero /\
    fleft_cancel n (fsub fid (toF (T_of RO n (nth o ph 0c) L))))) ->
  a3get RO (cm_periodic RO n na no G ph cm L inv Ss) a k o = a3get RO (atomic_repeated RO n na no G ph cm L) a k o.
Proof. exact cm_periodic_correct. Qed.
Print Assumptions C04_cm_periodic_partial.

(* link to C03 (atomic rule): what concatenate hands to calculate_control_matrix_from_atomic for G copies of a
   pulse is the data of [atomic_repeated] ... *)
Theorem C04_concat_atomic_repeat : forall d thr om bs ns (p : piece (T:=R)) G a k o,
  (a < length ns)%nat -> (k < length bs)%nat -> (o < length om)%nat ->
  a3get RO (concat_atomic RO d thr om bs ns (repeat p G)) a k o =
  a3get RO (atomic_repeated RO (length bs) (length ns) (length om) G
              (total_phases RO om (piece_tau RO p)) (piece_cm RO d thr om bs ns p)
              (liouville RO d (piece_total RO d p) bs)) a k o.
Proof. exact concat_atomic_repeat. Qed.

(* ... HEADLINE: for every complete Hermitian basis, the periodic control matrix (either branch, explicit oracle
   hypotheses) is the control matrix of the G-fold repeated pulse computed from scratch by the numeric engine
   (spectral data played G times, propagators and times recomputed), for every G >= 1 and every frequency *)
Theorem C04_periodic_eq_scratch_partial : forall d thr om bs ns (p : piece (T:=R)) G inv Ss a k o,
  (forall l, (l < length bs)%nat -> fherm d (Cf bs l)) ->
  (forall X : fmat, feq d X (flin (length bs) (fun l => ftr d (fmul d (Cf bs l) X)) (Cf bs))) ->
  wf_piece ns p ->
  (1 <= G)%nat -> (a < length ns)%nat -> (k < length bs)%nat -> (o < length om)%nat ->
  let n := length bs in
  let ph := total_phases RO om (piece_tau RO p) in
  let L := liouville RO d (piece_total RO d p) bs in
  (nth o inv false = false \/
   (feq n (toF (solve_residual RO n (T_of RO n (nth o ph 0c) L) (nth o Ss []) G)) fzero /\
    fleft_cancel n (fsub fid (toF (T_of RO n (nth o ph 0c) L))))) ->
  a3get RO (cm_periodic RO n (length ns) (length om) G ph (piece_cm RO d thr om bs ns p) L inv Ss) a k o =
  a3get RO (piece_cm RO d thr om bs ns (cat_piece (length ns) (repeat p G))) a k o.
Proof. exact periodic_eq_scratch. Qed.
Print Assumptions C04_periodic_eq_scratch_partial.

(* qubit pulses in the Pauli basis: the basis hypotheses are discharged *)
Theorem C04_periodic_eq_scratch_pauli : forall thr om ns (p : piece (T:=R)) G inv Ss a k o,
  wf_piece ns p -> (1 <= G)%nat -> (a < length ns)%nat -> (k < 4)%nat -> (o < length om)%nat ->
  let ph := total_phases RO om (piece_tau RO p) in
  let L := liouville RO 2 (piece_total RO 2 p) pauli_basis in
  (nth o inv false = false \/
   (feq 4 (toF (solve_residual RO 4 (T_of RO 4 (nth o ph 0c) L) (nth o Ss []) G)) fzero /\
    fleft_cancel 4 (fsub fid (toF (T_of RO 4 (nth o ph 0c) L))))) ->
  a3get RO (cm_periodic RO 4 (length ns) (length om) G ph (piece_cm RO 2 thr om pauli_basis ns p) L inv Ss) a k o =
  a3get RO (piece_cm RO 2 thr om pauli_basis ns (cat_piece (length ns) (repeat p G))) a k o.
Proof. exact periodic_eq_scratch_pauli. Qed.
(* the well-formedness hypothesis holds for C03's example piece (two non-commuting segments) *)
Example C04_wf_piece_satisfiable : wf_piece ex_ns ex_p1.
Proof. pose proof atomic_rule_hyps_satisfiable as H. inversion H. assumption. Qed.

(* ---- error bound for the solve branch (the flag now comes from `nla.cond(M) < 1e8`): with a left inverse N of
        1 - T and the residual R of whatever solve returned, S - sum T^g = N R; entrywise (|z| = |re z| + |im z|)
        |S - sum T^g| <= n |N| |R|, i.e. (n |N| |M|) eps |S| for a residual of relative size eps, and the control
        matrix inherits the bound ---- *)
Theorem C04_solve_error_identity : forall n (Tf S N : fmat) G, feq n (fmul n N (fsub fid Tf)) fid ->
  feq n (fsub S (fgeom n Tf G)) (fmul n N (fsub (fmul n (fsub fid Tf) S) (fsub fid (fpow n Tf G)))).
Proof. exact solve_error_identity. Qed.
Theorem C04_solve_error_bound : forall n (Tf S N : fmat) G nu rho, 0 <= nu ->
  feq n (fmul n N (fsub fid Tf)) fid -> fbound n N nu ->
  fbound n (fsub (fmul n (fsub fid Tf) S) (fsub fid (fpow n Tf G))) rho ->
  fbound n (fsub S (fgeom n Tf G)) (INR n * (nu * rho)).
Proof. exact solve_error_bound. Qed.
Print Assumptions C04_solve_error_bound.
Theorem C04_solve_error_bound_cond : forall n (Tf S N : fmat) G nu mu sigma eps, 0 <= nu ->
  feq n (fmul n N (fsub fid Tf)) fid -> fbound n N nu -> fbound n (fsub fid Tf) mu -> fbound n S sigma ->
  fbound n (fsub (fmul n (fsub fid Tf) S) (fsub fid (fpow n Tf G))) (eps * (mu * sigma)) ->
  fbound n (fsub S (fgeom n Tf G)) ((INR n * (nu * mu)) * eps * sigma).
Proof. exact solve_error_bound_cond. Qed.
Theorem C04_cm_periodic_solve_error : forall n na no G ph cm L inv Ss (N : fmat) nu rho beta a k o,
  (a < na)%nat -> (k < n)%nat -> (o < no)%nat -> length ph = no -> 0 <= nu -> 0 <= beta ->
  nth o inv false = true ->
  let Tf := toF (T_of RO n (nth o ph 0c) L) in
  feq n (fmul n N (fsub fid Tf)) fid -> fbound n N nu ->
  fbound n (toF (solve_residual RO n (T_of RO n (nth o ph 0c) L) (nth o Ss []) G)) rho ->
  (forall j, (j < n)%nat -> cn1 (a3get RO cm a j o) <= beta) ->
  cn1 (csub' (a3get RO (cm_periodic RO n na no G ph cm L inv Ss) a k o)
             (a3get RO (atomic_repeated RO n na no G ph cm L) a k o))
  <= INR n * (beta * (INR n * (nu * rho))).
Proof. exact cm_periodic_solve_error. Qed.
Print Assumptions C04_cm_periodic_solve_error.

(* the full statement: whatever flags and whatever solve returns in floating point.  It is false for
   arbitrary oracle outputs (C04_singular_not_unique) and its floating-point version (accuracy of LAPACK
   near singular points) is outside the model; the plugin samples it.                                 *)
Definition C04_full : Prop := forall n na no G (ph : list Cx) (cm : Arr3 (T:=R)) (L : list (list R)) inv Ss a k o,
  (1 <= G)%nat -> (a < na)%nat -> (k < n)%nat -> (o < no)%nat -> length ph = no ->
  a3get RO (cm_periodic RO n na no G ph cm L inv Ss) a k o = a3get RO (atomic_repeated RO n na no G ph cm L) a k o.

(* tiling: Hamiltonian coefficients, total propagator, duration, total phases *)
Theorem C04_tile_nth : forall (l : list R) G dflt q i, (q < G)%nat -> (i < length l)%nat ->
  nth (q * length l + i) (tile l G) dflt = nth i l dflt.
Proof. exact (@tile_nth R). Qed.
Theorem C04_tile_length : forall (l : list R) G, length (tile l G) = (G * length l)%nat.
Proof. exact (@tile_length R). Qed.
Theorem C04_total_propagator_power : forall d evs Vs dts G, length Vs = length evs -> length dts = length evs ->
  feq d (toF (total_propagator RO d (propagators RO d (tile evs G) (tile Vs G) (tile dts G))))
        (fpow d (toF (total_propagator RO d (propagators RO d evs Vs dts))) G).
Proof. exact propagators_tile. Qed.
Print Assumptions C04_total_propagator_power.
Theorem C04_total_propagator_matrix_power : forall d evs Vs dts G, length Vs = length evs -> length dts = length evs ->
  feq d (toF (total_propagator RO d (propagators RO d (tile evs G) (tile Vs G) (tile dts G))))
        (toF (mpow RO d (total_propagator RO d (propagators RO d evs Vs dts)) G)).
Proof. exact total_propagator_periodic. Qed.
Theorem C04_tau_periodic : forall G cached dts, t_consistent cached dts ->
  periodic_tau_assigned RO G cached dts = tau_get RO None (tile dts G)
  /\ tau_get RO None (tile dts G) = tau_of_t RO (tile dts G).
Proof. exact periodic_tau. Qed.
Theorem C04_total_phase : forall w tau G, cexp' (w * (INR G * tau)) = cpow RO (cexp' (w * tau)) G.
Proof. exact total_phase_periodic. Qed.

(* ---- enclosure (paramcoq, kernel-checked): the interval evaluations of the correspondence check enclose the
        real-valued model values the theorems above are about (160-bit instance likewise: EnclC02B) ---- *)
Theorem C04_cm_periodic_enclosure :
  forall n1 n2 : nat, nat_R n1 n2 -> forall na1 na2 : nat, nat_R na1 na2 -> forall no1 no2 : nat, nat_R no1 no2 ->
  forall G1 G2 : nat, nat_R G1 G2 ->
  forall ph1 ph2, list_R _ _ (C_R _ _ PP.TR) ph1 ph2 ->
  forall cm1 cm2, Arr3_R _ _ PP.TR cm1 cm2 ->
  forall (L1 : list (list PP.M.I.type)) (L2 : list (list R)), list_R _ _ (list_R _ _ PP.TR) L1 L2 ->
  forall inv1 inv2 : list bool, list_R _ _ bool_R inv1 inv2 ->
  forall Ss1 Ss2, list_R _ _ (Mat_R _ _ PP.TR) Ss1 Ss2 ->
  Arr3_R _ _ PP.TR (cm_periodic IOP n1 na1 no1 G1 ph1 cm1 L1 inv1 Ss1) (cm_periodic RO n2 na2 no2 G2 ph2 cm2 L2 inv2 Ss2).
Proof. exact EnclC02.cm_periodic_enclosure. Qed.
Theorem C04_atomic_repeated_enclosure :
  forall n1 n2 : nat, nat_R n1 n2 -> forall na1 na2 : nat, nat_R na1 na2 -> forall no1 no2 : nat, nat_R no1 no2 ->
  forall G1 G2 : nat, nat_R G1 G2 ->
  forall ph1 ph2, list_R _ _ (C_R _ _ PP.TR) ph1 ph2 ->
  forall cm1 cm2, Arr3_R _ _ PP.TR cm1 cm2 ->
  forall (L1 : list (list PP.M.I.type)) (L2 : list (list R)), list_R _ _ (list_R _ _ PP.TR) L1 L2 ->
  Arr3_R _ _ PP.TR (atomic_repeated IOP n1 na1 no1 G1 ph1 cm1 L1) (atomic_repeated RO n2 na2 no2 G2 ph2 cm2 L2).
Proof. exact EnclC02.atomic_repeated_enclosure. Qed.
(* the shared list used by the check is the model's list *)
Theorem C04_S_list_from_eq : forall {T B} (Op : Ops T B) n no G ph L inv Ss,
  S_list Op n no G ph L inv Ss = S_list_from no inv Ss (S_list Op n no G ph L [] []).
Proof. exact @S_list_from_eq. Qed.

(* ---- the hypotheses of C04_cm_periodic_partial are satisfiable on both branches:
        L = 1 (identity total propagator), phases 1 (singular: explicit sum) and i (solve), G = 2 ---- *)
Definition ex_L : list (list R) := [[1; 0]; [0; 1]].
Definition ex_ph : list Cx := [(1, 0); (0, 1)].
Definition ex_S : Mat (T:=R) := [[(1, 1); (0, 0)]; [(0, 0); (1, 1)]].
Example C04_hypotheses_satisfiable :
  nth 0 [false; true] false = false /\ nth 1 [false; true] false = true /\
  feq 2 (toF (solve_residual RO 2 (T_of RO 2 (nth 1 ex_ph 0c) ex_L) (nth 1 [[]; ex_S] []) 2)) fzero /\
  fleft_cancel 2 (fsub fid (toF (T_of RO 2 (nth 1 ex_ph 0c) ex_L))).
Proof.
  split. reflexivity. split. reflexivity. split.
  - intros i j Hi Hj. destruct i as [|[|i]]; try lia; destruct j as [|[|j]]; try lia;
      unfold ex_L, ex_ph, ex_S; apply c_eq; simpl; unfold rget, vg, vget, nthv; simpl; ring.
  - apply left_inverse_cancel. exists (fscal (1/2, 1/2) fid).
    intros i j Hi Hj. destruct i as [|[|i]]; try lia; destruct j as [|[|j]]; try lia;
      unfold ex_L, ex_ph, ex_S; apply c_eq; simpl; unfold rget, vg, vget, nthv; simpl; field.
Qed.

(* the hypotheses of the error bound hold on the same example (left inverse (1+i)/2, exact solution: residual 0) *)
Example C04_error_bound_hypotheses_satisfiable :
  let Tf := toF (T_of RO 2 (nth 1 ex_ph 0c) ex_L) in
  let N := fscal (1/2, 1/2) fid in
  feq 2 (fmul 2 N (fsub fid Tf)) fid /\ fbound 2 N 1 /\
  fbound 2 (toF (solve_residual RO 2 (T_of RO 2 (nth 1 ex_ph 0c) ex_L) ex_S 2)) 0.
Proof.
  intros Tf N. split; [|split].
  - intros i j Hi Hj. destruct i as [|[|i]]; try lia; destruct j as [|[|j]]; try lia;
      unfold ex_L, ex_ph, ex_S; apply c_eq; simpl; unfold rget, vg, vget, nthv; simpl; field.
  - intros i j Hi Hj. destruct i as [|[|i]]; try lia; destruct j as [|[|j]]; try lia;
      unfold N, cn1, fscal, fid; simpl;
      repeat match goal with |- context [Rabs ?x] => let H := fresh in
        assert (H : Rabs x <= 1/2) by (apply Rabs_le; lra); revert H; generalize (Rabs x); intros end; lra.
  - destruct C04_hypotheses_satisfiable as [_ [_ [H _]]].
    assert (H' : feq 2 (toF (solve_residual RO 2 (T_of RO 2 (nth 1 ex_ph 0c) ex_L) ex_S 2)) fzero) by exact H.
    intros i j Hi Hj. rewrite (H' i j Hi Hj). unfold fzero. rewrite cn1_0. lra.
Qed.
