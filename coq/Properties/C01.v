(* C01 -- control matrix and first-order filter functions equal their defining integral.
   This file contains only statements closed by [exact <lemma>] and their assumptions. *)
From Coq Require Import ZArith Reals List.
From Coquelicot Require Import Coquelicot.
From FF Require Import Base.Ops Inst.RInst Base.RAlg Model.Numeric Model.Consts Model.Tie.C01 Proofs.Foi.
Local Open Scope R_scope.

(* Segment integral, masked branch: the model value is the integral of e^{i x t} over [0, dt]. *)
Theorem C01_foi_exact : forall thr w evm evn dt, 0 <= thr ->
  thr < Rabs (foi_x w evm evn * dt) ->
  is_RInt (fun t => cos (foi_x w evm evn * t)) 0 dt (fst (foi_entry RO thr w evm evn dt)) /\
  is_RInt (fun t => sin (foi_x w evm evn * t)) 0 dt (snd (foi_entry RO thr w evm evn dt)).
Proof. exact foi_exact. Qed.
Print Assumptions C01_foi_exact.

(* Segment integral, small-denominator (Taylor) branch: error at most |dt| thr^2/2 and |dt| thr/2. *)
Theorem C01_foi_taylor_bound : forall thr w evm evn dt,
  Rabs (foi_x w evm evn * dt) <= thr ->
  exists Ic Is, is_RInt (fun t => cos (foi_x w evm evn * t)) 0 dt Ic /\
                is_RInt (fun t => sin (foi_x w evm evn * t)) 0 dt Is /\
                Rabs (fst (foi_entry RO thr w evm evn dt) - Ic) <= Rabs dt * (thr * thr / 2) /\
                Rabs (snd (foi_entry RO thr w evm evn dt) - Is) <= Rabs dt * (thr / 2).
Proof. exact foi_taylor_bound. Qed.
Print Assumptions C01_foi_taylor_bound.

(* No division by zero under the mask (the "no NaN / infinity" clause at model level). *)
Theorem C01_masked_div_safe : forall thr x dt, 0 <= thr -> thr < Rabs (x * dt) -> x <> 0.
Proof. exact masked_div_safe. Qed.
Print Assumptions C01_masked_div_safe.
