(* C01 -- control matrix and first-order filter functions equal their defining integral.
   This file contains only statements closed by [exact <lemma>] and their assumptions. *)
From Coq Require Import ZArith Reals List.
From Coquelicot Require Import Coquelicot.
From FF Require Import Base.Ops Inst.RInst Base.RAlg Model.Numeric Model.Consts Model.Tie.C01 Proofs.Foi Proofs.CMBase Proofs.CMIntegral Proofs.CMBound Proofs.CMSym Proofs.CMBessel Proofs.MatAlg Proofs.Propagator Proofs.CMEvolution
  Model.Atomic Proofs.AtomicAlg Proofs.Atomic Proofs.EigIndep Proofs.Invariance Proofs.InvarianceEig.
Local Open Scope R_scope.

(* Segment integral, masked branch: the model value is the integral of e^{i x t} over [0, dt]. *)
Theorem C01_foi_exact : forall thr w evm evn dt, 0 <= thr ->
  thr < Rabs (foi_x w evm evn * dt) ->
  is_RInt (fun t => cos (foi_x w evm evn * t)) 0 dt (fst (foi_entry RO thr w evm evn dt)) /\
  is_RInt (fun t => sin (foi_x w evm evn * t)) 0 dt (snd (foi_entry RO thr w evm evn dt)).
Proof. exact foi_exact. Qed.
Print Assumptions C01_foi_exact.

(* Segment integral, small-denominator (Taylor) branch: error at most |dt| thr^2/2 and |dt| thr/2. *)
Theorem C01_foi_taylor_bound : forall thr w evm evn dt,
  Rabs (foi_x w evm evn * dt) <= thr ->
  exists Ic Is, is_RInt (fun t => cos (foi_x w evm evn * t)) 0 dt Ic /\
                is_RInt (fun t => sin (foi_x w evm evn * t)) 0 dt Is /\
                Rabs (fst (foi_entry RO thr w evm evn dt) - Ic) <= Rabs dt * (thr * thr / 2) /\
                Rabs (snd (foi_entry RO thr w evm evn dt) - Is) <= Rabs dt * (thr / 2).
Proof. exact foi_taylor_bound. Qed.
Print Assumptions C01_foi_taylor_bound.

(* No division by zero under the mask (the "no NaN / infinity" clause at model level). *)
Theorem C01_masked_div_safe : forall thr x dt, 0 <= thr -> thr < Rabs (x * dt) -> x <> 0.
Proof. exact masked_div_safe. Qed.
Print Assumptions C01_masked_div_safe.

(* ------------------------------------------------------------------------------------------------
   Headline: the control matrix equals the defining time-ordered integral.
   Vocabulary (Proofs/CMBase.v, Proofs/CMIntegral.v):
     is_CInt f a b I        real and imaginary part of I are the Riemann integrals of those of f over [a,b]
     Useg d ev V Q tau      V e^{-i diag(ev) tau} V^dagger Q : propagator tau after the start of a segment
     seg_integrand .. t     e^{iwt} s tr( U(t - tg)^dagger N U(t - tg) C )
     pulse_segs .. j        the segments (ev_g, V_g, dt_g, s_j^g) of the pulse for noise operator j
     pulse_U / pulse_s      propagator / sensitivity of the whole pulse at time t (piecewise)
     cm_integrand .. t      e^{iwt} s_j(t) tr( U(t)^dagger N_j U(t) C_k )
     all_masked d thr w ev dt   no entry of the segment integral is on the Taylor branch
     step_weight, segs_bound    sum_mn |(V^dagger N V)_mn| |(W^dagger C W)_nm| and its weighted sum over segments
   ------------------------------------------------------------------------------------------------ *)

(* Integrand expansion: tr(U(tau)^dagger N U(tau) C) = sum_mn (V^dagger N V)_mn (W^dagger C W)_nm e^{i(ev_m - ev_n) tau},
   W = Q^dagger V; purely algebraic (no unitarity needed). *)
Theorem C01_integrand_expansion : forall d ev V Q N Cm tau,
  mtrprod RO d (transform_by_unitary RO d (Useg d ev V Q tau) N) Cm =
  csumn RO d (fun m => csumn RO d (fun n =>
    cmul RO (cmul RO (mget RO (transform_by_unitary RO d V N) m n) (cexp RO ((vg RO ev m - vg RO ev n) * tau)))
            (mget RO (transform_by_unitary RO d (mmul RO d (madj RO d Q) V) Cm) n m))).
Proof. exact integrand_expansion. Qed.
Print Assumptions C01_integrand_expansion.

(* One segment, no entry on the Taylor branch: entry [j][k][o] of cm_step IS the integral over the segment. *)
Theorem C01_segment_integral : forall d thr ev V Q tg dt om bs ns nc j k o,
  0 <= thr -> (j < length ns)%nat -> (k < length bs)%nat -> (o < length om)%nat ->
  all_masked d thr (vg RO om o) ev dt ->
  is_CInt (seg_integrand d ev V Q tg (vg RO om o) (vg RO nc j) (nthm ns j) (nthm bs k)) tg (tg + dt)
          (a3get RO (cm_step RO d thr ev V Q tg dt om bs ns nc) j k o).
Proof. exact cm_step_is_integral. Qed.
Print Assumptions C01_segment_integral.

(* One segment, any frequency: distance to the integral at most |s_j| (thr/2 + thr^2/2) |dt| sum_mn |..||..|. *)
Theorem C01_segment_integral_bound : forall d thr ev V Q tg dt om bs ns nc j k o,
  0 <= thr -> (j < length ns)%nat -> (k < length bs)%nat -> (o < length om)%nat ->
  exists I, is_CInt (seg_integrand d ev V Q tg (vg RO om o) (vg RO nc j) (nthm ns j) (nthm bs k)) tg (tg + dt) I /\
    Cmod (csub RO (a3get RO (cm_step RO d thr ev V Q tg dt om bs ns nc) j k o) I)
    <= Rabs (vg RO nc j) * taylor_eps thr * Rabs dt * step_weight d V Q (nthm ns j) (nthm bs k).
Proof. exact cm_step_integral_bound. Qed.
Print Assumptions C01_segment_integral_bound.

(* Whole pulse (any number of segments, durations >= 0, propagators as computed by the package from the
   spectral data): entry [j][k][o] of the control matrix is within segs_bound of
   int_0^tau e^{iwt} s_j(t) tr(U(t)^dagger N_j U(t) C_k) dt, and EQUAL to it when no segment has an entry on
   the Taylor branch. *)
Theorem C01_control_matrix_integral : forall d thr evs Vs dts om bs ns nc j k o,
  0 <= thr -> (forall g, (g < length dts)%nat -> 0 <= nth g dts 0) ->
  (j < length ns)%nat -> (k < length bs)%nat -> (o < length om)%nat ->
  let segs := pulse_segs evs Vs dts nc j in
  let B := a3get RO (control_matrix_from_scratch RO d thr evs Vs (propagators RO d evs Vs dts) om bs ns nc dts (times RO dts)) j k o in
  exists I, is_CInt (cm_integrand d segs (mid RO d) 0 (vg RO om o) (nthm ns j) (nthm bs k)) 0 (segs_tau segs) I /\
            Cmod (csub RO B I) <= segs_bound d thr segs (mid RO d) (nthm ns j) (nthm bs k) /\
            ((forall g, (g < length dts)%nat -> all_masked d thr (vg RO om o) (nth g evs nil) (nth g dts 0)) -> B = I).
Proof. exact control_matrix_integral. Qed.
Print Assumptions C01_control_matrix_integral.

(* the upper limit of the integral is the pulse duration sum(dt) when the lists have equal lengths *)
Theorem C01_upper_limit : forall evs Vs dts nc j,
  length evs = length dts -> length Vs = length dts ->
  segs_tau (pulse_segs evs Vs dts nc j) = sumlist RO dts.
Proof. exact pulse_segs_tau. Qed.

(* the spectral hypothesis (every V_g unitary) makes U(t) a unitary path starting at the identity *)
Theorem C01_pulse_U_unitary : forall d segs Q t0 t,
  List.Forall (fun sg : seg => let '(_, V, _, _) := sg in funitary d (toF V)) segs -> funitary d (toF Q) ->
  funitary d (toF (pulse_U d segs Q t0 t)).
Proof. exact pulse_U_unitary. Qed.
Print Assumptions C01_pulse_U_unitary.

(* the hypothesis "no entry on the Taylor branch" is satisfiable *)
Example C01_all_masked_satisfiable : all_masked 2 (/ 10000000) (/ 2) (0 :: 1 :: nil) 1.
Proof. exact all_masked_example. Qed.

(* Filter function F_ab(w) = sum_k conj(B_ak) B_bk: Hermitian and positive semidefinite in (a,b), real
   non-negative diagonal -- for ANY array B (in particular the control matrix of the model). *)
Theorem C01_ff_hermitian : forall na nk no Bm a b o, (a < na)%nat -> (b < na)%nat -> (o < no)%nat ->
  a3get RO (filter_function RO na nk no Bm) a b o = cconj RO (a3get RO (filter_function RO na nk no Bm) b a o).
Proof. exact ff_hermitian. Qed.
Print Assumptions C01_ff_hermitian.

Theorem C01_ff_psd : forall na nk no Bm (x : nat -> C (T:=R)) o, (o < no)%nat ->
  let q := csumn RO na (fun a => csumn RO na (fun b =>
     cmul RO (cmul RO (cconj RO (x a)) (a3get RO (filter_function RO na nk no Bm) a b o)) (x b))) in
  0 <= fst q /\ snd q = 0.
Proof. exact ff_psd. Qed.
Print Assumptions C01_ff_psd.

Theorem C01_ff_quadratic_form : forall na nk no Bm (x : nat -> C (T:=R)) o, (o < no)%nat ->
  csumn RO na (fun a => csumn RO na (fun b =>
     cmul RO (cmul RO (cconj RO (x a)) (a3get RO (filter_function RO na nk no Bm) a b o)) (x b))) =
  cofr RO (sumn RO nk (fun k => cabs2 RO (csumn RO na (fun a => cmul RO (x a) (a3get RO Bm a k o))))).
Proof. exact ff_quadratic_form. Qed.

Theorem C01_ff_diag_nonneg : forall na nk no Bm a o, (a < na)%nat -> (o < no)%nat ->
  a3get RO (filter_function RO na nk no Bm) a a o = cofr RO (sumn RO nk (fun k => cabs2 RO (a3get RO Bm a k o))).
Proof. exact ff_diag_nonneg. Qed.
Print Assumptions C01_ff_diag_nonneg.

(* A-priori form of the error bound (every V_g unitary): sum_mn |..||..| <= ||N||_F ||C||_F by Cauchy-Schwarz and
   unitary invariance of the Frobenius norm, hence
   |B_jk(w) - integral| <= (thr/2 + thr^2/2) (sum_g |s_j^g| |dt_g|) ||N_j||_F ||C_k||_F, in every time unit. *)
Theorem C01_step_weight_le_norms : forall d V Q N Cm, funitary d (toF V) -> funitary d (toF Q) ->
  step_weight d V Q N Cm <= Fnorm d N * Fnorm d Cm.
Proof. exact step_weight_le_norms. Qed.
Print Assumptions C01_step_weight_le_norms.

Theorem C01_control_matrix_apriori_bound : forall d thr evs Vs dts om bs ns nc j k o,
  0 <= thr -> (forall g, (g < length dts)%nat -> 0 <= nth g dts 0) ->
  (forall g, (g < length dts)%nat -> funitary d (toF (nth g Vs nil))) ->
  (j < length ns)%nat -> (k < length bs)%nat -> (o < length om)%nat ->
  let segs := pulse_segs evs Vs dts nc j in
  let B := a3get RO (control_matrix_from_scratch RO d thr evs Vs (propagators RO d evs Vs dts) om bs ns nc dts (times RO dts)) j k o in
  exists I, is_CInt (cm_integrand d segs (mid RO d) 0 (vg RO om o) (nthm ns j) (nthm bs k)) 0 (segs_tau segs) I /\
            Cmod (csub RO B I) <= taylor_eps thr * segs_sdt segs * (Fnorm d (nthm ns j) * Fnorm d (nthm bs k)).
Proof. exact control_matrix_integral_apriori. Qed.
Print Assumptions C01_control_matrix_apriori_bound.

(* For the threshold literal of the CURRENT source (regenerated Extracted/Src.v): 0 <= thr and thr/2 + thr^2/2 <= 6e-8. *)
Theorem C01_threshold_of_source : 0 <= foi_thr_R /\ taylor_eps foi_thr_R <= 6 / 100000000.
Proof. exact foi_thr_eps. Qed.
Print Assumptions C01_threshold_of_source.

(* Negative frequencies: for a Hermitian noise operator and a Hermitian basis element, B_jk(-w) = conj B_jk(w);
   hence F(-w) = conj F(w) entrywise when all of them are Hermitian. *)
Theorem C01_cm_neg_freq : forall d thr evs Vs Qs om bs ns nc dts ts j k o,
  (j < length ns)%nat -> (k < length bs)%nat -> (o < length om)%nat ->
  fherm d (toF (nthm ns j)) -> fherm d (toF (nthm bs k)) ->
  a3get RO (control_matrix_from_scratch RO d thr evs Vs Qs (map Ropp om) bs ns nc dts ts) j k o =
  cconj RO (a3get RO (control_matrix_from_scratch RO d thr evs Vs Qs om bs ns nc dts ts) j k o).
Proof. exact cm_neg_freq. Qed.
Print Assumptions C01_cm_neg_freq.

Theorem C01_ff_conj : forall na nk no (Bm Bm' : Arr3 (T:=R)) a b o, (a < na)%nat -> (b < na)%nat -> (o < no)%nat ->
  (forall a' k, (a' < na)%nat -> (k < nk)%nat -> a3get RO Bm' a' k o = cconj RO (a3get RO Bm a' k o)) ->
  a3get RO (filter_function RO na nk no Bm') a b o = cconj RO (a3get RO (filter_function RO na nk no Bm) a b o).
Proof. exact ff_conj. Qed.

(* Size: |B_jk(w)| <= (sum_g |s_j^g| |dt_g|) ||N_j||_F ||C_k||_F for every frequency (every V_g unitary). *)
Theorem C01_control_matrix_entry_bound : forall d thr evs Vs dts om bs ns nc j k o,
  0 <= thr -> (forall g, (g < length dts)%nat -> funitary d (toF (nth g Vs nil))) ->
  (j < length ns)%nat -> (k < length bs)%nat -> (o < length om)%nat ->
  Cmod (a3get RO (control_matrix_from_scratch RO d thr evs Vs (propagators RO d evs Vs dts) om bs ns nc dts (times RO dts)) j k o)
  <= segs_sdt (pulse_segs evs Vs dts nc j) * (Fnorm d (nthm ns j) * Fnorm d (nthm bs k)).
Proof. exact control_matrix_entry_bound. Qed.
Print Assumptions C01_control_matrix_entry_bound.

(* Diagonal of the fidelity filter function, orthonormal (possibly incomplete, not necessarily Hermitian) basis, every
   V_g unitary: F_aa(w) is real and 0 <= F_aa(w) <= (sum_g |s_a^g| |dt_g|)^2 ||N_a||_F^2 for every frequency
   (B_ak = tr(X C_k) for one matrix X; Bessel's inequality; triangle inequality and unitary invariance of ||.||_F). *)
Theorem C01_ff_diag_bound : forall d thr evs Vs dts om bs ns nc a o,
  0 <= thr -> basis_orthonormal d bs ->
  (forall g, (g < length dts)%nat -> funitary d (toF (nth g Vs nil))) ->
  (a < length ns)%nat -> (o < length om)%nat ->
  let B := control_matrix_from_scratch RO d thr evs Vs (propagators RO d evs Vs dts) om bs ns nc dts (times RO dts) in
  let F := filter_function RO (length ns) (length bs) (length om) B in
  snd (a3get RO F a a o) = 0 /\
  0 <= fst (a3get RO F a a o) <=
       (segs_sdt (pulse_segs evs Vs dts nc a) * Fnorm d (nthm ns a)) * (segs_sdt (pulse_segs evs Vs dts nc a) * Fnorm d (nthm ns a)).
Proof. exact ff_diag_bound. Qed.
Print Assumptions C01_ff_diag_bound.

Import ListNotations.
Example C01_basis_orthonormal_satisfiable : basis_orthonormal 2 [[[1c; 0c]; [0c; 0c]]; [[0c; 0c]; [0c; 1c]]].
Proof. exact basis_orthonormal_example. Qed.

(* U(t) of C01_control_matrix_integral is literally the time-ordered evolution (link to C02, Proofs/Propagator.v):
   for t in segment g (t_g <= t < t_{g+1}) the path pulse_U coincides with U_ g t = e^{-i H_g (t - t_g)} Q_g where
   H_g = V_g diag(ev_g) V_g^dagger is Hermitian with the cached eigenpairs; U_ g solves i dU/dt = H_g U (entrywise
   derivative, cderive), U_ 0 0 = 1, U_ g (t_g) = Q_g and U_ g (t_{g+1}) = Q_{g+1} (continuity across the edges;
   Q = propagators of the package).  Hypotheses: equal lengths, every V_g unitary (eigh oracle), dt >= 0. *)
Theorem C01_U_is_time_ordered_evolution : forall d evs Vs dts,
  length Vs = length evs -> length dts = length evs ->
  (forall g, (g < length evs)%nat -> funitary d (toF (nth g Vs nil))) ->
  (forall g, (g < length dts)%nat -> 0 <= nth g dts 0) ->
  forall nc j g t, (g < length evs)%nat ->
  nth g (times RO dts) 0 <= t < nth (S g) (times RO dts) 0 ->
  feq d (toF (pulse_U d (pulse_segs evs Vs dts nc j) (mid RO d) 0 t)) (U_ d evs Vs dts g t) /\
  (forall i k, (i < d)%nat -> (k < d)%nat ->
     cderive (fun s => U_ d evs Vs dts g s i k) t
             (fscal (cneg RO (ci RO)) (fmul d (H_ d evs Vs g) (U_ d evs Vs dts g t)) i k)) /\
  feq d (U_ d evs Vs dts 0 0) fid /\
  feq d (U_ d evs Vs dts g (nth g (times RO dts) 0)) (toF (nth g (propagators RO d evs Vs dts) nil)) /\
  feq d (U_ d evs Vs dts g (nth (S g) (times RO dts) 0)) (toF (nth (S g) (propagators RO d evs Vs dts) nil)) /\
  fherm d (H_ d evs Vs g) /\
  feq d (fmul d (H_ d evs Vs g) (toF (nth g Vs nil))) (fmul d (toF (nth g Vs nil)) (fdiagv (fun k => cofr RO (vg RO (nth g evs nil) k)))).
Proof. exact pulse_U_evolution. Qed.
Print Assumptions C01_U_is_time_ordered_evolution.

(* Independence of the eigen-decomposition (with agent-c03's Proofs/EigIndep.v): the control matrix and the filter function
   do not depend on WHICH valid decomposition eigh returns for each segment -- same_segs: segment by segment both (V, ev) and
   (V', ev') are unitary diagonalisations of the same Hermitian matrix; degenerate spectra, orderings, phases are free.
   Together with C01_control_matrix_integral the value is therefore a function of the Hamiltonians alone. *)
Theorem C01_cm_eig_independent : forall d thr evs Vs evs' Vs' dts om bs ns nc,
  EigIndep.same_segs d evs Vs evs' Vs' ->
  control_matrix_from_scratch RO d thr evs Vs (propagators RO d evs Vs dts) om bs ns nc dts (times RO dts) =
  control_matrix_from_scratch RO d thr evs' Vs' (propagators RO d evs' Vs' dts) om bs ns nc dts (times RO dts).
Proof. exact cm_array_eig_independent. Qed.
Print Assumptions C01_cm_eig_independent.

Theorem C01_ff_eig_independent : forall d thr evs Vs evs' Vs' dts om bs ns nc,
  EigIndep.same_segs d evs Vs evs' Vs' ->
  filter_function RO (length ns) (length bs) (length om)
    (control_matrix_from_scratch RO d thr evs Vs (propagators RO d evs Vs dts) om bs ns nc dts (times RO dts)) =
  filter_function RO (length ns) (length bs) (length om)
    (control_matrix_from_scratch RO d thr evs' Vs' (propagators RO d evs' Vs' dts) om bs ns nc dts (times RO dts)).
Proof. exact ff_eig_independent. Qed.
Print Assumptions C01_ff_eig_independent.

Example C01_same_H_satisfiable : EigIndep.same_H 2 [1; 1] exI [1; 1] exRot.
Proof. exact same_H_satisfiable. Qed.

(* ------------------------------------------------------------------------------------------------
   Semantic tie of the small kernels (Proofs/KernelTie.v).  Extracted/Kernels.v is regenerated on every run by
   tools/kernel_extract.py: a per-entry symbolic execution of the CURRENT Python bodies (NumPy buffers with out= /
   where=mask, .real / .imag views, boolean-mask assignment, einsum strings as nested sums, util.* calls inlined).
   The theorems state that the translated terms ARE the model functions the theorems above are about, so an edit of
   a kernel that changes its meaning breaks the obligation named after it, and an edit that keeps it (renamed locals,
   split statements) does not.  ge_re .. gi_im are the contents of the work buffers exp_buf / int_buf on entry: the
   result does not depend on them.
   ------------------------------------------------------------------------------------------------ *)
From FF Require Import Extracted.Kernels Proofs.KernelTie.

Theorem C01_kernels_translated : kernel_untranslated_C01 = nil.
Proof. exact kernels_translated. Qed.

Theorem C01_kernel_foi_is_source : forall thr w evm evn dt ge_re ge_im gi_re gi_im, 0 <= thr ->
  foi_entry_src RO thr w evm evn dt ge_re ge_im gi_re gi_im = foi_entry RO thr w evm evn dt.
Proof. exact foi_entry_is_source. Qed.
Print Assumptions C01_kernel_foi_is_source.

(* with the literal of the source's mask expression (no hypothesis left) *)
Theorem C01_kernel_foi_is_source_at_literal : forall w evm evn dt ge_re ge_im gi_re gi_im,
  foi_entry_src_at_lits RO w evm evn dt ge_re ge_im gi_re gi_im = foi_entry RO foi_thr_R w evm evn dt.
Proof. exact foi_entry_is_source_at_literal. Qed.
Print Assumptions C01_kernel_foi_is_source_at_literal.

Theorem C01_kernel_foi_literal : foi_entry_src_lit_thr = foi_thr.
Proof. exact foi_literal_is_model_constant. Qed.

Theorem C01_kernel_foi_array_is_source : forall d thr w ev dt (ge gi : nat -> nat -> C (T:=R)), 0 <= thr ->
  mbuild d d (fun m n => foi_entry_src RO thr w (vg RO ev m) (vg RO ev n) dt
                           (fst (ge m n)) (snd (ge m n)) (fst (gi m n)) (snd (gi m n))) = foi RO d thr w ev dt.
Proof. exact foi_is_source. Qed.

Theorem C01_kernel_trapz_is_source : forall fl xl : list R, length xl = length fl ->
  trapz RO fl xl = trapz_src RO (length fl) (fun i => vget RO fl i) (fun i => vget RO xl i).
Proof. exact trapz_is_source. Qed.
Print Assumptions C01_kernel_trapz_is_source.

Theorem C01_kernel_cexp_is_source : forall x : R, cexp_entry_src RO x = cexp RO x.
Proof. exact cexp_is_source. Qed.

Theorem C01_kernel_ff_is_source : forall na nk no (Bm : Arr3 (T:=R)) a b o, (a < na)%nat -> (b < na)%nat -> (o < no)%nat ->
  a3get RO (filter_function RO na nk no Bm) a b o = ff_entry_src RO nk (fun a' k o' => a3get RO Bm a' k o') a b o.
Proof. exact ff_is_source. Qed.
Print Assumptions C01_kernel_ff_is_source.

Theorem C01_kernel_ffgen_is_source : forall (Bm : Arr3 (T:=R)) a b k l o,
  ff_gen_entry RO Bm a b k l o = ffgen_entry_src RO (fun a' k' o' => a3get RO Bm a' k' o') a b k l o.
Proof. exact ffgen_is_source. Qed.

(* numeric._transform_by_unitary: two np.matmul calls through the buffer `out` (the second reads and writes it) = U^dagger A U *)
Theorem C01_kernel_tbu_is_source : forall d (U : Mat (T:=R)) (As : list (Mat (T:=R))) b i j, (i < d)%nat -> (j < d)%nat ->
  mget RO (transform_by_unitary RO d U (nthm As b)) i j =
  tbu_entry_src RO d (fun i' j' => mget RO U i' j') (fun b' i' j' => mget RO (nthm As b') i' j') b i j.
Proof. exact tbu_is_source. Qed.
Print Assumptions C01_kernel_tbu_is_source.

Theorem C01_kernel_tbu_alloc_is_source : forall d (U A : Mat (T:=R)) i j, (i < d)%nat -> (j < d)%nat ->
  mget RO (transform_by_unitary RO d U A) i j =
  tbu_alloc_entry_src RO d (fun i' j' => mget RO U i' j') (fun i' j' => mget RO A i' j') i j.
Proof. exact tbu_alloc_is_source. Qed.

(* numeric.calculate_control_matrix_from_atomic, which = 'total': the accumulation loop over the pulses *)
Theorem C01_kernel_cm_atomic_is_source : forall na nk no (phases : list (list (C (T:=R)))) (cms : list (Arr3 (T:=R)))
    (Ls : list (list (list R))) a k o, (a < na)%nat -> (k < nk)%nat -> (o < no)%nat ->
  a3get RO (cm_from_atomic RO na nk no phases cms Ls) a k o =
  cm_atomic_entry_src RO (length cms) nk
    (fun g o' => nth o' (nth g phases nil) (c0 RO))
    (fun g a' j o' => a3get RO (nth g cms nil) a' j o')
    (fun g j k' => rget RO (nth g Ls nil) j k') a k o.
Proof. exact cm_atomic_is_source. Qed.
Print Assumptions C01_kernel_cm_atomic_is_source.

(* numeric._propagate_eigenvectors / numeric._transform_hamiltonian *)
Theorem C01_kernel_propagate_eigvecs_is_source : forall d (Qf Vf : nat -> nat -> nat -> C (T:=R)) (Qm Vm : Mat (T:=R)) g a b,
  (forall x y, (x < d)%nat -> (y < d)%nat -> Qf g x y = mget RO Qm x y) ->
  (forall x y, (x < d)%nat -> (y < d)%nat -> Vf g x y = mget RO Vm x y) -> (a < d)%nat -> (b < d)%nat ->
  propagate_eigvecs_entry_src RO d Qf Vf g a b = mget RO (mmul RO d (madj RO d Qm) Vm) a b.
Proof. exact propagate_eigvecs_is_source. Qed.

Theorem C01_kernel_transform_hamiltonian_is_source : forall d (Vs ns : list (Mat (T:=R))) (nc : list (list R)) j g m n,
  (m < d)%nat -> (n < d)%nat ->
  transform_hamiltonian_entry_src RO d (fun g' a b => mget RO (nth g' Vs nil) a b) (fun j' a b => mget RO (nthm ns j') a b)
     (fun j' g' => vg RO (nthv nc j') g') j g m n =
  cscal RO (vg RO (nthv nc j) g) (mget RO (transform_by_unitary RO d (nth g Vs nil) (nthm ns j)) m n).
Proof. exact transform_hamiltonian_is_source. Qed.

(* numeric.calculate_control_matrix_from_scratch, the whole function (allocation of the buffers, _propagate_eigenvectors,
   _transform_hamiltonian, the loop over the segments with the per-segment transformation of the basis, the phase factors,
   _first_order_integral, the contraction 'o,jmn,omn,knm->jko' and the accumulation): entry [j][k][o] of the returned array IS
   the model's control_matrix_from_scratch at the threshold literal of the source, for any contents of the uninitialised
   buffers and any state left in the work buffers by earlier iterations (junk).  cache_intermediates False / True. *)
Theorem C01_kernel_cm_scratch_is_source : forall d evs Vs Qs bs ns om dts ts nc junk j k o,
  length evs = length dts -> length Vs = length dts -> (length dts <= length Qs)%nat -> (length dts <= length ts)%nat ->
  (j < length ns)%nat -> (k < length bs)%nat -> (o < length om)%nat ->
  a3get RO (control_matrix_from_scratch RO d foi_thr_R evs Vs Qs om bs ns nc dts ts) j k o =
  cm_scratch_entry_src RO d (length dts)
    (fun g m => vg RO (nth g evs nil) m) (fun g a b => mget RO (nth g Vs nil) a b) (fun g a b => mget RO (nth g Qs nil) a b)
    (fun k' a b => mget RO (nthm bs k') a b) (fun j' a b => mget RO (nthm ns j') a b)
    (fun o' => vg RO om o') (fun g => vg RO dts g) (fun g => vg RO ts g) (fun j' g => vg RO (nthv nc j') g) junk j k o.
Proof. exact cm_scratch_is_source. Qed.
Print Assumptions C01_kernel_cm_scratch_is_source.

Theorem C01_kernel_cm_scratch_cache_is_source : forall d evs Vs Qs bs ns om dts ts nc junk j k o,
  length evs = length dts -> length Vs = length dts -> (length dts <= length Qs)%nat -> (length dts <= length ts)%nat ->
  (j < length ns)%nat -> (k < length bs)%nat -> (o < length om)%nat ->
  a3get RO (control_matrix_from_scratch RO d foi_thr_R evs Vs Qs om bs ns nc dts ts) j k o =
  cm_scratch_cache_entry_src RO d (length dts)
    (fun g m => vg RO (nth g evs nil) m) (fun g a b => mget RO (nth g Vs nil) a b) (fun g a b => mget RO (nth g Qs nil) a b)
    (fun k' a b => mget RO (nthm bs k') a b) (fun j' a b => mget RO (nthm ns j') a b)
    (fun o' => vg RO om o') (fun g => vg RO dts g) (fun g => vg RO ts g) (fun j' g => vg RO (nthv nc j') g) junk j k o.
Proof. exact cm_scratch_cache_is_source. Qed.
