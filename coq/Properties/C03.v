(* C03 -- concatenation reproduces the from-scratch result of the sequenced pulse.
   This file contains only statements closed by [exact <lemma>] and their assumptions. *)
From Coq Require Import ZArith Reals List.
From FF Require Import Base.Ops Inst.RInst Base.RAlg Model.Numeric Model.Consts Model.Atomic Model.Concat Model.Tie.C03
                       Proofs.AtomicAlg Proofs.Atomic Proofs.AtomicPC Proofs.EigIndep Proofs.Concat Proofs.ConcatRows Proofs.ConcatInst
                       Inst.IInst Inst.Param Inst.EnclosureC03.
Import ListNotations.

(* ---------------------------------------------------------------------------------------------------
   The atomic rule.  For every number of pulses, every frequency and every complete Hermitian basis the
   control matrix computed from scratch for the sequenced pulse (spectral data played one after another,
   propagators and times recomputed by the model) equals what calculate_control_matrix_from_atomic
   returns for the data concatenate hands to it (phases by cumulative product of the total phases,
   Liouville propagators by cumulative matrix product, control matrices of the pieces from scratch).   *)
Theorem C03_atomic_rule :
  forall (d : nat) (thr : R) (om : list R) (bs ns : list (Mat (T:=R))),
    (forall l, (l < length bs)%nat -> fherm d (Cf bs l)) ->
    (forall X : fmat, feq d X (flin (length bs) (fun l => ftr d (fmul d (Cf bs l) X)) (Cf bs))) ->
    forall (ps : list (piece (T:=R))) (a k o : nat),
      Forall (wf_piece ns) ps -> (a < length ns)%nat -> (k < length bs)%nat -> (o < length om)%nat ->
      a3get RO (piece_cm RO d thr om bs ns (cat_piece (length ns) ps)) a k o =
      a3get RO (concat_atomic RO d thr om bs ns ps) a k o.
Proof. exact atomic_rule. Qed.
Print Assumptions C03_atomic_rule.

(* the hypotheses on the basis hold for the normalised Pauli basis (d = 2) ... *)
Theorem C03_atomic_rule_pauli :
  forall thr om ns ps a k o, Forall (wf_piece ns) ps ->
    (a < length ns)%nat -> (k < 4)%nat -> (o < length om)%nat ->
    a3get RO (piece_cm RO 2 thr om pauli_basis ns (cat_piece (length ns) ps)) a k o =
    a3get RO (concat_atomic RO 2 thr om pauli_basis ns ps) a k o.
Proof. exact atomic_rule_pauli. Qed.
Print Assumptions C03_atomic_rule_pauli.
(* ... and the well-formedness hypothesis for a concrete pair of pieces with non-commuting segments *)
Example C03_atomic_rule_hyps_satisfiable : Forall (wf_piece ex_ns) [ex_p1; ex_p2].
Proof. exact atomic_rule_hyps_satisfiable. Qed.

(* Independence of the eigen-decomposition oracle.  For two unitary decompositions of the same Hermitian matrix per
   segment (V diag(ev) V^dagger = V' diag(ev') V'^dagger; degenerate spectra, other orderings, other phases) the
   segment propagators, the total propagator and every entry of the from-scratch control matrix coincide ... *)
Theorem C03_cm_eig_independent :
  forall d thr om bs ns (p q : piece (T:=R)) a k o,
    (a < length ns)%nat -> (k < length bs)%nat -> (o < length om)%nat ->
    same_segs d (pc_evs p) (pc_Vs p) (pc_evs q) (pc_Vs q) -> pc_dts q = pc_dts p -> pc_nc q = pc_nc p ->
    a3get RO (piece_cm RO d thr om bs ns p) a k o = a3get RO (piece_cm RO d thr om bs ns q) a k o.
Proof. exact cm_eig_independent. Qed.
Theorem C03_total_eig_independent :
  forall d evs Vs evs' Vs', same_segs d evs Vs evs' Vs' ->
  forall dts Q Q', feq d (toF Q) (toF Q') -> feq d (toF (cum_last d evs Vs dts Q)) (toF (cum_last d evs' Vs' dts Q')).
Proof. exact total_eig_independent. Qed.
(* ... hence the atomic rule holds for the concatenated pulse's OWN eigh result q, not only for the concatenation
   of the inputs' spectral data *)
Theorem C03_atomic_rule_own_eig :
  forall d thr om bs ns (ps : list (piece (T:=R))) (q : piece (T:=R)) a k o,
    (forall l, (l < length bs)%nat -> fherm d (Cf bs l)) ->
    (forall X : fmat, feq d X (flin (length bs) (fun l => ftr d (fmul d (Cf bs l) X)) (Cf bs))) ->
    Forall (wf_piece ns) ps ->
    same_segs d (pc_evs (cat_piece (length ns) ps)) (pc_Vs (cat_piece (length ns) ps)) (pc_evs q) (pc_Vs q) ->
    pc_dts q = pc_dts (cat_piece (length ns) ps) -> pc_nc q = pc_nc (cat_piece (length ns) ps) ->
    (a < length ns)%nat -> (k < length bs)%nat -> (o < length om)%nat ->
    a3get RO (piece_cm RO d thr om bs ns q) a k o = a3get RO (concat_atomic RO d thr om bs ns ps) a k o.
Proof. exact atomic_rule_own_eig. Qed.
Print Assumptions C03_atomic_rule_own_eig.
Example C03_same_H_satisfiable : same_H 2 [1; 1]%R exI [1; 1]%R exRot.
Proof. exact same_H_satisfiable. Qed.

(* regrouping (associativity, `@`, slicing a pulse and re-concatenating the pieces): concatenating a
   sub-list first gives the same control matrix *)
Theorem C03_concat_assoc_cm :
  forall ns d thr om bs ps1 ps2 ps3 a k o,
    (forall l, (l < length bs)%nat -> fherm d (Cf bs l)) ->
    (forall X : fmat, feq d X (flin (length bs) (fun l => ftr d (fmul d (Cf bs l) X)) (Cf bs))) ->
    Forall (wf_piece ns) ps1 -> Forall (wf_piece ns) ps2 -> Forall (wf_piece ns) ps3 ->
    (a < length ns)%nat -> (k < length bs)%nat -> (o < length om)%nat ->
    a3get RO (concat_atomic RO d thr om bs ns (ps1 ++ cat_piece (length ns) ps2 :: ps3)) a k o =
    a3get RO (concat_atomic RO d thr om bs ns (ps1 ++ ps2 ++ ps3)) a k o.
Proof. exact concat_assoc_cm. Qed.
Print Assumptions C03_concat_assoc_cm.

(* total propagator of the sequenced pulse = ordered product P_n ... P_1 (util.mdot of the reversed list) *)
Theorem C03_total_propagator_concat :
  forall d na ps, Forall wf_spec ps ->
    feq d (toF (piece_total RO d (cat_piece na ps))) (toF (mdot_rev RO d (map (piece_total RO d) ps))).
Proof. exact total_propagator_concat. Qed.

(* pulse correlations: the per-pulse control matrices (which = 'correlations') sum to the total one, and the
   pulse-correlation filter functions sum over both pulse indices to the filter function, for both kinds *)
Theorem C03_pc_total :
  forall d thr om bs ns ps a k o, (a < length ns)%nat -> (k < length bs)%nat -> (o < length om)%nat ->
    a3get RO (cm_pc_total RO (length ns) (length bs) (length om) (concat_atomic_pc RO d thr om bs ns ps)) a k o =
    a3get RO (concat_atomic RO d thr om bs ns ps) a k o.
Proof. exact concat_pc_total. Qed.
Theorem C03_pc_sum_fidelity :
  forall na nk no Bpc a b o, (a < na)%nat -> (b < na)%nat -> (o < no)%nat ->
    a3get RO (pc_ff_sum RO na no (pc_filter_function RO na nk no Bpc)) a b o =
    a3get RO (filter_function RO na nk no (cm_pc_total RO na nk no Bpc)) a b o.
Proof. exact pc_sum_fidelity. Qed.
Theorem C03_pc_sum_generalized :
  forall na nk no Bpc a b k l o, (a < na)%nat -> (b < na)%nat -> (k < nk)%nat -> (l < nk)%nat -> (o < no)%nat ->
    csumn RO (length Bpc) (fun g => csumn RO (length Bpc) (fun h => pc_ff_gen_entry RO Bpc g h a b k l o)) =
    ff_gen_entry RO (cm_pc_total RO na nk no Bpc) a b k l o.
Proof. exact pc_sum_generalized. Qed.
Print Assumptions C03_pc_sum_fidelity.

(* ---------------------------------------------------------------------------------------------------
   Hamiltonian concatenation (Model/Concat.v [concatenate_hamiltonian] = the instance [current] of the
   mechanisms, compared exactly with the implementation).  For any operator type with decidable equality:  *)
Section Hamiltonian.
Variables (oper coef : Type) (oeqb : oper -> oper -> bool) (ceqb : coef -> coef -> bool) (czero : coef).
Hypothesis oeqb_spec : forall a b, Bool.reflect (a = b) (oeqb a b).

(* success: operators = the distinct operators of the inputs (matched by value, each once), identifiers sorted and
   unique, every coefficient row = the pulses' windows one after another with absent windows filled by zero
   (control) or by the common constant sensitivity (noise), one identifier mapping per pulse on exactly its identifiers *)
Theorem C03_concat_hamiltonian_denote :
  forall k hs r, concatenate_hamiltonian oper coef oeqb ceqb czero k hs = inr r ->
  NoDup (r_ops r) /\
  (forall pe, In pe (flatten oper coef hs) -> In (e_op (snd pe)) (r_ops r)) /\
  (forall o, In o (r_ops r) -> exists pe, In pe (flatten oper coef hs) /\ e_op (snd pe) = o) /\
  Sorted.Sorted (fun a b => String.leb a b = true) (r_ids r) /\ NoDup (r_ids r) /\
  Forall2 (fun o row => exists c, row = List.concat (map (window oper coef oeqb c o) hs) /\ (k = Control -> c = czero) /\
             (k = Noise -> has_none (row_of oper coef oeqb hs o) = true -> somes (row_of oper coef oeqb hs o) <> [] ->
              exists rest, somes (row_of oper coef oeqb hs o) = c :: rest /\ forallb (ceqb c) rest = true))
          (r_ops r) (r_rows r) /\
  map (map fst) (r_map r) = map (fun h => map (@e_id oper coef) (h_entries h)) hs.
Proof. exact (concat_hamiltonian_denote oper coef oeqb ceqb czero oeqb_spec). Qed.

(* every identifier of every input pulse is mapped to the identifier its operator carries in the result
   (mechanism m_map_all, fix 628883f) *)
Theorem C03_mapping_sound :
  forall k hs r p e, concatenate_hamiltonian oper coef oeqb ceqb czero k hs = inr r -> In (p, e) (flatten oper coef hs) ->
    In (e_op e, mapped_id oper coef oeqb current hs p e) (combine (r_ops r) (r_ids r)).
Proof. exact (mapping_sound oper coef oeqb ceqb czero oeqb_spec). Qed.
(* ... hence the boolean masks of concatenate are consistent: as many columns as noise operators of the new pulse,
   as many selected rows as noise operators of each pulse (no IndexError / shape error) *)
Theorem C03_masks_consistent :
  forall k hs r, concatenate_hamiltonian oper coef oeqb ceqb czero k hs = inr r ->
    lens_ok (r_ids r) (r_map r) = true /\
    (Forall (fun h => NoDup (map (@e_id oper coef) (h_entries h))) hs ->
     rows_ok (r_map r) (map (fun h => length (h_entries h)) hs) = true).
Proof.
  exact (fun k hs r H => conj (lens_ok_current oper coef oeqb ceqb czero oeqb_spec k hs r H)
                              (rows_ok_current oper coef oeqb ceqb czero oeqb_spec k hs r H)).
Qed.

(* rows of the atomic path (mechanism m_rows_by_id, fix 818a95a), for EVERY input: the control-matrix row of each
   noise operator of pulse i lands in the row of the same operator of the new pulse *)
Theorem C03_rows_sound :
  forall k hs r i h row src,
    concatenate_hamiltonian oper coef oeqb ceqb czero k hs = inr r ->
    nth_error hs i = Some h -> NoDup (map (@e_id oper coef) (h_entries h)) ->
    nth_error (nth i (row_sources (r_ids r) (r_map r)) nil) row = Some (Some src) ->
    option_map (@e_op oper coef) (nth_error (h_entries h) src) = nth_error (r_ops r) row.
Proof. exact (rows_sound oper coef oeqb ceqb czero oeqb_spec). Qed.

(* compatible inputs never raise; incompatible ones raise the documented error *)
Theorem C03_concat_succeeds :
  forall k hs, oper_ids_clash oper coef oeqb hs = false ->
    has_dup_str (map (new_id oper coef oeqb hs) (uniq oper coef oeqb hs)) = false ->
    (k = Control \/ forall u, In u (uniq oper coef oeqb hs) -> inferable coef ceqb (row_of oper coef oeqb hs (e_op (snd u))) = true) ->
    exists r, concatenate_hamiltonian oper coef oeqb ceqb czero k hs = inr r.
Proof. exact (concat_succeeds oper coef oeqb ceqb czero). Qed.
Theorem C03_concat_rejects_oper_ids :
  forall k hs, oper_ids_clash oper coef oeqb hs = true -> concatenate_hamiltonian oper coef oeqb ceqb czero k hs = inl (EOperIds k).
Proof. exact (concat_rejects_oper_ids oper coef oeqb ceqb czero). Qed.
Theorem C03_oper_ids_clash_spec :
  forall hs, oper_ids_clash oper coef oeqb hs = true <->
    exists pe1 pe2, In pe1 (flatten oper coef hs) /\ In pe2 (flatten oper coef hs) /\
                    e_op (snd pe1) = e_op (snd pe2) /\ e_id (snd pe1) <> e_id (snd pe2).
Proof. exact (oper_ids_clash_spec oper coef oeqb ceqb czero oeqb_spec). Qed.
Theorem C03_concat_rejects_dup_ids :
  forall k hs, oper_ids_clash oper coef oeqb hs = false ->
    has_dup_str (map (new_id oper coef oeqb hs) (uniq oper coef oeqb hs)) = true ->
    concatenate_hamiltonian oper coef oeqb ceqb czero k hs = inl (EDupIds k).
Proof. exact (concat_rejects_dup_ids oper coef oeqb ceqb czero). Qed.
Theorem C03_concat_rejects_no_infer :
  forall hs u, oper_ids_clash oper coef oeqb hs = false ->
    has_dup_str (map (new_id oper coef oeqb hs) (uniq oper coef oeqb hs)) = false -> In u (uniq oper coef oeqb hs) ->
    inferable coef ceqb (row_of oper coef oeqb hs (e_op (snd u))) = false ->
    concatenate_hamiltonian oper coef oeqb ceqb czero Noise hs = inl ENoInfer.
Proof. exact (concat_rejects_no_infer oper coef oeqb ceqb czero). Qed.
(* the pulse position the code finds by bisect on the cumulative operator counts is the model's tag *)
Theorem C03_bisect_is_pulse_position :
  forall hs ind dflt, (ind < length (flatten oper coef hs))%nat ->
    pulse_of_index oper coef hs ind = fst (nth ind (flatten oper coef hs) dflt).
Proof. exact (bisect_is_pulse_position oper coef). Qed.

(* ---------------------------------------------------------------------------------------------------
   FULL decision soundness of concatenate for the current code, on the complete model pipeline
   (Hamiltonian concatenation, then [decide]): for pulses with unique noise identifiers (guaranteed by the
   constructor), every cache state of the inputs and every option combination, concatenate either
     - rejects incompatible inputs (shape / basis / Hamiltonian errors), or
     - raises one of the two documented ValueErrors, only when no frequencies were supplied and the cached grids
       are unknown or inconsistent, or
     - returns a pulse whose frequency-dependent attributes are all for the grid that was used (supplied, or
       cached on an input) -- never a filter function without known frequencies -- which has the pulse
       correlation filter function (also the generalized one for which = 'generalized') whenever
       calc_pulse_correlation_FF = True, and the control matrix and filter function whenever calc_filter_function = True.
   The IndexError / shape-error outcomes of the faithful row bookkeeping are excluded by C03_masks_consistent. *)
Theorem C03_decision_sound :
  forall (ps : list (pulse oper coef)) cs o, Forall (wf_pulse oper coef) ps ->
  match concatenate_outcome oper coef oeqb ceqb czero ps cs o with
  | ORaise e => incompatible e \/
                (e = EForced \/ e = ENoFreqPC) /\ o_omega o = None /\ all_equal_nat (grids_consulted cs) = false
  | ORet r => (freq_dependent r = true -> grid_known cs o r) /\ (o_pc o = true -> t_pc r = true) /\
              (o_pc o = true -> o_gen o = true -> t_pcgen r = true) /\ (o_ff o = TTrue -> t_ff r = true /\ t_cm r = true)
  | OCopy => True
  end.
Proof. exact (decision_sound oper coef oeqb ceqb czero oeqb_spec). Qed.
End Hamiltonian.
Print Assumptions C03_concat_hamiltonian_denote.
Print Assumptions C03_decision_sound.
(* the hypothesis (operator comparison decides equality) holds for the instance evaluated against the code *)
Example C03_instance_decides_equality : forall a b, Bool.reflect (a = b) (Corr.C03Obs.op_eqb a b).
Proof. exact op_eqb_spec. Qed.
Example C03_concat_example_succeeds :
  concatenate_hamiltonian nat Z Nat.eqb Z.eqb 0%Z Noise ex_hams2 = inr ex_result2.
Proof. exact concat_example_succeeds. Qed.
(* the hypotheses of C03_decision_sound are satisfiable, with every kind of outcome (see also the witnesses below) *)
Example C03_decision_sound_hyps_satisfiable :
  Forall (wf_pulse nat Z) wit_stale_shared /\ pc_available current wit_stale_shared [no_cache; no_cache; no_cache] opts_pc.
Proof. split. repeat constructor; simpl; intuition discriminate. exact (proj2 (proj2 (proj2 decision_pc_current_witnesses))). Qed.

(* Component statements about [decide] alone, for EVERY combination of the mechanisms (current and pre-fix code) *)
Theorem C03_decision_grid_sound :
  forall mc new_ids maps nn cs o r,
    decide_gen mc new_ids maps nn cs o = ORet r -> freq_dependent r = true -> grid_known cs o r.
Proof. exact decide_grid_sound. Qed.
Theorem C03_decision_raise_sound :
  forall mc new_ids maps nn cs o e,
    decide_gen mc new_ids maps nn cs o = ORaise e ->
    ((e = EForced /\ o_ff o = TTrue) \/ (e = ENoFreqPC /\ o_pc o = true)) /\ o_omega o = None /\
      all_equal_nat (grids_consulted cs) = false
    \/ e = EIndexError \/ e = EShapeError.
Proof. exact decide_raise_sound. Qed.
Theorem C03_decision_pc_current :
  forall new_ids maps nn cs o r, decide new_ids maps nn cs o = ORet r -> o_pc o = true -> t_pc r = true.
Proof. exact decide_pc_current. Qed.

(* ---------------------------------------------------------------------------------------------------
   The theorems depend on the mechanisms of the fix: commits: with one mechanism switched off (= the code before
   628883f / 1b28810 / 818a95a) the statements are FALSE (witnesses by computation); on the current code the same
   inputs behave as required.                                                                             *)
Theorem C03_decision_sound_prefix_refuted : ~ decision_sound_stmt mech_no_pc.
Proof. exact decision_sound_prefix_refuted. Qed.
Theorem C03_decision_pc_prefix_refuted_disjoint : pc_silently_missing mech_no_pc wit_disjoint [no_cache; no_cache] opts_pc.
Proof. exact decision_pc_prefix_refuted_disjoint. Qed.
Theorem C03_decision_pc_prefix_refuted_no_control_matrix :
  pc_silently_missing mech_no_pc wit_shared [omega_only; omega_only] (mkOpts TNone None false true).
Proof. exact decision_pc_prefix_refuted_no_control_matrix. Qed.
Theorem C03_decision_pc_prefix_refuted_stale_mapping :
  pc_silently_missing prefix wit_stale [no_cache; no_cache; no_cache] opts_pc.
Proof. exact decision_pc_prefix_refuted_stale_mapping. Qed.
Theorem C03_decision_prefix_refuted_stale_mapping_crash :
  w_outcome mech_no_map wit_stale [no_cache; no_cache; no_cache] opts_pc = ORaise EIndexError /\
  w_outcome mech_no_map wit_stale_shared [no_cache; no_cache; no_cache] (mkOpts TTrue (Some 0%nat) false false) = ORaise EIndexError.
Proof. exact decision_prefix_refuted_stale_mapping_crash. Qed.
Example C03_decision_pc_current_witnesses :
  pc_available current wit_disjoint [no_cache; no_cache] opts_pc /\
  pc_available current wit_shared [omega_only; omega_only] (mkOpts TNone None false true) /\
  pc_available current wit_stale [no_cache; no_cache; no_cache] opts_pc /\
  pc_available current wit_stale_shared [no_cache; no_cache; no_cache] opts_pc.
Proof. exact decision_pc_current_witnesses. Qed.
Theorem C03_mapping_prefix_refuted : ~ mapping_sound_on mech_no_map hams_ZXZ.
Proof. exact mapping_prefix_refuted. Qed.
Example C03_mapping_current_ZXZ : mapping_sound_on current hams_ZXZ.
Proof. exact mapping_current_ZXZ. Qed.
(* before the fix the stored mapping was right only for the pulse holding the operator first *)
Theorem C03_mapping_prefix_right_for_first_holder :
  forall (oper coef : Type) (oeqb : oper -> oper -> bool) (ceqb : coef -> coef -> bool) (czero : coef),
    (forall a b, Bool.reflect (a = b) (oeqb a b)) ->
    forall hs p e, oper_ids_clash oper coef oeqb hs = false -> In (p, e) (flatten oper coef hs) ->
      first_pulse oper coef oeqb hs (e_op e) = Some p ->
      exists u, In u (uniq oper coef oeqb hs) /\ e_op (snd u) = e_op e /\
                mapped_id oper coef oeqb prefix hs p e = new_id oper coef oeqb hs u.
Proof. exact mapped_id_prefix_first_holder. Qed.
Theorem C03_dup_ids_prefix_refuted : exists r, w_ham mech_no_dup hams_dup = inr r /\ has_dup_str (r_ids r) = true.
Proof. exact dup_ids_prefix_refuted. Qed.
Example C03_dup_ids_current_rejected : w_ham current hams_dup = inl (EDupIds Noise).
Proof. exact dup_ids_current_rejected. Qed.
Theorem C03_row_assignment_prefix_refuted : ~ rows_sound_on mech_no_rows hams_flip.
Proof. exact row_assignment_prefix_refuted. Qed.
Example C03_row_assignment_current_flip : rows_sound_on current hams_flip.
Proof. exact row_assignment_current_flip. Qed.

(* OPEN finding of the current code: regrouping after an identifier clash is rejected -- the flat concatenation of
   {X: Z, XY: Y}, {X: X, XY: Y}, {X: Z, XY: Y} succeeds, concatenating the first two first renames Z to X_0 and the
   outer concatenation raises 'equal operators but different identifiers' (the suffix renaming is not associative) *)
Theorem C03_regroup_after_clash_refuted :
  (exists r, w_ham current hams_regroup = inr r) /\
  exists r12, w_ham current (firstn 2 hams_regroup) = inr r12 /\
              w_ham current [ham_of 2 r12; nth 2 hams_regroup (mkHam 0 [])] = inl (EOperIds Noise).
Proof. exact regroup_after_clash_refuted. Qed.

(* Enclosure (paramcoq, kernel-checked): the atomic-path control matrix evaluated by the correspondence check on
   hardware-float intervals encloses the real-valued model value the theorems above are about (same for the
   per-pulse control matrices, both pulse-correlation filter functions and the ordered propagator product:
   Inst/EnclosureC03.v).                                                                                      *)
Theorem C03_concat_atomic_enclosure :
  forall d1 d2 : nat, nat_R d1 d2 ->
  forall (thr1 : PP.M.I.type) (thr2 : R), PP.TR thr1 thr2 ->
  forall (om1 : list PP.M.I.type) (om2 : list R), list_R _ _ PP.TR om1 om2 ->
  forall bs1 bs2, list_R _ _ (Mat_R _ _ PP.TR) bs1 bs2 ->
  forall ns1 ns2, list_R _ _ (Mat_R _ _ PP.TR) ns1 ns2 ->
  forall ps1 ps2, list_R _ _ (piece_R _ _ PP.TR) ps1 ps2 ->
  Arr3_R _ _ PP.TR (concat_atomic IOP d1 thr1 om1 bs1 ns1 ps1) (concat_atomic RO d2 thr2 om2 bs2 ns2 ps2).
Proof. exact EnclC03.concat_atomic_enclosure. Qed.

(* ------------------------------------------------------------------------------------------------
   Semantic tie of the concatenation kernels (Proofs/KernelTieC03.v; docs/notes/kernel-tie.md): the terms translated on every
   run from the CURRENT Python bodies by tools/kernel_extract.py are the model functions.  (which = 'total' of
   calculate_control_matrix_from_atomic: C01_kernel_cm_atomic_is_source in Properties/C01.v.)
   ------------------------------------------------------------------------------------------------ *)
From FF Require Import Extracted.Kernels Proofs.KernelTieC03.

Theorem C03_kernels_translated : kernel_untranslated_C03 = nil.
Proof. exact kernels_translated_C03. Qed.

Theorem C03_kernel_cm_atomic_pc_is_source : forall na nk no (phases : list (list (C (T:=R)))) (cms : list (Arr3 (T:=R)))
    (Ls : list (list (list R))) g a k o,
  (g < length cms)%nat -> (a < na)%nat -> (k < nk)%nat -> (o < no)%nat ->
  a3get RO (nth g (cm_from_atomic_pc RO na nk no phases cms Ls) nil) a k o =
  cm_atomic_pc_entry_src RO nk
    (fun g' o' => nth o' (nth g' phases nil) (c0 RO))
    (fun g' a' j o' => a3get RO (nth g' cms nil) a' j o')
    (fun g' j k' => rget RO (nth g' Ls nil) j k') g a k o.
Proof. exact cm_atomic_pc_is_source. Qed.
Print Assumptions C03_kernel_cm_atomic_pc_is_source.

Theorem C03_kernel_pc_ff_is_source : forall nk (Bpc : list (Arr3 (T:=R))) g h a b o,
  pc_ff_entry RO nk Bpc g h a b o =
  pc_ff_entry_src RO nk (fun g' a' k o' => a3get RO (nth g' Bpc nil) a' k o') g h a b o.
Proof. exact pc_ff_is_source. Qed.

Theorem C03_kernel_pc_ffgen_is_source : forall (Bpc : list (Arr3 (T:=R))) g h a b k l o,
  pc_ff_gen_entry RO Bpc g h a b k l o =
  pc_ffgen_entry_src RO (fun g' a' k' o' => a3get RO (nth g' Bpc nil) a' k' o') g h a b k l o.
Proof. exact pc_ffgen_is_source. Qed.
