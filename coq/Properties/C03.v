(* C03 -- concatenation reproduces the from-scratch result of the sequenced pulse.
   This file contains only statements closed by [exact <lemma>] and their assumptions. *)
From Coq Require Import ZArith Reals List.
From FF Require Import Base.Ops Inst.RInst Base.RAlg Model.Numeric Model.Consts Model.Atomic Model.Concat Model.Tie.C03
                       Proofs.AtomicAlg Proofs.Atomic Proofs.AtomicPC Proofs.Concat Proofs.ConcatInst
                       Inst.IInst Inst.Param Inst.EnclosureC03.
Import ListNotations.

(* ---------------------------------------------------------------------------------------------------
   The atomic rule.  For every number of pulses, every frequency and every complete Hermitian basis the
   control matrix computed from scratch for the sequenced pulse (spectral data played one after another,
   propagators and times recomputed by the model) equals what calculate_control_matrix_from_atomic
   returns for the data concatenate hands to it (phases by cumulative product of the total phases,
   Liouville propagators by cumulative matrix product, control matrices of the pieces from scratch).   *)
Theorem C03_atomic_rule :
  forall (d : nat) (thr : R) (om : list R) (bs ns : list (Mat (T:=R))),
    (forall l, (l < length bs)%nat -> fherm d (Cf bs l)) ->
    (forall X : fmat, feq d X (flin (length bs) (fun l => ftr d (fmul d (Cf bs l) X)) (Cf bs))) ->
    forall (ps : list (piece (T:=R))) (a k o : nat),
      Forall (wf_piece ns) ps -> (a < length ns)%nat -> (k < length bs)%nat -> (o < length om)%nat ->
      a3get RO (piece_cm RO d thr om bs ns (cat_piece (length ns) ps)) a k o =
      a3get RO (concat_atomic RO d thr om bs ns ps) a k o.
Proof. exact atomic_rule. Qed.
Print Assumptions C03_atomic_rule.

(* the hypotheses on the basis hold for the normalised Pauli basis (d = 2) ... *)
Theorem C03_atomic_rule_pauli :
  forall thr om ns ps a k o, Forall (wf_piece ns) ps ->
    (a < length ns)%nat -> (k < 4)%nat -> (o < length om)%nat ->
    a3get RO (piece_cm RO 2 thr om pauli_basis ns (cat_piece (length ns) ps)) a k o =
    a3get RO (concat_atomic RO 2 thr om pauli_basis ns ps) a k o.
Proof. exact atomic_rule_pauli. Qed.
Print Assumptions C03_atomic_rule_pauli.
(* ... and the well-formedness hypothesis for a concrete pair of pieces with non-commuting segments *)
Example C03_atomic_rule_hyps_satisfiable : Forall (wf_piece ex_ns) [ex_p1; ex_p2].
Proof. exact atomic_rule_hyps_satisfiable. Qed.

(* regrouping (associativity, `@`, slicing a pulse and re-concatenating the pieces): concatenating a
   sub-list first gives the same control matrix *)
Theorem C03_concat_assoc_cm :
  forall ns d thr om bs ps1 ps2 ps3 a k o,
    (forall l, (l < length bs)%nat -> fherm d (Cf bs l)) ->
    (forall X : fmat, feq d X (flin (length bs) (fun l => ftr d (fmul d (Cf bs l) X)) (Cf bs))) ->
    Forall (wf_piece ns) ps1 -> Forall (wf_piece ns) ps2 -> Forall (wf_piece ns) ps3 ->
    (a < length ns)%nat -> (k < length bs)%nat -> (o < length om)%nat ->
    a3get RO (concat_atomic RO d thr om bs ns (ps1 ++ cat_piece (length ns) ps2 :: ps3)) a k o =
    a3get RO (concat_atomic RO d thr om bs ns (ps1 ++ ps2 ++ ps3)) a k o.
Proof. exact concat_assoc_cm. Qed.
Print Assumptions C03_concat_assoc_cm.

(* total propagator of the sequenced pulse = ordered product P_n ... P_1 (util.mdot of the reversed list) *)
Theorem C03_total_propagator_concat :
  forall d na ps, Forall wf_spec ps ->
    feq d (toF (piece_total RO d (cat_piece na ps))) (toF (mdot_rev RO d (map (piece_total RO d) ps))).
Proof. exact total_propagator_concat. Qed.

(* pulse correlations: the per-pulse control matrices (which = 'correlations') sum to the total one, and the
   pulse-correlation filter functions sum over both pulse indices to the filter function, for both kinds *)
Theorem C03_pc_total :
  forall d thr om bs ns ps a k o, (a < length ns)%nat -> (k < length bs)%nat -> (o < length om)%nat ->
    a3get RO (cm_pc_total RO (length ns) (length bs) (length om) (concat_atomic_pc RO d thr om bs ns ps)) a k o =
    a3get RO (concat_atomic RO d thr om bs ns ps) a k o.
Proof. exact concat_pc_total. Qed.
Theorem C03_pc_sum_fidelity :
  forall na nk no Bpc a b o, (a < na)%nat -> (b < na)%nat -> (o < no)%nat ->
    a3get RO (pc_ff_sum RO na no (pc_filter_function RO na nk no Bpc)) a b o =
    a3get RO (filter_function RO na nk no (cm_pc_total RO na nk no Bpc)) a b o.
Proof. exact pc_sum_fidelity. Qed.
Theorem C03_pc_sum_generalized :
  forall na nk no Bpc a b k l o, (a < na)%nat -> (b < na)%nat -> (k < nk)%nat -> (l < nk)%nat -> (o < no)%nat ->
    csumn RO (length Bpc) (fun g => csumn RO (length Bpc) (fun h => pc_ff_gen_entry RO Bpc g h a b k l o)) =
    ff_gen_entry RO (cm_pc_total RO na nk no Bpc) a b k l o.
Proof. exact pc_sum_generalized. Qed.
Print Assumptions C03_pc_sum_fidelity.

(* ---------------------------------------------------------------------------------------------------
   Hamiltonian concatenation (Model/Concat.v [concatenate_hamiltonian], compared exactly with the
   implementation).  For any operator type with decidable equality:                                   *)
Section Hamiltonian.
Variables (oper coef : Type) (oeqb : oper -> oper -> bool) (ceqb : coef -> coef -> bool) (czero : coef).
Hypothesis oeqb_spec : forall a b, Bool.reflect (a = b) (oeqb a b).

(* success: operators = the distinct operators of the inputs (matched by value, each once), identifiers sorted,
   every coefficient row = the pulses' windows one after another with absent windows filled by zero (control)
   or by the common constant sensitivity (noise), one identifier mapping per pulse on exactly its identifiers *)
Theorem C03_concat_hamiltonian_denote :
  forall k hs r, concatenate_hamiltonian oper coef oeqb ceqb czero k hs = inr r ->
  NoDup (r_ops r) /\
  (forall pe, In pe (flatten oper coef hs) -> In (e_op (snd pe)) (r_ops r)) /\
  (forall o, In o (r_ops r) -> exists pe, In pe (flatten oper coef hs) /\ e_op (snd pe) = o) /\
  Sorted.Sorted (fun a b => String.leb a b = true) (r_ids r) /\
  Forall2 (fun o row => exists c, row = List.concat (map (window oper coef oeqb c o) hs) /\ (k = Control -> c = czero) /\
             (k = Noise -> has_none (row_of oper coef oeqb hs o) = true -> somes (row_of oper coef oeqb hs o) <> [] ->
              exists rest, somes (row_of oper coef oeqb hs o) = c :: rest /\ forallb (ceqb c) rest = true))
          (r_ops r) (r_rows r) /\
  map (map fst) (r_map r) = map (fun h => map (@e_id oper coef) (h_entries h)) hs.
Proof. exact (concat_hamiltonian_denote oper coef oeqb ceqb czero oeqb_spec). Qed.

(* compatible inputs never raise; incompatible ones raise the documented error *)
Theorem C03_concat_succeeds :
  forall k hs, oper_ids_clash oper coef oeqb hs = false ->
    (k = Control \/ forall u, In u (uniq oper coef oeqb hs) -> inferable coef ceqb (row_of oper coef oeqb hs (e_op (snd u))) = true) ->
    exists r, concatenate_hamiltonian oper coef oeqb ceqb czero k hs = inr r.
Proof. exact (concat_succeeds oper coef oeqb ceqb czero). Qed.
Theorem C03_concat_rejects_oper_ids :
  forall k hs, oper_ids_clash oper coef oeqb hs = true -> concatenate_hamiltonian oper coef oeqb ceqb czero k hs = inl (EOperIds k).
Proof. exact (concat_rejects_oper_ids oper coef oeqb ceqb czero). Qed.
Theorem C03_oper_ids_clash_spec :
  forall hs, oper_ids_clash oper coef oeqb hs = true <->
    exists pe1 pe2, In pe1 (flatten oper coef hs) /\ In pe2 (flatten oper coef hs) /\
                    e_op (snd pe1) = e_op (snd pe2) /\ e_id (snd pe1) <> e_id (snd pe2).
Proof. exact (oper_ids_clash_spec oper coef oeqb ceqb czero oeqb_spec). Qed.
Theorem C03_concat_rejects_no_infer :
  forall hs u, oper_ids_clash oper coef oeqb hs = false -> In u (uniq oper coef oeqb hs) ->
    inferable coef ceqb (row_of oper coef oeqb hs (e_op (snd u))) = false ->
    concatenate_hamiltonian oper coef oeqb ceqb czero Noise hs = inl ENoInfer.
Proof. exact (concat_rejects_no_infer oper coef oeqb ceqb czero). Qed.
(* the pulse position the code finds by bisect on the cumulative operator counts is the model's tag *)
Theorem C03_bisect_is_pulse_position :
  forall hs ind dflt, (ind < length (flatten oper coef hs))%nat ->
    pulse_of_index oper coef hs ind = fst (nth ind (flatten oper coef hs) dflt).
Proof. exact (bisect_is_pulse_position oper coef). Qed.
End Hamiltonian.
Print Assumptions C03_concat_hamiltonian_denote.
(* the hypothesis (operator comparison decides equality) holds for the instance evaluated against the code *)
Example C03_instance_decides_equality : forall a b, Bool.reflect (a = b) (Corr.C03Obs.op_eqb a b).
Proof. exact op_eqb_spec. Qed.
Example C03_concat_example_succeeds :
  concatenate_hamiltonian nat Z Nat.eqb Z.eqb 0%Z Noise ex_hams2 = inr ex_result2.
Proof. exact concat_example_succeeds. Qed.

(* "every identifier of every input is mapped to the identifier its operator carries in the result" and "the rows
   of each pulse's control matrix land in the rows of the same operators" -- both VIOLATED by the pinned code: *)
Theorem C03_mapping_refuted : ~ mapping_sound_on hams_ZXZ.
Proof. exact mapping_refuted. Qed.
Example C03_mapping_sound_two_pulses : mapping_sound_on hams_ZX.
Proof. exact mapping_sound_two. Qed.
(* ... while for the pulse that holds the operator FIRST the stored mapping is the right one (any number of pulses) *)
Theorem C03_mapping_right_for_first_holder :
  forall (oper coef : Type) (oeqb : oper -> oper -> bool) (ceqb : coef -> coef -> bool) (czero : coef),
    (forall a b, Bool.reflect (a = b) (oeqb a b)) ->
    forall hs p e, oper_ids_clash oper coef oeqb hs = false -> In (p, e) (flatten oper coef hs) ->
      first_pulse oper coef oeqb hs (e_op e) = Some p ->
      exists u, In u (uniq oper coef oeqb hs) /\ e_op (snd u) = e_op e /\
                mapped_id oper coef oeqb hs p e = new_id oper coef oeqb hs u.
Proof. exact mapping_right_for_first_holder. Qed.
Theorem C03_row_assignment_refuted : ~ rows_sound_on hams_flip.
Proof. exact row_assignment_refuted. Qed.

(* ---------------------------------------------------------------------------------------------------
   Decision logic of concatenate (Model/Concat.v [decide], compared cell by cell with the implementation). *)
(* never a frequency-dependent attribute without known frequencies; cached data are for the grid used *)
Theorem C03_decision_grid_sound :
  forall new_ids maps nn cs o r,
    decide new_ids maps nn cs o = ORet r -> freq_dependent r = true -> grid_known cs o r.
Proof. exact decide_grid_sound. Qed.
Print Assumptions C03_decision_grid_sound.

(* the documented ValueErrors only when no frequencies are supplied and the cached ones are unknown or
   inconsistent; the only other exceptions of the faithful model are the two unintended crashes *)
Theorem C03_decision_raise_sound :
  forall new_ids maps nn cs o e,
    decide new_ids maps nn cs o = ORaise e ->
    ((e = EForced /\ o_ff o = TTrue) \/ (e = ENoFreqPC /\ o_pc o = true)) /\ o_omega o = None /\
      all_equal_nat (grids_consulted cs) = false
    \/ e = EIndexError \/ e = EShapeError.
Proof. exact decide_raise_sound. Qed.
Print Assumptions C03_decision_raise_sound.

(* on the atomic path the correlations are available exactly when requested *)
Theorem C03_decision_pc_atomic_partial :
  forall new_ids maps nn cs o r,
    decide new_ids maps nn cs o = ORet r -> t_path r = PAtomic -> t_pc r = o_pc o /\ t_pcgen r = (o_pc o && o_gen o)%bool.
Proof. exact decide_pc_atomic. Qed.

(* Full statement of the property for the decision logic -- VIOLATED by the pinned code: *)
Definition C03_decision_sound_full : Prop := decision_sound_stmt.
Theorem C03_decision_refuted : ~ C03_decision_sound_full.
Proof. exact decision_sound_refuted. Qed.
Print Assumptions C03_decision_refuted.
(* the three paths on which calc_pulse_correlation_FF = True returns silently without correlations,
   and the crash on compatible inputs, on the complete model pipeline *)
Theorem C03_decision_refuted_disjoint :
  pc_silently_missing wit_disjoint [no_cache; no_cache] (mkOpts TNone (Some 0%nat) false true).
Proof. exact decision_pc_refuted_disjoint. Qed.
Theorem C03_decision_refuted_stale_mapping :
  pc_silently_missing wit_stale [no_cache; no_cache; no_cache] (mkOpts TNone (Some 0%nat) false true).
Proof. exact decision_pc_refuted_stale_mapping. Qed.
Theorem C03_decision_refuted_no_control_matrix :
  pc_silently_missing wit_shared [omega_only; omega_only] (mkOpts TNone None false true).
Proof. exact decision_pc_refuted_no_control_matrix. Qed.
Theorem C03_decision_refuted_crash :
  w_outcome wit_stale_shared [no_cache; no_cache; no_cache] (mkOpts TTrue (Some 0%nat) false false) = ORaise EIndexError.
Proof. exact decision_crash_refuted. Qed.

(* The proposed minimal repair of concatenate (guards `and not calc_pulse_correlation_FF` on the early exit and on
   the from-scratch shortcut; identifier mappings updated for every pulse holding the operator; rows placed by
   identifier) satisfies the full statement.  [decide_fixed] models the PROPOSAL, not the pinned code.          *)
Theorem C03_decision_sound_for_proposed_fix :
  forall maps cs o,
    match decide_fixed maps cs o with
    | ORaise e => (e = EForced \/ e = ENoFreqPC) /\ o_omega o = None /\ all_equal_nat (grids_consulted cs) = false
    | ORet r => (freq_dependent r = true -> grid_known cs o r) /\ (o_pc o = true -> t_pc r = true)
    | OCopy => True
    end.
Proof. exact decision_sound_for_proposed_fix. Qed.

(* Enclosure (paramcoq, kernel-checked): the atomic-path control matrix evaluated by the correspondence check on
   hardware-float intervals encloses the real-valued model value the theorems above are about (same for the
   per-pulse control matrices, both pulse-correlation filter functions and the ordered propagator product:
   Inst/EnclosureC03.v).                                                                                      *)
Theorem C03_concat_atomic_enclosure :
  forall d1 d2 : nat, nat_R d1 d2 ->
  forall (thr1 : PP.M.I.type) (thr2 : R), PP.TR thr1 thr2 ->
  forall (om1 : list PP.M.I.type) (om2 : list R), list_R _ _ PP.TR om1 om2 ->
  forall bs1 bs2, list_R _ _ (Mat_R _ _ PP.TR) bs1 bs2 ->
  forall ns1 ns2, list_R _ _ (Mat_R _ _ PP.TR) ns1 ns2 ->
  forall ps1 ps2, list_R _ _ (piece_R _ _ PP.TR) ps1 ps2 ->
  Arr3_R _ _ PP.TR (concat_atomic IOP d1 thr1 om1 bs1 ns1 ps1) (concat_atomic RO d2 thr2 om2 bs2 ns2 ps2).
Proof. exact EnclC03.concat_atomic_enclosure. Qed.
