(* C03 -- concatenation reproduces the from-scratch result of the sequenced pulse.
   This file contains only statements closed by [exact <lemma>] and their assumptions. *)
From Coq Require Import ZArith Reals List String.
From FF Require Import Base.Ops Inst.RInst Base.RAlg Model.Numeric Model.Atomic Model.Concat Model.Tie.C03
                       Proofs.AtomicAlg Proofs.Atomic Proofs.Concat.
Import ListNotations.

(* ---------------------------------------------------------------------------------------------------
   The atomic rule.  For every number of pulses, every frequency and every complete Hermitian basis the
   control matrix computed from scratch for the sequenced pulse (spectral data played one after another,
   propagators and times recomputed by the model) equals what calculate_control_matrix_from_atomic
   returns for the data concatenate hands to it (phases by cumulative product of the total phases,
   Liouville propagators by cumulative matrix product, control matrices of the pieces from scratch).   *)
Theorem C03_atomic_rule :
  forall (d : nat) (thr : R) (om : list R) (bs ns : list (Mat (T:=R))),
    (forall l, (l < length bs)%nat -> fherm d (Cf bs l)) ->
    (forall X : fmat, feq d X (flin (length bs) (fun l => ftr d (fmul d (Cf bs l) X)) (Cf bs))) ->
    forall (ps : list (piece (T:=R))) (a k o : nat),
      Forall (wf_piece ns) ps -> (a < length ns)%nat -> (k < length bs)%nat -> (o < length om)%nat ->
      a3get RO (piece_cm RO d thr om bs ns (cat_piece (length ns) ps)) a k o =
      a3get RO (concat_atomic RO d thr om bs ns ps) a k o.
Proof. exact atomic_rule. Qed.
Print Assumptions C03_atomic_rule.

(* the hypotheses on the basis hold for the normalised Pauli basis (d = 2) ... *)
Theorem C03_atomic_rule_pauli :
  forall thr om ns ps a k o, Forall (wf_piece ns) ps ->
    (a < length ns)%nat -> (k < 4)%nat -> (o < length om)%nat ->
    a3get RO (piece_cm RO 2 thr om pauli_basis ns (cat_piece (length ns) ps)) a k o =
    a3get RO (concat_atomic RO 2 thr om pauli_basis ns ps) a k o.
Proof. exact atomic_rule_pauli. Qed.
Print Assumptions C03_atomic_rule_pauli.
(* ... and the well-formedness hypothesis for a concrete pair of pieces with non-commuting segments *)
Example C03_atomic_rule_hyps_satisfiable : Forall (wf_piece ex_ns) [ex_p1; ex_p2].
Proof. exact atomic_rule_hyps_satisfiable. Qed.

(* ---------------------------------------------------------------------------------------------------
   Decision logic of concatenate (Model/Concat.v [decide], compared cell by cell with the implementation). *)
(* never a frequency-dependent attribute without known frequencies; cached data are for the grid used *)
Theorem C03_decision_grid_sound :
  forall new_ids maps nn cs o r,
    decide new_ids maps nn cs o = ORet r -> freq_dependent r = true -> grid_known cs o r.
Proof. exact decide_grid_sound. Qed.
Print Assumptions C03_decision_grid_sound.

(* the documented ValueErrors only when no frequencies are supplied and the cached ones are unknown or
   inconsistent; the only other exceptions of the faithful model are the two unintended crashes *)
Theorem C03_decision_raise_sound :
  forall new_ids maps nn cs o e,
    decide new_ids maps nn cs o = ORaise e ->
    ((e = EForced /\ o_ff o = TTrue) \/ (e = ENoFreqPC /\ o_pc o = true)) /\ o_omega o = None /\
      all_equal_nat (grids_consulted cs) = false
    \/ e = EIndexError \/ e = EShapeError.
Proof. exact decide_raise_sound. Qed.
Print Assumptions C03_decision_raise_sound.

(* on the atomic path the correlations are available exactly when requested *)
Theorem C03_decision_pc_atomic_partial :
  forall new_ids maps nn cs o r,
    decide new_ids maps nn cs o = ORet r -> t_path r = PAtomic -> t_pc r = o_pc o /\ t_pcgen r = (o_pc o && o_gen o)%bool.
Proof. exact decide_pc_atomic. Qed.

(* Full statement of the property for the decision logic -- VIOLATED by the pinned code: *)
Definition C03_decision_sound_full : Prop := decision_sound_stmt.
Theorem C03_decision_refuted : ~ C03_decision_sound_full.
Proof. exact decision_sound_refuted. Qed.
Print Assumptions C03_decision_refuted.
(* the three paths on which calc_pulse_correlation_FF = True returns silently without correlations,
   and the crash on compatible inputs, on the complete model pipeline *)
Theorem C03_decision_refuted_disjoint :
  pc_silently_missing wit_disjoint [no_cache; no_cache] (mkOpts TNone (Some 0%nat) false true).
Proof. exact decision_pc_refuted_disjoint. Qed.
Theorem C03_decision_refuted_stale_mapping :
  pc_silently_missing wit_stale [no_cache; no_cache; no_cache] (mkOpts TNone (Some 0%nat) false true).
Proof. exact decision_pc_refuted_stale_mapping. Qed.
Theorem C03_decision_refuted_no_control_matrix :
  pc_silently_missing wit_shared [omega_only; omega_only] (mkOpts TNone None false true).
Proof. exact decision_pc_refuted_no_control_matrix. Qed.
Theorem C03_decision_refuted_crash :
  w_outcome wit_stale_shared [no_cache; no_cache; no_cache] (mkOpts TTrue (Some 0%nat) false false) = ORaise EIndexError.
Proof. exact decision_crash_refuted. Qed.
