(* C17 -- pulse construction, equality and slicing mean what they say.
   Statements about the model of Model/Pulse.v at its binary64 instance (eq64, join64), closed by
   [exact <lemma>]; the model is tied to the source by Model/Tie/C17.v and to the behaviour of the
   implementation by the exact correspondence check of tools/ffv/props/c17.py. *)
From Coq Require Import ZArith List Bool String PeanoNat Permutation Sorted Reals Lia.
From FF Require Import Model.B64 Model.Pulse Spec.PulseSpec Model.Tie.C17
  Proofs.PulseBase Proofs.PulseJoin Proofs.PulseCanon Proofs.PulseEq Proofs.PulseMisc Proofs.B64 Proofs.PulseInst
  Proofs.PulseTime Proofs.PulseCopy Proofs.PulseHam Proofs.PulseComplete Proofs.B64Err Proofs.PulseRounded.
(* the observables of the correspondence check are rebuilt together with the model *)
From FF Require Corr.PulseObs.
Import ListNotations.
Local Notation length := List.length (only parsing).

(* ---------------------------------------------------------------- construction *)
(* Each operator is stored with its own coefficients and its own identifier, whatever the order of the
   list; the stored identifiers are sorted (strictly, when distinct); explicitly given identifiers that
   collide are rejected. *)
Theorem C17_parse_sorted_paired : forall noise n H ops ids cfs,
  parse_hamiltonian noise n H = Ok (ops, ids, cfs) ->
  Permutation (combine (combine ops ids) cfs) (combine (combine (map h_op H) (fill_ids noise H)) (map h_coeffs H)) /\
  StronglySorted sle ids /\ (NoDup (fill_ids noise H) -> StronglySorted Str.lt ids) /\
  (all_absent H = false -> NoDup (fill_ids noise H)) /\
  Forall (fun c => length c = n) cfs /\ length ops = length H /\ length ids = length H /\ length cfs = length H.
Proof. exact parse_sorted_paired. Qed.
Print Assumptions C17_parse_sorted_paired.

(* Default identifiers: without identifiers the operators are named A_0, A_1, ... (B_i for noise), pairwise
   distinct, for every number of operators. *)
Theorem C17_default_ids : forall noise H, all_absent H = true ->
  fill_ids noise H = map (default_id noise) (seq 0 (length H)) /\ NoDup (fill_ids noise H).
Proof. exact default_ids. Qed.
Print Assumptions C17_default_ids.
(* Before fix 313e828 (np.fromiter(.., dtype='<U4')) the constructor stored a duplicate identifier for 101
   operators: 'A_100' became 'A_10'. *)
Theorem C17_default_ids_prefix_refuted :
  exists ops ids cfs, parse_hamiltonian_prefix false 0 (many_absent 101) = Ok (ops, ids, cfs) /\ ~ NoDup ids.
Proof. exact default_ids_prefix_refuted. Qed.
(* the defaults filled into a list with some identifiers never collide with each other *)
Theorem C17_default_id_injective : forall noise i j, default_id noise i = default_id noise j -> i = j.
Proof. exact default_id_inj. Qed.

(* ---------------------------------------------------------------- slicing *)
(* p[key] keeps operators, identifiers and basis and consists of exactly the selected segments, in the
   selected order; an empty selection (and an integer out of range) is an IndexError. *)
Theorem C17_getitem_spec : forall p k q, getitem p k = Ok q ->
  exists idx, key_indices k (length (dt p)) = Ok idx /\ idx <> [] /\
              Forall (fun i => i < length (dt p)) idx /\
              segments q = gather ([], [], d0) (segments p) idx /\
              c_opers q = c_opers p /\ c_ids q = c_ids p /\ n_opers q = n_opers p /\ n_ids q = n_ids p /\
              dim q = dim p /\ basis q = basis p.
Proof. exact getitem_spec. Qed.
Print Assumptions C17_getitem_spec.
Theorem C17_getitem_empty : forall p k, key_indices k (length (dt p)) = Ok [] -> getitem p k = Raise IndexError.
Proof. exact getitem_empty. Qed.
(* the positions a slice selects are Python's: start + n*step, n = 0, 1, ... while before (step > 0) or
   after (step < 0) stop, with start / stop normalised as by slice.indices; all of them are in range *)
Theorem C17_slice_membership : forall a b st i, (st <> 0)%Z -> (0 <= a \/ (st < 0 /\ -1 <= a))%Z -> (-1 <= b)%Z ->
  (In i (slice_list a b st) <->
   exists n, (0 <= n)%Z /\ Z.of_nat i = (a + n * st)%Z /\ (if (st <? 0)%Z then (b < a + n * st)%Z else (a + n * st < b)%Z)).
Proof. exact slice_list_mem. Qed.
Theorem C17_slice_in_range : forall start stop step len a b st,
  slice_indices start stop step (Z.of_nat len) = Some (a, b, st) ->
  (st <> 0)%Z /\ (0 <= a \/ (st < 0 /\ -1 <= a))%Z /\ (-1 <= b)%Z /\ Forall (fun i => i < len) (slice_list a b st).
Proof. exact slice_list_range. Qed.
Print Assumptions C17_slice_in_range.

(* ---------------------------------------------------------------- merging of equal segments *)
(* The arrays returned by _join_equal_segments, read column by column, are the canonical segment list:
   zero-duration segments dropped, then every run of consecutive segments with equal control AND noise
   coefficients merged into one. *)
Theorem C17_join_canon : forall p,
  Forall (fun r => length r = length (dt p)) (c_coeffs p) ->
  Forall (fun r => length r = length (dt p)) (n_coeffs p) -> 1 <= length (dt p) ->
  segs_of (jcc64 p) (jnc64 p) (jdt64 p) = canon fadd64 p.
Proof. exact join64_canon. Qed.
Print Assumptions C17_join_canon.
Theorem C17_canon_no_adjacent_equal : forall p, no_adjacent_equal (canon fadd64 p).
Proof. exact (fun p => merge_no_adjacent fadd64 [] (effective_segments p)). Qed.
Theorem C17_canon_columns : forall p, map fst (canon fadd64 p) = compress (map fst (effective_segments p)).
Proof. exact (fun p => merge_compress fadd64 [] (effective_segments p)). Qed.
(* the effective segments: zero-duration segments removed (unless all or none are), which does not change
   the pulse as a function of time *)
Theorem C17_effective_segments_same_time_function : forall p t, (0 <= t)%R ->
  at_time (effective_segments p) t = at_time (segments p) t.
Proof. exact at_time_effective. Qed.
Theorem C17_canon_idempotent : forall segs, merge_runs fadd64 [] (merge_runs fadd64 [] segs) = merge_runs fadd64 [] segs.
Proof. exact (merge_idempotent fadd64). Qed.
(* with exact addition of the durations the merged pulse is the same function of time *)
Theorem C17_join_same_time_function : forall segs t,
  Forall (fun s => (0 <= fst (snd s))%Z) segs ->
  at_time (merge_runs dadd [] segs) t = at_time segs t.
Proof. exact merge_at_time. Qed.
Print Assumptions C17_join_same_time_function.
(* ---------------------------------------------------------------- equality *)
(* exact characterisation of == on well-formed pulses *)
Theorem C17_eq_char : forall A B, wf A -> wf B ->
  (eq64 A B = true <->
   length (jdt64 A) = length (jdt64 B) /\
   Forall2 (fun a b => close_dt (length (basis A)) a b = true) (jdt64 A) (jdt64 B) /\
   sorted_view (c_opers A) (c_ids A) (jcc64 A) = sorted_view (c_opers B) (c_ids B) (jcc64 B) /\
   sorted_view (n_opers A) (n_ids A) (jnc64 A) = sorted_view (n_opers B) (n_ids B) (jnc64 B) /\
   basis_eq bclose (basis A) (basis B) = true).
Proof. exact eq64_char. Qed.
Print Assumptions C17_eq_char.

(* the sorted views coincide iff the identifier -> (operator, merged coefficients) tables do *)
Theorem C17_sorted_view_iff_table : forall ops ids rows ops' ids' rows',
  length ops = length ids -> length rows = length ids -> NoDup ids ->
  length ops' = length ids' -> length rows' = length ids' -> NoDup ids' ->
  (sorted_view ops ids rows = sorted_view ops' ids' rows' <-> Permutation (terms ops ids rows) (terms ops' ids' rows')).
Proof. exact sorted_view_iff_table. Qed.

(* On pairs whose merged durations and basis entries are bit-equal or not close, == decides equality of
   denotations (identifier tables with merged coefficients, merged durations, basis) ... *)
Theorem C17_eq_iff_same_denotation : forall A B, wf A -> wf B -> sep64 A B ->
  (eq64 A B = true <-> denot64 A = denot64 B).
Proof. exact eq64_iff_same_denotation. Qed.
Print Assumptions C17_eq_iff_same_denotation.
(* ... and is an equivalence relation there *)
Theorem C17_eq_refl : forall A, wf A -> eq64 A A = true.
Proof. exact eq64_refl. Qed.
Theorem C17_eq_sym : forall A B, wf A -> wf B -> sep64 A B -> sep64 B A -> eq64 A B = eq64 B A.
Proof. exact eq64_sym. Qed.
Theorem C17_eq_trans : forall A B C, wf A -> wf B -> wf C -> sep64 A B -> sep64 B C -> sep64 A C ->
  eq64 A B = true -> eq64 B C = true -> eq64 A C = true.
Proof. exact eq64_trans. Qed.
Print Assumptions C17_eq_trans.
(* hypotheses satisfiable: a pulse with two equal consecutive segments and its merged form *)
Example C17_eq_hypotheses_satisfiable :
  wf split_pulse /\ wf merged_pulse /\ sep64 split_pulse merged_pulse /\ sep64 merged_pulse split_pulse /\
  eq64 split_pulse merged_pulse = true /\ eq64 merged_pulse split_pulse = true /\
  denot64 split_pulse = denot64 merged_pulse.
Proof. exact eq_merged_example. Qed.

(* Equal pulses have equal results: the merged pulses have the same control Hamiltonian in every segment
   (sum over the operators, whatever their stored order), the same noise operators / sensitivities under every
   identifier, the same merged durations and basis -- all that propagators and filter functions depend on. *)
Theorem C17_eq_implies_equal_results : forall A B, wf A -> wf B -> sep64 A B -> eq64 A B = true ->
  (forall g a b, ham_entry (c_opers A) (jcc64 A) g a b = ham_entry (c_opers B) (jcc64 B) g a b) /\
  jdt64 A = jdt64 B /\ basis A = basis B /\
  sorted_view (n_opers A) (n_ids A) (jnc64 A) = sorted_view (n_opers B) (n_ids B) (jnc64 B) /\
  length (c_opers A) = length (c_opers B).
Proof. exact eq64_same_hamiltonian. Qed.
Print Assumptions C17_eq_implies_equal_results.

(* Without the separation hypothesis the laws fail (np.allclose is asymmetric in its arguments):
   documented scope of the tolerance, demonstrated on the implementation by the plugin. *)
Theorem C17_eq_sym_refuted_at_edge : exists A B, wf A /\ wf B /\ eq64 A B = true /\ eq64 B A = false.
Proof. exact eq_sym_refuted_at_edge. Qed.
Theorem C17_eq_trans_refuted_at_edge :
  exists A B C, wf A /\ wf B /\ wf C /\ eq64 A B = true /\ eq64 B C = true /\ eq64 A C = false.
Proof. exact eq_trans_refuted_at_edge. Qed.

(* single-feature differences *)
Theorem C17_eq_detects_operator_count : forall A B,
  length (c_opers A) <> length (c_opers B) \/ length (n_opers A) <> length (n_opers B) -> eq64 A B = false.
Proof. exact (eq_detects_operator_count fadd64 close_dt bclose). Qed.
Theorem C17_eq_detects_segment_count : forall A B, length (jdt64 A) <> length (jdt64 B) -> eq64 A B = false.
Proof. exact (eq_detects_segment_count fadd64 close_dt bclose). Qed.
Theorem C17_eq_detects_identifier : forall A B s, wf A -> wf B ->
  (In s (c_ids A) /\ ~ In s (c_ids B)) \/ (In s (n_ids A) /\ ~ In s (n_ids B)) \/
  (In s (c_ids B) /\ ~ In s (c_ids A)) \/ (In s (n_ids B) /\ ~ In s (n_ids A)) -> eq64 A B = false.
Proof. exact (eq_detects_identifier fadd64 close_dt bclose). Qed.
(* equal pulses store under every identifier the same operator and the same merged coefficients: a
   changed operator entry or a changed coefficient that survives the merge makes the pulses unequal *)
Theorem C17_eq_same_operator_and_coefficients : forall A B, wf A -> wf B -> eq64 A B = true ->
  forall o i r o' r',
    (In (o, i, r) (terms (c_opers A) (c_ids A) (jcc64 A)) -> In (o', i, r') (terms (c_opers B) (c_ids B) (jcc64 B)) -> o = o' /\ r = r') /\
    (In (o, i, r) (terms (n_opers A) (n_ids A) (jnc64 A)) -> In (o', i, r') (terms (n_opers B) (n_ids B) (jnc64 B)) -> o = o' /\ r = r').
Proof. exact (eq_same_operator_and_coefficients fadd64 close_dt bclose). Qed.
(* one changed coefficient (control or noise), pulses without zero-duration or repeated segments *)
Theorem C17_eq_detects_coefficient : forall A B, wf A -> wf B -> unmerged A -> unmerged B ->
  c_ids A = c_ids B -> n_ids A = n_ids B ->
  c_coeffs A <> c_coeffs B \/ n_coeffs A <> n_coeffs B -> eq64 A B = false.
Proof. exact (eq_detects_coefficient fadd64 close_dt bclose). Qed.
Theorem C17_eq_detects_duration : forall A B, wf A -> wf B ->
  ~ Forall2 (fun a b => close_dt (length (basis A)) a b = true) (jdt64 A) (jdt64 B) -> eq64 A B = false.
Proof. exact (eq_detects_duration fadd64 close_dt bclose). Qed.
Theorem C17_eq_detects_basis : forall A B, basis_eq bclose (basis A) (basis B) = false -> eq64 A B = false.
Proof. exact (eq_detects_basis fadd64 close_dt bclose). Qed.
Print Assumptions C17_eq_same_operator_and_coefficients.

(* Zero-duration segments.  The pair [a for T/2, b for 0, a for T/2] / [a for T]: the same function of time; the
   pulses compare equal since fix ac70929, and compared unequal before. *)
Theorem C17_eq_zero_duration_example :
  wf zd_split /\ wf zd_merged /\ (forall t, at_time (segments zd_split) t = at_time (segments zd_merged) t) /\
  eq64 zd_split zd_merged = true /\ eq64 zd_merged zd_split = true.
Proof. exact eq_zero_duration_example. Qed.
Theorem C17_eq_time_denotation_prefix_refuted :
  exists A B, wf A /\ wf B /\ (forall t, at_time (segments A) t = at_time (segments B) t) /\
              eq64_prefix A B = false /\ eq64_prefix B A = false.
Proof. exact eq_time_denotation_prefix_refuted. Qed.
Print Assumptions C17_eq_zero_duration_example.
(* Completeness: pulses with the same operators, identifiers and basis that are the same function of time
   (on t >= 0; durations non-negative, normalised, not all zero) compare equal.  Proved through the uniqueness of
   the canonical form (positive durations, no two equal neighbours): [canon_unique].  With exact addition of the
   durations (eq_exact: the algorithm without rounding) it is an equivalence; for binary64 it holds whenever the
   merged durations are exact sums, and in general by C17_eq_complete_rounded below. *)
Theorem C17_canonical_form_unique : forall L1 L2,
  positive L1 -> positive L2 -> no_adjacent_equal L1 -> no_adjacent_equal L2 ->
  (forall t, (0 <= t)%R -> at_time L1 t = at_time L2 t) -> Forall2 seg_equiv L1 L2.
Proof. exact canon_unique. Qed.
Theorem C17_same_time_function_same_canon : forall A B, good_durations A -> good_durations B ->
  (forall t, (0 <= t)%R -> at_time (segments A) t = at_time (segments B) t) -> canon dadd A = canon dadd B.
Proof. exact same_time_function_same_canon. Qed.
Theorem C17_eq_exact_complete : forall A B, wf A -> wf B -> same_frame A B -> good_durations A -> good_durations B ->
  (forall t, (0 <= t)%R -> at_time (segments A) t = at_time (segments B) t) -> eq_exact A B = true.
Proof. exact eq_exact_complete. Qed.
Theorem C17_eq_exact_sound : forall A B, wf A -> wf B -> c_ids A = c_ids B -> n_ids A = n_ids B ->
  good_durations A -> good_durations B -> eq_exact A B = true ->
  forall t, (0 <= t)%R -> at_time (segments A) t = at_time (segments B) t.
Proof. exact eq_exact_sound. Qed.
Theorem C17_eq_complete : forall A B, wf A -> wf B -> same_frame A B -> good_durations A -> good_durations B ->
  jdt fadd64 A = jdt dadd A -> jdt fadd64 B = jdt dadd B ->
  (forall t, (0 <= t)%R -> at_time (segments A) t = at_time (segments B) t) -> eq64 A B = true.
Proof. exact eq64_complete. Qed.
Print Assumptions C17_eq_complete.
(* Rounding of the merged durations (Proofs/B64Err.v).  One binary64 rounding step has relative error at most 2^-53
   (any sign, exponent >= -1074); adding non-negative values likewise; the accumulation loop of _join_equal_segments
   (left-to-right summation of n pending durations onto the last one) is within (1+2^-53)^n - 1 of the exact sum. *)
Theorem C17_rnd64_relative_error : forall a, (emin <= snd a)%Z ->
  (Rabs (d2R (rnd64 a) - d2R a) <= u64 * Rabs (d2R a))%R.
Proof. exact rnd64_error_abs. Qed.
Theorem C17_fadd64_relative_error : forall L a b, (emin <= L <= 0)%Z -> lowexp L a -> lowexp L b ->
  (Rabs (d2R (fadd64 a b) - (d2R a + d2R b)) <= u64 * (d2R a + d2R b))%R /\ lowexp L (fadd64 a b).
Proof. exact fadd64_error. Qed.
Theorem C17_summation_error : forall L pend x, (emin <= L <= 0)%Z -> lowexp L x -> Forall (lowexp L) pend ->
  let S := (d2R x + Proofs.PulseTime.sumR pend)%R in
  (Rabs (d2R (fold_left fadd64 pend x) - S) <= ((1 + u64) ^ length pend - 1) * S)%R /\ lowexp L (fold_left fadd64 pend x).
Proof. exact fold_fadd64_error. Qed.
(* two roundings of the same positive sum, each within 2^-36 relative, pass np.isclose(rtol = 1e-10) -- every operation
   of the test rounded as in the implementation *)
Theorem C17_close_from_sums : forall nb A B S g, lowexp (-988) A -> lowexp (-988) B -> (0 < S)%R -> (0 <= g <= w36)%R ->
  (Rabs (d2R A - S) <= g * S)%R -> (Rabs (d2R B - S) <= g * S)%R -> close_dt nb A B = true.
Proof. exact close_dt_from_sums. Qed.
(* Hence: two well-formed pulses (same operators, identifiers, basis; at most 2^16 segments each; durations non-negative,
   normalised, not all zero, exponents >= -988 so that rtol*|b| does not underflow; the model has no overflow) that are
   the same function of time compare equal -- whether or not their merges round. *)
Theorem C17_eq_complete_rounded : forall A B, wf A -> wf B -> same_frame A B -> good_durations A -> good_durations B ->
  no_underflow A -> no_underflow B -> (Z.of_nat (length (dt A)) <= 2 ^ 16)%Z -> (Z.of_nat (length (dt B)) <= 2 ^ 16)%Z ->
  (forall t, (0 <= t)%R -> at_time (segments A) t = at_time (segments B) t) -> eq64 A B = true.
Proof. exact eq64_complete_rounded. Qed.
Print Assumptions C17_eq_complete_rounded.
(* hypotheses satisfiable on a pair whose merge really rounds: durations 1, 2^-53, 2^-53 (merged by the code to 1, exact
   sum 1 + 2^-52) against the single duration 1 + 2^-52 *)
Example C17_eq_complete_rounded_example :
  wf rnd_split /\ wf rnd_merged /\ same_frame rnd_split rnd_merged /\ good_durations rnd_split /\ good_durations rnd_merged /\
  no_underflow rnd_split /\ no_underflow rnd_merged /\
  (forall t, (0 <= t)%R -> at_time (segments rnd_split) t = at_time (segments rnd_merged) t) /\
  jdt fadd64 rnd_split <> jdt dadd rnd_split /\ eq64 rnd_split rnd_merged = true /\ eq64 rnd_merged rnd_split = true.
Proof. exact rounded_example. Qed.
(* The remaining edge is the converse at the tolerance: pulses whose canonical durations differ by less than the tolerance
   of np.allclose but are different functions of time compare equal -- exactly what C17_eq_char states (documented scope). *)

(* hypotheses satisfiable: the zero-duration pair *)
Example C17_eq_complete_example :
  same_frame zd_split zd_merged /\ good_durations zd_split /\ good_durations zd_merged /\
  jdt fadd64 zd_split = jdt dadd zd_split /\ jdt fadd64 zd_merged = jdt dadd zd_merged.
Proof.
  split; [repeat split|]. split; [|split; [|split; vm_compute; reflexivity]].
  - split; [|vm_compute; reflexivity]. repeat constructor; simpl; try lia; discriminate.
  - split; [|vm_compute; reflexivity]. repeat constructor; simpl; try lia; discriminate.
Qed.

(* ---------------------------------------------------------------- copies *)
(* A deep copy lives in freshly allocated cells only: it is structurally equal to the original, no cell
   reachable from it existed before, the original's cells are untouched, and a later write to any cell of
   either object is invisible through the other. *)
Theorem C17_deepcopy_disjoint : forall fuel h o h' o',
  obj_ok fuel h o -> deepcopy_obj fuel h o = (h', o') ->
  (exists ext, h' = h ++ ext) /\
  Forall (fun l => length h <= l < length h') (reach_obj fuel h' o') /\
  Forall (fun l => l < length h) (reach_obj fuel h o) /\
  obj_equiv fuel h o h' o' /\
  (forall l c, In l (reach_obj fuel h' o') -> obj_equiv fuel h o (hwrite h' l c) o) /\
  (forall l c, In l (reach_obj fuel h o) -> obj_equiv fuel h' o' (hwrite h' l c) o').
Proof. exact deepcopy_disjoint. Qed.
Print Assumptions C17_deepcopy_disjoint.
(* obj_ok excludes ndarray-subclass cells with re-bound attributes: NumPy deep-copies such an instance by
   copying the data and calling __array_finalize__(new, old).  Before fix 9f6ee83 Basis.__array_finalize__ re-bound
   the labels list, so a deep copy of a pulse shared basis.labels with the original (witness below); now the
   labels are copied with the data and the objects of a pulse satisfy obj_ok. *)
Theorem C17_deepcopy_prefix_refuted :
  exists h' o', deepcopy_obj 2 basis_heap basis_obj = (h', o') /\
                exists l, In l (reach_obj 2 basis_heap basis_obj) /\ In l (reach_obj 2 h' o').
Proof. exact deepcopy_shares_subclass_attributes. Qed.
(* a shallow copy shares every cell except the _intermediates dict, which is a new cell with the same entries *)
Theorem C17_copy_shares : forall h o h' o', Forall (fun kl => snd kl < length h) o -> copy_obj h o = (h', o') ->
  map fst o' = map fst o /\
  Forall2 (fun kl kl' => if String.eqb (fst kl) "_intermediates"
                         then length h <= snd kl' < length h' /\ hread h' (snd kl') = hread h (snd kl)
                         else snd kl' = snd kl) o o'.
Proof. exact copy_shares. Qed.
