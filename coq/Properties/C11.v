(* C11 -- analytic gradients equal the derivative of the infidelity they differentiate.
   This file contains only statements closed by [exact <lemma>], their assumptions, and examples
   showing that hypotheses are satisfiable.  Level: partial (see docs/notes/C11.md).            *)
From Coq Require Import ZArith Reals Lra Lia List Bool String.
From Coquelicot Require Import Coquelicot.
From FF Require Import Base.Ops Inst.RInst Base.RAlg Model.Numeric Model.Gradient Model.GradConsts
     Model.Tie.C11 Proofs.Foi Proofs.MatAlg Proofs.Gradient Proofs.GradientScaling Proofs.GradientSeries
     Model.Consts Corr.Agree Corr.Obs Corr.ObsC11.   (* the last four: everything the case files of the correspondence check import *)
Import ListNotations.
Local Open Scope R_scope.

(* --- gradient._derivative_integral (after fix 0c5cb2a): every entry is the parameter integral
       int_0^dt e^{i x t} (int_0^t e^{i b s} ds) dt, x = w + Omega_mn, b = Omega_pq --- *)
(* (e^{i x dt} - 1)/x in its half-angle form, with the exact-zero test, is i * int_0^dt e^{ixt} dt for EVERY x, dt *)
Theorem C11_di_tmp2_val : forall x dt, di_tmp2 RO x dt = (- Is x dt, Ic x dt).
Proof. exact di_tmp2_val. Qed.
(* the case Omega_pq != 0 is exact for every x: no small-denominator window is left *)
Theorem C11_di_nz_exact : forall x b dt, b <> 0 ->
  is_RInt (dint_re x b) 0 dt (fst (di_nz RO x b dt)) /\
  is_RInt (dint_im x b) 0 dt (snd (di_nz RO x b dt)).
Proof. exact di_nz_exact. Qed.
(* all cases: Omega_pq is treated as 0 when |Omega_pq dt| < thr_dE (exact if it is 0); in that case the Taylor
   polynomial is used for |x dt| < thr_s (exact at x = 0; error bound: C11_di_series_bound below) *)
Theorem C11_deriv_integral_cases : forall thr_dE thr_s w ev dt p q m n,
  0 < thr_dE -> 0 < thr_s ->
  (Rabs (di_b ev p q * dt) < thr_dE -> di_b ev p q = 0) ->
  (Rabs (di_b ev p q * dt) < thr_dE -> Rabs (di_x w ev m n * dt) < thr_s -> di_x w ev m n = 0) ->
  is_RInt (dint_re (di_x w ev m n) (di_b ev p q)) 0 dt
          (fst (deriv_integral_entry RO (thr_dE, thr_s) w ev dt p q m n)) /\
  is_RInt (dint_im (di_x w ev m n) (di_b ev p q)) 0 dt
          (snd (deriv_integral_entry RO (thr_dE, thr_s) w ev dt p q m n)).
Proof. exact deriv_integral_cases. Qed.
Print Assumptions C11_deriv_integral_cases.

(* the integrand is e^{i x t} times the inner integral of e^{i b s} over [0, t] *)
Theorem C11_inner_integral : forall b t,
  is_RInt (fun s => cos (b * s)) 0 t (Ic b t) /\ is_RInt (fun s => sin (b * s)) 0 t (Is b t).
Proof. exact inner_integral. Qed.

(* hypotheses satisfiable: a non-degenerate two-level segment at a generic frequency, dt = 1, extracted thresholds *)
Example C11_deriv_integral_cases_sat :
  let thr := Rdya (fst di_thr_dE) (snd di_thr_dE) in
  let thr_s := Rdya (fst di_thr_series) (snd di_thr_series) in
  0 < thr /\ 0 < thr_s /\
  (Rabs (di_b [0; 1] 0 1 * 1) < thr -> di_b [0; 1] 0 1 = 0) /\
  (Rabs (di_b [0; 1] 0 1 * 1) < thr -> Rabs (di_x 3 [0; 1] 0 1 * 1) < thr_s -> di_x 3 [0; 1] 0 1 = 0).
Proof.
  assert (P : 0 < Rdya (fst di_thr_dE) (snd di_thr_dE) < 1).
  { apply (Rdya_small 944473296573929 73); reflexivity. }
  assert (P2 : 0 < Rdya (fst di_thr_series) (snd di_thr_series) < 1).
  { apply (Rdya_small 5764607523034235 59); reflexivity. }
  cbv zeta. split. apply P. split. apply P2.
  set (thr := Rdya (fst di_thr_dE) (snd di_thr_dE)) in *.
  unfold di_b, di_x, vg, vget; simpl.
  split; intros H; exfalso; apply Rabs_def2 in H; lra.
Qed.

(* every division of _derivative_integral is guarded (threshold mask false, resp. exact-zero test true) *)
Theorem C11_di_div_safe : forall thr_dE thr_s w ev dt p q m n, 0 < thr_dE -> 0 < thr_s ->
  (forall bx, In bx (di_denoms_masked RO (thr_dE, thr_s) w ev dt p q m n) -> fst bx = false -> snd bx <> 0) /\
  (forall bx, In bx (di_denoms_nz RO w ev dt p q m n) -> fst bx = true -> snd bx <> 0).
Proof. exact di_div_safe. Qed.

(* --- calculate_filter_function_derivative: dF_aa = 2 Re sum_k conj(B_ak) dB_ak --- *)
Theorem C11_ff_deriv : forall n (Bk : nat -> R -> Cx) (dBk : nat -> Cx) u,
  (forall k, (k < n)%nat -> cderive (Bk k) u (dBk k)) ->
  is_derive (fun v => ff_diag n (fun k => Bk k v)) u (ffd_entry RO n (fun k => Bk k u) dBk).
Proof. exact ff_deriv. Qed.
Print Assumptions C11_ff_deriv.
Theorem C11_ff_diag_is_filter_function : forall na nk no Bm a o, (a < na)%nat -> (o < no)%nat ->
  fst (a3get RO (filter_function RO na nk no Bm) a a o) = ff_diag nk (fun k => a3get RO Bm a k o).
Proof. exact ff_diag_filter_function. Qed.

(* --- calculate_derivative_of_control_matrix_from_scratch: product rule --- *)
Theorem C11_assembly_product_rule : forall G nj s k (Bg : nat -> nat -> R -> Cx)
        (Lg : nat -> nat -> nat -> R -> R) (dB : nat -> nat -> Cx) (dL : nat -> nat -> nat -> R) u,
  (s < G)%nat ->
  (forall g j, (g < G)%nat -> (j < nj)%nat -> cderive (Bg g j) u (dB g j)) ->
  (forall g j, (g < G)%nat -> (j < nj)%nat -> is_derive (Lg g j k) u (dL g j k)) ->
  (forall g j, (g < G)%nat -> (j < nj)%nat -> g <> s -> dB g j = 0c) ->
  (forall j, (j < nj)%nat -> dL O j k = 0) ->
  cderive (fun v => cm_total G nj (fun g j => Bg g j v) (fun g j k' => Lg g j k' v) k) u
    (assemble_entry RO nj G (dB s) (fun j k' => Lg s j k' u) (fun g j => Bg g j u)
                    (fun t j k' => dL (S t) j k') k).
Proof. exact assembly_product_rule. Qed.
Print Assumptions C11_assembly_product_rule.

(* --- the per-segment derivative uses the general expression for every d (fix 083da5e) --- *)
Theorem C11_M_entry_general : forall d DI (Cb NT : Mat) r c, M_entry RO d DI Cb NT r c = Mgen_entry RO d DI Cb NT r c.
Proof. exact M_entry_general. Qed.
(* the removed d == 2 shortcut agreed with it exactly for traceless operators ... *)
Theorem C11_d2_shortcut_eq_general_traceless : forall (DI : nat -> nat -> nat -> nat -> Cx) (Cb NT : Mat),
  (forall p p' m n, DI p p m n = DI p' p' m n) ->
  (forall p q m m', DI p q m m = DI p q m' m') ->
  mtrace RO 2 Cb = 0c -> mtrace RO 2 NT = 0c ->
  forall r c, (r < 2)%nat -> (c < 2)%nat ->
  Mshort_entry_prefix DI Cb NT r c = Mgen_entry RO 2 DI Cb NT r c.
Proof. exact d2_shortcut_eq_general_traceless. Qed.
(* ... and was wrong otherwise (pre-fix finding c11-d2-shortcut-nontraceless) *)
Theorem C11_d2_shortcut_prefix_refuted : forall thr_dE thr_s, 0 < thr_dE -> 0 < thr_s ->
  exists (w dt : R) (ev : list R) (Cb NT : Mat) (r c : nat), (r < 2)%nat /\ (c < 2)%nat /\
    vg RO ev 0 <> vg RO ev 1 /\
    M_entry_prefix 2 (deriv_integral_entry RO (thr_dE, thr_s) w ev dt) Cb NT r c
    <> Mgen_entry RO 2 (deriv_integral_entry RO (thr_dE, thr_s) w ev dt) Cb NT r c.
Proof. exact d2_shortcut_prefix_refuted. Qed.
Print Assumptions C11_d2_shortcut_prefix_refuted.

(* --- finiteness of _liouville_derivative: every division of A_mat is guarded by the degeneracy mask (fix 8c041e1) --- *)
Theorem C11_amat_div_safe : forall d thr ev dt, 0 < thr ->
  forall bx, In bx (amat_denoms RO d thr ev dt) -> fst bx = false -> snd bx <> 0.
Proof. exact amat_div_safe. Qed.
(* A_mat[i,j] = int_0^dt e^{i Omega_ij t} dt (masked pairs: exactly degenerate, limit value dt consistent) *)
Theorem C11_amat_entry_integral : forall d thr ev dt i j, 0 < thr -> (i < d)%nat -> (j < d)%nat ->
  (Rabs ((vg RO ev i - vg RO ev j) * dt) < thr -> vg RO ev i - vg RO ev j = 0) ->
  is_RInt (fun t => cos ((vg RO ev i - vg RO ev j) * t)) 0 dt (fst (mget RO (amat RO d thr ev dt) i j)) /\
  is_RInt (fun t => sin ((vg RO ev i - vg RO ev j) * t)) 0 dt (snd (mget RO (amat RO d thr ev dt) i j)).
Proof. exact amat_entry_integral. Qed.
(* pre-fix (mask = np.eye(d)): two equal eigenvalues => division by zero (finding c11-degenerate-segment-nan) *)
Theorem C11_finite_prefix_refuted_degenerate : forall d ev i j, (i < d)%nat -> (j < d)%nat -> i <> j ->
  vg RO ev i = vg RO ev j -> In 0 (amat_denoms_prefix d ev).
Proof. exact finite_prefix_refuted_degenerate. Qed.
Theorem C11_finite_prefix_refuted : exists d ev, In 0 (amat_denoms_prefix d ev).
Proof. exact finite_prefix_refuted. Qed.

(* --- spectrum shapes: the same per-operator shapes as infidelity() for the selected operators (fix 1090e57) --- *)
Theorem C11_spectrum_shape_same : forall shape n_selected n_all n_omega,
  infidelity_derivative_accepts shape n_selected n_all n_omega = infidelity_accepts shape n_selected n_all n_omega.
Proof. exact spectrum_shape_same. Qed.
Theorem C11_spectrum_shape_prefix_refuted : exists shape n_selected n_all n_omega,
  (n_selected <= n_all)%nat /\
  infidelity_accepts shape n_selected n_all n_omega = true /\
  infidelity_derivative_accepts_prefix shape n_selected n_all n_omega = false.
Proof. exact spectrum_shape_prefix_refuted. Qed.

(* --- _liouville_derivative: derivative of the Liouville representation of the propagators --- *)
(* product rule on Re tr(Q^dagger C_j Q C_k) + Hermitian symmetrisation ("2 Re") *)
Theorem C11_fliou_derive : forall d (Qf : R -> fmat) (dQ : fmat) u (Cj Ck : fmat),
  fherm d Cj -> fherm d Ck ->
  (forall i j, (i < d)%nat -> (j < d)%nat -> cderive (fun v => Qf v i j) u (dQ i j)) ->
  is_derive (fun v => fliou d (Qf v) Cj Ck) u
            (2 * fst (ftr d (fmul d (fadj dQ) (fmul d Cj (fmul d (Qf u) Ck))))).
Proof. exact fliou_derive. Qed.

(* PARTIAL: Duhamel's formula for the derivative of the segment propagator exp(-i(H + u C_h)dt) is the
   hypothesis [Duhamel] (premise 1 below: the derivative of P_s(u) at u0 is the model's U_deriv);
   given it, the model's liouville_deriv entry is the derivative of Q^(t+1)_jk with respect to u_h(t_s). *)
Theorem C11_liouville_deriv_Duhamel : forall d (thrA : R) (Qs Qs1 Qt1 V : Mat) (ev : list R) (dt : R) (Cbar : Mat)
    (Pu : R -> fmat) (u0 : R),
  (forall i j, (i < d)%nat -> (j < d)%nat ->
     cderive (fun u => Pu u i j) u0 (toF (u_deriv RO d thrA Qs Qs1 V ev dt Cbar) i j)) ->      (* Duhamel *)
  feq d (fmul d (Pu u0) (toF Qs)) (toF Qs1) ->
  funitary d (toF Qs1) ->
  forall Cj Ck : Mat, fherm d (toF Cj) -> fherm d (toF Ck) ->
  is_derive (fun u => fliou d (Qt1_of d Qs Qs1 Qt1 Pu u) (toF Cj) (toF Ck)) u0
    (ld_entry RO d (mmul RO d Qt1 (u_deriv_transformed RO d Qs Qs1 (u_deriv RO d thrA Qs Qs1 V ev dt Cbar)))
                   (mmul RO d (mmul RO d Cj Qt1) Ck)).
Proof. exact liouville_deriv_Duhamel. Qed.
Print Assumptions C11_liouville_deriv_Duhamel.

(* the hypotheses are satisfiable: one-level system H = 1 + u, dt = 1, P(u) = e^{-i(1+u)} *)
Definition Pu1 (u : R) : fmat := fun _ _ => cexp' (- (1 + u)).
Example C11_Duhamel_sat :
  (forall i j, (i < 1)%nat -> (j < 1)%nat ->
     cderive (fun u => Pu1 u i j) 0 (toF (u_deriv RO 1 1 [[1c]] [[cexp' (-1)]] [[1c]] [1] 1 [[1c]]) i j)) /\
  feq 1 (fmul 1 (Pu1 0) (toF [[1c]])) (toF [[cexp' (-1)]]) /\
  funitary 1 (toF [[cexp' (-1)]]) /\ fherm 1 (toF [[1c]]).
Proof.
  split; [|split; [|split]].
  - intros i j Hi Hj. assert (i = 0)%nat by lia. assert (j = 0)%nat by lia. subst.
    unfold Pu1, u_deriv. rewrite amat_1x1 by lra. split; simpl.
    + auto_derive; auto. unfold toF, mget; simpl. replace (- (1 + 0)) with (-1) by ring. ring.
    + auto_derive; auto. unfold toF, mget; simpl. replace (- (1 + 0)) with (-1) by ring. ring.
  - intros i j Hi Hj. assert (i = 0)%nat by lia. assert (j = 0)%nat by lia. subst.
    unfold fmul, Pu1, toF, mget; simpl. replace (- (1 + 0)) with (-1) by ring. apply c_eq; simpl; ring.
  - split; intros i j Hi Hj; assert (i = 0)%nat by lia; assert (j = 0)%nat by lia; subst;
      unfold fmul, fadj, fid, toF, mget; simpl; apply c_eq; simpl;
      generalize (sin2_cos2 (-1)); unfold Rsqr; intros; try lra; try ring.
  - intros i j Hi Hj. assert (i = 0)%nat by lia. assert (j = 0)%nat by lia. subst.
    unfold fadj, toF, mget; simpl. apply c_eq; simpl; ring.
Qed.

(* --- identifier selection returns the slice of the full derivative (any instance of Ops) --- *)
Theorem C11_slice_commutes : forall d thr th3 thrA evs Vs Qs omega basis nopers copers ncoeffs dts ts use_ncd ncd n_idx c_idx,
  List.Forall (fun i => (i < List.length nopers)%nat) n_idx -> List.Forall (fun i => (i < List.length copers)%nat) c_idx ->
  ctrlmat_deriv RO d thr th3 thrA evs Vs Qs omega basis (select [] n_idx nopers) (select [] c_idx copers)
                (select [] n_idx ncoeffs) dts ts use_ncd (select [] n_idx (map (select [] c_idx) ncd))
  = select [] n_idx (map (select [] c_idx)
      (ctrlmat_deriv RO d thr th3 thrA evs Vs Qs omega basis nopers copers ncoeffs dts ts use_ncd ncd)).
Proof. exact (slice_commutes RO). Qed.
Print Assumptions C11_slice_commutes.

(* enclosure of the real-valued model by its interval evaluation (paramcoq): Inst/EnclosureC11.v, kept outside this
   file's dependency cone like Inst/Enclosure.v (it loads Coq-Interval, which makes coqchk of the cone very slow) *)

(* --- the sensitivity-derivative term n_coeffs_deriv * ctrlmat_step_unit (fix 26b5723): product rule for EVERY s --- *)
Theorem C11_sens_product_rule : forall (s : R -> R) (b : R -> Cx) u ds db,
  is_derive s u ds -> cderive b u db ->
  cderive (fun v => cscal RO (s v) (b v)) u (cadd' (cscal RO (s u) db) (sens_term RO ds (b u))).
Proof. exact sens_product_rule. Qed.
(* pre-fix (s'/s)*(s*b): the same for s <> 0, wrong for s = 0 (finding c11-zero-sensitivity-nan) *)
Theorem C11_sens_term_prefix_correct : forall (ncd s : R) (b : Cx), s <> 0 ->
  sens_term_prefix ncd s (cscal RO s b) = sens_term RO ncd b.
Proof. exact sens_term_prefix_correct. Qed.
Theorem C11_sens_term_prefix_refuted : exists (ncd : R) (b : Cx), sens_term_prefix ncd 0 (cscal RO 0 b) <> sens_term RO ncd b.
Proof. exact sens_term_prefix_refuted. Qed.

(* --- the identity component removed by infidelity() and (fix 49bf6b9) by infidelity_derivative --- *)
Theorem C11_identity_term_deriv : forall (d G g0 : nat) (tr : Cx) (seg : nat -> Cx) (s : nat -> R -> R) (ds : R) u,
  (g0 < G)%nat ->
  (forall g, (g < G)%nat -> is_derive (s g) u (if Nat.eqb g g0 then ds else 0)) ->
  is_derive (fun v => cabs2 RO (cmul' tr (csumn' G (fun g => cscal RO (s g v) (seg g)))) / IZR (Z.of_nat d)) u
    (2 * fst (cmul' (cconj' (cmul' tr (csumn' G (fun g => cscal RO (s g u) (seg g)))))
                    (ident_deriv_entry RO tr ds (seg g0))) / IZR (Z.of_nat d)).
Proof. exact identity_term_deriv. Qed.
Theorem C11_ffd_minus_ident_eq : forall (d : nat) FD (id idd : Cx),
  ffd_minus_ident RO d FD id idd = FD - 2 * fst (cmul' (cconj' id) idd) / IZR (Z.of_nat d).
Proof. exact ffd_minus_ident_eq. Qed.

(* --- change of the time unit: exact homogeneity of degree 2 with the dimensionless masks (fix 602caf6) --- *)
Theorem C11_time_scaling : forall lam, 0 < lam -> forall thr_dE thr_s w ev dt p q m n,
  0 < thr_dE -> 0 < thr_s ->
  deriv_integral_entry RO (thr_dE, thr_s) (w / lam) (map (fun e => e / lam) ev) (dt * lam) p q m n
  = cscal RO (lam * lam) (deriv_integral_entry RO (thr_dE, thr_s) w ev dt p q m n).
Proof. exact time_scaling. Qed.
Print Assumptions C11_time_scaling.
(* pre-fix (absolute masks, finding c11-absolute-threshold): not homogeneous (extracted threshold, lam = 2^27) *)
Theorem C11_time_scaling_prefix_refuted :
  let thr := Rdya 944473296573929 (-73) in
  exists lam w dt : R, 0 < lam /\
    deriv_integral_entry_prefix (thr, thr, thr) (w / lam) [0] (dt * lam) 0 0 0 0
    <> cscal RO (lam * lam) (deriv_integral_entry_prefix (thr, thr, thr) w [0] dt 0 0 0 0).
Proof. exact time_scaling_prefix_refuted. Qed.

(* --- the list-level functions evaluated by the correspondence check consist of the entries above (any Ops) --- *)
Theorem C11_ctrlmat_deriv_entry : forall d thr th3 thrA evs Vs Qs omega basis nopers copers ncoeffs dts ts use_ncd ncd a h s o k,
  (a < List.length nopers)%nat -> (h < List.length copers)%nat -> (s < List.length dts)%nat ->
  (o < List.length omega)%nat -> (k < List.length basis)%nat ->
  let G := List.length dts in let nj := List.length basis in let no := List.length omega in
  let phases := sh_phase RO ts omega G in
  let BTs := sh_BT RO d Vs basis in
  let NTs := noise_NT RO d Vs (nthm nopers a) (nthv ncoeffs a) G in
  let steps := noise_steps RO d G nj no phases BTs (sh_ints RO d thr evs dts omega) NTs in
  let cd := nth h (map (ctrl_data RO d thrA G nj evs Vs Qs dts (sh_X RO d Qs basis G)) copers) ([], []) in
  let steps_unit := noise_steps RO d G nj no phases BTs (sh_ints RO d thr evs dts omega)
                                (noise_NT_unit RO d Vs (nthm nopers a) G) in
  let SD := pair_SD RO d G nj no phases BTs (sh_DIs RO d th3 evs dts omega) NTs (fst cd) steps_unit use_ncd
                    (nth2 [] ncd a h) in
  nth k (nth o (nth s (nth h (nth a
    (ctrlmat_deriv RO d thr th3 thrA evs Vs Qs omega basis nopers copers ncoeffs dts ts use_ncd ncd) []) []) []) []) 0c
  = assemble_entry RO nj G (fun j => nth3 0c SD s j o) (rget RO (nth s (sh_Ls RO d Qs basis) []))
      (fun g j => nth3 0c steps g j o) (fun t j k' => nth4 0 (snd cd) t s j k') k.
Proof. exact (ctrlmat_deriv_entry RO). Qed.
Theorem C11_pair_SD_entry : forall d G nj no phases BTs DIs NTs CBs steps_unit use_ncd ncd_row g j o,
  (g < G)%nat -> (j < nj)%nat -> (o < no)%nat ->
  nth3 0c (pair_SD RO d G nj no phases BTs DIs NTs CBs steps_unit use_ncd ncd_row) g j o
  = let base := step_deriv_entry RO d (nth2 0c phases g o) (nth2 [] BTs g j)
                  (mbuild d d (M_entry RO d (a4get RO (nth2 [] DIs g o)) (nthm CBs g) (nthm NTs g))) in
    if use_ncd then cadd' base (sens_term RO (vg RO ncd_row g) (nth3 0c steps_unit g j o))
    else base.
Proof. exact (pair_SD_entry RO). Qed.
Theorem C11_a4get_deriv_integral : forall d th3 w ev dt p q m n, (p < d)%nat -> (q < d)%nat -> (m < d)%nat -> (n < d)%nat ->
  a4get RO (deriv_integral RO d th3 w ev dt) p q m n = deriv_integral_entry RO th3 w ev dt p q m n.
Proof. exact (a4get_deriv_integral RO). Qed.
Theorem C11_filter_function_derivative_entry : forall na nh G nj no Bm CD a s h o,
  (a < na)%nat -> (s < G)%nat -> (h < nh)%nat -> (o < no)%nat ->
  nth4 0 (filter_function_derivative RO na nh G nj no Bm CD) a s h o
  = ffd_entry RO nj (fun k => a3get RO Bm a k o)
                    (fun k => nth k (nth o (nth s (nth h (nth a CD []) []) []) []) 0c).
Proof. exact (filter_function_derivative_entry RO). Qed.

(* --- the per-segment derivative (general expression, every d) is the Duhamel commutator integral --- *)
(* M[r,c] = int_0^dt e^{i w t} [Phi_h(t), N_a(t)]_rc dt  with Phi_h(t) = int_0^t e^{iHs} C_h e^{-iHs} ds and
   N_a(t) = e^{iHt} B_a e^{-iHt} in the eigenbasis (no Taylor-branch approximation: masked => exactly zero) *)
Theorem C11_Mgen_commutator_integral : forall d w ev (Cb NT : Mat) thr_dE thr_s dt,
  0 < thr_dE /\ 0 < thr_s ->
  (forall p q m n, (p < d)%nat -> (q < d)%nat -> (m < d)%nat -> (n < d)%nat ->
    (Rabs (di_b ev p q * dt) < thr_dE -> di_b ev p q = 0) /\
    (Rabs (di_b ev p q * dt) < thr_dE -> Rabs (di_x w ev m n * dt) < thr_s -> di_x w ev m n = 0)) ->
  forall r c, (r < d)%nat -> (c < d)%nat ->
  cRInt (comm_integrand d w ev Cb NT r c) 0 dt
        (M_entry RO d (deriv_integral_entry RO (thr_dE, thr_s) w ev dt) Cb NT r c).
Proof. exact Mgen_commutator_integral. Qed.
Print Assumptions C11_Mgen_commutator_integral.

Theorem C11_step_deriv_commutator_integral : forall d w ev (Cb NT : Mat) thr_dE thr_s dt,
  0 < thr_dE /\ 0 < thr_s ->
  (forall p q m n, (p < d)%nat -> (q < d)%nat -> (m < d)%nat -> (n < d)%nat ->
    (Rabs (di_b ev p q * dt) < thr_dE -> di_b ev p q = 0) /\
    (Rabs (di_b ev p q * dt) < thr_dE -> Rabs (di_x w ev m n * dt) < thr_s -> di_x w ev m n = 0)) ->
  forall (phase : Cx) (BTj : Mat),
  cRInt (fun t => cmul' phase (csumn' d (fun n => csumn' d (fun k =>
                    cmul' (cmul' ic (mget RO BTj n k)) (comm_integrand d w ev Cb NT k n t))))) 0 dt
        (step_deriv_entry RO d phase BTj
           (mbuild d d (M_entry RO d (deriv_integral_entry RO (thr_dE, thr_s) w ev dt) Cb NT))).
Proof. exact step_deriv_commutator_integral. Qed.

(* hypotheses satisfiable: two-level segment with eigenvalues 0, 1 at frequency 3, dt = 1, extracted thresholds *)
Example C11_mask_exact_sat :
  let thr := Rdya (fst di_thr_dE) (snd di_thr_dE) in
  let thr_s := Rdya (fst di_thr_series) (snd di_thr_series) in
  forall p q m n, (p < 2)%nat -> (q < 2)%nat -> (m < 2)%nat -> (n < 2)%nat ->
    (Rabs (di_b [0; 1] p q * 1) < thr -> di_b [0; 1] p q = 0) /\
    (Rabs (di_b [0; 1] p q * 1) < thr -> Rabs (di_x 3 [0; 1] m n * 1) < thr_s -> di_x 3 [0; 1] m n = 0).
Proof.
  assert (P : 0 < Rdya (fst di_thr_dE) (snd di_thr_dE) < 1).
  { apply (Rdya_small 944473296573929 73); reflexivity. }
  assert (P2 : 0 < Rdya (fst di_thr_series) (snd di_thr_series) < 1).
  { apply (Rdya_small 5764607523034235 59); reflexivity. }
  cbv zeta. set (thr := Rdya (fst di_thr_dE) (snd di_thr_dE)) in *.
  set (thr_s := Rdya (fst di_thr_series) (snd di_thr_series)) in *.
  intros p q m n Hp Hq Hm Hn.
  destruct p as [|[|p]]; [| |lia]; (destruct q as [|[|q]]; [| |lia]); (destruct m as [|[|m]]; [| |lia]);
    (destruct n as [|[|n]]; [| |lia]); unfold di_b, di_x, vg, vget; simpl;
    split; intros H; try ring; try (exfalso; apply Rabs_def2 in H; lra);
    intros H'; exfalso; apply Rabs_def2 in H'; lra.
Qed.

(* --- the Taylor-series window of _derivative_integral (|x dt| < thr_s <= 1, the extracted thr_s is 0.01): the value
       used differs from the exact integral int_0^dt t e^{ixt} dt by at most dt^2 (x dt)^6/5760 (real part) and
       dt^2 |x dt|^5/840 (imaginary part): < 2e-13 relative to dt^2/2 --- *)
Theorem C11_di_series_bound : forall thr_s x dt Ire Iim, 0 <= dt -> thr_s <= 1 -> Rabs (x * dt) < thr_s ->
  is_RInt (dint_re x 0) 0 dt Ire -> is_RInt (dint_im x 0) 0 dt Iim ->
  Rabs (fst (di_tmp1 RO thr_s x dt) - Ire) <= dt * dt * ((x * dt) ^ 6 / 5760) /\
  Rabs (snd (di_tmp1 RO thr_s x dt) - Iim) <= dt * dt * (Rabs (x * dt) ^ 5 / 840).
Proof. exact di_tmp1_series_bound. Qed.
Print Assumptions C11_di_series_bound.
(* the extracted series threshold satisfies the hypothesis *)
Example C11_di_series_thr_le_1 : 0 < Rdya (fst di_thr_series) (snd di_thr_series) <= 1.
Proof. destruct (Rdya_small 5764607523034235 59) as [A B]; try reflexivity. split; [exact A | left; exact B]. Qed.

(* ------------------------------------------------------------------------------------------------
   Semantic tie of gradient._derivative_integral (Proofs/KernelTieC11.v; docs/notes/kernel-tie.md): the term translated on every
   run from the CURRENT Python body by tools/kernel_extract.py (masks, np.divide(.., where=..) into fresh arrays, the
   compacting selections dE[~mask_dE] / out[:, mask_dE] = .., np.polyval, the transposition) IS deriv_integral_entry, for any
   previous contents of `out` and of the arrays allocated for the where= calls (junk) and any positive thresholds; the
   literals of the source are the constants the model is evaluated with.
   ------------------------------------------------------------------------------------------------ *)
From FF Require Import Extracted.Kernels Proofs.KernelTieC11.

Theorem C11_kernels_translated : kernel_untranslated_C11 = nil.
Proof. exact kernels_translated_C11. Qed.

Theorem C11_kernel_deriv_integral_is_source : forall thr_dE thr_s w (ev : list R) dt junk o p q m n, 0 < thr_dE -> 0 < thr_s ->
  deriv_integral_entry RO (thr_dE, thr_s) w ev dt p q m n =
  deriv_integral_entry_src RO thr_dE thr_s w (vg RO ev p) (vg RO ev q) (vg RO ev m) (vg RO ev n) dt junk o p q m n.
Proof. exact deriv_integral_is_source. Qed.
Print Assumptions C11_kernel_deriv_integral_is_source.

Theorem C11_kernel_deriv_integral_literals :
  deriv_integral_entry_src_lit_thr_dE = di_thr_dE /\ deriv_integral_entry_src_lit_thr_s = di_thr_series.
Proof. split; reflexivity. Qed.

Theorem C11_kernel_ffd_is_source : forall nk (Bm : nat -> nat -> nat -> C (T:=R)) (dB : nat -> nat -> nat -> nat -> nat -> C (T:=R)) a t h o,
  ffd_entry RO nk (fun k => Bm a k o) (fun k => dB h o t a k) = ffd_entry_src RO nk Bm dB a t h o.
Proof. exact ffd_is_source. Qed.
