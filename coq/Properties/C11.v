(* C11 -- analytic gradients equal the derivative of the infidelity they differentiate.
   This file contains only statements closed by [exact <lemma>], their assumptions, and examples
   showing that hypotheses are satisfiable.  Level: partial (see docs/notes/C11.md).            *)
From Coq Require Import ZArith Reals Lra Lia List Bool String.
From Coquelicot Require Import Coquelicot.
From FF Require Import Base.Ops Inst.RInst Base.RAlg Model.Numeric Model.Gradient Model.GradConsts
     Model.Tie.C11 Proofs.Foi Proofs.MatAlg Proofs.Gradient.
Import ListNotations.
Local Open Scope R_scope.

(* --- gradient._derivative_integral: every branch is the parameter integral
       int_0^dt e^{i x t} (int_0^t e^{i b s} ds) dt, x = w + Omega_mn, b = Omega_pq; the masked
       branches are its values at the degenerate parameters (limits consistent) --- *)
Theorem C11_deriv_integral_cases : forall thr_dE thr_x thr_y w ev dt p q m n,
  0 < thr_dE -> 0 < thr_x -> 0 < thr_y ->
  (Rabs (di_b ev p q) < thr_dE -> di_b ev p q = 0) ->
  (Rabs (di_x w ev m n) < thr_x -> di_x w ev m n = 0) ->
  (Rabs (di_x w ev m n + di_b ev p q) < thr_y -> di_x w ev m n + di_b ev p q = 0) ->
  is_RInt (dint_re (di_x w ev m n) (di_b ev p q)) 0 dt
          (fst (deriv_integral_entry RO (thr_dE, thr_x, thr_y) w ev dt p q m n)) /\
  is_RInt (dint_im (di_x w ev m n) (di_b ev p q)) 0 dt
          (snd (deriv_integral_entry RO (thr_dE, thr_x, thr_y) w ev dt p q m n)).
Proof. exact deriv_integral_cases. Qed.
Print Assumptions C11_deriv_integral_cases.

(* the integrand is e^{i x t} times the inner integral of e^{i b s} over [0, t] *)
Theorem C11_inner_integral : forall b t,
  is_RInt (fun s => cos (b * s)) 0 t (Ic b t) /\ is_RInt (fun s => sin (b * s)) 0 t (Is b t).
Proof. exact inner_integral. Qed.

(* hypotheses satisfiable: a non-degenerate two-level segment at a generic frequency *)
Example C11_deriv_integral_cases_sat :
  let thr := Rdya (fst di_thr_dE) (snd di_thr_dE) in
  0 < thr /\
  (Rabs (di_b [0; 1] 0 1) < thr -> di_b [0; 1] 0 1 = 0) /\
  (Rabs (di_x 3 [0; 1] 0 1) < thr -> di_x 3 [0; 1] 0 1 = 0) /\
  (Rabs (di_x 3 [0; 1] 0 1 + di_b [0; 1] 0 1) < thr -> di_x 3 [0; 1] 0 1 + di_b [0; 1] 0 1 = 0).
Proof.
  assert (P : 0 < Rdya (fst di_thr_dE) (snd di_thr_dE) < 1).
  { apply (Rdya_small 944473296573929 73); reflexivity. }
  cbv zeta. split. apply P.
  set (thr := Rdya (fst di_thr_dE) (snd di_thr_dE)) in *.
  unfold di_b, di_x, vg, vget; simpl.
  repeat split; intros H; exfalso; apply Rabs_def2 in H; lra.
Qed.

(* every division of _derivative_integral is guarded by a mask *)
Theorem C11_di_div_safe : forall thr_dE thr_x thr_y w ev p q m n, 0 < thr_dE -> 0 < thr_x -> 0 < thr_y ->
  forall bx, In bx (di_denoms RO (thr_dE, thr_x, thr_y) w ev p q m n) -> fst bx = false -> snd bx <> 0.
Proof. exact di_div_safe. Qed.

(* --- calculate_filter_function_derivative: dF_aa = 2 Re sum_k conj(B_ak) dB_ak --- *)
Theorem C11_ff_deriv : forall n (Bk : nat -> R -> Cx) (dBk : nat -> Cx) u,
  (forall k, (k < n)%nat -> cderive (Bk k) u (dBk k)) ->
  is_derive (fun v => ff_diag n (fun k => Bk k v)) u (ffd_entry RO n (fun k => Bk k u) dBk).
Proof. exact ff_deriv. Qed.
Print Assumptions C11_ff_deriv.
Theorem C11_ff_diag_is_filter_function : forall na nk no Bm a o, (a < na)%nat -> (o < no)%nat ->
  fst (a3get RO (filter_function RO na nk no Bm) a a o) = ff_diag nk (fun k => a3get RO Bm a k o).
Proof. exact ff_diag_filter_function. Qed.

(* --- calculate_derivative_of_control_matrix_from_scratch: product rule --- *)
Theorem C11_assembly_product_rule : forall G nj s k (Bg : nat -> nat -> R -> Cx)
        (Lg : nat -> nat -> nat -> R -> R) (dB : nat -> nat -> Cx) (dL : nat -> nat -> nat -> R) u,
  (s < G)%nat ->
  (forall g j, (g < G)%nat -> (j < nj)%nat -> cderive (Bg g j) u (dB g j)) ->
  (forall g j, (g < G)%nat -> (j < nj)%nat -> is_derive (Lg g j k) u (dL g j k)) ->
  (forall g j, (g < G)%nat -> (j < nj)%nat -> g <> s -> dB g j = 0c) ->
  (forall j, (j < nj)%nat -> dL O j k = 0) ->
  cderive (fun v => cm_total G nj (fun g j => Bg g j v) (fun g j k' => Lg g j k' v) k) u
    (assemble_entry RO nj G (dB s) (fun j k' => Lg s j k' u) (fun g j => Bg g j u)
                    (fun t j k' => dL (S t) j k') k).
Proof. exact assembly_product_rule. Qed.
Print Assumptions C11_assembly_product_rule.

(* --- the d == 2 shortcut --- *)
Theorem C11_d2_shortcut_eq_general_traceless : forall (DI : nat -> nat -> nat -> nat -> Cx) (Cb NT : Mat),
  (forall p p' m n, DI p p m n = DI p' p' m n) ->
  (forall p q m m', DI p q m m = DI p q m' m') ->
  mtrace RO 2 Cb = 0c -> mtrace RO 2 NT = 0c ->
  forall r c, (r < 2)%nat -> (c < 2)%nat ->
  Mshort_entry RO 2 DI Cb NT r c = Mgen_entry RO 2 DI Cb NT r c.
Proof. exact d2_shortcut_eq_general_traceless. Qed.
Theorem C11_d2_shortcut_eq_general_model : forall th3 w ev dt (Cb NT : Mat),
  mtrace RO 2 Cb = 0c -> mtrace RO 2 NT = 0c ->
  forall r c, (r < 2)%nat -> (c < 2)%nat ->
  M_entry RO 2 (deriv_integral_entry RO th3 w ev dt) Cb NT r c
  = Mgen_entry RO 2 (deriv_integral_entry RO th3 w ev dt) Cb NT r c.
Proof. exact d2_shortcut_eq_general_model. Qed.
(* FINDING (c11-d2-shortcut-nontraceless): for non-traceless operators the shortcut is wrong *)
Theorem C11_d2_shortcut_refuted : forall thr_dE thr_x thr_y, 0 < thr_dE -> 0 < thr_x -> 0 < thr_y ->
  exists (w dt : R) (ev : list R) (Cb NT : Mat) (r c : nat), (r < 2)%nat /\ (c < 2)%nat /\
    vg RO ev 0 <> vg RO ev 1 /\
    M_entry RO 2 (deriv_integral_entry RO (thr_dE, thr_x, thr_y) w ev dt) Cb NT r c
    <> Mgen_entry RO 2 (deriv_integral_entry RO (thr_dE, thr_x, thr_y) w ev dt) Cb NT r c.
Proof. exact d2_shortcut_refuted. Qed.
Print Assumptions C11_d2_shortcut_refuted.

(* --- finiteness of _liouville_derivative --- *)
Theorem C11_amat_div_safe_distinct : forall d ev,
  (forall i j, (i < d)%nat -> (j < d)%nat -> i <> j -> vg RO ev i <> vg RO ev j) ->
  forall x, In x (amat_denoms RO d ev) -> x <> 0.
Proof. exact amat_div_safe_distinct. Qed.
(* FINDING (c11-degenerate-segment-nan): two equal eigenvalues => division by zero outside the mask *)
Theorem C11_finite_refuted_degenerate : forall d ev i j, (i < d)%nat -> (j < d)%nat -> i <> j ->
  vg RO ev i = vg RO ev j -> In 0 (amat_denoms RO d ev).
Proof. exact finite_refuted_degenerate. Qed.
Theorem C11_finite_refuted : exists d ev, In 0 (amat_denoms RO d ev).
Proof. exact finite_refuted. Qed.

(* --- spectrum shapes --- *)
(* FINDING (c11-spectrum-shape-subset) *)
Theorem C11_spectrum_shape_refuted : exists shape n_selected n_all n_omega,
  (n_selected <= n_all)%nat /\
  infidelity_accepts shape n_selected n_all n_omega = true /\
  infidelity_derivative_accepts shape n_selected n_all n_omega = false.
Proof. exact spectrum_shape_refuted. Qed.
