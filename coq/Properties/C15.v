(* C15 -- the Liouville representation is a real orthogonal homomorphism on every code path; the
   Choi conversion and the CP / cCP tests give the mathematically correct verdict.
   This file contains only statements closed by [exact <lemma>], their assumptions and Examples
   showing that the hypotheses are satisfiable.                                               *)
From Coq Require Import ZArith Reals List Permutation.
From FF Require Import Base.Ops Inst.RInst Base.RAlg Model.Numeric Model.Superop Model.Tie.C15
                       Proofs.SuperopAlg Proofs.Superop Proofs.SuperopEx Proofs.SuperopEncl Proofs.SuperopIdx.
Import ListNotations.
Local Open Scope R_scope.

(* ---------- hypotheses on the basis (list model): Hermitian, orthonormal, complete ----------
   basis_herm d b      : (C_i)^dagger = C_i
   basis_orth d b      : tr(C_i C_j) = delta_ij
   basis_complete d b  : sum_k tr(C_k X) C_k = X for every X
   close_exact d b     : if b passes the code's test `b == Basis.ggm(d)` (entrywise within eps d^3, computed by the
                         model: basis_is_ggm_flag) then b is Basis.ggm(d); needed only for the EXACT statements on
                         the closed-form path -- C15_all_paths below has no such hypothesis                     *)
Example C15_hypotheses_satisfiable : basis_herm 2 pauli1 /\ basis_orth 2 pauli1 /\ basis_complete 2 pauli1 /\ close_exact 2 pauli1.
Proof. exact (conj pauli_herm (conj pauli_orth (conj pauli_complete (fun _ => pauli1_is_ggm2)))). Qed.

(* L_ij = tr(C_i U C_j U^dagger), and this number is real (taking .real loses nothing) -- all paths *)
Theorem C15_liouville_entries : forall d basis is_ggm U i j,
  close_exact d basis -> basis_herm d basis -> (i < length basis)%nat -> (j < length basis)%nat ->
  ftr d (fmul d (Cl basis i) (fmul d (toF U) (fmul d (Cl basis j) (fadj (toF U)))))
  = (rget RO (liouville_representation RO d is_ggm U basis) i j, 0).
Proof. exact liouville_entries. Qed.
Print Assumptions C15_liouville_entries.

Theorem C15_liouville_id : forall d basis is_ggm i j,
  close_exact d basis -> basis_orth d basis -> (i < length basis)%nat -> (j < length basis)%nat ->
  rget RO (liouville_representation RO d is_ggm (mid RO d) basis) i j = if Nat.eqb i j then 1 else 0.
Proof. exact liouville_id. Qed.
Print Assumptions C15_liouville_id.

Theorem C15_liouville_mult : forall d basis is_ggm U V i j,
  close_exact d basis -> basis_herm d basis -> basis_complete d basis ->
  (i < length basis)%nat -> (j < length basis)%nat ->
  rget RO (liouville_representation RO d is_ggm (mmul RO d U V) basis) i j
  = sumn' (length basis) (fun k => rget RO (liouville_representation RO d is_ggm U basis) i k
                                   * rget RO (liouville_representation RO d is_ggm V basis) k j).
Proof. exact liouville_mult. Qed.
Print Assumptions C15_liouville_mult.

Theorem C15_liouville_orthogonal : forall d basis is_ggm U i j,
  close_exact d basis -> basis_herm d basis -> basis_orth d basis -> basis_complete d basis ->
  funitary d (toF U) -> (i < length basis)%nat -> (j < length basis)%nat ->
  sumn' (length basis) (fun k => rget RO (liouville_representation RO d is_ggm U basis) k i
                                 * rget RO (liouville_representation RO d is_ggm U basis) k j)
    = (if Nat.eqb i j then 1 else 0) /\
  sumn' (length basis) (fun k => rget RO (liouville_representation RO d is_ggm U basis) i k
                                 * rget RO (liouville_representation RO d is_ggm U basis) j k)
    = (if Nat.eqb i j then 1 else 0).
Proof. exact liouville_orthogonal. Qed.
Print Assumptions C15_liouville_orthogonal.

Theorem C15_liouville_adjoint : forall d basis is_ggm U i j,
  close_exact d basis -> (i < length basis)%nat -> (j < length basis)%nat ->
  rget RO (liouville_representation RO d is_ggm (madj RO d U) basis) i j
  = rget RO (liouville_representation RO d is_ggm U basis) j i.
Proof. exact liouville_adjoint. Qed.

(* stacks of unitaries *)
Theorem C15_stack_entries : forall d basis is_ggm (Us : list (Mat (T:=R))) t i j,
  close_exact d basis -> basis_herm d basis -> (t < length Us)%nat ->
  (i < length basis)%nat -> (j < length basis)%nat ->
  ftr d (fmul d (Cl basis i) (fmul d (toF (nth t Us [])) (fmul d (Cl basis j) (fadj (toF (nth t Us []))))))
  = (rget RO (nth t (liouville_stack RO d is_ggm Us basis) []) i j, 0).
Proof. exact liouville_stack_entries. Qed.
Theorem C15_stack_mult : forall d basis is_ggm Us Vs t i j,
  close_exact d basis -> basis_herm d basis -> basis_complete d basis ->
  (t < length Us)%nat -> (t < length Vs)%nat -> (i < length basis)%nat -> (j < length basis)%nat ->
  rget RO (nth t (liouville_stack RO d is_ggm (stack_mul d Us Vs) basis) []) i j
  = sumn' (length basis) (fun k => rget RO (nth t (liouville_stack RO d is_ggm Us basis) []) i k
                                   * rget RO (nth t (liouville_stack RO d is_ggm Vs basis) []) k j).
Proof. exact liouville_stack_mult. Qed.
Theorem C15_stack_orthogonal : forall d basis is_ggm (Us : list (Mat (T:=R))) t i j,
  close_exact d basis -> basis_herm d basis -> basis_orth d basis -> basis_complete d basis ->
  (t < length Us)%nat -> funitary d (toF (nth t Us [])) -> (i < length basis)%nat -> (j < length basis)%nat ->
  let L := nth t (liouville_stack RO d is_ggm Us basis) [] in
  sumn' (length basis) (fun k => rget RO L k i * rget RO L k j) = (if Nat.eqb i j then 1 else 0) /\
  sumn' (length basis) (fun k => rget RO L i k * rget RO L j k) = (if Nat.eqb i j then 1 else 0).
Proof. exact liouville_stack_orthogonal. Qed.
Print Assumptions C15_stack_mult.

(* the closed-form Gell-Mann expansion (path d > 12) equals the generic expansion, for every d *)
Theorem C15_ggm_expand_eq_expand : forall d M, ggm_expand_re RO d M = expand_re RO d M (ggm_basis RO d).
Proof. exact ggm_expand_eq_expand. Qed.
Theorem C15_ggm_path_eq_generic : forall d U,
  liouville_closed RO d U (ggm_basis RO d) = liouville_generic RO d U (ggm_basis RO d).
Proof. exact ggm_path_eq_generic. Qed.
Print Assumptions C15_ggm_path_eq_generic.
(* the index arrays as the source computes them (np.repeat / the closed formula for k) give the pair list of the
   model, for every d *)
Theorem C15_ggm_index_full : forall d, ggm_pairs_src d = ggm_pairs d.
Proof. exact ggm_pairs_src_eq. Qed.
Print Assumptions C15_ggm_index_full.
(* EVERY path, no hypothesis on labels: the path switch of the model computes the comparison with Basis.ggm(d)
   itself; the result differs from the generic expansion by at most eps d^3 |U^dagger C_i U|_1 (entrywise l1 norm),
   and is the generic expansion itself whenever the guard fails *)
Theorem C15_all_paths : forall d basis is_ggm U i j, (i < length basis)%nat -> (j < length basis)%nat ->
  Rabs (rget RO (liouville_representation RO d is_ggm U basis) i j - rget RO (liouville_generic RO d U basis) i j)
  <= basis_atol RO d * l1norm d (toF (transform_by_unitary RO d U (nthm basis i))).
Proof. exact liouville_all_paths. Qed.
Print Assumptions C15_all_paths.
Theorem C15_all_paths_exact : forall d basis is_ggm U i j, close_exact d basis ->
  (i < length basis)%nat -> (j < length basis)%nat ->
  rget RO (liouville_representation RO d is_ggm U basis) i j = rget RO (liouville_generic RO d U basis) i j.
Proof. exact liouville_all_paths_exact. Qed.
Theorem C15_guard_false : forall d basis is_ggm U, guard d basis is_ggm = false ->
  liouville_representation RO d is_ggm U basis = liouville_generic RO d U basis.
Proof. exact liouville_guard_false. Qed.
(* what the `==` test of the path switch establishes, and that Basis.ggm(d) has d^2 elements *)
Theorem C15_ggm_test_spec : forall d basis, basis_is_ggm_flag RO d basis = 1 <-> basis_close d basis.
Proof. exact ggm_flag_one_iff. Qed.
Theorem C15_ggm_basis_length : forall d, (0 < d)%nat -> length (ggm_basis RO d) = (d * d)%nat.
Proof. exact ggm_basis_length. Qed.
(* the matrix used by the concatenation rule (Model/Numeric.v) is the same one *)
Theorem C15_numeric_liouville : forall d basis U i j, (i < length basis)%nat -> (j < length basis)%nat ->
  rget RO (liouville RO d U basis) i j = rget RO (liouville_generic RO d U basis) i j.
Proof. exact liouville_numeric_entry. Qed.

(* Repaired finding (commit 63446ae).  Before the fix the path switch trusted the label: on a re-ordered Gell-Mann
   basis that still carries btype 'GGM' (d = 13) the identity was not mapped to the identity ... *)
Theorem C15_label_prefix_refuted :
  Permutation ggm13_swapped (ggm_basis RO 13) /\
  rget RO (liouville_representation_prefix RO 13 true (mid RO 13) ggm13_swapped) 1 1 = 0 /\
  rget RO (liouville_generic RO 13 (mid RO 13) ggm13_swapped) 1 1 = 1.
Proof. exact closed_path_trusts_label. Qed.
Print Assumptions C15_label_prefix_refuted.
(* ... now the comparison with Basis.ggm(13) fails for that basis and the generic expansion is used *)
Theorem C15_label_is_checked :
  rget RO (liouville_representation RO 13 true (mid RO 13) ggm13_swapped) 1 1 = 1.
Proof. exact label_is_checked. Qed.

(* ---------- Choi matrix ---------- *)
Theorem C15_choi_formula : forall d, (0 < d)%nat -> forall basis S Phi r c,
  basis_complete d basis -> lin_map d (length basis) (Cl basis) Phi ->
  (forall i j, (i < length basis)%nat -> (j < length basis)%nat -> Sfun S i j = liou_of d (Cl basis) Phi i j) ->
  (r < d * d)%nat -> (c < d * d)%nat ->
  toF (liouville_to_choi RO d S basis) r c = Phi (Eab (r / d) (c / d)) (r mod d)%nat (c mod d)%nat.
Proof. exact choi_formula. Qed.
Print Assumptions C15_choi_formula.
Theorem C15_choi_hermitian : forall d basis S, (0 < d)%nat -> basis_herm d basis ->
  fherm (d * d) (toF (liouville_to_choi RO d S basis)).
Proof. exact choi_hermitian. Qed.

(* unitary channel: Choi = |U>><<U| (rank one); Kraus maps with non-negative weights (unitary channels,
   convex mixtures): x^dagger Choi x >= 0 *)
Theorem C15_choi_unitary_rank1 : forall d basis S U r c,
  basis_herm d basis -> basis_complete d basis ->
  (forall i j, (i < length basis)%nat -> (j < length basis)%nat -> rget RO S i j = Lr d (Cl basis) U i j) ->
  (r < d * d)%nat -> (c < d * d)%nat ->
  toF (liouville_to_choi RO d S basis) r c = cmul' (U (r mod d) (r / d))%nat (cconj' (U (c mod d) (c / d))%nat).
Proof. exact choi_unitary_rank1. Qed.
Theorem C15_choi_kraus_psd : forall d basis S m w K x,
  basis_herm d basis -> basis_complete d basis -> S_is_kraus d basis S m w K ->
  (forall k, (k < m)%nat -> 0 <= w k) ->
  0 <= fst (qform (d * d) (toF (liouville_to_choi RO d S basis)) x).
Proof. exact choi_kraus_psd_list. Qed.
Print Assumptions C15_choi_kraus_psd.
Theorem C15_kraus_verdict_CP : forall d basis S m w K Dl V atol,
  basis_herm d basis -> basis_complete d basis -> S_is_kraus d basis S m w K ->
  (forall k, (k < m)%nat -> 0 <= w k) -> 0 <= atol ->
  eig_valid (d * d) Dl V (toF (liouville_to_choi RO d S basis)) ->
  liouville_is_CP RO d atol Dl = 1.
Proof. exact kraus_flag_CP. Qed.
Print Assumptions C15_kraus_verdict_CP.
Theorem C15_kraus_negative_not_psd : forall d basis S m w K k0,
  basis_herm d basis -> basis_complete d basis -> S_is_kraus d basis S m w K ->
  (k0 < m)%nat -> w k0 < 0 ->
  (forall k, (k < m)%nat -> k <> k0 -> kvec d K k (fun r => K k0 (r mod d) (r / d))%nat = 0c) ->
  kvec d K k0 (fun r => K k0 (r mod d) (r / d))%nat <> 0c ->
  exists x, fst (qform (d * d) (toF (liouville_to_choi RO d S basis)) x) < 0.
Proof. exact kraus_negative_not_psd. Qed.

(* Lindblad generators K(X) = G X + X G^dagger + sum_k gamma_k L_k X L_k^dagger, gamma_k >= 0 *)
Theorem C15_lindblad_generator_form : forall d m gam Lk G X,
  feq d (lindblad_map d m gam Lk G X)
        (fadd (fadd (fmul d G X) (fmul d X (fadj G)))
              (flin m (fun k => (gam k, 0)) (fun k => fmul d (Lk k) (fmul d X (fadj (Lk k)))))).
Proof. exact lindblad_map_spec. Qed.
(* with G = -iH - M/2, M = sum_k gamma_k L_k^dagger L_k:  G X + X G^dagger = -i[H,X] - {M,X}/2 *)
Theorem C15_lindblad_standard_form : forall d m gam Lk H X, fherm d H ->
  feq d (fadd (fmul d (Gstd d m gam Lk H) X) (fmul d X (fadj (Gstd d m gam Lk H))))
        (fun i j => cadd' (cmul' (0, -1) (csub' (fmul d H X i j) (fmul d X H i j)))
                          (cmul' (- (1 / 2), 0) (cadd' (fmul d (Msum d m gam Lk) X i j) (fmul d X (Msum d m gam Lk) i j)))).
Proof. exact lindblad_standard_form. Qed.
Theorem C15_lindblad_cCP : forall d, (0 < d)%nat -> forall basis S m gam Lk G x,
  basis_complete d basis ->
  (forall i j, (i < length basis)%nat -> (j < length basis)%nat ->
     Sfun S i j = liou_of d (Cl basis) (lindblad_map d m gam Lk G) i j) ->
  (forall k, (k < m)%nat -> 0 <= gam k) ->
  0 <= fst (qform (d * d) (toF (projected_choi RO d (liouville_to_choi RO d S basis))) x).
Proof. exact lindblad_cCP_list. Qed.
Print Assumptions C15_lindblad_cCP.
Theorem C15_lindblad_verdict_cCP : forall d, (0 < d)%nat -> forall basis S m gam Lk G Dl V atol,
  basis_complete d basis ->
  (forall i j, (i < length basis)%nat -> (j < length basis)%nat ->
     Sfun S i j = liou_of d (Cl basis) (lindblad_map d m gam Lk G) i j) ->
  (forall k, (k < m)%nat -> 0 <= gam k) -> 0 <= atol ->
  eig_valid (d * d) Dl V (toF (projected_choi RO d (liouville_to_choi RO d S basis))) ->
  liouville_is_cCP RO d atol Dl = 1.
Proof. exact lindblad_flag_cCP. Qed.

(* the verdict: with a valid eigendecomposition (oracle, validated per case by the harness),
   "all eigenvalues >= -thr"  <->  "x^dagger A x >= -thr |x|^2 for all x"; the flag is 0 or 1 *)
Theorem C15_verdict_correct : forall N Dl V A thr, eig_valid N Dl V A ->
  (psd_flag RO thr Dl = 1 <-> forall x, - thr * vnorm2 N x <= fst (qform N A x)) /\
  (psd_flag RO thr Dl = 1 \/ psd_flag RO thr Dl = 0).
Proof. exact psd_flag_correct. Qed.
Print Assumptions C15_verdict_correct.
(* tol = atol or eps d^3 max(1, max_k |D_k|) *)
Theorem C15_threshold : forall d atol D,
  (atol <> 0 -> eff_atol RO d atol D = atol) /\ eff_atol RO d 0 D = basis_atol RO d * max1abs RO D /\
  basis_atol RO d = / 2 ^ 52 * (INR d * (INR d * INR d)).
Proof. exact (fun d atol D => conj (eff_atol_nonzero d atol D) (conj (eff_atol_zero d D) (basis_atol_val d))). Qed.
Theorem C15_max1abs : forall D, 1 <= max1abs RO D /\ Forall (fun ev => Rabs ev <= max1abs RO D) D /\
  (max1abs RO D = 1 \/ exists ev, In ev D /\ max1abs RO D = Rabs ev).
Proof. exact max1abs_spec. Qed.

(* stacks of maps: one threshold and one verdict per member; independent of the other members *)
Theorem C15_verdict_stack_per_member : forall d atol Ds t, (t < length Ds)%nat ->
  nth t (liouville_is_CP_stack RO d atol Ds) 0 = liouville_is_CP RO d atol (nth t Ds []) /\
  nth t (liouville_is_cCP_stack RO d atol Ds) 0 = liouville_is_cCP RO d atol (nth t Ds []).
Proof. exact verdict_stack_per_member. Qed.
Theorem C15_verdict_stack_independent : forall d atol Ds Ds' t t', (t < length Ds)%nat -> (t' < length Ds')%nat ->
  nth t Ds [] = nth t' Ds' [] ->
  nth t (liouville_is_CP_stack RO d atol Ds) 0 = nth t' (liouville_is_CP_stack RO d atol Ds') 0 /\
  nth t (liouville_is_cCP_stack RO d atol Ds) 0 = nth t' (liouville_is_cCP_stack RO d atol Ds') 0.
Proof. exact verdict_stack_independent. Qed.

(* explicit negative direction: transposition (d = 2, Pauli basis): eigenvector (0,1,-1,0), eigenvalue -1 *)
Theorem C15_transpose_eigenvector : forall r, (r < 4)%nat ->
  fmv 4 (toF (liouville_to_choi RO 2 S_T pauli1)) xT r = cneg' (xT r).
Proof. exact choiT_eigenvector. Qed.
Theorem C15_transpose_not_cp : forall Dl V atol,
  eig_valid 4 Dl V (toF (liouville_to_choi RO 2 S_T pauli1)) -> 0 <= atol < 1 ->
  liouville_is_CP RO 2 atol Dl = 0.
Proof. exact transpose_not_cp. Qed.
Print Assumptions C15_transpose_not_cp.

(* ---------- the cached Liouville total propagator of a pulse ---------- *)
Theorem C15_tpl_getter : forall d basis is_ggm p, tpl_ok d basis is_ggm p ->
  fst (tpl_get RO d is_ggm basis p) = liouville_representation RO d is_ggm (pc_total p) basis /\
  tpl_ok d basis is_ggm (snd (tpl_get RO d is_ggm basis p)) /\
  pc_total (snd (tpl_get RO d is_ggm basis p)) = pc_total p.
Proof. exact tpl_get_ok. Qed.
Theorem C15_tpl_cache_control_matrix : forall d basis is_ggm p, tpl_ok d basis is_ggm p ->
  pc_tpl (tpl_cache_control_matrix RO d is_ggm basis p)
    = Some (liouville_representation RO d is_ggm (pc_total p) basis) /\
  pc_total (tpl_cache_control_matrix RO d is_ggm basis p) = pc_total p.
Proof. exact tpl_cache_control_matrix_ok. Qed.
Theorem C15_tpl_concatenate_extend : forall d basis is_ggm total,
  pc_tpl (tpl_set_explicit RO d is_ggm basis total) = Some (liouville_representation RO d is_ggm total basis) /\
  pc_total (tpl_set_explicit RO d is_ggm basis total) = total.
Proof. exact tpl_set_explicit_ok. Qed.
Theorem C15_tpl_remap : forall d basis perm,
  length perm = length basis -> NoDup perm ->
  (forall i, (i < length basis)%nat -> (nth i perm 0 < length basis)%nat) ->
  forall P, funitary d P ->
  (forall k, (k < length basis)%nat ->
     feq d (fmul d P (fmul d (Cl basis k) (fadj P))) (Cl basis (nth k perm 0%nat))) ->
  forall p total' L' i j,
  tpl_ok d basis false p ->
  feq d (toF total') (fmul d P (fmul d (toF (pc_total p)) (fadj P))) ->
  pc_tpl (tpl_remap RO true perm total' p) = Some L' -> (i < length basis)%nat -> (j < length basis)%nat ->
  rget RO L' (nth i perm 0%nat) (nth j perm 0%nat)
  = rget RO (liouville_representation RO d false total' basis) (nth i perm 0%nat) (nth j perm 0%nat)
  /\ pc_total (tpl_remap RO true perm total' p) = total'.
Proof. exact tpl_remap_ok. Qed.
Print Assumptions C15_tpl_remap.

(* ------------------------------------------------------------------------------------------------
   Semantic tie of superoperator.liouville_representation (generic path, incl. basis.expand) and liouville_to_choi
   (Proofs/KernelTieC15.v; docs/notes/kernel-tie.md): the terms translated on every run from the CURRENT Python bodies by
   tools/kernel_extract.py are the model functions.
   ------------------------------------------------------------------------------------------------ *)
From FF Require Import Extracted.Kernels Proofs.KernelTieC15.

Theorem C15_kernels_translated : kernel_untranslated_C15 = nil.
Proof. exact kernels_translated_C15. Qed.

(* einsum('...ba,ibc,...cd->...iad', U.conj(), basis, U) followed by basis.expand(.., hermitian=True) = Re tensordot(.., basis) *)
Theorem C15_kernel_liouville_is_source : forall d (U : Mat (T:=R)) (basis : list (Mat (T:=R))) i j,
  (i < length basis)%nat -> (j < length basis)%nat ->
  nth j (nth i (liouville_generic RO d U basis) nil) 0 =
  liouville_entry_src RO d (fun a b => mget RO U a b) (fun k a b => mget RO (nthm basis k) a b) i j.
Proof. exact liouville_is_source. Qed.
Print Assumptions C15_kernel_liouville_is_source.

(* einsum('...ij,jba,icd->...acbd', S, basis, basis), entry [a][c][b][e] before the row-major reshape *)
Theorem C15_kernel_choi_is_source : forall (S : list (list R)) (basis : list (Mat (T:=R))) a c b e,
  choi_entry4 RO S basis a c b e =
  choi_entry_src RO (length basis) (fun i j => rget RO S i j) (fun k x y => mget RO (nthm basis k) x y) a c b e.
Proof. exact choi_is_source. Qed.
