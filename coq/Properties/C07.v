(* C07 -- results never depend on the cache history of a pulse object.
   Statements about the cache state machine Model/Cache.v (tied to the source by Model/Tie/C07.v and
   compared with the implementation call by call by tools/ffv/props/c07.py); proofs in Proofs/Cache.v.
   This file contains only statements closed by [exact <lemma>] and their assumptions.

   Reading guide.  A store holds pulse objects (shallow / deep copies, fresh pulses).  [Call i o k] is the
   public operation o on object i; k = Some n makes the (n+1)-th call into numeric code raise, k = never
   (None) injects nothing.  A cached value carries a ghost tag: TF g = "is the correct value for the
   frequency grid g", TI = frequency independent / canonical eigenbasis, TBad = wrong data, TE e / TFE g e =
   expressed in an eigen-decomposition other than the one numeric.diagonalize returns (pulses made by extend /
   remap with cached diagonalization: store operation FreshExtended).  [gop_ok] = user-supplied arrays are what
   the caller says (the only hypothesis on histories).                                                      *)
From Coq Require Import List Bool Arith NArith.
From FF Require Import Extracted.Src Model.Cache Model.Tie.C07 Proofs.Cache.
Import ListNotations.

(* The invariant: for every object, every cached frequency-dependent attribute and every frequency-dependent
   entry of _intermediates is the value for that object's current _omega (so _omega is present whenever
   one of them is; the pulse-correlation slots agree with each other because all agree with _omega);
   frequency-independent slots hold frequency-independent values; the eigen-data and every intermediate
   expressed in an eigenbasis refer to one and the same eigen-decomposition e, and such intermediates are present
   only together with it; no two objects share an _intermediates dict. *)
Theorem C07_coherent_meaning : forall st i, Coherent st -> i < nobj st ->
  (forall s t, slot_kind s = KFD -> objs st i s = Some t ->
     exists g, objs st i S_omega = Some (TF g) /\ t = TF g) /\
  (forall k t, key_kind k = KFD -> dicts st (iref st i) k = Some t ->
     exists g, objs st i S_omega = Some (TF g) /\ t = TF g) /\
  (forall s t, slot_kind s = KFI -> objs st i s = Some t -> t = TI) /\
  (exists e, edec e /\
     (forall s t, slot_kind s = KE -> objs st i s = Some t -> t = e) /\
     (forall k t, key_kind k = KE -> dicts st (iref st i) k = Some t ->
        t = e /\ objs st i S_eigvecs = Some e) /\
     (forall t, dicts st (iref st i) K_first_order_integral = Some t ->
        exists g, objs st i S_omega = Some (TF g) /\ t = foi_tag g e /\ objs st i S_eigvecs = Some e)).
Proof. exact coherent_meaning. Qed.
Print Assumptions C07_coherent_meaning.

Theorem C07_coherent_init : Coherent init.
Proof. exact coherent_init. Qed.
Print Assumptions C07_coherent_init.

(* every operation of the alphabet (26 kinds of calls, incl. use as input of concatenate / concatenate_periodic / extend / remap, with all their options, copy, deepcopy, new pulse, new
   pulse made by extend with cached diagonalization), every requested grid, every point at which the call is
   aborted by an exception *)
Theorem C07_coherent_step : forall st c, Coherent st -> gop_ok c = true -> Coherent (step st c).
Proof. exact coherent_step. Qed.
Print Assumptions C07_coherent_step.

Theorem C07_all_histories : forall ops, forallb gop_ok ops = true -> Coherent (fold_left step ops init).
Proof. exact all_histories. Qed.
Print Assumptions C07_all_histories.

(* A request naming its frequencies g (control matrix, filter function of either kind and order, total phases,
   derivative, infidelity, decay amplitudes, cumulant function, error transfer matrix, infidelity derivative),
   on any object of a coherent store, under any adversary: it returns the value for g, and the returned
   array is a cached object (Served) or computed from one (Derived) only if the object's _omega was exactly g;
   the only exceptions are the injected ones. *)
Theorem C07_served_only_if_same_grid : forall st i o g k, Coherent st -> i < nobj st -> grid_getter o g ->
  match snd (fst (exec fixed st (Call i o k))) with
  | Ret r => exists h, r = Some (TF g, h) /\ (h <> Computed -> omega_of st i = Some (TF g))
  | Raise e => injected e
  end.
Proof. exact served_only_if_same_grid. Qed.
Print Assumptions C07_served_only_if_same_grid.

(* Observational form: same value and same exception behaviour as the same request on a freshly
   constructed pulse (object 0 of the initial store). *)
Theorem C07_observational : forall st i o g, Coherent st -> i < nobj st -> grid_getter o g ->
  value_of (result st (Call i o never)) = value_of (result init (Call 0 o never)).
Proof. exact observational. Qed.
Print Assumptions C07_observational.

(* ... in particular after any history *)
Theorem C07_history_independent : forall ops i o g, forallb gop_ok ops = true ->
  i < nobj (fold_left step ops init) -> grid_getter o g ->
  value_of (result (fold_left step ops init) (Call i o never)) = value_of (result init (Call 0 o never)).
Proof. exact (fun ops i o g Hok => observational _ i o g (all_histories ops Hok)). Qed.
Print Assumptions C07_history_independent.

(* Pulse-correlation quantities have no frequency argument and exist only on pulses made by concatenation
   (on other pulses: CalculationError -- by design dependent on how the pulse was made, not on requests):
   what is returned is the value for the object's current _omega; requests naming other frequencies are
   refused with ValueError; never a value of other frequencies. *)
Theorem C07_pulse_correlation_consistent : forall st i o og k, Coherent st -> i < nobj st -> pc_getter o og ->
  match snd (fst (exec fixed st (Call i o k))) with
  | Ret r => exists g h, omega_of st i = Some (TF g) /\ r = Some (TF g, h) /\
                         match og with Some g' => g' = g | None => True end
  | Raise e => injected e \/ e = E_calc \/ e = E_value
  end.
Proof. exact pc_consistent. Qed.
Print Assumptions C07_pulse_correlation_consistent.

(* The theorem depends on the five repairs (fix: commits 9802619, 35d842e, 031d19d, 9d58c0f, 0d133f1) and on its
   hypothesis: with any one of them switched off the model reproduces the defect of the earlier code. *)
Theorem C07_cache_clear_needed :
  forallb gop_ok hist_a = true /\
  ~ Coherent (run_with no_clear hist_a) /\
  result_with no_clear (run_with no_clear hist_a) (Call 0 (GetCM g2 false) never) = Ret (Some (TF g1, Served)) /\
  result_with fixed (run_with fixed hist_a) (Call 0 (GetCM g2 false) never) = Ret (Some (TF g2, Computed)).
Proof. exact cache_clear_needed. Qed.
Theorem C07_own_dict_needed :
  forallb gop_ok hist_b = true /\
  ~ Coherent (run_with shared_dict hist_b) /\
  result_with shared_dict (run_with shared_dict hist_b) (Call 1 (GetFF g1 Fidelity Second false) never)
    = Ret (Some (TBad 4, Computed)) /\
  result_with fixed (run_with fixed hist_b) (Call 1 (GetFF g1 Fidelity Second false) never)
    = Ret (Some (TF g1, Computed)).
Proof. exact own_dict_needed. Qed.
Theorem C07_deriv_order_needed :
  result_with deriv_before (run_with deriv_before hist_c) (Call 0 (GetDeriv g2) never) = Ret (Some (TBad 4, Computed)) /\
  result_with deriv_before (run_with deriv_before hist_c) (Call 0 (GetDeriv g3) never) = Raise E_shape /\
  result_with fixed (run_with fixed hist_c) (Call 0 (GetDeriv g2) never) = Ret (Some (TF g2, Computed)) /\
  result_with fixed (run_with fixed hist_c) (Call 0 (GetDeriv g3) never) = Ret (Some (TF g3, Computed)).
Proof. exact deriv_order_needed. Qed.
Theorem C07_correct_user_data_needed :
  forallb gop_ok hist_d = false /\ ~ Coherent (run_with fixed hist_d) /\
  result_with fixed (run_with fixed hist_d) (Call 0 (GetCM g1 false) never) = Ret (Some (TBad 4, Served)).
Proof. exact correct_user_data_needed. Qed.

(* cleanup('conservative') must reset the intermediates (commit 9d58c0f): without that, on a pulse made by
   extend(...) with cached diagonalization (object 1 of hist_x), after get_control_matrix(omega,
   cache_intermediates=True) and cleanup('conservative'), the second-order filter function, the filter-function
   derivative and the second-order cumulant function for the SAME frequencies are computed from intermediates
   expressed in the dropped eigenbasis and freshly computed eigen-data. *)
Theorem C07_cleanup_reset_needed :
  forallb gop_ok hist_x = true /\
  ~ Coherent (run_with no_reset hist_x) /\
  result_with no_reset (run_with no_reset hist_x) (Call 1 (GetFF g1 Fidelity Second false) never) = Ret (Some (TBad 4, Computed)) /\
  result_with no_reset (run_with no_reset hist_x) (Call 1 (GetDeriv g1) never) = Ret (Some (TBad 4, Computed)) /\
  result_with no_reset (run_with no_reset hist_x) (Call 1 (Cumulant g1 Total true None) never) = Ret (Some (TBad 4, Computed)) /\
  result_with fixed (run_with fixed hist_x) (Call 1 (GetFF g1 Fidelity Second false) never) = Ret (Some (TF g1, Computed)) /\
  result_with fixed (run_with fixed hist_x) (Call 1 (GetDeriv g1) never) = Ret (Some (TF g1, Computed)) /\
  result_with fixed (run_with fixed hist_x) (Call 1 (Cumulant g1 Total true None) never) = Ret (Some (TF g1, Computed)).
Proof. exact cleanup_reset_needed. Qed.

(* The abstraction "grids are immutable values" is justified by the private copy of the frequencies (commit
   0d133f1): with a reference to the caller's array, after the caller has overwritten it in place with g', a
   request with that array is served the filter function of the old grid g; with the copy it is not. *)
Theorem C07_omega_copy_needed : forall g g', g <> g' ->
  let s1 := fst (astep (ainit g) ARequest) in
  let s2 := fst (astep s1 (AMutate g')) in
  cell s2 = g' /\ snd (astep s2 ARequest) = Some g.
Proof. exact omega_copy_needed. Qed.
Theorem C07_omega_copy_works : forall g g', g <> g' ->
  let s1 := fst (astep_copy (ainit g, g) ARequest) in
  let s2 := fst (astep_copy s1 (AMutate g')) in
  snd (astep_copy s2 ARequest) = Some g'.
Proof. exact omega_copy_works. Qed.

(* the hypotheses are satisfiable on a non-trivial store (three objects, intermediates, an aborted call) *)
Example C07_hypotheses_satisfiable :
  forallb gop_ok hist_e = true /\ nobj (fold_left step hist_e init) = 3 /\
  map (occupancy (fold_left step hist_e init)) [0; 1; 2] = [214527; 2032639; 7]%N /\
  result (fold_left step hist_e init) (Call 1 (GetFF g3 Fidelity Second true) never) = Ret (Some (TF g3, Computed)).
Proof. exact hypotheses_satisfiable. Qed.
