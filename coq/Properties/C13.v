(* C13 -- invariance under re-segmentation, operator order and change of the time unit.
   This file contains only statements closed by [exact <lemma>] and their assumptions.

   Vocabulary (Proofs/CMBase.v, Proofs/CMIntegral.v, Proofs/Invariance.v):
     sdiv lam v / smul lam v     every element of v divided / multiplied by lam
     a3scal n1 n2 n3 z A         the n1 x n2 x n3 array A multiplied by the real z
     all_masked d thr w ev dt    no entry of the segment integral is on the Taylor branch
     taylor_eps thr              thr/2 + thr^2/2
     step_weight d V Q N C       sum_mn |(V^dagger N V)_mn| |(W^dagger C W)_nm|, W = Q^dagger V
     cm_pulse d thr P om bs ns   the package's loop (cm_scratch_loop) on a pulse given as a list P of segments
                                 (eigenvalues, eigenvectors, duration, sensitivities of all noise operators), with the
                                 propagators and the time grid derived from P; equal to
                                 control_matrix_from_scratch as called by the package (C13_cm_pulse_is_model)
     prop_before d P1            the propagator at the end of the segments P1                                   *)
From Coq Require Import ZArith Reals List Permutation.
From Coquelicot Require Import Coquelicot.
From FF Require Import Base.Ops Inst.RInst Base.RAlg Model.Numeric Model.Hamiltonian Model.Consts Model.Tie.C13
  Model.Atomic Proofs.AtomicAlg Proofs.Atomic Proofs.EigIndep
  Proofs.Foi Proofs.CMBase Proofs.CMIntegral Proofs.Invariance Proofs.InvarianceEig.
Import ListNotations.
Local Open Scope R_scope.

(* ============================== change of the time unit ============================== *)

(* Time unit x lam (durations x lam, frequencies and energies / lam): the segment integral is multiplied
   by lam exactly, on both branches of the small-denominator test. *)
Theorem C13_time_scaling_foi : forall thr w evm evn dt lam, 0 < lam ->
  foi_entry RO thr (w / lam) (evm / lam) (evn / lam) (lam * dt) = cscal RO lam (foi_entry RO thr w evm evn dt).
Proof. exact time_scaling_foi. Qed.
Print Assumptions C13_time_scaling_foi.

(* With the absolute mask |x| > thr of the pinned code (before fix 0b2b5e4) the scaling law is false. *)
Theorem C13_time_scaling_refuted_absolute_mask :
  exists thr w evm evn dt lam, 0 < lam /\ 0 < thr /\
    foi_entry_absmask thr (w / lam) (evm / lam) (evn / lam) (lam * dt)
    <> cscal RO lam (foi_entry_absmask thr w evm evn dt).
Proof. exact time_scaling_refuted_absolute_mask. Qed.
Print Assumptions C13_time_scaling_refuted_absolute_mask.

(* One step of the control matrix. *)
Theorem C13_time_scaling_cm_step : forall d lam, 0 < lam -> forall thr ev V Q tg dt om bs ns nc,
  cm_step RO d thr (sdiv lam ev) V Q (lam * tg) (lam * dt) (sdiv lam om) bs ns nc =
  a3scal (length ns) (length bs) (length om) lam (cm_step RO d thr ev V Q tg dt om bs ns nc).
Proof. exact time_scaling_cm_step. Qed.
Print Assumptions C13_time_scaling_cm_step.

(* The propagators do not change, the time grid is multiplied by lam. *)
Theorem C13_time_scaling_propagators : forall d lam, 0 < lam -> forall evs Vs dts,
  propagators RO d (map (sdiv lam) evs) Vs (smul lam dts) = propagators RO d evs Vs dts.
Proof. exact time_scaling_propagators. Qed.
Theorem C13_time_scaling_times : forall lam dts, times RO (smul lam dts) = smul lam (times RO dts).
Proof. exact time_scaling_times. Qed.

(* The control matrix of the rescaled pulse, computed as the package computes it, is lam x the control matrix:
   exactly, for every lam > 0, every pulse, every frequency (resonant or not). *)
Theorem C13_time_scaling_cm : forall d lam, 0 < lam -> forall thr evs Vs om bs ns nc dts,
  control_matrix_from_scratch RO d thr (map (sdiv lam) evs) Vs (propagators RO d (map (sdiv lam) evs) Vs (smul lam dts))
     (sdiv lam om) bs ns nc (smul lam dts) (times RO (smul lam dts)) =
  a3scal (length ns) (length bs) (length om) lam
    (control_matrix_from_scratch RO d thr evs Vs (propagators RO d evs Vs dts) om bs ns nc dts (times RO dts)).
Proof. exact time_scaling_cm. Qed.
Print Assumptions C13_time_scaling_cm.

(* Filter functions scale by lam^2. *)
Theorem C13_time_scaling_ff : forall lam na nk no Bm,
  filter_function RO na nk no (a3scal na nk no lam Bm) = a3scal na na no (lam * lam) (filter_function RO na nk no Bm).
Proof. exact time_scaling_ff. Qed.
Print Assumptions C13_time_scaling_ff.

(* Infidelity-type integrals (trapezoidal rule of util.integrate): integrand x lam (spectrum / lam times filter
   function x lam^2) on the grid omega / lam gives the same value. *)
Theorem C13_time_scaling_trapz : forall lam, 0 < lam -> forall f x,
  trapz RO (smul lam f) (sdiv lam x) = trapz RO f x.
Proof. exact time_scaling_trapz. Qed.
Print Assumptions C13_time_scaling_trapz.

(* ============================== zero-duration segments ============================== *)

Theorem C13_foi_zero_duration : forall thr w evm evn, foi_entry RO thr w evm evn 0 = (0, 0).
Proof. exact foi_entry_zero_duration. Qed.
Print Assumptions C13_foi_zero_duration.

(* A zero-duration segment contributes the zero array, whatever its eigen-data (amplitudes) and sensitivities. *)
Theorem C13_zero_duration_cm_step : forall d thr ev V Q tg om bs ns nc,
  cm_step RO d thr ev V Q tg 0 om bs ns nc = a3zero RO (length ns) (length bs) (length om).
Proof. exact zero_duration_cm_step. Qed.
Print Assumptions C13_zero_duration_cm_step.

(* Its propagator is the identity (V V^dagger = 1). *)
Theorem C13_zero_duration_propagator : forall d ev V,
  feq d (fmul d (toF V) (fadj (toF V))) fid -> feq d (toF (segment_propagator RO d ev V 0)) fid.
Proof. exact segment_propagator_zero. Qed.

(* Inserting a zero-duration segment anywhere leaves the whole control matrix unchanged (later segments unaffected). *)
Theorem C13_zero_duration_insert_cm : forall d thr P1 P2 ev V ncg om bs ns,
  feq d (fmul d (toF V) (fadj (toF V))) fid ->
  cm_pulse d thr (P1 ++ (ev, V, 0, ncg) :: P2) om bs ns = cm_pulse d thr (P1 ++ P2) om bs ns.
Proof. exact zero_duration_insert_cm. Qed.
Print Assumptions C13_zero_duration_insert_cm.

(* ============================== splitting / merging ============================== *)

(* P(b) P(a) = P(a+b) for the propagator of a segment (V^dagger V = 1): propagators at the common edges agree. *)
Theorem C13_split_propagator : forall d ev V a b, feq d (fmul d (fadj (toF V)) (toF V)) fid ->
  feq d (fmul d (toF (segment_propagator RO d ev V b)) (toF (segment_propagator RO d ev V a)))
        (toF (segment_propagator RO d ev V (a + b))).
Proof. exact segment_propagator_add. Qed.

(* One step: cm_step over a+b = cm_step over a + cm_step over b started at tg+a with Q2 = P(a) Q; exact when no
   entry is on the Taylor branch on either side ... *)
Theorem C13_split_segment : forall d thr ev V Q tg a b om bs ns nc j k o,
  0 <= thr -> (j < length ns)%nat -> (k < length bs)%nat -> (o < length om)%nat ->
  feq d (fmul d (fadj (toF V)) (toF V)) fid ->
  all_masked d thr (vg RO om o) ev (a + b) -> all_masked d thr (vg RO om o) ev a -> all_masked d thr (vg RO om o) ev b ->
  a3get RO (cm_step RO d thr ev V Q tg (a + b) om bs ns nc) j k o =
  cadd RO (a3get RO (cm_step RO d thr ev V Q tg a om bs ns nc) j k o)
          (a3get RO (cm_step RO d thr ev V (mmul RO d (segment_propagator RO d ev V a) Q) (tg + a) b om bs ns nc) j k o).
Proof. exact split_cm_step_exact. Qed.
Print Assumptions C13_split_segment.

(* ... and within the Taylor bound for every frequency. *)
Theorem C13_split_segment_bound : forall d thr ev V Q tg a b om bs ns nc j k o,
  0 <= thr -> (j < length ns)%nat -> (k < length bs)%nat -> (o < length om)%nat ->
  feq d (fmul d (fadj (toF V)) (toF V)) fid ->
  Cmod (csub RO (a3get RO (cm_step RO d thr ev V Q tg (a + b) om bs ns nc) j k o)
               (cadd RO (a3get RO (cm_step RO d thr ev V Q tg a om bs ns nc) j k o)
                        (a3get RO (cm_step RO d thr ev V (mmul RO d (segment_propagator RO d ev V a) Q) (tg + a) b om bs ns nc) j k o)))
  <= Rabs (vg RO nc j) * taylor_eps thr * (Rabs (a + b) + Rabs a + Rabs b) * step_weight d V Q (nthm ns j) (nthm bs k).
Proof. exact split_cm_step_bound. Qed.
Print Assumptions C13_split_segment_bound.

(* Whole pulse: segment (ev, V, a+b, s) replaced by (ev, V, a, s), (ev, V, b, s) -- or, read from right to left, two
   equal neighbours merged.  Segments before and after are arbitrary. *)
Theorem C13_split_segment_cm : forall d thr P1 P2 ev V a b ncg om bs ns j k o,
  0 <= thr -> (j < length ns)%nat -> (k < length bs)%nat -> (o < length om)%nat ->
  feq d (fmul d (fadj (toF V)) (toF V)) fid ->
  all_masked d thr (vg RO om o) ev (a + b) -> all_masked d thr (vg RO om o) ev a -> all_masked d thr (vg RO om o) ev b ->
  a3get RO (cm_pulse d thr (P1 ++ (ev, V, a + b, ncg) :: P2) om bs ns) j k o =
  a3get RO (cm_pulse d thr (P1 ++ (ev, V, a, ncg) :: (ev, V, b, ncg) :: P2) om bs ns) j k o.
Proof. exact split_segment_cm_exact. Qed.
Print Assumptions C13_split_segment_cm.

Theorem C13_split_segment_cm_bound : forall d thr P1 P2 ev V a b ncg om bs ns j k o,
  0 <= thr -> (j < length ns)%nat -> (k < length bs)%nat -> (o < length om)%nat ->
  feq d (fmul d (fadj (toF V)) (toF V)) fid ->
  Cmod (csub RO (a3get RO (cm_pulse d thr (P1 ++ (ev, V, a + b, ncg) :: P2) om bs ns) j k o)
               (a3get RO (cm_pulse d thr (P1 ++ (ev, V, a, ncg) :: (ev, V, b, ncg) :: P2) om bs ns) j k o))
  <= Rabs (vg RO ncg j) * taylor_eps thr * (Rabs (a + b) + Rabs a + Rabs b)
     * step_weight d V (prop_before d P1) (nthm ns j) (nthm bs k).
Proof. exact split_segment_cm_bound. Qed.
Print Assumptions C13_split_segment_cm_bound.

(* cm_pulse is the package's function called the package's way. *)
Theorem C13_cm_pulse_is_model : forall d thr evs Vs dts om bs ns nc,
  length evs = length dts -> length Vs = length dts ->
  control_matrix_from_scratch RO d thr evs Vs (propagators RO d evs Vs dts) om bs ns nc dts (times RO dts) =
  cm_pulse d thr (zipf evs Vs dts (transpose_coeffs RO (length dts) nc)) om bs ns.
Proof. exact cm_pulse_is_model. Qed.
Print Assumptions C13_cm_pulse_is_model.

(* ============================== filter functions and infidelity under re-segmentation ============================== *)
(* split_masked d thr om ev a b o: no entry of the three segment integrals (a+b, a, b) is on the Taylor branch at omega[o];
   column_local na nk no phi: phi B o depends on the control matrix B only through its entries [.][.][o]. *)

Theorem C13_split_segment_ff : forall d thr P1 P2 ev V a b ncg om bs ns j j' o,
  0 <= thr -> (j < length ns)%nat -> (j' < length ns)%nat -> (o < length om)%nat ->
  feq d (fmul d (fadj (toF V)) (toF V)) fid -> split_masked d thr om ev a b o ->
  a3get RO (filter_function RO (length ns) (length bs) (length om)
              (cm_pulse d thr (P1 ++ (ev, V, a + b, ncg) :: P2) om bs ns)) j j' o =
  a3get RO (filter_function RO (length ns) (length bs) (length om)
              (cm_pulse d thr (P1 ++ (ev, V, a, ncg) :: (ev, V, b, ncg) :: P2) om bs ns)) j j' o.
Proof. exact split_segment_ff. Qed.
Print Assumptions C13_split_segment_ff.

(* Any column-wise quantity integrated with the trapezoidal rule (infidelity with or without the identity term, decay
   amplitudes, ...) is unchanged by a split / merge when the grid avoids the small-denominator windows. *)
Theorem C13_split_segment_integral : forall d thr P1 P2 ev V a b ncg om bs ns (phi : Arr3 (T:=R) -> nat -> R),
  0 <= thr -> column_local (length ns) (length bs) (length om) phi ->
  feq d (fmul d (fadj (toF V)) (toF V)) fid ->
  (forall o, (o < length om)%nat -> split_masked d thr om ev a b o) ->
  trapz RO (build (length om) (phi (cm_pulse d thr (P1 ++ (ev, V, a + b, ncg) :: P2) om bs ns))) om =
  trapz RO (build (length om) (phi (cm_pulse d thr (P1 ++ (ev, V, a, ncg) :: (ev, V, b, ncg) :: P2) om bs ns))) om.
Proof. exact split_segment_integral. Qed.
Print Assumptions C13_split_segment_integral.

Theorem C13_split_segment_infidelity : forall d thr P1 P2 ev V a b ncg om bs ns (S : nat -> R) j,
  0 <= thr -> (j < length ns)%nat -> feq d (fmul d (fadj (toF V)) (toF V)) fid ->
  (forall o, (o < length om)%nat -> split_masked d thr om ev a b o) ->
  let F P := filter_function RO (length ns) (length bs) (length om) (cm_pulse d thr P om bs ns) in
  trapz RO (build (length om) (fun o => S o * fst (a3get RO (F (P1 ++ (ev, V, a + b, ncg) :: P2)) j j o))) om =
  trapz RO (build (length om) (fun o => S o * fst (a3get RO (F (P1 ++ (ev, V, a, ncg) :: (ev, V, b, ncg) :: P2)) j j o))) om.
Proof. exact split_segment_infidelity. Qed.
Print Assumptions C13_split_segment_infidelity.

Theorem C13_zero_duration_insert_ff : forall d thr P1 P2 ev V ncg om bs ns,
  feq d (fmul d (toF V) (fadj (toF V))) fid ->
  filter_function RO (length ns) (length bs) (length om) (cm_pulse d thr (P1 ++ (ev, V, 0, ncg) :: P2) om bs ns) =
  filter_function RO (length ns) (length bs) (length om) (cm_pulse d thr (P1 ++ P2) om bs ns).
Proof. exact zero_duration_insert_ff. Qed.
Print Assumptions C13_zero_duration_insert_ff.

(* ============================== linearity ============================== *)

(* Noise operator j = al N_j1 + be N_j2 with the same sensitivities: row j = al row j1 + be row j2. *)
Theorem C13_cm_linear_operators : forall d thr P om bs ns j j1 j2 k o (al be : C (T:=R)),
  (j < length ns)%nat -> (j1 < length ns)%nat -> (j2 < length ns)%nat -> (k < length bs)%nat -> (o < length om)%nat ->
  nthm ns j = madd RO d (mscal RO d al (nthm ns j1)) (mscal RO d be (nthm ns j2)) ->
  (forall p, In p P -> vg RO (fs_nc p) j1 = vg RO (fs_nc p) j /\ vg RO (fs_nc p) j2 = vg RO (fs_nc p) j) ->
  a3get RO (cm_pulse d thr P om bs ns) j k o =
  cadd RO (cmul RO al (a3get RO (cm_pulse d thr P om bs ns) j1 k o)) (cmul RO be (a3get RO (cm_pulse d thr P om bs ns) j2 k o)).
Proof. exact cm_linear_operators. Qed.
Print Assumptions C13_cm_linear_operators.

(* Sensitivities s_j = a s_j1 + b s_j2 on every segment, same operator: row j = a row j1 + b row j2. *)
Theorem C13_cm_linear_sensitivities : forall d thr P om bs ns j j1 j2 k o (a b : R),
  (j < length ns)%nat -> (j1 < length ns)%nat -> (j2 < length ns)%nat -> (k < length bs)%nat -> (o < length om)%nat ->
  nthm ns j1 = nthm ns j -> nthm ns j2 = nthm ns j ->
  (forall p, In p P -> vg RO (fs_nc p) j = a * vg RO (fs_nc p) j1 + b * vg RO (fs_nc p) j2) ->
  a3get RO (cm_pulse d thr P om bs ns) j k o =
  cadd RO (cscal RO a (a3get RO (cm_pulse d thr P om bs ns) j1 k o)) (cscal RO b (a3get RO (cm_pulse d thr P om bs ns) j2 k o)).
Proof. exact cm_linear_sensitivities. Qed.
Print Assumptions C13_cm_linear_sensitivities.

(* ============================== operator order ============================== *)

(* Any permutation of the listed (noise operator, sensitivities) pairs permutes the rows of the control matrix. *)
Theorem C13_cm_perm_rows : forall d thr evs Vs Qs om bs ns nc ns' nc' dts ts,
  length ns = length nc -> length ns' = length nc' ->
  Permutation (combine ns nc) (combine ns' nc') ->
  exists f : nat -> nat, FinFun.bFun (length ns) f /\ FinFun.bInjective (length ns) f /\
    forall j k o, (j < length ns)%nat -> (k < length bs)%nat -> (o < length om)%nat ->
      a3get RO (control_matrix_from_scratch RO d thr evs Vs Qs om bs ns' nc' dts ts) j k o =
      a3get RO (control_matrix_from_scratch RO d thr evs Vs Qs om bs ns nc dts ts) (f j) k o.
Proof. exact cm_perm_rows. Qed.
Print Assumptions C13_cm_perm_rows.

Theorem C13_cm_reindex_rows : forall d thr evs Vs Qs om bs ns nc dts ts (p : list nat) j k o,
  (j < length p)%nat -> (nth j p 0 < length ns)%nat -> (k < length bs)%nat -> (o < length om)%nat ->
  a3get RO (control_matrix_from_scratch RO d thr evs Vs Qs om bs (map (nthm ns) p) (map (nthv nc) p) dts ts) j k o =
  a3get RO (control_matrix_from_scratch RO d thr evs Vs Qs om bs ns nc dts ts) (nth j p 0%nat) k o.
Proof. exact cm_reindex_rows. Qed.

(* Control operators: H_l = sum_i a_il A_i ('ijk,il->ljk') does not depend on the listing order. *)
Theorem C13_hamiltonian_perm : forall d (opers opers' : list (Mat (T:=R))) (coeffs coeffs' : list (list R)) l,
  Permutation (combine opers coeffs) (combine opers' coeffs') ->
  hamiltonian RO d opers coeffs l = hamiltonian RO d opers' coeffs' l.
Proof. exact hamiltonian_perm. Qed.
Print Assumptions C13_hamiltonian_perm.

(* ============================== the hypotheses are satisfiable ============================== *)
Example C13_unitary_satisfiable : funitary 2 (toF swap2).
Proof. exact swap2_unitary. Qed.
Example C13_all_masked_satisfiable :
  all_masked 2 (/ 10000000) (/ 2) [0; 1] (1 + 1) /\ all_masked 2 (/ 10000000) (/ 2) [0; 1] 1.
Proof. exact (conj all_masked_example2 all_masked_example). Qed.

(* ============================== arbitrary valid eigen-decompositions ==============================
   (with agent-c03's Proofs/EigIndep.v)  same_H d ev V ev' V' : V, V' unitary and V diag(ev) V^dagger = V' diag(ev') V'^dagger,
   i.e. two unitary diagonalisations of the same Hermitian matrix (degenerate spectra, other orderings / phases included);
   pulse_same d P P' : segment by segment same_H, equal durations and sensitivities.  The sub-segments of a split, the
   segments around an inserted zero-duration segment and the segments of a re-listed pulse may carry ANY such decomposition:
   what eigh returns for them is irrelevant. *)

Theorem C13_cm_pulse_eig_independent : forall d thr P P' om bs ns, pulse_same d P P' ->
  cm_pulse d thr P om bs ns = cm_pulse d thr P' om bs ns.
Proof. exact cm_pulse_eig_independent. Qed.
Print Assumptions C13_cm_pulse_eig_independent.

Theorem C13_split_segment_cm_any_eig : forall d thr P1 P1' P2 P2' ev V a b ncg ev1 V1 ev2 V2 om bs ns j k o,
  0 <= thr -> (j < length ns)%nat -> (k < length bs)%nat -> (o < length om)%nat ->
  pulse_same d P1 P1' -> pulse_same d P2 P2' ->
  EigIndep.same_H d ev V ev1 V1 -> EigIndep.same_H d ev V ev2 V2 ->
  all_masked d thr (vg RO om o) ev (a + b) -> all_masked d thr (vg RO om o) ev a -> all_masked d thr (vg RO om o) ev b ->
  a3get RO (cm_pulse d thr (P1 ++ (ev, V, a + b, ncg) :: P2) om bs ns) j k o =
  a3get RO (cm_pulse d thr (P1' ++ (ev1, V1, a, ncg) :: (ev2, V2, b, ncg) :: P2') om bs ns) j k o.
Proof. exact split_segment_cm_any_eig. Qed.
Print Assumptions C13_split_segment_cm_any_eig.

Theorem C13_split_segment_cm_bound_any_eig : forall d thr P1 P1' P2 P2' ev V a b ncg ev1 V1 ev2 V2 om bs ns j k o,
  0 <= thr -> (j < length ns)%nat -> (k < length bs)%nat -> (o < length om)%nat ->
  pulse_same d P1 P1' -> pulse_same d P2 P2' ->
  EigIndep.same_H d ev V ev1 V1 -> EigIndep.same_H d ev V ev2 V2 ->
  Cmod (csub RO (a3get RO (cm_pulse d thr (P1 ++ (ev, V, a + b, ncg) :: P2) om bs ns) j k o)
               (a3get RO (cm_pulse d thr (P1' ++ (ev1, V1, a, ncg) :: (ev2, V2, b, ncg) :: P2') om bs ns) j k o))
  <= Rabs (vg RO ncg j) * taylor_eps thr * (Rabs (a + b) + Rabs a + Rabs b)
     * step_weight d V (prop_before d P1) (nthm ns j) (nthm bs k).
Proof. exact split_segment_cm_bound_any_eig. Qed.
Print Assumptions C13_split_segment_cm_bound_any_eig.

Theorem C13_split_segment_ff_any_eig : forall d thr P1 P1' P2 P2' ev V a b ncg ev1 V1 ev2 V2 om bs ns j j' o,
  0 <= thr -> (j < length ns)%nat -> (j' < length ns)%nat -> (o < length om)%nat ->
  pulse_same d P1 P1' -> pulse_same d P2 P2' ->
  EigIndep.same_H d ev V ev1 V1 -> EigIndep.same_H d ev V ev2 V2 -> split_masked d thr om ev a b o ->
  a3get RO (filter_function RO (length ns) (length bs) (length om)
              (cm_pulse d thr (P1 ++ (ev, V, a + b, ncg) :: P2) om bs ns)) j j' o =
  a3get RO (filter_function RO (length ns) (length bs) (length om)
              (cm_pulse d thr (P1' ++ (ev1, V1, a, ncg) :: (ev2, V2, b, ncg) :: P2') om bs ns)) j j' o.
Proof. exact split_segment_ff_any_eig. Qed.
Print Assumptions C13_split_segment_ff_any_eig.

Theorem C13_split_segment_integral_any_eig : forall d thr P1 P1' P2 P2' ev V a b ncg ev1 V1 ev2 V2 om bs ns (phi : Arr3 (T:=R) -> nat -> R),
  0 <= thr -> column_local (length ns) (length bs) (length om) phi ->
  pulse_same d P1 P1' -> pulse_same d P2 P2' ->
  EigIndep.same_H d ev V ev1 V1 -> EigIndep.same_H d ev V ev2 V2 ->
  (forall o, (o < length om)%nat -> split_masked d thr om ev a b o) ->
  trapz RO (build (length om) (phi (cm_pulse d thr (P1 ++ (ev, V, a + b, ncg) :: P2) om bs ns))) om =
  trapz RO (build (length om) (phi (cm_pulse d thr (P1' ++ (ev1, V1, a, ncg) :: (ev2, V2, b, ncg) :: P2') om bs ns))) om.
Proof. exact split_segment_integral_any_eig. Qed.
Print Assumptions C13_split_segment_integral_any_eig.

Theorem C13_zero_duration_insert_cm_any_eig : forall d thr P1 P1' P2 P2' ev V ncg om bs ns,
  pulse_same d P1 P1' -> pulse_same d P2 P2' -> feq d (fmul d (toF V) (fadj (toF V))) fid ->
  cm_pulse d thr (P1 ++ (ev, V, 0, ncg) :: P2) om bs ns = cm_pulse d thr (P1' ++ P2') om bs ns.
Proof. exact zero_duration_insert_cm_any_eig. Qed.
Print Assumptions C13_zero_duration_insert_cm_any_eig.

(* operator order: the control operators only enter through H (C13_hamiltonian_perm), for which eigh returns SOME valid
   decomposition (same_segs); the noise operators permute the rows *)
Theorem C13_cm_perm_rows_any_eig : forall d thr evs Vs evs' Vs' om bs ns nc ns' nc' dts,
  length ns = length nc -> length ns' = length nc' ->
  Permutation (combine ns nc) (combine ns' nc') -> EigIndep.same_segs d evs Vs evs' Vs' ->
  exists f : nat -> nat, FinFun.bFun (length ns) f /\ FinFun.bInjective (length ns) f /\
    forall j k o, (j < length ns)%nat -> (k < length bs)%nat -> (o < length om)%nat ->
      a3get RO (control_matrix_from_scratch RO d thr evs' Vs' (propagators RO d evs' Vs' dts) om bs ns' nc' dts (times RO dts)) j k o =
      a3get RO (control_matrix_from_scratch RO d thr evs Vs (propagators RO d evs Vs dts) om bs ns nc dts (times RO dts)) (f j) k o.
Proof. exact cm_perm_rows_any_eig. Qed.
Print Assumptions C13_cm_perm_rows_any_eig.

(* same_H in the form validated per case by the harness: both are unitary and satisfy H V = V diag(ev) for the same H *)
Theorem C13_same_H_of_eigenpairs : forall d (Hm : fmat) ev V ev' V',
  funitary d (toF V) -> funitary d (toF V') ->
  feq d (fmul d Hm (toF V)) (fmul d (toF V) (EigIndep.fdiag (fun j => cofr RO (vg RO ev j)))) ->
  feq d (fmul d Hm (toF V')) (fmul d (toF V') (EigIndep.fdiag (fun j => cofr RO (vg RO ev' j)))) ->
  EigIndep.same_H d ev V ev' V'.
Proof. exact same_H_of_eigenpairs. Qed.

(* satisfiable with genuinely different decompositions: degenerate spectrum, identity versus a rotation (C03's example) *)
Example C13_same_H_satisfiable : EigIndep.same_H 2 [1; 1] exI [1; 1] exRot.
Proof. exact same_H_satisfiable. Qed.
