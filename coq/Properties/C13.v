(* C13 -- invariance under re-segmentation, operator order and change of the time unit.
   This file contains only statements closed by [exact <lemma>] and their assumptions. *)
From Coq Require Import ZArith Reals List.
From Coquelicot Require Import Coquelicot.
From FF Require Import Base.Ops Inst.RInst Base.RAlg Model.Numeric Model.Consts Model.Tie.C13 Proofs.Foi Proofs.Invariance.
Local Open Scope R_scope.

(* Time unit x lam (durations x lam, frequencies and energies / lam): the segment integral is multiplied
   by lam exactly, on both branches of the small-denominator test. *)
Theorem C13_time_scaling_foi : forall thr w evm evn dt lam, 0 < lam ->
  foi_entry RO thr (w / lam) (evm / lam) (evn / lam) (lam * dt) = cscal RO lam (foi_entry RO thr w evm evn dt).
Proof. exact time_scaling_foi. Qed.
Print Assumptions C13_time_scaling_foi.

(* With the absolute mask |x| > thr of the pinned code (before fix 0b2b5e4) the scaling law is false. *)
Theorem C13_time_scaling_refuted_absolute_mask :
  exists thr w evm evn dt lam, 0 < lam /\ 0 < thr /\
    foi_entry_absmask thr (w / lam) (evm / lam) (evn / lam) (lam * dt)
    <> cscal RO lam (foi_entry_absmask thr w evm evn dt).
Proof. exact time_scaling_refuted_absolute_mask. Qed.
Print Assumptions C13_time_scaling_refuted_absolute_mask.

(* A zero-duration segment: every entry of the segment integral is exactly zero. *)
Theorem C13_foi_zero_duration : forall thr w evm evn, foi_entry RO thr w evm evn 0 = (0, 0).
Proof. exact foi_entry_zero_duration. Qed.
Print Assumptions C13_foi_zero_duration.
