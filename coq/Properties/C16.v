(* C16 -- tensor-product helpers compute exactly the documented Kronecker chains; Pauli index maps.
   This file contains only statements closed by [exact <lemma>] and their assumptions. *)
From Coq Require Import ZArith List Arith Lia Permutation.
From FF Require Import Model.Tensor Model.PauliIdx Model.Tie.C16 Spec.Kron
  Proofs.TensorIdx Proofs.TensorOrder Proofs.Tensor Proofs.TensorKron Proofs.TensorInsert
  Proofs.TensorInsertModel Proofs.TensorInsertLoop Proofs.TensorUnfold Proofs.TensorTranspose Proofs.TensorTransposeCompose Proofs.TensorMerge Proofs.PauliIdx Proofs.PauliIdxDigits.
(* the comparison functions of the correspondence check are built with this file's dependency cone *)
From FF Require Corr.C16Obs.
Import ListNotations.

(* ---- util.tensor: the einsum '...ab,...cd->...acbd' + reshape of binary_tensor is the Kronecker product
   of Spec/Kron.v, the Kronecker product is associative, and the binary-tree reduction (odd element
   kept in front, pairs multiplied, repeated) equals the left-to-right chain -- for every rank r and
   every list of well-formed rank-r factors (heterogeneous dimensions, no bound on the length). *)
Theorem C16_binary_tensor_is_kron : forall r A B, wf r A -> wf r B -> binary_tensor r A B = Ok (kron2 A B).
Proof. exact binary_tensor_kron2. Qed.
Theorem C16_kron_assoc : forall r A B C, wf r A -> wf r B -> wf r C ->
  kron2 (kron2 A B) C = kron2 A (kron2 B C).
Proof. exact kron2_assoc. Qed.
Theorem C16_tensor_is_kron_chain : forall r F Fs, Forall (wf r) (F :: Fs) ->
  tensor r (F :: Fs) = Ok (kron_chain F Fs).
Proof. exact tensor_is_kron_chain. Qed.
Print Assumptions C16_tensor_is_kron_chain.
(* entry (i_1..i_r) of the chain = product over the factors k of F_k at the k-th mixed-radix digits of
   i_1, .., i_r with respect to the factor dimensions on the respective axis *)
Theorem C16_kron_chain_entry : forall r L F idx, Forall (wf r) (F :: L) -> inb idx (shp (kron_chain F L)) ->
  aget (kron_chain F L) idx = kron_entry r (F :: L) idx.
Proof. exact kron_chain_entry. Qed.
Print Assumptions C16_kron_chain_entry.
Definition exA := mkArr [2; 1] [2; 3]%Z.
Definition exB := mkArr [1; 3] [5; 7; 11]%Z.
Definition exC := mkArr [2; 2] [1; 2; 3; 4]%Z.
Example C16_tensor_example :
  Forall (wf 2) [exA; exB; exC] /\
  tensor 2 [exA; exB; exC] = Ok (kron_chain exA [exB; exC]) /\
  aget (kron_chain exA [exB; exC]) [3; 4] = 99%Z.
Proof.
  repeat split; try reflexivity.
  repeat constructor.
Qed.

(* ---- tensor_insert: order of the factors produced by the position loop (on arbitrary labels).
   chain_spec (combine normalised-positions labels) 0 orig = the original chain with every inserted
   factor in front of the original factor at its position p (normalised from [-n, n]; p = n: at the
   end), factors with equal positions in argument order. *)
Theorem C16_insert_order_spec : forall (L : Type) n (pos : list Z) (xs orig : list L),
  1 <= n -> length orig = n -> length pos = length xs -> Forall (admissible n) pos ->
  insert_order n pos xs orig = Ok (chain_spec fst snd (combine (map (npos n) pos) xs) 0 orig).
Proof. exact @insert_order_spec. Qed.
Print Assumptions C16_insert_order_spec.
Example C16_insert_order_example :
  insert_order 3 [-1; 3; 0; -3; 2]%Z [10; 11; 12; 13; 14] [0; 1; 2] = Ok [12; 13; 0; 1; 10; 14; 2; 11].
Proof. reflexivity. Qed.

(* ---- the recorded dimensions (carr_dims, inserted at p instead of p + i) always give the same
   products in front of and behind the next insertion point as the true dimensions; they end up as a
   permutation of the true dimension list (first component of the final state = documented chain) *)
Theorem C16_insert_dims_invariant : forall n (pos : list Z) (ds orig : list nat),
  1 <= n -> length orig = n -> length pos = length ds -> Forall (admissible n) pos ->
  exists rc, insert_loop dims_step (insert_items n pos ds) 0 (orig, orig) =
             Ok (chain_spec fst snd (combine (map (npos n) pos) ds) 0 orig, rc)
             /\ Permutation rc (chain_spec fst snd (combine (map (npos n) pos) ds) 0 orig).
Proof. exact dims_invariant. Qed.
Print Assumptions C16_insert_dims_invariant.
Example C16_insert_dims_example :
  insert_loop dims_step (insert_items 2 [0; 1]%Z [5; 7]) 0 ([2; 3], [2; 3]) = Ok ([5; 2; 7; 3], [5; 7; 2; 3]).
Proof. reflexivity. Qed.

(* ---- tensor_insert, numerically (all ranks, all chains of well-formed rank-r factors, all admissible
   position tuples incl. negative / end / repeated positions; no leading broadcast axes):
   (1) single_tensor_insert (reshape to the RECORDED constituent dimensions, einsum with the constructed
       subscripts, reshape to the product shape) is the Kronecker insertion of Spec/Kron.v, which uses
       the recorded dimensions only through the products behind the insertion point;
   (2) Kronecker insertion into a chain = chain with the factor inserted;
   (3) the whole loop: tensor_insert(tensor(L), *G, pos, dims of L) = tensor(rearranged list). *)
Theorem C16_single_insert_is_kron_ins : forall r m C ins Ds pos,
  1 <= r -> length Ds = r -> Forall (fun d => length d = m) Ds -> pos <= m ->
  wf r C -> wf r ins -> shp C = map prodn Ds ->
  single_tensor_insert r C ins Ds pos =
  Ok (kron_ins (map (fun d => prodn (firstn pos d)) Ds) (map (fun d => prodn (skipn pos d)) Ds) C ins).
Proof. exact single_insert_kron_ins. Qed.
Theorem C16_kron_ins_chain : forall r L1 L2 ins, Forall (wf r) L1 -> Forall (wf r) L2 -> wf r ins ->
  kron_ins (shp (chain_u r L1)) (shp (chain_u r L2)) (chain_u r (L1 ++ L2)) ins = chain_u r (L1 ++ ins :: L2).
Proof. exact kron_ins_chain_u. Qed.
Theorem C16_insert_spec : forall r (L G : list arr) (pos : list Z),
  1 <= r -> 1 <= length L -> Forall (wf r) L -> Forall (wf r) G -> G <> [] ->
  length pos = length G -> Forall (admissible (length L)) pos ->
  tensor_insert r (chain_u r L) G (PSeq pos) (map (fun a => axis_dims a L) (seq 0 r)) =
  Ok (chain_u r (chain_spec fst snd (combine (map (npos (length L)) pos) G) 0 L)).
Proof. exact tensor_insert_spec. Qed.
Print Assumptions C16_insert_spec.
Theorem C16_insert_equals_tensor_of_rearranged : forall r (L G : list arr) (pos : list Z),
  1 <= r -> 1 <= length L -> Forall (wf r) L -> Forall (wf r) G -> G <> [] ->
  length pos = length G -> Forall (admissible (length L)) pos ->
  (do a <- tensor r L; tensor_insert r a G (PSeq pos) (map (fun a => axis_dims a L) (seq 0 r))) =
  tensor r (chain_spec fst snd (combine (map (npos (length L)) pos) G) 0 L).
Proof. exact insert_equals_tensor_of_rearranged. Qed.
Print Assumptions C16_insert_equals_tensor_of_rearranged.
Theorem C16_insert_int_spec : forall r (L G : list arr) (p : Z),
  1 <= r -> 1 <= length L -> Forall (wf r) L -> Forall (wf r) G -> G <> [] -> admissible (length L) p ->
  tensor_insert r (chain_u r L) G (PInt p) (map (fun a => axis_dims a L) (seq 0 r)) =
  Ok (chain_u r (firstn (npos (length L) p) L ++ G ++ skipn (npos (length L) p) L)).
Proof. exact tensor_insert_int_spec. Qed.
Example C16_insert_spec_example :
  Forall (wf 2) [exA; exB] /\ Forall (wf 2) [exC; exA] /\ Forall (admissible 2) [-1; 0]%Z /\
  chain_spec fst snd (combine (map (npos 2) [-1; 0]%Z) [exC; exA]) 0 [exA; exB] = [exA; exA; exC; exB] /\
  (do a <- tensor 2 [exA; exB]; tensor_insert 2 a [exC; exA] (PSeq [-1; 0]%Z) [[2; 1]; [1; 3]]) =
  tensor 2 [exA; exA; exC; exB].
Proof.
  repeat split; try reflexivity; try (repeat constructor; unfold admissible; simpl; lia).
Qed.

(* ---- tensor_transpose, numerically: reshape to the constituent dimensions, transpose by
   [nb + r*ndim + o for r in range(rank) for o in order], reshape back = Kronecker chain of the permuted
   factor list (new factor k = old factor order[k]); every rank, every chain, every permutation. *)
Theorem C16_unfolded_entry : forall r L V, 1 <= r -> L <> [] -> Forall (wf r) L -> Forall2 inb V (dims_table r L) ->
  aget (mkArr (concat (dims_table r L)) (dat (chain_u r L))) (concat V) =
  zprod (map (fun k => aget (nth k L (mkArr [] [])) (factor_pick r V k)) (seq 0 (length L))).
Proof. exact unfolded_entry'. Qed.
Theorem C16_transpose_spec : forall r L ord,
  1 <= r -> 1 <= length L -> Forall (wf r) L -> Permutation ord (seq 0 (length L)) ->
  tensor_transpose r (chain_u r L) (map Z.of_nat ord) (dims_table r L) = Ok (chain_u r (permute_list ord L)).
Proof. exact transpose_spec. Qed.
Print Assumptions C16_transpose_spec.
Example C16_transpose_example :
  Forall (wf 2) [exA; exB; exC] /\ Permutation [1; 2; 0] (seq 0 3) /\
  permute_list [1; 2; 0] [exA; exB; exC] = [exB; exC; exA] /\
  (do a <- tensor 2 [exA; exB; exC]; tensor_transpose 2 a [1; 2; 0]%Z [[2; 1; 2]; [1; 3; 2]]) =
  tensor 2 [exB; exC; exA].
Proof.
  repeat split; try reflexivity; try (repeat constructor).
  apply (Permutation_trans (l' := [1; 0; 2])); [apply perm_skip; apply perm_swap | apply perm_swap].
Qed.

Theorem C16_transpose_equals_tensor_of_rearranged : forall r L ord,
  1 <= r -> 1 <= length L -> Forall (wf r) L -> Permutation ord (seq 0 (length L)) ->
  (do a <- tensor r L; tensor_transpose r a (map Z.of_nat ord) (dims_table r L)) = tensor r (permute_list ord L).
Proof. exact transpose_equals_tensor_of_rearranged. Qed.

(* ---- tensor_transpose composes: transposing with o1 and then with o2 (the second call is given the
   dimensions of the rearranged chain) = ONE transposition with the composed order k |-> o1[o2[k]]; with
   the inverse order the original chain is returned unchanged.  Every rank, chain, pair of permutations. *)
Theorem C16_transpose_compose : forall r (L : list arr) o1 o2,
  1 <= r -> 1 <= length L -> Forall (wf r) L ->
  Permutation o1 (seq 0 (length L)) -> Permutation o2 (seq 0 (length L)) ->
  (do a <- tensor_transpose r (chain_u r L) (map Z.of_nat o1) (dims_table r L);
   tensor_transpose r a (map Z.of_nat o2) (dims_table r (permute_list o1 L)))
  = tensor_transpose r (chain_u r L) (map Z.of_nat (compose_ord o1 o2)) (dims_table r L).
Proof. exact transpose_compose. Qed.
Print Assumptions C16_transpose_compose.
Theorem C16_transpose_round_trip : forall r (L : list arr) o1 o2,
  1 <= r -> 1 <= length L -> Forall (wf r) L ->
  Permutation o1 (seq 0 (length L)) -> Permutation o2 (seq 0 (length L)) ->
  compose_ord o1 o2 = seq 0 (length L) ->
  (do a <- tensor_transpose r (chain_u r L) (map Z.of_nat o1) (dims_table r L);
   tensor_transpose r a (map Z.of_nat o2) (dims_table r (permute_list o1 L)))
  = Ok (chain_u r L).
Proof. exact transpose_round_trip. Qed.
Example C16_transpose_round_trip_example :
  compose_ord [1; 2; 0] [2; 0; 1] = seq 0 3 /\
  (do a <- tensor 2 [exA; exB; exC];
   do b <- tensor_transpose 2 a [1; 2; 0]%Z [[2; 1; 2]; [1; 3; 2]];
   tensor_transpose 2 b [2; 0; 1]%Z [[1; 2; 2]; [3; 2; 1]]) = tensor 2 [exA; exB; exC].
Proof. split; reflexivity. Qed.

(* ---- tensor_merge, numerically (code after d3c7a1d): the single einsum with the constructed subscripts on
   the two chains reshaped to their constituent dimensions = Kronecker chain of the merged factor list;
   every rank, every pair of chains, every admissible position tuple (mixed sign, repeated, end). *)
Theorem C16_merge_spec : forall r (LA LI : list arr) (pos : list Z),
  1 <= r -> 1 <= length LA -> 1 <= length LI -> Forall (wf r) LA -> Forall (wf r) LI ->
  length pos = length LI -> Forall (admissible (length LA)) pos ->
  tensor_merge r (chain_u r LA) (chain_u r LI) pos (dims_table r LA) (dims_table r LI) =
  Ok (chain_u r (chain_spec fst snd (combine (map (npos (length LA)) pos) LI) 0 LA)).
Proof. exact tensor_merge_spec. Qed.
Print Assumptions C16_merge_spec.
Theorem C16_merge_equals_tensor_of_rearranged : forall r (LA LI : list arr) (pos : list Z),
  1 <= r -> 1 <= length LA -> 1 <= length LI -> Forall (wf r) LA -> Forall (wf r) LI ->
  length pos = length LI -> Forall (admissible (length LA)) pos ->
  (do a <- tensor r LA; do i <- tensor r LI; tensor_merge r a i pos (dims_table r LA) (dims_table r LI)) =
  tensor r (chain_spec fst snd (combine (map (npos (length LA)) pos) LI) 0 LA).
Proof. exact merge_equals_tensor_of_rearranged. Qed.
Example C16_merge_spec_example :
  Forall (wf 2) [exA; exB] /\ Forall (wf 2) [exC; exA] /\ Forall (admissible 2) [-1; 0]%Z /\
  (do a <- tensor 2 [exA; exB]; do i <- tensor 2 [exC; exA];
   tensor_merge 2 a i [-1; 0]%Z [[2; 1]; [1; 3]] [[2; 2]; [2; 1]]) = tensor 2 [exA; exA; exC; exB].
Proof.
  repeat split; try reflexivity; try (repeat constructor; unfold admissible; simpl; lia).
Qed.

(* ---- einsum subscripts built by _tensor_insert_subscripts and tensor_merge are the axis-block-wise
   interleavings that denote the rearranged chain *)
Theorem C16_insert_subscripts_spec : forall ndim pos rank, 1 <= rank -> pos <= ndim ->
  tensor_insert_subscripts ndim pos rank =
  (seq 0 rank, seq rank (ndim * rank),
   flat_map (fun r => insert_at pos r (seq (rank + r * ndim) ndim)) (seq 0 rank)).
Proof. exact insert_subscripts_spec. Qed.
Print Assumptions C16_insert_subscripts_spec.

Theorem C16_merge_order_spec : forall rank m n (pos : list Z),
  1 <= n -> Forall (admissible n) pos ->
  exists np, merge_norm_pos n pos = Ok np /\
  merge_out_chars rank m n np =
  (seq 0 (m * rank), seq (m * rank) (n * rank),
   flat_map (fun r => chain_spec fst snd (combine (map (npos n) pos) (seq (r * m) m)) 0 (seq (m * rank + r * n) n))
            (seq 0 rank)).
Proof. exact merge_spec_letters. Qed.
Print Assumptions C16_merge_order_spec.
Example C16_merge_order_example :
  merge_norm_pos 2 [-1; 0]%Z = Ok [1; 0]%Z /\
  merge_out_chars 2 2 2 [1; 0]%Z = ([0; 1; 2; 3], [4; 5; 6; 7], [1; 4; 0; 5; 3; 6; 2; 7]).
Proof. split; reflexivity. Qed.

(* the order of operations used before commit d3c7a1d (sort raw positions, then normalise) violates the
   documented chain *)
Theorem C16_merge_prefix_refuted :
  exists (n : nat) (pos : list Z) (letters part : list nat),
    length part = n /\ Forall (admissible n) pos /\
    merge_part_loop_old n (sort_lex (combine pos letters)) 0 part <>
    chain_spec fst snd (combine (map (npos n) pos) letters) 0 part.
Proof. exact merge_prefix_refuted. Qed.

(* ---- inadmissible positions / dimension specifications are rejected *)
Theorem C16_insert_rejects : forall rank a args pos arr_dims,
  1 <= length (hd [] arr_dims) -> ~ Forall (admissible (length (hd [] arr_dims))) pos ->
  exists e, tensor_insert rank a args (PSeq pos) arr_dims = Err e.
Proof. exact insert_rejects. Qed.
Theorem C16_insert_rejects_int : forall rank a args p arr_dims,
  1 <= length (hd [] arr_dims) -> ~ admissible (length (hd [] arr_dims)) p ->
  exists e, tensor_insert rank a args (PInt p) arr_dims = Err e.
Proof. exact insert_rejects_int. Qed.
Theorem C16_insert_order_rejects : forall (L : Type) n (pos : list Z) (xs orig : list L),
  1 <= n -> length pos = length xs -> ~ Forall (admissible n) pos ->
  insert_order n pos xs orig = Err IndexError.
Proof. exact @insert_order_rejects. Qed.
Theorem C16_merge_rejects : forall rank a ins pos arr_dims ins_dims,
  parse_dims_arg arr_dims rank = Ok tt -> parse_dims_arg ins_dims rank = Ok tt ->
  1 <= rank -> 1 <= length (hd [] arr_dims) -> ~ Forall (admissible (length (hd [] arr_dims))) pos ->
  tensor_merge rank a ins pos arr_dims ins_dims = Err IndexError.
Proof. exact merge_rejects. Qed.
Print Assumptions C16_merge_rejects.
Example C16_rejects_example :
  tensor_insert 1 (mkArr [6] [1; 2; 3; 4; 5; 6]%Z) [mkArr [2] [1; 2]%Z] (PSeq [3]%Z) [[2; 3]] = Err IndexError /\
  tensor_merge 1 (mkArr [6] [1; 2; 3; 4; 5; 6]%Z) (mkArr [2] [1; 2]%Z) [-3]%Z [[2; 3]] [[2]] = Err IndexError.
Proof. split; reflexivity. Qed.

Theorem C16_dims_rejects : forall dims rank,
  ~ (length dims = rank /\ exists d t, dims = d :: t /\ Forall (fun x => length x = length d) t) ->
  parse_dims_arg dims rank = Err ValueError.
Proof. exact dims_rejects. Qed.
Theorem C16_insert_dims_rejects : forall rank a args pos arr_dims e,
  parse_dims_arg arr_dims rank = Err e -> tensor_insert rank a args (PSeq pos) arr_dims = Err ValueError.
Proof. exact insert_dims_rejects. Qed.
Theorem C16_merge_dims_rejects : forall rank a ins pos arr_dims ins_dims,
  (exists e, parse_dims_arg arr_dims rank = Err e) \/ (exists e, parse_dims_arg ins_dims rank = Err e) ->
  tensor_merge rank a ins pos arr_dims ins_dims = Err ValueError.
Proof. exact merge_dims_rejects. Qed.
Theorem C16_transpose_dims_rejects : forall rank a order arr_dims e,
  parse_dims_arg arr_dims rank = Err e -> tensor_transpose rank a order arr_dims = Err ValueError.
Proof. exact transpose_dims_rejects. Qed.
Theorem C16_merge_dims_product_rejects : forall rank a ins pos arr_dims ins_dims,
  1 <= rank -> 1 <= length (hd [] arr_dims) -> Forall (admissible (length (hd [] arr_dims))) pos ->
  prodn (lead rank (shp ins) ++ concat ins_dims) <> length (dat ins) \/
  prodn (lead rank (shp a) ++ concat arr_dims) <> length (dat a) ->
  tensor_merge rank a ins pos arr_dims ins_dims = Err ValueError.
Proof. exact merge_dims_product_rejects. Qed.
Theorem C16_transpose_dims_product_rejects : forall rank a order arr_dims,
  1 <= rank -> prodn (lead rank (shp a) ++ concat arr_dims) <> length (dat a) ->
  tensor_transpose rank a order arr_dims = Err ValueError.
Proof. exact transpose_dims_product_rejects. Qed.
Print Assumptions C16_transpose_dims_product_rejects.

(* ---- Pauli index maps *)
Theorem C16_equiv_pauli_spec : forall idx N,
  equivalent_pauli idx N =
  map (fun b => ravel (repeat 4 N) (embed (qmask idx N) b)) (indices (repeat 4 (count_true (qmask idx N)))).
Proof. exact equiv_pauli_spec. Qed.
Theorem C16_equiv_pauli_digits : forall idx N j,
  j < 4 ^ count_true (qmask idx N) ->
  unravel (repeat 4 N) (nth j (equivalent_pauli idx N) 0) =
  embed (qmask idx N) (unravel (repeat 4 (count_true (qmask idx N))) j).
Proof. exact equiv_pauli_digits. Qed.
Print Assumptions C16_equiv_pauli_digits.
Theorem C16_remap_pauli_spec : forall N ord,
  Permutation ord (seq 0 N) ->
  remap_pauli (map Z.of_nat ord) N =
  Ok (map (fun a => ravel (repeat 4 N) (permute ord a)) (indices (repeat 4 N))).
Proof. exact remap_pauli_spec. Qed.
Theorem C16_remap_pauli_perm : forall N ord r,
  Permutation ord (seq 0 N) -> remap_pauli (map Z.of_nat ord) N = Ok r ->
  Permutation r (seq 0 (4 ^ N)).
Proof. exact remap_pauli_perm. Qed.
Print Assumptions C16_remap_pauli_perm.
(* digit form of the remap (analogue of C16_equiv_pauli_digits), composition and inverse: element j of the
   remap has the base-4 digits of j permuted by `order`; looking up the remap of o2 and then that of o1 is
   the remap of k |-> o2[o1[k]]; inverse orders undo each other.  Every N, every pair of permutations. *)
Theorem C16_remap_pauli_digits : forall N ord r j,
  Permutation ord (seq 0 N) -> remap_pauli (map Z.of_nat ord) N = Ok r -> j < 4 ^ N ->
  unravel (repeat 4 N) (nth j r 0) = permute ord (unravel (repeat 4 N) j).
Proof. exact remap_pauli_digits. Qed.
Print Assumptions C16_remap_pauli_digits.
Theorem C16_remap_pauli_compose_digits : forall N o1 o2 r1 r2 j,
  Permutation o1 (seq 0 N) -> Permutation o2 (seq 0 N) ->
  remap_pauli (map Z.of_nat o1) N = Ok r1 -> remap_pauli (map Z.of_nat o2) N = Ok r2 -> j < 4 ^ N ->
  unravel (repeat 4 N) (nth (nth j r2 0) r1 0) =
  permute (map (fun i => nth i o2 0) o1) (unravel (repeat 4 N) j).
Proof. exact remap_pauli_compose_digits. Qed.
Theorem C16_remap_pauli_inverse : forall N o1 o2 r1 r2 j,
  Permutation o1 (seq 0 N) -> Permutation o2 (seq 0 N) ->
  remap_pauli (map Z.of_nat o1) N = Ok r1 -> remap_pauli (map Z.of_nat o2) N = Ok r2 ->
  map (fun i => nth i o2 0) o1 = seq 0 N -> j < 4 ^ N ->
  nth (nth j r2 0) r1 0 = j.
Proof. exact remap_pauli_inverse. Qed.
Print Assumptions C16_remap_pauli_inverse.
Example C16_remap_inverse_example :
  map (fun i => nth i [2; 0; 1] 0) [1; 2; 0] = seq 0 3 /\
  (do r1 <- remap_pauli [1; 2; 0]%Z 3; do r2 <- remap_pauli [2; 0; 1]%Z 3;
   Ok (map (fun j => nth (nth j r2 0) r1 0) (seq 0 64))) = Ok (seq 0 64).
Proof. split; reflexivity. Qed.
Example C16_pauli_example :
  equivalent_pauli [2; 0]%Z 3 = [0; 1; 2; 3; 16; 17; 18; 19; 32; 33; 34; 35; 48; 49; 50; 51] /\
  remap_pauli [1; 0]%Z 2 = Ok [0; 4; 8; 12; 1; 5; 9; 13; 2; 6; 10; 14; 3; 7; 11; 15].
Proof. split; reflexivity. Qed.

(* ---- the model and all numeric theorems are parametric in the entry type: any commutative monoid of
   entries (multiplication) with a sum whose zero is neutral (Model/Tensor.v: Entry / EntryLaws).  The
   statements above are the instance Z (the one evaluated by the exhaustive correspondence); C05 / C06 use the
   instance of complex pairs over R (Proofs/KronBridgeC.v, outside this file's cone). *)
Theorem C16_generic_rearrangements : forall (T : Type) (EN : Entry T) (EL : EntryLaws T) r,
  (forall (F : garr T) Fs, Forall (wf r) (F :: Fs) -> tensor r (F :: Fs) = Ok (kron_chain F Fs)) /\
  (forall (L G : list (garr T)) (pos : list Z),
     1 <= r -> 1 <= length L -> Forall (wf r) L -> Forall (wf r) G -> G <> [] ->
     length pos = length G -> Forall (admissible (length L)) pos ->
     (do a <- tensor r L; tensor_insert r a G (PSeq pos) (map (fun a => axis_dims a L) (seq 0 r))) =
     tensor r (chain_spec fst snd (combine (map (npos (length L)) pos) G) 0 L)) /\
  (forall (LA LI : list (garr T)) (pos : list Z),
     1 <= r -> 1 <= length LA -> 1 <= length LI -> Forall (wf r) LA -> Forall (wf r) LI ->
     length pos = length LI -> Forall (admissible (length LA)) pos ->
     (do a <- tensor r LA; do i <- tensor r LI; tensor_merge r a i pos (dims_table r LA) (dims_table r LI)) =
     tensor r (chain_spec fst snd (combine (map (npos (length LA)) pos) LI) 0 LA)) /\
  (forall (L : list (garr T)) ord,
     1 <= r -> 1 <= length L -> Forall (wf r) L -> Permutation ord (seq 0 (length L)) ->
     (do a <- tensor r L; tensor_transpose r a (map Z.of_nat ord) (dims_table r L)) = tensor r (permute_list ord L)).
Proof.
  exact (fun T EN EL r => conj (@tensor_is_kron_chain T EN EL r)
           (conj (@insert_equals_tensor_of_rearranged T EN EL r)
           (conj (@merge_equals_tensor_of_rearranged T EN EL r) (@transpose_equals_tensor_of_rearranged T EN EL r)))).
Qed.
Print Assumptions C16_generic_rearrangements.
(* tensor_transpose / tensor_insert of ARBITRARY tensors (not only Kronecker chains), as index maps *)
Theorem C16_transpose_index_spec : forall (T : Type) (EN : Entry T) r n (C : garr T) (Ds : list (list nat)) ord,
  1 <= r -> 1 <= n -> length Ds = r -> Forall (fun d => length d = n) Ds -> wf r C -> shp C = map prodn Ds ->
  Permutation ord (seq 0 n) ->
  exists R, tensor_transpose r C (map Z.of_nat ord) Ds = Ok R /\ shp R = shp C /\ length (dat R) = prodn (shp C) /\
    map prodn (permute_dims ord Ds) = map prodn Ds /\
    forall V', Forall2 inb V' (permute_dims ord Ds) ->
      aget R (map2 ravel (permute_dims ord Ds) V') = aget C (map2 ravel Ds (src_blocks n ord V')).
Proof. exact @transpose_index_spec. Qed.
Theorem C16_insert_single : forall (T : Type) (EN : Entry T) (EL : EntryLaws T) r n (C G : garr T) (Ds : list (list nat)) (p : Z),
  1 <= r -> 1 <= n -> length Ds = r -> Forall (fun d => length d = n) Ds -> admissible n p ->
  wf r C -> wf r G -> shp C = map prodn Ds ->
  tensor_insert r C [G] (PSeq [p]) Ds =
  Ok (kron_ins (map (fun d => prodn (firstn (npos n p) d)) Ds) (map (fun d => prodn (skipn (npos n p) d)) Ds) C G).
Proof. exact @tensor_insert_single. Qed.
Theorem C16_merge_index_spec : forall (T : Type) (EN : Entry T) (EL : EntryLaws T) r (A I : garr T) (DA DI : list (list nat)) (pos : list Z) n m,
  1 <= r -> 1 <= m -> 1 <= n -> length DA = r -> length DI = r ->
  Forall (fun d => length d = n) DA -> Forall (fun d => length d = m) DI ->
  wf r A -> wf r I -> shp A = map prodn DA -> shp I = map prodn DI ->
  length pos = m -> Forall (admissible n) pos ->
  let ps := map (npos n) pos in
  exists R, tensor_merge r A I pos DA DI = Ok R /\ shp R = map2 Nat.mul (shp I) (shp A) /\
    map prodn (merged_dims r m n DA DI ps) = map2 Nat.mul (shp I) (shp A) /\
    forall W, Forall2 inb W (merged_dims r m n DA DI ps) ->
      aget R (map2 ravel (merged_dims r m n DA DI ps) W) =
      emul (aget I (map2 ravel DI (ins_blocks r m n ps W))) (aget A (map2 ravel DA (arr_blocks_of r m n ps W))).
Proof. exact @tensor_merge_index_spec. Qed.
Print Assumptions C16_transpose_index_spec.
Print Assumptions C16_merge_index_spec.
