(* C10 -- second-order filter function equals the nested time-ordered integral.
   This file contains only statements closed by [exact <lemma>] and their assumptions
   (and Examples showing that the hypotheses are satisfiable).                          *)
From Coq Require Import ZArith Reals List Lra Lia.
From Coquelicot Require Import Coquelicot.
From FF Require Import Base.Ops Inst.RInst Inst.Param Base.RAlg Model.Numeric Model.SecondOrder Model.Consts
     Model.Tie.C10 Proofs.Foi Proofs.SecondOrder Proofs.SecondOrderAsm Proofs.SecondOrderBound Proofs.SecondOrderInt Proofs.SecondOrderGlue Proofs.SecondOrderF2Bound Proofs.SecondOrderScaling Proofs.Invariance Proofs.SecondOrderTrace Proofs.SecondOrderHerm Proofs.SecondOrderEncl Proofs.CMBase Corr.ObsC10.
Import ListNotations.
Local Open Scope R_scope.

(* Segment integral: each of the three closed forms of numeric._second_order_integral, selected by exact zeros
   (soi_core_x, the mathematical reference), is the iterated integral int_0^T e^{i a t} int_0^t e^{i b t'} dt' dt. *)
Theorem C10_soi_cases : forall a b T, iterated_exp_integral a b T (soi_core_x RO a b (a + b) T).
Proof. exact soi_cases. Qed.
Print Assumptions C10_soi_cases.

(* The code selects the cases by |x dt| > thr2 (1e-5 since a13e2c1; 1e-8 in c3a36ea).  Where both denominators are regular (zero, or
   larger than thr2/T) its entry (i,j,m,n), a = Omega_ij - w, b = w + Omega_mn, IS that integral ... *)
Theorem C10_soi_entry_integral : forall thr2 w evi evj evm evn T, 0 <= thr2 ->
  regular thr2 (w + (evm - evn)) T -> regular thr2 ((evi - evj) - w) T ->
  iterated_exp_integral ((evi - evj) - w) (w + (evm - evn)) T (soi_entry RO thr2 w evi evj evm evn T).
Proof. exact soi_entry_integral. Qed.
Print Assumptions C10_soi_entry_integral.

(* ... and for ALL a, b and T >= 0 it is within thr2^2 T^2 (3/8 + thr2/4) of it, componentwise (exact arithmetic;
   second-order remainders of the first-order terms the code keeps in its truncated branches). *)
Theorem C10_soi_bound : forall thr2 a b T, 0 <= thr2 -> 0 <= T ->
  exists z, iterated_exp_integral a b T z /\
    Rabs (fst (soi_core RO thr2 a b (a + b) T) - fst z) <= thr2 * thr2 * (T * T) * (3/8 + thr2/4) /\
    Rabs (snd (soi_core RO thr2 a b (a + b) T) - snd z) <= thr2 * thr2 * (T * T) * (3/8 + thr2/4).
Proof. exact soi_bound_integral. Qed.
Print Assumptions C10_soi_bound.

(* The two time orderings of the square add up to the product of the first-order integrals. *)
Theorem C10_soi_sum_identity : forall a b T,
  cadd' (soi_core_x RO a b (a + b) T) (soi_core_x RO b a (b + a) T) = cmul' (Jc a T) (Jc b T).
Proof. exact soi_sum_identity. Qed.
Print Assumptions C10_soi_sum_identity.

(* Same-segment term of one segment: D(a,b,k,l) + conj D(b,a,l,k) = conj(step[a,k]) step[b,l]. *)
Theorem C10_same_plus_adjoint_seg : forall d thr thr2 ev V Q tg dt omega basis nopers nc a b k l o,
  0 <= thr -> 0 <= thr2 ->
  (forall N, In N nopers -> fherm d (toF N)) -> (forall Ck, In Ck basis -> fherm d (toF Ck)) ->
  length nc = length nopers ->
  (a < length nopers)%nat -> (b < length nopers)%nat -> (k < length basis)%nat -> (l < length basis)%nat ->
  (o < length omega)%nat ->
  (forall m n, (m < d)%nat -> (n < d)%nat ->
     let x := vg RO omega o + (vg RO ev m - vg RO ev n) in x = 0 \/ thr < Rabs (x * dt)) ->
  (forall m n, (m < d)%nat -> (n < d)%nat -> regular thr2 (vg RO omega o + (vg RO ev m - vg RO ev n)) dt) ->
  let na := length nopers in let nk := length basis in let no := length omega in
  let D := so_same RO d na nk no (so_NT RO d V nopers nc) (so_BT RO d V Q basis) (map (fun w => soi_tab RO d thr2 w ev dt) omega) in
  let step := cm_step RO d thr ev V Q tg dt omega basis nopers nc in
  cadd' (a5get RO D a b k l o) (cconj' (a5get RO D b a l k o)) =
  cmul' (cconj' (a3get RO step a k o)) (a3get RO step b l o).
Proof. exact same_plus_adjoint_seg. Qed.
Print Assumptions C10_same_plus_adjoint_seg.

(* F2_ab,kl + conj(F2_ba,lk) = conj(B_ak) B_bl (generalized first-order filter function), exact arithmetic,
   Hermitian noise operators and basis, no first-order entry on the Taylor branch unless its argument is 0. *)
Theorem C10_F2_plus_adjoint : forall d thr thr2 omega basis nopers evs Vs Qs ncoeffs dts ts a b k l o,
  0 <= thr -> 0 <= thr2 ->
  (forall N, In N nopers -> fherm d (toF N)) -> (forall Ck, In Ck basis -> fherm d (toF Ck)) ->
  length evs = length dts -> length Vs = length dts ->
  (length dts <= length Qs)%nat -> (length dts <= length ts)%nat -> length ncoeffs = length nopers ->
  (a < length nopers)%nat -> (b < length nopers)%nat -> (k < length basis)%nat -> (l < length basis)%nat ->
  (o < length omega)%nat ->
  no_taylor d omega thr evs dts o -> no_taylor d omega thr2 evs dts o ->
  let F2 := second_order_ff RO d thr thr2 evs Vs Qs omega basis nopers ncoeffs dts ts (None, None) in
  let Bm := control_matrix_from_scratch RO d thr evs Vs Qs omega basis nopers ncoeffs dts ts in
  cadd' (a5get RO F2 a b k l o) (cconj' (a5get RO F2 b a l k o)) =
  cmul' (cconj' (a3get RO Bm a k o)) (a3get RO Bm b l o).
Proof. exact F2_plus_adjoint. Qed.
Print Assumptions C10_F2_plus_adjoint.

(* The Hermiticity hypothesis is necessary: for the 1x1 "basis element" i (two idle segments, w = 0) every other
   hypothesis holds and the identity fails (0 vs 4) -- the same-segment term uses B_ak(t), the cross term conj(step). *)
Theorem C10_F2_plus_adjoint_needs_hermitian :
  let d := 1%nat in let thr := 0 in let omega := [0] in let basis := [w_iC] in let nopers := [w_I1] in
  let evs := [[0];[0]] in let Vs := [w_I1;w_I1] in let Qs := [w_I1;w_I1;w_I1] in
  let ncoeffs := [[1;1]] in let dts := [1;1] in let ts := [0;1;2] in
  let F2 := second_order_ff RO d thr 0 evs Vs Qs omega basis nopers ncoeffs dts ts (None, None) in
  let Bm := control_matrix_from_scratch RO d thr evs Vs Qs omega basis nopers ncoeffs dts ts in
  0 <= thr /\ (forall N, In N nopers -> fherm d (toF N)) /\
  length evs = length dts /\ length Vs = length dts /\ (length dts <= length Qs)%nat /\ (length dts <= length ts)%nat /\
  length ncoeffs = length nopers /\ no_taylor d omega thr evs dts 0 /\
  cadd' (a5get RO F2 0 0 0 0 0) (cconj' (a5get RO F2 0 0 0 0 0)) <>
  cmul' (cconj' (a3get RO Bm 0 0 0)) (a3get RO Bm 0 0 0).
Proof. exact F2_plus_adjoint_needs_hermitian. Qed.
Print Assumptions C10_F2_plus_adjoint_needs_hermitian.

(* Both code paths (cached intermediates: all, only n_opers_transformed, only the frequency-dependent ones)
   define the value computed from scratch. *)
Theorem C10_intermediates_irrelevant : forall d thr thr2 omega basis nopers evs Vs Qs ncoeffs dts ts im,
  valid_interm d thr omega basis nopers evs Vs Qs ncoeffs dts ts im ->
  second_order_ff RO d thr thr2 evs Vs Qs omega basis nopers ncoeffs dts ts im =
  second_order_ff RO d thr thr2 evs Vs Qs omega basis nopers ncoeffs dts ts (None, None).
Proof. exact intermediates_irrelevant. Qed.
Print Assumptions C10_intermediates_irrelevant.
Theorem C10_cached_valid : forall d thr omega basis nopers evs Vs Qs ncoeffs dts ts,
  valid_interm d thr omega basis nopers evs Vs Qs ncoeffs dts ts
    (cached_intermediates RO d thr evs Vs Qs omega basis nopers ncoeffs dts ts).
Proof. exact cached_valid. Qed.

(* F2_assembly (proved part): the entry is sum_g [ D_g + conj(step_g[a,k]) sum_{g'<g} step_g'[b,l] ] and, per
   segment, D_g is the nested time-ordered integral of the segment's time-domain control matrix and step_g
   its Fourier integral times e^{i w t_g}. *)
Theorem C10_F2_assembly_partial : forall d thr thr2 omega basis nopers evs Vs Qs ncoeffs dts ts a b k l o,
  0 <= thr -> 0 <= thr2 ->
  length evs = length dts -> length Vs = length dts ->
  (length dts <= length Qs)%nat -> (length dts <= length ts)%nat -> length ncoeffs = length nopers ->
  (a < length nopers)%nat -> (b < length nopers)%nat -> (k < length basis)%nat -> (l < length basis)%nat ->
  (o < length omega)%nat ->
  no_taylor d omega thr evs dts o -> no_taylor d omega thr2 evs dts o ->
  let segs := fresh_segs d thr omega basis nopers evs Vs Qs ts dts (transpose_coeffs RO (length dts) ncoeffs) in
  a5get RO (second_order_ff RO d thr thr2 evs Vs Qs omega basis nopers ncoeffs dts ts (None, None)) a b k l o =
    so_spec d thr2 (length nopers) (length basis) (length omega) omega a b k l o false segs 0c /\
  Forall2 (seg_td d thr2 omega basis nopers a b k l o) segs (firstn (length dts) ts).
Proof. exact F2_assembly_partial. Qed.
Print Assumptions C10_F2_assembly_partial.

(* F2_assembly: the model's second-order filter function is the nested time-ordered double integral
     F2_ab,kl(w) = int_0^tau e^{-i w t} B_ak(t) ( int_0^t e^{i w t'} B_bl(t') dt' ) dt
   of the piecewise time-domain control matrix Bpw (segment g: beta^g(t - t_g), real for Hermitian operators),
   for every number of segments, durations >= 0 (zero-length segments included), every frequency that keeps the
   first-order integrals off their Taylor branch (exact resonances included). *)
Theorem C10_F2_assembly : forall d thr thr2 omega basis nopers evs Vs Qs ncoeffs dts a b k l o,
  0 <= thr -> 0 <= thr2 ->
  (forall N, In N nopers -> fherm d (toF N)) -> (forall Ck, In Ck basis -> fherm d (toF Ck)) ->
  length evs = length dts -> length Vs = length dts -> (length dts <= length Qs)%nat ->
  length ncoeffs = length nopers ->
  (forall dt, In dt dts -> 0 <= dt) ->
  (a < length nopers)%nat -> (b < length nopers)%nat -> (k < length basis)%nat -> (l < length basis)%nat ->
  (o < length omega)%nat ->
  no_taylor d omega thr evs dts o -> no_taylor d omega thr2 evs dts o ->
  let ts := times RO dts in
  let segs := fresh_segs d thr omega basis nopers evs Vs Qs ts dts (transpose_coeffs RO (length dts) ncoeffs) in
  let w := vg RO omega o in
  let tau := sumlist RO dts in
  let F2 := second_order_ff RO d thr thr2 evs Vs Qs omega basis nopers ncoeffs dts ts (None, None) in
  exists Gam : R -> Cx,
    (forall t, 0 <= t <= tau ->
       is_CInt (fun t' => cmul' (cexp' (w * t')) (Bpw d b l segs 0 t')) 0 t (Gam t)) /\
    is_CInt (fun t => cmul' (cmul' (cexp' (- w * t)) (Bpw d a k segs 0 t)) (Gam t)) 0 tau (a5get RO F2 a b k l o).
Proof. exact F2_assembly. Qed.
Print Assumptions C10_F2_assembly.

(* Amplification of evaluation errors: the case formulas only divide by denominators with |x T| > thr2 and multiply
   the slope by an EdE with |EdE T| <= thr2, so buffers known to within u T move the case-1 value by at most
   2 u T^2 / thr2 and the case-2 value by at most u T^2 (4/thr2 + 1/2) (second term of the error budget of an entry). *)
Theorem C10_case1_amplification : forall thr2 u T b (f1 f2 f1' f2' : Cx), 0 < thr2 -> 0 <= T -> 0 <= u -> thr2 < Rabs (b * T) ->
  Rabs (fst f1' - fst f1) <= u * T -> Rabs (snd f1' - snd f1) <= u * T ->
  Rabs (fst f2' - fst f2) <= u * T -> Rabs (snd f2' - snd f2) <= u * T ->
  Rabs (fst (case1_of f1' f2' b) - fst (case1_of f1 f2 b)) <= 2 * u * (T * T) / thr2 /\
  Rabs (snd (case1_of f1' f2' b) - snd (case1_of f1 f2 b)) <= 2 * u * (T * T) / thr2.
Proof. exact case1_amplification. Qed.
Theorem C10_case2_amplification : forall thr2 u T a b (f1 ex f1' ex' : Cx), 0 < thr2 -> 0 <= T -> 0 <= u ->
  thr2 < Rabs (a * T) -> Rabs (b * T) <= thr2 ->
  Rabs (fst f1' - fst f1) <= u * T -> Rabs (snd f1' - snd f1) <= u * T ->
  Rabs (fst ex' - fst ex) <= u * T -> Rabs (snd ex' - snd ex) <= u * T ->
  Rabs (fst (case2_of f1' ex' a b T) - fst (case2_of f1 ex a b T)) <= u * (T * T) * (4 / thr2 + 1 / 2) /\
  Rabs (snd (case2_of f1' ex' a b T) - snd (case2_of f1 ex a b T)) <= u * (T * T) * (4 / thr2 + 1 / 2).
Proof. exact case2_amplification. Qed.
(* ... where case1_of / case2_of applied to the exact buffers are the model's case formulas *)
Theorem C10_soi_cases_of_buffers : forall (m1 m2 : bool) a b ab T,
  soi_cases_of RO m1 m2 a b ab T =
  cite RO m1 (case1_of (frc RO a T) (frc RO ab T) b)
       (cite RO m2 (case2_of (frc RO a T) (cscal RO T (cexp' (a * T))) a b T) (T * T / 2, T * T * T * (a / 3 + b / 6))).
Proof. exact soi_cases_of_buffers. Qed.
Print Assumptions C10_case2_amplification.

(* Without any condition on the second-order denominators: the code's model (threshold thr2) against the
   exact-selection model (thr2 = 0), and hence against the double integral, within
   F2_eps = sum_g 2 thr2^2 dt_g^2 (3/8 + thr2/4) A_g[a,k] A_g[b,l],  A_g[a,k] = sum_ij |X^g_ak(i,j)|. *)
Theorem C10_F2_bound : forall d thr thr2 omega basis nopers evs Vs Qs ncoeffs dts ts a b k l o,
  0 <= thr2 ->
  length evs = length dts -> length Vs = length dts ->
  (length dts <= length Qs)%nat -> (length dts <= length ts)%nat -> length ncoeffs = length nopers ->
  (forall dt, In dt dts -> 0 <= dt) ->
  (a < length nopers)%nat -> (b < length nopers)%nat -> (k < length basis)%nat -> (l < length basis)%nat ->
  (o < length omega)%nat ->
  let segs := fresh_segs d thr omega basis nopers evs Vs Qs ts dts (transpose_coeffs RO (length dts) ncoeffs) in
  Cmod (csub' (a5get RO (second_order_ff RO d thr thr2 evs Vs Qs omega basis nopers ncoeffs dts ts (None, None)) a b k l o)
              (a5get RO (second_order_ff RO d thr 0 evs Vs Qs omega basis nopers ncoeffs dts ts (None, None)) a b k l o))
  <= F2_eps d thr2 a b k l segs.
Proof. exact F2_bound. Qed.
Print Assumptions C10_F2_bound.

Theorem C10_F2_near_integral : forall d thr thr2 omega basis nopers evs Vs Qs ncoeffs dts a b k l o,
  0 <= thr2 -> 0 <= thr ->
  (forall N, In N nopers -> fherm d (toF N)) -> (forall Ck, In Ck basis -> fherm d (toF Ck)) ->
  length evs = length dts -> length Vs = length dts -> (length dts <= length Qs)%nat ->
  length ncoeffs = length nopers ->
  (forall dt, In dt dts -> 0 <= dt) ->
  (a < length nopers)%nat -> (b < length nopers)%nat -> (k < length basis)%nat -> (l < length basis)%nat ->
  (o < length omega)%nat ->
  no_taylor d omega thr evs dts o ->
  let ts := times RO dts in
  let segs := fresh_segs d thr omega basis nopers evs Vs Qs ts dts (transpose_coeffs RO (length dts) ncoeffs) in
  let w := vg RO omega o in
  let tau := sumlist RO dts in
  let F2 := second_order_ff RO d thr thr2 evs Vs Qs omega basis nopers ncoeffs dts ts (None, None) in
  exists (Gam : R -> Cx) (z : Cx),
    (forall t, 0 <= t <= tau ->
       is_CInt (fun t' => cmul' (cexp' (w * t')) (Bpw d b l segs 0 t')) 0 t (Gam t)) /\
    is_CInt (fun t => cmul' (cmul' (cexp' (- w * t)) (Bpw d a k segs 0 t)) (Gam t)) 0 tau z /\
    Cmod (csub' (a5get RO F2 a b k l o) z) <= F2_eps d thr2 a b k l segs.
Proof. exact F2_near_integral. Qed.
Print Assumptions C10_F2_near_integral.

(* Change of the time unit (durations x lam, energies and frequencies / lam): the masks |x dt| > thr2 are
   dimensionless, so the segment integral and every entry of F2 scale EXACTLY by lam^2, for every threshold. *)
Theorem C10_time_scaling_soi_entry : forall thr2 w ei ej em en T lam, 0 < lam ->
  soi_entry RO thr2 (w / lam) (ei / lam) (ej / lam) (em / lam) (en / lam) (lam * T) =
  cscal RO (lam * lam) (soi_entry RO thr2 w ei ej em en T).
Proof. exact time_scaling_soi_entry. Qed.
Print Assumptions C10_time_scaling_soi_entry.

Theorem C10_time_scaling_F2 : forall d lam, 0 < lam -> forall thr thr2 omega basis nopers a b k l o,
  (a < length nopers)%nat -> (b < length nopers)%nat -> (k < length basis)%nat -> (l < length basis)%nat ->
  (o < length omega)%nat ->
  forall evs Vs Qs ncoeffs dts ts,
  length evs = length dts -> length Vs = length dts ->
  (length dts <= length Qs)%nat -> (length dts <= length ts)%nat -> length ncoeffs = length nopers ->
  a5get RO (second_order_ff RO d thr thr2 (map (sdiv lam) evs) Vs Qs (sdiv lam omega) basis nopers ncoeffs
                            (smul lam dts) (smul lam ts) (None, None)) a b k l o =
  cscal RO (lam * lam)
    (a5get RO (second_order_ff RO d thr thr2 evs Vs Qs omega basis nopers ncoeffs dts ts (None, None)) a b k l o).
Proof. exact time_scaling_F2. Qed.
Print Assumptions C10_time_scaling_F2.

(* ... with masks in absolute units (|x| > thr2: the seeded mutant, the shape of the first-order defect 0b2b5e4)
   the law fails: thr2 = 1e-8, a = 0, b = 4, T = 1, time unit x 1e9 *)
Theorem C10_time_scaling_soi_refuted_absolute_mask :
  exists thr2 a b T lam, 0 < lam /\ 0 < thr2 /\
    soi_core_absmask thr2 (a / lam) (b / lam) ((a + b) / lam) (lam * T)
    <> cscal RO (lam * lam) (soi_core_absmask thr2 a b (a + b) T).
Proof. exact time_scaling_soi_refuted_absolute_mask. Qed.
Print Assumptions C10_time_scaling_soi_refuted_absolute_mask.

(* The time-domain control matrix of the statements above in trace form:
   beta_ak(u) = s_a tr( U(u)^dagger N_a U(u) C_k ), U(u) = V e^{-iDu} V^dagger Q (no unitarity assumed). *)
Theorem C10_seg_beta_trace : forall d (ev : list R) (V Q : Mat (T:=R)) (dt : R) (nopers basis : list (Mat (T:=R)))
    (nc : list R) (step : Arr3 (T:=R)) a k u,
  length nc = length nopers -> (a < length nopers)%nat -> (k < length basis)%nat ->
  let s : SegData (T:=R) := (ev, dt, so_NT RO d V nopers nc, so_BT RO d V Q basis, step) in
  beta d (seg_ev s) (seg_X s a k) u =
  cscal RO (vg RO nc a)
        (mtrprod RO d (transform_by_unitary RO d (Useg d ev V Q u) (nth a nopers [])) (nth k basis [])).
Proof. exact seg_beta_trace. Qed.
Print Assumptions C10_seg_beta_trace.

(* The interval evaluation run by the correspondence check encloses the real-valued model (paramcoq). *)
Definition C10_enclosure := F2_enclosure_B.
(* Print Assumptions C10_enclosure lists, besides the Reals axioms, the primitive 63-bit integer axioms of Coq (BigZ). *)

(* ---------------------------------------------------------------- hypotheses are satisfiable *)
(* one qubit, one segment of duration 1 with eigenvalues (0,1), noise operator sigma_z, basis element
   sigma_x, frequency 1 = exact resonance with Omega_10 (x = 0 for (m,n) = (0,1)), thr = 1e-7 *)
Definition ex_Z : Mat (T:=R) := [[(1,0); (0,0)]; [(0,0); (-1,0)]].
Definition ex_X : Mat (T:=R) := [[(0,0); (1,0)]; [(1,0); (0,0)]].
Definition ex_I : Mat (T:=R) := [[(1,0); (0,0)]; [(0,0); (1,0)]].

Example C10_hypotheses_satisfiable :
  let d := 2%nat in let thr := / 10000000 in let thr2 := / 100000 in
  let omega := [1] in let basis := [ex_X] in let nopers := [ex_Z] in
  let evs := [[0; 1]] in let Vs := [ex_I] in let Qs := [ex_I; ex_I] in
  let ncoeffs := [[1]] in let dts := [1] in let ts := [0; 1] in
  0 <= thr /\ 0 <= thr2 /\
  (forall N, In N nopers -> fherm d (toF N)) /\ (forall Ck, In Ck basis -> fherm d (toF Ck)) /\
  length evs = length dts /\ length Vs = length dts /\
  (length dts <= length Qs)%nat /\ (length dts <= length ts)%nat /\ length ncoeffs = length nopers /\
  no_taylor d omega thr evs dts 0 /\ no_taylor d omega thr2 evs dts 0 /\ (forall dt, In dt dts -> 0 <= dt) /\
  valid_interm d thr omega basis nopers evs Vs Qs ncoeffs dts ts
    (cached_intermediates RO d thr evs Vs Qs omega basis nopers ncoeffs dts ts).
Proof.
  cbv zeta. repeat split; try (simpl; lia); try lra.
  - intros N [<-|[]]. intros i j Hi Hj. destruct i as [|[|]], j as [|[|]]; try lia; unfold fadj, toF, mget; simpl; apply c_eq; simpl; ring.
  - intros N [<-|[]]. intros i j Hi Hj. destruct i as [|[|]], j as [|[|]]; try lia; unfold fadj, toF, mget; simpl; apply c_eq; simpl; ring.
  - intros ev dt [E|[]] m n Hm Hn. inversion E; subst. unfold vg, vget. 
    destruct m as [|[|]], n as [|[|]]; try lia; simpl.
    + right. rewrite Rabs_right; lra.
    + left. ring.
    + right. rewrite Rabs_right; lra.
    + right. rewrite Rabs_right; lra.
  - intros ev dt [E|[]] m n Hm Hn. inversion E; subst. unfold vg, vget.
    destruct m as [|[|]], n as [|[|]]; try lia; simpl.
    + right. rewrite Rabs_right; lra.
    + left. ring.
    + right. rewrite Rabs_right; lra.
    + right. rewrite Rabs_right; lra.
  - intros dt [<-|[]]. lra.
  - right; reflexivity.
  - right; reflexivity.
Qed.

(* the extracted thresholds: 1e-7 (first-order integral) <= 1e-5 (case selection of the second-order integral), so
   "no denominator in (0, 1e-5/dt]" (no_taylor thr2) implies the first-order condition (no_taylor thr) *)
Example C10_thresholds_ordered :
  0 <= Rdya (fst foi_thr) (snd foi_thr) <= Rdya (fst soi_thr) (snd soi_thr).
Proof.
  unfold soi_thr, foi_thr; simpl. unfold Rdya. simpl powerRZ. split.
  - apply Rmult_le_pos. lra. left. apply Rinv_0_lt_compat. lra.
  - apply Rmult_le_reg_r with (2 ^ 73). apply pow_lt; lra.
    rewrite Rmult_assoc, Rinv_l by (apply pow_nonzero; lra).
    replace (2 ^ 73) with (2 ^ 69 * 2 ^ 4) by (rewrite <- pow_add; reflexivity).
    rewrite <- Rmult_assoc, (Rmult_assoc _ (/ 2 ^ 69)), Rinv_l by (apply pow_nonzero; lra). simpl. lra.
Qed.

(* ------------------------------------------------------------------------------------------------
   Semantic tie of numeric._second_order_integral (Proofs/KernelTieC10.v; docs/notes/kernel-tie.md): the term translated on
   every run from the CURRENT Python body by tools/kernel_extract.py (Extracted/Kernels.v: per-entry symbolic execution of
   the buffer code with out= / where= masks, logical_and, boolean-mask assignments, the three cases) IS soi_entry, for any
   previous contents of the work buffers (junk) and any threshold thr >= 0 used for both case tests.
   ------------------------------------------------------------------------------------------------ *)
From FF Require Import Extracted.Kernels Proofs.KernelTieC10.

Theorem C10_kernels_translated : kernel_untranslated_C10 = nil.
Proof. exact kernels_translated_C10. Qed.

Theorem C10_kernel_soi_is_source : forall thr w evi evj evm evn dt junk o i j m n, 0 <= thr ->
  soi_entry_src RO thr thr w evi evj evm evn dt junk o i j m n = soi_entry RO thr w evi evj evm evn dt.
Proof. exact soi_entry_is_source. Qed.
Print Assumptions C10_kernel_soi_is_source.

(* both literals of the source are the constant the model is evaluated with *)
Theorem C10_kernel_soi_literals : soi_entry_src_lit_thr_EdE = soi_entry_src_lit_thr_dEE.
Proof. reflexivity. Qed.
