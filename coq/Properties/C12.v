(* C12 -- physical results are independent of basis, reference frame and energy zero.
   Only statements closed by [exact <lemma>] and their assumptions.                    *)
From Coq Require Import ZArith Reals List.
From FF Require Import Base.Ops Inst.RInst Base.RAlg Base.FMat Model.Numeric Model.Decay Model.Cumulant
     Model.Tie.C12 Proofs.CMBase Proofs.BasisIndep Proofs.FrameInv Proofs.PauliOnb.
From FF Require Model.Consts Inst.Param Corr.Agree Corr.Obs Corr.ObsC08.
Import ListNotations.
Local Open Scope R_scope.

(* every control-matrix entry is tr(M C_k) with M independent of the basis *)
Theorem C12_cm_entry_trace_form : forall d thr evs Vs om bs ns nc dts j k o,
  (j < length ns)%nat -> (k < length bs)%nat -> (o < length om)%nat ->
  a3get RO (control_matrix_from_scratch RO d thr evs Vs (propagators RO d evs Vs dts) om bs ns nc dts (times RO dts)) j k o =
  ftr d (fmul d (Mop d thr evs Vs om ns nc dts j o) (toF (nthm bs k))).
Proof. exact cm_entry_trace_form. Qed.
Print Assumptions C12_cm_entry_trace_form.

(* parseval: sum_k conj(B_ak) B_bk = tr(M_b M_a^dagger) for every complete orthonormal Hermitian basis *)
Theorem C12_parseval : forall d thr evs Vs om bs ns nc dts a b o,
  let n := length bs in let Cb := fun k => toF (nthm bs k) in
  basis_herm d n Cb -> basis_complete d n Cb ->
  (a < length ns)%nat -> (b < length ns)%nat -> (o < length om)%nat ->
  a3get RO (filter_function RO (length ns) n (length om)
     (control_matrix_from_scratch RO d thr evs Vs (propagators RO d evs Vs dts) om bs ns nc dts (times RO dts))) a b o =
  ftr d (fmul d (Mop d thr evs Vs om ns nc dts b o) (fadj (Mop d thr evs Vs om ns nc dts a o))).
Proof. exact parseval_ff. Qed.
Print Assumptions C12_parseval.

(* ... hence the fidelity filter function of a pulse is the same in any two such bases *)
Theorem C12_ff_basis_independent : forall d thr evs Vs om bs1 bs2 ns nc dts a b o,
  basis_herm d (length bs1) (fun k => toF (nthm bs1 k)) -> basis_complete d (length bs1) (fun k => toF (nthm bs1 k)) ->
  basis_herm d (length bs2) (fun k => toF (nthm bs2 k)) -> basis_complete d (length bs2) (fun k => toF (nthm bs2 k)) ->
  (a < length ns)%nat -> (b < length ns)%nat -> (o < length om)%nat ->
  a3get RO (filter_function RO (length ns) (length bs1) (length om)
     (control_matrix_from_scratch RO d thr evs Vs (propagators RO d evs Vs dts) om bs1 ns nc dts (times RO dts))) a b o =
  a3get RO (filter_function RO (length ns) (length bs2) (length om)
     (control_matrix_from_scratch RO d thr evs Vs (propagators RO d evs Vs dts) om bs2 ns nc dts (times RO dts))) a b o.
Proof. exact ff_basis_independent. Qed.
Print Assumptions C12_ff_basis_independent.

(* energy_offset: D_g + c_g 1 with any constants c_g (per segment) leaves every entry unchanged *)
Theorem C12_energy_offset : forall d thr cs evs Vs om bs ns nc dts j k o,
  Forall (fun ev => length ev = d) evs ->
  (j < length ns)%nat -> (k < length bs)%nat -> (o < length om)%nat ->
  a3get RO (control_matrix_from_scratch RO d thr (shift_evs cs evs) Vs (propagators RO d (shift_evs cs evs) Vs dts)
              om bs ns nc dts (times RO dts)) j k o =
  a3get RO (control_matrix_from_scratch RO d thr evs Vs (propagators RO d evs Vs dts) om bs ns nc dts (times RO dts)) j k o.
Proof. exact energy_offset_cm. Qed.
Print Assumptions C12_energy_offset.

(* frame_covariance: V -> W V, N -> W N W^, C_k -> W C_k W^ for a unitary W *)
Theorem C12_frame_covariance : forall d (Wm : MatR), funitary d (toF Wm) ->
  forall thr evs Vs om bs ns nc dts j k o,
  (j < length ns)%nat -> (k < length bs)%nat -> (o < length om)%nat ->
  a3get RO (control_matrix_from_scratch RO d thr evs (map (mmul RO d Wm) Vs)
              (propagators RO d evs (map (mmul RO d Wm) Vs) dts) om (map (conjW d Wm) bs) (map (conjW d Wm) ns) nc dts (times RO dts)) j k o =
  a3get RO (control_matrix_from_scratch RO d thr evs Vs (propagators RO d evs Vs dts) om bs ns nc dts (times RO dts)) j k o.
Proof. exact frame_covariance_cm. Qed.
Print Assumptions C12_frame_covariance.

(* hypotheses satisfiable *)
Example C12_pauli_is_complete_onb :
  basis_herm 2 4 pauli_Cb /\ basis_orthonormal 2 4 pauli_Cb /\ basis_complete 2 4 pauli_Cb.
Proof. exact (conj pauli_herm (conj pauli_orthonormal pauli_complete)). Qed.
