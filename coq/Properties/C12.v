(* C12 -- physical results are independent of basis, reference frame and energy zero.
   Only statements closed by [exact <lemma>] and their assumptions.                    *)
From Coq Require Import ZArith Reals List.
From FF Require Import Base.Ops Inst.RInst Base.RAlg Base.FMat Model.Numeric Model.Decay Model.Cumulant
     Model.Tie.C12 Proofs.CMBase Proofs.BasisIndep Proofs.FrameInv Proofs.PauliOnb Proofs.Trapz Proofs.Decay Proofs.TraceId Proofs.BasisChange Proofs.BasisChange2 Proofs.InfidBasis Proofs.EtmCovariance.
From FF Require Import Model.Atomic Proofs.EigIndep Proofs.InfidPos Proofs.EigChoice.
From FF Require Model.Consts Inst.Param Corr.Agree Corr.Obs Corr.ObsC08.
Import ListNotations.
Local Open Scope R_scope.

(* every control-matrix entry is tr(M C_k) with M independent of the basis *)
Theorem C12_cm_entry_trace_form : forall d thr evs Vs om bs ns nc dts j k o,
  (j < length ns)%nat -> (k < length bs)%nat -> (o < length om)%nat ->
  a3get RO (control_matrix_from_scratch RO d thr evs Vs (propagators RO d evs Vs dts) om bs ns nc dts (times RO dts)) j k o =
  ftr d (fmul d (Mop d thr evs Vs om ns nc dts j o) (toF (nthm bs k))).
Proof. exact cm_entry_trace_form. Qed.
Print Assumptions C12_cm_entry_trace_form.

(* parseval: sum_k conj(B_ak) B_bk = tr(M_b M_a^dagger) for every complete orthonormal Hermitian basis *)
Theorem C12_parseval : forall d thr evs Vs om bs ns nc dts a b o,
  let n := length bs in let Cb := fun k => toF (nthm bs k) in
  basis_herm d n Cb -> basis_complete d n Cb ->
  (a < length ns)%nat -> (b < length ns)%nat -> (o < length om)%nat ->
  a3get RO (filter_function RO (length ns) n (length om)
     (control_matrix_from_scratch RO d thr evs Vs (propagators RO d evs Vs dts) om bs ns nc dts (times RO dts))) a b o =
  ftr d (fmul d (Mop d thr evs Vs om ns nc dts b o) (fadj (Mop d thr evs Vs om ns nc dts a o))).
Proof. exact parseval_ff. Qed.
Print Assumptions C12_parseval.

(* ... hence the fidelity filter function of a pulse is the same in any two such bases *)
Theorem C12_ff_basis_independent : forall d thr evs Vs om bs1 bs2 ns nc dts a b o,
  basis_herm d (length bs1) (fun k => toF (nthm bs1 k)) -> basis_complete d (length bs1) (fun k => toF (nthm bs1 k)) ->
  basis_herm d (length bs2) (fun k => toF (nthm bs2 k)) -> basis_complete d (length bs2) (fun k => toF (nthm bs2 k)) ->
  (a < length ns)%nat -> (b < length ns)%nat -> (o < length om)%nat ->
  a3get RO (filter_function RO (length ns) (length bs1) (length om)
     (control_matrix_from_scratch RO d thr evs Vs (propagators RO d evs Vs dts) om bs1 ns nc dts (times RO dts))) a b o =
  a3get RO (filter_function RO (length ns) (length bs2) (length om)
     (control_matrix_from_scratch RO d thr evs Vs (propagators RO d evs Vs dts) om bs2 ns nc dts (times RO dts))) a b o.
Proof. exact ff_basis_independent. Qed.
Print Assumptions C12_ff_basis_independent.

(* energy_offset: D_g + c_g 1 with any constants c_g (per segment) leaves every entry unchanged *)
Theorem C12_energy_offset : forall d thr cs evs Vs om bs ns nc dts j k o,
  Forall (fun ev => length ev = d) evs ->
  (j < length ns)%nat -> (k < length bs)%nat -> (o < length om)%nat ->
  a3get RO (control_matrix_from_scratch RO d thr (shift_evs cs evs) Vs (propagators RO d (shift_evs cs evs) Vs dts)
              om bs ns nc dts (times RO dts)) j k o =
  a3get RO (control_matrix_from_scratch RO d thr evs Vs (propagators RO d evs Vs dts) om bs ns nc dts (times RO dts)) j k o.
Proof. exact energy_offset_cm. Qed.
Print Assumptions C12_energy_offset.

(* frame_covariance: V -> W V, N -> W N W^, C_k -> W C_k W^ for a unitary W *)
Theorem C12_frame_covariance : forall d (Wm : MatR), funitary d (toF Wm) ->
  forall thr evs Vs om bs ns nc dts j k o,
  (j < length ns)%nat -> (k < length bs)%nat -> (o < length om)%nat ->
  a3get RO (control_matrix_from_scratch RO d thr evs (map (mmul RO d Wm) Vs)
              (propagators RO d evs (map (mmul RO d Wm) Vs) dts) om (map (conjW d Wm) bs) (map (conjW d Wm) ns) nc dts (times RO dts)) j k o =
  a3get RO (control_matrix_from_scratch RO d thr evs Vs (propagators RO d evs Vs dts) om bs ns nc dts (times RO dts)) j k o.
Proof. exact frame_covariance_cm. Qed.
Print Assumptions C12_frame_covariance.

(* ---------- change of basis: O_km = tr(C'_k C_m) ---------- *)
(* O is real orthogonal (columns) and expands the new basis in the old one *)
Theorem C12_O_orthogonal : forall d n (Cb Cb' : nat -> fmat),
  basis_herm d n Cb -> basis_orthonormal d n Cb -> basis_herm d n Cb' -> basis_complete d n Cb' ->
  forall m p, (m < n)%nat -> (p < n)%nat ->
  sumn' n (fun k => Omat d Cb Cb' k m * Omat d Cb Cb' k p) = if Nat.eqb m p then 1 else 0.
Proof. exact O_columns_orthonormal. Qed.
(* the control matrix transforms as B' = O B *)
Theorem C12_cm_change_of_basis : forall d n (Cb Cb' : nat -> fmat),
  basis_herm d n Cb -> basis_complete d n Cb -> basis_herm d n Cb' ->
  forall thr evs Vs om (bs bs' : list MatR) ns nc dts j k o,
  length bs = n -> length bs' = n ->
  (forall m, (m < n)%nat -> feq d (toF (nthm bs m)) (Cb m)) -> (forall m, (m < n)%nat -> feq d (toF (nthm bs' m)) (Cb' m)) ->
  (j < length ns)%nat -> (k < n)%nat -> (o < length om)%nat ->
  a3get RO (control_matrix_from_scratch RO d thr evs Vs (propagators RO d evs Vs dts) om bs' ns nc dts (times RO dts)) j k o =
  csumn' n (fun m => cmul' (CumulantCCP.rcx (Omat d Cb Cb' k m))
    (a3get RO (control_matrix_from_scratch RO d thr evs Vs (propagators RO d evs Vs dts) om bs ns nc dts (times RO dts)) j m o)).
Proof. exact cm_change_of_basis. Qed.
Print Assumptions C12_cm_change_of_basis.
(* ... the decay amplitudes as Gamma' = O Gamma O^T ... *)
Theorem C12_Gamma_change_of_basis : forall d n (Cb Cb' : nat -> fmat) na no (Bm Bm' : A3r) idx (sp : spectrumR) omega i j k l,
  (forall a k o, (a < na)%nat -> (k < n)%nat -> (o < no)%nat ->
     a3get RO Bm' a k o = csumn' n (fun m => cmul' (CumulantCCP.rcx (Omat d Cb Cb' k m)) (a3get RO Bm a m o))) ->
  (sel idx i < na)%nat -> (sel idx j < na)%nat -> (k < n)%nat -> (l < n)%nat ->
  Gamma Bm' Bm' idx sp no omega i j k l =
  sumn' n (fun m => sumn' n (fun p => Omat d Cb Cb' k m * Omat d Cb Cb' l p * Gamma Bm Bm idx sp no omega i j m p)).
Proof. exact Gamma_change_of_basis. Qed.
(* ... and the first-order cumulant function as K' = O K O^T (K_change_of_basis), so its trace is invariant *)
Theorem C12_K_change_of_basis : forall d n (Cb Cb' : nat -> fmat),
  basis_herm d n Cb -> basis_orthonormal d n Cb -> basis_complete d n Cb -> basis_herm d n Cb' -> basis_complete d n Cb' ->
  forall G G' : RMr,
  (forall k l, (k < n)%nat -> (l < n)%nat ->
     rmget RO G' k l = sumn' n (fun m => sumn' n (fun p => Omat d Cb Cb' k m * Omat d Cb Cb' l p * rmget RO G m p))) ->
  forall i j, (i < n)%nat -> (j < n)%nat ->
  K1_entry RO n (T4 d Cb') G' i j =
  csumn' n (fun a => csumn' n (fun b => cmul' (cmul' (CumulantCCP.rcx (Omat d Cb Cb' i a)) (CumulantCCP.rcx (Omat d Cb Cb' j b)))
                                          (K1_entry RO n (T4 d Cb) G a b))).
Proof. exact K1_change_of_basis. Qed.
Print Assumptions C12_K_change_of_basis.
(* ... and the SECOND-order part: Delta' = O Delta O^T  =>  K2' = O K2 O^T *)
Theorem C12_K2_change_of_basis : forall d n (Cb Cb' : nat -> fmat),
  basis_herm d n Cb -> basis_orthonormal d n Cb -> basis_complete d n Cb -> basis_herm d n Cb' -> basis_complete d n Cb' ->
  forall D D' : RMr,
  (forall k l, (k < n)%nat -> (l < n)%nat ->
     rmget RO D' k l = sumn' n (fun m => sumn' n (fun p => Omat d Cb Cb' k m * Omat d Cb Cb' l p * rmget RO D m p))) ->
  forall i j, (i < n)%nat -> (j < n)%nat ->
  K2_entry RO n (T4 d Cb') D' i j =
  csumn' n (fun a => csumn' n (fun b => cmul' (cmul' (CumulantCCP.rcx (Omat d Cb Cb' i a)) (CumulantCCP.rcx (Omat d Cb Cb' j b)))
                                          (K2_entry RO n (T4 d Cb) D a b))).
Proof. exact K2_change_of_basis. Qed.
Print Assumptions C12_K2_change_of_basis.
Theorem C12_K_trace_invariant : forall d n (Cb Cb' : nat -> fmat),
  basis_herm d n Cb -> basis_orthonormal d n Cb -> basis_complete d n Cb -> basis_herm d n Cb' -> basis_complete d n Cb' ->
  forall G G' : RMr,
  (forall k l, (k < n)%nat -> (l < n)%nat ->
     rmget RO G' k l = sumn' n (fun m => sumn' n (fun p => Omat d Cb Cb' k m * Omat d Cb Cb' l p * rmget RO G m p))) ->
  csumn' n (fun i => K1_entry RO n (T4 d Cb') G' i i) = csumn' n (fun a => K1_entry RO n (T4 d Cb) G a a).
Proof. exact K1_trace_invariant. Qed.
Print Assumptions C12_K_trace_invariant.

(* ... hence the infidelity (C08: = - tr K / d^2) of every noise pair is the same in any two complete orthonormal
   Hermitian bases, traceless or not; [HB] is the relation B' = O B of C12_cm_change_of_basis *)
Theorem C12_infidelity_basis_independent : forall d (bs bs' : list MatR), (0 < d)%nat ->
  let n := length bs in let Cb := fun k => toF (nthm bs k) in let Cb' := fun k => toF (nthm bs' k) in
  length bs' = n ->
  basis_herm d n Cb -> basis_orthonormal d n Cb -> basis_complete d n Cb ->
  basis_herm d n Cb' -> basis_orthonormal d n Cb' -> basis_complete d n Cb' ->
  forall na no (Bm Bm' : A3r) idx (sp : spectrumR) omega, idx_ok na idx -> length omega = no ->
  (forall a k o, (a < na)%nat -> (k < n)%nat -> (o < no)%nat ->
     a3get RO Bm' a k o = csumn' n (fun m => cmul' (CumulantCCP.rcx (Omat d Cb Cb' k m)) (a3get RO Bm a m o))) ->
  forall i j, (i < length idx)%nat -> (j < length idx)%nat -> (is_cross sp = false -> i = j) ->
  nth (lead_pos sp (length idx) i j) (infidelity_total RO d na n no Bm' bs' idx sp omega) 0 =
  nth (lead_pos sp (length idx) i j) (infidelity_total RO d na n no Bm bs idx sp omega) 0.
Proof. exact infidelity_basis_independent. Qed.
Print Assumptions C12_infidelity_basis_independent.

(* error transfer matrix: for an orthogonal O every Taylor polynomial of exp is covariant, K' = O K O^T =>
   sum_{m<=M} K'^m/m! = O (sum_{m<=M} K^m/m!) O^T, and its trace (d^2 x process fidelity) is invariant; the package's
   ETM is scipy's expm (oracle, validated against exp_taylor .. 40 on intervals in C09) *)
Theorem C12_O_rows_orthonormal : forall d n (Cb Cb' : nat -> fmat),
  basis_herm d n Cb -> basis_complete d n Cb -> basis_herm d n Cb' -> basis_orthonormal d n Cb' ->
  forall i j, (i < n)%nat -> (j < n)%nat ->
  sumn' n (fun m => Omat d Cb Cb' i m * Omat d Cb Cb' j m) = if Nat.eqb i j then 1 else 0.
Proof. exact O_rows_orthonormal. Qed.
Theorem C12_exp_taylor_covariant : forall n (O : nat -> nat -> R),
  (forall a b, (a < n)%nat -> (b < n)%nat -> sumn' n (fun k => O k a * O k b) = if Nat.eqb a b then 1 else 0) ->
  (forall i j, (i < n)%nat -> (j < n)%nat -> sumn' n (fun a => O i a * O j a) = if Nat.eqb i j then 1 else 0) ->
  forall (K' K : RMr) M, conj_rel n O K' K -> conj_rel n O (exp_taylor RO n K' M) (exp_taylor RO n K M).
Proof. exact exp_taylor_covariant. Qed.
Print Assumptions C12_exp_taylor_covariant.
Theorem C12_process_fidelity_taylor_invariant : forall n (O : nat -> nat -> R),
  (forall a b, (a < n)%nat -> (b < n)%nat -> sumn' n (fun k => O k a * O k b) = if Nat.eqb a b then 1 else 0) ->
  (forall i j, (i < n)%nat -> (j < n)%nat -> sumn' n (fun a => O i a * O j a) = if Nat.eqb i j then 1 else 0) ->
  forall (K' K : RMr) M, conj_rel n O K' K ->
  sumn' n (fun i => rmget RO (exp_taylor RO n K' M) i i) = sumn' n (fun a => rmget RO (exp_taylor RO n K M) a a).
Proof. exact process_fidelity_taylor_invariant. Qed.

(* ---------- independence of the choice of eigenvectors (degenerate spectra included) ---------- *)
(* [same_segs d evs Vs evs' Vs'] (agent-c03, Proofs/EigIndep.v): segment by segment, (ev, V) and (ev', V') are unitary
   decompositions of the same Hermitian matrix.  The control matrix is then the same (C03_cm_eig_independent); corollaries: *)
Theorem C12_ff_eig_independent : forall d thr om (bs ns : list MatR) evs evs' Vs Vs' nc dts,
  same_segs d evs Vs evs' Vs' -> forall a b o, (a < length ns)%nat -> (b < length ns)%nat -> (o < length om)%nat ->
  a3get RO (filter_function RO (length ns) (length bs) (length om) (cm_of d thr om bs ns nc dts evs Vs)) a b o =
  a3get RO (filter_function RO (length ns) (length bs) (length om) (cm_of d thr om bs ns nc dts evs' Vs')) a b o.
Proof. exact ff_eig_independent. Qed.
Print Assumptions C12_ff_eig_independent.
Theorem C12_decay_eig_independent : forall d thr om (bs ns : list MatR) evs evs' Vs Vs' nc dts,
  same_segs d evs Vs evs' Vs' -> forall idx (sp : spectrumR), idx_ok (length ns) idx ->
  forall pars use_ff pars' use_ff' i j k l,
  (i < length idx)%nat -> (j < length idx)%nat -> (is_cross sp = false -> i = j) -> (k < length bs)%nat -> (l < length bs)%nat ->
  dget RO (decay_amplitudes RO pars use_ff (length ns) (length bs) (length om) (cm_of d thr om bs ns nc dts evs Vs)
             (cm_of d thr om bs ns nc dts evs Vs) idx sp om) (lead_pos sp (length idx) i j) k l =
  dget RO (decay_amplitudes RO pars' use_ff' (length ns) (length bs) (length om) (cm_of d thr om bs ns nc dts evs' Vs')
             (cm_of d thr om bs ns nc dts evs' Vs') idx sp om) (lead_pos sp (length idx) i j) k l.
Proof. exact decay_eig_independent. Qed.
Theorem C12_infidelity_eig_independent : forall d thr om (bs ns : list MatR) evs evs' Vs Vs' nc dts,
  same_segs d evs Vs evs' Vs' -> forall idx (sp : spectrumR), idx_ok (length ns) idx -> forall basis : list MatR,
  infidelity_total RO d (length ns) (length bs) (length om) (cm_of d thr om bs ns nc dts evs Vs) basis idx sp om =
  infidelity_total RO d (length ns) (length bs) (length om) (cm_of d thr om bs ns nc dts evs' Vs') basis idx sp om.
Proof. exact infidelity_eig_independent. Qed.
Print Assumptions C12_infidelity_eig_independent.
(* cumulant function (either branch) of the decay amplitudes of pair (i,j); the frequency shifts Dl are an input here (C10) *)
Theorem C12_cumulant_eig_independent : forall d thr om (bs ns : list MatR) evs evs' Vs Vs' nc dts,
  same_segs d evs Vs evs' Vs' -> forall idx (sp : spectrumR), idx_ok (length ns) idx ->
  forall shortcut (basis : list MatR) second (Dl : RMr) i j, (i < length idx)%nat -> (j < length idx)%nat ->
  cumulant_function RO d shortcut (length bs) basis second
    [rmbuild (length bs) (length bs) (fun k l => Gamma (cm_of d thr om bs ns nc dts evs Vs) (cm_of d thr om bs ns nc dts evs Vs) idx sp (length om) om i j k l)] [Dl] =
  cumulant_function RO d shortcut (length bs) basis second
    [rmbuild (length bs) (length bs) (fun k l => Gamma (cm_of d thr om bs ns nc dts evs' Vs') (cm_of d thr om bs ns nc dts evs' Vs') idx sp (length om) om i j k l)] [Dl].
Proof. exact cumulant_eig_independent. Qed.
Example C12_same_segs_degenerate : same_segs 2 [[1; 1]] [exI] [[1; 1]] [exRot].
Proof. exact same_segs_degenerate. Qed.

(* hypotheses satisfiable *)
Example C12_unitary_example : funitary 2 (toF Wx).
Proof. exact Wx_unitary. Qed.
Example C12_pauli_is_complete_onb :
  basis_herm 2 4 pauli_Cb /\ basis_orthonormal 2 4 pauli_Cb /\ basis_complete 2 4 pauli_Cb.
Proof. exact (conj pauli_herm (conj pauli_orthonormal pauli_complete)). Qed.
