(* Mixed-radix (here: uniform radix d) digits of a flat index, permutations of the digit
   positions ("qubit permutations" of a d^N-dimensional index), their group structure, and the
   action on Kronecker chains:  transposing tensor factors of A_0 (x) ... (x) A_{N-1} yields the
   chain of the permuted factor list.                                                      *)
From Coq Require Import ZArith Reals List Lra Lia Arith Permutation.
From FF Require Import Base.Ops Inst.RInst Base.RAlg Spec.Kron2.
Import ListNotations.
Local Open Scope nat_scope.

(* ---------- selections and permutations of positions ---------- *)
Definition sel {A} (dflt : A) (l : list A) (order : list nat) : list A := map (fun k => nth k l dflt) order.
Definition is_perm (N : nat) (order : list nat) : Prop := Permutation order (seq 0 N).
Fixpoint index_of (m : nat) (l : list nat) : nat :=
  match l with [] => 0 | x :: r => if Nat.eqb x m then 0 else S (index_of m r) end.
(* argsort of a permutation = its inverse *)
Definition inv_order (order : list nat) : list nat := map (fun m => index_of m order) (seq 0 (length order)).

Lemma sel_length {A} (d : A) l o : length (sel d l o) = length o.
Proof. apply map_length. Qed.
Lemma nth_sel {A} (d : A) l o n : n < length o -> nth n (sel d l o) d = nth (nth n o 0) l d.
Proof.
  intros H. unfold sel.
  rewrite (nth_indep _ d (nth 0 l d)) by (rewrite map_length; auto).
  apply (map_nth (fun k => nth k l d) o 0 n).
Qed.
Lemma is_perm_length N o : is_perm N o -> length o = N.
Proof. intros H. apply Permutation_length in H. rewrite seq_length in H. auto. Qed.
Lemma is_perm_lt N o k : is_perm N o -> In k o -> k < N.
Proof. intros H Hk. eapply Permutation_in in Hk; eauto. apply in_seq in Hk. lia. Qed.
Lemma is_perm_in N o k : is_perm N o -> k < N -> In k o.
Proof. intros H Hk. eapply Permutation_in. apply Permutation_sym; eauto. apply in_seq; lia. Qed.
Lemma is_perm_NoDup N o : is_perm N o -> NoDup o.
Proof. intros H. eapply Permutation_NoDup. apply Permutation_sym; eauto. apply seq_NoDup. Qed.
Lemma is_perm_nth_lt N o n : is_perm N o -> n < N -> nth n o 0 < N.
Proof. intros H Hn. eapply is_perm_lt; eauto. apply nth_In. rewrite (is_perm_length N o H). auto. Qed.
Lemma is_perm_id N : is_perm N (seq 0 N).
Proof. apply Permutation_refl. Qed.

Lemma index_of_spec m l : In m l -> index_of m l < length l /\ nth (index_of m l) l 0 = m.
Proof.
  induction l; simpl; intros H. contradiction.
  destruct (Nat.eqb_spec a m). split; [lia|auto].
  destruct H as [H|H]; [contradiction|]. destruct (IHl H). split; [lia|auto].
Qed.
Lemma index_of_nth l n : NoDup l -> n < length l -> index_of (nth n l 0) l = n.
Proof.
  revert n. induction l; simpl; intros n Hnd Hn. lia.
  inversion Hnd; subst. destruct n.
  - rewrite Nat.eqb_refl. reflexivity.
  - destruct (Nat.eqb_spec a (nth n l 0)) as [E|].
    + exfalso. apply H1. rewrite E. apply nth_In. lia.
    + rewrite IHl; auto. lia.
Qed.

Lemma sel_seq {A} (d : A) l N : length l = N -> sel d l (seq 0 N) = l.
Proof.
  intros H. apply (nth_ext _ _ d d). rewrite sel_length, seq_length; auto.
  intros n Hn. rewrite sel_length, seq_length in Hn. rewrite nth_sel by (rewrite seq_length; auto).
  rewrite seq_nth by auto. reflexivity.
Qed.
Lemma sel_sel {A} (d : A) l o1 o2 : (forall k, In k o2 -> k < length o1) ->
  sel d (sel d l o1) o2 = sel d l (sel 0 o1 o2).
Proof.
  intros H. unfold sel. rewrite map_map. apply map_ext_in. intros k Hk.
  apply (nth_sel d l o1 k). auto.
Qed.
Lemma sel_map {A B} (f : A -> B) (da : A) (db : B) l o : (forall k, In k o -> k < length l) ->
  sel db (map f l) o = map f (sel da l o).
Proof.
  intros H. unfold sel. rewrite map_map. apply map_ext_in. intros k Hk.
  rewrite (nth_indep _ db (f da)) by (rewrite map_length; auto). apply map_nth.
Qed.
Lemma sel_perm_comp N o1 o2 : is_perm N o1 -> is_perm N o2 -> is_perm N (sel 0 o1 o2).
Proof.
  intros H1 H2. unfold is_perm. eapply Permutation_trans.
  - unfold sel. apply Permutation_map. exact H2.
  - fold (sel 0 o1 (seq 0 N)). rewrite sel_seq by (eapply is_perm_length; eauto). exact H1.
Qed.

Lemma inv_order_length o : length (inv_order o) = length o.
Proof. unfold inv_order. rewrite map_length, seq_length. reflexivity. Qed.
Lemma nth_inv_order o m : m < length o -> nth m (inv_order o) 0 = index_of m o.
Proof.
  intros H. unfold inv_order.
  rewrite (nth_indep _ 0 (index_of 0 o)) by (rewrite map_length, seq_length; auto).
  rewrite (map_nth (fun m => index_of m o)). rewrite seq_nth by auto. reflexivity.
Qed.
Lemma sel_order_inv N o : is_perm N o -> sel 0 o (inv_order o) = seq 0 N.
Proof.
  intros H. pose proof (is_perm_length N o H) as HL.
  unfold inv_order, sel. rewrite map_map, HL. rewrite <- (map_id (seq 0 N)) at 2.
  apply map_ext_in. intros m Hm. apply in_seq in Hm.
  apply index_of_spec. eapply is_perm_in; eauto. lia.
Qed.
Lemma sel_inv_order N o : is_perm N o -> sel 0 (inv_order o) o = seq 0 N.
Proof.
  intros H. pose proof (is_perm_length N o H) as HL.
  apply (nth_ext _ _ 0 0). rewrite sel_length, seq_length; auto.
  intros n Hn. rewrite sel_length in Hn. rewrite nth_sel by auto.
  rewrite nth_inv_order. 2:{ rewrite HL. eapply is_perm_nth_lt; eauto. lia. }
  rewrite index_of_nth; auto. rewrite seq_nth by lia. reflexivity. eapply is_perm_NoDup; eauto.
Qed.
Lemma inv_order_perm N o : is_perm N o -> is_perm N (inv_order o).
Proof.
  intros H. pose proof (is_perm_length N o H) as HL. unfold is_perm, inv_order. rewrite HL.
  apply bij_on_perm. split.
  - intros m Hm. rewrite <- HL. apply index_of_spec. eapply is_perm_in; eauto.
  - intros i j Hi Hj E.
    destruct (index_of_spec i o) as [_ E1]. eapply is_perm_in; eauto.
    destruct (index_of_spec j o) as [_ E2]. eapply is_perm_in; eauto.
    rewrite <- E1, <- E2, E. reflexivity.
Qed.
Lemma inv_order_invol N o : is_perm N o -> inv_order (inv_order o) = o.
Proof.
  intros H. pose proof (is_perm_length N o H) as HL. pose proof (inv_order_perm N o H) as HI.
  apply (nth_ext _ _ 0 0). rewrite !inv_order_length; auto.
  intros n Hn. rewrite !inv_order_length in Hn.
  rewrite nth_inv_order by (rewrite inv_order_length; auto).
  (* index_of n (inv o) = o[n] because inv[o[n]] = n *)
  pose proof (sel_inv_order N o H) as E.
  assert (E' : nth n (sel 0 (inv_order o) o) 0 = n) by (rewrite E, seq_nth; lia).
  rewrite nth_sel in E' by auto.
  rewrite <- E' at 1. apply index_of_nth. eapply is_perm_NoDup; eauto.
  rewrite inv_order_length, HL. eapply is_perm_nth_lt; eauto. lia.
Qed.

(* ---------- digits ---------- *)
(* most significant digit first (C order), exactly N digits *)
Fixpoint digits (d N i : nat) : list nat :=
  match N with 0 => [] | S n => (i / d ^ n) :: digits d n (i mod d ^ n) end.
(* np.ravel_multi_index *)
Fixpoint undigits (d : nat) (l : list nat) : nat :=
  match l with [] => 0 | x :: r => x * d ^ (length r) + undigits d r end.

Lemma digits_length d N i : length (digits d N i) = N.
Proof. revert i. induction N; simpl; intros; auto. Qed.
Lemma pow_pos d n : 0 < d -> 0 < d ^ n.
Proof. intros. induction n; simpl; nia. Qed.
Lemma digits_lt d N i : 0 < d -> i < d ^ N -> Forall (fun x => x < d) (digits d N i).
Proof.
  intros Hd. revert i. induction N; simpl; intros i Hi. constructor.
  pose proof (pow_pos d N Hd). constructor.
  - apply Nat.div_lt_upper_bound; lia.
  - apply IHN. apply Nat.mod_upper_bound. lia.
Qed.
Lemma undigits_lt d l : 0 < d -> Forall (fun x => x < d) l -> undigits d l < d ^ (length l).
Proof.
  intros Hd. induction 1; simpl. lia. pose proof (pow_pos d (length l) Hd). nia.
Qed.
Lemma undigits_digits d N i : 0 < d -> i < d ^ N -> undigits d (digits d N i) = i.
Proof.
  intros Hd. revert i. induction N; simpl; intros i Hi. lia.
  pose proof (pow_pos d N Hd). rewrite digits_length. rewrite IHN by (apply Nat.mod_upper_bound; lia).
  rewrite (Nat.div_mod_eq i (d ^ N)) at 3. lia.
Qed.
Lemma digits_undigits d l : 0 < d -> Forall (fun x => x < d) l -> digits d (length l) (undigits d l) = l.
Proof.
  intros Hd. induction 1; simpl. reflexivity.
  pose proof (undigits_lt d l Hd H0). destruct (divmod_pair x (undigits d l) (d ^ length l) H1) as [E1 E2].
  rewrite E1, E2, IHForall. reflexivity.
Qed.

Lemma Forall_sel (P : nat -> Prop) l o : Forall P l -> (forall k, In k o -> k < length l) -> Forall P (sel 0 l o).
Proof.
  intros Hl Ho. unfold sel. apply Forall_forall. intros x Hx. apply in_map_iff in Hx.
  destruct Hx as [k [<- Hk]]. rewrite Forall_forall in Hl. apply Hl, nth_In, Ho, Hk.
Qed.

(* ---------- digit permutations ---------- *)
(* new digit n = old digit order[n]   (np.ravel_multi_index([idx[i] for i in order], dims)) *)
Definition dperm (d N : nat) (order : list nat) (i : nat) : nat := undigits d (sel 0 (digits d N i) order).

Lemma dperm_lt d N o i : 0 < d -> is_perm N o -> i < d ^ N -> dperm d N o i < d ^ N.
Proof.
  intros Hd Ho Hi. unfold dperm. rewrite <- (is_perm_length N o Ho) at 2. rewrite <- (sel_length 0 (digits d N i) o).
  apply undigits_lt; auto. apply Forall_sel. apply digits_lt; auto.
  intros k Hk. rewrite digits_length. eapply is_perm_lt; eauto.
Qed.
Lemma digits_dperm d N o i : 0 < d -> is_perm N o -> i < d ^ N ->
  digits d N (dperm d N o i) = sel 0 (digits d N i) o.
Proof.
  intros Hd Ho Hi. unfold dperm.
  rewrite <- (is_perm_length N o Ho) at 1. rewrite <- (sel_length 0 (digits d N i) o).
  apply digits_undigits; auto. apply Forall_sel. apply digits_lt; auto.
  intros k Hk. rewrite digits_length. eapply is_perm_lt; eauto.
Qed.
Theorem dperm_id d N i : 0 < d -> i < d ^ N -> dperm d N (seq 0 N) i = i.
Proof. intros Hd Hi. unfold dperm. rewrite sel_seq by apply digits_length. apply undigits_digits; auto. Qed.
(* permuting by o1 and then by o2 = permuting by  k |-> o1[o2[k]] *)
Theorem dperm_compose d N o1 o2 i : 0 < d -> is_perm N o1 -> is_perm N o2 -> i < d ^ N ->
  dperm d N o2 (dperm d N o1 i) = dperm d N (sel 0 o1 o2) i.
Proof.
  intros Hd H1 H2 Hi. unfold dperm at 1. rewrite digits_dperm by auto.
  rewrite sel_sel. reflexivity.
  intros k Hk. rewrite (is_perm_length N o1 H1). eapply is_perm_lt; eauto.
Qed.
Lemma dperm_inv_l d N o i : 0 < d -> is_perm N o -> i < d ^ N -> dperm d N (inv_order o) (dperm d N o i) = i.
Proof.
  intros Hd Ho Hi. rewrite dperm_compose; auto using inv_order_perm.
  rewrite (sel_order_inv N o Ho). apply dperm_id; auto.
Qed.
Lemma dperm_inv_r d N o i : 0 < d -> is_perm N o -> i < d ^ N -> dperm d N o (dperm d N (inv_order o) i) = i.
Proof.
  intros Hd Ho Hi. rewrite dperm_compose; auto using inv_order_perm.
  rewrite (sel_inv_order N o Ho). apply dperm_id; auto.
Qed.
Theorem dperm_bij d N o : 0 < d -> is_perm N o -> bij_on (d ^ N) (dperm d N o).
Proof.
  intros Hd Ho. apply (bij_on_of_inverse _ _ (dperm d N (inv_order o))).
  - intros; apply dperm_lt; auto.
  - intros; apply dperm_lt; auto using inv_order_perm.
  - intros; apply dperm_inv_l; auto.
Qed.

(* ---------- Kronecker chains ---------- *)
(* A_0 (x) A_1 (x) ... with all factors d x d; the empty chain is the 1 x 1 identity *)
Fixpoint kronl (d : nat) (l : list fmat) : fmat :=
  match l with [] => (fun _ _ => 1c) | A :: r => fkron (d ^ length r) A (kronl d r) end.
Fixpoint kron_entry (l : list fmat) (di dj : list nat) : Cx :=
  match l, di, dj with
  | A :: r, x :: di', y :: dj' => cmul' (A x y) (kron_entry r di' dj')
  | _, _, _ => 1c end.
(* entries of a chain are products over the digit positions *)
Lemma kronl_entry d l i j : kronl d l i j = kron_entry l (digits d (length l) i) (digits d (length l) j).
Proof.
  revert i j. induction l; intros i j; simpl. reflexivity.
  unfold fkron. rewrite IHl. reflexivity.
Qed.

Fixpoint cprodl (l : list Cx) : Cx := match l with [] => 1c | x :: r => cmul' x (cprodl r) end.
Lemma cprodl_perm l1 l2 : Permutation l1 l2 -> cprodl l1 = cprodl l2.
Proof. induction 1; simpl; try congruence. ring. Qed.
Definition fdummy : fmat := fun _ _ => 1c.
Lemma kron_entry_prod l di dj : length di = length l -> length dj = length l ->
  kron_entry l di dj = cprodl (map (fun m => (nth m l fdummy) (nth m di 0) (nth m dj 0)) (seq 0 (length l))).
Proof.
  revert di dj. induction l; intros di dj H1 H2; simpl. reflexivity.
  destruct di as [|x di]; [discriminate|]. destruct dj as [|y dj]; [discriminate|].
  simpl in *. rewrite IHl by lia. rewrite <- seq_shift, map_map. reflexivity.
Qed.

(* transposing the tensor factors of a chain: the entry at the permuted digit strings *)
Lemma kron_entry_sel N l o di dj : is_perm N o -> length l = N -> length di = N -> length dj = N ->
  kron_entry (sel fdummy l o) di dj = kron_entry l (sel 0 di (inv_order o)) (sel 0 dj (inv_order o)).
Proof.
  intros Ho Hl Hi Hj. pose proof (is_perm_length N o Ho) as HL.
  pose proof (inv_order_perm N o Ho) as HI. pose proof (is_perm_length _ _ HI) as HIL.
  rewrite !kron_entry_prod; rewrite ?sel_length; try congruence.
  rewrite HL, Hl.
  (* right-hand side, re-indexed along o *)
  set (f := fun m => nth m l fdummy (nth m (sel 0 di (inv_order o)) 0) (nth m (sel 0 dj (inv_order o)) 0)).
  rewrite <- (cprodl_perm (map f o) (map f (seq 0 N))) by (apply Permutation_map; exact Ho).
  f_equal. apply (nth_ext _ _ 1c 1c). rewrite !map_length, seq_length; auto.
  intros n Hn. rewrite map_length, seq_length in Hn.
  rewrite (nth_indep _ 1c ((fun m => nth m (sel fdummy l o) fdummy (nth m di 0) (nth m dj 0)) 0)) by (rewrite map_length, seq_length; auto).
  rewrite (map_nth (fun m => nth m (sel fdummy l o) fdummy (nth m di 0) (nth m dj 0))), seq_nth by auto.
  rewrite (nth_indep _ 1c (f 0)) by (rewrite map_length; lia).
  rewrite (map_nth f). unfold f. simpl.
  rewrite nth_sel by lia.
  assert (Hon : nth n o 0 < N) by (eapply is_perm_nth_lt; eauto).
  rewrite !nth_sel by lia.
  rewrite nth_inv_order by lia. rewrite index_of_nth by (try eapply is_perm_NoDup; eauto; lia). reflexivity.
Qed.

(* tensor_transpose of a Kronecker chain is the chain of the permuted factors (uniform dimension d) *)
Theorem kronl_transpose d N l o : 0 < d -> is_perm N o -> length l = N ->
  feq (d ^ N) (gather2 (dperm d N (inv_order o)) (kronl d l)) (kronl d (sel fdummy l o)).
Proof.
  intros Hd Ho Hl i j Hi Hj. unfold gather2. pose proof (inv_order_perm N o Ho) as HI.
  rewrite !kronl_entry. rewrite sel_length, (is_perm_length N o Ho), Hl.
  rewrite !digits_dperm by auto.
  symmetry. apply (kron_entry_sel N); auto using digits_length.
Qed.
