(* Finite sums and products over integer ranges [lo, hi), used by the translation of analytic.py *)
From Coq Require Import ZArith Reals List.
Local Open Scope R_scope.

Definition zrange (lo hi : Z) : list Z := map (fun i => (lo + Z.of_nat i)%Z) (seq 0 (Z.to_nat (hi - lo))).
Definition sum_range (lo hi : Z) (f : Z -> R) : R := fold_right (fun k acc => f k + acc) 0 (zrange lo hi).
Definition prod_range (lo hi : Z) (f : Z -> R) : R := fold_right (fun k acc => f k * acc) 1 (zrange lo hi).
