(* Kronecker product of function-matrices (Base/RAlg.v [fmat]) and its algebra:
   splitting of a sum over k < d1*d2 into a double sum over (k / d2, k mod d2), mixed product,
   adjoint, trace, identity, unitarity, commutation of A (x) 1 with 1 (x) B; re-indexing of finite
   sums by a bijection of [0,n); permutation matrices of an index bijection and conjugation by
   them (the qubit permutation matrices are the instances of Spec/DigitPerm.v).              *)
From Coq Require Import ZArith Reals List Lra Lia Arith Permutation.
From FF Require Import Base.Ops Inst.RInst Base.RAlg.
Import ListNotations.
Local Open Scope nat_scope.

(* ---------- index arithmetic ---------- *)
Lemma divmod_pair a b d : b < d -> (a * d + b) / d = a /\ (a * d + b) mod d = b.
Proof.
  intros Hb. assert (Hd : d <> 0) by lia. split.
  - rewrite Nat.div_add_l by auto. rewrite Nat.div_small by auto. lia.
  - rewrite Nat.add_comm, Nat.mod_add by auto. apply Nat.mod_small; auto.
Qed.
Lemma div_lt_prod i d1 d2 : i < d1 * d2 -> i / d2 < d1.
Proof. intros H. apply Nat.div_lt_upper_bound; [destruct d2; lia | lia]. Qed.
Lemma mod_lt_prod i d1 d2 : i < d1 * d2 -> i mod d2 < d2.
Proof. intros H. apply Nat.mod_upper_bound. destruct d2; lia. Qed.
Lemma pair_lt_prod a b d1 d2 : a < d1 -> b < d2 -> a * d2 + b < d1 * d2.
Proof. intros. nia. Qed.
Lemma divmod_eq i j d : d <> 0 -> i / d = j / d -> i mod d = j mod d -> i = j.
Proof. intros Hd H1 H2. rewrite (Nat.div_mod_eq i d), (Nat.div_mod_eq j d), H1, H2. reflexivity. Qed.

(* ---------- sums over a product range ---------- *)
Lemma csumn_prod d1 d2 (f : nat -> Cx) :
  csumn' (d1 * d2) f = csumn' d1 (fun a => csumn' d2 (fun b => f (a * d2 + b))).
Proof.
  induction d1; simpl. reflexivity.
  replace (d2 + d1 * d2) with (d1 * d2 + d2) by lia.
  rewrite csumn_app, IHd1. reflexivity.
Qed.

Lemma csumn_prod_split d1 d2 (g : nat -> nat -> Cx) :
  csumn' (d1 * d2) (fun k => g (k / d2) (k mod d2)) = csumn' d1 (fun a => csumn' d2 (fun b => g a b)).
Proof.
  rewrite csumn_prod. apply csumn_ext. intros a _. apply csumn_ext. intros b Hb.
  destruct (divmod_pair a b d2 Hb) as [-> ->]. reflexivity.
Qed.

Lemma csumn_mul_sums d1 d2 (f g : nat -> Cx) :
  cmul' (csumn' d1 f) (csumn' d2 g) = csumn' d1 (fun a => csumn' d2 (fun b => cmul' (f a) (g b))).
Proof.
  rewrite <- csumn_mul_r. apply csumn_ext. intros a _. rewrite csumn_mul_l. reflexivity.
Qed.

(* ---------- sums over lists, invariance under permutation ---------- *)
Fixpoint csuml (l : list Cx) : Cx := match l with [] => 0c | x :: r => cadd' x (csuml r) end.
Lemma csuml_app l1 l2 : csuml (l1 ++ l2) = cadd' (csuml l1) (csuml l2).
Proof. induction l1; simpl. ring. rewrite IHl1. ring. Qed.
Lemma csumn_csuml n (f : nat -> Cx) : csumn' n f = csuml (map f (seq 0 n)).
Proof.
  induction n. reflexivity.
  rewrite seq_S, map_app, csuml_app, <- IHn. simpl. ring.
Qed.
Lemma csuml_perm l1 l2 : Permutation l1 l2 -> csuml l1 = csuml l2.
Proof. induction 1; simpl; try congruence. ring. Qed.

(* p maps [0,n) injectively into [0,n) *)
Definition bij_on (n : nat) (p : nat -> nat) : Prop :=
  (forall i, i < n -> p i < n) /\ (forall i j, i < n -> j < n -> p i = p j -> i = j).

Lemma bij_on_perm n p : bij_on n p -> Permutation (map p (seq 0 n)) (seq 0 n).
Proof.
  intros [Hr Hi]. apply NoDup_Permutation_bis.
  - assert (G : forall l, NoDup l -> (forall x, In x l -> x < n) -> NoDup (map p l)).
    { induction l; intros Hn Hl; simpl. constructor. inversion Hn; subst. constructor.
      - intros Hin. apply in_map_iff in Hin. destruct Hin as [y [Hy Hin]].
        apply Hi in Hy; [subst; auto | apply Hl; right; auto | apply Hl; left; auto].
      - apply IHl; auto. intros; apply Hl; right; auto. }
    apply G. apply seq_NoDup. intros x Hx. apply in_seq in Hx. lia.
  - rewrite map_length. lia.
  - intros x Hx. apply in_map_iff in Hx. destruct Hx as [y [<- Hy]]. apply in_seq in Hy.
    apply in_seq. specialize (Hr y). lia.
Qed.

Lemma csumn_perm n p (f : nat -> Cx) : bij_on n p -> csumn' n (fun i => f (p i)) = csumn' n f.
Proof.
  intros Hp. rewrite !csumn_csuml. rewrite <- (map_map p f).
  apply csuml_perm, Permutation_map, bij_on_perm; auto.
Qed.

(* a bijection of [0,n) is onto [0,n) *)
Lemma bij_on_surj n p : bij_on n p -> forall j, j < n -> exists i, i < n /\ p i = j.
Proof.
  intros Hp j Hj. pose proof (bij_on_perm n p Hp) as HP.
  assert (Hin : In j (map p (seq 0 n))).
  { eapply Permutation_in. apply Permutation_sym; eauto. apply in_seq; lia. }
  apply in_map_iff in Hin. destruct Hin as [i [Hi Hin]]. apply in_seq in Hin. exists i; split; [lia|auto].
Qed.

Lemma bij_on_id n : bij_on n (fun i => i).
Proof. split; auto. Qed.
Lemma bij_on_comp n p q : bij_on n p -> bij_on n q -> bij_on n (fun i => p (q i)).
Proof. intros [P1 P2] [Q1 Q2]. split; intros; auto. Qed.
(* a left inverse on [0,n) that stays in range is a bijection, and so is the map itself *)
Lemma bij_on_of_inverse n p q : (forall i, i < n -> p i < n) -> (forall i, i < n -> q i < n) ->
  (forall i, i < n -> q (p i) = i) -> bij_on n p.
Proof. intros Hp Hq Hqp. split; auto. intros i j Hi Hj E. rewrite <- (Hqp i Hi), <- (Hqp j Hj). f_equal. exact E. Qed.
Lemma inverse_right n p q : bij_on n p -> (forall i, i < n -> q (p i) = i) -> forall j, j < n -> p (q j) = j.
Proof. intros Hp Hqp j Hj. destruct (bij_on_surj n p Hp j Hj) as [i [Hi <-]]. rewrite Hqp; auto. Qed.

(* ---------- Kronecker product ---------- *)
Definition fkron (d2 : nat) (A B : fmat) : fmat :=
  fun i j => cmul' (A (i / d2) (j / d2)) (B (i mod d2) (j mod d2)).

Lemma fkron_ext d1 d2 A A' B B' : feq d1 A A' -> feq d2 B B' ->
  feq (d1 * d2) (fkron d2 A B) (fkron d2 A' B').
Proof.
  intros HA HB i j Hi Hj. unfold fkron.
  rewrite HA, HB; try (apply div_lt_prod; assumption); try (eapply mod_lt_prod; eassumption). reflexivity.
Qed.

(* (A (x) B)(C (x) D) = AC (x) BD, at every index pair *)
Lemma fkron_mul_pt d1 d2 A B C D i j :
  fmul (d1 * d2) (fkron d2 A B) (fkron d2 C D) i j = fkron d2 (fmul d1 A C) (fmul d2 B D) i j.
Proof.
  unfold fmul, fkron.
  rewrite (csumn_prod_split d1 d2 (fun a b =>
    cmul' (cmul' (A (i / d2) a) (B (i mod d2) b)) (cmul' (C a (j / d2)) (D b (j mod d2))))).
  rewrite csumn_mul_sums. apply csumn_ext. intros a _. apply csumn_ext. intros b _. ring.
Qed.
Lemma fkron_mul d1 d2 A B C D :
  feq (d1 * d2) (fmul (d1 * d2) (fkron d2 A B) (fkron d2 C D)) (fkron d2 (fmul d1 A C) (fmul d2 B D)).
Proof. intros i j _ _. apply fkron_mul_pt. Qed.

Lemma fkron_adj d2 A B i j : fadj (fkron d2 A B) i j = fkron d2 (fadj A) (fadj B) i j.
Proof. unfold fadj, fkron. apply cconj_mul. Qed.

Lemma ftr_fkron d1 d2 A B : ftr (d1 * d2) (fkron d2 A B) = cmul' (ftr d1 A) (ftr d2 B).
Proof.
  unfold ftr, fkron.
  rewrite (csumn_prod_split d1 d2 (fun a b => cmul' (A a a) (B b b))).
  rewrite csumn_mul_sums. reflexivity.
Qed.

Lemma fkron_id d1 d2 : feq (d1 * d2) (fkron d2 fid fid) fid.
Proof.
  intros i j Hi Hj. unfold fkron, fid.
  assert (Hd : d2 <> 0) by (destruct d2; lia).
  destruct (Nat.eqb_spec i j) as [->|Hne].
  - rewrite !Nat.eqb_refl. ring.
  - destruct (Nat.eqb_spec (i / d2) (j / d2)) as [E1|]; [|ring].
    destruct (Nat.eqb_spec (i mod d2) (j mod d2)) as [E2|]; [|ring].
    exfalso. apply Hne. eapply divmod_eq; eauto.
Qed.

Lemma fkron_scal_l d2 z A B i j : fkron d2 (fscal z A) B i j = fscal z (fkron d2 A B) i j.
Proof. unfold fkron, fscal. ring. Qed.
Lemma fkron_scal_r d2 z A B i j : fkron d2 A (fscal z B) i j = fscal z (fkron d2 A B) i j.
Proof. unfold fkron, fscal. ring. Qed.
Lemma fkron_add_l d2 A A' B i j : fkron d2 (fadd A A') B i j = fadd (fkron d2 A B) (fkron d2 A' B) i j.
Proof. unfold fkron, fadd. ring. Qed.
Lemma fkron_add_r d2 A B B' i j : fkron d2 A (fadd B B') i j = fadd (fkron d2 A B) (fkron d2 A B') i j.
Proof. unfold fkron, fadd. ring. Qed.

Lemma funitary_fkron d1 d2 U V : funitary d1 U -> funitary d2 V -> funitary (d1 * d2) (fkron d2 U V).
Proof.
  intros [HU1 HU2] [HV1 HV2]. split.
  - eapply feq_trans. { apply fmul_ext; [|apply feq_refl]. intros i j _ _. apply fkron_adj. }
    eapply feq_trans. apply fkron_mul.
    eapply feq_trans. apply fkron_ext; eauto. apply fkron_id.
  - eapply feq_trans. { apply fmul_ext; [apply feq_refl|]. intros i j _ _. apply fkron_adj. }
    eapply feq_trans. apply fkron_mul.
    eapply feq_trans. apply fkron_ext; eauto. apply fkron_id.
Qed.

(* A (x) 1 and 1 (x) B commute; both products are A (x) B *)
Lemma fkron_local_l d1 d2 A B :
  feq (d1 * d2) (fmul (d1 * d2) (fkron d2 A fid) (fkron d2 fid B)) (fkron d2 A B).
Proof.
  eapply feq_trans. apply fkron_mul. apply fkron_ext; [apply fmul_id_r | apply fmul_id_l].
Qed.
Lemma fkron_local_r d1 d2 A B :
  feq (d1 * d2) (fmul (d1 * d2) (fkron d2 fid B) (fkron d2 A fid)) (fkron d2 A B).
Proof.
  eapply feq_trans. apply fkron_mul. apply fkron_ext; [apply fmul_id_l | apply fmul_id_r].
Qed.
Lemma fkron_local_commute d1 d2 A B :
  feq (d1 * d2) (fmul (d1 * d2) (fkron d2 A fid) (fkron d2 fid B))
                (fmul (d1 * d2) (fkron d2 fid B) (fkron d2 A fid)).
Proof. eapply feq_trans. apply fkron_local_l. apply feq_sym, fkron_local_r. Qed.

Lemma fherm_fkron d1 d2 A B : fherm d1 A -> fherm d2 B -> fherm (d1 * d2) (fkron d2 A B).
Proof.
  intros HA HB. unfold fherm. eapply feq_trans. { intros i j _ _. apply fkron_adj. }
  apply fkron_ext; auto.
Qed.

(* ---------- gathering along an index map, permutation matrices ---------- *)
(* (gather2 t A) j j' = A (t j) (t j')  -- what a transposition of tensor factors does to a matrix *)
Definition gather2 (t : nat -> nat) (A : fmat) : fmat := fun i j => A (t i) (t j).
(* permutation matrix: P e_{t j} = e_j *)
Definition fpermM (t : nat -> nat) : fmat := fun j i => if Nat.eqb i (t j) then 1c else 0c.

Lemma gather2_ext n t A B : (forall i, i < n -> t i < n) -> feq n A B -> feq n (gather2 t A) (gather2 t B).
Proof. intros Ht H i j Hi Hj. unfold gather2. apply H; auto. Qed.

Lemma gather2_mul n t A B : bij_on n t ->
  feq n (gather2 t (fmul n A B)) (fmul n (gather2 t A) (gather2 t B)).
Proof.
  intros Ht i j _ _. unfold gather2, fmul.
  symmetry. apply (csumn_perm n t (fun k => cmul' (A (t i) k) (B k (t j)))); auto.
Qed.
Lemma gather2_adj t A i j : gather2 t (fadj A) i j = fadj (gather2 t A) i j.
Proof. reflexivity. Qed.
Lemma gather2_id n t : bij_on n t -> feq n (gather2 t fid) fid.
Proof.
  intros [Hr Hi] i j Hi' Hj'. unfold gather2, fid.
  destruct (Nat.eqb_spec i j) as [->|Hne]. rewrite Nat.eqb_refl; auto.
  destruct (Nat.eqb_spec (t i) (t j)) as [E|]; auto. exfalso; apply Hne, Hi; auto.
Qed.
Lemma gather2_add t A B i j : gather2 t (fadd A B) i j = fadd (gather2 t A) (gather2 t B) i j.
Proof. reflexivity. Qed.
Lemma gather2_scal t z A i j : gather2 t (fscal z A) i j = fscal z (gather2 t A) i j.
Proof. reflexivity. Qed.
Lemma ftr_gather2 n t A : bij_on n t -> ftr n (gather2 t A) = ftr n A.
Proof. intros Ht. unfold ftr, gather2. apply (csumn_perm n t (fun i => A i i)); auto. Qed.
Lemma gather2_comp s t A i j : gather2 s (gather2 t A) i j = gather2 (fun k => t (s k)) A i j.
Proof. reflexivity. Qed.

Lemma funitary_gather2 n t U : bij_on n t -> funitary n U -> funitary n (gather2 t U).
Proof.
  intros Ht [H1 H2]. pose proof Ht as [Hr _]. split.
  - eapply feq_trans. apply feq_sym. eapply feq_trans. apply (gather2_mul n t (fadj U) U Ht). apply feq_refl.
    eapply feq_trans. apply gather2_ext; eauto. apply gather2_id; auto.
  - eapply feq_trans. apply feq_sym. eapply feq_trans. apply (gather2_mul n t U (fadj U) Ht). apply feq_refl.
    eapply feq_trans. apply gather2_ext; eauto. apply gather2_id; auto.
Qed.
Lemma fherm_gather2 n t A : (forall i, i < n -> t i < n) -> fherm n A -> fherm n (gather2 t A).
Proof. intros Ht H i j Hi Hj. unfold fadj, gather2. apply (H (t i) (t j)); auto. Qed.

(* gather2 t A = P A P^dagger with P the permutation matrix of t *)
Lemma fpermM_mul_l n t A i j : i < n -> t i < n -> fmul n (fpermM t) A i j = A (t i) j.
Proof.
  intros Hi Hti. unfold fmul, fpermM.
  rewrite (csumn_ext n _ (fun k => if Nat.eqb k (t i) then A k j else 0c)).
  apply (csumn_delta' n (t i) (fun k => A k j)); auto.
  intros k _. destruct (Nat.eqb k (t i)); ring.
Qed.
Lemma fpermM_mul_r n t A i j : j < n -> t j < n -> fmul n A (fadj (fpermM t)) i j = A i (t j).
Proof.
  intros Hj Htj. unfold fmul, fadj, fpermM.
  rewrite (csumn_ext n _ (fun k => if Nat.eqb k (t j) then A i k else 0c)).
  apply (csumn_delta' n (t j) (fun k => A i k)); auto.
  intros k _. destruct (Nat.eqb k (t j)). rewrite cconj_1; ring. rewrite cconj_0; ring.
Qed.
Lemma gather2_conj n t A : (forall i, i < n -> t i < n) ->
  feq n (gather2 t A) (fmul n (fpermM t) (fmul n A (fadj (fpermM t)))).
Proof.
  intros Ht i j Hi Hj. rewrite fpermM_mul_l by auto. rewrite fpermM_mul_r by auto. reflexivity.
Qed.
Lemma fpermM_unitary n t : bij_on n t -> funitary n (fpermM t).
Proof.
  intros Ht. pose proof Ht as [Hr Hinj].
  assert (H2 : feq n (fmul n (fpermM t) (fadj (fpermM t))) fid).
  { intros i j Hi Hj. rewrite fpermM_mul_r by auto. unfold fpermM, fid.
    destruct (Nat.eqb_spec i j) as [->|Hne]. rewrite Nat.eqb_refl; auto.
    destruct (Nat.eqb_spec (t j) (t i)) as [E|]; auto. exfalso; apply Hne; symmetry; apply Hinj; auto. }
  split; auto.
  (* P^dagger P = 1: column sums *)
  intros i j Hi Hj. unfold fmul, fadj, fpermM, fid.
  destruct (bij_on_surj n t Ht i Hi) as [a [Ha Ea]].
  rewrite (csumn_ext n _ (fun k => if Nat.eqb k a then (if Nat.eqb j (t k) then 1c else 0c) else 0c)).
  - rewrite (csumn_delta' n a (fun k => if Nat.eqb j (t k) then 1c else 0c)) by auto.
    rewrite Ea. rewrite Nat.eqb_sym. reflexivity.
  - intros k Hk. destruct (Nat.eqb_spec k a) as [->|Hne].
    + rewrite Ea, Nat.eqb_refl, cconj_1. ring.
    + destruct (Nat.eqb_spec i (t k)) as [E|]. exfalso; apply Hne, Hinj; auto; congruence.
      rewrite cconj_0. ring.
Qed.
