(* C16 -- specification: the Kronecker product of rank-r integer tensors and the Kronecker chain of a
   list of factors, independent of einsum: entry (i_1, .., i_r) of A (x) B is
   A[i_1 / b_1, .., i_r / b_r] * B[i_1 mod b_1, .., i_r mod b_r]  (numpy.kron on every axis), and the
   entry of a chain at (i_1..i_r) is the product over the factors k of F_k at the k-th mixed-radix
   digits of i_1, .., i_r with respect to the factor dimensions on the respective axis. *)
From Coq Require Import ZArith List Arith Lia.
From FF Require Import Model.Tensor.
Import ListNotations.

Section Generic.
Context {T : Type} {E : Entry T}.
Local Notation arr := (garr T).

Definition kron2 (A B : arr) : arr :=
  tabulate (map2 Nat.mul (shp A) (shp B))
    (fun idx => emul (aget A (map2 Nat.div idx (shp B))) (aget B (map2 Nat.modulo idx (shp B)))).

(* left-to-right chain F (x) F_1 (x) .. (x) F_m *)
Definition kron_chain (F : arr) (Fs : list arr) : arr := fold_left kron2 Fs F.

(* mixed-radix digits (most significant first) of k with respect to the radices s *)
Fixpoint unravel (s : list nat) (k : nat) : list nat :=
  match s with
  | [] => []
  | d :: s' => (k / prodn s') :: unravel s' (k mod prodn s')
  end.

(* dimensions of all factors on axis a *)
Definition axis_dims (a : nat) (Fs : list arr) : list nat := map (fun F => nth a (shp F) 0) Fs.
(* multi-index into factor k selected by the chain multi-index idx *)
Definition factor_index (r : nat) (Fs : list arr) (k : nat) (idx : list nat) : list nat :=
  map (fun a => nth k (unravel (axis_dims a Fs) (nth a idx 0)) 0) (seq 0 r).
Definition zprod (l : list T) : T := fold_right emul eone l.
Definition kron_entry (r : nat) (Fs : list arr) (idx : list nat) : T :=
  zprod (map (fun k => aget (nth k Fs (mkArr [] [])) (factor_index r Fs k idx)) (seq 0 (length Fs))).

(* well-formed rank-r tensor without leading axes *)
Definition wf (r : nat) (A : arr) : Prop := length (shp A) = r /\ length (dat A) = prodn (shp A).

(* Kronecker insertion: C = X (x) Y with shp X = P, shp Y = S (per axis); the result is X (x) ins (x) Y.
   Only the products P (dimensions in front of the insertion point) and S (behind it) enter. *)
Definition kron_ins (P S : list nat) (C ins : arr) : arr :=
  tabulate (map2 Nat.mul (shp ins) (shp C))
    (fun idx =>
       let xs := map2 Nat.div idx (map2 Nat.mul (shp ins) S) in
       let ys := map2 Nat.modulo (map2 Nat.div idx S) (shp ins) in
       let zs := map2 Nat.modulo idx S in
       emul (aget ins ys) (aget C (map2 Nat.add (map2 Nat.mul xs S) zs))).

(* the empty chain: the rank-r tensor with one entry 1 *)
Definition kunit (r : nat) : arr := mkArr (repeat 1 r) [eone].
Definition chain_u (r : nat) (L : list arr) : arr := fold_left kron2 L (kunit r).
End Generic.
