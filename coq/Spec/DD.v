(* Specification of the dephasing filter function of free evolution interrupted by ideal pi pulses.

   Numeric model (Model/Numeric.v) specialised to H_c = 0: eigenvalues 0, eigenvectors and all
   cumulative propagators the identity, so that for the noise operator s(t) sigma_z/2 (sensitivity
   s = +-1, flipped by every pi pulse) and the normalised Pauli basis the control matrix is
      B_k(w) = tr(sigma_z/2 C_k) sum_j s_j e^{i w t_j} (e^{i w dt_j} - 1)/(i w) ,
   and with sum_k |tr(sigma_z/2 C_k)|^2 = 1/2
      w^2 F(w) = 1/2 | sum_{j=0}^{n} (-1)^j (e^{i w t_{j+1}} - e^{i w t_j}) |^2 ,
   for the switching times 0 = t_0 < t_1 < .. < t_n < t_{n+1} = tau.  With t_j = delta_j tau and
   z = w tau this is a function of z and of the pulse-time fractions delta_1 .. delta_n only.
   (The per-segment specialisation of the model is proved in Proofs/DD.v, [foi_segment_dd].)

   Complex numbers are the pairs of Base/Ops.v over the real instance, so [dd_F] is the real
   expression  ((sum of cos parts)^2 + (sum of sin parts)^2) / 2.                              *)
From Coq Require Import ZArith Reals List.
From FF Require Import Base.Ops Inst.RInst Base.RAlg.
Import ListNotations.
Local Open Scope R_scope.

(* e^{i z t} *)
Definition ez (z t : R) : Cx := cexp' (z * t).

(* sum over the segments: sign [s] on the segment that starts at [prev]; the last segment ends at 1 *)
Fixpoint dd_sum (z : R) (s prev : R) (ts : list R) : Cx :=
  match ts with
  | [] => cscal RO s (csub' (ez z 1) (ez z prev))
  | t :: r => cadd' (cscal RO s (csub' (ez z t) (ez z prev))) (dd_sum z (- s) t r)
  end.

(* y(z) = sum_{j=0}^{n} (-1)^j (e^{i z delta_{j+1}} - e^{i z delta_j}),  delta_0 = 0, delta_{n+1} = 1 *)
Definition dd_y (ts : list R) (z : R) : Cx := dd_sum z 1 0 ts.

(* omega^2 F(omega) as a function of z = omega tau *)
Definition dd_F (ts : list R) (z : R) : R := cabs2 RO (dd_y ts z) / 2.

(* ---------- pulse-time fractions of the shipped families ---------- *)
Definition fam (n : nat) (delta : nat -> R) : list R := map delta (seq 1 n).

Definition fid_times : list R := [].
Definition se_times : list R := [1/2].
Definition pdd_times (n : nat) : list R := fam n (fun j => INR j / (INR n + 1)).
Definition cpmg_times (n : nat) : list R := fam n (fun j => (INR j - 1/2) / INR n).
Definition udd_times (n : nat) : list R := fam n (fun j => (sin (PI * INR j / (2 * INR n + 2))) ^ 2).

(* Concatenated DD: CDD_g = [CDD_{g-1}, pi, CDD_{g-1}] on half the duration each, the pulse in the
   middle cancelling against ... nothing when g is odd, and against itself (two coincident pulses)
   when g is even -- exactly tests/testutil.py cdd_odd / cdd_even.  The sign function is the
   product of the first g Rademacher functions ([cdd_rademacher] in Proofs/DD.v).              *)
Fixpoint cdd_times (g : nat) : list R :=
  match g with
  | O => []
  | S g' =>
      let h := map (fun t => t / 2) (cdd_times g') in
      let h2 := map (fun t => 1/2 + t) h in
      if Nat.even g then h ++ h2 else h ++ [1/2] ++ h2
  end.

(* The same sign function on the uniform grid of 2^g segments, as the product of the first g
   Rademacher functions r_k(t) = sign sin(2^k pi t/tau): on the m-th segment r_k = (-1)^(m / 2^(g-k)).
   [cdd_rademacher] (Proofs/DD.v) proves that both descriptions give the same y(z) for every g. *)
Definition rad (g k m : nat) : R := (-1) ^ (m / 2 ^ (g - k)).
Definition rad_sign (g m : nat) : R := fold_right (fun k acc => rad g k m * acc) 1 (seq 1 g).
Definition rad_y (g : nat) (z : R) : Cx :=
  csumn' (2 ^ g) (fun m => cscal RO (rad_sign g m) (csub' (ez z (INR (S m) / 2 ^ g)) (ez z (INR m / 2 ^ g)))).
