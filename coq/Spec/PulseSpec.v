(* Specification side of C17: what a pulse denotes.
   A pulse is a sequence of segments (control coefficient column, noise coefficient column, duration);
   its canonical form merges every run of consecutive segments with equal columns; as a function of
   time it is piecewise constant.  Well-formedness of the stored arrays. *)
From Coq Require Import ZArith List Bool String PeanoNat Reals.
From FF Require Import Model.B64 Model.Pulse.
Import ListNotations.
Local Open Scope nat_scope.
Local Notation length := List.length (only parsing).

Definition col := list num.
Definition seg := (col * col * num)%type.

(* columns of a row-major matrix with w columns *)
Fixpoint transpose (w : nat) (rows : list (list num)) : list col :=
  match w with
  | O => []
  | S w' => map (hd d0) rows :: transpose w' (map (@tl num) rows)
  end.

Definition segs_of (cc nc : list (list num)) (dts : list num) : list seg :=
  combine (combine (transpose (length dts) cc) (transpose (length dts) nc)) dts.
Definition segments (p : pulse) : list seg := segs_of (c_coeffs p) (n_coeffs p) (dt p).

Definition same_cols (s t : seg) : bool :=
  list_eqb_num (fst (fst s)) (fst (fst t)) && list_eqb_num (snd (fst s)) (snd (fst t)).

Section Merge.
  Variable fadd : num -> num -> num.
  (* merge every run of consecutive segments with equal columns; the duration of a run s..t is
     ((dt_t + dt_s) + dt_{s+1}) + ... + dt_{t-1}  (the order in which the code adds) *)
  Fixpoint merge_runs (pend : list num) (segs : list seg) : list seg :=
    match segs with
    | [] => []
    | s :: r =>
        match r with
        | s' :: _ => if same_cols s s' then merge_runs (pend ++ [snd s]) r
                     else (fst s, fold_left fadd pend (snd s)) :: merge_runs [] r
        | [] => [(fst s, fold_left fadd pend (snd s))]
        end
    end.
End Merge.

(* segments that count: those of non-zero duration, unless all or none of them are (the code's condition) *)
Definition seg_nonzero (s : seg) : bool := nonzero_dt (snd s).
Definition effective_segments (p : pulse) : list seg :=
  let segs := segments p in
  if existsb seg_nonzero segs && negb (forallb seg_nonzero segs) then filter seg_nonzero segs else segs.
Definition canon (fadd : num -> num -> num) (p : pulse) : list seg := merge_runs fadd [] (effective_segments p).
(* canonical form before fix ac70929: zero-duration segments kept *)
Definition canon_prefix (fadd : num -> num -> num) (p : pulse) : list seg := merge_runs fadd [] (segments p).

(* consecutive duplicates removed *)
Fixpoint compress (l : list (col * col)) : list (col * col) :=
  match l with
  | [] => []
  | a :: r => match r with
              | b :: _ => if list_eqb_num (fst a) (fst b) && list_eqb_num (snd a) (snd b) then compress r else a :: compress r
              | [] => [a]
              end
  end.

Fixpoint no_adjacent_equal (l : list seg) : Prop :=
  match l with
  | a :: r => match r with b :: _ => same_cols a b = false /\ no_adjacent_equal r | [] => True end
  | [] => True
  end.

(* stored arrays are consistent *)
Definition wf (p : pulse) : Prop :=
  let G := length (dt p) in
  length (c_ids p) = length (c_opers p) /\ length (c_coeffs p) = length (c_opers p) /\
  length (n_ids p) = length (n_opers p) /\ length (n_coeffs p) = length (n_opers p) /\
  Forall (fun r => length r = G) (c_coeffs p) /\ Forall (fun r => length r = G) (n_coeffs p) /\
  NoDup (c_ids p) /\ NoDup (n_ids p) /\ 1 <= G.

(* ------------------------------------------------------------------ value of a dyadic, time function *)
Local Open Scope R_scope.
Definition d2R (a : num) : R := IZR (fst a) * powerRZ 2 (snd a).

(* coefficient columns active at time t (None after the end); segment g covers [T_g, T_g + dt_g) *)
Fixpoint at_time (segs : list seg) (t : R) : option (col * col) :=
  match segs with
  | [] => None
  | s :: r => if Rlt_dec t (d2R (snd s)) then Some (fst s) else at_time r (t - d2R (snd s))
  end.
