(* Sorting of identifier strings (np.argsort on arrays of str compares code points
   lexicographically; for ASCII identifiers that is Coq's String.compare): a stable insertion
   argsort, that it returns a permutation of the positions in non-decreasing key order, and that
   such a sorting permutation is unique when the keys are distinct.                          *)
From Coq Require Import String List Arith Ascii NArith Lia Permutation Sorted.
Import ListNotations.
Local Open Scope nat_scope.

Lemma ascii_compare_refl c : Ascii.compare c c = Eq.
Proof. unfold Ascii.compare. apply N.compare_refl. Qed.
Lemma ascii_compare_eq c1 c2 : Ascii.compare c1 c2 = Eq -> c1 = c2.
Proof.
  unfold Ascii.compare. intros H. apply N.compare_eq in H.
  rewrite <- (ascii_N_embedding c1), <- (ascii_N_embedding c2), H. reflexivity.
Qed.
Lemma ascii_compare_lt_trans c1 c2 c3 : Ascii.compare c1 c2 = Lt -> Ascii.compare c2 c3 = Lt -> Ascii.compare c1 c3 = Lt.
Proof. unfold Ascii.compare. rewrite !N.compare_lt_iff. apply N.lt_trans. Qed.

Lemma str_compare_refl s : String.compare s s = Eq.
Proof. induction s; simpl; auto. rewrite ascii_compare_refl. auto. Qed.

Lemma str_compare_le_trans a b c :
  String.compare a b <> Gt -> String.compare b c <> Gt -> String.compare a c <> Gt.
Proof.
  revert b c. induction a as [|c1 a IH]; intros b c; destruct b as [|c2 b]; destruct c as [|c3 c]; simpl; try congruence.
  destruct (Ascii.compare c1 c2) eqn:E12; destruct (Ascii.compare c2 c3) eqn:E23; try congruence.
  - apply ascii_compare_eq in E12; apply ascii_compare_eq in E23; subst. rewrite ascii_compare_refl. apply IH.
  - apply ascii_compare_eq in E12; subst. rewrite E23. congruence.
  - apply ascii_compare_eq in E23; subst. rewrite E12. congruence.
  - rewrite (ascii_compare_lt_trans _ _ _ E12 E23). congruence.
Qed.

Lemma leb_iff a b : String.leb a b = true <-> String.compare a b <> Gt.
Proof. unfold String.leb. destruct (String.compare a b); split; congruence. Qed.
Lemma str_leb_trans a b c : String.leb a b = true -> String.leb b c = true -> String.leb a c = true.
Proof. rewrite !leb_iff. apply str_compare_le_trans. Qed.
Lemma str_leb_refl a : String.leb a a = true.
Proof. apply leb_iff. rewrite str_compare_refl. congruence. Qed.
Lemma str_leb_false a b : String.leb a b = false -> String.leb b a = true.
Proof. intros H. destruct (String.leb_total a b); congruence. Qed.

Section Sort.
Variable key : nat -> string.
Definition kle (i j : nat) : Prop := String.leb (key i) (key j) = true.

Fixpoint ins (x : nat) (l : list nat) : list nat :=
  match l with
  | [] => [x]
  | y :: r => if String.leb (key x) (key y) then x :: l else y :: ins x r
  end.
Definition isort (l : list nat) : list nat := fold_right ins [] l.

Lemma ins_perm x l : Permutation (ins x l) (x :: l).
Proof.
  induction l; simpl. apply Permutation_refl.
  destruct (String.leb (key x) (key a)). apply Permutation_refl.
  eapply Permutation_trans. apply perm_skip. apply IHl. apply perm_swap.
Qed.
Lemma isort_perm l : Permutation (isort l) l.
Proof.
  induction l; simpl. constructor.
  eapply Permutation_trans. apply ins_perm. apply perm_skip. auto.
Qed.
Lemma ins_sorted x l : StronglySorted kle l -> StronglySorted kle (ins x l).
Proof.
  induction 1; simpl. repeat constructor.
  destruct (String.leb (key x) (key a)) eqn:E.
  - constructor. constructor; auto. constructor. exact E.
    eapply Forall_impl; [|exact H0]. intros b Hb. unfold kle in *. eapply str_leb_trans; eauto.
  - constructor. auto.
    assert (P : Permutation (ins x l) (x :: l)) by apply ins_perm.
    apply Forall_forall. intros b Hb. eapply Permutation_in in Hb; [|exact P].
    destruct Hb as [<-|Hb]. apply str_leb_false; auto.
    rewrite Forall_forall in H0. auto.
Qed.
Lemma isort_sorted l : StronglySorted kle (isort l).
Proof. induction l; simpl. constructor. apply ins_sorted; auto. Qed.

(* uniqueness of the sorted arrangement when the key is injective on the elements *)
Lemma sorted_unique l1 l2 :
  (forall i j, In i l1 -> In j l1 -> key i = key j -> i = j) ->
  NoDup l1 -> Permutation l1 l2 -> StronglySorted kle l1 -> StronglySorted kle l2 -> l1 = l2.
Proof.
  revert l2. induction l1 as [|a r1 IH]; intros l2 Hinj Hnd HP S1 S2.
  - apply Permutation_nil in HP. auto.
  - destruct l2 as [|b r2]. apply Permutation_sym, Permutation_nil in HP. discriminate.
    assert (E : a = b).
    { destruct (Nat.eq_dec a b) as [|Hne]; auto.
      assert (Ha : In a r2).
      { assert (In a (b :: r2)) by (eapply Permutation_in; eauto; left; auto). destruct H; congruence. }
      assert (Hb : In b r1).
      { assert (In b (a :: r1)) by (eapply Permutation_in; [apply Permutation_sym; eauto|left; auto]). destruct H; congruence. }
      inversion S1; subst. inversion S2; subst.
      rewrite Forall_forall in H2, H4.
      apply Hinj; [left; auto | right; auto |].
      apply String.leb_antisym; [apply H2; auto | apply H4; auto]. }
    subst b. f_equal. apply IH.
    + intros; apply Hinj; auto; right; auto.
    + inversion Hnd; auto.
    + eapply Permutation_cons_inv; eauto.
    + inversion S1; auto.
    + inversion S2; auto.
Qed.
End Sort.

(* np.argsort(identifiers) *)
Definition argsort (ks : list string) : list nat :=
  isort (fun i => nth i ks EmptyString) (seq 0 (length ks)).

Lemma argsort_perm ks : Permutation (argsort ks) (seq 0 (length ks)).
Proof. apply isort_perm. Qed.
Lemma argsort_sorted ks : StronglySorted (kle (fun i => nth i ks EmptyString)) (argsort ks).
Proof. apply isort_sorted. Qed.
Lemma argsort_unique ks l : NoDup ks -> Permutation l (seq 0 (length ks)) ->
  StronglySorted (kle (fun i => nth i ks EmptyString)) l -> l = argsort ks.
Proof.
  intros Hnd HP HS. apply (sorted_unique (fun i => nth i ks EmptyString)); auto.
  - intros i j Hi Hj E. eapply Permutation_in in Hi; eauto. eapply Permutation_in in Hj; eauto.
    apply in_seq in Hi. apply in_seq in Hj.
    apply (proj1 (NoDup_nth ks EmptyString) Hnd); auto; lia.
  - eapply Permutation_NoDup. apply Permutation_sym; eauto. apply seq_NoDup.
  - eapply Permutation_trans; eauto. apply Permutation_sym, argsort_perm.
  - apply argsort_sorted.
Qed.
Lemma SS_ext_in {A} (R1 R2 : A -> A -> Prop) l :
  (forall x y, In x l -> In y l -> R1 x y -> R2 x y) -> StronglySorted R1 l -> StronglySorted R2 l.
Proof.
  intros H S. induction S; constructor.
  - apply IHS. intros; apply H; auto; right; auto.
  - rewrite Forall_forall in *. intros y Hy. apply H; [left; auto | right; auto | auto].
Qed.
(* an already sorted list of distinct keys is left in place *)
Lemma argsort_sorted_id ks : NoDup ks ->
  StronglySorted (fun a b => String.leb a b = true) ks -> argsort ks = seq 0 (length ks).
Proof.
  intros Hnd HS. symmetry. apply argsort_unique; auto.
  (* seq is sorted w.r.t. the keys *)
  assert (G : forall l off, StronglySorted (fun a b => String.leb a b = true) l ->
              StronglySorted (kle (fun i => nth (i - off) l EmptyString)) (seq off (length l))).
  { induction l; intros off Hl; simpl. constructor. inversion Hl; subst. constructor.
    - specialize (IHl (S off) H1).
      eapply SS_ext_in; [| exact IHl] .
      intros i j Hi Hj. apply in_seq in Hi. apply in_seq in Hj. unfold kle.
      replace (i - off) with (S (i - S off)) by lia. replace (j - off) with (S (j - S off)) by lia. simpl. tauto.
    - apply Forall_forall. intros j Hj. apply in_seq in Hj. unfold kle. rewrite Nat.sub_diag. simpl.
      replace (j - off) with (S (j - S off)) by lia. rewrite Forall_forall in H2. apply H2. apply nth_In. lia. }
  specialize (G ks 0 HS). eapply SS_ext_in; [|exact G].
  intros i j _ _. unfold kle. rewrite !Nat.sub_0_r. tauto.
Qed.
