(* A pulse as a function of time; merging equal consecutive segments with exact addition of the
   durations does not change it. *)
From Coq Require Import ZArith List Bool Lia Reals Lra.
From FF Require Import Model.B64 Model.Pulse Spec.PulseSpec Proofs.PulseBase Proofs.PulseJoin Proofs.PulseCanon Proofs.B64.
Import ListNotations.
Local Open Scope R_scope.

Lemma two_neq0 : 2 <> 0. Proof. lra. Qed.

Lemma IZR_pow2 k : (0 <= k)%Z -> IZR (2 ^ k) = powerRZ 2 k.
Proof.
  intros Hk. rewrite <- (Z2Nat.id k Hk). rewrite <- pow_IZR, <- pow_powerRZ. reflexivity.
Qed.

Lemma norm_pos_val p e : IZR (Zpos (fst (norm_pos p e))) * powerRZ 2 (snd (norm_pos p e)) = IZR (Zpos p) * powerRZ 2 e.
Proof.
  revert e; induction p as [p IH|p IH|]; intros e; simpl; try reflexivity.
  rewrite IH. rewrite powerRZ_add by exact two_neq0. rewrite (Pos2Z.inj_xO p), mult_IZR. simpl. lra.
Qed.

Lemma d2R_norm a : d2R (norm a) = d2R a.
Proof.
  destruct a as [m e]. unfold norm, d2R. simpl fst; simpl snd. destruct m as [|p|p].
  - simpl. lra.
  - pose proof (norm_pos_val p e) as H. destruct (norm_pos p e) as [q e']. simpl in *. exact H.
  - pose proof (norm_pos_val p e) as H. destruct (norm_pos p e) as [q e']. simpl in *.
    change (Z.neg q) with (- Z.pos q)%Z. change (Z.neg p) with (- Z.pos p)%Z. rewrite !opp_IZR. lra.
Qed.

Lemma d2R_dadd a b : d2R (dadd a b) = d2R a + d2R b.
Proof.
  unfold dadd, align. rewrite d2R_norm. unfold d2R. simpl fst; simpl snd.
  set (e := Z.min (snd a) (snd b)).
  rewrite plus_IZR, !mult_IZR, !IZR_pow2 by lia.
  replace (powerRZ 2 (snd a)) with (powerRZ 2 (snd a - e) * powerRZ 2 e)
    by (rewrite <- powerRZ_add by exact two_neq0; f_equal; lia).
  replace (powerRZ 2 (snd b)) with (powerRZ 2 (snd b - e) * powerRZ 2 e)
    by (rewrite <- powerRZ_add by exact two_neq0; f_equal; lia).
  ring.
Qed.

Lemma d2R_nonneg a : (0 <= fst a)%Z -> 0 <= d2R a.
Proof.
  intros H. unfold d2R. apply Rmult_le_pos; [apply IZR_le; exact H|].
  left. apply powerRZ_lt. lra.
Qed.

Fixpoint sumR (l : list num) : R := match l with [] => 0 | x :: r => d2R x + sumR r end.

Lemma fold_dadd_val pend x : d2R (fold_left dadd pend x) = d2R x + sumR pend.
Proof.
  revert x; induction pend as [|p pend IH]; intros x; simpl; [lra|].
  rewrite IH, d2R_dadd. lra.
Qed.
Lemma sumR_nonneg l : Forall (fun d => (0 <= fst d)%Z) l -> 0 <= sumR l.
Proof.
  induction 1 as [|x l Hx _ IH]; simpl; [lra|]. pose proof (d2R_nonneg x Hx). lra.
Qed.

Definition prefix (c : col * col) (pend : list num) : list seg := map (fun d => (c, d)) pend.

Lemma at_time_ext segs t t' : t = t' -> at_time segs t = at_time segs t'.
Proof. intros ->. reflexivity. Qed.

(* a run of segments with the same columns acts like one segment with the summed duration *)
Lemma at_time_run c pend x rest t :
  Forall (fun d => (0 <= fst d)%Z) pend -> (0 <= fst x)%Z ->
  at_time (prefix c pend ++ (c, x) :: rest) t = at_time ((c, fold_left dadd pend x) :: rest) t.
Proof.
  intros Hp Hx. revert x t Hx. induction Hp as [|p pend Hpn Hp IH]; intros x t Hx; [reflexivity|].
  cbn [prefix map app at_time fold_left fst snd].
  assert (Hxp : (0 <= fst (dadd x p))%Z) by (apply Proofs.B64.dadd_nonneg; assumption).
  pose proof (d2R_nonneg p Hpn) as P0.
  fold (prefix c pend). rewrite (IH x (t - d2R p) Hx). cbn [at_time fst snd].
  rewrite !fold_dadd_val, d2R_dadd.
  pose proof (sumR_nonneg pend Hp) as S0. pose proof (d2R_nonneg x Hx) as X0.
  destruct (Rlt_dec t (d2R p)); destruct (Rlt_dec t (d2R x + d2R p + sumR pend));
    destruct (Rlt_dec (t - d2R p) (d2R x + sumR pend)); try lra; try reflexivity.
  apply at_time_ext. lra.
Qed.

Lemma merge_at_time_gen r : forall s pend t,
  Forall (fun s => (0 <= fst (snd s))%Z) (s :: r) -> Forall (fun d => (0 <= fst d)%Z) pend ->
  at_time (merge_runs dadd pend (s :: r)) t = at_time (prefix (fst s) pend ++ s :: r) t.
Proof.
  induction r as [|s' r IH]; intros s pend t Hs Hp.
  - inversion Hs; subst. cbn [merge_runs]. destruct s as [c x]. cbn [fst snd] in *.
    symmetry. apply at_time_run; assumption.
  - change (merge_runs dadd pend (s :: s' :: r)) with
      (if same_cols s s' then merge_runs dadd (pend ++ [snd s]) (s' :: r)
       else (fst s, fold_left dadd pend (snd s)) :: merge_runs dadd [] (s' :: r)).
    inversion Hs as [|? ? Hs0 Hs']; subst.
    destruct (same_cols s s') eqn:E.
    + rewrite IH; [| assumption | apply Forall_app; split; [assumption | constructor; [assumption | constructor]]].
      apply (same_cols_spec) in E. destruct s as [c x], s' as [c' x']. cbn [fst snd] in *. subst c'.
      unfold prefix. rewrite map_app, <- app_assoc. reflexivity.
    + destruct s as [c x]. cbn [fst snd] in *.
      rewrite (at_time_run c pend x (s' :: r) t Hp Hs0).
      cbn [at_time fst snd]. destruct (Rlt_dec t (d2R (fold_left dadd pend x))); [reflexivity|].
      rewrite IH; [reflexivity | assumption | constructor].
Qed.

Theorem merge_at_time segs t :
  Forall (fun s => (0 <= fst (snd s))%Z) segs ->
  at_time (merge_runs dadd [] segs) t = at_time segs t.
Proof.
  intros H. destruct segs as [|s r]; [reflexivity|].
  rewrite merge_at_time_gen; [reflexivity | assumption | constructor].
Qed.

(* segments of zero duration do not change the function of time (on t >= 0) *)
Lemma d2R_zero a : nonzero_dt a = false -> d2R a = 0.
Proof.
  unfold nonzero_dt, d2R. intros H. apply negb_false_iff in H. apply Z.eqb_eq in H. rewrite H. simpl. lra.
Qed.
Theorem at_time_drop_zero segs t : 0 <= t -> at_time (filter seg_nonzero segs) t = at_time segs t.
Proof.
  revert t; induction segs as [|s r IH]; intros t Ht; [reflexivity|].
  cbn [filter at_time]. unfold seg_nonzero at 1. destruct (nonzero_dt (snd s)) eqn:E.
  - cbn [at_time]. destruct (Rlt_dec t (d2R (snd s))); [reflexivity|]. apply IH. lra.
  - rewrite (d2R_zero _ E). destruct (Rlt_dec t 0); [lra|]. rewrite IH by lra. apply at_time_ext. lra.
Qed.
Theorem at_time_effective p t : 0 <= t -> at_time (effective_segments p) t = at_time (segments p) t.
Proof.
  intros Ht. unfold effective_segments. destruct (existsb _ _ && negb (forallb _ _)); [apply at_time_drop_zero; exact Ht | reflexivity].
Qed.
