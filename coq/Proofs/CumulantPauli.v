(* C09, part 2: the d = 2 shortcut of calculate_cumulant_function against the general
   trace-tensor branch on the normalised Pauli basis, for ALL decay amplitudes and frequency
   shifts, first and second order:   shortcut(Gamma, Delta) = general(Gamma, Delta)
   (after fix 72be0f3: off-diagonal block from the transposed decay amplitudes).
   The pre-fix shortcut (untransposed copy) is kept as [cumulant_shortcut_prefix_fn]:
   prefix(Gamma, Delta) = general(Gamma^T, Delta), equal to the formula iff Gamma is symmetric;
   [shortcut_prefix_cross_refuted] is the witness for cross-correlated noise / pulse-correlation
   pairs (Gamma_ab,kl not symmetric in kl).                                                    *)
From Coq Require Import ZArith Reals Lra Lia List Bool Setoid Morphisms.
From FF Require Import Base.Ops Inst.RInst Base.RAlg Base.FMat Model.Numeric Model.Decay Model.Cumulant
     Proofs.Trapz Proofs.TraceId Proofs.PauliOnb Proofs.CumulantAlg.
Import ListNotations.
Local Open Scope R_scope.

Definition rcx (x : R) : Cx := (x, 0).
Definition ci' : Cx := (0, 1).

(* ---------- Pauli multiplication table: sigma_p sigma_q = om(p,q) sigma_{mt(p,q)} ---------- *)
Definition mt (p q : nat) : nat :=
  match p, q with
  | 0, q => q | p, 0 => p
  | 1, 1 => 0 | 2, 2 => 0 | 3, 3 => 0
  | 1, 2 => 3 | 2, 1 => 3 | 2, 3 => 1 | 3, 2 => 1 | 3, 1 => 2 | 1, 3 => 2
  | _, _ => 0
  end%nat.
Definition om (p q : nat) : Cx :=
  match p, q with
  | 1, 2 => ci' | 2, 3 => ci' | 3, 1 => ci'
  | 2, 1 => cneg' ci' | 3, 2 => cneg' ci' | 1, 3 => cneg' ci'
  | _, _ => 1c
  end%nat.

Lemma sP_sq' : sP ^ 2 = / 2.
Proof. simpl. rewrite Rmult_1_r. apply sP_sq. Qed.

Lemma pauli_pair p q : (p < 4)%nat -> (q < 4)%nat ->
  feq 2 (fmul 2 (pauli_Cb p) (pauli_Cb q)) (fscal (cmul' (rcx sP) (om p q)) (pauli_Cb (mt p q))).
Proof.
  intros Hp Hq i j Hi Hj.
  destruct p as [|[|[|[|p]]]]; try lia; destruct q as [|[|[|[|q]]]]; try lia;
  destruct i as [|[|i]]; try lia; destruct j as [|[|j]]; try lia;
  apply c_eq; unfold fmul, fscal, pauli_Cb, toF, mget, nthm, om, mt, rcx, ci'; csimp; ring_simplify; rewrite ?sP_sq'; lra.
Qed.

(* four-element traces of the Pauli basis as a table *)
Definition T4tab (p q r s : nat) : Cx :=
  if Nat.eqb (mt p q) (mt r s) then cmul' (rcx (/ 2)) (cmul' (om p q) (om r s)) else 0c.
Lemma mt_lt p q : (p < 4)%nat -> (q < 4)%nat -> (mt p q < 4)%nat.
Proof. intros. destruct p as [|[|[|[|p]]]]; try lia; destruct q as [|[|[|[|q]]]]; try lia; simpl; lia. Qed.
Lemma T4_pauli p q r s : (p < 4)%nat -> (q < 4)%nat -> (r < 4)%nat -> (s < 4)%nat ->
  T4 2 pauli_Cb p q r s = T4tab p q r s.
Proof.
  intros Hp Hq Hr Hs. unfold T4.
  rewrite (pauli_pair p q Hp Hq), (pauli_pair r s Hr Hs).
  rewrite fmul_fscal_l, ftr_fscal, fmul_fscal_r, ftr_fscal.
  rewrite pauli_orthonormal by (apply mt_lt; auto).
  unfold T4tab. destruct (Nat.eqb (mt p q) (mt r s)).
  - destruct (om p q), (om r s). unfold rcx. apply c_eq; csimp; ring_simplify; rewrite ?sP_sq'; lra.
  - ring.
Qed.

(* ---------- general branch on the Pauli basis = shortcut, all Gamma, Delta ---------- *)
Ltac four i := destruct i as [|[|[|[|i]]]]; [ | | | | exfalso; lia].

Theorem general_pauli_eq_shortcut second (G D : RMr) i j : (i < 4)%nat -> (j < 4)%nat ->
  cumulant_general_fn RO 4 T4tab second G D i j = cumulant_shortcut_fn RO 4 second G D i j.
Proof.
  intros Hi Hj.
  four i; four j; destruct second;
    unfold cumulant_general_fn, cumulant_shortcut_fn, K1_entry, K2_entry, contract, half, masked_diag_sum, diag_idx,
           rmget, T4tab, om, mt, rcx, ci';
    simpl; csimp; field.
Qed.

(* the model's own trace tensor on the Pauli basis *)
Lemma model_traces_pauli p q r s : (p < 4)%nat -> (q < 4)%nat -> (r < 4)%nat -> (s < 4)%nat ->
  a4get RO (four_traces_arr RO 2 (pair_products RO 2 pauli_basis) 4) p q r s = T4tab p q r s.
Proof.
  intros. rewrite (a4get_four_traces 2 pauli_basis) by assumption. apply T4_pauli; auto.
Qed.
Lemma cumulant_general_fn_ext n Tr Tr' second (G D : RMr) i j : (i < n)%nat -> (j < n)%nat ->
  (forall p q r s, (p < n)%nat -> (q < n)%nat -> (r < n)%nat -> (s < n)%nat -> Tr p q r s = Tr' p q r s) ->
  cumulant_general_fn RO n Tr second G D i j = cumulant_general_fn RO n Tr' second G D i j.
Proof.
  intros Hi Hj H. unfold cumulant_general_fn, K1_entry, K2_entry.
  rewrite !(contract_ext n G) with (g := fun k l => Tr' k l j i) (f := fun k l => Tr k l j i) by (intros; apply H; auto).
  rewrite (contract_ext n G (fun k l => Tr k j l i) (fun k l => Tr' k j l i)) by (intros; apply H; auto).
  rewrite (contract_ext n G (fun k l => Tr k i l j) (fun k l => Tr' k i l j)) by (intros; apply H; auto).
  rewrite (contract_ext n G (fun k l => Tr k i j l) (fun k l => Tr' k i j l)) by (intros; apply H; auto).
  rewrite (contract_ext n D (fun k l => Tr k l j i) (fun k l => Tr' k l j i)) by (intros; apply H; auto).
  rewrite (contract_ext n D (fun k l => Tr l k j i) (fun k l => Tr' l k j i)) by (intros; apply H; auto).
  rewrite (contract_ext n D (fun k l => Tr k l i j) (fun k l => Tr' k l i j)) by (intros; apply H; auto).
  rewrite (contract_ext n D (fun k l => Tr l k i j) (fun k l => Tr' l k i j)) by (intros; apply H; auto).
  reflexivity.
Qed.
Lemma rmget_rmbuild m n (f : nat -> nat -> R) i j : (i < m)%nat -> (j < n)%nat -> rmget RO (rmbuild m n f) i j = f i j.
Proof. intros. unfold rmget, rmbuild. rewrite !nth_build by auto. reflexivity. Qed.

(* shortcut_eq_general: entries of the two branches of the MODEL on the Pauli basis, ALL Gamma, Delta *)
Theorem shortcut_eq_general second (G D : RMr) i j : (i < 4)%nat -> (j < 4)%nat ->
  rmget RO (cumulant_shortcut RO 4 second G D) i j =
  rmget RO (cumulant_general RO 4 (four_traces_arr RO 2 (pair_products RO 2 pauli_basis) 4) second G D) i j.
Proof.
  intros Hi Hj. unfold cumulant_general, cumulant_shortcut. rewrite !rmget_rmbuild by auto.
  rewrite (cumulant_general_fn_ext 4 _ T4tab) by (auto; intros; apply model_traces_pauli; auto).
  symmetry. apply general_pauli_eq_shortcut; auto.
Qed.

(* ---------- the pre-fix shortcut (commit before 72be0f3): untransposed off-diagonal block ---------- *)
Definition cumulant_shortcut_prefix_fn (n : nat) (second : bool) (G D : RMr) (i j : nat) : R :=
  if (Nat.eqb i 0 || Nat.eqb j 0) then 0 else
  let first := if Nat.eqb i j then - masked_diag_sum RO n (diag_idx i) G else rmget RO G i j in
  if second then first - rmget RO D i j + rmget RO D j i else first.
Definition rm_transpose (n : nat) (G : RMr) : RMr := rmbuild n n (fun k l => rmget RO G l k).
Lemma rmget_transpose n (G : RMr) k l : (k < n)%nat -> (l < n)%nat -> rmget RO (rm_transpose n G) k l = rmget RO G l k.
Proof. intros. unfold rm_transpose. rewrite rmget_rmbuild by auto. reflexivity. Qed.
Definition rm_symmetric (n : nat) (G : RMr) : Prop := forall k l, (k < n)%nat -> (l < n)%nat -> rmget RO G k l = rmget RO G l k.

(* prefix(Gamma) = fixed(Gamma^T) *)
Lemma shortcut_prefix_is_transposed n second (G D : RMr) i j : (i < n)%nat -> (j < n)%nat ->
  cumulant_shortcut_prefix_fn n second G D i j = cumulant_shortcut_fn RO n second (rm_transpose n G) D i j.
Proof.
  intros Hi Hj. unfold cumulant_shortcut_prefix_fn, cumulant_shortcut_fn.
  rewrite rmget_transpose by auto.
  replace (masked_diag_sum RO n (diag_idx i) (rm_transpose n G)) with (masked_diag_sum RO n (diag_idx i) G).
  reflexivity.
  unfold masked_diag_sum. apply sumn_ext. intros m Hm. rewrite rmget_transpose by auto. reflexivity.
Qed.
(* hence the pre-fix shortcut is the formula applied to the transposed decay amplitudes ... *)
Theorem shortcut_prefix_general_transposed second (G D : RMr) i j : (i < 4)%nat -> (j < 4)%nat ->
  cumulant_shortcut_prefix_fn 4 second G D i j =
  rmget RO (cumulant_general RO 4 (four_traces_arr RO 2 (pair_products RO 2 pauli_basis) 4) second (rm_transpose 4 G) D) i j.
Proof.
  intros Hi Hj. rewrite shortcut_prefix_is_transposed by auto.
  rewrite <- shortcut_eq_general by auto. unfold cumulant_shortcut. rewrite rmget_rmbuild by auto. reflexivity.
Qed.
(* ... equal to the formula under the symmetry hypothesis (auto-correlations) ... *)
Lemma shortcut_fn_ext n second (G G' D : RMr) i j : (i < n)%nat -> (j < n)%nat ->
  (forall k l, (k < n)%nat -> (l < n)%nat -> rmget RO G k l = rmget RO G' k l) ->
  cumulant_shortcut_fn RO n second G D i j = cumulant_shortcut_fn RO n second G' D i j.
Proof.
  intros Hi Hj H. unfold cumulant_shortcut_fn. rewrite (H j i) by auto.
  replace (masked_diag_sum RO n (diag_idx i) G) with (masked_diag_sum RO n (diag_idx i) G'); [reflexivity|].
  unfold masked_diag_sum. apply sumn_ext. intros m Hm. rewrite H by auto. reflexivity.
Qed.
Theorem shortcut_prefix_eq_general_symmetric second (G D : RMr) i j : (i < 4)%nat -> (j < 4)%nat -> rm_symmetric 4 G ->
  cumulant_shortcut_prefix_fn 4 second G D i j =
  rmget RO (cumulant_general RO 4 (four_traces_arr RO 2 (pair_products RO 2 pauli_basis) 4) second G D) i j.
Proof.
  intros Hi Hj Hs. rewrite shortcut_prefix_is_transposed by auto.
  rewrite <- shortcut_eq_general by auto. unfold cumulant_shortcut. rewrite rmget_rmbuild by auto.
  apply shortcut_fn_ext; auto. intros k l Hk Hl. rewrite rmget_transpose by auto. symmetry. apply Hs; auto.
Qed.
(* ... and refuted without it (decay amplitudes of a cross-correlated pair / of two different pulses) *)
Definition Gcross : RMr := [[0;0;0;0]; [0;0;1;0]; [0;0;0;0]; [0;0;0;0]].
Theorem shortcut_prefix_cross_refuted :
  exists (G D : RMr) i j, (i < 4)%nat /\ (j < 4)%nat /\
    cumulant_shortcut_prefix_fn 4 false G D i j <>
    rmget RO (cumulant_general RO 4 (four_traces_arr RO 2 (pair_products RO 2 pauli_basis) 4) false G D) i j.
Proof.
  exists Gcross, Gcross, 1%nat, 2%nat. split. lia. split. lia.
  rewrite <- shortcut_eq_general by lia. unfold cumulant_shortcut. rewrite rmget_rmbuild by lia.
  unfold cumulant_shortcut_prefix_fn, cumulant_shortcut_fn, rmget, Gcross. simpl. lra.
Qed.
