(* C06: closed statements about a successful remap (premise: the model returns [Some r]). *)
From Coq Require Import String ZArith Reals List Lra Lia Arith Bool Permutation Sorted.
From FF Require Import Base.Ops Inst.RInst Base.RAlg Spec.Kron2 Spec.DigitPerm Spec.StrSort
     Model.Numeric Model.Remap Proofs.RemapIdx Proofs.RemapCov Proofs.Remap.
Import ListNotations.
Local Open Scope nat_scope.

Definition wf_pulse (p : rpulse) : Prop :=
  (List.length (c_opers p) = List.length (c_ids p) /\ List.length (c_coeffs p) = List.length (c_ids p)) /\
  (List.length (n_opers p) = List.length (n_ids p) /\ List.length (n_coeffs p) = List.length (n_ids p)).

Section Final.
Variables (p r : rpulse) (order : list nat) (dq : nat) (mapping : option (list (string * string))).
Hypothesis Hr : rremap p order dq mapping = Some r.
Hypothesis Hdq : 0 < dq.
Hypothesis Hwf : wf_pulse p.
Local Notation N := (ilog dq (p_d p)).
Local Notation D := (dq ^ N).
Local Notation tau := (tt_src dq N order).
Local Notation K := (4 ^ N).
Local Notation pi := (dperm 4 N order).

(* operators, coefficients, Hamiltonian *)
Theorem remap_structure_final :
  is_perm N order /\ D = p_d p /\ p_d r = p_d p /\ p_dt r = p_dt p /\
  exists cidx nidx,
    is_perm (List.length (c_ids p)) cidx /\ is_perm (List.length (n_ids p)) nidx /\
    nrel D tau (List.length (c_ids p)) (fun a => nth a cidx 0) (c_opers p) (c_opers r) /\
    nrel D tau (List.length (n_ids p)) (fun a => nth a nidx 0) (n_opers p) (n_opers r) /\
    (forall a, a < List.length (c_ids p) -> nth a (c_coeffs r) [] = nth (nth a cidx 0) (c_coeffs p) []) /\
    (forall a, a < List.length (n_ids p) -> nth a (n_coeffs r) [] = nth (nth a nidx 0) (n_coeffs p) []) /\
    (forall g, feq D (ham (c_opers r) (c_coeffs r) g) (gather2 tau (ham (c_opers p) (c_coeffs p) g))) /\
    (* identifiers: mapped, then sorted *)
    (forall m, mapping = Some m ->
       (forall a, a < List.length (n_ids p) ->
          lookup m (nth (nth a nidx 0) (n_ids p) EmptyString) = Some (nth a (n_ids r) EmptyString)) /\
       (forall a, a < List.length (c_ids p) ->
          lookup m (nth (nth a cidx 0) (c_ids p) EmptyString) = Some (nth a (c_ids r) EmptyString)) /\
       StronglySorted (fun a b => String.leb a b = true) (n_ids r) /\
       StronglySorted (fun a b => String.leb a b = true) (c_ids r)) /\
    (mapping = None -> n_ids r = n_ids p /\ c_ids r = c_ids p).
Proof.
  destruct (remap_inv _ _ _ _ _ Hr) as [cids [nids [cidx [nidx Fk]]]]. destruct Hwf as [wc wn].
  split. apply (rf_perm _ _ _ _ _ _ _ _ _ _ Fk). split. apply (rf_dim _ _ _ _ _ _ _ _ _ _ Fk).
  split. apply (rf_d _ _ _ _ _ _ _ _ _ _ Fk). split. apply (rf_dt _ _ _ _ _ _ _ _ _ _ Fk).
  exists cidx, nidx.
  pose proof (cidx_perm _ _ _ _ _ _ _ _ _ _ Fk wc wn) as Pc. pose proof (nidx_perm _ _ _ _ _ _ _ _ _ _ Fk wc wn) as Pn.
  split; [exact Pc|]. split; [exact Pn|].
  split. apply (remap_c_opers _ _ _ _ _ _ _ _ _ _ Fk Hdq wc wn).
  split. apply (remap_n_opers _ _ _ _ _ _ _ _ _ _ Fk Hdq wc wn).
  split. apply (remap_c_coeffs _ _ _ _ _ _ _ _ _ _ Fk wc wn).
  split. apply (remap_n_coeffs _ _ _ _ _ _ _ _ _ _ Fk wc wn).
  split. apply (remap_hamiltonian _ _ _ _ _ _ _ _ _ _ Fk Hdq wc wn).
  pose proof (rf_cmap _ _ _ _ _ _ _ _ _ _ Fk) as Mc. pose proof (rf_nmap _ _ _ _ _ _ _ _ _ _ Fk) as Mn.
  pose proof (is_perm_length _ _ Pc) as Lc. pose proof (is_perm_length _ _ Pn) as Ln.
  assert (SS : forall (ks : list string) idx, StronglySorted (kle (fun i => nth i ks EmptyString)) idx ->
            StronglySorted (fun a b => String.leb a b = true) (sel EmptyString ks idx)).
  { intros ks idx. induction 1; simpl; constructor; auto.
    apply Forall_forall. intros y Hy. unfold sel in Hy. apply in_map_iff in Hy. destruct Hy as [x [<- Hx]].
    rewrite Forall_forall in H0. apply (H0 x Hx). }
  split.
  - intros m ->. unfold map_identifiers in Mc, Mn.
    destruct (lookup_all m (c_ids p)) as [cids'|] eqn:Ec; try discriminate. destruct (nodup_str cids') eqn:Dc; try discriminate.
    destruct (lookup_all m (n_ids p)) as [nids'|] eqn:En; try discriminate. destruct (nodup_str nids') eqn:Dn; try discriminate.
    inversion Mc; inversion Mn; subst.
    rewrite (rf_nids _ _ _ _ _ _ _ _ _ _ Fk), (rf_cids _ _ _ _ _ _ _ _ _ _ Fk).
    split; [|split; [|split]].
    + intros a Ha. rewrite nth_sel by lia. apply lookup_all_nth; auto. eapply is_perm_nth_lt; eauto.
    + intros a Ha. rewrite nth_sel by lia. apply lookup_all_nth; auto. eapply is_perm_nth_lt; eauto.
    + apply SS, argsort_sorted.
    + apply SS, argsort_sorted.
  - intros ->. simpl in Mc, Mn. inversion Mc; inversion Mn; subst.
    rewrite (rf_nids _ _ _ _ _ _ _ _ _ _ Fk), (rf_cids _ _ _ _ _ _ _ _ _ _ Fk). split; apply sel_seq; auto.
Qed.

(* with an identifier mapping the new identifiers are distinct (mappings that are not one-to-one are rejected) *)
Theorem remap_ids_nodup_final m : mapping = Some m -> NoDup (c_ids r) /\ NoDup (n_ids r).
Proof.
  intros ->. destruct (remap_inv _ _ _ _ _ Hr) as [cids [nids [cidx [nidx Fk]]]].
  pose proof (rf_cmap _ _ _ _ _ _ _ _ _ _ Fk) as Mc. pose proof (rf_nmap _ _ _ _ _ _ _ _ _ _ Fk) as Mn.
  pose proof (map_identifiers_nodup _ _ _ _ Mc) as Dc. pose proof (map_identifiers_nodup _ _ _ _ Mn) as Dn.
  apply map_identifiers_perm in Mc. apply map_identifiers_perm in Mn. destruct Mc as [Lc Pc]. destruct Mn as [Ln Pn].
  rewrite (rf_cids _ _ _ _ _ _ _ _ _ _ Fk), (rf_nids _ _ _ _ _ _ _ _ _ _ Fk). split.
  - eapply Permutation_NoDup. apply Permutation_sym. eapply sel_permutation; eauto. auto.
  - eapply Permutation_NoDup. apply Permutation_sym. eapply sel_permutation; eauto. auto.
Qed.

Theorem remap_spectral_final evs' Vs' : eigvals r = Have evs' -> eigvecs r = Have Vs' ->
  exists evs Vs, eigvals p = Have evs /\ eigvecs p = Have Vs /\
    Forall2 (vrel D tau) evs evs' /\ Forall2 (mrel D tau) Vs Vs' /\
    forall g, valid_eig D (ham (c_opers p) (c_coeffs p) g) (nthv evs g) (nthm Vs g) ->
              valid_eig D (ham (c_opers r) (c_coeffs r) g) (nthv evs' g) (nthm Vs' g).
Proof.
  destruct (remap_inv _ _ _ _ _ Hr) as [cids [nids [cidx [nidx Fk]]]]. destruct Hwf as [wc wn].
  apply (remap_spectral _ _ _ _ _ _ _ _ _ _ Fk Hdq wc wn).
Qed.

Theorem remap_propagators_final evs' Vs' Qs' :
  eigvals r = Have evs' -> eigvecs r = Have Vs' -> propagators r = Have Qs' ->
  exists evs Vs Qs, eigvals p = Have evs /\ eigvecs p = Have Vs /\ propagators p = Have Qs /\
    (Forall2 (meq D) Qs (Numeric.propagators RO D evs Vs (p_dt p)) ->
     Forall2 (meq D) Qs' (Numeric.propagators RO D evs' Vs' (p_dt r))).
Proof.
  destruct (remap_inv _ _ _ _ _ Hr) as [cids [nids [cidx [nidx Fk]]]].
  apply (remap_propagators _ _ _ _ _ _ _ _ _ _ Fk Hdq).
Qed.

Theorem remap_total_propagator_final U' : total_propagator r = Have U' ->
  exists U, total_propagator p = Have U /\ mrel D tau U U'.
Proof.
  destruct (remap_inv _ _ _ _ _ Hr) as [cids [nids [cidx [nidx Fk]]]].
  apply (remap_total_propagator _ _ _ _ _ _ _ _ _ _ Fk Hdq).
Qed.

Theorem remap_phases_final ph : total_phases r = Have ph -> total_phases p = Have ph /\ omega r = omega p.
Proof.
  destruct (remap_inv _ _ _ _ _ Hr) as [cids [nids [cidx [nidx Fk]]]].
  apply (remap_phases _ _ _ _ _ _ _ _ _ _ Fk).
Qed.

(* qubits and a Pauli basis *)
Variables (sigma : nat -> fmat) (nrm : nat -> Cx) (basis : list (Mat (T:=R))) (thr : R).
Hypothesis Hq : dq = 2.
Hypothesis Hbasis : basis_is_pauli sigma nrm N basis.

Lemma basis_hyp : List.length basis = K /\ forall k, k < K -> mrel D tau (nthm basis k) (nthm basis (pi k)).
Proof.
  destruct (remap_inv _ _ _ _ _ Hr) as [cids [nids [cidx [nidx Fk]]]].
  split. apply Hbasis. pose proof (rf_perm _ _ _ _ _ _ _ _ _ _ Fk) as Hp.
  assert (E : forall d', d' = 2 -> forall k, k < K -> mrel (d' ^ N) (tt_src d' N order) (nthm basis k) (nthm basis (pi k))).
  { intros d' ->. apply (pauli_basis_cov sigma nrm); auto. }
  apply E; exact Hq.
Qed.

Theorem remap_control_matrix_final Bm' : control_matrix r = Have Bm' ->
  exists Bm, control_matrix p = Have Bm /\ omega r = omega p /\
    (is_arr (List.length (n_ids p)) K Bm ->
       (exists nidx, is_perm (List.length (n_ids p)) nidx /\
          brel (List.length (n_ids p)) K (fun a => nth a nidx 0) pi (List.length (hd [] (hd [] Bm))) Bm Bm') /\
       forall evs Vs om, a3eq (List.length (n_ids p)) K (List.length om) Bm (cm_scratch basis thr p evs Vs om) ->
         a3eq (List.length (n_ids p)) K (List.length om) Bm'
              (cm_scratch basis thr r (map (tt1 0%R dq N order) evs) (map (tt2 0c dq N order) Vs) om)).
Proof.
  intros E. destruct (remap_inv _ _ _ _ _ Hr) as [cids [nids [cidx [nidx Fk]]]]. destruct Hwf as [wc wn].
  destruct basis_hyp as [HK HB].
  destruct (remap_control_matrix _ _ _ _ _ _ _ _ _ _ Fk Hdq wc wn basis thr Hq HK HB Bm' E) as [Bm [E1 [E2 H]]].
  exists Bm. split; auto. split; auto. intros HA. destruct (H HA) as [H1 H2]. split; auto.
  exists nidx. split; auto. apply (nidx_perm _ _ _ _ _ _ _ _ _ _ Fk wc wn).
Qed.

Theorem remap_filter_function_final Fm' : filter_function r = Have Fm' ->
  exists Fm, filter_function p = Have Fm /\ omega r = omega p /\
    (List.length Fm = List.length (n_ids p) ->
     forall evs Vs om,
       a3eq (List.length (n_ids p)) (List.length (n_ids p)) (List.length om) Fm
         (Numeric.filter_function RO (List.length (n_ids p)) K (List.length om) (cm_scratch basis thr p evs Vs om)) ->
       a3eq (List.length (n_ids p)) (List.length (n_ids p)) (List.length om) Fm'
         (Numeric.filter_function RO (List.length (n_ids p)) K (List.length om)
            (cm_scratch basis thr r (map (tt1 0%R dq N order) evs) (map (tt2 0c dq N order) Vs) om))).
Proof.
  intros E. destruct (remap_inv _ _ _ _ _ Hr) as [cids [nids [cidx [nidx Fk]]]]. destruct Hwf as [wc wn].
  destruct basis_hyp as [HK HB].
  destruct (remap_filter_function _ _ _ _ _ _ _ _ _ _ Fk Hdq wc wn basis Hq HK Fm' E) as [Fm [E1 [E2 H]]].
  exists Fm. split; auto. split; auto. intros LF evs Vs om HF.
  apply (H LF (List.length om) (cm_scratch basis thr p evs Vs om)); auto.
  apply (cm_scratch_rel _ _ _ _ _ _ _ _ _ _ Fk Hdq wc wn basis thr Hq HK HB).
Qed.

Theorem remap_liouville_final L' : tpl r = Have L' ->
  exists L, tpl p = Have L /\
    (is_arr K K L -> forall U, req K L (liouville RO D U basis) ->
       req K L' (liouville RO D (tt2 0c dq N order U) basis)).
Proof.
  intros E. destruct (remap_inv _ _ _ _ _ Hr) as [cids [nids [cidx [nidx Fk]]]]. destruct Hwf as [wc wn].
  destruct basis_hyp as [HK HB].
  destruct (remap_liouville _ _ _ _ _ _ _ _ _ _ Fk Hdq wc wn basis Hq HK HB L' E) as [L [E1 H]].
  exists L. split; auto. intros HA U HU. apply (H HA U); auto.
  apply mrel_tt2; auto. apply (rf_perm _ _ _ _ _ _ _ _ _ _ Fk).
Qed.
End Final.
