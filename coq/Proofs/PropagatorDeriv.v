(* C02: the model of propagator_at_arb_t ITSELF (selection by searchsorted included) is differentiable inside
   every segment and satisfies the Schroedinger equation there, entrywise.                                  *)
From Coq Require Import ZArith Reals Lra Lia List Morphisms Setoid.
From Coquelicot Require Import Coquelicot.
From FF Require Import Base.Ops Inst.RInst Base.RAlg Model.Numeric Model.Propagator Proofs.MatAlg Proofs.Propagator.
Import ListNotations.
Local Open Scope R_scope.

Lemma cderive_ext_loc (f g : R -> Cx) x l : locally x (fun t => f t = g t) -> cderive f x l -> cderive g x l.
Proof.
  intros H [H1 H2]. split.
  - apply (is_derive_ext_loc (fun t => fst (f t))); auto.
    destruct H as [eps He]. exists eps. intros y Hy. rewrite (He y Hy). reflexivity.
  - apply (is_derive_ext_loc (fun t => snd (f t))); auto.
    destruct H as [eps He]. exists eps. intros y Hy. rewrite (He y Hy). reflexivity.
Qed.

Theorem arb_t_schroedinger d evs Vs dts : length Vs = length evs -> length dts = length evs ->
  (forall g, (g < length evs)%nat -> funitary d (toF (nth g Vs []))) ->
  forall g t i j, (g < length evs)%nat -> (i < d)%nat -> (j < d)%nat -> nondecr (times RO dts) ->
  t_ dts g < t -> t < t_ dts (S g) ->
  cderive (fun tq => arb_entry d evs Vs dts i j tq) t
          (fscal (cneg' ic) (fmul d (H_ d evs Vs g)
             (toF (propagator_at_arb_t RO d evs Vs (propagators RO d evs Vs dts) (times RO dts) t))) i j).
Proof.
  intros HLV HLd HU g t i j Hg Hi Hj Hs H1 H2.
  assert (E : feq d (fscal (cneg' ic) (fmul d (H_ d evs Vs g)
                 (toF (propagator_at_arb_t RO d evs Vs (propagators RO d evs Vs dts) (times RO dts) t))))
                    (fscal (cneg' ic) (fmul d (H_ d evs Vs g) (U_ d evs Vs dts g t)))).
  { rewrite (arb_t_in_segment d evs Vs dts HLV HLd g t Hg Hs H1) by lra. reflexivity. }
  rewrite (E i j Hi Hj).
  apply (cderive_ext_loc (fun s => U_ d evs Vs dts g s i j)).
  - assert (Hpos : 0 < Rmin (t - t_ dts g) (t_ dts (S g) - t)) by (apply Rmin_pos; lra).
    exists (mkposreal _ Hpos). intros y Hy.
    unfold ball in Hy. simpl in Hy. unfold AbsRing_ball, abs, minus, plus, opp in Hy. simpl in Hy.
    apply Rabs_lt_between in Hy.
    pose proof (Rmin_l (t - t_ dts g) (t_ dts (S g) - t)). pose proof (Rmin_r (t - t_ dts g) (t_ dts (S g) - t)).
    unfold arb_entry. symmetry. apply (arb_t_in_segment d evs Vs dts HLV HLd g y Hg Hs); auto; lra.
  - apply U_schroedinger; assumption.
Qed.
