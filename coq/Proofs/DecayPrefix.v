(* The infidelity of the package BEFORE fix 2891db3 (kept for the `_prefix_refuted` witnesses and
   for the theorem that the removed trace-tensor branch computed the same value as the present
   rank-one correction): traceless branch = plain fidelity filter function, non-traceless branch =
   einsum('ako,blo,kl->abo', conj B, B, traces_diag)/d, correlations branch uncorrected.          *)
From Coq Require Import ZArith Reals List Bool.
From FF Require Import Base.Ops Inst.RInst Base.RAlg Model.Numeric Model.Decay.
Import ListNotations.
Local Open Scope R_scope.

Section Prefix.
Variable d : nat.
Notation MatR := (Mat (T:=R)).
Notation A3r := (Arr3 (T:=R)).

(* traces_diag = diagonal(traces, axis1=2, axis2=3).sum(-1) - diagonal(traces, axis1=1, axis2=3).sum(-1) *)
Definition traces_diag (P : list (list MatR)) (n : nat) (k l : nat) : Cx :=
  csub' (csumn' n (fun i => four_trace RO d P k l i i)) (csumn' n (fun i => four_trace RO d P k i l i)).
Definition traces_diag_arr (P : list (list MatR)) (n : nat) : list (list Cx) :=
  build n (fun k => build n (fun l => traces_diag P n k l)).
Definition infid_ff_traceless (na nk no : nat) (Bm : A3r) : A3r := filter_function RO na nk no Bm.
Definition infid_ff_general (na nk no : nat) (Bm : A3r) (td : list (list Cx)) : A3r :=
  a3build na na no (fun a b o =>
    cdivr RO (csumn' nk (fun k => csumn' nk (fun l =>
       cmul' (cmul' (cconj' (a3get RO Bm a k o)) (a3get RO Bm b l o)) (nth l (nth k td []) 0c))))
      (dnat RO d)).
Definition infidelity_total_prefix (istraceless : bool) (na nk no : nat) (Bm : A3r) (basis : list MatR)
           (idx : list nat) (sp : spectrum (T:=R)) (omega : list R) : list R :=
  let F := if istraceless then infid_ff_traceless na nk no Bm
           else infid_ff_general na nk no Bm (traces_diag_arr (pair_products RO d basis) nk) in
  infid_of_ff RO d F idx sp no omega.
End Prefix.
