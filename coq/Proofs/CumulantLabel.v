(* C09, part 3: the guard of the d = 2 shortcut.
   After fix 63446ae the guard also requires basis == Basis.pauli(1); then the shortcut is sound
   for every basis it is applied to ([shortcut_guard_sound]: whatever the label, the two branches
   agree on a basis whose entries are those of the Pauli basis, all Gamma, Delta).
   The pre-fix guard looked at the btype LABEL only: a complete orthonormal Hermitian d = 2 basis
   that is not traceless ( |0><0|, |1><1|, X/sqrt2, Y/sqrt2 ), labelled 'Pauli', was sent through
   the shortcut and got a cumulant function different from the trace-tensor formula
   ([label_prefix_refuted]); the fixed guard rejects it.                                     *)
From Coq Require Import ZArith Reals Lra Lia List Bool Setoid Morphisms.
From FF Require Import Base.Ops Inst.RInst Base.RAlg Base.FMat Model.Numeric Model.Decay Model.Cumulant
     Proofs.Trapz Proofs.TraceId Proofs.PauliOnb Proofs.CumulantAlg Proofs.CumulantPauli.
Import ListNotations.
Local Open Scope R_scope.

Definition nt_basis : list MatR :=
  [ [[(1, 0); (0, 0)]; [(0, 0); (0, 0)]];          (* |0><0| *)
    [[(0, 0); (0, 0)]; [(0, 0); (1, 0)]];          (* |1><1| *)
    [[(0, 0); (sP, 0)]; [(sP, 0); (0, 0)]];        (* X/sqrt2 *)
    [[(0, 0); (0, - sP)]; [(0, sP); (0, 0)]] ].    (* Y/sqrt2 *)
Definition nt_Cb : nat -> fmat := fun k => toF (nthm nt_basis k).

Ltac two i := destruct i as [|[|i]]; [ | | exfalso; lia].

Lemma nt_herm : basis_herm 2 4 nt_Cb.
Proof. intros k Hk i j Hi Hj. destruct k as [|[|[|[|k]]]]; try lia; two i; two j; apply c_eq; csimp; ring. Qed.
Lemma nt_orthonormal : basis_orthonormal 2 4 nt_Cb.
Proof.
  intros k l Hk Hl. destruct k as [|[|[|[|k]]]]; try lia; destruct l as [|[|[|[|l]]]]; try lia;
    apply c_eq; unfold ftr, fmul, nt_Cb, toF, mget, nthm; csimp; ring_simplify; rewrite ?sP_sq'; lra.
Qed.
Lemma nt_complete : basis_complete 2 4 nt_Cb.
Proof.
  intros X i j Hi Hj. unfold fsum, fscal, fid, ftr, fmul, nt_Cb, toF, mget, nthm.
  two i; two j; apply c_eq; csimp; ring_simplify; rewrite ?sP_sq'; lra.
Qed.
Lemma nt_not_traceless : ftr 2 (nt_Cb 0) = 1c.
Proof. apply c_eq; unfold ftr, nt_Cb, toF, mget, nthm; csimp; ring. Qed.

(* decay amplitudes with the single entry Gamma_XX = 1 *)
Definition Gxx : RMr := [[0;0;0;0]; [0;0;0;0]; [0;0;1;0]; [0;0;0;0]].

Lemma general_nt_00 : cumulant_general_fn RO 4 (T4 2 nt_Cb) false Gxx Gxx 0 0 = - / 2.
Proof.
  unfold cumulant_general_fn, K1_entry, contract, half, T4, ftr, fmul, nt_Cb, toF, mget, nthm, rmget, Gxx.
  simpl. csimp. field_simplify. rewrite sP_sq'. lra.
Qed.

(* the pre-fix guard: d == 2 and btype in ('Pauli', 'GGM') *)
Definition use_shortcut_prefix (d : nat) (bt : btype) : bool :=
  Nat.eqb d 2 && match bt with BPauli | BGGM => true | BCustom => false end.

Theorem label_prefix_refuted :
  exists (basis : list MatR) (G D : RMr) i j,
    let n := length basis in let Cb := fun k => toF (nthm basis k) in
    basis_herm 2 n Cb /\ basis_orthonormal 2 n Cb /\ basis_complete 2 n Cb /\
    use_shortcut_prefix 2 BPauli = true /\ (i < n)%nat /\ (j < n)%nat /\
    rmget RO (nth 0 (cumulant_function RO 2 (use_shortcut_prefix 2 BPauli) n basis false [G] [D]) []) i j <>
    rmget RO (nth 0 (cumulant_function RO 2 false n basis false [G] [D]) []) i j.
Proof.
  exists nt_basis, Gxx, Gxx, 0%nat, 0%nat. cbv zeta.
  split. exact nt_herm. split. exact nt_orthonormal. split. exact nt_complete.
  split. reflexivity. split. simpl; lia. split. simpl; lia.
  change (length nt_basis) with 4%nat.
  unfold cumulant_function. simpl use_shortcut_prefix. cbv iota. simpl combine. simpl map. simpl nth.
  unfold cumulant_general, cumulant_shortcut. rewrite !rmget_rmbuild by lia.
  rewrite (cumulant_general_fn_ext 4 _ (T4 2 nt_Cb)) by (try lia; intros; apply (a4get_four_traces 2 nt_basis); auto).
  rewrite general_nt_00. unfold cumulant_shortcut_fn. simpl. lra.
Qed.

(* ---------- the fixed guard is sound ---------- *)
(* the verdict [pulse.basis.shape == (4,2,2) and pulse.basis == Basis.pauli(1)] read as equality of entries *)
Definition is_pauli1 (basis : list MatR) : Prop :=
  length basis = 4%nat /\ forall k, (k < 4)%nat -> feq 2 (toF (nthm basis k)) (pauli_Cb k).

Lemma T4_ext d n (Cb Cb' : nat -> fmat) : (forall k, (k < n)%nat -> feq d (Cb k) (Cb' k)) ->
  forall i j k l, (i < n)%nat -> (j < n)%nat -> (k < n)%nat -> (l < n)%nat -> T4 d Cb i j k l = T4 d Cb' i j k l.
Proof. intros H i j k l Hi Hj Hk Hl. unfold T4. rewrite (H i), (H j), (H k), (H l) by auto. reflexivity. Qed.

(* whatever the label says: on a basis that IS the Pauli basis the shortcut equals the general branch,
   for all decay amplitudes and frequency shifts, first and second order *)
Theorem shortcut_guard_sound (basis : list MatR) second (G D : RMr) i j :
  is_pauli1 basis -> (i < 4)%nat -> (j < 4)%nat ->
  rmget RO (nth 0 (cumulant_function RO 2 true 4 basis second [G] [D]) []) i j =
  rmget RO (nth 0 (cumulant_function RO 2 false 4 basis second [G] [D]) []) i j.
Proof.
  intros [Hlen Heq] Hi Hj. unfold cumulant_function. simpl combine. simpl map. simpl nth.
  rewrite shortcut_eq_general by auto.
  unfold cumulant_general. rewrite !rmget_rmbuild by auto.
  rewrite (cumulant_general_fn_ext 4 _ (T4 2 pauli_Cb)) by (auto; intros; apply (a4get_four_traces 2 pauli_basis); auto).
  symmetry.
  rewrite (cumulant_general_fn_ext 4 _ (T4 2 pauli_Cb)); auto.
  intros p q r s Hp Hq Hr Hs.
  rewrite <- Hlen at 1.
  rewrite (a4get_four_traces 2 basis) by (rewrite Hlen; auto).
  apply (T4_ext 2 4); auto.
Qed.

(* the fixed guard: the label alone is not enough, and the mislabelled basis above is rejected *)
Theorem guard_requires_basis : forall d bt, use_shortcut d bt false = false.
Proof. intros d bt. unfold use_shortcut. destruct (Nat.eqb d 2), bt; reflexivity. Qed.
Theorem nt_basis_is_not_pauli1 : ~ is_pauli1 nt_basis.
Proof.
  intros [_ H]. specialize (H 0%nat ltac:(lia) 1%nat 1%nat ltac:(lia) ltac:(lia)).
  unfold toF, nthm, nt_basis, pauli_Cb, pauli_basis, mget in H. simpl in H. injection H as H.
  assert (0 < sP) by (unfold sP; apply Rinv_0_lt_compat, sqrt_lt_R0; lra). lra.
Qed.
