(* C09, part 3: the guard of the d = 2 shortcut is the btype LABEL.  A complete orthonormal
   Hermitian d = 2 basis that is not traceless ( |0><0|, |1><1|, X/sqrt2, Y/sqrt2 ), labelled
   'Pauli', is sent through the shortcut and gets a cumulant function that differs from the
   trace-tensor formula.                                                                    *)
From Coq Require Import ZArith Reals Lra Lia List Bool Setoid Morphisms.
From FF Require Import Base.Ops Inst.RInst Base.RAlg Base.FMat Model.Numeric Model.Decay Model.Cumulant
     Proofs.Trapz Proofs.TraceId Proofs.PauliEx Proofs.CumulantAlg Proofs.CumulantPauli.
Import ListNotations.
Local Open Scope R_scope.

Definition nt_basis : list MatR :=
  [ [[(1, 0); (0, 0)]; [(0, 0); (0, 0)]];          (* |0><0| *)
    [[(0, 0); (0, 0)]; [(0, 0); (1, 0)]];          (* |1><1| *)
    [[(0, 0); (sP, 0)]; [(sP, 0); (0, 0)]];        (* X/sqrt2 *)
    [[(0, 0); (0, - sP)]; [(0, sP); (0, 0)]] ].    (* Y/sqrt2 *)
Definition nt_Cb : nat -> fmat := fun k => toF (nthm nt_basis k).

Ltac two i := destruct i as [|[|i]]; [ | | exfalso; lia].

Lemma nt_herm : basis_herm 2 4 nt_Cb.
Proof. intros k Hk i j Hi Hj. destruct k as [|[|[|[|k]]]]; try lia; two i; two j; apply c_eq; csimp; ring. Qed.
Lemma nt_orthonormal : basis_orthonormal 2 4 nt_Cb.
Proof.
  intros k l Hk Hl. destruct k as [|[|[|[|k]]]]; try lia; destruct l as [|[|[|[|l]]]]; try lia;
    apply c_eq; unfold ftr, fmul, nt_Cb, toF, mget, nthm; csimp; ring_simplify; rewrite ?sP_sq'; lra.
Qed.
Lemma nt_complete : basis_complete 2 4 nt_Cb.
Proof.
  intros X i j Hi Hj. unfold fsum, fscal, fid, ftr, fmul, nt_Cb, toF, mget, nthm.
  two i; two j; apply c_eq; csimp; ring_simplify; rewrite ?sP_sq'; lra.
Qed.
Lemma nt_not_traceless : ftr 2 (nt_Cb 0) = 1c.
Proof. apply c_eq; unfold ftr, nt_Cb, toF, mget, nthm; csimp; ring. Qed.

(* decay amplitudes with the single entry Gamma_XX = 1 *)
Definition Gxx : RMr := [[0;0;0;0]; [0;0;0;0]; [0;0;1;0]; [0;0;0;0]].

Lemma general_nt_00 : cumulant_general_fn RO 4 (T4 2 nt_Cb) false Gxx Gxx 0 0 = - / 2.
Proof.
  unfold cumulant_general_fn, K1_entry, contract, half, T4, ftr, fmul, nt_Cb, toF, mget, nthm, rmget, Gxx.
  simpl. csimp. field_simplify. rewrite sP_sq'. lra.
Qed.

Theorem label_refuted :
  exists (basis : list MatR) (G D : RMr) i j,
    let n := length basis in let Cb := fun k => toF (nthm basis k) in
    basis_herm 2 n Cb /\ basis_orthonormal 2 n Cb /\ basis_complete 2 n Cb /\
    use_shortcut 2 BPauli = true /\ (i < n)%nat /\ (j < n)%nat /\
    rmget RO (nth 0 (cumulant_function RO 2 (use_shortcut 2 BPauli) n basis false [G] [D]) []) i j <>
    rmget RO (nth 0 (cumulant_function RO 2 false n basis false [G] [D]) []) i j.
Proof.
  exists nt_basis, Gxx, Gxx, 0%nat, 0%nat. cbv zeta.
  split. exact nt_herm. split. exact nt_orthonormal. split. exact nt_complete.
  split. reflexivity. split. simpl; lia. split. simpl; lia.
  change (length nt_basis) with 4%nat.
  unfold cumulant_function. simpl use_shortcut. cbv iota. simpl combine. simpl map. simpl nth.
  unfold cumulant_general, cumulant_shortcut. rewrite !rmget_rmbuild by lia.
  rewrite (cumulant_general_fn_ext 4 _ (T4 2 nt_Cb)) by (try lia; intros; apply (a4get_four_traces 2 nt_basis); auto).
  rewrite general_nt_00. unfold cumulant_shortcut_fn. simpl. lra.
Qed.
