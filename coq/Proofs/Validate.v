(* C20: every descriptor of the documented domain is accepted (sound); every catalogued corruption at
   every position of a valid descriptor is rejected with the documented class (complete). *)
From Coq Require Import ZArith List Bool String PeanoNat Lia.
From FF Require Import Model.B64 Model.Pulse Model.Validate Proofs.PulseBase.
Import ListNotations.
Local Open Scope nat_scope.
Local Notation length := List.length (only parsing).

(* ------------------------------------------------------------------ lists with one replaced element *)
Lemma upd_len {A} (l : list A) i v : length (upd l i v) = length l.
Proof. revert i; induction l as [|x r IH]; intros [|i]; simpl; auto. Qed.
Lemma forallb_upd_false {A} (f : A -> bool) l i x : i < length l -> f x = false -> forallb f (upd l i x) = false.
Proof.
  revert i; induction l as [|y r IH]; intros [|i] Hi Hx; simpl in *; try lia.
  - rewrite Hx. reflexivity.
  - rewrite IH by (auto; lia). apply andb_false_r.
Qed.
Lemma forallb_upd_true {A} (f : A -> bool) l i x : forallb f l = true -> f x = true -> forallb f (upd l i x) = true.
Proof.
  revert i; induction l as [|y r IH]; intros [|i] Hl Hx; simpl in *; auto; apply andb_true_iff in Hl; destruct Hl as [H1 H2].
  - rewrite Hx, H2. reflexivity.
  - rewrite H1, IH; auto.
Qed.
Lemma map_upd {A B} (f : A -> B) l i x : map f (upd l i x) = upd (map f l) i (f x).
Proof. revert i; induction l as [|y r IH]; intros [|i]; simpl; auto. f_equal. apply IH. Qed.
Lemma upd_same {A} (l : list A) i d : upd l i (nth i l d) = l.
Proof. revert i; induction l as [|y r IH]; intros [|i]; simpl; auto. f_equal. apply IH. Qed.
Lemma upd_nil_iff {A} (l : list A) i x : upd l i x = [] <-> l = [].
Proof. destruct l, i; simpl; split; intros H; auto; discriminate. Qed.
Lemma forallb_Forall {A} (f : A -> bool) l : forallb f l = true <-> Forall (fun x => f x = true) l.
Proof. rewrite forallb_forall, Forall_forall. reflexivity. Qed.

(* all_eqb on constant lists *)
Lemma all_eqb_const {A} (eqb : A -> A -> bool) v l : eqb v v = true -> Forall (fun x => x = v) l -> all_eqb eqb l = true.
Proof.
  intros Hr H. induction H as [|x l Hx Hl IH]; [reflexivity|]. subst. destruct l as [|y r]; [reflexivity|].
  inversion Hl; subst. simpl. rewrite Hr. exact IH.
Qed.
Lemma all_eqb_upd_false {A} (eqb : A -> A -> bool) v w l i :
  (forall a b, eqb a b = eqb b a) -> eqb v w = false -> Forall (fun x => x = v) l -> 2 <= length l -> i < length l ->
  all_eqb eqb (upd l i w) = false.
Proof.
  intros Hs Hvw H. revert i. induction H as [|x l Hx Hl IH]; intros i H2 Hi; simpl in *; [lia|]. subst x.
  destruct l as [|y r]; simpl in *; [lia|]. inversion Hl; subst.
  destruct i as [|i]; simpl.
  - rewrite Hs, Hvw. reflexivity.
  - destruct i as [|i]; simpl.
    + rewrite Hvw. reflexivity.
    + destruct r as [|z r']; simpl in *; [lia|].
      specialize (IH (S i) ltac:(lia) ltac:(lia)). simpl in IH.
      destruct (eqb v v); simpl; auto.
Qed.

Lemma shape_eqb_refl s : shape_eqb s s = true.
Proof.
  unfold shape_eqb. rewrite Nat.eqb_refl. simpl. induction s; simpl; auto. rewrite Nat.eqb_refl. exact IHs.
Qed.
Lemma shape_eqb_sym s t : shape_eqb s t = shape_eqb t s.
Proof.
  unfold shape_eqb. rewrite (Nat.eqb_sym (length s)). f_equal.
  revert t; induction s as [|a s IH]; intros [|b t]; simpl; auto. rewrite (Nat.eqb_sym a), IH. reflexivity.
Qed.

Lemma shape_neq_l d : shape_eqb [S d; S d] [d; d] = false.
Proof. unfold shape_eqb. cbn [length all2]. replace (S d =? d) with false by (symmetry; apply Nat.eqb_neq; lia). reflexivity. Qed.
Lemma shape_neq_r d : shape_eqb [d; d] [S d; S d] = false.
Proof. rewrite shape_eqb_sym. apply shape_neq_l. Qed.

(* ------------------------------------------------------------------ constructor *)
Definition good_entry (d n : nat) (e : entry_d) : Prop :=
  e_islist e = true /\ okind_ok (o_kind (e_oper e)) = true /\ o_shape (e_oper e) = [d; d] /\ e_coeff e = Some n.
Definition valid_H (noise : bool) (d n : nat) (es : list entry_d) : Prop :=
  es <> [] /\ Forall (good_entry d n) es /\ (ids_explicit es = true -> uniqueb (entry_ids noise es) = true).
Definition valid_ctor (d : nat) (k : ctor_d) : Prop :=
  let n := length (dt_vals (k_dt k)) in
  dt_haslen (k_dt k) = true /\ (Forall (fun v => v = DPos \/ v = DZero) (dt_vals (k_dt k)) /\ dt_vals (k_dt k) <> []) /\
  (exists es, k_Hc k = HList es /\ valid_H false d n es) /\ (exists es, k_Hn k = HList es /\ valid_H true d n es) /\
  (k_basis k = BDefault \/ exists m, k_basis k = BBasis [m; d; d]).

Lemma good_opers d n es : es <> [] -> Forall (good_entry d n) es -> validate_opers (map e_oper es) = Ok [d; d].
Proof.
  intros Hne HF. unfold validate_opers.
  assert (H1 : forallb (fun o => okind_ok (o_kind o)) (map e_oper es) = true).
  { rewrite forallb_forall. intros o Ho. apply in_map_iff in Ho. destruct Ho as [e [<- He]].
    rewrite Forall_forall in HF. apply HF in He. apply He. }
  assert (H2 : all_eqb shape_eqb (map o_shape (map e_oper es)) = true).
  { apply (all_eqb_const _ [d; d]); [apply shape_eqb_refl|]. rewrite !Forall_map.
    eapply Forall_impl; [|exact HF]. intros e He. apply He. }
  rewrite H1, H2. simpl negb.
  destruct es as [|e r]; [congruence|]. inversion HF as [|? ? He _]; subst. destruct He as (_ & _ & Hs & _).
  simpl hd. rewrite Hs. simpl. rewrite Nat.eqb_refl. reflexivity.
Qed.

Theorem validate_H_sound noise d n es : valid_H noise d n es -> validate_H noise n (HList es) = Ok [d; d].
Proof.
  intros (Hne & HF & Hid). unfold validate_H.
  assert (H1 : forallb e_islist es = true).
  { rewrite forallb_forall. intros e He. rewrite Forall_forall in HF. apply HF in He. apply He. }
  rewrite H1. simpl negb. destruct es as [|e0 r] eqn:Ees; [congruence|]. rewrite <- Ees in *.
  rewrite (good_opers d n es Hne HF).
  assert (H2 : forallb (fun e => negb (is_none (e_coeff e))) es = true).
  { rewrite forallb_forall. intros e He. rewrite Forall_forall in HF. apply HF in He. destruct He as (_ & _ & _ & ->). reflexivity. }
  assert (H3 : forallb (fun e => match e_coeff e with Some m => m =? n | None => false end) es = true).
  { rewrite forallb_forall. intros e He. rewrite Forall_forall in HF. apply HF in He. destruct He as (_ & _ & _ & ->). apply Nat.eqb_refl. }
  rewrite H2, H3. simpl negb.
  destruct (ids_explicit es) eqn:E; simpl; [rewrite (Hid eq_refl); reflexivity | reflexivity].
Qed.

(* when the durations pass their tests the verdict is that of the rest of the parser *)
Lemma ctor_dt_ok k : dt_haslen (k_dt k) = true -> Forall (fun v => v = DPos \/ v = DZero) (dt_vals (k_dt k)) -> dt_vals (k_dt k) <> [] ->
  validate_ctor k = validate_ctor_rest k.
Proof.
  intros H1 H2 H3. unfold validate_ctor. rewrite H1.
  assert (L : (length (dt_vals (k_dt k)) =? 0) = false) by (destruct (dt_vals (k_dt k)); [congruence | reflexivity]).
  assert (R : forallb dtv_real (dt_vals (k_dt k)) = true).
  { rewrite forallb_forall. intros v Hv. rewrite Forall_forall in H2. destruct (H2 v Hv); subst; reflexivity. }
  assert (P : forallb dtv_nonneg (dt_vals (k_dt k)) = true).
  { rewrite forallb_forall. intros v Hv. rewrite Forall_forall in H2. destruct (H2 v Hv); subst; reflexivity. }
  rewrite L, R, P. reflexivity.
Qed.

Theorem validate_ctor_sound d k : valid_ctor d k -> validate_ctor k = ok.
Proof.
  intros (H1 & H2 & (ec & Ec & Vc) & (en & En & Vn) & Hb). rewrite ctor_dt_ok by tauto. unfold validate_ctor_rest.
  rewrite Ec, En, (validate_H_sound _ _ _ _ Vc), (validate_H_sound _ _ _ _ Vn).
  rewrite shape_eqb_refl. simpl.
  destruct Hb as [-> | [m ->]]; [reflexivity|]. simpl. rewrite shape_eqb_refl. reflexivity.
Qed.

(* --- corruptions of the durations, at every position *)
Theorem ctor_complete_dt_no_len d k : valid_ctor d k ->
  validate_ctor (Build_ctor_d (Build_dt_d false (dt_vals (k_dt k))) (k_Hc k) (k_Hn k) (k_basis k)) = Raise TypeError.
Proof. reflexivity. Qed.
Theorem ctor_complete_dt_empty d k : valid_ctor d k ->
  validate_ctor (Build_ctor_d (Build_dt_d true []) (k_Hc k) (k_Hn k) (k_basis k)) = Raise ValueError.
Proof. reflexivity. Qed.

(* a negative, complex or non-finite (nan, inf) duration at any position *)
Theorem ctor_complete_dt_value d k i v : valid_ctor d k -> i < length (dt_vals (k_dt k)) -> v = DNeg \/ v = DComplex \/ v = DNonFinite ->
  validate_ctor (Build_ctor_d (Build_dt_d true (upd (dt_vals (k_dt k)) i v)) (k_Hc k) (k_Hn k) (k_basis k)) = Raise ValueError.
Proof.
  intros (H1 & (H2 & H3) & _) Hi Hv. unfold validate_ctor. cbn [k_dt dt_haslen dt_vals check bind].
  assert (L : (length (upd (dt_vals (k_dt k)) i v) =? 0) = false) by (rewrite upd_len; apply Nat.eqb_neq; lia).
  rewrite L. cbn [negb check bind].
  assert (R : forallb dtv_real (dt_vals (k_dt k)) = true).
  { rewrite forallb_forall. intros w Hw. rewrite Forall_forall in H2. destruct (H2 w Hw); subst; reflexivity. }
  destruct Hv as [-> | [-> | ->]].
  - rewrite (forallb_upd_true dtv_real _ i DNeg R eq_refl). cbn [check bind].
    rewrite (forallb_upd_false dtv_nonneg _ i DNeg Hi eq_refl). reflexivity.
  - rewrite (forallb_upd_false dtv_real _ i DComplex Hi eq_refl). reflexivity.
  - rewrite (forallb_upd_true dtv_real _ i DNonFinite R eq_refl). cbn [check bind].
    rewrite (forallb_upd_false dtv_nonneg _ i DNonFinite Hi eq_refl). reflexivity.
Qed.

(* --- corruptions of one entry of a Hamiltonian, at every position *)
Inductive ecorr := ENotList | EOperBad | ENonSquare | E3D | ECoeffNoLen | ECoeffLen.
Definition apply_e (d n : nat) (c : ecorr) (e : entry_d) : entry_d :=
  match c with
  | ENotList => Build_entry_d false (e_oper e) (e_coeff e) (e_id e)
  | EOperBad => Build_entry_d (e_islist e) (Build_oper_d OBad (o_shape (e_oper e))) (e_coeff e) (e_id e)
  | ENonSquare => Build_entry_d (e_islist e) (Build_oper_d (o_kind (e_oper e)) [d; S d]) (e_coeff e) (e_id e)
  | E3D => Build_entry_d (e_islist e) (Build_oper_d (o_kind (e_oper e)) [2; d; d]) (e_coeff e) (e_id e)
  | ECoeffNoLen => Build_entry_d (e_islist e) (e_oper e) None (e_id e)
  | ECoeffLen => Build_entry_d (e_islist e) (e_oper e) (Some (S n)) (e_id e)
  end.
Definition ecorr_class (c : ecorr) : exn :=
  match c with ENotList | EOperBad | ECoeffNoLen => TypeError | _ => ValueError end.
Definition e0 : entry_d := Build_entry_d true (Build_oper_d OArray []) None IdAbsent.

Lemma ids_upd_same noise es i x : e_id x = e_id (nth i es e0) -> i < length es ->
  entry_ids noise (upd es i x) = entry_ids noise es /\ ids_explicit (upd es i x) = ids_explicit es.
Proof.
  intros Hid Hi.
  assert (E : map e_id (upd es i x) = map e_id es).
  { rewrite map_upd, Hid. rewrite <- (map_nth e_id es e0 i). apply upd_same. }
  split.
  - unfold entry_ids. f_equal. rewrite <- !(map_map e_id (fun h => (([] : mat), ([] : list num), h))). rewrite E. reflexivity.
  - unfold ids_explicit. f_equal.
    rewrite <- !(forallb_map e_id (fun h => match h with IdAbsent => true | _ => false end)) || idtac.
    assert (F : forall l, forallb (fun e => match e_id e with IdAbsent => true | _ => false end) l =
                          forallb (fun h => match h with IdAbsent => true | _ => false end) (map e_id l)).
    { induction l; simpl; auto. rewrite IHl. reflexivity. }
    rewrite !F, E. reflexivity.
Qed.

(* a shape that differs from [d; d] breaks the homogeneity of the stack, or (alone) fails its own test *)
Lemma opers_bad_shape d n es i x s :
  es <> [] -> Forall (good_entry d n) es -> i < length es ->
  okind_ok (o_kind (e_oper x)) = true -> o_shape (e_oper x) = s -> shape_eqb [d; d] s = false ->
  (2 <? length s) || negb (square s) = true ->
  validate_opers (map e_oper (upd es i x)) = Raise ValueError.
Proof.
  intros Hne HF Hi Hk Hs Hsd Hbad. unfold validate_opers.
  assert (H1 : forallb (fun o => okind_ok (o_kind o)) (map e_oper (upd es i x)) = true).
  { rewrite map_upd. apply forallb_upd_true; [|exact Hk].
    rewrite forallb_forall. intros o Ho. apply in_map_iff in Ho. destruct Ho as [e [<- He]].
    rewrite Forall_forall in HF. apply HF in He. apply He. }
  rewrite H1. simpl negb.
  destruct (Nat.le_gt_cases 2 (length es)) as [H2|H2].
  - assert (H3 : all_eqb shape_eqb (map o_shape (map e_oper (upd es i x))) = false).
    { rewrite !map_upd, Hs. apply (all_eqb_upd_false shape_eqb [d; d]); auto.
      - apply shape_eqb_sym.
      - rewrite !Forall_map. eapply Forall_impl; [|exact HF]. intros e He. apply He.
      - rewrite !map_length. exact H2.
      - rewrite !map_length. exact Hi. }
    rewrite H3. reflexivity.
  - destruct es as [|e [|e' r]]; simpl in *; try congruence; try lia.
    destruct i; [|lia]. simpl. rewrite Hs.
    destruct (2 <? length s) eqn:E2; [reflexivity|]. simpl in Hbad. rewrite Hbad. reflexivity.
Qed.

Theorem validate_H_complete noise d n es i c :
  valid_H noise d n es -> i < length es ->
  validate_H noise n (HList (upd es i (apply_e d n c (nth i es e0)))) = Raise (ecorr_class c).
Proof.
  intros (Hne & HF & Hid) Hi. unfold validate_H.
  assert (Hg : good_entry d n (nth i es e0)).
  { rewrite Forall_forall in HF. apply HF, nth_In, Hi. }
  destruct Hg as (G1 & G2 & G3 & G4).
  assert (L : forallb e_islist es = true).
  { rewrite forallb_forall. intros e He. rewrite Forall_forall in HF. apply HF in He. apply He. }
  destruct c; simpl apply_e; simpl ecorr_class.
  - (* not a list *) rewrite forallb_upd_false by (first [exact Hi | reflexivity]). reflexivity.
  - (* operator of a wrong type *)
    rewrite forallb_upd_true by (first [exact L | exact G1]). simpl negb.
    destruct (upd es i _) eqn:E; [apply upd_nil_iff in E; congruence|]. rewrite <- E.
    unfold validate_opers. rewrite map_upd.
    rewrite forallb_upd_false by (first [rewrite map_length; exact Hi | reflexivity]).
    reflexivity.
  - (* non-square operator *)
    rewrite forallb_upd_true by (first [exact L | exact G1]). simpl negb.
    match goal with |- context [upd es i ?x] => set (xx := x) end.
    destruct (upd es i xx) eqn:E; [apply upd_nil_iff in E; congruence|]. rewrite <- E.
    rewrite (opers_bad_shape d n es i xx [d; S d] Hne HF Hi G2 eq_refl).
    + reflexivity.
    + unfold shape_eqb. simpl. rewrite Nat.eqb_refl. simpl. replace (d =? S d) with false by (symmetry; apply Nat.eqb_neq; lia). reflexivity.
    + simpl. replace (d =? S d) with false by (symmetry; apply Nat.eqb_neq; lia). reflexivity.
  - (* three-dimensional operator *)
    rewrite forallb_upd_true by (first [exact L | exact G1]). simpl negb.
    match goal with |- context [upd es i ?x] => set (xx := x) end.
    destruct (upd es i xx) eqn:E; [apply upd_nil_iff in E; congruence|]. rewrite <- E.
    rewrite (opers_bad_shape d n es i xx [2; d; d] Hne HF Hi G2 eq_refl); reflexivity.
  - (* coefficients without length *)
    rewrite forallb_upd_true by (first [exact L | exact G1]). simpl negb.
    destruct (upd es i _) eqn:E; [apply upd_nil_iff in E; congruence|]. rewrite <- E.
    assert (O : map e_oper (upd es i (Build_entry_d (e_islist (nth i es e0)) (e_oper (nth i es e0)) None (e_id (nth i es e0)))) = map e_oper es).
    { rewrite map_upd. simpl. rewrite <- (map_nth e_oper es e0 i). apply upd_same. }
    rewrite O, (good_opers d n es Hne HF).
    rewrite forallb_upd_false by (first [exact Hi | reflexivity]). reflexivity.
  - (* coefficients of the wrong length *)
    rewrite forallb_upd_true by (first [exact L | exact G1]). simpl negb.
    destruct (upd es i _) eqn:E; [apply upd_nil_iff in E; congruence|]. rewrite <- E.
    assert (O : map e_oper (upd es i (Build_entry_d (e_islist (nth i es e0)) (e_oper (nth i es e0)) (Some (S n)) (e_id (nth i es e0)))) = map e_oper es).
    { rewrite map_upd. simpl. rewrite <- (map_nth e_oper es e0 i). apply upd_same. }
    rewrite O, (good_opers d n es Hne HF).
    assert (C : forallb (fun e => negb (is_none (e_coeff e))) es = true).
    { rewrite forallb_forall. intros e' He. rewrite Forall_forall in HF. apply HF in He. destruct He as (_ & _ & _ & ->). reflexivity. }
    rewrite forallb_upd_true by (first [exact C | reflexivity]). simpl negb.
    destruct (ids_upd_same noise es i (Build_entry_d (e_islist (nth i es e0)) (e_oper (nth i es e0)) (Some (S n)) (e_id (nth i es e0))) eq_refl Hi) as [I1 I2].
    rewrite I1, I2.
    assert (U : ids_explicit es && negb (uniqueb (entry_ids noise es)) = false).
    { destruct (ids_explicit es) eqn:Ee; simpl; auto. rewrite (Hid eq_refl). reflexivity. }
    rewrite U.
    rewrite forallb_upd_false; [reflexivity | exact Hi | cbv beta; cbn [e_coeff]; apply Nat.eqb_neq; lia].
Qed.

(* the same corruption inside a constructor call: control or noise Hamiltonian, every position *)
Theorem ctor_complete_entry d k (noise : bool) es i c :
  valid_ctor d k -> (if noise then k_Hn k else k_Hc k) = HList es -> i < length es ->
  validate_ctor (Build_ctor_d (k_dt k)
                   (if noise then k_Hc k else HList (upd es i (apply_e d (length (dt_vals (k_dt k))) c (nth i es e0))))
                   (if noise then HList (upd es i (apply_e d (length (dt_vals (k_dt k))) c (nth i es e0))) else k_Hn k)
                   (k_basis k)) = Raise (ecorr_class c).
Proof.
  intros (H1 & H2 & (ec & Ec & Vc) & (en & En & Vn) & Hb) HH Hi. rewrite ctor_dt_ok by (cbn [k_dt]; tauto). unfold validate_ctor_rest. cbn [k_dt k_Hc k_Hn k_basis]. destruct noise.
  - rewrite Ec, (validate_H_sound _ _ _ _ Vc). rewrite En in HH. inversion HH; subst en.
    rewrite (validate_H_complete true d _ es i c Vn Hi). reflexivity.
  - rewrite Ec in HH. inversion HH; subst ec.
    rewrite (validate_H_complete false d _ es i c Vc Hi). reflexivity.
Qed.

(* a Hamiltonian that is not a list, an empty one; a basis of the wrong type or dimension *)
Theorem ctor_complete_H_not_list d k (noise : bool) : valid_ctor d k ->
  validate_ctor (Build_ctor_d (k_dt k) (if noise then k_Hc k else HNotList) (if noise then HNotList else k_Hn k) (k_basis k)) = Raise TypeError.
Proof.
  intros (H1 & H2 & (ec & Ec & Vc) & _). rewrite ctor_dt_ok by (cbn [k_dt]; tauto). unfold validate_ctor_rest. cbn [k_dt k_Hc k_Hn k_basis]. destruct noise; [rewrite Ec, (validate_H_sound _ _ _ _ Vc)|]; reflexivity.
Qed.

Theorem ctor_complete_basis d k b : valid_ctor d k ->
  b = BNotBasis \/ (exists m d', b = BBasis [m; d'; d'] /\ d' <> d) ->
  validate_ctor (Build_ctor_d (k_dt k) (k_Hc k) (k_Hn k) b) = Raise ValueError.
Proof.
  intros (H1 & H2 & (ec & Ec & Vc) & (en & En & Vn) & _) Hb. rewrite ctor_dt_ok by (cbn [k_dt]; tauto). unfold validate_ctor_rest. cbn [k_dt k_Hc k_Hn k_basis]. rewrite Ec, En, (validate_H_sound _ _ _ _ Vc), (validate_H_sound _ _ _ _ Vn), shape_eqb_refl. simpl.
  destruct Hb as [-> | (m & d' & -> & Hd)]; [reflexivity|]. simpl.
  unfold shape_eqb. simpl. replace (d' =? d) with false by (symmetry; apply Nat.eqb_neq; lia). reflexivity.
Qed.

(* an operator of another dimension: rejected inside its Hamiltonian, or at the control / noise comparison *)
Theorem ctor_complete_dimension d k (noise : bool) es i :
  valid_ctor d k -> (if noise then k_Hn k else k_Hc k) = HList es -> i < length es ->
  let x := Build_entry_d true (Build_oper_d OArray [S d; S d]) (Some (length (dt_vals (k_dt k)))) (e_id (nth i es e0)) in
  validate_ctor (Build_ctor_d (k_dt k) (if noise then k_Hc k else HList (upd es i x)) (if noise then HList (upd es i x) else k_Hn k)
                   (k_basis k)) = Raise ValueError.
Proof.
  intros (H1 & H2 & (ec & Ec & Vc) & (en & En & Vn) & Hb) HH Hi x. rewrite ctor_dt_ok by (cbn [k_dt]; tauto). unfold validate_ctor_rest. cbn [k_dt k_Hc k_Hn k_basis].
  assert (K : forall nz es', valid_H nz d (length (dt_vals (k_dt k))) es' -> i < length es' ->
              e_id x = e_id (nth i es' e0) ->
              validate_H nz (length (dt_vals (k_dt k))) (HList (upd es' i x)) = Raise ValueError \/
              (length es' = 1 /\ validate_H nz (length (dt_vals (k_dt k))) (HList (upd es' i x)) = Ok [S d; S d])).
  { intros nz es' (Hne & HF & Hid) Hi' Hidx.
    destruct (Nat.le_gt_cases 2 (length es')) as [G|G].
    - left. unfold validate_H.
      assert (L : forallb e_islist es' = true).
      { rewrite forallb_forall. intros e1 He. rewrite Forall_forall in HF. apply HF in He. apply He. }
      rewrite (forallb_upd_true e_islist es' i x L eq_refl). simpl negb.
      destruct (upd es' i x) eqn:E; [apply upd_nil_iff in E; congruence|]. rewrite <- E.
      unfold validate_opers.
      assert (A1 : forallb (fun o => okind_ok (o_kind o)) (map e_oper (upd es' i x)) = true).
      { rewrite map_upd. apply forallb_upd_true; [|reflexivity].
        rewrite forallb_forall. intros o Ho. apply in_map_iff in Ho. destruct Ho as [e1 [<- He]].
        rewrite Forall_forall in HF. apply HF in He. apply He. }
      assert (A2 : all_eqb shape_eqb (map o_shape (map e_oper (upd es' i x))) = false).
      { rewrite !map_upd. apply (all_eqb_upd_false shape_eqb [d; d]); auto.
        - apply shape_eqb_sym.
        - unfold shape_eqb. simpl. replace (d =? S d) with false by (symmetry; apply Nat.eqb_neq; lia). reflexivity.
        - rewrite !Forall_map. eapply Forall_impl; [|exact HF]. intros e1 He. apply He.
        - rewrite !map_length. exact G.
        - rewrite !map_length. exact Hi'. }
      rewrite A1, A2. reflexivity.
    - right. destruct es' as [|e1 [|e2 r]]; simpl in *; try congruence; try lia. split; [reflexivity|].
      destruct i; [|lia]. unfold validate_H. cbn [upd forallb e_islist x negb andb map].
      unfold validate_opers. cbn [map forallb e_oper x o_kind okind_ok negb andb all_eqb o_shape hd length].
      replace (2 <? 2) with false by reflexivity.
      replace (square [S d; S d]) with true by (unfold square; symmetry; apply Nat.eqb_refl). cbn [negb].
      unfold x at 1. cbn [e_coeff is_none negb andb].
      assert (U : uniqueb (entry_ids nz [x]) = true).
      { unfold entry_ids, fill_ids. cbn [map length seq combine].
        match goal with |- context [if ?b then _ else _] => destruct b end; reflexivity. }
      rewrite U. cbn [negb]. rewrite andb_false_r.
      replace (e_coeff x) with (Some (length (dt_vals (k_dt k)))) by reflexivity. rewrite Nat.eqb_refl. reflexivity. }
  destruct noise.
  - rewrite Ec, (validate_H_sound _ _ _ _ Vc). rewrite En in HH. inversion HH; subst en.
    destruct (K true es Vn Hi eq_refl) as [-> | [_ ->]]; [reflexivity|].
    rewrite shape_neq_r. reflexivity.
  - rewrite Ec in HH. inversion HH; subst ec.
    destruct (K false es Vc Hi eq_refl) as [-> | [_ ->]]; [reflexivity|].
    rewrite En, (validate_H_sound _ _ _ _ Vn). rewrite shape_neq_l. reflexivity.
Qed.

(* --- a repeated identifier *)
Lemma all_absent_explicit (es : list entry_d) :
  all_absent (map (fun e => (([] : mat), ([] : list num), e_id e)) es) = negb (ids_explicit es).
Proof.
  unfold ids_explicit, all_absent. rewrite negb_involutive. induction es as [|e r IH]; simpl; auto. rewrite IH. reflexivity.
Qed.

Lemma nth_map_combine_seq {A B} (g : nat * A -> B) (l : list A) o i dA dB : i < length l ->
  nth i (map g (combine (seq o (length l)) l)) dB = g (o + i, nth i l dA).
Proof.
  revert o i; induction l as [|a l IH]; intros o i Hi; simpl in *; [lia|].
  destruct i as [|i]; [rewrite Nat.add_0_r; reflexivity|].
  rewrite IH by lia. f_equal. f_equal. lia.
Qed.

Lemma entry_ids_nth noise es i s : ids_explicit es = true -> i < length es -> e_id (nth i es e0) = Id s ->
  nth i (entry_ids noise es) EmptyString = s.
Proof.
  intros He Hi Hs. unfold entry_ids, fill_ids. rewrite all_absent_explicit, He. simpl negb. cbv iota.
  set (h := fun e : entry_d => (([] : mat), ([] : list num), e_id e)).
  rewrite (nth_map_combine_seq _ (map h es) 0 i (h e0)) by (rewrite map_length; exact Hi).
  rewrite (map_nth h). unfold h. simpl. rewrite Hs. reflexivity.
Qed.

Lemma nth_upd_same {A} (l : list A) i x d : i < length l -> nth i (upd l i x) d = x.
Proof. revert i; induction l as [|y r IH]; intros [|i] Hi; simpl in *; try lia; auto; try (apply IH; lia). Qed.
Lemma nth_upd_other {A} (l : list A) i j x d : i <> j -> nth j (upd l i x) d = nth j l d.
Proof. revert i j; induction l as [|y r IH]; intros [|i] [|j] H; simpl; auto; try lia; try (apply IH; lia). Qed.

Lemma not_unique l i j : i <> j -> i < length l -> j < length l -> nth i l EmptyString = nth j l EmptyString -> uniqueb l = false.
Proof.
  intros Hij Hi Hj He. destruct (uniqueb l) eqn:U; auto. apply uniqueb_NoDup in U.
  rewrite (NoDup_nth l EmptyString) in U. specialize (U i j Hi Hj He). contradiction.
Qed.

Theorem validate_H_complete_duplicate noise d n es i j s :
  valid_H noise d n es -> i < length es -> j < length es -> i <> j -> e_id (nth j es e0) = Id s ->
  let e := nth i es e0 in
  validate_H noise n (HList (upd es i (Build_entry_d (e_islist e) (e_oper e) (e_coeff e) (Id s)))) = Raise ValueError.
Proof.
  intros (Hne & HF & Hid) Hi Hj Hij Hs e. unfold validate_H.
  set (x := Build_entry_d (e_islist e) (e_oper e) (e_coeff e) (Id s)).
  assert (Hg : good_entry d n e).
  { rewrite Forall_forall in HF. apply HF, nth_In, Hi. }
  destruct Hg as (G1 & G2 & G3 & G4).
  assert (L : forallb e_islist es = true).
  { rewrite forallb_forall. intros e' He. rewrite Forall_forall in HF. apply HF in He. apply He. }
  rewrite (forallb_upd_true e_islist es i x L G1). simpl negb.
  destruct (upd es i x) eqn:E; [apply upd_nil_iff in E; congruence|]. rewrite <- E.
  assert (O : map e_oper (upd es i x) = map e_oper es).
  { rewrite map_upd. simpl. unfold e. rewrite <- (map_nth e_oper es e0 i). apply upd_same. }
  rewrite O, (good_opers d n es Hne HF).
  assert (C : forallb (fun e => negb (is_none (e_coeff e))) es = true).
  { rewrite forallb_forall. intros e' He. rewrite Forall_forall in HF. apply HF in He. destruct He as (_ & _ & _ & ->). reflexivity. }
  rewrite (forallb_upd_true _ es i x C) by (simpl; rewrite G4; reflexivity). simpl negb.
  assert (X : ids_explicit (upd es i x) = true).
  { unfold ids_explicit. apply negb_true_iff. apply forallb_upd_false; [exact Hi | reflexivity]. }
  assert (N1 : nth i (entry_ids noise (upd es i x)) EmptyString = s).
  { apply entry_ids_nth; [exact X | rewrite upd_len; exact Hi|]. rewrite nth_upd_same by exact Hi. reflexivity. }
  assert (N2 : nth j (entry_ids noise (upd es i x)) EmptyString = s).
  { apply entry_ids_nth; [exact X | rewrite upd_len; exact Hj|]. rewrite nth_upd_other by exact Hij. exact Hs. }
  assert (LL : length (entry_ids noise (upd es i x)) = length es).
  { unfold entry_ids, fill_ids. destruct (all_absent _); rewrite !map_length, ?combine_length, ?seq_length, ?map_length, upd_len; lia. }
  rewrite X, (not_unique _ i j Hij) by (rewrite ?LL, ?N1, ?N2; auto). reflexivity.
Qed.

(* ------------------------------------------------------------------ concatenation *)
Definition functional (terms : list (nat * string)) : Prop :=
  forall t u, In t terms -> In u terms -> fst t = fst u -> snd t = snd u.
Lemma op_two_ids_spec terms : op_two_ids terms = false <-> functional terms.
Proof.
  unfold op_two_ids, functional. split.
  - intros H t u Ht Hu Hop.
    destruct (String.eqb (snd t) (snd u)) eqn:E; [apply String.eqb_eq; exact E|].
    assert (X : existsb (fun t0 => existsb (fun u0 => (fst t0 =? fst u0) && negb (String.eqb (snd t0) (snd u0))) terms) terms = true).
    { apply existsb_exists. exists t. split; auto. apply existsb_exists. exists u. split; auto.
      rewrite Hop, Nat.eqb_refl, E. reflexivity. }
    congruence.
  - intros H. destruct (existsb _ terms) eqn:E; auto.
    apply existsb_exists in E. destruct E as [t [Ht E]]. apply existsb_exists in E. destruct E as [u [Hu E]].
    apply andb_true_iff in E. destruct E as [E1 E2]. apply Nat.eqb_eq in E1.
    rewrite (H t u Ht Hu E1), String.eqb_refl in E2. discriminate.
Qed.

Definition cterms (l : list pulse_d) := flat_map (fun p => map (fun t => (c_op t, c_id t)) (p_c p)) l.
Definition nterms (l : list pulse_d) := flat_map (fun p => map (fun t => (n_op t, n_id t)) (p_n p)) l.
Definition valid_pulses (l : list pulse_d) : Prop :=
  l <> [] /\ Forall (fun p => p_ispulse p = true) l /\
  (exists d, Forall (fun x => x = d) (map p_d l)) /\ (exists b, Forall (fun x => x = b) (map p_basis l)) /\
  functional (cterms l) /\ functional (nterms l) /\
  uniqueb (concat_ids false l) = true /\ uniqueb (concat_ids true l) = true /\
  Forall (fun op => sens_inferable l op = true) (flat_map (fun p => map n_op (p_n p)) l).

Theorem validate_concat_wo_sound l : valid_pulses l -> validate_concat_wo (PsList l) = ok.
Proof.
  intros (Hne & Hp & (d & Hd) & (b & Hb) & Fc & Fn & Uc & Un & Hs). unfold validate_concat_wo.
  rewrite (proj2 (forallb_Forall p_ispulse l) Hp). simpl.
  assert (L : (length l =? 0) = false) by (destruct l; [congruence | reflexivity]).
  rewrite L, (all_eqb_const Nat.eqb d _ (Nat.eqb_refl d) Hd). simpl.
  rewrite (all_eqb_const Nat.eqb b _ (Nat.eqb_refl b) Hb). simpl.
  fold (cterms l). fold (nterms l).
  rewrite (proj2 (op_two_ids_spec _) Fc), Uc, (proj2 (op_two_ids_spec _) Fn), Un. simpl.
  rewrite (proj2 (forallb_Forall _ _) Hs). reflexivity.
Qed.

(* a list entry that is not a pulse, at any position *)
Theorem concat_complete_not_pulse l i x : i < length l -> p_ispulse x = false ->
  validate_concat_wo (PsList (upd l i x)) = Raise TypeError.
Proof. intros Hi Hx. unfold validate_concat_wo. rewrite (forallb_upd_false p_ispulse l i x Hi Hx). reflexivity. Qed.

(* a pulse of another dimension / another basis, at any position of a list of two or more *)
Theorem concat_complete_dimension l i x : valid_pulses l -> 2 <= length l -> i < length l ->
  p_ispulse x = true -> p_d x <> p_d (nth i l x) -> validate_concat_wo (PsList (upd l i x)) = Raise ValueError.
Proof.
  intros (Hne & Hp & (d & Hd) & _) H2 Hi Hx Hdx. unfold validate_concat_wo.
  rewrite (forallb_upd_true p_ispulse l i x (proj2 (forallb_Forall _ _) Hp) Hx). simpl.
  assert (L : (length (upd l i x) =? 0) = false) by (rewrite upd_len; apply Nat.eqb_neq; lia).
  rewrite L. simpl negb. rewrite map_upd.
  assert (Dn : nth i (map p_d l) (p_d x) = d).
  { rewrite Forall_forall in Hd. apply Hd, nth_In. rewrite map_length. exact Hi. }
  rewrite (map_nth p_d) in Dn.
  rewrite (all_eqb_upd_false Nat.eqb d (p_d x)); auto.
  - apply Nat.eqb_sym.
  - apply Nat.eqb_neq. congruence.
  - rewrite map_length. exact H2.
  - rewrite map_length. exact Hi.
Qed.

Theorem concat_complete_basis l i x : valid_pulses l -> 2 <= length l -> i < length l ->
  p_ispulse x = true -> p_d x = p_d (nth i l x) -> p_basis x <> p_basis (nth i l x) ->
  validate_concat_wo (PsList (upd l i x)) = Raise ValueError.
Proof.
  intros (Hne & Hp & (d & Hd) & (b & Hb) & _) H2 Hi Hx Hdx Hbx. unfold validate_concat_wo.
  rewrite (forallb_upd_true p_ispulse l i x (proj2 (forallb_Forall _ _) Hp) Hx). simpl.
  assert (L : (length (upd l i x) =? 0) = false) by (rewrite upd_len; apply Nat.eqb_neq; lia).
  rewrite L. simpl negb.
  assert (E : map p_d (upd l i x) = map p_d l).
  { rewrite map_upd, Hdx, <- (map_nth p_d). apply upd_same. }
  rewrite E, (all_eqb_const Nat.eqb d _ (Nat.eqb_refl d) Hd). simpl. rewrite map_upd.
  assert (Bn : nth i (map p_basis l) (p_basis x) = b).
  { rewrite Forall_forall in Hb. apply Hb, nth_In. rewrite map_length. exact Hi. }
  rewrite (map_nth p_basis) in Bn.
  rewrite (all_eqb_upd_false Nat.eqb b (p_basis x)); auto.
  - apply Nat.eqb_sym.
  - apply Nat.eqb_neq. congruence.
  - rewrite map_length. exact H2.
  - rewrite map_length. exact Hi.
Qed.

(* one operator under two identifiers -- wherever the two terms sit *)
Theorem concat_complete_two_identifiers l (noise : bool) t u :
  l <> [] -> Forall (fun p => p_ispulse p = true) l ->
  (exists d, Forall (fun x => x = d) (map p_d l)) -> (exists b, Forall (fun x => x = b) (map p_basis l)) ->
  (noise = true -> functional (cterms l) /\ uniqueb (concat_ids false l) = true) ->
  In t (if noise then nterms l else cterms l) -> In u (if noise then nterms l else cterms l) ->
  fst t = fst u -> snd t <> snd u ->
  validate_concat_wo (PsList l) = Raise ValueError.
Proof.
  intros Hne Hp (d & Hd) (b & Hb) Fc Ht Hu Hop Hid. unfold validate_concat_wo.
  rewrite (proj2 (forallb_Forall p_ispulse l) Hp). simpl.
  assert (L : (length l =? 0) = false) by (destruct l; [congruence | reflexivity]).
  rewrite L, (all_eqb_const Nat.eqb d _ (Nat.eqb_refl d) Hd). simpl.
  rewrite (all_eqb_const Nat.eqb b _ (Nat.eqb_refl b) Hb). simpl.
  fold (cterms l). fold (nterms l).
  destruct noise.
  - destruct (Fc eq_refl) as [Fc1 Fc2]. rewrite (proj2 (op_two_ids_spec _) Fc1), Fc2. simpl.
    destruct (op_two_ids (nterms l)) eqn:E; [reflexivity|].
    apply op_two_ids_spec in E. specialize (E t u Ht Hu Hop). contradiction.
  - destruct (op_two_ids (cterms l)) eqn:E; [reflexivity|].
    apply op_two_ids_spec in E. specialize (E t u Ht Hu Hop). contradiction.
Qed.

(* a noise operator that one pulse lacks and whose sensitivity is not constant somewhere *)
Theorem concat_complete_sensitivity l p q t :
  l <> [] -> Forall (fun p => p_ispulse p = true) l ->
  (exists d, Forall (fun x => x = d) (map p_d l)) -> (exists b, Forall (fun x => x = b) (map p_basis l)) ->
  functional (cterms l) -> functional (nterms l) ->
  uniqueb (concat_ids false l) = true -> uniqueb (concat_ids true l) = true ->
  In p l -> In q l -> In t (p_n p) -> n_sens t = None -> has_op (n_op t) q = false ->
  validate_concat_wo (PsList l) = Raise ValueError.
Proof.
  intros Hne Hp (d & Hd) (b & Hb) Fc Fn Uc Un Hpl Hql Ht Hs Hq. unfold validate_concat_wo.
  rewrite (proj2 (forallb_Forall p_ispulse l) Hp). simpl.
  assert (L : (length l =? 0) = false) by (destruct l; [congruence | reflexivity]).
  rewrite L, (all_eqb_const Nat.eqb d _ (Nat.eqb_refl d) Hd). simpl.
  rewrite (all_eqb_const Nat.eqb b _ (Nat.eqb_refl b) Hb). simpl.
  fold (cterms l). fold (nterms l).
  rewrite (proj2 (op_two_ids_spec _) Fc), Uc, (proj2 (op_two_ids_spec _) Fn), Un. simpl.
  assert (X : forallb (sens_inferable l) (flat_map (fun p => map n_op (p_n p)) l) = false).
  { destruct (forallb _ _) eqn:E; auto. rewrite forallb_forall in E.
    assert (Hin : In (n_op t) (flat_map (fun p => map n_op (p_n p)) l)).
    { apply in_flat_map. exists p. split; auto. apply in_map. exact Ht. }
    specialize (E _ Hin). unfold sens_inferable in E.
    assert (A : forallb (has_op (n_op t)) l = false).
    { destruct (forallb (has_op (n_op t)) l) eqn:A; auto. rewrite forallb_forall in A. rewrite (A q Hql) in Hq. discriminate. }
    rewrite A in E. apply andb_true_iff in E. destruct E as [E1 _]. rewrite forallb_forall in E1.
    assert (Hv : In None (flat_map (sens_of (n_op t)) l)).
    { apply in_flat_map. exists p. split; auto. unfold sens_of. rewrite <- Hs. apply in_map.
      apply filter_In. split; auto. apply Nat.eqb_refl. }
    specialize (E1 _ Hv). discriminate. }
  rewrite X. reflexivity.
Qed.

(* a suffixed identifier that is already in use (control or noise) *)
Theorem concat_complete_suffix_clash l (noise : bool) :
  l <> [] -> Forall (fun p => p_ispulse p = true) l ->
  (exists d, Forall (fun x => x = d) (map p_d l)) -> (exists b, Forall (fun x => x = b) (map p_basis l)) ->
  functional (cterms l) -> (noise = true -> uniqueb (concat_ids false l) = true /\ functional (nterms l)) ->
  uniqueb (concat_ids noise l) = false ->
  validate_concat_wo (PsList l) = Raise ValueError.
Proof.
  intros Hne Hp (d & Hd) (b & Hb) Fc Fn Hu. unfold validate_concat_wo.
  rewrite (proj2 (forallb_Forall p_ispulse l) Hp). simpl.
  assert (L : (length l =? 0) = false) by (destruct l; [congruence | reflexivity]).
  rewrite L, (all_eqb_const Nat.eqb d _ (Nat.eqb_refl d) Hd). simpl.
  rewrite (all_eqb_const Nat.eqb b _ (Nat.eqb_refl b) Hb). simpl.
  fold (cterms l). fold (nterms l). rewrite (proj2 (op_two_ids_spec _) Fc). simpl.
  destruct noise.
  - destruct (Fn eq_refl) as [U1 F2]. rewrite U1, (proj2 (op_two_ids_spec _) F2), Hu. reflexivity.
  - rewrite Hu. reflexivity.
Qed.

(* ------------------------------------------------------------------ spectra, identifiers, options *)
Theorem validate_option_spec v allowed : validate_option v allowed = ok <-> In v allowed.
Proof.
  unfold validate_option, check, mem. destruct (existsb (String.eqb v) allowed) eqn:E.
  - split; auto. intros _. apply existsb_exists in E. destruct E as [x [Hx E]]. apply String.eqb_eq in E. subst. exact Hx.
  - split; [discriminate|]. intros H. exfalso.
    assert (existsb (String.eqb v) allowed = true) by (apply existsb_exists; exists v; split; auto; apply String.eqb_refl). congruence.
Qed.
Theorem validate_option_complete v allowed : ~ In v allowed -> validate_option v allowed = Raise ValueError.
Proof.
  intros H. destruct (validate_option v allowed) as [[]|e] eqn:E.
  - exfalso. apply H. apply validate_option_spec. exact E.
  - unfold validate_option, check in E. destruct (mem v allowed); inversion E; reflexivity.
Qed.

Theorem validate_ids_sound all_ids ids : (forall l, ids = Some l -> incl l all_ids) -> validate_ids all_ids ids = ok.
Proof.
  intros H. destruct ids as [l|]; [|reflexivity]. simpl. unfold check.
  assert (forallb (fun s => mem s all_ids) l = true).
  { rewrite forallb_forall. intros s Hs. apply existsb_exists. exists s. split; [apply (H l eq_refl); exact Hs | apply String.eqb_refl]. }
  rewrite H0. reflexivity.
Qed.
(* an unknown identifier at any position of the requested list *)
Theorem validate_ids_complete all_ids l i s : i <= length l -> ~ In s all_ids ->
  validate_ids all_ids (Some (firstn i l ++ s :: skipn i l)) = Raise ValueError.
Proof.
  intros Hi Hs. simpl. unfold check.
  assert (forallb (fun s => mem s all_ids) (firstn i l ++ s :: skipn i l) = false).
  { rewrite forallb_app. simpl.
    assert (mem s all_ids = false).
    { unfold mem. destruct (existsb (String.eqb s) all_ids) eqn:E; auto.
      apply existsb_exists in E. destruct E as [x [Hx E]]. apply String.eqb_eq in E. subst. contradiction. }
    rewrite H. simpl. apply andb_false_r. }
  rewrite H. reflexivity.
Qed.

Definition documented_spectrum_shape (s : list nat) (n_idx n_omega : nat) : Prop :=
  s = [n_omega] \/ s = [n_idx; n_omega] \/ s = [n_idx; n_idx; n_omega].
Lemma all2_refl_eqb l : all2 (fun a b => (a =? b) || (a =? 1)) l l = true.
Proof. induction l; simpl; auto. rewrite Nat.eqb_refl. exact IHl. Qed.
Theorem validate_spectrum_sound s n_idx n_omega :
  documented_spectrum_shape (s_shape s) n_idx n_omega -> (length (s_shape s) = 3 -> s_herm s = true) ->
  validate_spectrum s n_idx n_omega = ok.
Proof.
  intros H Hh. unfold validate_spectrum, broadcastable.
  destruct H as [E|[E|E]]; rewrite E in *; simpl; rewrite ?Nat.eqb_refl; simpl; auto.
  rewrite (Hh eq_refl). reflexivity.
Qed.
(* wrong number of frequencies (last axis), for each of the three documented layouts *)
Theorem validate_spectrum_complete_omega s n_idx n_omega m :
  documented_spectrum_shape (s_shape s) n_idx n_omega -> m <> n_omega -> m <> 1 ->
  validate_spectrum (Build_spectrum_d (s_kind s) (removelast (s_shape s) ++ [m]) (s_herm s)) n_idx n_omega = Raise ValueError.
Proof.
  intros H Hm H1. unfold validate_spectrum, broadcastable.
  assert (A : (m =? n_omega) = false) by (apply Nat.eqb_neq; exact Hm).
  assert (B : (m =? 1) = false) by (apply Nat.eqb_neq; exact H1).
  destruct H as [E|[E|E]]; rewrite E; simpl; rewrite A, B; reflexivity.
Qed.
(* wrong number of operators on either operator axis *)
Theorem validate_spectrum_complete_axis s n_idx n_omega m (first : bool) :
  m <> n_idx -> m <> 1 ->
  validate_spectrum (Build_spectrum_d (s_kind s) (if first then [m; n_idx; n_omega] else [n_idx; m; n_omega]) (s_herm s)) n_idx n_omega = Raise ValueError
  /\ validate_spectrum (Build_spectrum_d (s_kind s) [m; n_omega] (s_herm s)) n_idx n_omega = Raise ValueError.
Proof.
  intros Hm H1. unfold validate_spectrum, broadcastable.
  assert (A : (m =? n_idx) = false) by (apply Nat.eqb_neq; exact Hm).
  assert (B : (m =? 1) = false) by (apply Nat.eqb_neq; exact H1).
  split; [destruct first|]; simpl; rewrite ?Nat.eqb_refl, A, B; simpl; rewrite ?andb_false_r; reflexivity.
Qed.
Theorem validate_spectrum_complete_hermitian k n_idx n_omega :
  validate_spectrum (Build_spectrum_d k [n_idx; n_idx; n_omega] false) n_idx n_omega = Raise ValueError.
Proof. unfold validate_spectrum, broadcastable. simpl. rewrite !Nat.eqb_refl. reflexivity. Qed.
Theorem validate_spectrum_complete_4d k h a b c e n_idx n_omega :
  validate_spectrum (Build_spectrum_d k [a; b; c; e] h) n_idx n_omega = Raise ValueError.
Proof.
  unfold validate_spectrum. simpl length. simpl pred.
  destruct (broadcastable _ _); simpl; [destruct h; reflexivity | reflexivity].
Qed.

(* ------------------------------------------------------------------ pulse-correlation quantities *)
Theorem pc_not_computed p : p_pc p = false ->
  validate_get_pc_control_matrix p = Raise CalculationError /\
  (forall w, In w ["fidelity"; "generalized"]%string -> validate_get_pc_filter_function p w = Raise CalculationError).
Proof.
  intros H. unfold validate_get_pc_control_matrix, validate_get_pc_filter_function. rewrite H. split; [reflexivity|].
  intros w Hw. rewrite (proj2 (validate_option_spec w _) Hw). reflexivity.
Qed.
Theorem pc_computed p : p_pc p = true ->
  validate_get_pc_control_matrix p = ok /\
  (forall w, In w ["fidelity"; "generalized"]%string -> validate_get_pc_filter_function p w = ok).
Proof.
  intros H. unfold validate_get_pc_control_matrix, validate_get_pc_filter_function. rewrite H. split; [reflexivity|].
  intros w Hw. rewrite (proj2 (validate_option_spec w _) Hw). reflexivity.
Qed.

(* ------------------------------------------------------------------ dims arguments, Basis *)
Theorem validate_dims_sound dims rank m : length dims = rank -> Forall (fun x => length x = m) dims -> validate_dims dims rank = ok.
Proof.
  intros H1 H2. unfold validate_dims. rewrite H1, Nat.eqb_refl. simpl.
  rewrite (all_eqb_const Nat.eqb m); [reflexivity | apply Nat.eqb_refl|]. rewrite Forall_map. exact H2.
Qed.
Theorem validate_dims_complete_rank dims rank : length dims <> rank -> validate_dims dims rank = Raise ValueError.
Proof. intros H. unfold validate_dims. apply Nat.eqb_neq in H. rewrite H. reflexivity. Qed.
Theorem validate_dims_complete_ragged dims rank m i x : length dims = rank -> 2 <= rank ->
  Forall (fun y => length y = m) dims -> i < length dims -> length x <> m ->
  validate_dims (upd dims i x) rank = Raise ValueError.
Proof.
  intros H1 H2 HF Hi Hx. unfold validate_dims. rewrite upd_len, H1, Nat.eqb_refl. simpl. rewrite map_upd.
  rewrite (all_eqb_upd_false Nat.eqb m (length x)); auto.
  - apply Nat.eqb_sym.
  - apply Nat.eqb_neq. congruence.
  - rewrite Forall_map. exact HF.
  - rewrite map_length. lia.
  - rewrite map_length. exact Hi.
Qed.

Definition good_oper (d : nat) (o : oper_d) : Prop := okind_ok (o_kind o) = true /\ o_shape o = [d; d].
Lemma good_opers' d os : os <> [] -> Forall (good_oper d) os -> validate_opers os = Ok [d; d].
Proof.
  intros Hne HF. unfold validate_opers.
  assert (H1 : forallb (fun o => okind_ok (o_kind o)) os = true).
  { rewrite forallb_forall. intros o Ho. rewrite Forall_forall in HF. apply HF in Ho. apply Ho. }
  assert (H2 : all_eqb shape_eqb (map o_shape os) = true).
  { apply (all_eqb_const _ [d; d]); [apply shape_eqb_refl|]. rewrite Forall_map.
    eapply Forall_impl; [|exact HF]. intros e He. apply He. }
  rewrite H1, H2. simpl negb.
  destruct os as [|o r]; [congruence|]. inversion HF as [|? ? Ho _]; subst. destruct Ho as (_ & Hs).
  simpl hd. rewrite Hs. simpl. rewrite Nat.eqb_refl. reflexivity.
Qed.
Theorem validate_basis_new_sound d os labels : os <> [] -> Forall (good_oper d) os -> length os <= d * d ->
  (labels = None \/ labels = Some (length os)) -> validate_basis_new (Build_basis_new_d (GOpers os) labels) = ok.
Proof.
  intros Hne HF Hn Hl. unfold validate_basis_new. simpl. rewrite (good_opers' d os Hne HF). simpl.
  rewrite Nat.mul_1_r. replace (length os <=? d * d) with true by (symmetry; apply Nat.leb_le; exact Hn). simpl.
  destruct Hl as [-> | ->]; simpl; rewrite ?Nat.eqb_refl; reflexivity.
Qed.
Theorem validate_basis_new_complete d os labels :
  os <> [] -> Forall (good_oper d) os ->
  (d * d < length os -> validate_basis_new (Build_basis_new_d (GOpers os) labels) = Raise ValueError) /\
  (forall m, length os <= d * d -> m <> length os -> validate_basis_new (Build_basis_new_d (GOpers os) (Some m)) = Raise ValueError) /\
  validate_basis_new (Build_basis_new_d GNoGetitem labels) = Raise TypeError /\
  (forall i, i < length os -> validate_basis_new (Build_basis_new_d (GOpers (upd os i (Build_oper_d OBad [d; d]))) labels) = Raise TypeError).
Proof.
  intros Hne HF. repeat split.
  - intros Hn. unfold validate_basis_new. simpl. rewrite (good_opers' d os Hne HF). simpl. rewrite Nat.mul_1_r.
    replace (length os <=? d * d) with false by (symmetry; apply Nat.leb_gt; exact Hn). reflexivity.
  - intros m Hn Hm. unfold validate_basis_new. simpl. rewrite (good_opers' d os Hne HF). simpl. rewrite Nat.mul_1_r.
    replace (length os <=? d * d) with true by (symmetry; apply Nat.leb_le; exact Hn). simpl.
    replace (m =? length os) with false by (symmetry; apply Nat.eqb_neq; exact Hm). reflexivity.
  - intros i Hi. unfold validate_basis_new. simpl. unfold validate_opers.
    rewrite forallb_upd_false by (first [exact Hi | reflexivity]). reflexivity.
Qed.

Theorem validate_from_partial_spec f : validate_basis_new (f_new f) = ok ->
  (validate_from_partial f = ok <->
   f_orthonorm f = true /\ (f_want_traceless f = Some true -> f_traceless f = true) /\
   (forall n, f_labels f = Some n -> n = f_n f \/ n = f_d f * f_d f)).
Proof.
  intros H. unfold validate_from_partial. rewrite H. simpl. unfold check.
  destruct (f_orthonorm f); simpl; [|split; [discriminate | intros [X _]; discriminate]].
  destruct (f_want_traceless f) as [[|]|]; destruct (f_traceless f); simpl;
  destruct (f_labels f) as [n|]; simpl;
  try (destruct ((n =? f_n f) || (n =? f_d f * f_d f)) eqn:E);
  try (apply orb_true_iff in E; rewrite !Nat.eqb_eq in E);
  try (apply orb_false_iff in E; rewrite !Nat.eqb_neq in E);
  split; intros; try discriminate; try reflexivity;
  repeat split; try congruence; try tauto;
  try (intros n0 Hn0; inversion Hn0; subst; tauto);
  try (match goal with H : _ /\ _ /\ _ |- _ => destruct H as (_ & Ht & Hl) end;
       first [ specialize (Ht eq_refl); discriminate | destruct (Hl _ eq_refl); lia ]).
Qed.

(* ------------------------------------------------------------------ remap *)
Theorem validate_remap_sound r :
  p_d (r_pulse r) = r_dpq r ^ r_N r -> r_order_ints r = true -> is_perm_of_range (r_order r) (r_N r) = true ->
  r_mapping r = None -> uniqueb (map c_id (p_c (r_pulse r))) = true -> uniqueb (map n_id (p_n (r_pulse r))) = true ->
  validate_remap r = ok.
Proof.
  intros H1 H2 H3 H4 H5 H6. unfold validate_remap. rewrite H1, Nat.eqb_refl, H2, H3, H4. simpl. rewrite H5, H6. reflexivity.
Qed.
Theorem validate_remap_complete r :
  p_d (r_pulse r) = r_dpq r ^ r_N r ->
  (r_order_ints r = false -> validate_remap r = Raise TypeError) /\
  (r_order_ints r = true -> length (r_order r) <> r_N r -> validate_remap r = Raise ValueError) /\
  (forall d', d' <> r_dpq r ^ r_N r ->
     validate_remap (Build_remap_d (Build_pulse_d (p_ispulse (r_pulse r)) d' (p_basis (r_pulse r)) (p_c (r_pulse r)) (p_n (r_pulse r))
                                      (p_dt (r_pulse r)) (p_omega (r_pulse r)) (p_cm (r_pulse r)) (p_pc (r_pulse r)))
                                   (r_order r) (r_order_ints r) (r_dpq r) (r_N r) (r_mapping r)) = Raise ValueError).
Proof.
  intros H1. repeat split.
  - intros H2. unfold validate_remap. rewrite H1, Nat.eqb_refl, H2. reflexivity.
  - intros H2 H3. unfold validate_remap, is_perm_of_range. rewrite H1, Nat.eqb_refl, H2. simpl.
    apply Nat.eqb_neq in H3. rewrite H3. reflexivity.
  - intros d' Hd. unfold validate_remap. simpl. apply Nat.eqb_neq in Hd. rewrite Hd. reflexivity.
Qed.
(* an identifier missing from the mapping (documented: ValueError), at any position among the identifiers *)
Theorem map_ids_unknown tbl ids i s : i <= length ids -> lookup tbl s = None ->
  map_ids (Some tbl) (firstn i ids ++ s :: skipn i ids) = Raise ValueError.
Proof.
  intros Hi Hs. unfold map_ids.
  assert (forallb (fun s0 => negb (is_none (lookup tbl s0))) (firstn i ids ++ s :: skipn i ids) = false).
  { rewrite forallb_app. simpl. rewrite Hs. simpl. apply andb_false_r. }
  rewrite H. reflexivity.
Qed.

(* ------------------------------------------------------------------ extend *)
Arguments extend_shortcut : simpl never.
Definition entry_dim_ok (dpq : nat) (e : ext_entry) : Prop :=
  qubit_is_int (x_qubits e) = true /\ p_d (x_pulse e) = dpq ^ length (qubit_list (x_qubits e)).
Definition valid_extend (x : extend_d) : Prop :=
  x_entries x <> [] /\ Forall (fun e => p_ispulse (x_pulse e) = true) (x_entries x) /\
  Forall (entry_dim_ok (x_dpq x)) (x_entries x) /\
  (exists t, Forall (fun v => v = t) (map (fun e => p_dt (x_pulse e)) (x_entries x))) /\
  nat_uniqueb (flat_map (fun e => qubit_list (x_qubits e)) (x_entries x)) = true /\
  (forall n, x_N x = Some n -> fold_right Nat.max 0 (flat_map (fun e => qubit_list (x_qubits e)) (x_entries x)) + 1 <= n) /\
  (x_cache_ff x = Some true -> x_omega_given x = true) /\ x_add x = None /\
  (exists cids nids, collect (map (ext_ids false) (x_entries x)) = Ok cids /\ collect (map (ext_ids true) (x_entries x)) = Ok nids /\
                     uniqueb cids = true /\ uniqueb nids = true).

Lemma single_dim dpq e : entry_dim_ok dpq e -> is_single (x_qubits e) = true -> p_d (x_pulse e) = dpq.
Proof.
  unfold entry_dim_ok. destruct (x_qubits e) as [q|qs|]; simpl.
  - intros [_ ->] _. simpl. lia.
  - intros [_ ->] H. apply Nat.eqb_eq in H. rewrite H. simpl. lia.
  - intros [H _]. discriminate.
Qed.

Lemma extend_dim_checks dpq es : Forall (entry_dim_ok dpq) es ->
  forallb (fun e => qubit_is_int (x_qubits e)) es = true /\
  forallb (fun e => is_single (x_qubits e) || sortedb (qubit_list (x_qubits e)) || (p_d (x_pulse e) =? dpq ^ length (qubit_list (x_qubits e)))) es = true /\
  forallb (fun e => negb (is_single (x_qubits e)) || (p_d (x_pulse e) =? dpq)) es = true /\
  forallb (fun e => is_single (x_qubits e) || (p_d (x_pulse e) =? dpq ^ length (qubit_list (x_qubits e)))) es = true.
Proof.
  intros HF. repeat split; rewrite forallb_forall; intros e He; rewrite Forall_forall in HF; specialize (HF e He).
  - apply HF.
  - rewrite (proj2 (Nat.eqb_eq _ _) (proj2 HF)). apply orb_true_r.
  - destruct (is_single (x_qubits e)) eqn:E; simpl; auto. rewrite (single_dim dpq e HF E). apply Nat.eqb_refl.
  - rewrite (proj2 (Nat.eqb_eq _ _) (proj2 HF)). apply orb_true_r.
Qed.

Theorem validate_extend_sound x : valid_extend x -> validate_extend x = ok.
Proof.
  intros (Hne & Hp & Hd & (t & Ht) & Hq & HN & Hff & Hadd & (cids & nids & Hc & Hn & Uc & Un)).
  unfold validate_extend.
  assert (L : (length (x_entries x) =? 0) = false) by (destruct (x_entries x); [congruence | reflexivity]).
  rewrite L. simpl.
  rewrite (proj2 (forallb_Forall (fun e => p_ispulse (x_pulse e)) _) Hp). simpl.
  destruct (extend_dim_checks (x_dpq x) _ Hd) as (D0 & D1 & D2 & D3). rewrite D0, D1, D2, D3. simpl.
  rewrite (all_eqb_const Nat.eqb t _ (Nat.eqb_refl t) Ht). simpl. rewrite Hq. simpl.
  assert (NN : match x_N x with None => true | Some n => fold_right Nat.max 0 (flat_map (fun e => qubit_list (x_qubits e)) (x_entries x)) + 1 <=? n end = true).
  { destruct (x_N x) as [n|]; auto. apply Nat.leb_le. apply HN. reflexivity. }
  rewrite NN. simpl. destruct (extend_shortcut _ _); [reflexivity|].
  assert (FF : match x_cache_ff x with
               | Some true => x_omega_given x || all_equal_nonempty (optnat_tags (map (fun e => p_omega (x_pulse e)) (x_entries x)))
                              && forallb (fun e => negb (is_none (p_omega (x_pulse e)))) (x_entries x)
               | _ => true end = true).
  { destruct (x_cache_ff x) as [[|]|]; auto. rewrite (Hff eq_refl). reflexivity. }
  rewrite FF. simpl. rewrite Hadd. simpl. rewrite andb_false_r. simpl.
  rewrite Hc, Hn, Uc, Un. reflexivity.
Qed.

(* a mapped object that is not a pulse, at any position *)
Theorem extend_complete_not_pulse x i e : x_entries x <> [] -> i < length (x_entries x) -> p_ispulse (x_pulse e) = false ->
  validate_extend (Build_extend_d (upd (x_entries x) i e) (x_ndt x) (x_N x) (x_dpq x) (x_add x) (x_cache_diag x) (x_cache_ff x) (x_omega_given x))
  = Raise TypeError.
Proof.
  intros Hne Hi He. unfold validate_extend. simpl.
  assert (L : (length (upd (x_entries x) i e) =? 0) = false) by (rewrite upd_len; apply Nat.eqb_neq; lia).
  rewrite L. simpl. rewrite forallb_upd_false by (first [exact Hi | exact He]). reflexivity.
Qed.

(* a pulse on another time grid, at any position of a mapping with two or more pulses *)
Theorem extend_complete_time_grid x i e : valid_extend x -> 2 <= length (x_entries x) -> i < length (x_entries x) ->
  let e0' := nth i (x_entries x) e in
  p_ispulse (x_pulse e) = true -> x_qubits e = x_qubits e0' -> p_d (x_pulse e) = p_d (x_pulse e0') ->
  p_dt (x_pulse e) <> p_dt (x_pulse e0') ->
  validate_extend (Build_extend_d (upd (x_entries x) i e) (x_ndt x) (x_N x) (x_dpq x) (x_add x) (x_cache_diag x) (x_cache_ff x) (x_omega_given x))
  = Raise ValueError.
Proof.
  intros (Hne & Hp & Hd & (t & Ht) & _) H2 Hi e0' Hpe Hqe Hde Hte. unfold validate_extend. simpl.
  assert (L : (length (upd (x_entries x) i e) =? 0) = false) by (rewrite upd_len; apply Nat.eqb_neq; lia).
  rewrite L. simpl.
  rewrite (forallb_upd_true _ _ i e (proj2 (forallb_Forall (fun e => p_ispulse (x_pulse e)) _) Hp) Hpe). simpl.
  assert (Hd' : Forall (entry_dim_ok (x_dpq x)) (upd (x_entries x) i e)).
  { apply Forall_forall. intros y Hy. apply In_nth with (d := e) in Hy. destruct Hy as [j [Hj <-]]. rewrite upd_len in Hj.
    destruct (Nat.eq_dec i j) as [<-|Hij].
    - rewrite nth_upd_same by exact Hi. unfold entry_dim_ok. rewrite Hqe, Hde.
      rewrite Forall_forall in Hd. apply (Hd e0'). apply nth_In. exact Hi.
    - rewrite nth_upd_other by exact Hij. rewrite Forall_forall in Hd. apply Hd, nth_In. exact Hj. }
  destruct (extend_dim_checks (x_dpq x) _ Hd') as (D0 & D1 & D2 & D3). rewrite D0, D1, D2, D3. simpl.
  rewrite map_upd.
  assert (Tn : p_dt (x_pulse e0') = t).
  { rewrite Forall_forall in Ht. apply Ht. apply in_map_iff. exists e0'. split; auto. apply nth_In. exact Hi. }
  rewrite (all_eqb_upd_false Nat.eqb t (p_dt (x_pulse e))); auto.
  - apply Nat.eqb_sym.
  - apply Nat.eqb_neq. congruence.
  - rewrite map_length. exact H2.
  - rewrite map_length. exact Hi.
Qed.

(* two pulses mapped to a common qubit; a register that is too small *)
Lemma nat_uniqueb_NoDup l : nat_uniqueb l = true <-> NoDup l.
Proof.
  induction l as [|x r IH]; simpl; [split; [constructor | reflexivity]|].
  rewrite andb_true_iff, negb_true_iff, IH. split.
  - intros [H1 H2]. constructor; auto. intros Hin.
    assert (existsb (Nat.eqb x) r = true) by (apply existsb_exists; exists x; split; [assumption | apply Nat.eqb_refl]). congruence.
  - intros H. inversion H as [|? ? Hn HN]; subst. split; auto.
    destruct (existsb (Nat.eqb x) r) eqn:E; auto. apply existsb_exists in E. destruct E as [y [Hy Hxy]].
    apply Nat.eqb_eq in Hxy. subst. contradiction.
Qed.

Theorem extend_complete_clash_or_register x :
  x_entries x <> [] -> Forall (fun e => p_ispulse (x_pulse e) = true) (x_entries x) ->
  Forall (entry_dim_ok (x_dpq x)) (x_entries x) ->
  (exists t, Forall (fun v => v = t) (map (fun e => p_dt (x_pulse e)) (x_entries x))) ->
  let active := flat_map (fun e => qubit_list (x_qubits e)) (x_entries x) in
  (~ NoDup active \/ (exists n, x_N x = Some n /\ n < fold_right Nat.max 0 active + 1)) ->
  validate_extend x = Raise ValueError.
Proof.
  intros Hne Hp Hd (t & Ht) active H. unfold validate_extend.
  assert (L : (length (x_entries x) =? 0) = false) by (destruct (x_entries x); [congruence | reflexivity]).
  rewrite L. simpl.
  rewrite (proj2 (forallb_Forall (fun e => p_ispulse (x_pulse e)) _) Hp). simpl.
  destruct (extend_dim_checks (x_dpq x) _ Hd) as (D0 & D1 & D2 & D3). rewrite D0, D1, D2, D3. simpl.
  rewrite (all_eqb_const Nat.eqb t _ (Nat.eqb_refl t) Ht). simpl. fold active.
  destruct (nat_uniqueb active) eqn:U; simpl; [|reflexivity].
  destruct H as [H | (n & Hn & Hlt)].
  - exfalso. apply H. apply nat_uniqueb_NoDup. exact U.
  - rewrite Hn. replace (fold_right Nat.max 0 active + 1 <=? n) with false by (symmetry; apply Nat.leb_gt; lia). reflexivity.
Qed.

(* ------------------------------------------------------------------ infidelity / decay amplitudes *)
Definition valid_analysis (a : analysis_d) : Prop :=
  In (a_which a) ["total"; "correlations"]%string /\
  (forall l, a_ids a = Some l -> incl l (map n_id (p_n (a_pulse a)))) /\
  a_test_conv a = false /\ arraylike (s_kind (a_spectrum a)) = true /\ arraylike (a_omega_kind a) = true /\
  (a_which a = "correlations"%string -> omega_matches (a_pulse a) (a_omega_tag a) = true /\ p_pc (a_pulse a) = true) /\
  documented_spectrum_shape (s_shape (a_spectrum a)) (n_selected (map n_id (p_n (a_pulse a))) (a_ids a)) (a_omega_len a) /\
  (length (s_shape (a_spectrum a)) = 3 -> s_herm (a_spectrum a) = true) /\
  (a_smallness a = true -> length (s_shape (a_spectrum a)) <= 2).

Theorem validate_infidelity_sound a : valid_analysis a -> validate_infidelity a = ok.
Proof.
  intros (Hw & Hi & Ht & Hs & Ho & Hc & Hsh & Hh & Hsm). unfold validate_infidelity.
  rewrite (proj2 (validate_option_spec _ _) Hw). simpl.
  rewrite (validate_ids_sound _ _ Hi). simpl. rewrite Ht, Hs, Ho. simpl.
  assert (W : (if String.eqb (a_which a) "total" then ok
               else check (omega_matches (a_pulse a) (a_omega_tag a)) ValueError;; check (p_pc (a_pulse a)) CalculationError) = ok).
  { destruct Hw as [Hw|[Hw|[]]]; rewrite <- Hw; simpl; auto. destruct (Hc (eq_sym Hw)) as [-> ->]. reflexivity. }
  rewrite W. simpl. rewrite (validate_spectrum_sound _ _ _ Hsh Hh). simpl.
  destruct (a_smallness a) eqn:E; simpl; auto.
  specialize (Hsm eq_refl). replace (2 <? length (s_shape (a_spectrum a))) with false by (symmetry; apply Nat.ltb_ge; exact Hsm).
  reflexivity.
Qed.
Theorem validate_decay_sound a : valid_analysis a -> validate_decay_amplitudes a = ok.
Proof.
  intros (Hw & Hi & Ht & Hs & Ho & Hc & Hsh & Hh & Hsm). unfold validate_decay_amplitudes.
  rewrite (proj2 (validate_option_spec _ _) Hw). simpl.
  rewrite (validate_ids_sound _ _ Hi). simpl. rewrite Hs, Ho. simpl.
  assert (W : (if String.eqb (a_which a) "total" then ok
               else check (omega_matches (a_pulse a) (a_omega_tag a)) ValueError;; check (p_pc (a_pulse a)) CalculationError) = ok).
  { destruct Hw as [Hw|[Hw|[]]]; rewrite <- Hw; simpl; auto. destruct (Hc (eq_sym Hw)) as [-> ->]. reflexivity. }
  rewrite W. simpl. apply (validate_spectrum_sound _ _ _ Hsh Hh).
Qed.

Definition with_which (a : analysis_d) (w : string) : analysis_d :=
  Build_analysis_d (a_pulse a) w (a_ids a) (a_spectrum a) (a_omega_kind a) (a_omega_len a) (a_omega_tag a)
                   (a_smallness a) (a_test_conv a) (a_omega_isdict a) (a_spacing a).
Definition with_pulse (a : analysis_d) (p : pulse_d) : analysis_d :=
  Build_analysis_d p (a_which a) (a_ids a) (a_spectrum a) (a_omega_kind a) (a_omega_len a) (a_omega_tag a)
                   (a_smallness a) (a_test_conv a) (a_omega_isdict a) (a_spacing a).
Definition with_ids (a : analysis_d) (l : list string) : analysis_d :=
  Build_analysis_d (a_pulse a) (a_which a) (Some l) (a_spectrum a) (a_omega_kind a) (a_omega_len a) (a_omega_tag a)
                   (a_smallness a) (a_test_conv a) (a_omega_isdict a) (a_spacing a).

Theorem analysis_complete_option a w : ~ In w ["total"; "correlations"]%string ->
  validate_infidelity (with_which a w) = Raise ValueError /\ validate_decay_amplitudes (with_which a w) = Raise ValueError.
Proof.
  intros H. unfold validate_infidelity, validate_decay_amplitudes. simpl.
  rewrite (validate_option_complete _ _ H). split; reflexivity.
Qed.
Theorem analysis_complete_identifier a l i s : In (a_which a) ["total"; "correlations"]%string ->
  i <= length l -> ~ In s (map n_id (p_n (a_pulse a))) ->
  validate_infidelity (with_ids a (firstn i l ++ s :: skipn i l)) = Raise ValueError /\
  validate_decay_amplitudes (with_ids a (firstn i l ++ s :: skipn i l)) = Raise ValueError.
Proof.
  intros Hw Hi Hs. unfold validate_infidelity, validate_decay_amplitudes. cbn [with_ids a_which a_ids a_pulse].
  rewrite (proj2 (validate_option_spec _ _) Hw). cbn [bind].
  rewrite (validate_ids_complete _ l i s Hi Hs). split; reflexivity.
Qed.
(* pulse-correlation quantities that were not computed, or are requested at other frequencies *)
Theorem analysis_complete_correlations a : valid_analysis a -> a_which a = "correlations"%string ->
  let p := a_pulse a in
  validate_infidelity (with_pulse a (Build_pulse_d (p_ispulse p) (p_d p) (p_basis p) (p_c p) (p_n p) (p_dt p) (p_omega p) (p_cm p) false))
    = Raise CalculationError /\
  validate_decay_amplitudes (with_pulse a (Build_pulse_d (p_ispulse p) (p_d p) (p_basis p) (p_c p) (p_n p) (p_dt p) (p_omega p) (p_cm p) false))
    = Raise CalculationError /\
  (forall t, t <> a_omega_tag a ->
     validate_infidelity (with_pulse a (Build_pulse_d (p_ispulse p) (p_d p) (p_basis p) (p_c p) (p_n p) (p_dt p) (Some t) (p_cm p) (p_pc p)))
       = Raise ValueError /\
     validate_decay_amplitudes (with_pulse a (Build_pulse_d (p_ispulse p) (p_d p) (p_basis p) (p_c p) (p_n p) (p_dt p) (Some t) (p_cm p) (p_pc p)))
       = Raise ValueError).
Proof.
  intros (Hw & Hi & Ht & Hs & Ho & Hc & _) Hcorr p. subst p.
  destruct (Hc Hcorr) as [Hm Hpc].
  unfold validate_infidelity, validate_decay_amplitudes. cbn [with_pulse a_which a_ids a_pulse a_test_conv a_spectrum a_omega_kind a_omega_tag p_n p_pc p_omega].
  rewrite (proj2 (validate_option_spec _ _) Hw). cbn [bind].
  rewrite (validate_ids_sound _ _ Hi). cbn [bind]. rewrite Ht, Hs, Ho, Hcorr. cbn [check andb bind String.eqb Ascii.eqb Bool.eqb].
  unfold omega_matches in *. cbn [p_omega]. rewrite Hm.
  split; [reflexivity|]. split; [reflexivity|].
  intros t Hneq. apply Nat.eqb_neq in Hneq. rewrite Hneq. split; reflexivity.
Qed.

(* ------------------------------------------------------------------ cumulant function, error transfer matrix *)
Theorem validate_cumulant_sound q : valid_analysis (q_a q) -> q_have_spectrum q = true -> q_have_omega q = true ->
  q_decay_given q = false -> (q_second_order q = true -> a_which (q_a q) = "total"%string /\ (q_shifts_given q = true -> q_shifts_shape_ok q = true)) ->
  validate_cumulant q = ok.
Proof.
  intros Va Hs Ho Hd H2. unfold validate_cumulant.
  destruct Va as (Hw & Rest). rewrite (proj2 (validate_option_spec _ _) Hw). cbn [bind].
  rewrite Hs, Ho, Hd. cbn [negb andb orb check bind].
  assert (V : validate_decay_amplitudes (q_a q) = ok) by (apply validate_decay_sound; split; assumption).
  rewrite V. cbn [bind].
  destruct (q_second_order q) eqn:E2; cbn [andb].
  - destruct (H2 eq_refl) as [Wt Sh]. rewrite Wt. cbn. destruct (q_shifts_given q); cbn; [rewrite (Sh eq_refl)|]; reflexivity.
  - rewrite andb_false_r. reflexivity.
Qed.
Theorem validate_cumulant_complete q : In (a_which (q_a q)) ["total"; "correlations"]%string ->
  (q_have_spectrum q = false -> q_have_omega q = false -> q_decay_given q = false -> validate_cumulant q = Raise ValueError) /\
  (q_have_spectrum q = false -> q_have_omega q = false -> q_second_order q = true -> q_shifts_given q = false -> validate_cumulant q = Raise ValueError) /\
  (q_have_spectrum q = true -> a_which (q_a q) = "correlations"%string -> q_second_order q = true -> validate_cumulant q = Raise ValueError) /\
  (q_decay_given q = true -> a_which (q_a q) = "total"%string -> q_second_order q = true -> q_shifts_given q = true -> q_shifts_shape_ok q = false ->
   validate_cumulant q = Raise ValueError).
Proof.
  intros Hw. unfold validate_cumulant. rewrite (proj2 (validate_option_spec _ _) Hw). cbn [bind]. repeat split.
  - intros -> -> ->. reflexivity.
  - intros -> -> -> ->. cbn. destruct (q_decay_given q); reflexivity.
  - intros -> -> ->. reflexivity.
  - intros -> -> -> -> ->. cbn. rewrite !andb_false_r. reflexivity.
Qed.

Theorem validate_etm_complete t :
  (t_cum t = KNotArray -> validate_etm t = Raise TypeError) /\
  (forall s a b, t_cum t = KArray (s ++ [a; b]) -> a <> b -> validate_etm t = Raise ValueError) /\
  (forall a, t_cum t = KArray [a] -> validate_etm t = Raise ValueError) /\
  (t_cum t = KNone -> t_have_pulse t && q_have_spectrum (t_q t) && q_have_omega (t_q t) = false -> validate_etm t = Raise ValueError) /\
  (forall s a, t_cum t = KArray (s ++ [a; a]) -> validate_etm t = ok).
Proof.
  unfold validate_etm. repeat split.
  - intros ->. reflexivity.
  - intros s a b -> Hab. rewrite rev_app_distr. cbn [rev app firstn]. unfold check, square.
    replace (b =? a) with false by (symmetry; apply Nat.eqb_neq; congruence). rewrite andb_false_r. reflexivity.
  - intros a ->. reflexivity.
  - intros -> ->. reflexivity.
  - intros s a ->. rewrite rev_app_distr, app_length. cbn [rev app firstn length]. unfold check, square. rewrite Nat.eqb_refl.
    replace (2 <=? length s + 2) with true by (symmetry; apply Nat.leb_le; lia). reflexivity.
Qed.

(* ------------------------------------------------------------------ non-integer qubit index, periodic repetition count *)
Theorem extend_complete_nonint_qubit x i e : x_entries x <> [] -> Forall (fun e => p_ispulse (x_pulse e) = true) (x_entries x) ->
  i < length (x_entries x) -> p_ispulse (x_pulse e) = true -> x_qubits e = QNonInt ->
  validate_extend (Build_extend_d (upd (x_entries x) i e) (x_ndt x) (x_N x) (x_dpq x) (x_add x) (x_cache_diag x) (x_cache_ff x) (x_omega_given x))
  = Raise TypeError.
Proof.
  intros Hne Hp Hi He Hq. unfold validate_extend. simpl.
  assert (L : (length (upd (x_entries x) i e) =? 0) = false) by (rewrite upd_len; apply Nat.eqb_neq; lia).
  rewrite L. simpl.
  rewrite (forallb_upd_true _ _ i e (proj2 (forallb_Forall (fun e => p_ispulse (x_pulse e)) _) Hp) He). simpl.
  rewrite forallb_upd_false by (first [exact Hi | rewrite Hq; reflexivity]). reflexivity.
Qed.

Theorem validate_concat_periodic_spec p n :
  (p_ispulse p = true -> (1 <= n)%Z -> validate_concat_periodic p n = ok) /\
  (p_ispulse p = false -> validate_concat_periodic p n = Raise TypeError) /\
  (p_ispulse p = true -> (n < 1)%Z -> validate_concat_periodic p n = Raise ValueError).
Proof.
  unfold validate_concat_periodic. repeat split.
  - intros -> H. simpl. replace (1 <=? n)%Z with true by (symmetry; apply Z.leb_le; exact H). reflexivity.
  - intros ->. reflexivity.
  - intros -> H. simpl. replace (1 <=? n)%Z with false by (symmetry; apply Z.leb_gt; exact H). reflexivity.
Qed.

(* ------------------------------------------------------------------ remap: the order must be a permutation of range(N) *)
Lemma perm_of_range_spec order N : is_perm_of_range order N = true ->
  NoDup order /\ (forall z, In z order -> (0 <= z < Z.of_nat N)%Z).
Proof.
  unfold is_perm_of_range. intros H. apply andb_true_iff in H. destruct H as [HL HA]. apply Nat.eqb_eq in HL.
  set (R := map Z.of_nat (seq 0 N)).
  assert (NR : NoDup R).
  { unfold R. apply FinFun.Injective_map_NoDup; [intros a b; apply Nat2Z.inj | apply seq_NoDup]. }
  assert (LR : length R = N) by (unfold R; rewrite map_length, seq_length; reflexivity).
  assert (I : incl R order).
  { intros z Hz. unfold R in Hz. apply in_map_iff in Hz. destruct Hz as [k [<- Hk]].
    rewrite forallb_forall in HA. specialize (HA k Hk). apply existsb_exists in HA. destruct HA as [y [Hy E]].
    apply Z.eqb_eq in E. subst. exact Hy. }
  split.
  - apply (@NoDup_incl_NoDup Z R order NR); [lia | exact I].
  - intros z Hz. assert (Hin : In z R) by (apply (@NoDup_length_incl Z R order NR); [lia | exact I | exact Hz]).
    unfold R in Hin. apply in_map_iff in Hin. destruct Hin as [k [<- Hk]]. apply in_seq in Hk. lia.
Qed.

(* an entry out of range, or an entry repeated -- at any positions of the order *)
Theorem validate_remap_complete_order r :
  p_d (r_pulse r) = r_dpq r ^ r_N r -> r_order_ints r = true ->
  (exists z, In z (r_order r) /\ ~ (0 <= z < Z.of_nat (r_N r))%Z) \/ ~ NoDup (r_order r) ->
  validate_remap r = Raise ValueError.
Proof.
  intros H1 H2 H3. unfold validate_remap. rewrite H1, Nat.eqb_refl, H2. simpl.
  destruct (is_perm_of_range (r_order r) (r_N r)) eqn:E; [|reflexivity]. exfalso.
  destruct (perm_of_range_spec _ _ E) as [ND IR]. destruct H3 as [[z [Hz Hr]] | Hd]; [apply Hr, IR, Hz | apply Hd, ND].
Qed.

(* ------------------------------------------------------------------ extend: additional noise Hamiltonian, cache flags *)
Definition with_add (x : extend_d) (H : H_d) (cd : option bool) : extend_d :=
  Build_extend_d (x_entries x) (x_ndt x) (x_N x) (x_dpq x) (Some H) cd (x_cache_ff x) (x_omega_given x).
Definition ext_N (x : extend_d) : nat :=
  match x_N x with None => fold_right Nat.max 0 (flat_map (fun e => qubit_list (x_qubits e)) (x_entries x)) + 1 | Some n => n end.

(* for a valid mapping, the verdict with an additional noise Hamiltonian is that of the checks on this Hamiltonian *)
Theorem extend_additional_noise x H cd cids nids : valid_extend x -> cd <> Some false ->
  collect (map (ext_ids false) (x_entries x)) = Ok cids -> collect (map (ext_ids true) (x_entries x)) = Ok nids ->
  validate_extend (with_add x H cd) =
  match validate_H true (x_ndt x) H with
  | Raise e => Raise e
  | Ok sh => check (shape_eqb sh [x_dpq x ^ ext_N x; x_dpq x ^ ext_N x]) ValueError ;;
             let add := match H with HList l => entry_ids true l | HNotList => [] end in
             check (negb (existsb (fun s => mem s nids) add)) ValueError ;;
             check (uniqueb cids && uniqueb (nids ++ add)) ValueError
  end.
Proof.
  intros (Hne & Hp & Hd & (t & Ht) & Hq & HN & Hff & Hadd & _) Hcd Hc Hn.
  unfold validate_extend, with_add. cbn [x_entries x_ndt x_N x_dpq x_add x_cache_diag x_cache_ff x_omega_given].
  assert (L : (length (x_entries x) =? 0) = false) by (destruct (x_entries x); [congruence | reflexivity]).
  rewrite L. simpl negb. cbn [check bind].
  rewrite (proj2 (forallb_Forall (fun e => p_ispulse (x_pulse e)) _) Hp). cbn [check bind].
  destruct (extend_dim_checks (x_dpq x) _ Hd) as (D0 & D1 & D2 & D3). rewrite D0, D1, D2, D3. cbn [check bind].
  rewrite (all_eqb_const Nat.eqb t _ (Nat.eqb_refl t) Ht). cbn [check bind]. rewrite Hq. cbn [check bind].
  assert (NN : match x_N x with None => true | Some n => fold_right Nat.max 0 (flat_map (fun e => qubit_list (x_qubits e)) (x_entries x)) + 1 <=? n end = true).
  { destruct (x_N x) as [n|]; auto. apply Nat.leb_le. apply HN. reflexivity. }
  rewrite NN. cbn [check bind]. unfold extend_shortcut. cbn [x_add is_none andb].
  assert (FF : match x_cache_ff x with
               | Some true => x_omega_given x || all_equal_nonempty (optnat_tags (map (fun e => p_omega (x_pulse e)) (x_entries x)))
                              && forallb (fun e => negb (is_none (p_omega (x_pulse e)))) (x_entries x)
               | _ => true end = true).
  { destruct (x_cache_ff x) as [[|]|]; auto. rewrite (Hff eq_refl). reflexivity. }
  rewrite FF. cbn [check bind].
  assert (CD : (match cd with Some false => true | _ => false end) = false) by (destruct cd as [[|]|]; auto; congruence).
  rewrite CD. cbn [andb negb check bind is_none]. rewrite Hc, Hn. unfold ext_N. reflexivity.
Qed.

Theorem extend_complete_flags x H : valid_extend x ->
  validate_extend (with_add x H (Some false)) = Raise ValueError /\
  (2 <= length (x_entries x) ->
   x_omega_given x = false -> ~ (all_equal_nonempty (optnat_tags (map (fun e => p_omega (x_pulse e)) (x_entries x))) = true /\
                                 forallb (fun e => negb (is_none (p_omega (x_pulse e)))) (x_entries x) = true) ->
   validate_extend (Build_extend_d (x_entries x) (x_ndt x) (x_N x) (x_dpq x) (x_add x) (x_cache_diag x) (Some true) false) = Raise ValueError).
Proof.
  intros (Hne & Hp & Hd & (t & Ht) & Hq & HN & Hff & Hadd & _).
  assert (L : (length (x_entries x) =? 0) = false) by (destruct (x_entries x); [congruence | reflexivity]).
  destruct (extend_dim_checks (x_dpq x) _ Hd) as (D0 & D1 & D2 & D3).
  assert (NN : match x_N x with None => true | Some n => fold_right Nat.max 0 (flat_map (fun e => qubit_list (x_qubits e)) (x_entries x)) + 1 <=? n end = true).
  { destruct (x_N x) as [n|]; auto. apply Nat.leb_le. apply HN. reflexivity. }
  split.
  - unfold validate_extend, with_add. cbn [x_entries x_ndt x_N x_dpq x_add x_cache_diag x_cache_ff x_omega_given].
    rewrite L. simpl negb. cbn [check bind].
    rewrite (proj2 (forallb_Forall (fun e => p_ispulse (x_pulse e)) _) Hp). cbn [check bind].
    rewrite D0, D1, D2, D3. cbn [check bind].
    rewrite (all_eqb_const Nat.eqb t _ (Nat.eqb_refl t) Ht). cbn [check bind]. rewrite Hq. cbn [check bind]. rewrite NN. cbn [check bind]. unfold extend_shortcut. cbn [x_add is_none andb].
    assert (FF : match x_cache_ff x with
                 | Some true => x_omega_given x || all_equal_nonempty (optnat_tags (map (fun e => p_omega (x_pulse e)) (x_entries x)))
                                && forallb (fun e => negb (is_none (p_omega (x_pulse e)))) (x_entries x)
                 | _ => true end = true).
    { destruct (x_cache_ff x) as [[|]|]; auto. rewrite (Hff eq_refl). reflexivity. }
    rewrite FF. reflexivity.
  - intros H2 Ho Hne'. unfold validate_extend. cbn [x_entries x_ndt x_N x_dpq x_add x_cache_diag x_cache_ff x_omega_given].
    rewrite L. simpl negb. cbn [check bind].
    rewrite (proj2 (forallb_Forall (fun e => p_ispulse (x_pulse e)) _) Hp). cbn [check bind].
    rewrite D0, D1, D2, D3. cbn [check bind].
    rewrite (all_eqb_const Nat.eqb t _ (Nat.eqb_refl t) Ht). cbn [check bind]. rewrite Hq. cbn [check bind]. rewrite NN. cbn [check bind orb].
    assert (SC : forall n, extend_shortcut (Build_extend_d (x_entries x) (x_ndt x) (x_N x) (x_dpq x) (x_add x) (x_cache_diag x) (Some true) false) n = false).
    { intros n. unfold extend_shortcut. cbn [x_entries x_add]. destruct (x_entries x) as [|e1 [|e2 r]]; simpl in H2; try lia; apply andb_false_r. }
    rewrite SC.
    destruct (all_equal_nonempty _ && forallb _ _) eqn:E; [|reflexivity].
    exfalso. apply Hne'. apply andb_true_iff in E. exact E.
Qed.

(* ------------------------------------------------------------------ concatenate: filter functions without frequencies *)
Theorem validate_concat_frequencies l which cff cpc : valid_pulses l -> 2 <= length l ->
  In which ["fidelity"; "generalized"]%string -> equal_omega l = false ->
  (cff = Some true \/ cpc = true) ->
  validate_concat (Build_concat_d (PsList l) which cff cpc false) = Raise ValueError /\
  validate_concat (Build_concat_d (PsList l) which cff cpc true) = ok.
Proof.
  intros V H2 Hw He Hc. unfold validate_concat. cbn [cc_which cc_pulses cc_calc_ff cc_calc_pc cc_omega_given].
  change (check (mem which ["fidelity"; "generalized"]%string) ValueError) with (validate_option which ["fidelity"; "generalized"]%string).
  rewrite (proj2 (validate_option_spec _ _) Hw). cbn [bind].
  replace (length l =? 1) with false by (symmetry; apply Nat.eqb_neq; lia).
  rewrite (validate_concat_wo_sound l V). cbn [bind]. rewrite He.
  destruct Hc as [-> | ->].
  - destruct cpc; split; reflexivity.
  - destruct cff as [[|]|]; split; reflexivity.
Qed.

(* ------------------------------------------------------------------ infidelity: smallness parameter, convergence test *)
Theorem infidelity_smallness a : valid_analysis a -> (2 < length (s_shape (a_spectrum a))) ->
  validate_infidelity (Build_analysis_d (a_pulse a) (a_which a) (a_ids a) (a_spectrum a) (a_omega_kind a) (a_omega_len a) (a_omega_tag a)
                         true (a_test_conv a) (a_omega_isdict a) (a_spacing a)) = Raise NotImplementedError.
Proof.
  intros (Hw & Hi & Ht & Hs & Ho & Hc & Hsh & Hh & _) H3. unfold validate_infidelity.
  cbn [a_which a_ids a_pulse a_test_conv a_spectrum a_omega_kind a_omega_tag a_omega_len a_smallness].
  rewrite (proj2 (validate_option_spec _ _) Hw). cbn [bind].
  rewrite (validate_ids_sound _ _ Hi). cbn [bind]. rewrite Ht, Hs, Ho. cbn [andb check bind].
  assert (W : (if String.eqb (a_which a) "total" then ok
               else check (omega_matches (a_pulse a) (a_omega_tag a)) ValueError;; check (p_pc (a_pulse a)) CalculationError) = ok).
  { destruct Hw as [Hw|[Hw|[]]]; rewrite <- Hw; simpl; auto. destruct (Hc (eq_sym Hw)) as [-> ->]. reflexivity. }
  rewrite W. cbn [bind]. rewrite (validate_spectrum_sound _ _ _ Hsh Hh). cbn [bind andb].
  replace (2 <? length (s_shape (a_spectrum a))) with true by (symmetry; apply Nat.ltb_lt; exact H3). reflexivity.
Qed.
Theorem infidelity_convergence_test p w ids s ok_kind olen otag sm isdict spacing :
  In w ["total"; "correlations"]%string -> (forall l, ids = Some l -> incl l (map n_id (p_n p))) ->
  let a := Build_analysis_d p w ids s ok_kind olen otag sm true isdict spacing in
  (s_kind s <> ACallable -> validate_infidelity a = Raise TypeError) /\
  (s_kind s = ACallable -> isdict = false -> validate_infidelity a = Raise TypeError) /\
  (s_kind s = ACallable -> isdict = true -> ~ In spacing ["linear"; "log"]%string -> validate_infidelity a = Raise ValueError) /\
  (s_kind s = ACallable -> isdict = true -> In spacing ["linear"; "log"]%string -> validate_infidelity a = ok).
Proof.
  intros Hw Hi a. unfold validate_infidelity, a.
  cbn [a_which a_ids a_pulse a_test_conv a_spectrum a_omega_isdict a_spacing].
  rewrite (proj2 (validate_option_spec _ _) Hw). cbn [bind]. rewrite (validate_ids_sound _ _ Hi). cbn [bind].
  repeat split.
  - intros Hk. destruct (s_kind s); try reflexivity. congruence.
  - intros -> ->. reflexivity.
  - intros -> -> Hs. cbn [check bind].
    change (check (mem spacing ["linear"; "log"]%string) ValueError) with (validate_option spacing ["linear"; "log"]%string).
    apply validate_option_complete. exact Hs.
  - intros -> -> Hs. cbn [check bind].
    change (check (mem spacing ["linear"; "log"]%string) ValueError) with (validate_option spacing ["linear"; "log"]%string).
    apply validate_option_spec. exact Hs.
Qed.

(* corruptions of the additional noise Hamiltonian of extend, at every position of it *)
Theorem extend_complete_additional_entry x cd es i c : valid_extend x -> cd <> Some false ->
  valid_H true (x_dpq x ^ ext_N x) (x_ndt x) es -> i < length es ->
  validate_extend (with_add x (HList (upd es i (apply_e (x_dpq x ^ ext_N x) (x_ndt x) c (nth i es e0)))) cd) = Raise (ecorr_class c).
Proof.
  intros V Hcd VH Hi. pose proof V as V'. destruct V' as (_ & _ & _ & _ & _ & _ & _ & _ & (cids & nids & Hc & Hn & _)).
  rewrite (extend_additional_noise x _ cd cids nids V Hcd Hc Hn).
  rewrite (validate_H_complete true _ _ es i c VH Hi). reflexivity.
Qed.
Theorem extend_complete_additional_dimension x cd es d' : valid_extend x -> cd <> Some false ->
  valid_H true d' (x_ndt x) es -> d' <> x_dpq x ^ ext_N x ->
  validate_extend (with_add x (HList es) cd) = Raise ValueError.
Proof.
  intros V Hcd VH Hd. pose proof V as V'. destruct V' as (_ & _ & _ & _ & _ & _ & _ & _ & (cids & nids & Hc & Hn & _)).
  rewrite (extend_additional_noise x _ cd cids nids V Hcd Hc Hn).
  rewrite (validate_H_sound true _ _ es VH). unfold shape_eqb. cbn [length all2 Nat.eqb andb].
  replace (d' =? x_dpq x ^ ext_N x) with false by (symmetry; apply Nat.eqb_neq; exact Hd). reflexivity.
Qed.
Theorem extend_complete_additional_identifier x cd es cids nids s : valid_extend x -> cd <> Some false ->
  collect (map (ext_ids false) (x_entries x)) = Ok cids -> collect (map (ext_ids true) (x_entries x)) = Ok nids ->
  valid_H true (x_dpq x ^ ext_N x) (x_ndt x) es -> In s (entry_ids true es) -> In s nids ->
  validate_extend (with_add x (HList es) cd) = Raise ValueError.
Proof.
  intros V Hcd Hc Hn VH Hs1 Hs2.
  rewrite (extend_additional_noise x _ cd cids nids V Hcd Hc Hn).
  rewrite (validate_H_sound true _ _ es VH), shape_eqb_refl. cbn [check bind].
  assert (E : existsb (fun s0 => mem s0 nids) (entry_ids true es) = true).
  { apply existsb_exists. exists s. split; [exact Hs1|]. apply existsb_exists. exists s. split; [exact Hs2 | apply String.eqb_refl]. }
  rewrite E. reflexivity.
Qed.

(* ------------------------------------------------------------------ caches, basis sizes, propagator times *)
Theorem cache_control_matrix_spec n_nops n_basis n_omega :
  validate_cache_control_matrix None n_nops n_basis n_omega = ok /\
  (forall g, validate_cache_control_matrix (Some [n_nops; n_basis; n_omega]) n_nops n_basis n_omega = ok /\
             validate_cache_control_matrix (Some [g; n_nops; n_basis; n_omega]) n_nops n_basis n_omega = ok) /\
  (* a wrong size on any of the three axes *)
  (forall a b c, (a, b, c) <> (n_nops, n_basis, n_omega) ->
     validate_cache_control_matrix (Some [a; b; c]) n_nops n_basis n_omega = Raise ValueError /\
     forall g, validate_cache_control_matrix (Some [g; a; b; c]) n_nops n_basis n_omega = Raise ValueError) /\
  (forall s, length s <> 3 -> length s <> 4 -> validate_cache_control_matrix (Some s) n_nops n_basis n_omega = Raise ValueError).
Proof.
  unfold validate_cache_control_matrix, lastn, shape_eqb. repeat split; intros; cbn; rewrite ?Nat.eqb_refl; try reflexivity.
  - destruct (a =? n_nops) eqn:E1, (b =? n_basis) eqn:E2, (c =? n_omega) eqn:E3; try reflexivity.
    apply Nat.eqb_eq in E1, E2, E3. subst. congruence.
  - destruct (a =? n_nops) eqn:E1, (b =? n_basis) eqn:E2, (c =? n_omega) eqn:E3; try reflexivity.
    apply Nat.eqb_eq in E1, E2, E3. subst. congruence.
  - apply Nat.eqb_neq in H, H0. rewrite H, H0. reflexivity.
Qed.

Theorem cache_total_phases_spec n_omega :
  validate_cache_total_phases None n_omega = ok /\ validate_cache_total_phases (Some [n_omega]) n_omega = ok /\
  (forall m, m <> n_omega -> validate_cache_total_phases (Some [m]) n_omega = Raise ValueError) /\
  (forall s, length s <> 1 -> validate_cache_total_phases (Some s) n_omega = Raise ValueError).
Proof.
  unfold validate_cache_total_phases, shape_eqb. repeat split; intros; cbn; rewrite ?Nat.eqb_refl; try reflexivity.
  - apply Nat.eqb_neq in H. rewrite H. reflexivity.
  - apply Nat.eqb_neq in H. rewrite H. reflexivity.
Qed.

Theorem cache_filter_function_spec which order n b o : In which ["fidelity"; "generalized"]%string -> order = 1 \/ order = 2 ->
  let expected := if (order =? 1) && String.eqb which "fidelity" then [n; n; o] else [n; n; b; b; o] in
  validate_cache_filter_function None which order n b o = ok /\
  validate_cache_filter_function (Some expected) which order n b o = ok /\
  (forall s, s <> expected -> validate_cache_filter_function (Some s) which order n b o = Raise ValueError).
Proof.
  intros Hw Ho expected. unfold validate_cache_filter_function.
  rewrite (proj2 (validate_option_spec _ _) Hw). cbn [bind].
  assert (O : (order =? 1) || (order =? 2) = true) by (destruct Ho; subst; reflexivity). rewrite O. cbn [check bind].
  fold expected. repeat split.
  - rewrite shape_eqb_refl. reflexivity.
  - intros s Hs. destruct (shape_eqb s expected) eqn:E; [|reflexivity]. exfalso. apply Hs.
    unfold shape_eqb in E. apply (len_all2_eq_iff Nat.eqb Nat.eqb_eq). exact E.
Qed.

Theorem basis_size_spec n : ((1 <= n)%Z -> validate_basis_size n = ok) /\ ((n < 1)%Z -> validate_basis_size n = Raise ValueError).
Proof.
  unfold validate_basis_size. split; intros H.
  - replace (1 <=? n)%Z with true by (symmetry; apply Z.leb_le; exact H). reflexivity.
  - replace (1 <=? n)%Z with false by (symmetry; apply Z.leb_gt; exact H). reflexivity.
Qed.

(* a time beyond the duration at any position of t *)
Theorem propagator_times_spec l : (Forall (fun b => b = false) l -> validate_propagator_times l = ok) /\
  (forall i, i < length l -> validate_propagator_times (upd l i true) = Raise ValueError).
Proof.
  unfold validate_propagator_times. split.
  - intros H. assert (E : existsb (fun b => b) l = false).
    { induction H as [|x l Hx _ IH]; simpl; auto. subst. exact IH. }
    rewrite E. reflexivity.
  - intros i Hi. assert (E : existsb (fun b => b) (upd l i true) = true).
    { apply existsb_exists. exists true. split; [|reflexivity].
      pose proof (nth_upd_same l i true false Hi) as N.
      assert (X : In (nth i (upd l i true) false) (upd l i true)) by (apply nth_In; rewrite upd_len; exact Hi).
      rewrite N in X. exact X. }
    rewrite E. reflexivity.
Qed.

(* ------------------------------------------------------------------ a spectrum with more rows than selected operators *)
(* exactly one operator selected (a single identifier, a one-element list, a pulse with one noise operator):
   k >= 2 rows, two- or three-dimensional, are rejected by every analysis function *)
Theorem spectrum_more_rows k kind h n_omega : 2 <= k ->
  validate_spectrum (Build_spectrum_d kind [k; n_omega] h) 1 n_omega = Raise ValueError /\
  validate_spectrum (Build_spectrum_d kind [k; k; n_omega] h) 1 n_omega = Raise ValueError.
Proof.
  intros Hk. unfold validate_spectrum, broadcastable. cbn.
  assert (A : (k =? 1) = false) by (apply Nat.eqb_neq; lia). rewrite ?Nat.eqb_refl, A. cbn. rewrite ?andb_false_r. split; reflexivity.
Qed.

Theorem analysis_more_rows a k s : valid_analysis a -> n_selected (map n_id (p_n (a_pulse a))) (a_ids a) = 1 -> 2 <= k ->
  s_kind s = s_kind (a_spectrum a) -> s_shape s = [k; a_omega_len a] \/ s_shape s = [k; k; a_omega_len a] ->
  let a' := Build_analysis_d (a_pulse a) (a_which a) (a_ids a) s (a_omega_kind a) (a_omega_len a) (a_omega_tag a)
                             (a_smallness a) (a_test_conv a) (a_omega_isdict a) (a_spacing a) in
  validate_infidelity a' = Raise ValueError /\ validate_decay_amplitudes a' = Raise ValueError /\
  (forall cs ci, validate_infidelity_derivative a' cs ci = Raise ValueError).
Proof.
  intros (Hw & Hi & Ht & Hs & Ho & Hc & _) H1 Hk Hkind Hshape a'.
  assert (V : validate_spectrum s 1 (a_omega_len a) = Raise ValueError).
  { destruct s as [kd sh hm]. simpl in Hshape. destruct (spectrum_more_rows k kd hm (a_omega_len a) Hk) as [V2 V3].
    destruct Hshape as [-> | ->]; assumption. }
  assert (W : (if String.eqb (a_which a) "total" then ok
               else check (omega_matches (a_pulse a) (a_omega_tag a)) ValueError;; check (p_pc (a_pulse a)) CalculationError) = ok).
  { destruct Hw as [Hw'|[Hw'|[]]]; rewrite <- Hw'; simpl; auto. destruct (Hc (eq_sym Hw')) as [-> ->]. reflexivity. }
  unfold validate_infidelity, validate_decay_amplitudes, validate_infidelity_derivative, a'.
  cbn [a_which a_ids a_pulse a_test_conv a_spectrum a_omega_kind a_omega_tag a_omega_len a_smallness].
  rewrite (proj2 (validate_option_spec _ _) Hw). cbn [bind].
  rewrite (validate_ids_sound _ _ Hi). cbn [bind]. rewrite Ht, Hkind, Hs, Ho. cbn [andb check bind].
  rewrite W. cbn [bind]. rewrite H1, V. repeat split; reflexivity.
Qed.

(* ------------------------------------------------------------------ pulse-correlation infidelity, control matrix gone *)
Definition pc_ready (x : pc_infid_d) : Prop :=
  let a := pi_a x in
  (forall l, a_ids a = Some l -> incl l (map n_id (p_n (a_pulse a)))) /\
  arraylike (s_kind (a_spectrum a)) = true /\ arraylike (a_omega_kind a) = true /\
  omega_matches (a_pulse a) (a_omega_tag a) = true /\ pi_ff_cached x = true /\
  documented_spectrum_shape (s_shape (a_spectrum a)) (n_selected (map n_id (p_n (a_pulse a))) (a_ids a)) (a_omega_len a) /\
  (length (s_shape (a_spectrum a)) = 3 -> s_herm (a_spectrum a) = true).

Theorem pc_infidelity_spec x : pc_ready x ->
  let sel := selected_traces (map n_id (p_n (a_pulse (pi_a x)))) (a_ids (pi_a x)) (pi_traces x) in
  (* with the control matrix cached: accepted *)
  (pi_cm_cached x = true -> validate_pc_infidelity x = ok) /\
  (* control matrix gone, every selected operator traceless: accepted *)
  (pi_cm_cached x = false -> Forall (fun b => b = false) sel -> validate_pc_infidelity x = ok) /\
  (* control matrix gone, a selected operator with non-zero trace at ANY position of the selection (whatever the other
     traces are, in particular when they cancel in the sum): CalculationError *)
  (pi_cm_cached x = false -> (exists i, i < length sel /\ nth i sel false = true) -> validate_pc_infidelity x = Raise CalculationError).
Proof.
  intros (Hi & Hs & Ho & Hm & Hf & Hsh & Hh) sel. unfold validate_pc_infidelity.
  rewrite (validate_ids_sound _ _ Hi). cbn [bind]. rewrite Hs, Ho, Hm, Hf. cbn [andb orb check bind]. fold sel.
  repeat split.
  - intros ->. cbn [orb check bind]. apply (validate_spectrum_sound _ _ _ Hsh Hh).
  - intros -> HF. assert (E : existsb (fun b => b) sel = false).
    { induction HF as [|b l Hb _ IH]; simpl; auto. subst. exact IH. }
    rewrite E. cbn [orb bind]. apply (validate_spectrum_sound _ _ _ Hsh Hh).
  - intros -> [i [Hi' Hn]]. assert (E : existsb (fun b => b) sel = true).
    { apply existsb_exists. exists true. split; [|reflexivity]. rewrite <- Hn. apply nth_In. exact Hi'. }
    rewrite E. reflexivity.
Qed.

(* the register-size test comes before the single-pulse shortcut: one two-qubit pulse on qubits (1, 2) with N = 2, one
   single-qubit pulse on qubit 1 with N = 1 (N equals the number of the pulse's qubits in both) are rejected *)
Definition one_pulse (d : nat) : pulse_d :=
  Build_pulse_d true d 0 [Build_cterm_d 0 "c"] [Build_nterm_d 0 "n" (Some 1%Z)] 0 None false false.
Example extend_register_before_shortcut :
  validate_extend (Build_extend_d [Build_ext_entry (one_pulse 4) (QTuple [1; 2]) None] 2 (Some 2) 2 None None None false) = Raise ValueError /\
  validate_extend (Build_extend_d [Build_ext_entry (one_pulse 2) (QInt 1) None] 2 (Some 1) 2 None None None false) = Raise ValueError /\
  validate_extend (Build_extend_d [Build_ext_entry (one_pulse 2) (QTuple [1]) None] 2 (Some 1) 2 None None None false) = Raise ValueError /\
  (* and the shortcut itself: own qubits, register of exactly that size *)
  validate_extend (Build_extend_d [Build_ext_entry (one_pulse 4) (QTuple [0; 1]) None] 2 (Some 2) 2 None None (Some true) false) = ok /\
  validate_extend (Build_extend_d [Build_ext_entry (one_pulse 2) (QInt 0) None] 2 None 2 None None (Some true) false) = ok.
Proof. repeat split; vm_compute; reflexivity. Qed.

(* a register smaller than the highest qubit index + 1 is rejected whatever the number of entries (in particular one) *)
Theorem extend_complete_register x n :
  x_entries x <> [] -> Forall (fun e => p_ispulse (x_pulse e) = true) (x_entries x) ->
  Forall (entry_dim_ok (x_dpq x)) (x_entries x) ->
  (exists t, Forall (fun v => v = t) (map (fun e => p_dt (x_pulse e)) (x_entries x))) ->
  x_N x = Some n -> n < fold_right Nat.max 0 (flat_map (fun e => qubit_list (x_qubits e)) (x_entries x)) + 1 ->
  validate_extend x = Raise ValueError.
Proof.
  intros Hne Hp Hd Ht Hn Hlt. apply extend_complete_clash_or_register; auto. right. exists n. split; assumption.
Qed.
