(* PulseSequence.__eq__: exact characterisation, equivalence with equality of denotations on the
   separated domain, equivalence-relation laws, detection of single-feature differences. *)
From Coq Require Import ZArith List Bool String PeanoNat Lia Permutation Sorted.
From FF Require Import Model.B64 Model.Pulse Spec.PulseSpec Proofs.PulseBase Proofs.PulseJoin Proofs.PulseCanon.
Import ListNotations.
Local Open Scope nat_scope.
Local Notation length := List.length (only parsing).

Section E.
Variable fadd : num -> num -> num.
Variable close : nat -> num -> num -> bool.
Variable bcl : nat -> cnum -> cnum -> bool.

Definition jcc (p : pulse) := fst (fst (join_equal_segments fadd p)).
Definition jnc (p : pulse) := snd (fst (join_equal_segments fadd p)).
Definition jdt (p : pulse) := snd (join_equal_segments fadd p).

(* operators, identifiers and (joined) coefficient rows in the order of the sorted identifiers *)
Definition sorted_view (ops : list mat) (ids : list string) (rows : list (list num)) :=
  (gather [] ops (argsort ids), gather EmptyString ids (argsort ids), gather [] rows (argsort ids)).

(* what __eq__ looks at *)
Definition denot (p : pulse) :=
  (sorted_view (c_opers p) (c_ids p) (jcc p), sorted_view (n_opers p) (n_ids p) (jnc p), jdt p, basis p).

(* ------------------------------------------------------------------ __eq__ as a conjunction *)
Lemma eq_bool A B :
  eq fadd close bcl A B =
  (length (jdt A) =? length (jdt B)) && all2 (close (length (basis A))) (jdt A) (jdt B) &&
  ((length (c_opers A) =? length (c_opers B)) && (length (n_opers A) =? length (n_opers B))) &&
  all2 mat_eqb (gather [] (c_opers A) (argsort (c_ids A))) (gather [] (c_opers B) (argsort (c_ids B))) &&
  all2 mat_eqb (gather [] (n_opers A) (argsort (n_ids A))) (gather [] (n_opers B) (argsort (n_ids B))) &&
  all2 String.eqb (gather EmptyString (c_ids A) (argsort (c_ids A))) (gather EmptyString (c_ids B) (argsort (c_ids B))) &&
  all2 String.eqb (gather EmptyString (n_ids A) (argsort (n_ids A))) (gather EmptyString (n_ids B) (argsort (n_ids B))) &&
  all2 list_eqb_num (gather [] (jcc A) (argsort (c_ids A))) (gather [] (jcc B) (argsort (c_ids B))) &&
  all2 list_eqb_num (gather [] (jnc A) (argsort (n_ids A))) (gather [] (jnc B) (argsort (n_ids B))) &&
  basis_eq bcl (basis A) (basis B).
Proof.
  unfold eq, eq_with, jcc, jnc, jdt.
  destruct (join_equal_segments fadd A) as [[ccA ncA] dtA].
  destruct (join_equal_segments fadd B) as [[ccB ncB] dtB]. cbn [fst snd].
  repeat match goal with
         | |- context [if negb ?b || negb ?c then _ else _] => destruct b; destruct c; cbn [negb orb andb]; try reflexivity
         | |- context [if negb ?b then _ else _] => destruct b; cbn [negb orb andb]; try reflexivity
         end.
Qed.

(* ------------------------------------------------------------------ lengths *)
Lemma drop_zero_rows_length p : length (c_coeffs (drop_zero p)) = length (c_coeffs p) /\ length (n_coeffs (drop_zero p)) = length (n_coeffs p).
Proof.
  unfold drop_zero. destruct (existsb _ _ && negb (forallb _ _)); cbn [c_coeffs n_coeffs]; rewrite ?map_length; auto.
Qed.
Lemma jcc_length p : length (jcc p) = length (c_coeffs p).
Proof.
  unfold jcc, join_equal_segments, join_core. rewrite <- (proj1 (drop_zero_rows_length p)).
  destruct (equal_ind (drop_zero p)); cbn [fst snd]; auto. apply map_length.
Qed.
Lemma jnc_length p : length (jnc p) = length (n_coeffs p).
Proof.
  unfold jnc, join_equal_segments, join_core. rewrite <- (proj2 (drop_zero_rows_length p)).
  destruct (equal_ind (drop_zero p)); cbn [fst snd]; auto. apply map_length.
Qed.

Lemma gather_argsort_inj {A} (d : A) (l l' : list A) ids :
  length l = length ids -> length l' = length ids ->
  gather d l (argsort ids) = gather d l' (argsort ids) -> l = l'.
Proof.
  intros H1 H2 HE. apply nth_ext with (d := d) (d' := d); [lia|].
  intros n Hn.
  assert (Hin : In n (argsort ids)).
  { eapply Permutation_in; [symmetry; apply argsort_perm|]. apply in_seq. lia. }
  apply In_nth with (d := 0) in Hin. destruct Hin as [k [Hk Hnth]].
  assert (X : nth k (gather d l (argsort ids)) d = nth k (gather d l' (argsort ids)) d) by (rewrite HE; reflexivity).
  unfold gather in X.
  rewrite (nth_indep _ d (nth 0 l d)) in X by (rewrite map_length; exact Hk).
  rewrite (nth_indep (map _ _) d (nth 0 l' d)) in X by (rewrite map_length; exact Hk).
  rewrite (map_nth (fun i => nth i l d)), (map_nth (fun i => nth i l' d)), Hnth in X. exact X.
Qed.

(* ------------------------------------------------------------------ exact characterisation *)
Theorem eq_char A B : wf A -> wf B ->
  (eq fadd close bcl A B = true <->
   length (jdt A) = length (jdt B) /\
   Forall2 (fun a b => close (length (basis A)) a b = true) (jdt A) (jdt B) /\
   sorted_view (c_opers A) (c_ids A) (jcc A) = sorted_view (c_opers B) (c_ids B) (jcc B) /\
   sorted_view (n_opers A) (n_ids A) (jnc A) = sorted_view (n_opers B) (n_ids B) (jnc B) /\
   basis_eq bcl (basis A) (basis B) = true).
Proof.
  intros (A1 & A2 & A3 & A4 & _) (B1 & B2 & B3 & B4 & _).
  rewrite eq_bool. unfold sorted_view.
  pose proof (jcc_length A) as LA. pose proof (jcc_length B) as LB.
  pose proof (jnc_length A) as LA'. pose proof (jnc_length B) as LB'.
  split.
  - intros H. rewrite !andb_true_iff in H.
    destruct H as [[[[[[[[[Hlen Hcl] [Hc Hn]] He] Hf] Hg] Hh] Hi] Hj] Hk].
    apply Nat.eqb_eq in Hlen. apply Nat.eqb_eq in Hc. apply Nat.eqb_eq in Hn.
    assert (G1 : forall {T} (d : T) l l', length (gather d l (argsort (c_ids A))) = length (gather d l' (argsort (c_ids B)))).
    { intros. rewrite !gather_length, !argsort_length. lia. }
    assert (G2 : forall {T} (d : T) l l', length (gather d l (argsort (n_ids A))) = length (gather d l' (argsort (n_ids B)))).
    { intros. rewrite !gather_length, !argsort_length. lia. }
    split; [exact Hlen|]. split; [apply all2_Forall2; assumption|].
    split; [|split; [|assumption]].
    + f_equal; [f_equal|].
      * apply (all2_eq_iff _ mat_eqb_spec); [apply G1 | assumption].
      * apply (all2_eq_iff _ String.eqb_eq); [apply G1 | assumption].
      * apply (all2_eq_iff _ list_eqb_num_spec); [apply G1 | assumption].
    + f_equal; [f_equal|].
      * apply (all2_eq_iff _ mat_eqb_spec); [apply G2 | assumption].
      * apply (all2_eq_iff _ String.eqb_eq); [apply G2 | assumption].
      * apply (all2_eq_iff _ list_eqb_num_spec); [apply G2 | assumption].
  - intros (H1 & H2 & H3 & H4 & H5).
    inversion H3 as [[Hc1 Hc2 Hc3]]. inversion H4 as [[Hn1 Hn2 Hn3]].
    assert (LC : length (c_opers A) = length (c_opers B)).
    { apply (f_equal (@List.length _)) in Hc1. rewrite !gather_length, !argsort_length in Hc1. lia. }
    assert (LN : length (n_opers A) = length (n_opers B)).
    { apply (f_equal (@List.length _)) in Hn1. rewrite !gather_length, !argsort_length in Hn1. lia. }
    rewrite Hc1, Hc2, Hc3, Hn1, Hn2, Hn3.
    repeat (apply andb_true_iff; split); try (apply Nat.eqb_eq; assumption); try assumption.
    + apply all2_Forall2; assumption.
    + apply (all2_eq_iff _ mat_eqb_spec); reflexivity.
    + apply (all2_eq_iff _ mat_eqb_spec); reflexivity.
    + apply (all2_eq_iff _ String.eqb_eq); reflexivity.
    + apply (all2_eq_iff _ String.eqb_eq); reflexivity.
    + apply (all2_eq_iff _ list_eqb_num_spec); reflexivity.
    + apply (all2_eq_iff _ list_eqb_num_spec); reflexivity.
Qed.

(* ------------------------------------------------------------------ the separated domain *)
(* merged durations are bit-equal or not close; basis entries likewise *)
Definition sep (A B : pulse) : Prop :=
  (length (jdt A) = length (jdt B) ->
   Forall2 (fun a b => close (length (basis A)) a b = true -> a = b) (jdt A) (jdt B)) /\
  (basis_eq bcl (basis A) (basis B) = true -> basis A = basis B).

Hypothesis close_refl : forall n a, close n a a = true.
Hypothesis bcl_refl : forall d a, bcl d a a = true.

Lemma all2_refl {T} (f : T -> T -> bool) l : (forall a, f a a = true) -> all2 f l l = true.
Proof. intros H. induction l; simpl; auto. rewrite H, IHl. reflexivity. Qed.

Lemma basis_eq_refl b : basis_eq bcl b b = true.
Proof.
  unfold basis_eq, shape3_eqb. rewrite !Nat.eqb_refl. simpl.
  apply all2_refl. intros x. apply all2_refl. intros r. apply all2_refl. intros a. apply bcl_refl.
Qed.

Lemma Forall2_sep_eq {T} (P : T -> T -> Prop) l1 l2 :
  Forall2 (fun a b => P a b -> a = b) l1 l2 -> Forall2 P l1 l2 -> l1 = l2.
Proof.
  induction 1 as [|a b l1 l2 Hab _ IH]; intros H; [reflexivity|].
  inversion H; subst. f_equal; auto.
Qed.
Lemma Forall2_diag {T} (P : T -> T -> Prop) l : (forall a, P a a) -> Forall2 P l l.
Proof. intros H. induction l; constructor; auto. Qed.

(* On separated pairs, == holds exactly when the denotations coincide *)
Theorem eq_iff_same_denotation A B : wf A -> wf B -> sep A B ->
  (eq fadd close bcl A B = true <-> denot A = denot B).
Proof.
  intros WA WB [S1 S2]. rewrite (eq_char A B WA WB). unfold denot. split.
  - intros (H1 & H2 & H3 & H4 & H5).
    f_equal; [f_equal; [f_equal; assumption|]|].
    + apply (Forall2_sep_eq _ _ _ (S1 H1) H2).
    + apply S2, H5.
  - intros H.
    assert (H3 := f_equal (fun x => fst (fst (fst x))) H). assert (H4 := f_equal (fun x => snd (fst (fst x))) H).
    assert (H5 := f_equal (fun x => snd (fst x)) H). assert (H6 := f_equal snd H).
    cbn [fst snd] in H3, H4, H5, H6.
    repeat split; auto.
    + rewrite H5. reflexivity.
    + rewrite H5. apply Forall2_diag. intros a. apply close_refl.
    + rewrite H6. apply basis_eq_refl.
Qed.

Lemma sep_refl A : sep A A.
Proof. split; intros; auto. apply Forall2_diag. auto. Qed.

Theorem eq_refl_wf A : wf A -> eq fadd close bcl A A = true.
Proof. intros W. apply (eq_iff_same_denotation A A W W (sep_refl A)). reflexivity. Qed.

Theorem eq_sym_sep A B : wf A -> wf B -> sep A B -> sep B A ->
  eq fadd close bcl A B = eq fadd close bcl B A.
Proof.
  intros WA WB S1 S2.
  destruct (eq fadd close bcl A B) eqn:E1, (eq fadd close bcl B A) eqn:E2; auto.
  - apply (eq_iff_same_denotation A B WA WB S1) in E1.
    assert (eq fadd close bcl B A = true) by (apply (eq_iff_same_denotation B A WB WA S2); auto). congruence.
  - apply (eq_iff_same_denotation B A WB WA S2) in E2.
    assert (eq fadd close bcl A B = true) by (apply (eq_iff_same_denotation A B WA WB S1); auto). congruence.
Qed.

Theorem eq_trans_sep A B C : wf A -> wf B -> wf C -> sep A B -> sep B C -> sep A C ->
  eq fadd close bcl A B = true -> eq fadd close bcl B C = true -> eq fadd close bcl A C = true.
Proof.
  intros WA WB WC S1 S2 S3 E1 E2.
  apply (eq_iff_same_denotation A B WA WB S1) in E1.
  apply (eq_iff_same_denotation B C WB WC S2) in E2.
  apply (eq_iff_same_denotation A C WA WC S3). congruence.
Qed.

(* ------------------------------------------------------------------ what equal denotations mean *)
(* the sorted view is determined by, and determines, the identifier -> (operator, coefficients) table *)
Definition terms (ops : list mat) (ids : list string) (rows : list (list num)) : list (mat * string * list num) :=
  combine (combine ops ids) rows.

Lemma sorted_view_terms ops ids rows : length ops = length ids -> length rows = length ids ->
  combine (combine (fst (fst (sorted_view ops ids rows))) (snd (fst (sorted_view ops ids rows)))) (snd (sorted_view ops ids rows))
  = gather ([], EmptyString, []) (terms ops ids rows) (argsort ids).
Proof.
  intros H1 H2. unfold sorted_view, terms. cbn [fst snd].
  rewrite gather_combine by (rewrite combine_length, H1, Nat.min_id; auto).
  rewrite gather_combine by exact H1. reflexivity.
Qed.

Lemma terms_ids ops ids rows : length ops = length ids -> length rows = length ids ->
  map (fun t => snd (fst t)) (terms ops ids rows) = ids.
Proof.
  intros H1 H2. unfold terms.
  rewrite <- (map_map fst snd). rewrite map_fst_combine by (rewrite combine_length; lia).
  apply map_snd_combine. exact H1.
Qed.

Theorem sorted_view_iff_table ops ids rows ops' ids' rows' :
  length ops = length ids -> length rows = length ids -> NoDup ids ->
  length ops' = length ids' -> length rows' = length ids' -> NoDup ids' ->
  (sorted_view ops ids rows = sorted_view ops' ids' rows' <->
   Permutation (terms ops ids rows) (terms ops' ids' rows')).
Proof.
  intros H1 H2 HN H1' H2' HN'. split.
  - intros HE.
    pose proof (sorted_view_terms ops ids rows H1 H2) as X.
    pose proof (sorted_view_terms ops' ids' rows' H1' H2') as Y.
    rewrite HE, Y in X.
    eapply perm_trans; [symmetry; apply (gather_argsort_perm ([], EmptyString, []) (terms ops ids rows) ids); unfold terms; rewrite !combine_length; lia|].
    rewrite <- X. apply gather_argsort_perm. unfold terms; rewrite !combine_length; lia.
  - intros HP.
    assert (K : gather ([], EmptyString, []) (terms ops ids rows) (argsort ids) =
                gather ([], EmptyString, []) (terms ops' ids' rows') (argsort ids')).
    { apply (keyed_sorted_unique (fun t => snd (fst t))).
      - rewrite <- (gather_map (fun t : mat * string * list num => snd (fst t)) ([], EmptyString, [])).
        rewrite terms_ids by assumption. simpl. apply sorted_strict; [|apply sorted_ids_sorted].
        eapply Permutation_NoDup; [symmetry; apply sorted_ids_perm | exact HN].
      - rewrite <- (gather_map (fun t : mat * string * list num => snd (fst t)) ([], EmptyString, [])).
        rewrite terms_ids by assumption. simpl. apply sorted_strict; [|apply sorted_ids_sorted].
        eapply Permutation_NoDup; [symmetry; apply sorted_ids_perm | exact HN'].
      - eapply perm_trans; [apply gather_argsort_perm; unfold terms; rewrite !combine_length; lia|].
        eapply perm_trans; [exact HP|]. symmetry. apply gather_argsort_perm. unfold terms; rewrite !combine_length; lia. }
    rewrite <- !sorted_view_terms in K by assumption.
    unfold sorted_view in *. cbn [fst snd] in K.
    assert (L : forall {T} (d : T) (l : list T) (i : list string), length (gather d l (argsort i)) = length i).
    { intros. rewrite gather_length, argsort_length. reflexivity. }
    assert (Li : length ids = length ids').
    { apply Permutation_length in HP. unfold terms in HP. rewrite !combine_length in HP. lia. }
    assert (INJ : forall {T U} (a a' : list T) (b b' : list U), length a = length b -> length a' = length b' -> length a = length a' ->
                  combine a b = combine a' b' -> a = a' /\ b = b').
    { intros T U a. induction a as [|x a IHa]; intros [|x' a'] [|y b] [|y' b'] E1 E2 E3 E4; simpl in *; try lia; auto.
      inversion E4; subst. destruct (IHa a' b b') as [-> ->]; auto. }
    apply INJ in K; try (rewrite ?combine_length, !L; lia).
    destruct K as [K1 K3]. apply INJ in K1; try (rewrite !L; lia). destruct K1 as [K1 K2].
    rewrite K1, K2, K3. reflexivity.
Qed.

(* ------------------------------------------------------------------ detection of single-feature differences *)
Theorem eq_detects_operator_count A B :
  length (c_opers A) <> length (c_opers B) \/ length (n_opers A) <> length (n_opers B) ->
  eq fadd close bcl A B = false.
Proof.
  intros H. rewrite eq_bool.
  destruct (length (c_opers A) =? length (c_opers B)) eqn:E1, (length (n_opers A) =? length (n_opers B)) eqn:E2;
    try (apply Nat.eqb_eq in E1); try (apply Nat.eqb_eq in E2); try (destruct H; congruence);
    rewrite ?andb_false_r; reflexivity.
Qed.

Theorem eq_detects_segment_count A B : length (jdt A) <> length (jdt B) -> eq fadd close bcl A B = false.
Proof. intros H. rewrite eq_bool. apply Nat.eqb_neq in H. rewrite H. reflexivity. Qed.

(* equal pulses have the same identifier -> (operator, merged coefficients) tables *)
Theorem eq_tables A B : wf A -> wf B -> eq fadd close bcl A B = true ->
  Permutation (terms (c_opers A) (c_ids A) (jcc A)) (terms (c_opers B) (c_ids B) (jcc B)) /\
  Permutation (terms (n_opers A) (n_ids A) (jnc A)) (terms (n_opers B) (n_ids B) (jnc B)).
Proof.
  intros WA WB H. apply (eq_char A B WA WB) in H. destruct H as (_ & _ & H3 & H4 & _).
  destruct WA as (A1 & A2 & A3 & A4 & _ & _ & A7 & A8 & _). destruct WB as (B1 & B2 & B3 & B4 & _ & _ & B7 & B8 & _).
  split.
  - apply sorted_view_iff_table in H3; auto; rewrite ?jcc_length; lia.
  - apply sorted_view_iff_table in H4; auto; rewrite ?jnc_length; lia.
Qed.

Lemma perm_ids {T U} (l l' : list (T * string * U)) : Permutation l l' ->
  Permutation (map (fun t => snd (fst t)) l) (map (fun t => snd (fst t)) l').
Proof. apply Permutation_map. Qed.

(* an identifier that occurs in only one of the pulses *)
Theorem eq_detects_identifier A B s : wf A -> wf B ->
  (In s (c_ids A) /\ ~ In s (c_ids B)) \/ (In s (n_ids A) /\ ~ In s (n_ids B)) \/
  (In s (c_ids B) /\ ~ In s (c_ids A)) \/ (In s (n_ids B) /\ ~ In s (n_ids A)) ->
  eq fadd close bcl A B = false.
Proof.
  intros WA WB H. destruct (eq fadd close bcl A B) eqn:E; auto. exfalso.
  destruct (eq_tables A B WA WB E) as [Pc Pn].
  apply perm_ids in Pc. apply perm_ids in Pn.
  destruct WA as (A1 & A2 & A3 & A4 & _). destruct WB as (B1 & B2 & B3 & B4 & _).
  rewrite !terms_ids in Pc, Pn by (rewrite ?jcc_length, ?jnc_length; lia).
  destruct H as [[H1 H2]|[[H1 H2]|[[H1 H2]|[H1 H2]]]]; apply H2.
  - eapply Permutation_in; [exact Pc | exact H1].
  - eapply Permutation_in; [exact Pn | exact H1].
  - eapply Permutation_in; [symmetry; exact Pc | exact H1].
  - eapply Permutation_in; [symmetry; exact Pn | exact H1].
Qed.

(* in a table with pairwise distinct identifiers an identifier has one operator and one coefficient row *)
Lemma table_functional (l : list (mat * string * list num)) o i r o' r' :
  NoDup (map (fun t => snd (fst t)) l) -> In (o, i, r) l -> In (o', i, r') l -> o = o' /\ r = r'.
Proof.
  induction l as [|[[o0 i0] r0] l IH]; simpl; intros HN H1 H2; [contradiction|].
  inversion HN as [|? ? Hnin HN']; subst.
  destruct H1 as [H1|H1], H2 as [H2|H2].
  - inversion H1; inversion H2; subst. auto.
  - inversion H1; subst. exfalso. apply Hnin. apply (in_map (fun t => snd (fst t))) in H2. exact H2.
  - inversion H2; subst. exfalso. apply Hnin. apply (in_map (fun t => snd (fst t))) in H1. exact H1.
  - apply IH; assumption.
Qed.

(* equal pulses store, under every identifier, the same operator and the same merged coefficients *)
Theorem eq_same_operator_and_coefficients A B : wf A -> wf B -> eq fadd close bcl A B = true ->
  forall o i r o' r',
    (In (o, i, r) (terms (c_opers A) (c_ids A) (jcc A)) -> In (o', i, r') (terms (c_opers B) (c_ids B) (jcc B)) -> o = o' /\ r = r') /\
    (In (o, i, r) (terms (n_opers A) (n_ids A) (jnc A)) -> In (o', i, r') (terms (n_opers B) (n_ids B) (jnc B)) -> o = o' /\ r = r').
Proof.
  intros WA WB E o i r o' r'. destruct (eq_tables A B WA WB E) as [Pc Pn].
  destruct WB as (B1 & B2 & B3 & B4 & _ & _ & B7 & B8 & _).
  split; intros H1 H2.
  - apply (table_functional (terms (c_opers B) (c_ids B) (jcc B)) o i r o' r'); auto.
    + rewrite terms_ids by (rewrite ?jcc_length; lia). exact B7.
    + eapply Permutation_in; [exact Pc | exact H1].
  - apply (table_functional (terms (n_opers B) (n_ids B) (jnc B)) o i r o' r'); auto.
    + rewrite terms_ids by (rewrite ?jnc_length; lia). exact B8.
    + eapply Permutation_in; [exact Pn | exact H1].
Qed.

(* a duration that is not close to its counterpart; a basis that is not close *)
Theorem eq_detects_duration A B : wf A -> wf B ->
  ~ Forall2 (fun a b => close (length (basis A)) a b = true) (jdt A) (jdt B) -> eq fadd close bcl A B = false.
Proof.
  intros WA WB H. destruct (eq fadd close bcl A B) eqn:E; auto. exfalso. apply H.
  apply (eq_char A B WA WB) in E. tauto.
Qed.
Theorem eq_detects_basis A B : basis_eq bcl (basis A) (basis B) = false -> eq fadd close bcl A B = false.
Proof. intros H. rewrite eq_bool, H. apply andb_false_r. Qed.

End E.

(* ------------------------------------------------------------------ a changed coefficient, pulses without merges *)
Section Unmerged.
Variable fadd : num -> num -> num.
Variable close : nat -> num -> num -> bool.
Variable bcl : nat -> cnum -> cnum -> bool.

(* no zero-duration segment and no two equal consecutive segments: the joined arrays are the stored ones *)
Definition unmerged (p : pulse) : Prop :=
  forallb (fun b => b) (map nonzero_dt (dt p)) = true /\ nonzero (equal_mask p) = [].

Lemma unmerged_join p : unmerged p -> join_equal_segments fadd p = (c_coeffs p, n_coeffs p, dt p).
Proof.
  intros [H1 H2]. unfold join_equal_segments, drop_zero. rewrite H1. rewrite andb_false_r.
  unfold join_core, equal_ind. rewrite H2. reflexivity.
Qed.

Theorem eq_detects_coefficient A B : wf A -> wf B -> unmerged A -> unmerged B ->
  c_ids A = c_ids B -> n_ids A = n_ids B ->
  c_coeffs A <> c_coeffs B \/ n_coeffs A <> n_coeffs B -> eq fadd close bcl A B = false.
Proof.
  intros WA WB UA UB Hci Hni Hdiff. destruct (eq fadd close bcl A B) eqn:E; auto. exfalso.
  apply (eq_char fadd close bcl A B WA WB) in E. destruct E as (_ & _ & Hc & Hn & _).
  unfold sorted_view, jcc, jnc in *. rewrite (unmerged_join A UA), (unmerged_join B UB) in *. cbn [fst snd] in *.
  destruct WA as (A1 & A2 & A3 & A4 & _). destruct WB as (B1 & B2 & B3 & B4 & _).
  assert (Hc3 := f_equal snd Hc). assert (Hn3 := f_equal snd Hn). cbn [snd] in Hc3, Hn3.
  rewrite <- Hci in Hc3. rewrite <- Hni in Hn3.
  assert (LC : length (c_opers A) = length (c_opers B)).
  { assert (Hc1 := f_equal (fun x => length (fst (fst x))) Hc). cbn [fst] in Hc1. rewrite !gather_length, !argsort_length in Hc1. lia. }
  assert (LN : length (n_opers A) = length (n_opers B)).
  { assert (Hn1 := f_equal (fun x => length (fst (fst x))) Hn). cbn [fst] in Hn1. rewrite !gather_length, !argsort_length in Hn1. lia. }
  destruct Hdiff as [Hd | Hd]; apply Hd.
  - apply (gather_argsort_inj [] _ _ (c_ids A)); [lia | lia | exact Hc3].
  - apply (gather_argsort_inj [] _ _ (n_ids A)); [lia | lia | exact Hn3].
Qed.
End Unmerged.
