(* Rounding error of the binary64 model (Model/B64.v): one rounding step, addition of non-negative values,
   left-to-right summation (the accumulation loop of _join_equal_segments). *)
From Coq Require Import ZArith List Bool Lia Reals Lra Psatz.
From FF Require Import Model.B64 Spec.PulseSpec Proofs.B64 Proofs.PulseTime.
Import ListNotations.
Local Open Scope R_scope.

Definition u64 : R := / IZR (2 ^ 53).
Lemma u64_pos : 0 < u64.
Proof. unfold u64. apply Rinv_0_lt_compat. apply IZR_lt. reflexivity. Qed.
Lemma u64_small : u64 <= / 1000000.
Proof.
  unfold u64. apply Rinv_le_contravar; [lra|]. apply IZR_le. vm_compute. discriminate.
Qed.

(* ------------------------------------------------------------------ one rounding step, on integers *)
Local Open Scope Z_scope.
Lemma round_step_Z m s : 0 < m -> 0 < s ->
  let q := m / 2 ^ s in let r := m mod 2 ^ s in let h := 2 ^ (s - 1) in
  let q' := if (h <? r) || ((r =? h) && Z.odd q) then q + 1 else q in
  Z.abs (q' * 2 ^ s - m) <= h /\ 0 <= q'.
Proof.
  intros Hm Hs q r h q'.
  assert (P : 0 < 2 ^ s) by (apply Z.pow_pos_nonneg; lia).
  assert (H2 : 2 ^ s = 2 * h).
  { unfold h. replace s with (Z.succ (s - 1)) at 1 by lia. rewrite Z.pow_succ_r by lia. reflexivity. }
  pose proof (Z.div_mod m (2 ^ s) ltac:(lia)) as DM. pose proof (Z.mod_pos_bound m (2 ^ s) P) as MB.
  fold q in DM. fold r in DM, MB.
  assert (Q0 : 0 <= q) by (apply Z.div_pos; lia).
  unfold q'. destruct ((h <? r) || ((r =? h) && Z.odd q)) eqn:E.
  - assert (h <= r).
    { apply orb_true_iff in E. destruct E as [E|E]; [apply Z.ltb_lt in E; lia|].
      apply andb_true_iff in E. destruct E as [E _]. apply Z.eqb_eq in E. lia. }
    split; [|lia]. replace ((q + 1) * 2 ^ s - m) with (2 ^ s - r) by nia. rewrite Z.abs_eq; lia.
  - apply orb_false_iff in E. destruct E as [E _]. apply Z.ltb_ge in E.
    split; [|lia]. replace (q * 2 ^ s - m) with (- r) by nia. rewrite Z.abs_opp, Z.abs_eq; lia.
Qed.
Local Close Scope Z_scope.

(* value of a dyadic whose exponent is shifted *)
Lemma d2R_shift q e s : (0 <= s)%Z -> d2R (q, (e + s)%Z) = IZR (q * 2 ^ s) * powerRZ 2 e.
Proof.
  intros Hs. unfold d2R. simpl. rewrite mult_IZR, IZR_pow2 by exact Hs.
  rewrite powerRZ_add by lra. ring.
Qed.

(* ------------------------------------------------------------------ one rounding step: relative error 2^-53 *)
Theorem rnd64_error m e : (0 < m)%Z -> (emin <= e)%Z ->
  Rabs (d2R (rnd64 (m, e)) - d2R (m, e)) <= u64 * d2R (m, e).
Proof.
  intros Hm He. unfold rnd64.
  replace (m =? 0)%Z with false by (symmetry; apply Z.eqb_neq; lia).
  set (bl := (Z.log2 (Z.abs m) + 1)%Z). set (e' := Z.max (e + bl - prec) emin).
  assert (Hpos : 0 < d2R (m, e)).
  { unfold d2R. simpl. apply Rmult_lt_0_compat; [apply IZR_lt; exact Hm | apply powerRZ_lt; lra]. }
  pose proof u64_pos as U.
  destruct (e' <=? e)%Z eqn:E.
  - rewrite d2R_norm. replace (d2R (m, e) - d2R (m, e)) with 0 by ring. rewrite Rabs_R0. nra.
  - apply Z.leb_gt in E.
    assert (He' : e' = (e + bl - prec)%Z) by (unfold e' in *; lia).
    set (s := (e' - e)%Z). assert (Hs : (0 < s)%Z) by (unfold s; lia).
    rewrite Z.abs_eq by lia. rewrite Z.sgn_pos by exact Hm. rewrite Z.mul_1_l.
    destruct (round_step_Z m s Hm Hs) as [Hr Hq]. cbv zeta in Hr, Hq.
    set (q' := if ((2 ^ (s - 1) <? m mod 2 ^ s)%Z || (m mod 2 ^ s =? 2 ^ (s - 1))%Z && Z.odd (m / 2 ^ s))%bool
               then (m / 2 ^ s + 1)%Z else (m / 2 ^ s)%Z) in *.
    rewrite d2R_norm. replace e' with (e + s)%Z by (unfold s; lia).
    rewrite d2R_shift by lia. unfold d2R at 1. simpl fst; simpl snd.
    replace (IZR (q' * 2 ^ s) * powerRZ 2 e - IZR m * powerRZ 2 e) with (IZR (q' * 2 ^ s - m) * powerRZ 2 e)
      by (rewrite minus_IZR; ring).
    assert (PP : 0 < powerRZ 2 e) by (apply powerRZ_lt; lra).
    rewrite Rabs_mult, (Rabs_pos_eq (powerRZ 2 e)) by lra. rewrite <- abs_IZR.
    (* 2^53 * |q' 2^s - m| <= m *)
    assert (ZB : (2 ^ 53 * Z.abs (q' * 2 ^ s - m) <= m)%Z).
    { assert (L : (2 ^ (Z.log2 m) <= m)%Z) by (apply Z.log2_spec; exact Hm).
      assert (S1 : (s - 1 + 53 = Z.log2 m)%Z).
      { unfold s. rewrite He'. unfold bl, prec. rewrite Z.abs_eq by lia. lia. }
      assert (L0 : (0 <= Z.log2 m)%Z) by apply Z.log2_nonneg.
      rewrite <- S1 in L. rewrite Z.pow_add_r in L by lia.
      assert (0 < 2 ^ 53)%Z by reflexivity. nia. }
    apply IZR_le in ZB. rewrite mult_IZR in ZB. unfold u64, d2R. simpl fst; simpl snd.
    assert (P53 : 0 < IZR (2 ^ 53)) by (apply IZR_lt; reflexivity).
    apply (Rmult_le_reg_l (IZR (2 ^ 53))); [exact P53|].
    replace (IZR (2 ^ 53) * (/ IZR (2 ^ 53) * (IZR m * powerRZ 2 e))) with (IZR m * powerRZ 2 e) by (field; lra).
    replace (IZR (2 ^ 53) * (IZR (Z.abs (q' * 2 ^ s - m)) * powerRZ 2 e))
      with ((IZR (2 ^ 53) * IZR (Z.abs (q' * 2 ^ s - m))) * powerRZ 2 e) by ring.
    apply Rmult_le_compat_r; [lra | exact ZB].
Qed.

(* ------------------------------------------------------------------ representable non-negative values *)
(* non-negative mantissa, exponent at least L (L = emin: a binary64 value or a sum of such; no underflow below L) *)
Definition lowexp (L : Z) (a : num) : Prop := (0 <= fst a)%Z /\ (L <= snd a)%Z.

Lemma norm_pos_exp p e : (e <= snd (norm_pos p e))%Z.
Proof. revert e; induction p as [p IH|p IH|]; intros e; simpl; try lia. specialize (IH (e + 1)%Z). lia. Qed.
Lemma norm_lowexp L a : (L <= 0)%Z -> lowexp L a -> lowexp L (norm a).
Proof.
  intros HL [H0 He]. split; [apply norm_nonneg; exact H0|].
  destruct a as [m e]. unfold norm. simpl in *. destruct m as [|p|p]; simpl; [lia| |lia].
  pose proof (norm_pos_exp p e). destruct (norm_pos p e) as [q e0]. simpl in *. lia.
Qed.

Lemma rnd64_lowexp L a : (emin <= L <= 0)%Z -> lowexp L a -> lowexp L (rnd64 a).
Proof.
  intros HL [H0 He]. split; [apply rnd64_nonneg; exact H0|].
  destruct a as [m e]. simpl in *. unfold rnd64.
  destruct (m =? 0)%Z; [simpl; lia|].
  set (e' := Z.max (e + (Z.log2 (Z.abs m) + 1) - prec) emin).
  destruct (e' <=? e)%Z eqn:E.
  - apply (norm_lowexp L (m, e)); [lia | split; simpl; lia].
  - apply Z.leb_gt in E. apply (norm_lowexp L); [lia|]. split; simpl; [|lia].
    set (s := (e' - e)%Z).
    assert (0 <= Z.abs m / 2 ^ s)%Z by (apply Z_div_nonneg_nonneg; [lia | apply Z.pow_nonneg; lia]).
    destruct (Z.eq_dec m 0) as [->|Hm0]; [simpl; lia|]. rewrite Z.sgn_pos by lia.
    destruct ((2 ^ (s - 1) <? Z.abs m mod 2 ^ s)%Z || (Z.abs m mod 2 ^ s =? 2 ^ (s - 1))%Z && Z.odd (Z.abs m / 2 ^ s))%bool; lia.
Qed.

Lemma dadd_lowexp L a b : (L <= 0)%Z -> lowexp L a -> lowexp L b -> lowexp L (dadd a b).
Proof.
  intros HL [Ha Ea] [Hb Eb]. unfold dadd, align. apply norm_lowexp; [exact HL|]. split; simpl; [|lia].
  assert (0 <= 2 ^ (snd a - Z.min (snd a) (snd b)))%Z by (apply Z.pow_nonneg; lia).
  assert (0 <= 2 ^ (snd b - Z.min (snd a) (snd b)))%Z by (apply Z.pow_nonneg; lia). nia.
Qed.

Lemma lowexp_value L a : lowexp L a -> 0 <= d2R a.
Proof. intros [H _]. apply d2R_nonneg. exact H. Qed.

(* rounding of a non-negative value with exponent >= emin *)
Lemma rnd64_error_nonneg a : lowexp emin a -> Rabs (d2R (rnd64 a) - d2R a) <= u64 * d2R a.
Proof.
  intros [H0 He]. destruct a as [m e]. simpl in *.
  destruct (Z.eq_dec m 0) as [->|Hm].
  - unfold rnd64. simpl. unfold d2R. simpl. rewrite !Rmult_0_l, Rminus_0_r, Rabs_R0. pose proof u64_pos. nra.
  - apply rnd64_error; lia.
Qed.

(* binary64 addition of non-negative values: relative error at most 2^-53 *)
Theorem fadd64_error L a b : (emin <= L <= 0)%Z -> lowexp L a -> lowexp L b ->
  Rabs (d2R (fadd64 a b) - (d2R a + d2R b)) <= u64 * (d2R a + d2R b) /\ lowexp L (fadd64 a b).
Proof.
  intros HL Ha Hb. unfold fadd64.
  assert (Hs : lowexp L (dadd a b)) by (apply dadd_lowexp; [lia | assumption | assumption]).
  split; [|apply rnd64_lowexp; assumption].
  rewrite <- d2R_dadd. apply rnd64_error_nonneg. destruct Hs as [S0 Se]. split; [exact S0 | lia].
Qed.

(* ------------------------------------------------------------------ left-to-right summation *)
Lemma gamma_step g : (1 + u64) * (g + 1) - 1 = g * (1 + u64) + u64.
Proof. ring. Qed.

Theorem fold_fadd64_error L pend : forall x, (emin <= L <= 0)%Z -> lowexp L x -> Forall (lowexp L) pend ->
  let S := d2R x + sumR pend in
  Rabs (d2R (fold_left fadd64 pend x) - S) <= ((1 + u64) ^ length pend - 1) * S /\ lowexp L (fold_left fadd64 pend x).
Proof.
  induction pend as [|p pend IH]; intros x HL Hx Hp S.
  - simpl. split; [|exact Hx]. unfold S. simpl. replace (d2R x - (d2R x + 0)) with 0 by ring. rewrite Rabs_R0.
    pose proof (lowexp_value _ _ Hx). nra.
  - inversion Hp as [|? ? Hp0 Hp']; subst.
    destruct (fadd64_error L x p HL Hx Hp0) as [E1 Hy]. set (y := fadd64 x p) in *.
    destruct (IH y HL Hy Hp') as [E2 HF]. cbv zeta in E2.
    cbn [fold_left]. fold y. split; [|exact HF].
    unfold S. cbn [sumR length].
    set (F := d2R (fold_left fadd64 pend y)) in *. set (T := d2R x + d2R p) in *. set (R0 := sumR pend) in *.
    set (g := (1 + u64) ^ length pend - 1) in *.
    assert (T0 : 0 <= T) by (unfold T; pose proof (lowexp_value _ _ Hx); pose proof (lowexp_value _ _ Hp0); lra).
    assert (RR : 0 <= R0).
    { unfold R0. clear -Hp'. induction Hp' as [|q l Hq _ IHl]; simpl; [lra|]. pose proof (lowexp_value _ _ Hq). lra. }
    pose proof u64_pos as U.
    assert (G0 : 0 <= g).
    { unfold g. assert (1 <= (1 + u64) ^ length pend) by (apply pow_R1_Rle; lra). lra. }
    assert (Y : Rabs (d2R y - T) <= u64 * T) by exact E1.
    assert (Yb : d2R y <= (1 + u64) * T) by (unfold Rabs in Y; destruct (Rcase_abs (d2R y - T)); lra).
    replace (d2R x + (d2R p + R0)) with (T + R0) by (unfold T; ring).
    change ((1 + u64) ^ Datatypes.S (length pend)) with ((1 + u64) * (1 + u64) ^ length pend).
    replace ((1 + u64) * (1 + u64) ^ length pend - 1) with (g * (1 + u64) + u64) by (unfold g; ring).
    replace (F - (T + R0)) with ((F - (d2R y + R0)) + (d2R y - T)) by ring.
    eapply Rle_trans; [apply Rabs_triang|].
    assert (E2' : Rabs (F - (d2R y + R0)) <= g * ((1 + u64) * T + R0)).
    { eapply Rle_trans; [exact E2|]. apply Rmult_le_compat_l; [exact G0 | lra]. }
    assert (P1 : 0 <= g * u64 * R0) by (apply Rmult_le_pos; [apply Rmult_le_pos; lra | exact RR]).
    assert (P2 : 0 <= u64 * R0) by (apply Rmult_le_pos; lra).
    replace (g * ((1 + u64) * T + R0)) with (g * T + g * u64 * T + g * R0) in E2' by ring.
    replace ((g * (1 + u64) + u64) * (T + R0)) with (g * T + g * u64 * T + u64 * T + g * R0 + g * u64 * R0 + u64 * R0) by ring.
    lra.
Qed.

(* (1+u)^k - 1 <= 2 k u  as long as  2 k u <= 1 *)
Lemma gamma_bound k : 2 * INR k * u64 <= 1 -> (1 + u64) ^ k - 1 <= 2 * INR k * u64.
Proof.
  pose proof u64_pos as U.
  induction k as [|k IH]; intros H.
  - simpl. lra.
  - rewrite S_INR in *. assert (H' : 2 * INR k * u64 <= 1) by nra. specialize (IH H').
    assert (K0 : 0 <= INR k) by apply pos_INR.
    cbn [pow]. nra.
Qed.

(* ------------------------------------------------------------------ values of the other exact operations, comparison *)
Lemma d2R_dneg a : d2R (dneg a) = - d2R a.
Proof. unfold d2R, dneg. simpl. rewrite opp_IZR. ring. Qed.
Lemma d2R_dsub a b : d2R (dsub a b) = d2R a - d2R b.
Proof. unfold dsub. rewrite d2R_dadd, d2R_dneg. ring. Qed.
Lemma d2R_dmul a b : d2R (dmul a b) = d2R a * d2R b.
Proof. unfold dmul. rewrite d2R_norm. unfold d2R. simpl. rewrite mult_IZR, powerRZ_add by lra. ring. Qed.
Lemma d2R_dabs a : d2R (dabs a) = Rabs (d2R a).
Proof.
  unfold d2R, dabs. simpl. rewrite abs_IZR, Rabs_mult. f_equal. symmetry. apply Rabs_pos_eq. left. apply powerRZ_lt. lra.
Qed.

Lemma align_values a b : let '(x, y, e) := align a b in d2R a = IZR x * powerRZ 2 e /\ d2R b = IZR y * powerRZ 2 e.
Proof.
  unfold align, d2R. set (e := Z.min (snd a) (snd b)).
  rewrite !mult_IZR, !IZR_pow2 by lia.
  split.
  - replace (powerRZ 2 (snd a)) with (powerRZ 2 (snd a - e) * powerRZ 2 e) by (rewrite <- powerRZ_add by lra; f_equal; lia). ring.
  - replace (powerRZ 2 (snd b)) with (powerRZ 2 (snd b - e) * powerRZ 2 e) by (rewrite <- powerRZ_add by lra; f_equal; lia). ring.
Qed.
Lemma dleb_spec a b : dleb a b = true <-> d2R a <= d2R b.
Proof.
  unfold dleb. pose proof (align_values a b) as H. destruct (align a b) as [[x y] e]. destruct H as [-> ->].
  assert (P : 0 < powerRZ 2 e) by (apply powerRZ_lt; lra).
  rewrite Z.leb_le. split.
  - intros H. apply Rmult_le_compat_r; [lra | apply IZR_le; exact H].
  - intros H. apply le_IZR. apply (Rmult_le_reg_r (powerRZ 2 e)); assumption.
Qed.

(* rounding commutes with negation *)
Lemma norm_neg m e : norm ((- m)%Z, e) = dneg (norm (m, e)).
Proof.
  unfold norm, dneg. simpl. destruct m as [|p|p]; simpl; try reflexivity; destruct (norm_pos p e); reflexivity.
Qed.
Lemma rnd64_neg m e : rnd64 ((- m)%Z, e) = dneg (rnd64 (m, e)).
Proof.
  unfold rnd64. rewrite Z.abs_opp, Z.sgn_opp.
  replace (- m =? 0)%Z with (m =? 0)%Z by (destruct m; reflexivity).
  destruct (m =? 0)%Z; [reflexivity|].
  destruct (Z.max (e + (Z.log2 (Z.abs m) + 1) - prec) emin <=? e)%Z; [apply norm_neg|].
  rewrite Z.mul_opp_l. apply norm_neg.
Qed.

(* one rounding step, any sign *)
Theorem rnd64_error_abs a : (emin <= snd a)%Z -> Rabs (d2R (rnd64 a) - d2R a) <= u64 * Rabs (d2R a).
Proof.
  destruct a as [m e]. cbn [snd]. intros He. destruct (Z.lt_trichotomy m 0) as [Hn|[->|Hp]].
  - assert (Em : m = (- (- m))%Z) by lia. set (k := (- m)%Z) in *. assert (Hk : (0 < k)%Z) by (unfold k; lia).
    rewrite Em. rewrite rnd64_neg, d2R_dneg.
    assert (E : d2R ((- k)%Z, e) = - d2R (k, e)) by (unfold d2R; simpl; rewrite opp_IZR; ring).
    rewrite E. replace (- d2R (rnd64 (k, e)) - - d2R (k, e)) with (- (d2R (rnd64 (k, e)) - d2R (k, e))) by ring.
    rewrite !Rabs_Ropp. pose proof (rnd64_error k e Hk He) as H.
    rewrite (Rabs_pos_eq (d2R (k, e))); [exact H|].
    unfold d2R. simpl. apply Rmult_le_pos; [apply IZR_le; lia | left; apply powerRZ_lt; lra].
  - unfold rnd64, d2R. simpl. rewrite !Rmult_0_l, Rminus_0_r, Rabs_R0. lra.
  - pose proof (rnd64_error m e Hp He) as H. rewrite (Rabs_pos_eq (d2R (m, e))); [exact H|].
    unfold d2R. simpl. apply Rmult_le_pos; [apply IZR_le; lia | left; apply powerRZ_lt; lra].
Qed.

(* ------------------------------------------------------------------ np.isclose for two roundings of the same sum *)
Lemma norm_exp L a : (L <= 0)%Z -> (L <= snd a)%Z -> (L <= snd (norm a))%Z.
Proof.
  intros HL He. destruct a as [m e]. unfold norm. simpl in *. destruct m as [|p|p]; simpl; [lia| |];
  pose proof (norm_pos_exp p e); destruct (norm_pos p e) as [q e0]; simpl in *; lia.
Qed.

Definition w36 : R := / IZR (2 ^ 36).
Lemma w36_pos : 0 < w36.
Proof. unfold w36. apply Rinv_0_lt_compat. apply IZR_lt. reflexivity. Qed.
Lemma w36_small : w36 <= / 1000000.
Proof. unfold w36. apply Rinv_le_contravar; [lra|]. apply IZR_le. vm_compute. discriminate. Qed.

Lemma powerRZ_neg_inv k : (0 <= k)%Z -> powerRZ 2 (- k) = / IZR (2 ^ k).
Proof.
  intros Hk. assert (P : powerRZ 2 (- k) * powerRZ 2 k = 1).
  { rewrite <- powerRZ_add by lra. replace (- k + k)%Z with 0%Z by lia. reflexivity. }
  rewrite <- (IZR_pow2 k Hk) in P.
  assert (N : IZR (2 ^ k) <> 0) by (apply not_0_IZR; apply Z.pow_nonzero; lia).
  apply (Rmult_eq_reg_r (IZR (2 ^ k))); [|exact N]. rewrite P. field. exact N.
Qed.

(* rtol = 1e-10 (as binary64) is at least 2^-34 = 4 * 2^-36 *)
Lemma rtol_lower : 4 * w36 <= d2R rtol_eq.
Proof.
  unfold d2R, rtol_eq, w36. simpl fst; simpl snd.
  change (powerRZ 2 (-86)) with (powerRZ 2 (Z.opp 86)). rewrite (powerRZ_neg_inv 86) by lia.
  assert (A : IZR (2 ^ 86) = IZR (2 ^ 50) * IZR (2 ^ 36)) by (rewrite <- mult_IZR; f_equal).
  rewrite A.
  assert (P50 : 0 < IZR (2 ^ 50)) by (apply IZR_lt; reflexivity).
  assert (P36 : 0 < IZR (2 ^ 36)) by (apply IZR_lt; reflexivity).
  assert (M : 4 * IZR (2 ^ 50) <= IZR 7737125245533627).
  { rewrite <- mult_IZR. apply IZR_le. vm_compute. discriminate. }
  rewrite Rinv_mult.
  assert (I50 : 0 < / IZR (2 ^ 50)) by (apply Rinv_0_lt_compat; exact P50).
  assert (I36 : 0 < / IZR (2 ^ 36)) by (apply Rinv_0_lt_compat; exact P36).
  assert (X : 4 <= IZR 7737125245533627 * / IZR (2 ^ 50)).
  { apply (Rmult_le_reg_r (IZR (2 ^ 50))); [exact P50|]. rewrite Rmult_assoc, Rinv_l by lra. lra. }
  replace (IZR 7737125245533627 * (/ IZR (2 ^ 50) * / IZR (2 ^ 36))) with ((IZR 7737125245533627 * / IZR (2 ^ 50)) * / IZR (2 ^ 36)) by ring.
  apply Rmult_le_compat_r; lra.
Qed.

Lemma atol_eq_lowexp n : lowexp emin (atol_eq n).
Proof.
  unfold atol_eq, fmul64. apply rnd64_lowexp; [unfold emin; lia|].
  unfold dmul. apply norm_lowexp; [unfold emin; lia|]. unfold eps64. split; cbn [fst snd].
  - rewrite Z.mul_1_l. apply (norm_nonneg (Z.of_nat n, 0%Z)). simpl. lia.
  - pose proof (norm_exp 0 (Z.of_nat n, 0%Z) ltac:(lia) ltac:(simpl; lia)). unfold emin. lia.
Qed.

(* two binary64 values within relative distance g <= 2^-36 of the same positive number are np.isclose (rtol = 1e-10) *)
Theorem close_dt_from_sums nb A B S g : lowexp (-988) A -> lowexp (-988) B -> 0 < S -> 0 <= g <= w36 ->
  Rabs (d2R A - S) <= g * S -> Rabs (d2R B - S) <= g * S -> close_dt nb A B = true.
Proof.
  intros HA HB HS Hg EA EB. unfold close_dt, isclose64. apply dleb_spec. rewrite d2R_dabs.
  pose proof u64_pos as U. pose proof u64_small as Us. pose proof w36_pos as W. pose proof w36_small as Ws.
  destruct HA as [A0 Ae], HB as [B0 Be].
  (* left-hand side *)
  assert (Dexp : (emin <= snd (dsub A B))%Z).
  { unfold dsub, dadd, align. apply norm_exp; [unfold emin; lia|]. simpl. unfold emin. lia. }
  pose proof (rnd64_error_abs (dsub A B) Dexp) as ED. rewrite d2R_dsub in ED.
  assert (AB : Rabs (d2R A - d2R B) <= 2 * g * S).
  { replace (d2R A - d2R B) with ((d2R A - S) - (d2R B - S)) by ring.
    eapply Rle_trans; [apply Rabs_triang|]. rewrite Rabs_Ropp. lra. }
  assert (LHS : Rabs (d2R (fsub64 A B)) <= (1 + u64) * (2 * g * S)).
  { unfold fsub64.
    replace (d2R (rnd64 (dsub A B))) with ((d2R (rnd64 (dsub A B)) - (d2R A - d2R B)) + (d2R A - d2R B)) by ring.
    eapply Rle_trans; [apply Rabs_triang|].
    assert (0 <= Rabs (d2R A - d2R B)) by apply Rabs_pos. nra. }
  (* right-hand side *)
  assert (Bv : (1 - g) * S <= d2R B).
  { unfold Rabs in EB. destruct (Rcase_abs (d2R B - S)); lra. }
  assert (Bpos : 0 <= d2R B) by (apply d2R_nonneg; exact B0).
  assert (AbsB : lowexp (-988) (dabs B)) by (split; simpl; [lia | exact Be]).
  assert (dAbs : d2R (dabs B) = d2R B) by (rewrite d2R_dabs; apply Rabs_pos_eq; exact Bpos).
  assert (Pl : lowexp emin (dmul rtol_eq (dabs B))).
  { unfold dmul. apply norm_lowexp; [unfold emin; lia|]. unfold rtol_eq, dabs. split; cbn [fst snd].
    - apply Z.mul_nonneg_nonneg; lia.
    - unfold emin. lia. }
  pose proof (rnd64_error_nonneg _ Pl) as EM. rewrite d2R_dmul, dAbs in EM.
  fold (fmul64 rtol_eq (dabs B)) in EM. set (M := fmul64 rtol_eq (dabs B)) in *.
  assert (Ml : lowexp emin M) by (apply rnd64_lowexp; [unfold emin; lia | exact Pl]).
  assert (Mv : (1 - u64) * (d2R rtol_eq * d2R B) <= d2R M).
  { unfold Rabs in EM. destruct (Rcase_abs (d2R M - d2R rtol_eq * d2R B)); lra. }
  destruct (fadd64_error emin (atol_eq nb) M ltac:(unfold emin; lia) (atol_eq_lowexp nb) Ml) as [ET _].
  set (T := fadd64 (atol_eq nb) M) in *.
  assert (At : 0 <= d2R (atol_eq nb)) by (apply d2R_nonneg, atol_eq_nonneg).
  assert (M0 : 0 <= d2R M) by (apply (lowexp_value emin); exact Ml).
  assert (Tv : (1 - u64) * d2R M <= d2R T).
  { unfold Rabs in ET. destruct (Rcase_abs (d2R T - (d2R (atol_eq nb) + d2R M))); nra. }
  pose proof rtol_lower as RL.
  (* chain *)
  eapply Rle_trans; [exact LHS|]. eapply Rle_trans; [|exact Tv].
  assert (gS : g * S <= w36 * S) by (apply Rmult_le_compat_r; lra).
  assert (C1 : (1 + u64) * (2 * g * S) <= (1 + u64) * (2 * w36 * S)) by (apply Rmult_le_compat_l; lra).
  assert (C2 : (1 - u64) * ((1 - u64) * (4 * w36 * ((1 - w36) * S))) <= (1 - u64) * d2R M).
  { apply Rmult_le_compat_l; [lra|]. eapply Rle_trans; [|exact Mv]. apply Rmult_le_compat_l; [lra|].
    assert ((1 - w36) * S <= (1 - g) * S) by (apply Rmult_le_compat_r; lra).
    assert ((1 - w36) * S <= d2R B) by lra.
    assert (0 <= (1 - w36) * S) by (apply Rmult_le_pos; lra).
    apply Rmult_le_compat; lra. }
  assert (C3 : (1 + u64) * 2 <= (1 - u64) * ((1 - u64) * (4 * (1 - w36)))) by nra.
  assert (WS : 0 <= w36 * S) by (apply Rmult_le_pos; lra).
  eapply Rle_trans; [exact C1|]. eapply Rle_trans; [|exact C2].
  replace ((1 + u64) * (2 * w36 * S)) with (((1 + u64) * 2) * (w36 * S)) by ring.
  replace ((1 - u64) * ((1 - u64) * (4 * w36 * ((1 - w36) * S)))) with (((1 - u64) * ((1 - u64) * (4 * (1 - w36)))) * (w36 * S)) by ring.
  apply Rmult_le_compat_r; assumption.
Qed.
