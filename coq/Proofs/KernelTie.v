(* Semantic tie of the small numeric kernels: the terms translated from the CURRENT Python sources by
   tools/kernel_extract.py (Extracted/Kernels.v, regenerated on every run) equal the hand-written model functions
   (Model/Numeric.v, Model/Atomic.v), over the real instance RO.  An edit of a kernel that changes its meaning breaks
   the theorem named after the kernel; an edit that does not (renamed locals, split statements) leaves it intact. *)
From Coq Require Import ZArith Reals Lra Lia List.
From FF Require Import Base.Ops Inst.RInst Base.RAlg Model.Numeric Model.Atomic Model.Consts Extracted.Kernels
                       Proofs.Foi Proofs.CMBound Proofs.MatAlg Proofs.CMBase.
Import ListNotations.
Local Open Scope R_scope.

(* fail-closed translator: every kernel was inside the supported subset of Python / NumPy *)
Example kernels_translated : kernel_untranslated_C01 = nil.
Proof. reflexivity. Qed.

(* ---------------- numeric._first_order_integral ---------------- *)
Example foi_entry_translated : foi_entry_src_untranslated = nil.
Proof. reflexivity. Qed.

(* entry [o][m][n] of the array the Python function returns (w = E[o], evm = eigvals[m], evn = eigvals[n]) is the
   model's foi_entry, whatever the buffers exp_buf / int_buf contained on entry (parameters ge_re .. gi_im); the hypothesis
   0 <= thr is what makes the division safe under the mask (Foi.masked_div_safe) *)
Theorem foi_entry_is_source thr w evm evn dt ge_re ge_im gi_re gi_im : 0 <= thr ->
  foi_entry_src RO thr w evm evn dt ge_re ge_im gi_re gi_im = foi_entry RO thr w evm evn dt.
Proof.
  intros H0. unfold foi_entry_src, foi_entry, cite. simpl.
  set (x := w + (evm - evn)).
  destruct (Rgtb (Rabs (x * dt)) thr) eqn:Hm.
  - apply Rgtb_true in Hm. pose proof (masked_div_safe _ _ _ H0 Hm) as Hx.
    f_equal; field; exact Hx.
  - reflexivity.
Qed.

(* the literal of the mask, as read by this translator, is the constant the model uses (Model/Consts.v, read by
   tools/extract.py), and with it the equality holds unconditionally *)
Example foi_literal_is_model_constant : foi_entry_src_lit_thr = foi_thr.
Proof. reflexivity. Qed.

Theorem foi_entry_is_source_at_literal w evm evn dt ge_re ge_im gi_re gi_im :
  foi_entry_src_at_lits RO w evm evn dt ge_re ge_im gi_re gi_im = foi_entry RO foi_thr_R w evm evn dt.
Proof.
  unfold foi_entry_src_at_lits.
  change (odya RO (fst foi_entry_src_lit_thr) (snd foi_entry_src_lit_thr)) with foi_thr_R.
  apply foi_entry_is_source. apply foi_thr_eps.
Qed.

Lemma build_ext {A} n (f g : nat -> A) : (forall i, (i < n)%nat -> f i = g i) -> build n f = build n g.
Proof. intros H. unfold build. apply map_ext_in. intros i Hi. apply in_seq in Hi. apply H. lia. Qed.

(* whole array, one frequency: rows are indexed by the first eigenvalue index, columns by the second, as in the model *)
Theorem foi_is_source d thr w ev dt (ge gi : nat -> nat -> Cx) : 0 <= thr ->
  mbuild d d (fun m n => foi_entry_src RO thr w (vg RO ev m) (vg RO ev n) dt
                           (fst (ge m n)) (snd (ge m n)) (fst (gi m n)) (snd (gi m n))) = foi RO d thr w ev dt.
Proof.
  intros H0. unfold foi, mbuild. apply build_ext. intros m _. apply build_ext. intros n _.
  apply foi_entry_is_source. exact H0.
Qed.

(* ---------------- util.integrate (trapezoidal rule) ---------------- *)
Example trapz_translated : trapz_src_untranslated = nil.
Proof. reflexivity. Qed.

Lemma sumn_shift n (f : nat -> R) : sumn RO (S n) f = f 0%nat + sumn RO n (fun k => f (S k)).
Proof. induction n. simpl. ring. change (sumn RO (S (S n)) f) with (sumn RO (S n) f + f (S n)). rewrite IHn. simpl. ring. Qed.

Theorem trapz_is_source (fl xl : list R) : length xl = length fl ->
  trapz RO fl xl = trapz_src RO (length fl) (fun i => vget RO fl i) (fun i => vget RO xl i).
Proof.
  unfold trapz_src. revert xl. induction fl as [|f0 fr IH]; intros xl Hl.
  - simpl. unfold Rdiv. ring.
  - destruct fr as [|f1 fr].
    + simpl. unfold Rdiv. ring.
    + destruct xl as [|x0 [|x1 xr]]; try discriminate.
      change (trapz RO (f0 :: f1 :: fr) (x0 :: x1 :: xr))
        with ((f1 + f0) * (x1 - x0) / (1 + 1) + trapz RO (f1 :: fr) (x1 :: xr)).
      rewrite (IH (x1 :: xr)) by (simpl in *; lia).
      change (Nat.pred (length (f0 :: f1 :: fr))) with (S (Nat.pred (length (f1 :: fr)))).
      rewrite sumn_shift. unfold vget. simpl. unfold Rdiv. ring.
Qed.

(* ---------------- util.cexp ---------------- *)
Example cexp_translated : cexp_entry_src_untranslated = nil.
Proof. reflexivity. Qed.

Theorem cexp_is_source (x : R) : cexp_entry_src RO x = cexp RO x.
Proof. reflexivity. Qed.

(* ---------------- numeric.calculate_filter_function ---------------- *)
Example ff_translated : ff_entry_src_untranslated = nil /\ ffgen_entry_src_untranslated = nil.
Proof. split; reflexivity. Qed.

(* 'ako,bko->abo' on (conj B, B): entry [a][b][o] of the returned array is the model's entry *)
Theorem ff_is_source na nk no (Bm : Arr3 (T:=R)) a b o : (a < na)%nat -> (b < na)%nat -> (o < no)%nat ->
  a3get RO (filter_function RO na nk no Bm) a b o = ff_entry_src RO nk (fun a' k o' => a3get RO Bm a' k o') a b o.
Proof.
  intros Ha Hb Ho. unfold filter_function, a3get at 1, a3build.
  rewrite !nth_build by assumption. unfold ff_entry_src.
  apply c_eq; [rewrite csumn_re | rewrite csumn_im]; apply sumn_ext; intros k _; csimp; reflexivity.
Qed.

(* 'ako,blo->abklo' on (conj B, B) *)
Theorem ffgen_is_source (Bm : Arr3 (T:=R)) a b k l o :
  ff_gen_entry RO Bm a b k l o = ffgen_entry_src RO (fun a' k' o' => a3get RO Bm a' k' o') a b k l o.
Proof. reflexivity. Qed.

(* ---------------- numeric._transform_by_unitary ---------------- *)
Example tbu_translated : tbu_entry_src_untranslated = nil /\ tbu_alloc_entry_src_untranslated = nil.
Proof. split; reflexivity. Qed.

(* U^dagger A U by two np.matmul calls through the buffer `out` (the second one reads and writes `out`): entry [i][j] *)
Theorem tbu_alloc_is_source d (U A : Mat (T:=R)) i j : (i < d)%nat -> (j < d)%nat ->
  mget RO (transform_by_unitary RO d U A) i j =
  tbu_alloc_entry_src RO d (fun i' j' => mget RO U i' j') (fun i' j' => mget RO A i' j') i j.
Proof.
  intros Hi Hj. unfold transform_by_unitary, mmul at 1. rewrite mget_mbuild by assumption.
  unfold tbu_alloc_entry_src.
  apply c_eq; [rewrite csumn_re | rewrite csumn_im]; apply sumn_ext; intros k Hk;
    unfold madj, mmul; rewrite !mget_mbuild by assumption; csimp; rewrite csumn_re, csumn_im; csimp; reflexivity.
Qed.

(* the same with a stack of operators and a caller-supplied buffer (its previous contents do not matter) *)
Theorem tbu_is_source d (U : Mat (T:=R)) (As : list (Mat (T:=R))) b i j : (i < d)%nat -> (j < d)%nat ->
  mget RO (transform_by_unitary RO d U (nthm As b)) i j =
  tbu_entry_src RO d (fun i' j' => mget RO U i' j') (fun b' i' j' => mget RO (nthm As b') i' j') b i j.
Proof.
  intros Hi Hj. unfold transform_by_unitary, mmul at 1. rewrite mget_mbuild by assumption.
  unfold tbu_entry_src.
  apply c_eq; [rewrite csumn_re | rewrite csumn_im]; apply sumn_ext; intros k Hk;
    unfold madj, mmul; rewrite !mget_mbuild by assumption; csimp; rewrite csumn_re, csumn_im; csimp; reflexivity.
Qed.

(* ---------------- numeric.calculate_control_matrix_from_atomic (which = 'total') ---------------- *)
Example cm_atomic_translated : cm_atomic_entry_src_untranslated = nil.
Proof. reflexivity. Qed.

Lemma sumn_lin2 n a b (f g : nat -> R) :
  a * sumn RO n f - b * sumn RO n g = sumn RO n (fun k => a * f k - b * g k).
Proof. induction n; simpl. ring. rewrite <- IHn. ring. Qed.
Lemma sumn_lin2' n a b (f g : nat -> R) :
  a * sumn RO n f + b * sumn RO n g = sumn RO n (fun k => a * f k + b * g k).
Proof. induction n; simpl. ring. rewrite <- IHn. ring. Qed.

(* the loop `for g: control_matrix += expr(phases[g]*control_matrix_atomic[g], propagators_liouville[g])` with
   expr = 'ijo,jk->iko', started from zeros: entry [a][k][o] is the model's sum over pulses *)
Theorem cm_atomic_is_source na nk no (phases : list (list Cx)) (cms : list (Arr3 (T:=R))) (Ls : list (list (list R))) a k o :
  (a < na)%nat -> (k < nk)%nat -> (o < no)%nat ->
  a3get RO (cm_from_atomic RO na nk no phases cms Ls) a k o =
  cm_atomic_entry_src RO (length cms) nk
    (fun g o' => nth o' (nth g phases nil) (c0 RO))
    (fun g a' j o' => a3get RO (nth g cms nil) a' j o')
    (fun g j k' => rget RO (nth g Ls nil) j k') a k o.
Proof.
  intros Ha Hk Ho. unfold cm_from_atomic, a3get at 1, a3build.
  rewrite !nth_build by assumption. unfold cm_atomic_entry_src.
  apply c_eq; [rewrite csumn_re | rewrite csumn_im]; simpl; rewrite Rplus_0_l; apply sumn_ext; intros g _;
    csimp; rewrite csumn_re, csumn_im; csimp;
    [rewrite sumn_lin2 | rewrite sumn_lin2']; apply sumn_ext; intros j _; ring.
Qed.

(* ---------------- numeric._propagate_eigenvectors, numeric._transform_hamiltonian ---------------- *)
Example scratch_translated : propagate_eigvecs_entry_src_untranslated = nil /\ transform_hamiltonian_entry_src_untranslated = nil
  /\ cm_scratch_entry_src_untranslated = nil /\ cm_scratch_cache_entry_src_untranslated = nil.
Proof. repeat split; reflexivity. Qed.

(* propagators.transpose(0, 2, 1).conj() @ eigvecs, segment g: Q_g^dagger V_g *)
Theorem propagate_eigvecs_is_source d (Qf Vf : nat -> nat -> nat -> Cx) (Qm Vm : Mat (T:=R)) g a b :
  (forall x y, (x < d)%nat -> (y < d)%nat -> Qf g x y = mget RO Qm x y) ->
  (forall x y, (x < d)%nat -> (y < d)%nat -> Vf g x y = mget RO Vm x y) -> (a < d)%nat -> (b < d)%nat ->
  propagate_eigvecs_entry_src RO d Qf Vf g a b = mget RO (mmul RO d (madj RO d Qm) Vm) a b.
Proof.
  intros HQ HV Ha Hb. unfold mmul. rewrite mget_mbuild by assumption. unfold propagate_eigvecs_entry_src.
  apply c_eq; cbn [fst snd]; [rewrite csumn_re | rewrite csumn_im]; apply sumn_ext; intros l Hl;
    unfold madj; rewrite mget_mbuild by assumption; rewrite (HQ l a Hl Ha), (HV l b Hl Hb); csimp; reflexivity.
Qed.

Lemma tbu_alloc_src_fmul d (U A : nat -> nat -> Cx) i j :
  tbu_alloc_entry_src RO d U A i j = fmul d (fadj U) (fmul d A U) i j.
Proof.
  unfold tbu_alloc_entry_src, fmul, fadj.
  apply c_eq; cbn [fst snd]; [rewrite csumn_re | rewrite csumn_im]; apply sumn_ext; intros k _;
    csimp; rewrite csumn_re, csumn_im; csimp; reflexivity.
Qed.

(* a translated call of _transform_by_unitary on data that agree (below d) with model matrices is the model's U^dagger A U *)
Lemma tbu_src_model d (Um Am : Mat (T:=R)) (U A : nat -> nat -> Cx) i j :
  feq d U (toF Um) -> feq d A (toF Am) -> (i < d)%nat -> (j < d)%nat ->
  tbu_alloc_entry_src RO d U A i j = mget RO (transform_by_unitary RO d Um Am) i j.
Proof.
  intros HU HA Hi Hj. rewrite tbu_alloc_src_fmul.
  assert (H : feq d (fmul d (fadj U) (fmul d A U)) (toF (transform_by_unitary RO d Um Am))).
  { rewrite HU, HA. symmetry. apply toF_transform_by_unitary. }
  apply H; assumption.
Qed.

Lemma feq_eta d (M : nat -> nat -> Cx) : feq d (fun a b => (fst (M a b), snd (M a b))) M.
Proof. intros a b _ _. symmetry. apply surjective_pairing. Qed.

(* _transform_hamiltonian: entry [j][g][m][n] = s_j^g (V_g^dagger N_j V_g)[m][n] *)
Theorem transform_hamiltonian_is_source d (Vs ns : list (Mat (T:=R))) (nc : list (list R)) j g m n : (m < d)%nat -> (n < d)%nat ->
  transform_hamiltonian_entry_src RO d (fun g' a b => mget RO (nth g' Vs nil) a b) (fun j' a b => mget RO (nthm ns j') a b)
     (fun j' g' => vg RO (nthv nc j') g') j g m n =
  cscal RO (vg RO (nthv nc j) g) (mget RO (transform_by_unitary RO d (nth g Vs nil) (nthm ns j)) m n).
Proof.
  intros Hm Hn. unfold transform_hamiltonian_entry_src. cbv beta.
  rewrite (tbu_src_model d (nth g Vs nil) (nthm ns j)) by (assumption || apply (feq_eta d (toF _))).
  destruct (mget RO (transform_by_unitary RO d (nth g Vs nil) (nthm ns j)) m n) as [x y]. apply c_eq; csimp; ring.
Qed.

(* ---------------- numeric.calculate_control_matrix_from_scratch ---------------- *)
Lemma csumn_shift n (f : nat -> Cx) : csumn RO (S n) f = cadd RO (f 0%nat) (csumn RO n (fun k => f (S k))).
Proof. induction n. simpl. ring. change (csumn RO (S (S n)) f) with (cadd RO (csumn RO (S n) f) (f (S n))). rewrite IHn. simpl. ring. Qed.

Lemma entry_loop_sum d I w N Cm : forall evs Vs Qs ts dts ss,
  length Vs = length evs -> length dts = length evs -> length ss = length evs ->
  (length evs <= length Qs)%nat -> (length evs <= length ts)%nat ->
  entry_loop d I evs Vs Qs ts dts ss w N Cm =
  csumn RO (length evs) (fun g => step_entry d I (nth g evs nil) (nth g Vs nil) (nth g Qs nil)
                                           (vg RO ts g) (vg RO dts g) w (vg RO ss g) N Cm).
Proof.
  induction evs as [|ev evs IH]; intros Vs Qs ts dts ss HV Hd Hs HQ Ht.
  - reflexivity.
  - destruct Vs as [|V Vs]; [discriminate|]. destruct Qs as [|Q Qs]; [simpl in HQ; lia|].
    destruct ts as [|t ts]; [simpl in Ht; lia|]. destruct dts as [|dt dts]; [discriminate|]. destruct ss as [|s ss]; [discriminate|].
    cbn [entry_loop]. rewrite IH by (simpl in *; lia). cbn [length]. rewrite csumn_shift. reflexivity.
Qed.

Lemma scal_csumn (a : Cx) (s : R) n (f : nat -> Cx) :
  cmul RO a (cscal RO s (csumn RO n f)) = csumn RO n (fun k => cmul RO a (cscal RO s (f k))).
Proof. induction n; simpl. cring. rewrite <- IHn. cring. Qed.
Lemma scal_csumn2 (a : Cx) (s : R) n1 n2 (F : nat -> nat -> Cx) :
  cmul RO a (cscal RO s (csumn RO n1 (fun m => csumn RO n2 (F m)))) =
  csumn RO n1 (fun m => csumn RO n2 (fun n => cmul RO a (cscal RO s (F m n)))).
Proof. induction n1; simpl. cring. rewrite <- IHn1, <- scal_csumn. cring. Qed.

Lemma RO_add0 x : oadd RO (o0 RO) x = x.
Proof. simpl. ring. Qed.

Lemma vg_sens_row G nc j g : (g < G)%nat -> vg RO (sens_row G nc j) g = vg RO (nthv nc j) g.
Proof. intros H. unfold sens_row, vg at 1, vget. apply nth_build. exact H. Qed.

(* Entry [j][k][o] of the array the Python function returns (both settings of cache_intermediates give the same term up to
   the names of the junk symbols) is the model's control_matrix_from_scratch with the threshold literal of the source, for
   ANY contents of the uninitialised work buffers and ANY state left in them by earlier iterations of the loop (junk). *)
Section Scratch.
Variables (d : nat) (evs : list (list R)) (Vs Qs bs ns : list (Mat (T:=R))) (om dts ts : list R) (nc : list (list R)).
Hypothesis He : length evs = length dts.
Hypothesis HV : length Vs = length dts.
Hypothesis HQ : (length dts <= length Qs)%nat.
Hypothesis Ht : (length dts <= length ts)%nat.

(* the model's summand for segment g and eigenvalue indices (m, n) *)
Definition scratch_term (j k o g m n : nat) : Cx :=
  cmul RO (cexp RO (vg RO om o * vg RO ts g)) (cscal RO (vg RO (nthv nc j) g)
    (cmul RO (cmul RO (mget RO (transform_by_unitary RO d (nth g Vs nil) (nthm ns j)) m n)
                      (foi_entry RO foi_thr_R (vg RO om o) (vg RO (nth g evs nil) m) (vg RO (nth g evs nil) n) (vg RO dts g)))
             (mget RO (transform_by_unitary RO d (mmul RO d (madj RO d (nth g Qs nil)) (nth g Vs nil)) (nthm bs k)) n m))).

Lemma scratch_model_sum j k o : (j < length ns)%nat -> (k < length bs)%nat -> (o < length om)%nat ->
  a3get RO (control_matrix_from_scratch RO d foi_thr_R evs Vs Qs om bs ns nc dts ts) j k o =
  csumn RO (length dts) (fun g => csumn RO d (fun m => csumn RO d (fun n => scratch_term j k o g m n))).
Proof.
  intros Hj Hk Ho. rewrite cm_entry_loop_formula by assumption.
  rewrite entry_loop_sum by (unfold sens_row; rewrite ?build_length; lia).
  rewrite He. apply csumn_ext. intros g Hg. unfold step_entry. rewrite scal_csumn2.
  apply csumn_ext; intros m Hm. apply csumn_ext; intros n Hn.
  rewrite vg_sens_row by assumption. reflexivity.
Qed.

Lemma scratch_fst (re : nat -> nat -> nat -> R) j k o : (j < length ns)%nat -> (k < length bs)%nat -> (o < length om)%nat ->
  (forall g m n, (g < length dts)%nat -> (m < d)%nat -> (n < d)%nat -> re g m n = fst (scratch_term j k o g m n)) ->
  fst (a3get RO (control_matrix_from_scratch RO d foi_thr_R evs Vs Qs om bs ns nc dts ts) j k o) =
  sumn RO (length dts) (fun g => sumn RO d (fun m => sumn RO d (fun n => re g m n))).
Proof.
  intros Hj Hk Ho H. rewrite scratch_model_sum by assumption. rewrite csumn_re.
  apply sumn_ext; intros g Hg. rewrite csumn_re. apply sumn_ext; intros m Hm. rewrite csumn_re.
  apply sumn_ext; intros n Hn. symmetry. apply H; assumption.
Qed.
Lemma scratch_snd (im : nat -> nat -> nat -> R) j k o : (j < length ns)%nat -> (k < length bs)%nat -> (o < length om)%nat ->
  (forall g m n, (g < length dts)%nat -> (m < d)%nat -> (n < d)%nat -> im g m n = snd (scratch_term j k o g m n)) ->
  snd (a3get RO (control_matrix_from_scratch RO d foi_thr_R evs Vs Qs om bs ns nc dts ts) j k o) =
  sumn RO (length dts) (fun g => sumn RO d (fun m => sumn RO d (fun n => im g m n))).
Proof.
  intros Hj Hk Ho H. rewrite scratch_model_sum by assumption. rewrite csumn_im.
  apply sumn_ext; intros g Hg. rewrite csumn_im. apply sumn_ext; intros m Hm. rewrite csumn_im.
  apply sumn_ext; intros n Hn. symmetry. apply H; assumption.
Qed.

(* the translated applications, rewritten to the model's atoms *)
Lemma scratch_NT j g m n : (m < d)%nat -> (n < d)%nat ->
  tbu_alloc_entry_src RO d (fun a b => (fst (mget RO (nth g Vs nil) a b), snd (mget RO (nth g Vs nil) a b)))
                           (fun a b => (fst (mget RO (nthm ns j) a b), snd (mget RO (nthm ns j) a b))) m n =
  mget RO (transform_by_unitary RO d (nth g Vs nil) (nthm ns j)) m n.
Proof. intros. apply tbu_src_model; try assumption; apply (feq_eta d (toF _)). Qed.

Lemma scratch_BT k g m n : (m < d)%nat -> (n < d)%nat ->
  tbu_alloc_entry_src RO d
    (fun a b => (fst (propagate_eigvecs_entry_src RO d
                        (fun g' a' b' => (fst (mget RO (nth g' Qs nil) a' b'), snd (mget RO (nth g' Qs nil) a' b')))
                        (fun g' a' b' => (fst (mget RO (nth g' Vs nil) a' b'), snd (mget RO (nth g' Vs nil) a' b'))) g a b),
                 snd (propagate_eigvecs_entry_src RO d
                        (fun g' a' b' => (fst (mget RO (nth g' Qs nil) a' b'), snd (mget RO (nth g' Qs nil) a' b')))
                        (fun g' a' b' => (fst (mget RO (nth g' Vs nil) a' b'), snd (mget RO (nth g' Vs nil) a' b'))) g a b)))
    (fun a b => (fst (mget RO (nthm bs k) a b), snd (mget RO (nthm bs k) a b))) n m =
  mget RO (transform_by_unitary RO d (mmul RO d (madj RO d (nth g Qs nil)) (nth g Vs nil)) (nthm bs k)) n m.
Proof.
  intros Hm Hn. apply tbu_src_model; try assumption; [| apply (feq_eta d (toF _))].
  intros a b Ha Hb. rewrite <- surjective_pairing. unfold toF.
  apply propagate_eigvecs_is_source; try assumption; intros; symmetry; apply surjective_pairing.
Qed.
End Scratch.

Theorem cm_scratch_is_source d evs Vs Qs bs ns om dts ts nc junk j k o :
  length evs = length dts -> length Vs = length dts -> (length dts <= length Qs)%nat -> (length dts <= length ts)%nat ->
  (j < length ns)%nat -> (k < length bs)%nat -> (o < length om)%nat ->
  a3get RO (control_matrix_from_scratch RO d foi_thr_R evs Vs Qs om bs ns nc dts ts) j k o =
  cm_scratch_entry_src RO d (length dts)
    (fun g m => vg RO (nth g evs nil) m) (fun g a b => mget RO (nth g Vs nil) a b) (fun g a b => mget RO (nth g Qs nil) a b)
    (fun k' a b => mget RO (nthm bs k') a b) (fun j' a b => mget RO (nthm ns j') a b)
    (fun o' => vg RO om o') (fun g => vg RO dts g) (fun g => vg RO ts g) (fun j' g => vg RO (nthv nc j') g) junk j k o.
Proof.
  intros He HV HQ Ht Hj Hk Ho. unfold cm_scratch_entry_src. cbv beta.
  apply c_eq; cbn [fst snd]; rewrite RO_add0.
  - apply scratch_fst; try assumption. intros g m n Hg Hm Hn. unfold scratch_term.
    rewrite !(scratch_NT d Vs ns j g m n Hm Hn), !(scratch_BT d Vs Qs bs k g m n Hm Hn), !foi_entry_is_source_at_literal.
    destruct (mget RO (transform_by_unitary RO d (nth g Vs nil) (nthm ns j)) m n) as [a1 a2].
    destruct (foi_entry RO foi_thr_R (vg RO om o) (vg RO (nth g evs nil) m) (vg RO (nth g evs nil) n) (vg RO dts g)) as [b1 b2].
    destruct (mget RO (transform_by_unitary RO d (mmul RO d (madj RO d (nth g Qs nil)) (nth g Vs nil)) (nthm bs k)) n m) as [c1 c2].
    csimp. ring.
  - apply scratch_snd; try assumption. intros g m n Hg Hm Hn. unfold scratch_term.
    rewrite !(scratch_NT d Vs ns j g m n Hm Hn), !(scratch_BT d Vs Qs bs k g m n Hm Hn), !foi_entry_is_source_at_literal.
    destruct (mget RO (transform_by_unitary RO d (nth g Vs nil) (nthm ns j)) m n) as [a1 a2].
    destruct (foi_entry RO foi_thr_R (vg RO om o) (vg RO (nth g evs nil) m) (vg RO (nth g evs nil) n) (vg RO dts g)) as [b1 b2].
    destruct (mget RO (transform_by_unitary RO d (mmul RO d (madj RO d (nth g Qs nil)) (nth g Vs nil)) (nthm bs k)) n m) as [c1 c2].
    csimp. ring.
Qed.

(* cache_intermediates=True: the work buffers are rows of the caches; same statement *)
Theorem cm_scratch_cache_is_source d evs Vs Qs bs ns om dts ts nc junk j k o :
  length evs = length dts -> length Vs = length dts -> (length dts <= length Qs)%nat -> (length dts <= length ts)%nat ->
  (j < length ns)%nat -> (k < length bs)%nat -> (o < length om)%nat ->
  a3get RO (control_matrix_from_scratch RO d foi_thr_R evs Vs Qs om bs ns nc dts ts) j k o =
  cm_scratch_cache_entry_src RO d (length dts)
    (fun g m => vg RO (nth g evs nil) m) (fun g a b => mget RO (nth g Vs nil) a b) (fun g a b => mget RO (nth g Qs nil) a b)
    (fun k' a b => mget RO (nthm bs k') a b) (fun j' a b => mget RO (nthm ns j') a b)
    (fun o' => vg RO om o') (fun g => vg RO dts g) (fun g => vg RO ts g) (fun j' g => vg RO (nthv nc j') g) junk j k o.
Proof.
  intros He HV HQ Ht Hj Hk Ho. unfold cm_scratch_cache_entry_src. cbv beta.
  apply c_eq; cbn [fst snd]; rewrite RO_add0.
  - apply scratch_fst; try assumption. intros g m n Hg Hm Hn. unfold scratch_term.
    rewrite !(scratch_NT d Vs ns j g m n Hm Hn), !(scratch_BT d Vs Qs bs k g m n Hm Hn), !foi_entry_is_source_at_literal.
    destruct (mget RO (transform_by_unitary RO d (nth g Vs nil) (nthm ns j)) m n) as [a1 a2].
    destruct (foi_entry RO foi_thr_R (vg RO om o) (vg RO (nth g evs nil) m) (vg RO (nth g evs nil) n) (vg RO dts g)) as [b1 b2].
    destruct (mget RO (transform_by_unitary RO d (mmul RO d (madj RO d (nth g Qs nil)) (nth g Vs nil)) (nthm bs k)) n m) as [c1 c2].
    csimp. ring.
  - apply scratch_snd; try assumption. intros g m n Hg Hm Hn. unfold scratch_term.
    rewrite !(scratch_NT d Vs ns j g m n Hm Hn), !(scratch_BT d Vs Qs bs k g m n Hm Hn), !foi_entry_is_source_at_literal.
    destruct (mget RO (transform_by_unitary RO d (nth g Vs nil) (nthm ns j)) m n) as [a1 a2].
    destruct (foi_entry RO foi_thr_R (vg RO om o) (vg RO (nth g evs nil) m) (vg RO (nth g evs nil) n) (vg RO dts g)) as [b1 b2].
    destruct (mget RO (transform_by_unitary RO d (mmul RO d (madj RO d (nth g Qs nil)) (nth g Vs nil)) (nthm bs k)) n m) as [c1 c2].
    csimp. ring.
Qed.
