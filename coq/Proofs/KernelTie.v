(* Semantic tie of the small numeric kernels: the terms translated from the CURRENT Python sources by
   tools/kernel_extract.py (Extracted/Kernels.v, regenerated on every run) equal the hand-written model functions
   (Model/Numeric.v, Model/Atomic.v), over the real instance RO.  An edit of a kernel that changes its meaning breaks
   the theorem named after the kernel; an edit that does not (renamed locals, split statements) leaves it intact. *)
From Coq Require Import ZArith Reals Lra Lia List.
From FF Require Import Base.Ops Inst.RInst Base.RAlg Model.Numeric Model.Atomic Model.Consts Extracted.Kernels
                       Proofs.Foi Proofs.CMBound.
Import ListNotations.
Local Open Scope R_scope.

(* fail-closed translator: every kernel was inside the supported subset of Python / NumPy *)
Example kernels_translated : kernel_untranslated = nil.
Proof. reflexivity. Qed.

(* ---------------- numeric._first_order_integral ---------------- *)
Example foi_entry_translated : foi_entry_src_untranslated = nil.
Proof. reflexivity. Qed.

(* entry [o][m][n] of the array the Python function returns (w = E[o], evm = eigvals[m], evn = eigvals[n]) is the
   model's foi_entry, whatever the buffers exp_buf / int_buf contained on entry (parameters ge_re .. gi_im); the hypothesis
   0 <= thr is what makes the division safe under the mask (Foi.masked_div_safe) *)
Theorem foi_entry_is_source thr w evm evn dt ge_re ge_im gi_re gi_im : 0 <= thr ->
  foi_entry_src RO thr w evm evn dt ge_re ge_im gi_re gi_im = foi_entry RO thr w evm evn dt.
Proof.
  intros H0. unfold foi_entry_src, foi_entry, cite. simpl.
  set (x := w + (evm - evn)).
  destruct (Rgtb (Rabs (x * dt)) thr) eqn:Hm.
  - apply Rgtb_true in Hm. pose proof (masked_div_safe _ _ _ H0 Hm) as Hx.
    f_equal; field; exact Hx.
  - reflexivity.
Qed.

(* the literal of the mask, as read by this translator, is the constant the model uses (Model/Consts.v, read by
   tools/extract.py), and with it the equality holds unconditionally *)
Example foi_literal_is_model_constant : foi_entry_src_lit_thr = foi_thr.
Proof. reflexivity. Qed.

Theorem foi_entry_is_source_at_literal w evm evn dt ge_re ge_im gi_re gi_im :
  foi_entry_src_at_lits RO w evm evn dt ge_re ge_im gi_re gi_im = foi_entry RO foi_thr_R w evm evn dt.
Proof.
  unfold foi_entry_src_at_lits.
  change (odya RO (fst foi_entry_src_lit_thr) (snd foi_entry_src_lit_thr)) with foi_thr_R.
  apply foi_entry_is_source. apply foi_thr_eps.
Qed.

Lemma build_ext {A} n (f g : nat -> A) : (forall i, (i < n)%nat -> f i = g i) -> build n f = build n g.
Proof. intros H. unfold build. apply map_ext_in. intros i Hi. apply in_seq in Hi. apply H. lia. Qed.

(* whole array, one frequency: rows are indexed by the first eigenvalue index, columns by the second, as in the model *)
Theorem foi_is_source d thr w ev dt (ge gi : nat -> nat -> Cx) : 0 <= thr ->
  mbuild d d (fun m n => foi_entry_src RO thr w (vg RO ev m) (vg RO ev n) dt
                           (fst (ge m n)) (snd (ge m n)) (fst (gi m n)) (snd (gi m n))) = foi RO d thr w ev dt.
Proof.
  intros H0. unfold foi, mbuild. apply build_ext. intros m _. apply build_ext. intros n _.
  apply foi_entry_is_source. exact H0.
Qed.

(* ---------------- util.integrate (trapezoidal rule) ---------------- *)
Example trapz_translated : trapz_src_untranslated = nil.
Proof. reflexivity. Qed.

Lemma sumn_shift n (f : nat -> R) : sumn RO (S n) f = f 0%nat + sumn RO n (fun k => f (S k)).
Proof. induction n. simpl. ring. change (sumn RO (S (S n)) f) with (sumn RO (S n) f + f (S n)). rewrite IHn. simpl. ring. Qed.

Theorem trapz_is_source (fl xl : list R) : length xl = length fl ->
  trapz RO fl xl = trapz_src RO (length fl) (fun i => vget RO fl i) (fun i => vget RO xl i).
Proof.
  unfold trapz_src. revert xl. induction fl as [|f0 fr IH]; intros xl Hl.
  - simpl. unfold Rdiv. ring.
  - destruct fr as [|f1 fr].
    + simpl. unfold Rdiv. ring.
    + destruct xl as [|x0 [|x1 xr]]; try discriminate.
      change (trapz RO (f0 :: f1 :: fr) (x0 :: x1 :: xr))
        with ((f1 + f0) * (x1 - x0) / (1 + 1) + trapz RO (f1 :: fr) (x1 :: xr)).
      rewrite (IH (x1 :: xr)) by (simpl in *; lia).
      change (Nat.pred (length (f0 :: f1 :: fr))) with (S (Nat.pred (length (f1 :: fr)))).
      rewrite sumn_shift. unfold vget. simpl. unfold Rdiv. ring.
Qed.

(* ---------------- util.cexp ---------------- *)
Example cexp_translated : cexp_entry_src_untranslated = nil.
Proof. reflexivity. Qed.

Theorem cexp_is_source (x : R) : cexp_entry_src RO x = cexp RO x.
Proof. reflexivity. Qed.

(* ---------------- numeric.calculate_filter_function ---------------- *)
Example ff_translated : ff_entry_src_untranslated = nil /\ ffgen_entry_src_untranslated = nil.
Proof. split; reflexivity. Qed.

(* 'ako,bko->abo' on (conj B, B): entry [a][b][o] of the returned array is the model's entry *)
Theorem ff_is_source na nk no (Bm : Arr3 (T:=R)) a b o : (a < na)%nat -> (b < na)%nat -> (o < no)%nat ->
  a3get RO (filter_function RO na nk no Bm) a b o = ff_entry_src RO nk (fun a' k o' => a3get RO Bm a' k o') a b o.
Proof.
  intros Ha Hb Ho. unfold filter_function, a3get at 1, a3build.
  rewrite !nth_build by assumption. unfold ff_entry_src.
  apply c_eq; [rewrite csumn_re | rewrite csumn_im]; apply sumn_ext; intros k _; csimp; reflexivity.
Qed.

(* 'ako,blo->abklo' on (conj B, B) *)
Theorem ffgen_is_source (Bm : Arr3 (T:=R)) a b k l o :
  ff_gen_entry RO Bm a b k l o = ffgen_entry_src RO (fun a' k' o' => a3get RO Bm a' k' o') a b k l o.
Proof. reflexivity. Qed.

(* ---------------- numeric._transform_by_unitary ---------------- *)
Example tbu_translated : tbu_entry_src_untranslated = nil /\ tbu_alloc_entry_src_untranslated = nil.
Proof. split; reflexivity. Qed.

(* U^dagger A U by two np.matmul calls through the buffer `out` (the second one reads and writes `out`): entry [i][j] *)
Theorem tbu_alloc_is_source d (U A : Mat (T:=R)) i j : (i < d)%nat -> (j < d)%nat ->
  mget RO (transform_by_unitary RO d U A) i j =
  tbu_alloc_entry_src RO d (fun i' j' => mget RO U i' j') (fun i' j' => mget RO A i' j') i j.
Proof.
  intros Hi Hj. unfold transform_by_unitary, mmul at 1. rewrite mget_mbuild by assumption.
  unfold tbu_alloc_entry_src.
  apply c_eq; [rewrite csumn_re | rewrite csumn_im]; apply sumn_ext; intros k Hk;
    unfold madj, mmul; rewrite !mget_mbuild by assumption; csimp; rewrite csumn_re, csumn_im; csimp; reflexivity.
Qed.

(* the same with a stack of operators and a caller-supplied buffer (its previous contents do not matter) *)
Theorem tbu_is_source d (U : Mat (T:=R)) (As : list (Mat (T:=R))) b i j : (i < d)%nat -> (j < d)%nat ->
  mget RO (transform_by_unitary RO d U (nthm As b)) i j =
  tbu_entry_src RO d (fun i' j' => mget RO U i' j') (fun b' i' j' => mget RO (nthm As b') i' j') b i j.
Proof.
  intros Hi Hj. unfold transform_by_unitary, mmul at 1. rewrite mget_mbuild by assumption.
  unfold tbu_entry_src.
  apply c_eq; [rewrite csumn_re | rewrite csumn_im]; apply sumn_ext; intros k Hk;
    unfold madj, mmul; rewrite !mget_mbuild by assumption; csimp; rewrite csumn_re, csumn_im; csimp; reflexivity.
Qed.

(* ---------------- numeric.calculate_control_matrix_from_atomic (which = 'total') ---------------- *)
Example cm_atomic_translated : cm_atomic_entry_src_untranslated = nil.
Proof. reflexivity. Qed.

Lemma sumn_lin2 n a b (f g : nat -> R) :
  a * sumn RO n f - b * sumn RO n g = sumn RO n (fun k => a * f k - b * g k).
Proof. induction n; simpl. ring. rewrite <- IHn. ring. Qed.
Lemma sumn_lin2' n a b (f g : nat -> R) :
  a * sumn RO n f + b * sumn RO n g = sumn RO n (fun k => a * f k + b * g k).
Proof. induction n; simpl. ring. rewrite <- IHn. ring. Qed.

(* the loop `for g: control_matrix += expr(phases[g]*control_matrix_atomic[g], propagators_liouville[g])` with
   expr = 'ijo,jk->iko', started from zeros: entry [a][k][o] is the model's sum over pulses *)
Theorem cm_atomic_is_source na nk no (phases : list (list Cx)) (cms : list (Arr3 (T:=R))) (Ls : list (list (list R))) a k o :
  (a < na)%nat -> (k < nk)%nat -> (o < no)%nat ->
  a3get RO (cm_from_atomic RO na nk no phases cms Ls) a k o =
  cm_atomic_entry_src RO (length cms) nk
    (fun g o' => nth o' (nth g phases nil) (c0 RO))
    (fun g a' j o' => a3get RO (nth g cms nil) a' j o')
    (fun g j k' => rget RO (nth g Ls nil) j k') a k o.
Proof.
  intros Ha Hk Ho. unfold cm_from_atomic, a3get at 1, a3build.
  rewrite !nth_build by assumption. unfold cm_atomic_entry_src.
  apply c_eq; [rewrite csumn_re | rewrite csumn_im]; simpl; rewrite Rplus_0_l; apply sumn_ext; intros g _;
    csimp; rewrite csumn_re, csumn_im; csimp;
    [rewrite sumn_lin2 | rewrite sumn_lin2']; apply sumn_ext; intros j _; ring.
Qed.
