(* Semantic tie of numeric._get_integrand (control-matrix path, generalized filter function) and of the direct path of
   numeric.calculate_decay_amplitudes (C08): terms translated from the current Python sources by tools/kernel_extract.py
   (Extracted/Kernels.v) equal the model functions of Model/Decay.v. *)
From Coq Require Import ZArith Reals Lra Lia List.
From FF Require Import Base.Ops Inst.RInst Base.RAlg Model.Numeric Model.Decay Extracted.Kernels.
Import ListNotations.
Local Open Scope R_scope.

Example kernels_translated_C08 : kernel_untranslated_C08 = nil.
Proof. reflexivity. Qed.

(* '...ko,...o,...lo->...klo' on (conj B[idx], S, B[idx]), real part; sel i = idx[i] *)
Theorem integrand1_is_source (L : Arr3 (T:=R)) idx (s : list Cx) i k l o :
  integrand_cm RO L L idx (Sp1 s) i i k l o =
  integrand1_src RO (fun p => sel idx p) (fun o' => nth o' s (c0 RO)) (fun a k' o' => a3get RO L a k' o') i k l o.
Proof. unfold integrand_cm, spec_at, integrand1_src, cre. csimp. reflexivity. Qed.

Theorem integrand2_is_source (L : Arr3 (T:=R)) idx (s : list (list Cx)) i k l o :
  integrand_cm RO L L idx (Sp2 s) i i k l o =
  integrand2_src RO (fun p => sel idx p) (fun i' o' => nth o' (nth i' s nil) (c0 RO)) (fun a k' o' => a3get RO L a k' o') i k l o.
Proof. unfold integrand_cm, spec_at, integrand2_src, cre. csimp. reflexivity. Qed.

(* 'ako,abo,blo->abklo' (cross-spectral matrix) *)
Theorem integrand3_is_source (L : Arr3 (T:=R)) idx (s : list (list (list Cx))) i j k l o :
  integrand_cm RO L L idx (Sp3 s) i j k l o =
  integrand3_src RO (fun p => sel idx p) (fun i' j' o' => nth o' (nth j' (nth i' s nil) nil) (c0 RO))
                 (fun a k' o' => a3get RO L a k' o') i j k l o.
Proof. unfold integrand_cm, spec_at, integrand3_src, cre. csimp. reflexivity. Qed.

(* ---------------- util.integrate(.., omega) / (2 pi) on the integrand: calculate_decay_amplitudes, direct path ---------------- *)
Lemma sumn_shift' n (f : nat -> R) : sumn RO (S n) f = f 0%nat + sumn RO n (fun k => f (S k)).
Proof. induction n. simpl. ring. change (sumn RO (S (S n)) f) with (sumn RO (S n) f + f (S n)). rewrite IHn. simpl. ring. Qed.

Lemma trapz_sum (fl xl : list R) : length xl = length fl ->
  trapz RO fl xl = sumn RO (Nat.pred (length fl)) (fun k =>
     (vget RO fl (S k) + vget RO fl k) * (vget RO xl (S k) - vget RO xl k)) / (1 + 1).
Proof.
  revert xl. induction fl as [|f0 fr IH]; intros xl Hl.
  - simpl. unfold Rdiv. ring.
  - destruct fr as [|f1 fr].
    + simpl. unfold Rdiv. ring.
    + destruct xl as [|x0 [|x1 xr]]; try discriminate.
      change (trapz RO (f0 :: f1 :: fr) (x0 :: x1 :: xr))
        with ((f1 + f0) * (x1 - x0) / (1 + 1) + trapz RO (f1 :: fr) (x1 :: xr)).
      rewrite (IH (x1 :: xr)) by (simpl in *; lia).
      change (Nat.pred (length (f0 :: f1 :: fr))) with (S (Nat.pred (length (f1 :: fr)))).
      rewrite sumn_shift'. unfold vget. simpl. unfold Rdiv. ring.
Qed.

Lemma integrate_2pi_sum no (omega : list R) (f : nat -> R) : length omega = no ->
  integrate_2pi RO no omega f =
  sumn RO (Nat.pred no) (fun k => (f (S k) + f k) * (vget RO omega (S k) - vget RO omega k)) / (1 + 1) / ((1 + 1) * PI).
Proof.
  intros Hl. unfold integrate_2pi, two_pi. rewrite trapz_sum by (rewrite build_length; exact Hl).
  rewrite build_length. simpl.
  rewrite (sumn_ext (Nat.pred no)
             (fun k => (vget RO (build no f) (S k) + vget RO (build no f) k) * (vget RO omega (S k) - vget RO omega k))
             (fun k => (f (S k) + f k) * (vget RO omega (S k) - vget RO omega k))).
  reflexivity.
  intros k Hk. unfold vget at 1 2. rewrite !nth_build by lia. reflexivity.
Qed.

(* entry [i][k][l] of the array calculate_decay_amplitudes returns (spectrum per operator) is the model's decay_entry_cm *)
Theorem decay2_is_source (L : Arr3 (T:=R)) idx (s : list (list Cx)) (omega : list R) i k l :
  decay_entry_cm RO L L idx (Sp2 s) (length omega) omega i i k l =
  decay2_src RO (length omega) (fun p => sel idx p) (fun o => vget RO omega o) (fun i' o' => nth o' (nth i' s nil) (c0 RO))
             (fun a k' o' => a3get RO L a k' o') i k l.
Proof.
  unfold decay_entry_cm. rewrite integrate_2pi_sum by reflexivity. unfold decay2_src. cbv beta. simpl.
  apply (f_equal (fun z => z / (1 + 1) / ((1 + 1) * PI))). apply sumn_ext. intros o _. rewrite !integrand2_is_source. unfold integrand2_src. simpl. reflexivity.
Qed.

(* cross-spectral matrix: entry [i][j][k][l] *)
Theorem decay3_is_source (L : Arr3 (T:=R)) idx (s : list (list (list Cx))) (omega : list R) i j k l :
  decay_entry_cm RO L L idx (Sp3 s) (length omega) omega i j k l =
  decay3_src RO (length omega) (fun p => sel idx p) (fun o => vget RO omega o)
             (fun i' j' o' => nth o' (nth j' (nth i' s nil) nil) (c0 RO)) (fun a k' o' => a3get RO L a k' o') i j k l.
Proof.
  unfold decay_entry_cm. rewrite integrate_2pi_sum by reflexivity. unfold decay3_src. cbv beta. simpl.
  apply (f_equal (fun z => z / (1 + 1) / ((1 + 1) * PI))). apply sumn_ext. intros o _. rewrite !integrand3_is_source. unfold integrand3_src. simpl. reflexivity.
Qed.

(* ---------------- filter-function path of _get_integrand (generalized filter function given) ---------------- *)
Theorem integrand_ff1_is_source (F : Arr5 (T:=R)) idx (s : list Cx) i k l o :
  integrand_ff RO F idx (Sp1 s) i i k l o =
  integrand_ff1_src RO (fun p => sel idx p) (fun o' => nth o' s (c0 RO)) (fun a b k' l' o' => a5get RO F a b k' l' o') i k l o.
Proof. unfold integrand_ff, spec_at, integrand_ff1_src, cre. csimp. reflexivity. Qed.

Theorem integrand_ff2_is_source (F : Arr5 (T:=R)) idx (s : list (list Cx)) i k l o :
  integrand_ff RO F idx (Sp2 s) i i k l o =
  integrand_ff2_src RO (fun p => sel idx p) (fun i' o' => nth o' (nth i' s nil) (c0 RO))
                    (fun a b k' l' o' => a5get RO F a b k' l' o') i k l o.
Proof. unfold integrand_ff, spec_at, integrand_ff2_src, cre. csimp. reflexivity. Qed.

(* calculate_decay_amplitudes, direct path with the cached generalized filter function *)
Theorem decay_ff2_is_source (F : Arr5 (T:=R)) idx (s : list (list Cx)) (omega : list R) i k l :
  decay_entry_ff RO F idx (Sp2 s) (length omega) omega i i k l =
  decay_ff2_src RO (length omega) (fun p => sel idx p) (fun o => vget RO omega o) (fun i' o' => nth o' (nth i' s nil) (c0 RO))
                (fun a b k' l' o' => a5get RO F a b k' l' o') i k l.
Proof.
  unfold decay_entry_ff. rewrite integrate_2pi_sum by reflexivity. unfold decay_ff2_src. cbv beta. simpl.
  apply (f_equal (fun z => z / (1 + 1) / ((1 + 1) * PI))). apply sumn_ext. intros o _.
  rewrite !integrand_ff2_is_source. unfold integrand_ff2_src. simpl. reflexivity.
Qed.
