(* The time-domain control matrix used in the C10 theorems, in trace form:
     beta_ak(u) = s_a tr( U(u)^dagger N_a U(u) C_k ),   U(u) = V e^{-i D u} V^dagger Q   (Useg of Proofs/CMBase.v),
   via the integrand expansion proved for C01 (no unitarity needed).                                   *)
From Coq Require Import ZArith Reals Lra Lia List.
From FF Require Import Base.Ops Inst.RInst Base.RAlg Model.Numeric Model.SecondOrder Proofs.CMBase
     Proofs.SecondOrder Proofs.SecondOrderAsm Proofs.SecondOrderInt.
Import ListNotations.
Local Open Scope R_scope.

Section Trace.
Variable d : nat.

Theorem seg_beta_trace (ev : list R) (V Q : Mat (T:=R)) (dt : R) (nopers basis : list (Mat (T:=R))) (nc : list R)
        (step : Arr3 (T:=R)) a k u :
  length nc = length nopers -> (a < length nopers)%nat -> (k < length basis)%nat ->
  let s : SegData (T:=R) := (ev, dt, so_NT RO d V nopers nc, so_BT RO d V Q basis, step) in
  beta d (seg_ev s) (seg_X s a k) u =
  cscal RO (vg RO nc a)
        (mtrprod RO d (transform_by_unitary RO d (Useg d ev V Q u) (nth a nopers [])) (nth k basis [])).
Proof.
  intros HL Ha Hk s. unfold s. cbn [seg_ev seg_X].
  rewrite integrand_expansion. rewrite so_NT_nth, so_BT_nth by auto.
  rewrite cscal_cmul. unfold beta, S2. rewrite <- csumn_mul_l. apply csumn_ext. intros i Hi.
  rewrite <- csumn_mul_l. apply csumn_ext. intros j Hj.
  unfold nbf, mscalr. rewrite mget_mbuild by auto. rewrite cscal_cmul. ring.
Qed.
End Trace.
