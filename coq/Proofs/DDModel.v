(* C19 -- the numeric model (Model/Numeric.v) specialised to H_c = 0 for whole sequences:
   every entry of the control matrix computed by the package's formula from the spectral data of the
   idle Hamiltonian (eigenvalues 0, eigenvectors 1) is
        B_jk(w) = tr(N_j C_k) sum_g s_g e^{i w t_g} I(w, dt_g) ,
   and on the masked branch  i w B_jk(w) = tr(N_j C_k) sum_g s_g (e^{i w t_{g+1}} - e^{i w t_g}),
   which is tr(N_j C_k) times the sum of Spec/DD.v (with t = z delta / w). *)
From Coq Require Import ZArith Reals List Lra Lia Ring Arith.
From FF Require Import Base.Ops Inst.RInst Base.RAlg Model.Numeric Proofs.Foi Proofs.CMBase Spec.DD Model.BasisModel Proofs.BasisAlg Proofs.BasisPauli.
Import ListNotations.
Local Open Scope R_scope.

Section Idle.
Variable d : nat.
Definition ev0 : list R := repeat 0 d.

Lemma vg_ev0 j : vg RO ev0 j = 0.
Proof.
  unfold vg, vget, ev0. destruct (Nat.lt_ge_cases j d) as [H|H].
  - clear -H. revert j H. induction d; intros j H. lia. destruct j; simpl; auto. apply IHn. lia.
  - apply nth_overflow. rewrite repeat_length. auto.
Qed.

Lemma mget_mid i j : (i < d)%nat -> (j < d)%nat -> mget RO (mid RO d) i j = if Nat.eqb i j then 1c else 0c.
Proof. intros. unfold mid. apply mget_mbuild; auto. Qed.

Lemma madj_mid : madj RO d (mid RO d) = mid RO d.
Proof.
  unfold madj. unfold mid at 2. apply mbuild_ext. intros i j Hi Hj. rewrite mget_mid by auto.
  rewrite Nat.eqb_sym. destruct (Nat.eqb i j); apply c_eq; csimp; ring.
Qed.

Lemma mmul_mid_l A : (forall i j, (i < d)%nat -> (j < d)%nat -> mget RO (mmul RO d (mid RO d) A) i j = mget RO A i j).
Proof.
  intros i j Hi Hj. unfold mmul. rewrite mget_mbuild by auto.
  rewrite (csumn_ext d _ (fun k => if Nat.eqb i k then mget RO A k j else 0c)).
  apply (csumn_delta d i (fun k => mget RO A k j)); auto.
  intros k Hk. rewrite mget_mid by auto. destruct (Nat.eqb i k); ring.
Qed.
Lemma mmul_mid_r A : (forall i j, (i < d)%nat -> (j < d)%nat -> mget RO (mmul RO d A (mid RO d)) i j = mget RO A i j).
Proof.
  intros i j Hi Hj. unfold mmul. rewrite mget_mbuild by auto.
  rewrite (csumn_ext d _ (fun k => if Nat.eqb k j then mget RO A i k else 0c)).
  apply (csumn_delta' d j (fun k => mget RO A i k)); auto.
  intros k Hk. rewrite mget_mid by auto. destruct (Nat.eqb k j); ring.
Qed.
Lemma mmul_mid_mid : mmul RO d (mid RO d) (mid RO d) = mid RO d.
Proof.
  unfold mmul. unfold mid at 3. apply mbuild_ext. intros i j Hi Hj.
  change (csumn' d (fun k => cmul' (mget RO (mid RO d) i k) (mget RO (mid RO d) k j)))
    with (csumn' d (fun k => cmul' (mget RO (mid RO d) i k) (mget RO (mid RO d) k j))).
  rewrite (csumn_ext d _ (fun k => if Nat.eqb i k then mget RO (mid RO d) k j else 0c)).
  rewrite (csumn_delta d i (fun k => mget RO (mid RO d) k j)) by auto. apply mget_mid; auto.
  intros k Hk. rewrite (mget_mid i k) by auto. destruct (Nat.eqb i k); ring.
Qed.

(* the propagator of an idle segment is the identity *)
Lemma segprop_idle dt : segment_propagator RO d ev0 (mid RO d) dt = mid RO d.
Proof.
  unfold segment_propagator. unfold mid at 3. apply mbuild_ext. intros i k Hi Hk.
  rewrite (csumn_ext d _ (fun j => if Nat.eqb i j then (if Nat.eqb k j then 1c else 0c) else 0c)).
  - rewrite (csumn_delta d i (fun j => if Nat.eqb k j then 1c else 0c)) by auto. rewrite Nat.eqb_sym. reflexivity.
  - intros j Hj. rewrite !mget_mid by auto. fold (vg RO ev0 j). rewrite vg_ev0.
    simpl omul. simpl oneg. replace (- (dt * 0)) with 0 by ring. rewrite cexp_0.
    destruct (Nat.eqb i j); destruct (Nat.eqb k j); apply c_eq; csimp; ring.
Qed.

Lemma tbu_mid A i j : (i < d)%nat -> (j < d)%nat ->
  mget RO (transform_by_unitary RO d (mid RO d) A) i j = mget RO A i j.
Proof.
  intros Hi Hj. unfold transform_by_unitary. rewrite madj_mid, mmul_mid_l by auto. apply mmul_mid_r; auto.
Qed.

(* one idle segment of the control matrix *)
Lemma step_entry_idle I tg dt w s N Cm :
  step_entry d I ev0 (mid RO d) (mid RO d) tg dt w s N Cm =
  cmul' (cexp' (w * tg)) (cscal RO s (cmul' (I w 0 0 dt) (mtrprod RO d N Cm))).
Proof.
  unfold step_entry. rewrite madj_mid, mmul_mid_mid. f_equal. f_equal.
  unfold mtrprod. rewrite <- csumn_mul_l. apply csumn_ext. intros m Hm.
  rewrite <- csumn_mul_l. apply csumn_ext. intros n Hn.
  rewrite !tbu_mid, !vg_ev0 by auto. ring.
Qed.

(* sum over the segments: sensitivities ss, durations dts, starting time t *)
Fixpoint idle_sum (I : R -> R -> R -> R -> Cx) (w t : R) (dts ss : list R) : Cx :=
  match dts, ss with
  | dt :: dts', s :: ss' => cadd' (cscal RO s (cmul' (cexp' (w * t)) (I w 0 0 dt))) (idle_sum I w (t + dt) dts' ss')
  | _, _ => 0c
  end.

Lemma entry_segs_idle I w N Cm : forall dts ss t,
  entry_segs d I (zip4 (repeat ev0 (length dts)) (repeat (mid RO d) (length dts)) dts ss) (mid RO d) t w N Cm =
  cmul' (mtrprod RO d N Cm) (idle_sum I w t dts ss).
Proof.
  induction dts as [|dt dts IH]; intros ss t. simpl. ring.
  destruct ss as [|s ss]. simpl. ring.
  simpl length. simpl repeat. simpl zip4. simpl entry_segs. rewrite step_entry_idle, segprop_idle, mmul_mid_mid, IH.
  simpl idle_sum. apply c_eq; csimp; ring.
Qed.

(* the control matrix of the package for an idle control Hamiltonian, every number of segments *)
Theorem cm_idle thr om bs ns nc dts j k o :
  (j < length ns)%nat -> (k < length bs)%nat -> (o < length om)%nat ->
  a3get RO (control_matrix_from_scratch RO d thr (repeat ev0 (length dts)) (repeat (mid RO d) (length dts))
              (propagators RO d (repeat ev0 (length dts)) (repeat (mid RO d) (length dts)) dts)
              om bs ns nc dts (times RO dts)) j k o =
  cmul' (mtrprod RO d (nthm ns j) (nthm bs k))
        (idle_sum (foi_entry RO thr) (vg RO om o) 0 dts (sens_row (length dts) nc j)).
Proof. intros Hj Hk Ho. rewrite cm_entry_formula by auto. apply entry_segs_idle. Qed.

(* on the masked branch: i w times the segment sum is the sum of the increments of e^{i w t} *)
Fixpoint incr_sum (w t : R) (dts ss : list R) : Cx :=
  match dts, ss with
  | dt :: dts', s :: ss' => cadd' (cscal RO s (csub' (cexp' (w * (t + dt))) (cexp' (w * t)))) (incr_sum w (t + dt) dts' ss')
  | _, _ => 0c
  end.

Lemma idle_sum_incr thr w : 0 <= thr -> forall dts ss t,
  Forall (fun dt => thr < Rabs (w * dt)) dts ->
  cmul' (cmul' ic (cofr RO w)) (idle_sum (foi_entry RO thr) w t dts ss) = incr_sum w t dts ss.
Proof.
  intros Hthr. induction dts as [|dt dts IH]; intros ss t Hall. simpl. ring.
  destruct ss as [|s ss]. simpl. ring.
  inversion Hall; subst. simpl idle_sum. simpl incr_sum. rewrite <- IH by auto.
  assert (Hw : w <> 0).
  { intros ->. rewrite Rmult_0_l, Rabs_R0 in H1. lra. }
  assert (Hseg : cmul' (cmul' ic (cofr RO w)) (cmul' (cexp' (w * t)) (foi_entry RO thr w 0 0 dt)) =
                 csub' (cexp' (w * (t + dt))) (cexp' (w * t))).
  { unfold foi_entry, cite. cbn [oadd osub omul oabs ogt oite RO osin ocos odiv o1 o0 fst snd].
    replace (w + (0 - 0)) with w by ring. apply Rgtb_true in H1. rewrite H1.
    rewrite Rmult_plus_distr_l, cexp_add. apply c_eq; csimp; field; auto. }
  rewrite <- Hseg. apply c_eq; csimp; ring.
Qed.

Theorem cm_idle_increments thr om bs ns nc dts j k o :
  0 <= thr -> (j < length ns)%nat -> (k < length bs)%nat -> (o < length om)%nat ->
  Forall (fun dt => thr < Rabs (vg RO om o * dt)) dts ->
  cmul' (cmul' ic (cofr RO (vg RO om o)))
    (a3get RO (control_matrix_from_scratch RO d thr (repeat ev0 (length dts)) (repeat (mid RO d) (length dts))
              (propagators RO d (repeat ev0 (length dts)) (repeat (mid RO d) (length dts)) dts)
              om bs ns nc dts (times RO dts)) j k o) =
  cmul' (mtrprod RO d (nthm ns j) (nthm bs k)) (incr_sum (vg RO om o) 0 dts (sens_row (length dts) nc j)).
Proof.
  intros Hthr Hj Hk Ho Hall. rewrite cm_idle by auto.
  rewrite <- (idle_sum_incr thr (vg RO om o) Hthr dts _ 0 Hall). ring.
Qed.
End Idle.

(* ------------------------------------------------------------------ the specification sum *)
(* durations and sensitivities of the sign-modulated free evolution with pulse-time fractions ts and duration tau *)
Fixpoint dd_dts (tau prev : R) (ts : list R) : list R :=
  match ts with [] => [tau * (1 - prev)] | t :: r => tau * (t - prev) :: dd_dts tau t r end.
Fixpoint dd_signs (s : R) (n : nat) : list R :=
  match n with O => [] | S n' => s :: dd_signs (- s) n' end.

Lemma dd_dts_length tau prev ts : length (dd_dts tau prev ts) = S (length ts).
Proof. revert prev. induction ts; intros prev; simpl; auto. Qed.

Lemma incr_sum_spec w tau : forall ts s prev,
  incr_sum w (tau * prev) (dd_dts tau prev ts) (dd_signs s (S (length ts))) = dd_sum (w * tau) s prev ts.
Proof.
  induction ts as [|t r IH]; intros s prev.
  - simpl. unfold ez. replace (w * (tau * prev + tau * (1 - prev))) with (w * tau * 1) by ring.
    replace (w * (tau * prev)) with (w * tau * prev) by ring. ring.
  - simpl dd_dts. simpl length. change (dd_signs s (S (S (length r)))) with (s :: dd_signs (- s) (S (length r))).
    cbn [incr_sum dd_sum].
    replace (tau * prev + tau * (t - prev)) with (tau * t) by ring. rewrite IH. unfold ez.
    replace (w * (tau * t)) with (w * tau * t) by ring. replace (w * (tau * prev)) with (w * tau * prev) by ring.
    reflexivity.
Qed.

(* the control matrix of the package for the sign-modulated free evolution is tr(N_j C_k) y(w tau)/(i w)
   with y the sum of Spec/DD.v *)
Theorem cm_is_spec d thr om bs ns nc tau ts j k o :
  0 <= thr -> (j < length ns)%nat -> (k < length bs)%nat -> (o < length om)%nat ->
  let dts := dd_dts tau 0 ts in
  sens_row (length dts) nc j = dd_signs 1 (length dts) ->
  Forall (fun dt => thr < Rabs (vg RO om o * dt)) dts ->
  cmul' (cmul' ic (cofr RO (vg RO om o)))
    (a3get RO (control_matrix_from_scratch RO d thr (repeat (ev0 d) (length dts)) (repeat (mid RO d) (length dts))
              (propagators RO d (repeat (ev0 d) (length dts)) (repeat (mid RO d) (length dts)) dts)
              om bs ns nc dts (times RO dts)) j k o) =
  cmul' (mtrprod RO d (nthm ns j) (nthm bs k)) (dd_y ts (vg RO om o * tau)).
Proof.
  intros Hthr Hj Hk Ho dts Hs Hall. rewrite (cm_idle_increments d thr) by auto. f_equal.
  rewrite Hs. unfold dts. rewrite dd_dts_length.
  replace 0 with (tau * 0) at 1 by ring. rewrite incr_sum_spec. reflexivity.
Qed.

(* ------------------------------------------------------------------ the filter function *)
Lemma csumn_cofr' n (f : nat -> R) : csumn' n (fun k => cofr RO (f k)) = cofr RO (sumn' n f).
Proof. induction n; simpl. reflexivity. rewrite IHn. apply c_eq; csimp; ring. Qed.
Lemma cabs2_mul' (a b : Cx) : cabs2 RO (cmul' a b) = cabs2 RO a * cabs2 RO b.
Proof. csimp. ring. Qed.

(* w^2 F_jj(w) = (sum_k |tr(N_j C_k)|^2) |y(w tau)|^2 ; for N = sigma_z/2 and the normalised Pauli basis the
   weight is 1/2, which gives Spec/DD.v dd_F *)
Theorem ff_is_spec d thr om bs ns nc tau ts j o :
  0 <= thr -> (j < length ns)%nat -> (o < length om)%nat ->
  let dts := dd_dts tau 0 ts in
  sens_row (length dts) nc j = dd_signs 1 (length dts) ->
  Forall (fun dt => thr < Rabs (vg RO om o * dt)) dts ->
  let Bm := control_matrix_from_scratch RO d thr (repeat (ev0 d) (length dts)) (repeat (mid RO d) (length dts))
              (propagators RO d (repeat (ev0 d) (length dts)) (repeat (mid RO d) (length dts)) dts)
              om bs ns nc dts (times RO dts) in
  cmul' (cofr RO (vg RO om o * vg RO om o)) (a3get RO (filter_function RO (length ns) (length bs) (length om) Bm) j j o) =
  cofr RO (sumn' (length bs) (fun k => cabs2 RO (mtrprod RO d (nthm ns j) (nthm bs k))) * cabs2 RO (dd_y ts (vg RO om o * tau))).
Proof.
  intros Hthr Hj Ho dts Hs Hall Bm. unfold filter_function. rewrite a3get_a3build by auto.
  rewrite <- csumn_mul_l.
  rewrite (csumn_ext (length bs) _ (fun k => cofr RO (cabs2 RO (mtrprod RO d (nthm ns j) (nthm bs k)) * cabs2 RO (dd_y ts (vg RO om o * tau))))).
  - rewrite csumn_cofr'. f_equal.
    rewrite (sumn_ext _ _ (fun k => cabs2 RO (dd_y ts (vg RO om o * tau)) * cabs2 RO (mtrprod RO d (nthm ns j) (nthm bs k)))) by (intros; ring).
    rewrite sumn_mul_l. ring.
  - intros k Hk. pose proof (cm_is_spec d thr om bs ns nc tau ts j k o Hthr Hj Hk Ho Hs Hall) as H. fold dts in H. fold Bm in H.
    rewrite <- cabs2_mul', <- H. set (B := a3get RO Bm j k o). set (w := vg RO om o).
    apply c_eq; csimp; ring.
Qed.

(* ------------------------------------------------------------------ the weight 1/2 *)
Definition sz_half : Mat (T:=R) := [[(1/2, 0); (0, 0)]; [(0, 0); (-(1/2), 0)]].

Lemma sqrt2_sq : sqrt 2 * sqrt 2 = 2. Proof. apply sqrt_sqrt. lra. Qed.

(* sum_k |tr(sigma_z/2 C_k)|^2 = 1/2 over Basis.pauli(1) *)
Lemma dd_weight_pauli :
  sumn' (length (pauli_basis RO 1)) (fun k => cabs2 RO (mtrprod RO 2 sz_half (nthm (pauli_basis RO 1) k))) = 1 / 2.
Proof.
  rewrite pauli_basis_length. change (4 ^ 1)%nat with 4%nat.
  assert (H : forall k, (k < 4)%nat -> mtrprod RO 2 sz_half (nthm (pauli_basis RO 1) k) =
            cdivr RO (csub' (cmul' (1/2, 0) (fpauli 1 k 0%nat 0%nat)) (cmul' (1/2, 0) (fpauli 1 k 1%nat 1%nat))) (sqrt (2 ^ 1))).
  { intros k Hk. rewrite mtrprod_ftr. unfold nthm. fold (pauli_C 1 k). unfold ftr, fmul.
    simpl csumn. rewrite !pauli_C_entry by (simpl; lia). unfold toF, sz_half, mget. simpl nth.
    generalize (sqrt_pow2_neq 1). generalize (sqrt (2 ^ 1)). intros q Hq. apply c_eq; csimp; field; auto. }
  cbn [sumn]. rewrite !H by lia.
  assert (Hq : sqrt (2 ^ 1) * sqrt (2 ^ 1) = 2) by (rewrite sqrt_sqrt; simpl; lra).
  assert (Hq0 : sqrt (2 ^ 1) <> 0) by apply sqrt_pow2_neq.
  revert Hq Hq0. generalize (sqrt (2 ^ 1)). intros q Hq Hq0.
  unfold fpauli, fkron, fsig. simpl.
  assert (Hqq : / q * / q = / 2) by (rewrite <- Rinv_mult, Hq; reflexivity).
  field_simplify; auto.
  replace (q ^ 2) with 2 by (simpl; lra). field.
Qed.

(* dephasing noise sigma_z/2, basis Basis.pauli(1): w^2 F(w) of the package's formula is dd_F of Spec/DD.v *)
Theorem ff_is_dd_F thr om nc tau ts o :
  0 <= thr -> (o < length om)%nat ->
  let dts := dd_dts tau 0 ts in
  sens_row (length dts) nc 0 = dd_signs 1 (length dts) ->
  Forall (fun dt => thr < Rabs (vg RO om o * dt)) dts ->
  let Bm := control_matrix_from_scratch RO 2 thr (repeat (ev0 2) (length dts)) (repeat (mid RO 2) (length dts))
              (propagators RO 2 (repeat (ev0 2) (length dts)) (repeat (mid RO 2) (length dts)) dts)
              om (pauli_basis RO 1) [sz_half] nc dts (times RO dts) in
  cmul' (cofr RO (vg RO om o * vg RO om o)) (a3get RO (filter_function RO 1 (length (pauli_basis RO 1)) (length om) Bm) 0 0 o) =
  cofr RO (dd_F ts (vg RO om o * tau)).
Proof.
  intros Hthr Ho dts Hs Hall Bm.
  pose proof (ff_is_spec 2 thr om (pauli_basis RO 1) [sz_half] nc tau ts 0 o Hthr ltac:(simpl; lia) Ho Hs Hall) as H.
  cbv zeta in H. fold dts in H. fold Bm in H. change (length [sz_half]) with 1%nat in H. rewrite H.
  change (nthm [sz_half] 0) with sz_half. rewrite dd_weight_pauli. unfold dd_F. f_equal. field.
Qed.

(* the hypotheses are satisfiable: spin echo, tau = 1, w = 3, threshold 1/10 *)
Example ff_is_dd_F_sat :
  let ts := [1/2] in let nc := [[1; Ropp 1]] in let om := [3] in
  sens_row (length (dd_dts 1 0 ts)) nc 0 = dd_signs 1 (length (dd_dts 1 0 ts)) /\
  Forall (fun dt => 1/10 < Rabs (vg RO om 0 * dt)) (dd_dts 1 0 ts).
Proof.
  simpl. split. reflexivity.
  repeat constructor; unfold vg, vget; simpl; rewrite Rabs_right; lra.
Qed.
