(* C04: error bound for the solve branch of calculate_control_matrix_periodic.
   With M = 1 - T, a left inverse N of M and the residual R = M S - (1 - T^G) of whatever solve returned:
       S - sum_{g<G} T^g = N R,
   hence entrywise |S - sum T^g| <= n |N| |R|, and with |R| <= eps |M| |S| (backward-stable solve) the bound
   (n |N| |M|) eps |S|  --  (n |N| |M|) is a condition number of M in the max-entry norm.  The control matrix
   inherits the bound.  |z| is the 1-norm |re z| + |im z| of a complex number (sub-multiplicative).        *)
From Coq Require Import ZArith Reals Lra Lia List Morphisms Setoid.
From Coquelicot Require Import Coquelicot.
From FF Require Import Base.Ops Inst.RInst Base.RAlg Model.Numeric Model.Propagator Model.Periodic
                       Proofs.MatAlg Proofs.Propagator Proofs.Periodic.
Import ListNotations.
Local Open Scope R_scope.

Definition cn1 (z : Cx) : R := Rabs (fst z) + Rabs (snd z).
Lemma cn1_nonneg z : 0 <= cn1 z.
Proof. unfold cn1. generalize (Rabs_pos (fst z)) (Rabs_pos (snd z)). lra. Qed.
Lemma cn1_0 : cn1 0c = 0.
Proof. unfold cn1. simpl. rewrite Rabs_R0. lra. Qed.
Lemma cn1_add a b : cn1 (cadd' a b) <= cn1 a + cn1 b.
Proof. unfold cn1. simpl. generalize (Rabs_triang (fst a) (fst b)) (Rabs_triang (snd a) (snd b)). lra. Qed.
Lemma cn1_sub a b : cn1 (csub' a b) <= cn1 a + cn1 b.
Proof. unfold cn1. simpl. unfold Rminus.
  generalize (Rabs_triang (fst a) (- fst b)) (Rabs_triang (snd a) (- snd b)). rewrite !Rabs_Ropp. lra. Qed.
Lemma cn1_mul a b : cn1 (cmul' a b) <= cn1 a * cn1 b.
Proof.
  unfold cn1. simpl.
  pose proof (Rabs_triang (fst a * fst b) (- (snd a * snd b))) as H1.
  pose proof (Rabs_triang (fst a * snd b) (snd a * fst b)) as H2.
  rewrite Rabs_Ropp in H1. rewrite !Rabs_mult in H1, H2. unfold Rminus.
  generalize (Rabs_pos (fst a)) (Rabs_pos (snd a)) (Rabs_pos (fst b)) (Rabs_pos (snd b)). intros. nra.
Qed.
Lemma cn1_csumn n (f : nat -> Cx) c : (forall k, (k < n)%nat -> cn1 (f k) <= c) -> cn1 (csumn' n f) <= INR n * c.
Proof.
  induction n; intros H. simpl. rewrite cn1_0. lra.
  rewrite S_INR. simpl csumn. eapply Rle_trans. apply cn1_add.
  assert (cn1 (csumn' n f) <= INR n * c) by (apply IHn; auto).
  assert (cn1 (f n) <= c) by (apply H; lia). lra.
Qed.

Lemma csub_as_add (x y : Cx) : cadd' x (cmul' (cneg' 1c) y) = csub' x y.
Proof. ring. Qed.

(* entrywise bound of a matrix *)
Definition fbound (n : nat) (A : fmat) (c : R) : Prop := forall i j, (i < n)%nat -> (j < n)%nat -> cn1 (A i j) <= c.
Lemma fbound_ext n A B c : feq n A B -> fbound n A c -> fbound n B c.
Proof. intros E H i j Hi Hj. rewrite <- (E i j Hi Hj). auto. Qed.
Lemma fbound_mul n A B a b : 0 <= a -> fbound n A a -> fbound n B b -> fbound n (fmul n A B) (INR n * (a * b)).
Proof.
  intros Ha HA HB i j Hi Hj. unfold fmul. apply cn1_csumn. intros k Hk.
  eapply Rle_trans. apply cn1_mul.
  apply Rmult_le_compat; auto using cn1_nonneg.
Qed.

Section Bound.
Variable n : nat.

(* S - sum T^g = N R *)
Theorem solve_error_identity (Tf S N : fmat) G :
  feq n (fmul n N (fsub fid Tf)) fid ->
  feq n (fsub S (fgeom n Tf G))
        (fmul n N (fsub (fmul n (fsub fid Tf) S) (fsub fid (fpow n Tf G)))).
Proof.
  intros HN. rewrite <- (fgeom_telescope n Tf G), <- fmul_sub_distr_l, fmul_assoc, HN, fmul_id_l. reflexivity.
Qed.

(* |S - sum T^g| <= n |N| |R| entrywise *)
Theorem solve_error_bound (Tf S N : fmat) G nu rho : 0 <= nu ->
  feq n (fmul n N (fsub fid Tf)) fid -> fbound n N nu ->
  fbound n (fsub (fmul n (fsub fid Tf) S) (fsub fid (fpow n Tf G))) rho ->
  fbound n (fsub S (fgeom n Tf G)) (INR n * (nu * rho)).
Proof.
  intros Hnu HN HbN HbR. eapply fbound_ext. symmetry. apply solve_error_identity. exact HN.
  apply fbound_mul; assumption.
Qed.

(* in terms of a condition number: residual relative to |M| |S| (what a backward-stable solve delivers) *)
Theorem solve_error_bound_cond (Tf S N : fmat) G nu mu sigma eps : 0 <= nu ->
  feq n (fmul n N (fsub fid Tf)) fid -> fbound n N nu -> fbound n (fsub fid Tf) mu -> fbound n S sigma ->
  fbound n (fsub (fmul n (fsub fid Tf) S) (fsub fid (fpow n Tf G))) (eps * (mu * sigma)) ->
  fbound n (fsub S (fgeom n Tf G)) ((INR n * (nu * mu)) * eps * sigma).
Proof.
  intros Hnu HN HbN _ _ HbR i j Hi Hj.
  pose proof (solve_error_bound Tf S N G nu _ Hnu HN HbN HbR i j Hi Hj) as H.
  eapply Rle_trans. exact H. right. ring.
Qed.

(* a bounded left inverse makes 1 - T injective (the hypothesis of C04_geom_unique) *)
Lemma bounded_left_inverse_cancel (Tf N : fmat) : feq n (fmul n N (fsub fid Tf)) fid -> fleft_cancel n (fsub fid Tf).
Proof. intros H. apply left_inverse_cancel. exists N. exact H. Qed.

(* the explicit geometric sum as a list matrix: used to express atomic_repeated entrywise *)
Lemma toF_mbuild (f : nat -> nat -> Cx) : feq n (toF (mbuild n n f)) f.
Proof. intros i j Hi Hj. unfold toF. apply mget_mbuild; auto. Qed.

Lemma atomic_repeated_entry na no G (ph : list Cx) (cm : Arr3 (T:=R)) (L : list (list R)) a k o :
  (a < na)%nat -> (k < n)%nat -> (o < no)%nat -> length ph = no ->
  a3get RO (atomic_repeated RO n na no G ph cm L) a k o =
  csumn' n (fun j => cmul' (a3get RO cm a j o) (fgeom n (toF (T_of RO n (nth o ph 0c) L)) G j k)).
Proof.
  intros Ha Hk Ho Hph.
  set (Sl := build no (fun o' => mbuild n n (fgeom n (toF (T_of RO n (nth o' ph 0c) L)) G))).
  rewrite <- (periodic_eq_atomic n na no G ph cm L Sl a k o Ha Hk Ho Hph).
  2:{ unfold Sl. rewrite nth_build by assumption. apply toF_mbuild. }
  unfold cm_apply. rewrite a3get_a3build by assumption. apply csumn_ext. intros j Hj.
  unfold Sl. rewrite nth_build by assumption. rewrite mget_mbuild by assumption. reflexivity.
Qed.

(* the control matrix inherits the bound: for a frequency on the solve branch *)
Theorem cm_periodic_solve_error na no G ph cm L inv Ss (N : fmat) nu rho beta a k o :
  (a < na)%nat -> (k < n)%nat -> (o < no)%nat -> length ph = no -> 0 <= nu -> 0 <= beta ->
  nth o inv false = true ->
  let Tf := toF (T_of RO n (nth o ph 0c) L) in
  feq n (fmul n N (fsub fid Tf)) fid -> fbound n N nu ->
  fbound n (toF (solve_residual RO n (T_of RO n (nth o ph 0c) L) (nth o Ss []) G)) rho ->
  (forall j, (j < n)%nat -> cn1 (a3get RO cm a j o) <= beta) ->
  cn1 (csub' (a3get RO (cm_periodic RO n na no G ph cm L inv Ss) a k o)
             (a3get RO (atomic_repeated RO n na no G ph cm L) a k o))
  <= INR n * (beta * (INR n * (nu * rho))).
Proof.
  intros Ha Hk Ho Hph Hnu Hbeta Hinv Tf HN HbN HbR Hcm.
  rewrite atomic_repeated_entry by assumption.
  unfold cm_periodic, cm_apply. rewrite a3get_a3build by assumption.
  unfold S_list. rewrite nth_build by assumption. unfold S_select. rewrite Hinv. fold Tf.
  match goal with |- cn1 (csub' ?X ?Y) <= _ =>
    replace (csub' X Y) with (csumn' n (fun j => cmul' (a3get RO cm a j o) (fsub (toF (nth o Ss [])) (fgeom n Tf G) j k))) end.
  2:{ transitivity (cadd' (csumn' n (fun j => cmul' (a3get RO cm a j o) (mget RO (nth o Ss []) j k)))
                          (cmul' (cneg' 1c) (csumn' n (fun j => cmul' (a3get RO cm a j o) (fgeom n Tf G j k))))).
      - rewrite <- csumn_mul_l, <- csumn_add. apply csumn_ext. intros j _. unfold fsub, toF. ring.
      - apply csub_as_add. }
  apply cn1_csumn. intros j Hj. eapply Rle_trans. apply cn1_mul.
  apply Rmult_le_compat; auto using cn1_nonneg.
  apply (solve_error_bound Tf (toF (nth o Ss [])) N G nu rho Hnu HN HbN); auto.
  eapply fbound_ext; [|exact HbR].
  unfold solve_residual. rewrite toF_msub, toF_mmul, !toF_msub, toF_mid, toF_mpow. reflexivity.
Qed.

End Bound.
