(* The Gell-Mann basis as modelled for C15 (Model/Superop.v [ggm_basis], built from the list of pairs
   [ggm_pairs]) is, element by element, the Gell-Mann basis of Model/BasisModel.v (built from the code's
   index arithmetic), hence Hermitian, orthonormal and complete for every d: the hypotheses
   Superop.basis_herm / basis_orth / basis_complete hold for [Superop.ggm_basis RO d].            *)
From Coq Require Import ZArith Reals List Lra Lia Ring Arith Bool.
From FF Require Import Base.Ops Inst.RInst Base.RAlg Model.Numeric Model.BasisModel.
From FF Require Import Proofs.BasisAlg Proofs.BasisGGMIdx Proofs.BasisGGM Proofs.BasisGGMComplete Proofs.BasisInstances.
From FF Require Model.Superop Proofs.SuperopAlg Proofs.Superop.
Import ListNotations.
Local Open Scope R_scope.

Lemma nth_concat {A} (dflt : A) : forall (ls : list (list A)) j r, (j < length ls)%nat -> (r < length (nth j ls []))%nat ->
  nth (nsum j (fun i => length (nth i ls [])) + r) (concat ls) dflt = nth r (nth j ls []) dflt.
Proof.
  induction ls as [|l ls IH]; intros j r Hj Hr. simpl in Hj. lia.
  destruct j.
  - simpl. simpl in Hr. rewrite app_nth1 by auto. reflexivity.
  - rewrite nsum_shift. cbn [nth length]. simpl concat.
    rewrite app_nth2 by lia.
    replace (length l + nsum j (fun i => length (nth i ls [])) + r - length l)%nat
      with (nsum j (fun i => length (nth i ls [])) + r)%nat by lia.
    apply IH. simpl in Hj. lia. exact Hr.
Qed.

Section C15.
Variable d : nat.
Hypothesis Hd : (0 < d)%nat.
Let ns := n_sym d.

Definition pairsF (j : nat) : list (nat * nat) := map (fun k => (j, k)) (filter (Nat.ltb j) (seq 0 d)).

Lemma pairsF_length j : (j < d)%nat -> length (pairsF j) = (d - 1 - j)%nat.
Proof. intros H. unfold pairsF. rewrite map_length, Superop.filter_ltb_seq, seq_length by auto. lia. Qed.

Lemma pairs_length : length (Superop.ggm_pairs d) = ns.
Proof. pose proof (Superop.ggm_pairs_length d). destruct (two_nsym d) as [H2 _]. fold ns in H2. destruct d; simpl in *; nia. Qed.

(* the m-th pair of the list is the pair the code's index arithmetic produces *)
Lemma pairs_nth m : (m < ns)%nat -> nth m (Superop.ggm_pairs d) (0, 0)%nat = (ggm_j d m, ggm_k d m).
Proof.
  intros Hm. destruct (ggm_pair_spec d m Hm) as (j & r & Hj & Hr & Hmeq & -> & ->).
  unfold Superop.ggm_pairs. fold pairsF.
  assert (Hoff : off d j = nsum j (fun i => length (nth i (build d pairsF) []))).
  { unfold off. apply nsum_ext. intros i Hi. rewrite nth_build by lia. rewrite pairsF_length by lia. reflexivity. }
  rewrite Hmeq, Hoff. rewrite nth_concat.
  - rewrite nth_build by lia. unfold pairsF. rewrite Superop.filter_ltb_seq by lia.
    rewrite (nth_map' (fun k => (j, k)) _ r (0, 0)%nat 0%nat) by (rewrite seq_length; lia).
    rewrite seq_nth by lia. f_equal. lia.
  - rewrite build_length. lia.
  - rewrite nth_build by lia. rewrite pairsF_length by lia. lia.
Qed.

Lemma ofnat_INR k : Superop.ofnat RO k = INR k.
Proof. unfold Superop.ofnat, oZ. simpl. unfold Rdya. simpl. rewrite <- INR_IZR_INZ. ring. Qed.

(* element by element *)
Theorem c15_ggm_elem k : (k < d * d)%nat ->
  feq d (toF (nthm (Superop.ggm_basis RO d) k)) (ggm_C d k).
Proof.
  intros Hk a b Ha Hb. unfold nthm, Superop.ggm_basis.
  destruct (ggm_class d Hd k Hk) as [->|[(m & Hm & ->)|[(m & Hm & ->)|(l & Hl & Hld & ->)]]]; fold ns.
  - cbn [nth]. unfold Superop.ggm_id. rewrite toF_mbuild, ggm_C_id by auto. rewrite ofnat_INR.
    destruct (Nat.eqb a b); apply c_eq; csimp; ring.
  - cbn [nth]. rewrite app_nth1 by (rewrite map_length, pairs_length; auto).
    rewrite (nth_map' (Superop.ggm_sym RO d) _ m [] (0, 0)%nat) by (rewrite pairs_length; auto).
    rewrite pairs_nth by auto. unfold Superop.ggm_sym. rewrite toF_mbuild by auto. cbn [fst snd].
    rewrite ggm_C_sym by auto. unfold fE. destruct (ggm_pair_lt d m Hm) as [Hjk _].
    assert (Hi : Superop.inv_sqrt2 RO = s2) by (unfold Superop.inv_sqrt2, Superop.sqrt2, s2, o2; simpl; replace (1 + 1) with 2 by ring; reflexivity).
    rewrite Hi.
    destruct (Nat.eqb_spec a (ggm_j d m)); destruct (Nat.eqb_spec b (ggm_k d m));
    destruct (Nat.eqb_spec a (ggm_k d m)); destruct (Nat.eqb_spec b (ggm_j d m)); simpl; try lia;
    apply c_eq; csimp; ring.
  - replace (ns + 1 + m)%nat with (S (ns + m)) by lia. cbn [nth].
    rewrite app_nth2 by (rewrite map_length, pairs_length; lia). rewrite map_length, pairs_length.
    replace (ns + m - ns)%nat with m by lia.
    rewrite app_nth1 by (rewrite map_length, pairs_length; auto).
    rewrite (nth_map' (Superop.ggm_asym RO d) _ m [] (0, 0)%nat) by (rewrite pairs_length; auto).
    rewrite pairs_nth by auto. unfold Superop.ggm_asym. rewrite toF_mbuild by auto. cbn [fst snd].
    replace (S (ns + m)) with (ns + 1 + m)%nat by lia. rewrite ggm_C_asym by auto. unfold fE.
    destruct (ggm_pair_lt d m Hm) as [Hjk _].
    assert (Hi : Superop.inv_sqrt2 RO = s2) by (unfold Superop.inv_sqrt2, Superop.sqrt2, s2, o2; simpl; replace (1 + 1) with 2 by ring; reflexivity).
    rewrite Hi.
    destruct (Nat.eqb_spec a (ggm_j d m)); destruct (Nat.eqb_spec b (ggm_k d m));
    destruct (Nat.eqb_spec a (ggm_k d m)); destruct (Nat.eqb_spec b (ggm_j d m)); simpl; try lia;
    apply c_eq; csimp; ring.
  - replace (2 * ns + l)%nat with (S (ns + (ns + (l - 1)))) by lia. cbn [nth].
    rewrite app_nth2 by (rewrite map_length, pairs_length; lia). rewrite map_length, pairs_length.
    replace (ns + (ns + (l - 1)) - ns)%nat with (ns + (l - 1))%nat by lia.
    rewrite app_nth2 by (rewrite map_length, pairs_length; lia). rewrite map_length, pairs_length.
    replace (ns + (l - 1) - ns)%nat with (l - 1)%nat by lia.
    rewrite nth_build by (destruct d; simpl; lia). replace (S (l - 1)) with l by lia.
    unfold Superop.ggm_diag. rewrite toF_mbuild by auto.
    replace (S (ns + (ns + (l - 1)))) with (2 * ns + l)%nat by lia. rewrite ggm_C_diag by auto.
    rewrite diag_val_R. unfold Superop.diag_norm. rewrite !ofnat_INR. simpl omul. simpl osqrt.
    replace (INR (l * (l + 1))) with (INR l * INR (S l)) by (rewrite mult_INR; f_equal; f_equal; lia).
    destruct (Nat.eqb a b); [|reflexivity].
    destruct (a <? l)%nat; [apply c_eq; csimp; unfold Rdiv; ring|].
    destruct (a =? l)%nat; apply c_eq; csimp; unfold Rdiv; ring.
Qed.

Lemma c15_Cl k : (k < d * d)%nat -> feq d (Superop.Cl (Superop.ggm_basis RO d) k) (ggm_C d k).
Proof. intros Hk. apply c15_ggm_elem; auto. Qed.

Theorem c15_basis_herm : Superop.basis_herm d (Superop.ggm_basis RO d).
Proof.
  unfold Superop.basis_herm. rewrite Superop.ggm_basis_length by auto. intros k Hk a b Ha Hb.
  unfold fadj. rewrite !(c15_Cl k Hk) by auto. apply (ggm_hermitian d Hd k Hk a b Ha Hb).
Qed.
Theorem c15_basis_orth : Superop.basis_orth d (Superop.ggm_basis RO d).
Proof.
  unfold Superop.basis_orth. rewrite Superop.ggm_basis_length by auto. intros i j Hi Hj.
  change (if Nat.eqb i j then 1c else 0c) with (delta i j).
  rewrite <- (ggm_orthonormal d Hd i j Hi Hj). apply ftr_ext. apply fmul_ext; apply c15_Cl; auto.
Qed.
Theorem c15_basis_complete : Superop.basis_complete d (Superop.ggm_basis RO d).
Proof.
  unfold Superop.basis_complete. rewrite Superop.ggm_basis_length by auto. intros X a b Ha Hb. unfold SuperopAlg.flin.
  rewrite <- (reconstruct_entry d (d * d) (ggm_C d) (ggm_hermitian d Hd) (ggm_complete d Hd) X a b Ha Hb).
  apply csumn_ext. intros k Hk. rewrite (c15_Cl k Hk a b Ha Hb). f_equal.
  apply ftr_ext. apply fmul_ext. apply c15_Cl; auto. apply feq_refl.
Qed.
End C15.
