(* C16 -- statements about the model of the tensor-product helpers (Model/Tensor.v): the constructed
   einsum subscripts are the block-wise interleavings of the rearranged chain, inadmissible positions /
   dimension specifications are rejected. *)
From Coq Require Import ZArith List Arith Lia Bool Permutation Sorted.
From FF Require Import Model.Tensor Spec.Kron Proofs.TensorIdx Proofs.TensorOrder.
Import ListNotations.

Section Generic.
Context {T : Type} {EN : Entry T} {EL : EntryLaws T}.
Local Notation arr := (garr T).

(* ------------------------------------------------------------------ slices of letter ranges *)
Lemma skipn_seq i a n : skipn i (seq a n) = seq (a + i) (n - i).
Proof.
  revert a n. induction i as [|i IH]; intros a n; simpl.
  - rewrite Nat.add_0_r, Nat.sub_0_r. reflexivity.
  - destruct n as [|n]; simpl; auto. rewrite IH. f_equal. lia.
Qed.
Lemma firstn_seq k a n : firstn k (seq a n) = seq a (Nat.min k n).
Proof.
  revert a n. induction k as [|k IH]; intros a n; simpl; auto.
  destruct n as [|n]; simpl; auto. rewrite IH. reflexivity.
Qed.
Lemma slice_seq a n i j : slice (seq a n) i j = seq (a + i) (Nat.min (j - i) (n - i)).
Proof. unfold slice. rewrite skipn_seq, firstn_seq. reflexivity. Qed.

(* ------------------------------------------------------------------ tensor_merge subscripts *)
(* Letter r*m + j is axis r of constituent j of ins, letter m*rank + r*n + k is axis r of constituent k
   of arr.  The output subscripts are, axis block by axis block, the documented chain: in front of
   constituent k of arr the constituents of ins whose normalised position is k, in argument order. *)
Theorem merge_out_chars_spec rank m n (npos : list Z) :
  Forall (fun p => (0 <= p <= Z.of_nat n)%Z) npos ->
  merge_out_chars rank m n npos =
  (seq 0 (m * rank), seq (m * rank) (n * rank),
   flat_map (fun r => chain_spec fst snd (combine (map Z.to_nat npos) (seq (r * m) m)) 0 (seq (m * rank + r * n) n))
            (seq 0 rank)).
Proof.
  intros Hpos. unfold merge_out_chars. f_equal.
  apply flat_map_ext_in. intros r Hr. apply in_seq in Hr.
  rewrite !slice_seq.
  replace (Nat.min (S r * m - r * m) (m * rank - r * m)) with m by nia.
  replace (Nat.min (S r * n - r * n) (n * rank - r * n)) with n by nia.
  simpl. apply (merge_part_spec n); auto. apply seq_length.
Qed.

Theorem merge_spec_letters rank m n (pos : list Z) :
  1 <= n -> Forall (admissible n) pos ->
  exists np, merge_norm_pos n pos = Ok np /\
  merge_out_chars rank m n np =
  (seq 0 (m * rank), seq (m * rank) (n * rank),
   flat_map (fun r => chain_spec fst snd (combine (map (npos n) pos) (seq (r * m) m)) 0 (seq (m * rank + r * n) n))
            (seq 0 rank)).
Proof.
  intros Hn Hadm. eexists. split; [apply merge_norm_pos_adm; auto|].
  rewrite merge_out_chars_spec.
  - rewrite map_map. reflexivity.
  - apply Forall_forall. intros p Hp. apply in_map_iff in Hp. destruct Hp as [p0 [E Hin]]. subst p.
    rewrite Forall_forall in Hadm. apply norm_pos_adm; auto.
Qed.

(* ------------------------------------------------------------------ _tensor_insert_subscripts *)
(* Letter r (< rank) is axis r of the inserted tensor, letter rank + r*ndim + k is axis r of constituent k
   of arr: the output is, block by block, the arr block with the inserted letter at index pos. *)
Lemma insert_at_seq pos x a n : pos <= n ->
  insert_at pos x (seq a n) = seq a pos ++ x :: seq (a + pos) (n - pos).
Proof.
  intros H. unfold insert_at. rewrite firstn_seq, skipn_seq, Nat.min_l by lia. reflexivity.
Qed.

Lemma insert_pieces rank ndim pos : pos <= ndim -> forall j k, k + S j = rank ->
  seq (rank + k * ndim) pos ++
  flat_map (fun i => slice (seq 0 rank) i (S i) ++ slice (seq rank (ndim * rank)) (pos + i * ndim) (pos + S i * ndim))
           (seq k (S j)) =
  flat_map (fun r => insert_at pos r (seq (rank + r * ndim) ndim)) (seq k (S j)).
Proof.
  intros Hpos. induction j as [|j IH]; intros k Hk.
  - cbn [seq flat_map]. rewrite !app_nil_r, !slice_seq, insert_at_seq by lia.
    replace (Nat.min (S k - k) (rank - k)) with 1 by lia.
    replace (pos + S k * ndim - (pos + k * ndim)) with ndim by lia.
    replace (ndim * rank - (pos + k * ndim)) with (ndim - pos) by (subst rank; lia).
    rewrite Nat.min_r by lia.
    cbn [seq app]. f_equal. f_equal. f_equal. lia.
  - remember (S j) as j1. cbn [seq flat_map]. subst j1.
    rewrite <- (IH (S k)) by lia.
    rewrite !slice_seq, insert_at_seq by lia.
    replace (Nat.min (S k - k) (rank - k)) with 1 by lia.
    replace (pos + S k * ndim - (pos + k * ndim)) with ndim by lia.
    rewrite Nat.min_l by (subst rank; nia).
    replace ndim with ((ndim - pos) + pos) at 3 by lia.
    rewrite seq_app. cbn [seq app]. rewrite <- !app_assoc. cbn [app].
    change (0 + k) with k.
    replace (rank + (pos + k * ndim)) with (rank + k * ndim + pos) by lia.
    replace (rank + k * ndim + pos + (ndim - pos)) with (rank + S k * ndim) by lia.
    reflexivity.
Qed.

Theorem insert_subscripts_spec ndim pos rank : 1 <= rank -> pos <= ndim ->
  tensor_insert_subscripts ndim pos rank =
  (seq 0 rank, seq rank (ndim * rank),
   flat_map (fun r => insert_at pos r (seq (rank + r * ndim) ndim)) (seq 0 rank)).
Proof.
  intros Hr Hpos. unfold tensor_insert_subscripts. f_equal.
  destruct rank as [|j]; [lia|].
  rewrite <- (insert_pieces (S j) ndim pos Hpos j 0) by lia.
  rewrite firstn_seq. f_equal. rewrite Nat.min_l by nia. f_equal. lia.
Qed.

(* ------------------------------------------------------------------ rejection of inadmissible input *)
Lemma parse_dims_ok dims rank :
  parse_dims_arg dims rank = Ok tt <->
  length dims = rank /\ exists d t, dims = d :: t /\ Forall (fun x => length x = length d) t.
Proof.
  unfold parse_dims_arg. destruct (Nat.eqb_spec (length dims) rank) as [E|E]; simpl.
  - destruct dims as [|d t]; simpl.
    + split; [discriminate|]. intros [_ [d [t [H _]]]]. discriminate.
    + destruct (forallb (fun x => length x =? length d) t) eqn:F; simpl.
      * split; auto. intros _. split; auto. exists d, t. split; auto.
        apply Forall_forall. intros x Hx. rewrite forallb_forall in F. apply Nat.eqb_eq. auto.
      * split; [discriminate|]. intros [_ [d' [t' [H HF]]]]. injection H as -> ->.
        assert (forallb (fun x => length x =? length d') t' = true); [|congruence].
        apply forallb_forall. intros x Hx. rewrite Forall_forall in HF. apply Nat.eqb_eq. auto.
  - split; [discriminate|]. intros [H _]. contradiction.
Qed.
Lemma parse_dims_err dims rank e : parse_dims_arg dims rank = Err e -> e = ValueError.
Proof.
  unfold parse_dims_arg. destruct (negb (length dims =? rank)); [congruence|].
  destruct (negb (all_same_length dims)); congruence.
Qed.
(* _parse_dims_arg accepts exactly the rank x n_const tables *)
Theorem dims_rejects dims rank :
  ~ (length dims = rank /\ exists d t, dims = d :: t /\ Forall (fun x => length x = length d) t) ->
  parse_dims_arg dims rank = Err ValueError.
Proof.
  intros H. destruct (parse_dims_arg dims rank) as [[]|e] eqn:E.
  - exfalso. apply H. apply parse_dims_ok. exact E.
  - f_equal. eapply parse_dims_err; eauto.
Qed.

Lemma insert_items_bad {A} n (pos : list Z) (xs : list A) :
  1 <= n -> length pos = length xs -> ~ Forall (admissible n) pos ->
  exists it, In it (insert_items n pos xs) /\ div_ok (idiv it) = false.
Proof.
  intros Hn Hpx Hna.
  apply Exists_Forall_neg in Hna; [|intros p; unfold admissible; lia].
  apply Exists_exists in Hna. destruct Hna as [p [Hin Hp]].
  destruct (In_nth pos p 0%Z Hin) as [j [Hj Hnth]].
  assert (exists x, In (p, x) (combine pos xs)) as [x Hx].
  { clear Hp Hin. revert xs j Hpx Hj Hnth. induction pos as [|p0 pos IH]; intros [|x xs] j Hpx Hj Hnth; simpl in *; try lia.
    destruct j as [|j]; [subst; eauto|]. destruct (IH xs j) as [x' Hx']; try lia; eauto. }
  exists (mkitem n (p, x)). split.
  - unfold insert_items. apply sort_by_In. apply in_map_iff. exists (p, x); auto.
  - unfold idiv, mkitem. simpl. apply norm_pos_inadm; auto.
Qed.

(* tensor_insert never returns a result when a position lies outside [-n, n] *)
Theorem insert_rejects rank a args pos arr_dims :
  1 <= length (hd [] arr_dims) -> ~ Forall (admissible (length (hd [] arr_dims))) pos ->
  exists e, tensor_insert rank a args (PSeq pos) arr_dims = Err e.
Proof.
  intros Hn Hna. unfold tensor_insert.
  destruct (length args =? 0); [eauto|].
  destruct (Nat.eqb_spec (length pos) (length args)) as [E|E]; simpl; [|eauto].
  destruct (parse_dims_arg arr_dims rank) as [[]|e]; simpl; [|eauto].
  destruct ((rank =? 0) || (length (hd [] arr_dims) =? 0)); [eauto|].
  destruct (insert_loop_rejects (insert_step rank) (insert_items (length (hd [] arr_dims)) pos args) 0 (a, arr_dims)) as [e He].
  - apply insert_items_bad; auto.
  - rewrite He. simpl. eauto.
Qed.
Theorem insert_rejects_int rank a args p arr_dims :
  1 <= length (hd [] arr_dims) -> ~ admissible (length (hd [] arr_dims)) p ->
  exists e, tensor_insert rank a args (PInt p) arr_dims = Err e.
Proof.
  intros Hn Hna. unfold tensor_insert.
  destruct (Nat.eqb_spec (length args) 0) as [E0|E0]; [eauto|].
  assert (G : forall xs : list arr, length xs = 1 ->
            exists e, (do _ <- parse_dims_arg arr_dims rank;
                       (if (rank =? 0) || (length (hd [] arr_dims) =? 0) then Err OutOfScope
                        else do s <- insert_loop (insert_step rank) (insert_items (length (hd [] arr_dims)) [p] xs) 0 (a, arr_dims);
                             Ok (fst s))) = Err e).
  { intros xs Hxs. destruct (parse_dims_arg arr_dims rank) as [[]|e]; simpl; [|eauto].
    destruct ((rank =? 0) || (length (hd [] arr_dims) =? 0)); [eauto|].
    destruct (insert_loop_rejects (insert_step rank) (insert_items (length (hd [] arr_dims)) [p] xs) 0 (a, arr_dims)) as [e He].
    - apply insert_items_bad; auto. intros HF. inversion HF; auto.
    - rewrite He. simpl. eauto. }
  destruct (1 <? length args) eqn:E1; simpl.
  - destruct (tensor rank args) as [t|e]; simpl; [|eauto]. apply (G [t]). reflexivity.
  - apply G. apply Nat.ltb_ge in E1. lia.
Qed.

(* tensor_merge raises IndexError for a position outside [-n, n] (dimension tables well-formed) *)
Theorem merge_rejects rank a ins pos arr_dims ins_dims :
  parse_dims_arg arr_dims rank = Ok tt -> parse_dims_arg ins_dims rank = Ok tt ->
  1 <= rank -> 1 <= length (hd [] arr_dims) -> ~ Forall (admissible (length (hd [] arr_dims))) pos ->
  tensor_merge rank a ins pos arr_dims ins_dims = Err IndexError.
Proof.
  intros H1 H2 Hr Hn Hna. unfold tensor_merge. rewrite H1, H2. simpl.
  replace (rank =? 0) with false by (symmetry; apply Nat.eqb_neq; lia).
  replace (length (hd [] arr_dims) =? 0) with false by (symmetry; apply Nat.eqb_neq; lia).
  simpl. rewrite merge_norm_pos_rejects; auto.
Qed.

(* ill-formed dimension tables are rejected with ValueError by all three functions *)
Theorem insert_dims_rejects rank a args pos arr_dims e :
  parse_dims_arg arr_dims rank = Err e ->
  tensor_insert rank a args (PSeq pos) arr_dims = Err ValueError.
Proof.
  intros H. unfold tensor_insert.
  destruct (length args =? 0); [reflexivity|].
  destruct (negb (length pos =? length args)); simpl; [reflexivity|].
  rewrite H. simpl. f_equal. eapply parse_dims_err; eauto.
Qed.
Theorem merge_dims_rejects rank a ins pos arr_dims ins_dims :
  (exists e, parse_dims_arg arr_dims rank = Err e) \/ (exists e, parse_dims_arg ins_dims rank = Err e) ->
  tensor_merge rank a ins pos arr_dims ins_dims = Err ValueError.
Proof.
  intros [[e H]|[e H]]; unfold tensor_merge.
  - rewrite H. simpl. f_equal. eapply parse_dims_err; eauto.
  - destruct (parse_dims_arg arr_dims rank) as [[]|e'] eqn:E'; simpl.
    + rewrite H. simpl. f_equal. eapply parse_dims_err; eauto.
    + f_equal. eapply parse_dims_err; eauto.
Qed.
Theorem transpose_dims_rejects rank a order arr_dims e :
  parse_dims_arg arr_dims rank = Err e ->
  tensor_transpose rank a order arr_dims = Err ValueError.
Proof.
  intros H. unfold tensor_transpose. rewrite H. simpl. f_equal. eapply parse_dims_err; eauto.
Qed.

(* dimension tables whose product does not match the array are rejected (reshape fails) *)
Lemma tps_bcast_err a : forall b e, tps_bcast a b = Err e -> e = ValueError.
Proof.
  induction a as [|x a IH]; intros [|y b] e; simpl; try discriminate.
  destruct (tps_bcast a b) as [t|e'] eqn:E; simpl.
  - destruct ((x =? 1) || (y =? 1)); [discriminate|]. destruct (x =? y); congruence.
  - intros H. injection H as <-. eapply IH; eauto.
Qed.
Lemma tps_err sa sb rank e : tensor_product_shape sa sb rank = Err e -> e = ValueError.
Proof.
  unfold tensor_product_shape. destruct (tps_bcast _ _) as [t|e'] eqn:E; simpl; [discriminate|].
  intros H. injection H as <-. eapply tps_bcast_err; eauto.
Qed.
Theorem transpose_dims_product_rejects rank a order arr_dims :
  1 <= rank -> prodn (lead rank (shp a) ++ concat arr_dims) <> length (dat a) ->
  tensor_transpose rank a order arr_dims = Err ValueError.
Proof.
  intros Hr Hne. unfold tensor_transpose.
  destruct (parse_dims_arg arr_dims rank) as [[]|e] eqn:E; simpl.
  - replace (rank =? 0) with false by (symmetry; apply Nat.eqb_neq; lia).
    unfold reshape at 1. replace (prodn _ =? length (dat a)) with false by (symmetry; apply Nat.eqb_neq; auto).
    reflexivity.
  - f_equal. eapply parse_dims_err; eauto.
Qed.
Theorem merge_dims_product_rejects rank a ins pos arr_dims ins_dims :
  1 <= rank -> 1 <= length (hd [] arr_dims) -> Forall (admissible (length (hd [] arr_dims))) pos ->
  prodn (lead rank (shp ins) ++ concat ins_dims) <> length (dat ins) \/
  prodn (lead rank (shp a) ++ concat arr_dims) <> length (dat a) ->
  tensor_merge rank a ins pos arr_dims ins_dims = Err ValueError.
Proof.
  intros Hr Hn Hadm Hne. unfold tensor_merge.
  destruct (parse_dims_arg arr_dims rank) as [[]|e] eqn:E1; simpl; [|f_equal; eapply parse_dims_err; eauto].
  destruct (parse_dims_arg ins_dims rank) as [[]|e] eqn:E2; simpl; [|f_equal; eapply parse_dims_err; eauto].
  replace (rank =? 0) with false by (symmetry; apply Nat.eqb_neq; lia).
  replace (length (hd [] arr_dims) =? 0) with false by (symmetry; apply Nat.eqb_neq; lia).
  simpl. rewrite merge_norm_pos_adm by auto. simpl.
  destruct (tensor_product_shape (shp ins) (shp a) rank) as [os|e] eqn:E3; simpl; [|f_equal; eapply tps_err; eauto].
  unfold reshape at 1.
  destruct (Nat.eqb_spec (prodn (lead rank (shp ins) ++ concat ins_dims)) (length (dat ins))) as [E4|E4]; simpl; [|reflexivity].
  unfold reshape at 1.
  destruct (Nat.eqb_spec (prodn (lead rank (shp a) ++ concat arr_dims)) (length (dat a))) as [E5|E5]; simpl; [|reflexivity].
  tauto.
Qed.
End Generic.
