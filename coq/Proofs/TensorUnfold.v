(* C16 -- the "unfolded" Kronecker chain: reshaped to the constituent dimensions (axis-major), the entry
   at the multi-index (v_{a,k}) is the product over the factors k of F_k[v_{0,k}, .., v_{r-1,k}].  This is
   the bridge between the Kronecker chains of Spec/Kron.v and the reshape / transpose pipelines. *)
From Coq Require Import ZArith List Arith Lia Bool Permutation.
From FF Require Import Model.Tensor Spec.Kron Proofs.TensorIdx Proofs.TensorOrder Proofs.Tensor
  Proofs.TensorKron Proofs.TensorRegroup Proofs.TensorInsert Proofs.TensorInsertModel Proofs.TensorInsertLoop.
Import ListNotations.

Section Generic.
Context {T : Type} {EN : Entry T} {EL : EntryLaws T}.
Local Notation arr := (garr T).

Definition dims_table (r : nat) (L : list arr) : list (list nat) := map (fun a => axis_dims a L) (seq 0 r).

(* entry of factor k selected by the per-axis index blocks V *)
Definition factor_pick (r : nat) (V : list (list nat)) (k : nat) : list nat :=
  map (fun a => nth k (nth a V []) 0) (seq 0 r).

Lemma Forall2_nth {A B} (R : A -> B -> Prop) l m da db k :
  Forall2 R l m -> k < length l -> R (nth k l da) (nth k m db).
Proof.
  intros H. revert k. induction H; intros k Hk; simpl in *; [lia|]. destruct k; auto. apply IHForall2. lia.
Qed.

Lemma Forall2_len {A B} (R : A -> B -> Prop) l m : Forall2 R l m -> length l = length m.
Proof. induction 1; simpl; auto. Qed.

Theorem unfolded_entry r F L V : 1 <= r -> Forall (wf r) (F :: L) -> Forall2 inb V (dims_table r (F :: L)) ->
  aget (mkArr (concat (dims_table r (F :: L))) (dat (chain_u r (F :: L)))) (concat V) =
  zprod (map (fun k => aget (nth k (F :: L) (mkArr [] [])) (factor_pick r V k)) (seq 0 (length (F :: L)))).
Proof.
  intros Hr Hwf HV. set (L1 := F :: L) in *.
  assert (HF : wf r F) by (inversion Hwf; auto).
  assert (Hsh : shp (chain_u r L1) = map prodn (dims_table r L1)).
  { rewrite chain_u_shape by auto. unfold dims_table. rewrite map_map. reflexivity. }
  assert (HlV : length V = r).
  { apply Forall2_len in HV. unfold dims_table in HV. rewrite map_length, seq_length in HV. auto. }
  assert (HVlen : Forall2 (fun v d : list nat => length v = length d) V (dims_table r L1)).
  { clear -HV. induction HV; constructor; auto. eapply inb_length; eauto. }
  (* flat index in the fine shape = flat index in the coarse shape *)
  transitivity (aget (chain_u r L1) (map2 ravel (dims_table r L1) V)).
  { unfold aget. cbn [shp dat]. rewrite Hsh. f_equal. apply ravel_concat. auto. }
  (* the coarse multi-index is in range *)
  assert (Hin : inb (map2 ravel (dims_table r L1) V) (shp (chain_u r L1))).
  { rewrite Hsh. clear -HV. induction HV; simpl; constructor; auto. apply ravel_bound. auto. }
  unfold L1 at 1. rewrite chain_u_cons by auto. unfold L1 in Hin. rewrite chain_u_cons in Hin by auto.
  rewrite (kron_chain_entry r L F) by auto. fold L1.
  unfold kron_entry. f_equal. apply map_ext_in. intros k Hk. apply in_seq in Hk. f_equal.
  unfold factor_index, factor_pick. apply map_ext_in. intros a Ha. apply in_seq in Ha.
  f_equal.
  assert (Hnth : nth a (map2 ravel (dims_table r L1) V) 0 = ravel (axis_dims a L1) (nth a V [])).
  { rewrite (nth_map2 ravel [] [] 0) by (unfold dims_table; rewrite ?map_length, ?seq_length; lia).
    unfold dims_table. rewrite nth_map_seq by lia. reflexivity. }
  rewrite Hnth. apply unravel_ravel.
  pose proof (Forall2_nth inb V (dims_table r L1) [] [] a HV ltac:(lia)) as Hq.
  unfold dims_table in Hq. rewrite nth_map_seq in Hq by lia. exact Hq.
Qed.

Corollary unfolded_entry' r L V : 1 <= r -> L <> [] -> Forall (wf r) L -> Forall2 inb V (dims_table r L) ->
  aget (mkArr (concat (dims_table r L)) (dat (chain_u r L))) (concat V) =
  zprod (map (fun k => aget (nth k L (mkArr [] [])) (factor_pick r V k)) (seq 0 (length L))).
Proof. intros Hr Hne. destruct L as [|F L]; [congruence|]. apply unfolded_entry; auto. Qed.
End Generic.
