(* C01, further consequences at model level:
   (1) B(-w) = conj B(w) and F(-w) = conj F(w) for Hermitian noise operators and basis elements;
   (2) |B_jk(w)| <= (sum_g |s_j^g| |dt_g|) ||N_j||_F ||C_k||_F  (every V_g unitary): no overflow / a-priori scale. *)
From Coq Require Import ZArith Reals Lra Lia List Setoid Morphisms.
From Coquelicot Require Import Coquelicot.
From FF Require Import Base.Ops Inst.RInst Base.RAlg Model.Numeric Proofs.Foi Proofs.CMBase Proofs.CMIntegral Proofs.CMBound.
Import ListNotations.
Local Open Scope R_scope.

(* ---------- (1) negative frequencies ---------- *)
Lemma foi_entry_neg thr w evm evn dt :
  foi_entry RO thr (- w) evm evn dt = cconj' (foi_entry RO thr w evn evm dt).
Proof.
  unfold foi_entry, cite, cconj; simpl.
  set (x := w + (evn - evm)).
  replace (- w + (evm - evn)) with (- x) by (unfold x; ring).
  replace (- x * dt) with (- (x * dt)) by ring. rewrite Rabs_Ropp.
  destruct (Rgtb (Rabs (x * dt)) thr); simpl.
  - rewrite sin_neg, cos_neg. unfold Rdiv. rewrite Rinv_opp. f_equal; ring.
  - f_equal. ring.
Qed.

Section Sym.
Variable d : nat.

Lemma tbu_herm U A : fherm d (toF A) -> forall m n, (m < d)%nat -> (n < d)%nat ->
  mget RO (transform_by_unitary RO d U A) m n = cconj' (mget RO (transform_by_unitary RO d U A) n m).
Proof.
  intros HA m n Hm Hn.
  assert (H : feq d (fadj (toF (transform_by_unitary RO d U A))) (toF (transform_by_unitary RO d U A))).
  { rewrite toF_transform_by_unitary. rewrite !fadj_mul, fadj_invol_feq. unfold fherm in HA. rewrite HA.
    rewrite fmul_assoc. reflexivity. }
  specialize (H m n Hm Hn). unfold fadj, toF in H. symmetry. exact H.
Qed.

Lemma step_entry_neg thr ev V Q tg dt w s N Cm : fherm d (toF N) -> fherm d (toF Cm) ->
  step_entry d (foi_entry RO thr) ev V Q tg dt (- w) s N Cm =
  cconj' (step_entry d (foi_entry RO thr) ev V Q tg dt w s N Cm).
Proof.
  intros HN HC. unfold step_entry.
  set (NT := transform_by_unitary RO d V N). set (BT := transform_by_unitary RO d (mmul RO d (madj RO d Q) V) Cm).
  rewrite cconj_mul. replace (- w * tg) with (- (w * tg)) by ring. rewrite cexp_neg. f_equal.
  rewrite !cscal_cmul, cconj_mul. f_equal. { apply c_eq; csimp; ring. }
  rewrite csumn_conj. rewrite csumn_swap. apply csumn_ext; intros n Hn.
  rewrite csumn_conj. apply csumn_ext; intros m Hm.
  rewrite !cconj_mul. rewrite foi_entry_neg.
  unfold NT, BT. rewrite (tbu_herm V N HN m n), (tbu_herm _ Cm HC n m) by auto. ring.
Qed.

Lemma entry_loop_neg thr w N Cm : fherm d (toF N) -> fherm d (toF Cm) -> forall evs Vs Qs ts dts ss,
  entry_loop d (foi_entry RO thr) evs Vs Qs ts dts ss (- w) N Cm =
  cconj' (entry_loop d (foi_entry RO thr) evs Vs Qs ts dts ss w N Cm).
Proof.
  intros HN HC. induction evs as [|ev evs IH]; intros Vs Qs ts dts ss; simpl; [symmetry; apply cconj_0|].
  destruct Vs; [symmetry; apply cconj_0|]. destruct Qs; [symmetry; apply cconj_0|].
  destruct ts; [symmetry; apply cconj_0|]. destruct dts; [symmetry; apply cconj_0|]. destruct ss; [symmetry; apply cconj_0|].
  rewrite cconj_add, IH, step_entry_neg by auto. reflexivity.
Qed.

Lemma vg_map_opp om o : vg RO (map Ropp om) o = - vg RO om o.
Proof. unfold vg, vget; simpl. replace 0 with (- 0) at 1 by ring. apply (map_nth Ropp). Qed.

Theorem cm_neg_freq thr evs Vs Qs om bs ns nc dts ts j k o :
  (j < length ns)%nat -> (k < length bs)%nat -> (o < length om)%nat ->
  fherm d (toF (nthm ns j)) -> fherm d (toF (nthm bs k)) ->
  a3get RO (control_matrix_from_scratch RO d thr evs Vs Qs (map Ropp om) bs ns nc dts ts) j k o =
  cconj' (a3get RO (control_matrix_from_scratch RO d thr evs Vs Qs om bs ns nc dts ts) j k o).
Proof.
  intros Hj Hk Ho HN HC. rewrite !cm_entry_loop_formula by (auto; rewrite map_length; auto).
  rewrite vg_map_opp. apply entry_loop_neg; auto.
Qed.
End Sym.

Theorem ff_conj na nk no (Bm Bm' : Arr3 (T:=R)) a b o : (a < na)%nat -> (b < na)%nat -> (o < no)%nat ->
  (forall a' k, (a' < na)%nat -> (k < nk)%nat -> a3get RO Bm' a' k o = cconj' (a3get RO Bm a' k o)) ->
  a3get RO (filter_function RO na nk no Bm') a b o = cconj' (a3get RO (filter_function RO na nk no Bm) a b o).
Proof.
  intros Ha Hb Ho H. rewrite !ff_entry by auto. rewrite csumn_conj. apply csumn_ext; intros k Hk.
  rewrite !H by auto. rewrite cconj_mul. reflexivity.
Qed.

(* ---------- (2) size of the entries ---------- *)
Lemma Cmod_foi_entry_le thr w evm evn dt : 0 <= thr -> Cmod (foi_entry RO thr w evm evn dt) <= Rabs dt.
Proof.
  intros H0. destruct (Rlt_or_le thr (Rabs (foi_x w evm evn * dt))) as [Hm|Hu].
  - rewrite foi_entry_masked by auto. pose proof (masked_div_safe _ _ _ H0 Hm) as Hx.
    set (x := foi_x w evm evn) in *. set (y := x * dt).
    assert (Hsq : Cmod (sin y / x, (1 - cos y) / x) * Cmod (sin y / x, (1 - cos y) / x) <= Rabs dt * Rabs dt).
    { rewrite Cmod_sq. csimp.
      destruct (one_minus_cos_bound y) as [_ Hc].
      assert (E : sin y / x * (sin y / x) + (1 - cos y) / x * ((1 - cos y) / x) = (2 * (1 - cos y)) / (x * x)).
      { generalize (sin2_cos2 y). unfold Rsqr. intros S.
        replace (2 * (1 - cos y)) with (sin y * sin y + (1 - cos y) * (1 - cos y) - (sin y * sin y + cos y * cos y - 1)) by ring.
        rewrite S. field. auto. }
      assert (Hxx : 0 < x * x) by (destruct (Rdichotomy _ _ Hx); nra).
      rewrite E. rewrite <- Rabs_mult. rewrite (Rabs_right (dt * dt)) by nra.
      apply Rmult_le_reg_r with (x * x); [exact Hxx|].
      replace (2 * (1 - cos y) / (x * x) * (x * x)) with (2 * (1 - cos y)) by (field; auto).
      unfold y in *. nra. }
    pose proof (Cmod_ge_0 (sin y / x, (1 - cos y) / x)). pose proof (Rabs_pos dt). nra.
  - rewrite foi_entry_unmasked by auto. change (dt, 0) with (RtoC dt). rewrite Cmod_R. lra.
Qed.

Section Size.
Variable d : nat.

Lemma Cmod_step_entry_le thr ev V Q tg dt w s N Cm : 0 <= thr ->
  Cmod (step_entry d (foi_entry RO thr) ev V Q tg dt w s N Cm) <= Rabs s * Rabs dt * step_weight d V Q N Cm.
Proof.
  intros H0. unfold step_entry. rewrite Cmod_cmul, Cmod_cexp, Rmult_1_l, Cmod_cscal.
  rewrite Rmult_assoc. apply Rmult_le_compat_l. apply Rabs_pos.
  eapply Rle_trans. apply Cmod_csumn_le. unfold step_weight. rewrite <- sumn_mul_l. apply sumn_le; intros m _.
  eapply Rle_trans. apply Cmod_csumn_le. rewrite <- sumn_mul_l. apply sumn_le; intros n _.
  rewrite !Cmod_cmul.
  pose proof (Cmod_foi_entry_le thr w (vg RO ev m) (vg RO ev n) dt H0).
  pose proof (Cmod_ge_0 (mget RO (transform_by_unitary RO d V N) m n)).
  pose proof (Cmod_ge_0 (mget RO (transform_by_unitary RO d (mmul RO d (madj RO d Q) V) Cm) n m)).
  match goal with |- ?a * ?i * ?b <= ?r * (?a * ?b) => replace (r * (a * b)) with (a * r * b) by ring end.
  apply Rmult_le_compat_r; auto. apply Rmult_le_compat_l; auto.
Qed.

Lemma Cmod_entry_segs_le thr w N Cm : 0 <= thr -> forall segs Q t, segs_unitary d segs -> funitary d (toF Q) ->
  Cmod (entry_segs d (foi_entry RO thr) segs Q t w N Cm) <= segs_sdt segs * (Fnorm d N * Fnorm d Cm).
Proof.
  intros H0. induction segs as [|[[[ev V] dt] s] r IH]; intros Q t HU HQ; simpl.
  - rewrite Cmod_c0. lra.
  - inversion HU as [|? ? H1 H2]; subst.
    eapply Rle_trans. apply Cmod_cadd_le.
    pose proof (Cmod_step_entry_le thr ev V Q t dt w s N Cm H0) as Hs.
    pose proof (step_weight_le_norms d V Q N Cm H1 HQ) as Hw.
    specialize (IH (mmul RO d (segment_propagator RO d ev V dt) Q) (t + dt) H2 (Useg_unitary d ev V Q dt H1 HQ)).
    assert (0 <= Rabs s * Rabs dt) by (apply Rmult_le_pos; apply Rabs_pos).
    assert (Rabs s * Rabs dt * step_weight d V Q N Cm <= Rabs s * Rabs dt * (Fnorm d N * Fnorm d Cm))
      by (apply Rmult_le_compat_l; auto).
    lra.
Qed.

Theorem control_matrix_entry_bound thr evs Vs dts om bs ns nc j k o :
  0 <= thr -> (forall g, (g < length dts)%nat -> funitary d (toF (nth g Vs []))) ->
  (j < length ns)%nat -> (k < length bs)%nat -> (o < length om)%nat ->
  Cmod (a3get RO (control_matrix_from_scratch RO d thr evs Vs (propagators RO d evs Vs dts) om bs ns nc dts (times RO dts)) j k o)
  <= segs_sdt (pulse_segs evs Vs dts nc j) * (Fnorm d (nthm ns j) * Fnorm d (nthm bs k)).
Proof.
  intros H0 HV Hj Hk Ho. rewrite cm_entry_formula by auto. fold (pulse_segs evs Vs dts nc j).
  apply Cmod_entry_segs_le; auto.
  - unfold segs_unitary, pulse_segs. generalize (sens_row (length dts) nc j). clear - HV.
    revert Vs dts HV. induction evs as [|ev evs IH]; intros Vs dts HV ss; [constructor|].
    destruct Vs as [|V Vs]; [constructor|]. destruct dts as [|dt dts]; [constructor|]. destruct ss as [|s ss]; [constructor|].
    simpl. constructor.
    + apply (HV 0%nat). simpl; lia.
    + apply IH. intros g Hg. apply (HV (S g)). simpl; lia.
  - rewrite toF_mid. apply funitary_id.
Qed.
End Size.
