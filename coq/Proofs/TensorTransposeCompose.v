(* C16 -- tensor_transpose is a (right) action of the permutations on Kronecker chains: transposing with
   `o1` and then with `o2` (the second call being handed the dimensions of the rearranged chain) equals
   one transposition with the composed order k |-> o1[o2[k]]; with the inverse order the original chain
   comes back.  Corollaries of transpose_spec; every rank, chain and pair of permutations. *)
From Coq Require Import ZArith List Arith Lia Bool Permutation.
From FF Require Import Model.Tensor Spec.Kron Proofs.TensorIdx Proofs.TensorOrder Proofs.Tensor
  Proofs.TensorKron Proofs.TensorRegroup Proofs.TensorInsert Proofs.TensorInsertModel Proofs.TensorInsertLoop
  Proofs.TensorUnfold Proofs.TensorTranspose.
Import ListNotations.

Definition compose_ord (o1 o2 : list nat) : list nat := map (fun k => nth k o1 0) o2.

Lemma compose_ord_perm n o1 o2 :
  Permutation o1 (seq 0 n) -> Permutation o2 (seq 0 n) -> Permutation (compose_ord o1 o2) (seq 0 n).
Proof.
  intros H1 H2. unfold compose_ord.
  apply (Permutation_trans (Permutation_map (fun k => nth k o1 0) H2)).
  assert (Hl : length o1 = n) by (rewrite (Permutation_length H1); apply seq_length).
  rewrite <- Hl at 1. rewrite map_nth_seq_list. exact H1.
Qed.

Section Generic.
Context {T : Type} {EN : Entry T} {EL : EntryLaws T}.
Local Notation arr := (garr T).

Lemma permute_list_compose o1 o2 (L : list arr) :
  Forall (fun k => k < length o1) o2 ->
  permute_list o2 (permute_list o1 L) = permute_list (compose_ord o1 o2) L.
Proof.
  intros H. unfold permute_list, compose_ord. rewrite map_map. apply map_ext_in. intros k Hk.
  rewrite Forall_forall in H. specialize (H k Hk).
  set (f := fun o : nat => nth o L (mkArr [] [])).
  rewrite (nth_indep _ (mkArr [] []) (f 0)) by (rewrite map_length; lia).
  rewrite map_nth. reflexivity.
Qed.

Lemma permute_list_id (L : list arr) : permute_list (seq 0 (length L)) L = L.
Proof. unfold permute_list. apply map_nth_seq_list. Qed.

Lemma permute_list_length ord (L : list arr) : length (permute_list ord L) = length ord.
Proof. unfold permute_list. apply map_length. Qed.

Theorem transpose_compose r (L : list arr) o1 o2 :
  1 <= r -> 1 <= length L -> Forall (wf r) L ->
  Permutation o1 (seq 0 (length L)) -> Permutation o2 (seq 0 (length L)) ->
  (do a <- tensor_transpose r (chain_u r L) (map Z.of_nat o1) (dims_table r L);
   tensor_transpose r a (map Z.of_nat o2) (dims_table r (permute_list o1 L)))
  = tensor_transpose r (chain_u r L) (map Z.of_nat (compose_ord o1 o2)) (dims_table r L).
Proof.
  intros Hr Hn Hw H1 H2.
  assert (Hl1 : length o1 = length L) by (rewrite (Permutation_length H1); apply seq_length).
  assert (Hord1 : Forall (fun o => o < length L) o1).
  { apply Forall_forall. intros o Ho. apply (Permutation_in _ H1) in Ho. apply in_seq in Ho. lia. }
  assert (Hord2 : Forall (fun o => o < length o1) o2).
  { apply Forall_forall. intros o Ho. apply (Permutation_in _ H2) in Ho. apply in_seq in Ho. lia. }
  rewrite transpose_spec by auto. cbn [bind].
  rewrite transpose_spec; auto.
  - rewrite transpose_spec; auto.
    + rewrite permute_list_compose by exact Hord2. reflexivity.
    + apply compose_ord_perm; assumption.
  - rewrite permute_list_length. lia.
  - apply wf_permute_list; auto.
  - rewrite permute_list_length, Hl1. exact H2.
Qed.

(* round trip: `o2` the inverse of `o1` (o1[o2[k]] = k for every k) gives the chain back unchanged *)
Theorem transpose_round_trip r (L : list arr) o1 o2 :
  1 <= r -> 1 <= length L -> Forall (wf r) L ->
  Permutation o1 (seq 0 (length L)) -> Permutation o2 (seq 0 (length L)) ->
  compose_ord o1 o2 = seq 0 (length L) ->
  (do a <- tensor_transpose r (chain_u r L) (map Z.of_nat o1) (dims_table r L);
   tensor_transpose r a (map Z.of_nat o2) (dims_table r (permute_list o1 L)))
  = Ok (chain_u r L).
Proof.
  intros Hr Hn Hw H1 H2 Hinv.
  rewrite transpose_compose by assumption. rewrite Hinv.
  rewrite transpose_spec; auto.
  - rewrite permute_list_id. reflexivity.
Qed.
End Generic.
