(* C14 -- the index arithmetic of Basis.ggm / ggm_expand: the enumeration
     j = np.repeat(np.arange(d-1), np.arange(d-1, 0, -1)),  k = np.arange(1, n_sym+1) - (j(2d-j-3)/2)
   hits every pair of the strict upper triangle exactly once, for every d. *)
From Coq Require Import ZArith List Lia Arith.
From FF Require Import Base.Ops Model.BasisModel.
Import ListNotations.

Fixpoint nsum (n : nat) (g : nat -> nat) : nat := match n with O => 0 | S k => nsum k g + g k end.
Lemma nsum_ext n g h : (forall i, i < n -> g i = h i) -> nsum n g = nsum n h.
Proof. induction n; intros H; simpl; auto. rewrite IHn, H; auto. Qed.
Lemma nsum_shift n g : nsum (S n) g = g 0 + nsum n (fun i => g (S i)).
Proof. induction n. simpl. lia. change (nsum (S (S n)) g) with (nsum (S n) g + g (S n)). rewrite IHn. simpl. lia. Qed.
Lemma nsum_le_mono n m g : n <= m -> nsum n g <= nsum m g.
Proof. induction 1. lia. simpl. lia. Qed.

Lemma nth_repeat' {A} (a dflt : A) m r : r < m -> nth r (repeat a m) dflt = a.
Proof. revert r. induction m; intros r H. lia. destruct r; simpl; auto. apply IHm. lia. Qed.

(* concatenation of blocks: value a repeated f(a) times, a = s .. s+n-1 *)
Definition blocks (f : nat -> nat) (s n : nat) : list nat := concat (map (fun a => repeat a (f a)) (seq s n)).

Lemma blocks_S f s n : blocks f s (S n) = repeat s (f s) ++ blocks f (S s) n.
Proof. reflexivity. Qed.

Lemma blocks_length f s n : length (blocks f s n) = nsum n (fun i => f (s + i)).
Proof.
  revert s. induction n; intros s. reflexivity.
  rewrite blocks_S, app_length, repeat_length, IHn, nsum_shift. rewrite Nat.add_0_r.
  f_equal. apply nsum_ext. intros i _. f_equal. lia.
Qed.

Lemma blocks_nth f n : forall s t r, t < n -> r < f (s + t) ->
  nth (nsum t (fun i => f (s + i)) + r) (blocks f s n) 0 = s + t.
Proof.
  induction n; intros s t r Ht Hr. lia.
  rewrite blocks_S. destruct t.
  - simpl nsum. rewrite Nat.add_0_r in *. rewrite app_nth1 by (rewrite repeat_length; lia).
    apply nth_repeat'. lia.
  - rewrite nsum_shift, Nat.add_0_r.
    rewrite app_nth2 by (rewrite repeat_length; lia). rewrite repeat_length.
    replace (f s + nsum t (fun i => f (s + S i)) + r - f s) with (nsum t (fun i => f (S s + i)) + r).
    2:{ rewrite (nsum_ext t (fun i => f (s + S i)) (fun i => f (S s + i))). lia. intros; f_equal; lia. }
    rewrite IHn. lia. lia. replace (S s + t) with (s + S t) by lia. auto.
Qed.

Lemma blocks_decomp f n : forall s m, m < length (blocks f s n) ->
  exists t r, t < n /\ r < f (s + t) /\ m = nsum t (fun i => f (s + i)) + r.
Proof.
  induction n; intros s m Hm. simpl in Hm. lia.
  rewrite blocks_S, app_length, repeat_length in Hm.
  destruct (lt_dec m (f s)) as [Hlt|Hge].
  - exists 0, m. rewrite Nat.add_0_r. simpl. repeat split; lia.
  - destruct (IHn (S s) (m - f s)) as (t & r & Ht & Hr & Hm'). lia.
    exists (S t), r. rewrite nsum_shift, Nat.add_0_r. replace (s + S t) with (S s + t) by lia.
    repeat split; try lia.
    rewrite (nsum_ext t (fun i => f (s + S i)) (fun i => f (S s + i))). lia. intros; f_equal; lia.
Qed.

(* ------------------------------------------------------------------ the triangular enumeration *)
(* offset of row j: sum_{i<j} (d-1-i) *)
Definition off (d j : nat) : nat := nsum j (fun i => d - 1 - i).

Lemma ggm_jlist_blocks d : ggm_jlist d = blocks (fun a => d - 1 - a) 0 (d - 1).
Proof. reflexivity. Qed.

(* closed form: 2 off(d, j) = j (2d - j - 1), stated without subtraction *)
Lemma off_closed' d j : j <= d -> 2 * off d j + j * j + j = 2 * j * d.
Proof.
  induction j; intros Hj. reflexivity.
  unfold off in *. simpl nsum. specialize (IHj ltac:(lia)).
  revert IHj. generalize (nsum j (fun i => d - 1 - i)). intros S IH. nia.
Qed.
Lemma off_closed j e : 2 * off (j + e) j + j * j + j = 2 * j * (j + e).
Proof. apply off_closed'. lia. Qed.

Lemma off_length d : length (ggm_jlist d) = off d (d - 1).
Proof. rewrite ggm_jlist_blocks, blocks_length. reflexivity. Qed.

Lemma two_nsym d : 2 * n_sym d = d * (d - 1) /\ n_sym d = off d (d - 1).
Proof.
  unfold n_sym. destruct d. split; reflexivity.
  replace (S d - 1) with d by lia.
  pose proof (off_closed d 1) as H. replace (d + 1) with (S d) in H by lia.
  assert (E : S d * d = off (S d) d * 2) by nia.
  rewrite E. rewrite Nat.div_mul by lia. split; lia.
Qed.

Lemma ggm_jlist_length d : length (ggm_jlist d) = n_sym d.
Proof. rewrite off_length. symmetry. apply two_nsym. Qed.

Lemma nth_map' {A B} (f : A -> B) l m d1 d2 : m < length l -> nth m (map f l) d1 = f (nth m l d2).
Proof. revert m. induction l; intros m H; simpl in *. lia. destruct m; auto. apply IHl. lia. Qed.

Lemma ggm_klist_nth d m : m < n_sym d -> ggm_k d m = ggm_k_of d m (ggm_j d m).
Proof.
  intros Hm. unfold ggm_k, ggm_klist, ggm_j.
  assert (Hl : length (combine (seq 0 (n_sym d)) (ggm_jlist d)) = n_sym d).
  { rewrite combine_length, seq_length, ggm_jlist_length. lia. }
  rewrite (nth_map' _ _ _ 0 (0, 0)) by lia. rewrite combine_nth by (rewrite seq_length, ggm_jlist_length; auto).
  rewrite seq_nth by auto. reflexivity.
Qed.

(* every enumerated pair lies in the strict upper triangle, at position off(j) + (k - j - 1) *)
Theorem ggm_pair_spec d m : m < n_sym d ->
  exists j r, j + 1 < d /\ r < d - 1 - j /\ m = off d j + r /\ ggm_j d m = j /\ ggm_k d m = j + 1 + r.
Proof.
  intros Hm.
  assert (Hm' : m < length (blocks (fun a => d - 1 - a) 0 (d - 1))) by (rewrite <- ggm_jlist_blocks, ggm_jlist_length; auto).
  destruct (blocks_decomp _ _ _ _ Hm') as (j & r & Hj & Hr & Hmeq). simpl in Hr, Hmeq.
  exists j, r. fold (off d j) in Hmeq.
  assert (Hjv : ggm_j d m = j).
  { unfold ggm_j. rewrite ggm_jlist_blocks, Hmeq. apply (blocks_nth (fun a => d - 1 - a) (d - 1) 0 j r); auto. }
  repeat split; try lia; auto.
  rewrite ggm_klist_nth, Hjv by auto. unfold ggm_k_of.
  (* d = j + e with e >= 2 *)
  destruct (Nat.le_exists_sub (j + 2) d) as (e & He & _). lia.
  assert (Hd : d = j + (e + 2)) by lia.
  pose proof (off_closed j (e + 2)) as Hoff. rewrite <- Hd in Hoff.
  assert (Hdiv : j * (2 * d - j - 3) / 2 = off d j - j).
  { replace (j * (2 * d - j - 3)) with ((off d j - j) * 2).
    apply Nat.div_mul. lia. subst d. nia. }
  rewrite Hdiv. subst d. nia.
Qed.

Theorem ggm_pair_lt d m : m < n_sym d -> ggm_j d m < ggm_k d m /\ ggm_k d m < d.
Proof. intros Hm. destruct (ggm_pair_spec d m Hm) as (j & r & ? & ? & ? & -> & ->). lia. Qed.

Lemma off_mono d j j' : j <= j' -> off d j <= off d j'.
Proof. apply nsum_le_mono. Qed.
Lemma off_S d j : off d (S j) = off d j + (d - 1 - j).
Proof. reflexivity. Qed.

(* injective: the pair determines the position *)
Theorem ggm_pair_inj d m m' : m < n_sym d -> m' < n_sym d ->
  ggm_j d m = ggm_j d m' -> ggm_k d m = ggm_k d m' -> m = m'.
Proof.
  intros Hm Hm' Hj Hk.
  destruct (ggm_pair_spec d m Hm) as (j & r & ? & ? & -> & Hj1 & Hk1).
  destruct (ggm_pair_spec d m' Hm') as (j' & r' & ? & ? & -> & Hj2 & Hk2).
  rewrite Hj1, Hj2 in Hj. rewrite Hk1, Hk2 in Hk. subst j'. f_equal. lia.
Qed.

(* surjective: every pair a < b < d is enumerated, at position off(a) + (b - a - 1) *)
Theorem ggm_pair_surj d a b : a < b -> b < d ->
  let m := off d a + (b - a - 1) in m < n_sym d /\ ggm_j d m = a /\ ggm_k d m = b.
Proof.
  intros Hab Hbd m.
  assert (Hm : m < n_sym d).
  { destruct (two_nsym d) as [_ ->]. unfold m.
    assert (off d (S a) <= off d (d - 1)) by (apply off_mono; lia). rewrite off_S in H. lia. }
  split; auto.
  assert (Hj : ggm_j d m = a).
  { unfold ggm_j. rewrite ggm_jlist_blocks. unfold m, off.
    apply (blocks_nth (fun x => d - 1 - x) (d - 1) 0 a (b - a - 1)); simpl; lia. }
  split; auto.
  destruct (ggm_pair_spec d m Hm) as (j & r & ? & ? & Hmeq & Hj1 & Hk1).
  rewrite Hj in Hj1. subst j. rewrite Hk1. unfold m in Hmeq. lia.
Qed.

(* the bijection, in one statement *)
Theorem ggm_index_bijection d :
  (forall m, m < n_sym d -> ggm_j d m < ggm_k d m < d) /\
  (forall m m', m < n_sym d -> m' < n_sym d -> ggm_j d m = ggm_j d m' -> ggm_k d m = ggm_k d m' -> m = m') /\
  (forall a b, a < b < d -> exists m, m < n_sym d /\ ggm_j d m = a /\ ggm_k d m = b).
Proof.
  split; [|split].
  - intros m Hm. destruct (ggm_pair_lt d m Hm). lia.
  - apply ggm_pair_inj.
  - intros a b [Hab Hbd]. exists (off d a + (b - a - 1)). apply ggm_pair_surj; auto.
Qed.

Lemma dd_count d : 0 < d -> d * d = 1 + 2 * n_sym d + (d - 1).
Proof. intros Hd. destruct (two_nsym d) as [H _]. rewrite H. destruct d. lia. simpl. nia. Qed.
