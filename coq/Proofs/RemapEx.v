(* Concrete instances showing that the hypotheses of the C06 theorems are satisfiable:
   a 2-qubit pulse with two noise operators whose identifier mapping reverses their order,
   every cache slot present, remapped by the swap.                                          *)
From Coq Require Import String ZArith Reals List Lra Lia Arith Bool Permutation.
From FF Require Import Base.Ops Inst.RInst Base.RAlg Spec.Kron2 Spec.DigitPerm Spec.StrSort
     Model.Numeric Model.Remap Proofs.RemapIdx Proofs.RemapCov Proofs.Remap Proofs.RemapFinal.
Import ListNotations.
Local Open Scope nat_scope.

Definition rc (x : R) : Cx := (x, 0%R).
Definition mdiag4 (a b c e : R) : Mat (T:=R) :=
  [[rc a; 0c; 0c; 0c]; [0c; rc b; 0c; 0c]; [0c; 0c; rc c; 0c]; [0c; 0c; 0c; rc e]].
Definition ZI := mdiag4 1 1 (-1) (-1).                       (* Z (x) 1 *)
Definition P0I := mdiag4 1 1 0 0.                            (* (1+Z)/2 (x) 1, not traceless *)
Definition IX : Mat (T:=R) :=                                (* 1 (x) X *)
  [[0c; 1c; 0c; 0c]; [1c; 0c; 0c; 0c]; [0c; 0c; 0c; 1c]; [0c; 0c; 1c; 0c]].
Definition ex_cm : list (list (list Cx)) := build 2 (fun a => build 16 (fun k => [rc (INR (16 * a + k))])).
Definition ex_ff : list (list (list Cx)) := build 2 (fun a => build 2 (fun b => [rc (INR (2 * a + b))])).
Definition ex_tpl : list (list R) := build 16 (fun i => build 16 (fun j => INR (16 * i + j))).

Definition ex_pulse : rpulse :=
  mkPulse 4 [ZI] [P0I; IX] ["c"%string] ["a"%string; "b"%string] [[1%R]] [[1%R]; [2%R]] [1%R] "Pauli"%string
    (Have [0%R; 1%R]) (Have 1%R)
    (Have [[1%R; 1%R; (-1)%R; (-1)%R]]) (Have [mdiag4 1 1 1 1]) Absent (Have (mdiag4 1 1 1 1))
    (Have [1%R]) (Have [1c]) (Have ex_ff) (Have ex_tpl) (Have ex_cm).
Definition ex_map : list (string * string) := [("a", "z"); ("b", "k"); ("c", "c")]%string.

Example ex_remap_succeeds :
  exists r, rremap ex_pulse [1; 0] 2 (Some ex_map) = Some r
    /\ n_ids r = ["k"; "z"]%string
    /\ (exists B, control_matrix r = Have B) /\ (exists Fm, filter_function r = Have Fm)
    /\ (exists L, tpl r = Have L) /\ (exists e V, eigvals r = Have e /\ eigvecs r = Have V)
    /\ (exists U, total_propagator r = Have U).
Proof.
  eexists. split. unfold rremap, remap. simpl. reflexivity. simpl.
  repeat split; eexists; try reflexivity. eexists. split; reflexivity.
Qed.
Example ex_wf : wf_pulse ex_pulse.
Proof. repeat split. Qed.
Example ex_order_perm : is_perm 2 [1; 0] /\ is_perm 3 [2; 0; 1].
Proof. split; apply is_permb_spec; reflexivity. Qed.
Example ex_shapes : is_arr 2 16 ex_cm /\ is_arr 16 16 ex_tpl /\ List.length ex_ff = 2.
Proof.
  unfold is_arr, ex_cm, ex_tpl, ex_ff. rewrite !build_len. repeat split.
  - apply Forall_forall. intros row H. unfold build in H. apply in_map_iff in H. destruct H as [a [<- _]]. apply build_len.
  - apply Forall_forall. intros row H. unfold build in H. apply in_map_iff in H. destruct H as [a [<- _]]. apply build_len.
Qed.
(* the Pauli-basis hypothesis is satisfiable for every N and every choice of the four 2x2 matrices *)
Example ex_basis sigma nrm N : basis_is_pauli sigma nrm N (pauli_list sigma nrm N).
Proof. apply pauli_list_is_pauli. Qed.
(* cache consistency (the inner premise) is satisfiable: any array equals itself *)
Example ex_consistent n1 n2 n3 X : a3eq n1 n2 n3 X X.
Proof. intros a k o _ _ _. reflexivity. Qed.
