(* C14 -- Basis.ggm(d): closed-form expansion coefficients tr(Lambda_idx Y) for every element
   (this is ggm_expand = expand), and from them orthonormality and Hermiticity for every d. *)
From Coq Require Import ZArith Reals List Lra Lia Ring Arith Bool.
From FF Require Import Base.Ops Inst.RInst Base.RAlg Model.BasisModel Proofs.BasisAlg Proofs.BasisGGMIdx.
Import ListNotations.
Local Open Scope R_scope.

Definition ggm_C (d idx : nat) : fmat := toF (ggm_elem RO d idx).
Definition s2 : R := 1 / sqrt 2.

Lemma sqrt2_neq : sqrt 2 <> 0.
Proof. intros H. generalize (sqrt_lt_R0 2). lra. Qed.
Lemma s2_sq : s2 * s2 = 1 / 2.
Proof. unfold s2. replace (1 / sqrt 2 * (1 / sqrt 2)) with (1 / (sqrt 2 * sqrt 2)) by (field; apply sqrt2_neq).
  rewrite sqrt_sqrt by lra. reflexivity. Qed.
Lemma inv_sqrt2_R : inv_sqrt2 RO = s2.
Proof. unfold inv_sqrt2, s2, o2. simpl. replace (1 + 1) with 2 by ring. reflexivity. Qed.
Lemma onat_INR n : onat RO n = INR n.
Proof. unfold onat, oZ. simpl. unfold Rdya. simpl. rewrite <- INR_IZR_INZ. ring. Qed.

(* elementary matrix *)
Definition fE (j k : nat) : fmat := fun a b => if (Nat.eqb a j && Nat.eqb b k)%bool then 1c else 0c.

Lemma trE d j k Y : (j < d)%nat -> (k < d)%nat -> ftr d (fmul d (fE j k) Y) = Y k j.
Proof.
  intros Hj Hk. unfold ftr, fmul, fE.
  rewrite (csumn_ext d _ (fun a => if Nat.eqb a j then Y k a else 0c)).
  apply (csumn_delta' d j (fun a => Y k a)); auto.
  intros a Ha. destruct (Nat.eqb a j); simpl.
  - rewrite (csumn_ext d _ (fun b => if Nat.eqb b k then Y b a else 0c)).
    apply (csumn_delta' d k (fun b => Y b a)); auto. intros b _. destruct (Nat.eqb b k); ring.
  - rewrite (csumn_ext d _ (fun _ => 0c)). apply csumn_0. intros; ring.
Qed.

(* linearity of A |-> tr(A Y) for two summands *)
Lemma tr_lin2 d x y A Bm Y :
  ftr d (fmul d (fun a b => cadd' (cmul' x (A a b)) (cmul' y (Bm a b))) Y) =
  cadd' (cmul' x (ftr d (fmul d A Y))) (cmul' y (ftr d (fmul d Bm Y))).
Proof.
  unfold ftr, fmul. rewrite <- !csumn_mul_l, <- csumn_add. apply csumn_ext. intros a _.
  rewrite <- !csumn_mul_l, <- csumn_add. apply csumn_ext. intros b _. ring.
Qed.

(* tr(D Y) for a diagonal matrix *)
Lemma tr_diag d (v : nat -> Cx) Y :
  ftr d (fmul d (fun a b => if Nat.eqb a b then v a else 0c) Y) = csumn' d (fun a => cmul' (v a) (Y a a)).
Proof.
  unfold ftr, fmul. apply csumn_ext. intros a Ha.
  rewrite (csumn_ext d _ (fun b => if Nat.eqb a b then cmul' (v a) (Y b a) else 0c)).
  apply (csumn_delta d a (fun b => cmul' (v a) (Y b a))); auto.
  intros b _. destruct (Nat.eqb a b); ring.
Qed.

(* sum of the diagonal pattern (1,..,1,-l,0,..) against y *)
Lemma diag_val_R l a : ggm_diag_val RO l a = if (a <? l)%nat then 1 else if (a =? l)%nat then - INR l else 0.
Proof. unfold ggm_diag_val. rewrite onat_INR. reflexivity. Qed.

Lemma diag_pattern_sum l (y : nat -> Cx) n :
  csumn' n (fun a => cmul' (cofr RO (ggm_diag_val RO l a)) (y a)) =
  if (n <=? l)%nat then csumn' n y else csub' (csumn' l y) (cmul' (cofr RO (INR l)) (y l)).
Proof.
  induction n. simpl. reflexivity.
  rewrite csumn_S, IHn, diag_val_R.
  destruct (Nat.leb_spec n l); destruct (Nat.leb_spec (S n) l); try lia.
  - destruct (Nat.ltb_spec n l); try lia. rewrite csumn_S. apply c_eq; csimp; ring.
  - assert (n = l) by lia. subst n. rewrite Nat.ltb_irrefl, Nat.eqb_refl. apply c_eq; csimp; ring.
  - destruct (Nat.ltb_spec n l); try lia. destruct (Nat.eqb_spec n l); try lia. apply c_eq; csimp; ring.
Qed.

(* ------------------------------------------------------------------ entries of the four families *)
Section Fam.
Variable d : nat.
Hypothesis Hd : (0 < d)%nat.
Let ns := n_sym d.

Lemma ggm_C_id a b : (a < d)%nat -> (b < d)%nat ->
  ggm_C d 0 a b = if Nat.eqb a b then (1 / sqrt (INR d), 0) else 0c.
Proof.
  intros Ha Hb. unfold ggm_C, ggm_elem. simpl Nat.eqb. cbv iota. rewrite toF_mbuild by auto.
  destruct (Nat.eqb a b); auto. rewrite onat_INR. apply c_eq; csimp; try reflexivity. unfold Rdiv. ring.
Qed.

Lemma ggm_C_sym m a b : (m < ns)%nat -> (a < d)%nat -> (b < d)%nat ->
  ggm_C d (S m) a b =
  cmul' (s2, 0) (cadd' (fE (ggm_j d m) (ggm_k d m) a b) (fE (ggm_k d m) (ggm_j d m) a b)).
Proof.
  intros Hm Ha Hb. unfold ggm_C, ggm_elem. fold ns.
  replace (S m =? 0)%nat with false by reflexivity.
  replace (S m <=? ns)%nat with true by (symmetry; apply Nat.leb_le; lia).
  rewrite toF_mbuild by auto. replace (S m - 1)%nat with m by lia. rewrite inv_sqrt2_R.
  destruct (ggm_pair_lt d m Hm) as [Hjk _]. unfold fE.
  destruct (Nat.eqb_spec a (ggm_j d m)); destruct (Nat.eqb_spec b (ggm_k d m));
  destruct (Nat.eqb_spec a (ggm_k d m)); destruct (Nat.eqb_spec b (ggm_j d m)); simpl; try lia;
  apply c_eq; csimp; ring.
Qed.

Lemma ggm_C_asym m a b : (m < ns)%nat -> (a < d)%nat -> (b < d)%nat ->
  ggm_C d (ns + 1 + m) a b =
  cmul' (s2, 0) (cadd' (cmul' (cneg' ic) (fE (ggm_j d m) (ggm_k d m) a b)) (cmul' ic (fE (ggm_k d m) (ggm_j d m) a b))).
Proof.
  intros Hm Ha Hb. unfold ggm_C, ggm_elem. fold ns.
  replace (ns + 1 + m =? 0)%nat with false by (symmetry; apply Nat.eqb_neq; lia).
  replace (ns + 1 + m <=? ns)%nat with false by (symmetry; apply Nat.leb_gt; lia).
  replace (ns + 1 + m <=? 2 * ns)%nat with true by (symmetry; apply Nat.leb_le; lia).
  rewrite toF_mbuild by auto. replace (ns + 1 + m - ns - 1)%nat with m by lia. rewrite inv_sqrt2_R.
  destruct (ggm_pair_lt d m Hm) as [Hjk _]. unfold fE.
  destruct (Nat.eqb_spec a (ggm_j d m)); destruct (Nat.eqb_spec b (ggm_k d m));
  destruct (Nat.eqb_spec a (ggm_k d m)); destruct (Nat.eqb_spec b (ggm_j d m)); simpl; try lia;
  apply c_eq; csimp; ring.
Qed.

Lemma ggm_C_diag l a b : (1 <= l)%nat -> (a < d)%nat -> (b < d)%nat ->
  ggm_C d (2 * ns + l) a b =
  if Nat.eqb a b then cmul' (1 / sqrt (INR (l * (l + 1))), 0) (cofr RO (ggm_diag_val RO l a)) else 0c.
Proof.
  intros Hl Ha Hb. unfold ggm_C, ggm_elem. fold ns.
  replace (2 * ns + l =? 0)%nat with false by (symmetry; apply Nat.eqb_neq; lia).
  replace (2 * ns + l <=? ns)%nat with false by (symmetry; apply Nat.leb_gt; lia).
  replace (2 * ns + l <=? 2 * ns)%nat with false by (symmetry; apply Nat.leb_gt; lia).
  rewrite toF_mbuild by auto. replace (2 * ns + l - 2 * ns)%nat with l by lia.
  destruct (Nat.eqb a b); auto. rewrite onat_INR. apply c_eq; csimp; unfold Rdiv; ring.
Qed.

(* ------------------------------------------------------------------ tr(Lambda_idx Y): the closed-form coefficients *)
Lemma tr_ggm_id Y : ftr d (fmul d (ggm_C d 0) Y) = cmul' (1 / sqrt (INR d), 0) (ftr d Y).
Proof.
  rewrite (ftr_ext d _ (fmul d (fun a b => if Nat.eqb a b then (1 / sqrt (INR d), 0) else 0c) Y)).
  2:{ apply fmul_ext; [|apply feq_refl]. intros a b Ha Hb. apply ggm_C_id; auto. }
  rewrite (tr_diag d (fun _ => (1 / sqrt (INR d), 0))). unfold ftr. apply csumn_mul_l.
Qed.

Lemma tr_ggm_sym m Y : (m < ns)%nat ->
  ftr d (fmul d (ggm_C d (S m)) Y) = cmul' (s2, 0) (cadd' (Y (ggm_k d m) (ggm_j d m)) (Y (ggm_j d m) (ggm_k d m))).
Proof.
  intros Hm. destruct (ggm_pair_lt d m Hm) as [Hjk Hk].
  rewrite (ftr_ext d _ (fmul d (fun a b => cadd' (cmul' (s2, 0) (fE (ggm_j d m) (ggm_k d m) a b))
                                              (cmul' (s2, 0) (fE (ggm_k d m) (ggm_j d m) a b))) Y)).
  2:{ apply fmul_ext; [|apply feq_refl]. intros a b Ha Hb. rewrite ggm_C_sym by auto. ring. }
  rewrite tr_lin2, !trE by lia. ring.
Qed.

Lemma tr_ggm_asym m Y : (m < ns)%nat ->
  ftr d (fmul d (ggm_C d (ns + 1 + m)) Y) =
  cmul' (s2, 0) (cmul' ic (csub' (Y (ggm_j d m) (ggm_k d m)) (Y (ggm_k d m) (ggm_j d m)))).
Proof.
  intros Hm. destruct (ggm_pair_lt d m Hm) as [Hjk Hk].
  rewrite (ftr_ext d _ (fmul d (fun a b => cadd' (cmul' (cmul' (s2, 0) (cneg' ic)) (fE (ggm_j d m) (ggm_k d m) a b))
                                              (cmul' (cmul' (s2, 0) ic) (fE (ggm_k d m) (ggm_j d m) a b))) Y)).
  2:{ apply fmul_ext; [|apply feq_refl]. intros a b Ha Hb. rewrite ggm_C_asym by auto. ring. }
  rewrite tr_lin2, !trE by lia. ring.
Qed.

Lemma tr_ggm_diag l Y : (1 <= l)%nat -> (l < d)%nat ->
  ftr d (fmul d (ggm_C d (2 * ns + l)) Y) =
  cmul' (1 / sqrt (INR (l * (l + 1))), 0)
        (csub' (csumn' l (fun i => Y i i)) (cmul' (cofr RO (INR l)) (Y l l))).
Proof.
  intros Hl Hld.
  rewrite (ftr_ext d _ (fmul d (fun a b => if Nat.eqb a b then
             cmul' (1 / sqrt (INR (l * (l + 1))), 0) (cofr RO (ggm_diag_val RO l a)) else 0c) Y)).
  2:{ apply fmul_ext; [|apply feq_refl]. intros a b Ha Hb. apply ggm_C_diag; auto. }
  rewrite tr_diag.
  rewrite (csumn_ext d _ (fun a => cmul' (1 / sqrt (INR (l * (l + 1))), 0)
                                       (cmul' (cofr RO (ggm_diag_val RO l a)) (Y a a)))) by (intros; ring).
  rewrite csumn_mul_l, (diag_pattern_sum l (fun a => Y a a) d).
  replace (d <=? l)%nat with false by (symmetry; apply Nat.leb_gt; lia). reflexivity.
Qed.

(* every index below d^2 belongs to exactly one family *)
Lemma ggm_class idx : (idx < d * d)%nat ->
  idx = O \/ (exists m, (m < ns)%nat /\ idx = S m) \/ (exists m, (m < ns)%nat /\ idx = (ns + 1 + m)%nat)
  \/ (exists l, (1 <= l)%nat /\ (l < d)%nat /\ idx = (2 * ns + l)%nat).
Proof.
  intros H. rewrite (dd_count d Hd) in H. fold ns in H.
  destruct (Nat.eq_dec idx 0); auto. right.
  destruct (le_lt_dec idx ns). left. exists (idx - 1)%nat. lia.
  right. destruct (le_lt_dec idx (2 * ns)). left. exists (idx - ns - 1)%nat. lia.
  right. exists (idx - 2 * ns)%nat. lia.
Qed.

End Fam.

(* ------------------------------------------------------------------ Hermiticity *)
Theorem ggm_hermitian d : (0 < d)%nat -> basis_herm d (d * d) (ggm_C d).
Proof.
  intros Hd idx Hidx a b Ha Hb. unfold fadj.
  destruct (ggm_class d Hd idx Hidx) as [->|[(m & Hm & ->)|[(m & Hm & ->)|(l & Hl & Hld & ->)]]].
  - rewrite !ggm_C_id by auto. rewrite (Nat.eqb_sym b a). destruct (Nat.eqb a b); apply c_eq; csimp; ring.
  - rewrite !ggm_C_sym by auto. unfold fE.
    destruct (Nat.eqb a (ggm_j d m)); destruct (Nat.eqb b (ggm_k d m));
    destruct (Nat.eqb a (ggm_k d m)); destruct (Nat.eqb b (ggm_j d m)); simpl; apply c_eq; csimp; ring.
  - rewrite !ggm_C_asym by auto. unfold fE.
    destruct (Nat.eqb a (ggm_j d m)); destruct (Nat.eqb b (ggm_k d m));
    destruct (Nat.eqb a (ggm_k d m)); destruct (Nat.eqb b (ggm_j d m)); simpl; apply c_eq; csimp; ring.
  - rewrite !ggm_C_diag by auto. rewrite (Nat.eqb_sym b a). destruct (Nat.eqb_spec a b).
    + subst b. apply c_eq; csimp; ring.
    + apply c_eq; csimp; ring.
Qed.

(* ------------------------------------------------------------------ orthonormality *)
Section Orth.
Variable d : nat.
Hypothesis Hd : (0 < d)%nat.
Let ns := n_sym d.

Lemma fE_diag0 x y i : x <> y -> fE x y i i = 0c.
Proof. intros H. unfold fE. destruct (Nat.eqb_spec i x); destruct (Nat.eqb_spec i y); simpl; auto. lia. Qed.

Lemma fE_jk_jk m m' : (m < ns)%nat -> (m' < ns)%nat ->
  fE (ggm_j d m') (ggm_k d m') (ggm_j d m) (ggm_k d m) = delta m m'.
Proof.
  intros Hm Hm'. unfold fE, delta.
  destruct (Nat.eqb_spec (ggm_j d m) (ggm_j d m')); destruct (Nat.eqb_spec (ggm_k d m) (ggm_k d m')); simpl;
  destruct (Nat.eqb_spec m m'); auto; try (subst; lia).
  exfalso. apply n. apply (ggm_pair_inj d); auto.
Qed.
Lemma fE_kj_jk m m' : (m < ns)%nat -> (m' < ns)%nat ->
  fE (ggm_k d m') (ggm_j d m') (ggm_j d m) (ggm_k d m) = 0c.
Proof.
  intros Hm Hm'. unfold fE. destruct (ggm_pair_lt d m Hm). destruct (ggm_pair_lt d m' Hm').
  destruct (Nat.eqb_spec (ggm_j d m) (ggm_k d m')); destruct (Nat.eqb_spec (ggm_k d m) (ggm_j d m')); simpl; auto. lia.
Qed.
Lemma fE_jk_kj m m' : (m < ns)%nat -> (m' < ns)%nat ->
  fE (ggm_j d m') (ggm_k d m') (ggm_k d m) (ggm_j d m) = 0c.
Proof.
  intros Hm Hm'. unfold fE. destruct (ggm_pair_lt d m Hm). destruct (ggm_pair_lt d m' Hm').
  destruct (Nat.eqb_spec (ggm_k d m) (ggm_j d m')); destruct (Nat.eqb_spec (ggm_j d m) (ggm_k d m')); simpl; auto. lia.
Qed.
Lemma fE_kj_kj m m' : (m < ns)%nat -> (m' < ns)%nat ->
  fE (ggm_k d m') (ggm_j d m') (ggm_k d m) (ggm_j d m) = delta m m'.
Proof.
  intros Hm Hm'. unfold fE, delta.
  destruct (Nat.eqb_spec (ggm_k d m) (ggm_k d m')); destruct (Nat.eqb_spec (ggm_j d m) (ggm_j d m')); simpl;
  destruct (Nat.eqb_spec m m'); auto; try (subst; lia).
  exfalso. apply n. apply (ggm_pair_inj d); auto.
Qed.

Lemma csumn_const1 n : csumn' n (fun _ => 1c) = cofr RO (INR n).
Proof. induction n. reflexivity. rewrite csumn_S, IHn, S_INR. apply c_eq; csimp; ring. Qed.

(* sum_{a<n} v_l(a) *)
Lemma diag_val_sum l n :
  csumn' n (fun a => cofr RO (ggm_diag_val RO l a)) = if (n <=? l)%nat then cofr RO (INR n) else 0c.
Proof.
  rewrite (csumn_ext n _ (fun a => cmul' (cofr RO (ggm_diag_val RO l a)) ((fun _ => 1c) a))) by (intros; ring).
  rewrite diag_pattern_sum, !csumn_const1. destruct (n <=? l)%nat; auto. apply c_eq; csimp; ring.
Qed.

Definition cl (l : nat) : R := 1 / sqrt (INR (l * (l + 1))).
Lemma cl_sq l : (1 <= l)%nat -> cl l * cl l * (INR l + INR l * INR l) = 1.
Proof.
  intros Hl. unfold cl.
  assert (Hp : 0 < INR (l * (l + 1))) by (apply lt_0_INR; nia).
  assert (Hs : sqrt (INR (l * (l + 1))) <> 0) by (intros E; generalize (sqrt_lt_R0 _ Hp); lra).
  replace (1 / sqrt (INR (l * (l + 1))) * (1 / sqrt (INR (l * (l + 1)))))
    with (1 / (sqrt (INR (l * (l + 1))) * sqrt (INR (l * (l + 1))))) by (field; auto).
  rewrite sqrt_sqrt by lra. rewrite mult_INR, plus_INR in *. simpl INR in *.
  assert (Hl0 : 0 < INR l) by (apply lt_0_INR; lia). field. nra.
Qed.
Lemma cd_sq : 1 / sqrt (INR d) * (INR d * (1 / sqrt (INR d))) = 1.
Proof.
  assert (Hp : 0 < INR d) by (apply lt_0_INR; auto).
  assert (Hs : sqrt (INR d) <> 0) by (intros E; generalize (sqrt_lt_R0 _ Hp); lra).
  replace (1 / sqrt (INR d) * (INR d * (1 / sqrt (INR d)))) with (INR d / (sqrt (INR d) * sqrt (INR d))) by (field; auto).
  rewrite sqrt_sqrt by lra. field. lra.
Qed.

(* traces of the elements *)
Lemma ggm_tr_sym m : (m < ns)%nat -> ftr d (ggm_C d (S m)) = 0c.
Proof.
  intros Hm. destruct (ggm_pair_lt d m Hm). unfold ftr.
  rewrite (csumn_ext d _ (fun _ => 0c)). apply csumn_0.
  intros a Ha. rewrite ggm_C_sym by auto. rewrite !fE_diag0 by lia. ring.
Qed.
Lemma ggm_tr_asym m : (m < ns)%nat -> ftr d (ggm_C d (ns + 1 + m)) = 0c.
Proof.
  intros Hm. destruct (ggm_pair_lt d m Hm). unfold ftr.
  rewrite (csumn_ext d _ (fun _ => 0c)). apply csumn_0.
  intros a Ha. rewrite ggm_C_asym by auto. rewrite !fE_diag0 by lia. ring.
Qed.
Lemma ggm_tr_diag l : (1 <= l)%nat -> (l < d)%nat -> ftr d (ggm_C d (2 * ns + l)) = 0c.
Proof.
  intros Hl Hld. unfold ftr.
  rewrite (csumn_ext d _ (fun a => cmul' (cl l, 0) (cofr RO (ggm_diag_val RO l a)))).
  2:{ intros a Ha. rewrite ggm_C_diag by auto. rewrite Nat.eqb_refl. reflexivity. }
  rewrite csumn_mul_l, diag_val_sum. replace (d <=? l)%nat with false by (symmetry; apply Nat.leb_gt; lia). ring.
Qed.
Lemma ggm_tr_id : ftr d (ggm_C d 0) = (INR d * (1 / sqrt (INR d)), 0).
Proof.
  unfold ftr. rewrite (csumn_ext d _ (fun a => cmul' (1 / sqrt (INR d), 0) 1c)).
  2:{ intros a Ha. rewrite ggm_C_id by auto. rewrite Nat.eqb_refl. apply c_eq; csimp; ring. }
  rewrite csumn_mul_l, csumn_const1. apply c_eq; csimp; ring.
Qed.

Ltac fin_s2 := match goal with H3 : ?r * ?r = 1 / 2 |- _ =>
  first [ ring | (ring_simplify; replace (r ^ 2) with (1 / 2) by (rewrite <- H3; ring); lra) | nra ] end.
Ltac dls := unfold delta; repeat match goal with |- context [Nat.eqb ?x ?y] => destruct (Nat.eqb_spec x y); try lia end.
Ltac dl := unfold delta; match goal with |- context [Nat.eqb ?x ?y] => destruct (Nat.eqb_spec x y); try lia end.

Theorem ggm_orthonormal : trace_orthonormal d (d * d) (ggm_C d).
Proof.
  intros i1 i2 H1 H2.
  destruct (ggm_class d Hd i1 H1) as [->|[(m & Hm & ->)|[(m & Hm & ->)|(l & Hl & Hld & ->)]]];
  destruct (ggm_class d Hd i2 H2) as [->|[(m' & Hm' & ->)|[(m' & Hm' & ->)|(l' & Hl' & Hld' & ->)]]];
  idtac.
  - (* id, id *) rewrite tr_ggm_id, ggm_tr_id by auto. dl. apply c_eq; csimp; try ring.
    generalize cd_sq. lra.
  - rewrite tr_ggm_id, ggm_tr_sym by auto. dl. ring.
  - rewrite tr_ggm_id, ggm_tr_asym by auto. dl. ring.
  - rewrite tr_ggm_id, ggm_tr_diag by auto. dl. ring.
  - (* sym, id *) destruct (ggm_pair_lt d m Hm).
    rewrite tr_ggm_sym by auto. rewrite !ggm_C_id by (auto; lia).
    destruct (Nat.eqb_spec (ggm_k d m) (ggm_j d m)); try lia. destruct (Nat.eqb_spec (ggm_j d m) (ggm_k d m)); try lia.
    dl. ring.
  - (* sym, sym *) destruct (ggm_pair_lt d m Hm).
    rewrite tr_ggm_sym by auto. rewrite !ggm_C_sym by (auto; lia).
    rewrite fE_jk_kj, fE_kj_kj, fE_jk_jk, fE_kj_jk by auto.
    dls;
    generalize s2_sq; generalize s2; intros; apply c_eq; csimp; fin_s2.
  - (* sym, asym *) destruct (ggm_pair_lt d m Hm).
    rewrite tr_ggm_sym by auto. rewrite !ggm_C_asym by (auto; lia).
    rewrite fE_jk_kj, fE_kj_kj, fE_jk_jk, fE_kj_jk by auto.
    dls;
    generalize s2_sq; generalize s2; intros; apply c_eq; csimp; fin_s2.
  - (* sym, diag *) destruct (ggm_pair_lt d m Hm).
    rewrite tr_ggm_sym by auto. rewrite !ggm_C_diag by (auto; lia).
    destruct (Nat.eqb_spec (ggm_k d m) (ggm_j d m)); try lia. destruct (Nat.eqb_spec (ggm_j d m) (ggm_k d m)); try lia.
    dl. ring.
  - (* asym, id *) destruct (ggm_pair_lt d m Hm).
    rewrite tr_ggm_asym by auto. rewrite !ggm_C_id by (auto; lia).
    destruct (Nat.eqb_spec (ggm_k d m) (ggm_j d m)); try lia. destruct (Nat.eqb_spec (ggm_j d m) (ggm_k d m)); try lia.
    dl. ring.
  - (* asym, sym *) destruct (ggm_pair_lt d m Hm).
    rewrite tr_ggm_asym by auto. rewrite !ggm_C_sym by (auto; lia).
    rewrite fE_jk_kj, fE_kj_kj, fE_jk_jk, fE_kj_jk by auto.
    dls;
    generalize s2_sq; generalize s2; intros; apply c_eq; csimp; fin_s2.
  - (* asym, asym *) destruct (ggm_pair_lt d m Hm).
    rewrite tr_ggm_asym by auto. rewrite !ggm_C_asym by (auto; lia).
    rewrite fE_jk_kj, fE_kj_kj, fE_jk_jk, fE_kj_jk by auto.
    dls;
    generalize s2_sq; generalize s2; intros; apply c_eq; csimp; fin_s2.
  - (* asym, diag *) destruct (ggm_pair_lt d m Hm).
    rewrite tr_ggm_asym by auto. rewrite !ggm_C_diag by (auto; lia).
    destruct (Nat.eqb_spec (ggm_k d m) (ggm_j d m)); try lia. destruct (Nat.eqb_spec (ggm_j d m) (ggm_k d m)); try lia.
    dl. ring.
  - (* diag, id *)
    rewrite tr_ggm_diag by auto.
    rewrite (csumn_ext l _ (fun _ => cmul' (1 / sqrt (INR d), 0) 1c)).
    2:{ intros a Ha. rewrite ggm_C_id by (auto; lia). rewrite Nat.eqb_refl. apply c_eq; csimp; ring. }
    rewrite csumn_mul_l, csumn_const1, ggm_C_id, Nat.eqb_refl by auto. dl. apply c_eq; csimp; ring.
  - (* diag, sym *) destruct (ggm_pair_lt d m' Hm').
    rewrite tr_ggm_diag by auto.
    rewrite (csumn_ext l _ (fun _ => 0c)).
    2:{ intros a Ha. rewrite ggm_C_sym by (auto; lia). rewrite !fE_diag0 by lia. ring. }
    rewrite csumn_0, ggm_C_sym, !fE_diag0 by (auto; lia). dl. ring.
  - (* diag, asym *) destruct (ggm_pair_lt d m' Hm').
    rewrite tr_ggm_diag by auto.
    rewrite (csumn_ext l _ (fun _ => 0c)).
    2:{ intros a Ha. rewrite ggm_C_asym by (auto; lia). rewrite !fE_diag0 by lia. ring. }
    rewrite csumn_0, ggm_C_asym, !fE_diag0 by (auto; lia). dl. ring.
  - (* diag, diag *)
    rewrite tr_ggm_diag by auto.
    rewrite (csumn_ext l _ (fun a => cmul' (cl l', 0) (cofr RO (ggm_diag_val RO l' a)))).
    2:{ intros a Ha. rewrite ggm_C_diag by (auto; lia). rewrite Nat.eqb_refl. reflexivity. }
    rewrite csumn_mul_l, diag_val_sum, ggm_C_diag, Nat.eqb_refl, diag_val_R by auto.
    fold (cl l) (cl l'). unfold delta.
    destruct (Nat.eq_dec l l') as [El|El].
    + subst l'. rewrite !Nat.eqb_refl, Nat.leb_refl, Nat.ltb_irrefl.
      generalize (cl_sq l Hl). generalize (cl l). intros c Hc. apply c_eq; csimp; nra.
    + repeat match goal with |- context [Nat.eqb ?x ?y] => destruct (Nat.eqb_spec x y); try lia end.
      destruct (Nat.leb_spec l l'); destruct (Nat.ltb_spec l l'); try lia; apply c_eq; csimp; ring.
Qed.

Theorem ggm_hs_orthonormal : hs_orthonormal d (d * d) (ggm_C d).
Proof. apply herm_trace_hs. apply ggm_hermitian; auto. apply ggm_orthonormal. Qed.

End Orth.

(* ------------------------------------------------------------------ ggm_expand = expand *)
Lemma sqrt_INR_neq n : (0 < n)%nat -> sqrt (INR n) <> 0.
Proof. intros H E. assert (Hp : 0 < INR n) by (apply lt_0_INR; auto). generalize (sqrt_lt_R0 _ Hp). lra. Qed.

Theorem ggm_expand_eq_expand d (M : Mat) idx : (0 < d)%nat -> (idx < d * d)%nat ->
  ggm_expand_coeff RO d false M idx = mtrprod RO d M (ggm_elem RO d idx).
Proof.
  intros Hd Hidx. rewrite mtrprod_ftr, ftr_cyclic. fold (ggm_C d idx).
  unfold ggm_expand_coeff.
  destruct (ggm_class d Hd idx Hidx) as [->|[(m & Hm & ->)|[(m & Hm & ->)|(l & Hl & Hld & ->)]]].
  - rewrite tr_ggm_id by auto. simpl Nat.eqb. cbv iota. rewrite mtrace_ftr, onat_INR.
    apply c_eq; csimp; field; apply sqrt_INR_neq; auto.
  - rewrite tr_ggm_sym by auto.
    replace (S m =? 0)%nat with false by reflexivity.
    replace (S m <=? n_sym d)%nat with true by (symmetry; apply Nat.leb_le; lia).
    replace (S m - 1)%nat with m by lia. unfold toF, s2, o2. simpl osqrt. simpl oadd. simpl o1.
    replace (1 + 1) with 2 by ring. apply c_eq; csimp; field; apply sqrt2_neq.
  - rewrite tr_ggm_asym by auto.
    replace (n_sym d + 1 + m =? 0)%nat with false by (symmetry; apply Nat.eqb_neq; lia).
    replace (n_sym d + 1 + m <=? n_sym d)%nat with false by (symmetry; apply Nat.leb_gt; lia).
    replace (n_sym d + 1 + m <=? 2 * n_sym d)%nat with true by (symmetry; apply Nat.leb_le; lia).
    replace (n_sym d + 1 + m - n_sym d - 1)%nat with m by lia. unfold toF, s2, o2. simpl osqrt. simpl oadd. simpl o1.
    replace (1 + 1) with 2 by ring. apply c_eq; csimp; field; apply sqrt2_neq.
  - rewrite tr_ggm_diag by auto.
    replace (2 * n_sym d + l =? 0)%nat with false by (symmetry; apply Nat.eqb_neq; lia).
    replace (2 * n_sym d + l <=? n_sym d)%nat with false by (symmetry; apply Nat.leb_gt; lia).
    replace (2 * n_sym d + l <=? 2 * n_sym d)%nat with false by (symmetry; apply Nat.leb_gt; lia).
    replace (2 * n_sym d + l - 2 * n_sym d)%nat with l by lia. rewrite !onat_INR. unfold toF.
    set (S := csumn' l (fun i => mget RO M i i)).
    change (csumn RO l (fun i => mget RO M i i)) with S.
    apply c_eq; csimp; field; apply sqrt_INR_neq; nia.
Qed.

(* with traceless=True only the coefficient of the identity is dropped *)
Lemma ggm_expand_traceless d (M : Mat) idx : (1 <= idx)%nat ->
  ggm_expand_coeff RO d true M idx = ggm_expand_coeff RO d false M idx.
Proof. intros H. unfold ggm_expand_coeff. replace (idx =? 0)%nat with false by (symmetry; apply Nat.eqb_neq; lia). reflexivity. Qed.

Lemma ggm_basis_nth d idx : (idx < d * d)%nat -> toF (nth idx (ggm_basis RO d) []) = ggm_C d idx.
Proof. intros H. unfold ggm_basis. rewrite nth_build by auto. reflexivity. Qed.
