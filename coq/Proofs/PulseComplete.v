(* Completeness of the canonical form: two pulses that are the same function of time have the same canonical
   segment list (exact duration arithmetic), hence compare equal. *)
From Coq Require Import ZArith List Bool String PeanoNat Lia Reals Lra.
From FF Require Import Model.B64 Model.Pulse Spec.PulseSpec Proofs.PulseBase Proofs.PulseJoin Proofs.PulseCanon
  Proofs.B64 Proofs.PulseTime.
Import ListNotations.
Local Open Scope R_scope.
Local Notation length := List.length (only parsing).

(* canonical lists: positive durations, no two adjacent segments with equal columns *)
Definition positive (segs : list seg) : Prop := Forall (fun s => 0 < d2R (snd s)) segs.

Lemma at_time_head s r t : 0 <= t -> t < d2R (snd s) -> at_time (s :: r) t = Some (fst s).
Proof. intros _ H. cbn [at_time]. destruct (Rlt_dec t (d2R (snd s))); [reflexivity | lra]. Qed.
Lemma at_time_tail s r t : d2R (snd s) <= t -> at_time (s :: r) t = at_time r (t - d2R (snd s)).
Proof. intros H. cbn [at_time]. destruct (Rlt_dec t (d2R (snd s))); [lra | reflexivity]. Qed.

Lemma at_time_zero_pos s r : 0 < d2R (snd s) -> at_time (s :: r) 0 = Some (fst s).
Proof. intros H. apply at_time_head; lra. Qed.

(* same function of time on t >= 0  =>  same columns, durations of equal value *)
Definition seg_equiv (s t : seg) : Prop := fst s = fst t /\ d2R (snd s) = d2R (snd t).

Theorem canon_unique : forall L1 L2,
  positive L1 -> positive L2 -> no_adjacent_equal L1 -> no_adjacent_equal L2 ->
  (forall t, 0 <= t -> at_time L1 t = at_time L2 t) -> Forall2 seg_equiv L1 L2.
Proof.
  induction L1 as [|s1 r1 IH]; intros L2 P1 P2 N1 N2 H.
  - destruct L2 as [|s2 r2]; [constructor|]. exfalso.
    inversion P2; subst. specialize (H 0 (Rle_refl 0)). rewrite at_time_zero_pos in H by assumption. discriminate.
  - destruct L2 as [|s2 r2].
    { exfalso. inversion P1; subst. specialize (H 0 (Rle_refl 0)). rewrite at_time_zero_pos in H by assumption. discriminate. }
    inversion P1 as [|? ? Hd1 P1']; inversion P2 as [|? ? Hd2 P2']; subst.
    assert (Hc : fst s1 = fst s2).
    { specialize (H 0 (Rle_refl 0)). rewrite !at_time_zero_pos in H by assumption. inversion H; reflexivity. }
    (* at the end of the shorter first segment the other pulse still shows the same columns *)
    assert (Hshort : forall (a b : seg) (ra rb : list seg), fst a = fst b -> 0 < d2R (snd a) -> d2R (snd a) < d2R (snd b) ->
              positive ra -> no_adjacent_equal (a :: ra) ->
              at_time (a :: ra) (d2R (snd a)) = at_time (b :: rb) (d2R (snd a)) -> False).
    { intros a b ra rb Hab Ha Hlt Pra Na E.
      rewrite (at_time_tail a ra) in E by lra. rewrite (at_time_head b rb) in E by lra.
      replace (d2R (snd a) - d2R (snd a)) with 0 in E by lra.
      destruct ra as [|a' ra']; [discriminate|].
      inversion Pra; subst. rewrite at_time_zero_pos in E by assumption.
      cbn [no_adjacent_equal] in Na. destruct Na as [Na _].
      assert (same_cols a a' = true) by (apply same_cols_spec; inversion E; congruence). congruence. }
    assert (Hd : d2R (snd s1) = d2R (snd s2)).
    { destruct (Rtotal_order (d2R (snd s1)) (d2R (snd s2))) as [Hlt|[Heq|Hgt]]; [|exact Heq|]; exfalso.
      - apply (Hshort s1 s2 r1 r2 Hc Hd1 Hlt P1' N1). apply H. lra.
      - apply (Hshort s2 s1 r2 r1 (eq_sym Hc) Hd2 Hgt P2' N2). symmetry. apply H. lra. }
    constructor; [split; assumption|].
    apply IH; auto.
    + destruct r1; [exact I | apply N1].
    + destruct r2; [exact I | apply N2].
    + intros t Ht. specialize (H (t + d2R (snd s1)) ltac:(lra)).
      rewrite (at_time_tail s1 r1) in H by lra. rewrite (at_time_tail s2 r2) in H by lra.
      replace (t + d2R (snd s1) - d2R (snd s1)) with t in H by lra.
      replace (t + d2R (snd s1) - d2R (snd s2)) with t in H by lra. exact H.
Qed.

(* ------------------------------------------------------------------ values of normal forms are distinct *)
Lemma norm_pos_odd p e : exists q, fst (norm_pos p e) = q /\ (forall q', q <> xO q').
Proof.
  revert e; induction p as [p IH|p IH|]; intros e; simpl.
  - exists (xI p). split; [reflexivity | discriminate].
  - apply IH.
  - exists xH. split; [reflexivity | discriminate].
Qed.

Lemma pow2_IZR k : (0 <= k)%Z -> powerRZ 2 k = IZR (2 ^ k).
Proof. intros H. symmetry. apply IZR_pow2. exact H. Qed.

Lemma d2R_inj_aux m e m' e' : Z.odd m = true -> Z.odd m' = true -> (e <= e')%Z ->
  IZR m * powerRZ 2 e = IZR m' * powerRZ 2 e' -> m = m' /\ e = e'.
Proof.
  intros Om Om' Hle H.
  assert (H2 : IZR m = IZR (m' * 2 ^ (e' - e))).
  { rewrite mult_IZR, <- pow2_IZR by lia.
    replace (powerRZ 2 e') with (powerRZ 2 (e' - e) * powerRZ 2 e) in H
      by (rewrite <- powerRZ_add by lra; f_equal; lia).
    assert (Hp : powerRZ 2 e <> 0) by (apply powerRZ_NOR; lra).
    apply (Rmult_eq_reg_r (powerRZ 2 e)); [|exact Hp]. rewrite H. ring. }
  apply eq_IZR in H2.
  destruct (Z.eq_dec e e') as [<-|Hne].
  - rewrite Z.sub_diag in H2. simpl in H2. split; [lia | reflexivity].
  - exfalso. assert (Hk : (0 < e' - e)%Z) by lia.
    assert (Ev : Z.even m = true).
    { rewrite H2. rewrite Z.even_mul. replace (e' - e)%Z with (Z.succ (e' - e - 1)) by lia.
      rewrite Z.pow_succ_r by lia. rewrite Z.even_mul. simpl. rewrite orb_true_r. reflexivity. }
    rewrite <- Z.negb_odd, Om in Ev. discriminate.
Qed.

Lemma is_norm_cases a : is_norm a = true -> a = d0 \/ Z.odd (fst a) = true.
Proof.
  destruct a as [m e]. unfold is_norm. simpl. destruct m; intros H.
  - left. apply Z.eqb_eq in H. subst. reflexivity.
  - right. exact H.
  - right. exact H.
Qed.

Theorem d2R_inj a b : is_norm a = true -> is_norm b = true -> d2R a = d2R b -> a = b.
Proof.
  intros Na Nb H. destruct (is_norm_cases a Na) as [-> | Oa], (is_norm_cases b Nb) as [-> | Ob]; auto.
  - exfalso. unfold d2R in H. simpl in H. rewrite Rmult_0_l in H. symmetry in H.
    apply Rmult_integral in H. destruct H as [H|H].
    + apply eq_IZR_R0 in H. rewrite H in Ob. discriminate.
    + revert H. apply powerRZ_NOR. lra.
  - exfalso. unfold d2R in H. simpl in H. rewrite Rmult_0_l in H.
    apply Rmult_integral in H. destruct H as [H|H].
    + apply eq_IZR_R0 in H. rewrite H in Oa. discriminate.
    + revert H. apply powerRZ_NOR. lra.
  - destruct a as [m e], b as [m' e']. unfold d2R in H. simpl in *.
    destruct (Z.le_ge_cases e e') as [Hle|Hge].
    + destruct (d2R_inj_aux m e m' e' Oa Ob Hle H) as [-> ->]. reflexivity.
    + destruct (d2R_inj_aux m' e' m e Ob Oa Hge (eq_sym H)) as [-> ->]. reflexivity.
Qed.

(* ------------------------------------------------------------------ the canonical form of a pulse is canonical *)
Lemma is_norm_norm a : is_norm (norm a) = true.
Proof.
  destruct a as [m e]. unfold norm. simpl. destruct m as [|p|p]; [reflexivity| |];
  destruct (norm_pos_odd p e) as [q [Hq Hodd]]; destruct (norm_pos p e) as [q0 e0]; simpl in *; subst q0;
  unfold is_norm; simpl; destruct q; try reflexivity; exfalso; eapply Hodd; reflexivity.
Qed.
Lemma is_norm_dadd a b : is_norm (dadd a b) = true.
Proof. unfold dadd. destruct (align a b) as [[x y] e]. apply is_norm_norm. Qed.
Lemma is_norm_fold pend x : is_norm x = true -> is_norm (fold_left dadd pend x) = true.
Proof.
  revert x; induction pend as [|p pend IH]; intros x Hx; simpl; auto. apply IH. apply is_norm_dadd.
Qed.

Lemma merge_positive segs : forall pend,
  Forall (fun s => 0 < d2R (snd s)) segs -> Forall (fun d => 0 <= d2R d) pend -> positive (merge_runs dadd pend segs).
Proof.
  induction segs as [|s r IH]; intros pend Hs Hp; [constructor|].
  inversion Hs as [|? ? Hs0 Hs']; subst.
  assert (V : 0 < d2R (fold_left dadd pend (snd s))).
  { rewrite fold_dadd_val. assert (0 <= Proofs.PulseTime.sumR pend).
    { clear -Hp. induction Hp; simpl; lra. } lra. }
  destruct r as [|s' r'].
  - simpl. constructor; [exact V | constructor].
  - change (merge_runs dadd pend (s :: s' :: r')) with
      (if same_cols s s' then merge_runs dadd (pend ++ [snd s]) (s' :: r')
       else (fst s, fold_left dadd pend (snd s)) :: merge_runs dadd [] (s' :: r')).
    destruct (same_cols s s').
    + apply IH; [exact Hs'|]. apply Forall_app. split; [exact Hp | constructor; [lra | constructor]].
    + constructor; [exact V|]. apply IH; [exact Hs' | constructor].
Qed.

Lemma merge_normal segs : forall pend,
  Forall (fun s => is_norm (snd s) = true) segs -> Forall (fun s => is_norm (snd s) = true) (merge_runs dadd pend segs).
Proof.
  induction segs as [|s r IH]; intros pend Hs; [constructor|].
  inversion Hs as [|? ? Hs0 Hs']; subst.
  destruct r as [|s' r'].
  - simpl. constructor; [apply is_norm_fold; exact Hs0 | constructor].
  - change (merge_runs dadd pend (s :: s' :: r')) with
      (if same_cols s s' then merge_runs dadd (pend ++ [snd s]) (s' :: r')
       else (fst s, fold_left dadd pend (snd s)) :: merge_runs dadd [] (s' :: r')).
    destruct (same_cols s s'); [apply IH; exact Hs'|].
    constructor; [apply is_norm_fold; exact Hs0 | apply IH; exact Hs'].
Qed.

(* durations: non-negative, normalised, not all zero *)
Definition good_durations (p : pulse) : Prop :=
  Forall (fun x => (0 <= fst x)%Z /\ is_norm x = true) (dt p) /\ existsb nonzero_dt (dt p) = true.

Lemma segments_snd p : map snd (segments p) = dt p.
Proof. unfold segments, segs_of. apply map_snd_combine. rewrite combine_length, !transpose_length. lia. Qed.

Lemma nonzero_positive x : (0 <= fst x)%Z -> nonzero_dt x = true -> 0 < d2R x.
Proof.
  intros H0 H. unfold nonzero_dt in H. apply negb_true_iff, Z.eqb_neq in H.
  unfold d2R. apply Rmult_lt_0_compat; [apply IZR_lt; lia | apply powerRZ_lt; lra].
Qed.

Lemma effective_good p : good_durations p ->
  Forall (fun s => 0 < d2R (snd s)) (effective_segments p) /\
  Forall (fun s => is_norm (snd s) = true) (effective_segments p) /\
  Forall (fun s => (0 <= fst (snd s))%Z) (segments p).
Proof.
  intros [HF HE].
  assert (HS : Forall (fun s => (0 <= fst (snd s))%Z /\ is_norm (snd s) = true) (segments p)).
  { rewrite <- (segments_snd p) in HF. rewrite Forall_map in HF. exact HF. }
  assert (HX : existsb seg_nonzero (segments p) = true).
  { rewrite <- existsb_map, segments_nonzero_mask, existsb_map. exact HE. }
  split; [|split].
  - unfold effective_segments. rewrite HX. simpl.
    destruct (forallb seg_nonzero (segments p)) eqn:A; simpl.
    + rewrite forallb_forall in A. apply Forall_forall. intros s Hs. rewrite Forall_forall in HS.
      apply nonzero_positive; [apply (HS s Hs) | apply (A s Hs)].
    + apply Forall_forall. intros s Hs. apply filter_In in Hs. destruct Hs as [Hs Hn]. rewrite Forall_forall in HS.
      apply nonzero_positive; [apply (HS s Hs) | exact Hn].
  - unfold effective_segments. destruct (existsb _ _ && negb (forallb _ _)).
    + apply Forall_forall. intros s Hs. apply filter_In in Hs. rewrite Forall_forall in HS. apply (HS s (proj1 Hs)).
    + eapply Forall_impl; [|exact HS]. intros s Hs. apply Hs.
  - eapply Forall_impl; [|exact HS]. intros s Hs. apply Hs.
Qed.

Lemma effective_nonneg p : good_durations p -> Forall (fun s => (0 <= fst (snd s))%Z) (effective_segments p).
Proof.
  intros H. destruct (effective_good p H) as (_ & _ & H3). unfold effective_segments.
  destruct (existsb _ _ && negb (forallb _ _)); [|exact H3].
  apply Forall_forall. intros s Hs. apply filter_In in Hs. rewrite Forall_forall in H3. apply H3, Hs.
Qed.

(* two pulses that are the same function of time have the same canonical form *)
Theorem same_time_function_same_canon A B : good_durations A -> good_durations B ->
  (forall t, 0 <= t -> at_time (segments A) t = at_time (segments B) t) -> canon dadd A = canon dadd B.
Proof.
  intros GA GB H.
  destruct (effective_good A GA) as (PA & NA & _). destruct (effective_good B GB) as (PB & NB & _).
  assert (E : Forall2 seg_equiv (canon dadd A) (canon dadd B)).
  { apply canon_unique.
    - apply merge_positive; [exact PA | constructor].
    - apply merge_positive; [exact PB | constructor].
    - apply merge_no_adjacent.
    - apply merge_no_adjacent.
    - intros t Ht. unfold canon.
      rewrite !merge_at_time by (apply effective_nonneg; assumption).
      rewrite !at_time_effective by exact Ht. apply H. exact Ht. }
  pose proof (merge_normal (effective_segments A) [] NA) as MA. pose proof (merge_normal (effective_segments B) [] NB) as MB.
  fold (canon dadd A) in MA. fold (canon dadd B) in MB.
  revert MA MB. induction E as [|s t l l' [Hc Hd] _ IH]; intros MA MB; [reflexivity|].
  inversion MA; inversion MB; subst. f_equal; [|apply IH; assumption].
  destruct s as [c x], t as [c' y]. simpl in *. subst. f_equal. apply d2R_inj; assumption.
Qed.

(* ------------------------------------------------------------------ from the canonical form back to the arrays *)
Lemma del_mask_length {A} (l : list A) m : length l = S (length m) -> length (del_mask l m) = S (kept m).
Proof.
  revert m; induction l as [|x r IH]; intros m H; simpl in *; [lia|].
  destruct m as [|[|] m]; simpl in *.
  - lia.
  - apply IH. lia.
  - f_equal. apply IH. lia.
Qed.

Section Rows.
Variable fadd : num -> num -> num.

Lemma join_core_rows p :
  Forall (fun r => length r = length (dt p)) (c_coeffs p) ->
  Forall (fun r => length r = length (dt p)) (n_coeffs p) -> (1 <= length (dt p))%nat ->
  let '(cc, nc, dts) := join_core fadd p in
  Forall (fun r => length r = length dts) cc /\ Forall (fun r => length r = length dts) nc.
Proof.
  intros Hc Hn HG.
  pose proof (equal_mask_segments p Hc Hn HG) as Hm.
  assert (Hlen : length (dt p) = S (length (equal_mask p))).
  { rewrite Hm, seg_mask_length. unfold segments, segs_of, seg. rewrite !combine_length, !transpose_length. lia. }
  rewrite (join_as_mask fadd p) by lia.
  rewrite (join_dt_length fadd [] (dt p) (equal_mask p) Hlen).
  split; rewrite Forall_map; [eapply Forall_impl; [|exact Hc] | eapply Forall_impl; [|exact Hn]];
    intros r Hr; cbv beta in *; apply del_mask_length; congruence.
Qed.

Lemma join_rows p :
  Forall (fun r => length r = length (dt p)) (c_coeffs p) ->
  Forall (fun r => length r = length (dt p)) (n_coeffs p) -> (1 <= length (dt p))%nat ->
  let '(cc, nc, dts) := join_equal_segments fadd p in
  Forall (fun r => length r = length dts) cc /\ Forall (fun r => length r = length dts) nc.
Proof.
  intros Hc Hn HG. destruct (drop_zero_rows p Hc Hn HG) as (Hc' & Hn' & HG').
  unfold join_equal_segments. apply join_core_rows; assumption.
Qed.
End Rows.

Lemma transpose_inj w : forall rows rows', length rows = length rows' ->
  Forall (fun r => length r = w) rows -> Forall (fun r => length r = w) rows' ->
  transpose w rows = transpose w rows' -> rows = rows'.
Proof.
  induction w as [|w IH]; intros rows rows' HL H1 H2 HT.
  - clear HT. revert rows' HL H2. induction H1 as [|r rows Hr _ IHr]; intros [|r' rows'] HL H2; simpl in *; try lia; auto.
    inversion H2; subst. destruct r, r'; simpl in *; try lia. f_equal. apply IHr; auto.
  - rewrite !transpose_S in HT. inversion HT as [[Hh Ht]].
    assert (Tl : map (@tl num) rows = map (@tl num) rows').
    { apply IH; [rewrite !map_length; exact HL | apply Forall_tl_length; exact H1 | apply Forall_tl_length; exact H2 | exact Ht]. }
    clear -HL H1 H2 Hh Tl. revert rows' HL H2 Hh Tl.
    induction H1 as [|r rows Hr _ IHr]; intros [|r' rows'] HL H2 Hh Tl; simpl in *; try lia; auto.
    inversion H2; subst. inversion Hh; inversion Tl.
    destruct r as [|x r], r' as [|x' r']; simpl in *; try lia. subst. f_equal. apply IHr; auto.
Qed.

Lemma segs_of_inj cc nc dts cc' nc' dts' :
  length cc = length cc' -> length nc = length nc' ->
  Forall (fun r => length r = length dts) cc -> Forall (fun r => length r = length dts) nc ->
  Forall (fun r => length r = length dts') cc' -> Forall (fun r => length r = length dts') nc' ->
  segs_of cc nc dts = segs_of cc' nc' dts' -> cc = cc' /\ nc = nc' /\ dts = dts'.
Proof.
  intros L1 L2 H1 H2 H1' H2' E. unfold segs_of in E.
  assert (Ed : dts = dts').
  { apply (f_equal (map snd)) in E. rewrite !map_snd_combine in E by (rewrite combine_length, !transpose_length; lia). exact E. }
  subst dts'.
  apply (f_equal (map fst)) in E. rewrite !map_fst_combine in E by (rewrite combine_length, !transpose_length; lia).
  assert (Ec := f_equal (map fst) E). assert (En := f_equal (map snd) E).
  rewrite !map_fst_combine in Ec by (rewrite !transpose_length; reflexivity).
  rewrite !map_snd_combine in En by (rewrite !transpose_length; reflexivity).
  split; [|split; [|reflexivity]]; eapply transpose_inj; eauto.
Qed.

(* ------------------------------------------------------------------ completeness of == (exact duration arithmetic) *)
From FF Require Import Proofs.PulseEq.

(* the model of __eq__ with exact addition of the durations and exact comparison of the merged durations:
   the algorithm without the rounding that the tolerances of np.allclose are there to absorb *)
Definition eq_exact := eq dadd (fun _ => num_eqb) bclose.

Definition same_frame (A B : pulse) : Prop :=
  c_opers A = c_opers B /\ c_ids A = c_ids B /\ n_opers A = n_opers B /\ n_ids A = n_ids B /\ basis A = basis B.

Lemma wf_rows p : wf p -> Forall (fun r => length r = length (dt p)) (c_coeffs p) /\
  Forall (fun r => length r = length (dt p)) (n_coeffs p) /\ (1 <= length (dt p))%nat.
Proof. intros (_ & _ & _ & _ & H5 & H6 & _ & _ & H9). auto. Qed.

Lemma joined_arrays_of_canon A B : wf A -> wf B -> same_frame A B -> canon dadd A = canon dadd B ->
  join_equal_segments dadd A = join_equal_segments dadd B.
Proof.
  intros WA WB (F1 & F2 & F3 & F4 & F5) HC.
  destruct (wf_rows A WA) as (Ac & An & Ag). destruct (wf_rows B WB) as (Bc & Bn & Bg).
  pose proof (join_canon dadd A Ac An Ag) as JA. pose proof (join_canon dadd B Bc Bn Bg) as JB.
  pose proof (join_rows dadd A Ac An Ag) as RA. pose proof (join_rows dadd B Bc Bn Bg) as RB.
  pose proof (jcc_length dadd A) as LA. pose proof (jcc_length dadd B) as LB.
  pose proof (jnc_length dadd A) as LA'. pose proof (jnc_length dadd B) as LB'.
  unfold jcc, jnc in *.
  destruct (join_equal_segments dadd A) as [[ccA ncA] dtA]. destruct (join_equal_segments dadd B) as [[ccB ncB] dtB].
  cbn [fst snd] in *. destruct RA as [RA1 RA2], RB as [RB1 RB2].
  destruct WA as (A1 & A2 & A3 & A4 & _). destruct WB as (B1 & B2 & B3 & B4 & _).
  assert (L1 : length ccA = length ccB) by (rewrite LA, LB, A2, B2, F1; reflexivity).
  assert (L2 : length ncA = length ncB) by (rewrite LA', LB', A4, B4, F3; reflexivity).
  destruct (segs_of_inj ccA ncA dtA ccB ncB dtB L1 L2 RA1 RA2 RB1 RB2) as (-> & -> & ->); [congruence | reflexivity].
Qed.

Theorem eq_exact_complete A B : wf A -> wf B -> same_frame A B -> good_durations A -> good_durations B ->
  (forall t, (0 <= t)%R -> at_time (segments A) t = at_time (segments B) t) -> eq_exact A B = true.
Proof.
  intros WA WB F GA GB H.
  pose proof (joined_arrays_of_canon A B WA WB F (same_time_function_same_canon A B GA GB H)) as J.
  apply (eq_char dadd (fun _ => num_eqb) bclose A B WA WB).
  unfold jdt, jcc, jnc. rewrite J. destruct F as (F1 & F2 & F3 & F4 & F5). rewrite F1, F2, F3, F4, F5.
  repeat split; auto.
  - apply Forall2_diag. intros a. apply num_eqb_refl.
  - apply basis_eq_refl. exact bclose_refl.
Qed.

Lemma Forall2_eqb_eq (l l' : list num) : Forall2 (fun a b => num_eqb a b = true) l l' -> l = l'.
Proof.
  induction 1 as [|a b l l' Hab _ IH]; [reflexivity|]. apply num_eqb_spec in Hab. rewrite Hab, IH. reflexivity.
Qed.

(* and conversely: equal pulses (stored in the same order) are the same function of time *)
Theorem eq_exact_sound A B : wf A -> wf B -> c_ids A = c_ids B -> n_ids A = n_ids B ->
  good_durations A -> good_durations B -> eq_exact A B = true ->
  forall t, (0 <= t)%R -> at_time (segments A) t = at_time (segments B) t.
Proof.
  intros WA WB Ic In GA GB E t Ht.
  apply (eq_char dadd (fun _ => num_eqb) bclose A B WA WB) in E. destruct E as (HL & HD & Hc & Hn & _).
  assert (Ed : jdt dadd A = jdt dadd B).
  { apply (Forall2_eqb_eq _ _ HD). }
  destruct (wf_rows A WA) as (Ac & An & Ag). destruct (wf_rows B WB) as (Bc & Bn & Bg).
  assert (Ecc : jcc dadd A = jcc dadd B).
  { unfold sorted_view in Hc. assert (H3 := f_equal snd Hc). cbn [snd] in H3. rewrite <- Ic in H3.
    destruct WA as (A1 & A2 & _). destruct WB as (B1 & B2 & _).
    assert (LC : length (c_opers A) = length (c_opers B)).
    { assert (H1 := f_equal (fun x => length (fst (fst x))) Hc). cbn [fst] in H1. rewrite !gather_length, !argsort_length in H1. lia. }
    apply (gather_argsort_inj [] _ _ (c_ids A)); [rewrite jcc_length; lia | rewrite jcc_length; lia | exact H3]. }
  assert (Enc : jnc dadd A = jnc dadd B).
  { unfold sorted_view in Hn. assert (H3 := f_equal snd Hn). cbn [snd] in H3. rewrite <- In in H3.
    destruct WA as (_ & _ & A3 & A4 & _). destruct WB as (_ & _ & B3 & B4 & _).
    assert (LC : length (n_opers A) = length (n_opers B)).
    { assert (H1 := f_equal (fun x => length (fst (fst x))) Hn). cbn [fst] in H1. rewrite !gather_length, !argsort_length in H1. lia. }
    apply (gather_argsort_inj [] _ _ (n_ids A)); [rewrite jnc_length; lia | rewrite jnc_length; lia | exact H3]. }
  pose proof (join_canon dadd A Ac An Ag) as JA. pose proof (join_canon dadd B Bc Bn Bg) as JB.
  unfold jcc, jnc, jdt in *.
  destruct (join_equal_segments dadd A) as [[ccA ncA] dtA]. destruct (join_equal_segments dadd B) as [[ccB ncB] dtB].
  cbn [fst snd] in *. subst.
  assert (EC : canon dadd A = canon dadd B) by congruence.
  rewrite <- (at_time_effective A t Ht), <- (at_time_effective B t Ht).
  rewrite <- (merge_at_time (effective_segments A) t) by (apply effective_nonneg; exact GA).
  rewrite <- (merge_at_time (effective_segments B) t) by (apply effective_nonneg; exact GB).
  fold (canon dadd A). fold (canon dadd B). rewrite EC. reflexivity.
Qed.

(* ------------------------------------------------------------------ binary64: completeness when the merges do not round *)
Lemma join_rows_indep f g p : fst (join_equal_segments f p) = fst (join_equal_segments g p).
Proof. unfold join_equal_segments, join_core. destruct (equal_ind (drop_zero p)); reflexivity. Qed.

Theorem eq64_complete A B : wf A -> wf B -> same_frame A B -> good_durations A -> good_durations B ->
  jdt fadd64 A = jdt dadd A -> jdt fadd64 B = jdt dadd B ->        (* the merged durations are exact sums *)
  (forall t, (0 <= t)%R -> at_time (segments A) t = at_time (segments B) t) -> eq64 A B = true.
Proof.
  intros WA WB F GA GB EA EB H.
  pose proof (eq_exact_complete A B WA WB F GA GB H) as E.
  apply (eq_char dadd (fun _ => num_eqb) bclose A B WA WB) in E. destruct E as (HL & HD & Hc & Hn & Hb).
  apply (eq_char fadd64 close_dt bclose A B WA WB).
  assert (Ed : jdt dadd A = jdt dadd B) by (apply Forall2_eqb_eq; exact HD).
  unfold jcc, jnc in *. rewrite (join_rows_indep fadd64 dadd A), (join_rows_indep fadd64 dadd B).
  rewrite EA, EB, Ed. repeat split; auto.
  apply Forall2_diag. intros a. apply close_dt_refl.
Qed.
