(* __deepcopy__ / __copy__ on the abstract heap of Model/Pulse.v: a deep copy of an object made of
   arrays and (nested) dicts lives in fresh cells only; an ndarray-subclass cell with attributes (the
   Basis and its labels list) breaks this. *)
From Coq Require Import ZArith List Bool String PeanoNat Lia.
From FF Require Import Model.B64 Model.Pulse.
Import ListNotations.
Local Open Scope nat_scope.
Local Notation length := List.length (only parsing).

(* valid references, nesting depth <= fuel, no subclass instance that carries attributes *)
Fixpoint val_ok (fuel : nat) (h : heap) (l : loc) : Prop :=
  l < length h /\
  match hread h l with
  | CArr _ => True
  | CSub _ attrs => attrs = []
  | CDict es => match fuel with O => False | S f => Forall (fun kl => val_ok f h (snd kl)) es end
  end.
Definition obj_ok (fuel : nat) (h : heap) (o : obj) : Prop := Forall (fun kl => val_ok fuel h (snd kl)) o.

(* same shape and payloads *)
Fixpoint val_equiv (fuel : nat) (h : heap) (l : loc) (h' : heap) (l' : loc) : Prop :=
  match hread h l, hread h' l' with
  | CArr a, CArr a' => a = a'
  | CSub a ats, CSub a' ats' => a = a' /\ ats = [] /\ ats' = []
  | CDict es, CDict es' =>
      match fuel with
      | O => False
      | S f => Forall2 (fun kl kl' => fst kl = fst kl' /\ val_equiv f h (snd kl) h' (snd kl')) es es'
      end
  | _, _ => False
  end.
Definition obj_equiv (fuel : nat) (h : heap) (o : obj) (h' : heap) (o' : obj) : Prop :=
  Forall2 (fun kl kl' => fst kl = fst kl' /\ val_equiv fuel h (snd kl) h' (snd kl')) o o'.

(* ------------------------------------------------------------------ heap frame *)
Lemma hread_app h ext l : l < length h -> hread (h ++ ext) l = hread h l.
Proof. intros H. unfold hread. apply app_nth1. exact H. Qed.
Lemma hread_new h c : hread (h ++ [c]) (length h) = c.
Proof. unfold hread. rewrite app_nth2 by lia. rewrite Nat.sub_diag. reflexivity. Qed.
Lemma upd_length {A} (l : list A) i v : length (upd l i v) = length l.
Proof. revert i; induction l as [|x r IH]; intros [|i]; simpl; auto. Qed.
Lemma upd_nth_other {A} (l : list A) i j v d : i <> j -> nth j (upd l i v) d = nth j l d.
Proof.
  revert i j; induction l as [|x r IH]; intros [|i] [|j] H; simpl; auto; try lia; try (apply IH; lia).
Qed.
Lemma hread_write_other h l c x : x <> l -> hread (hwrite h l c) x = hread h x.
Proof. intros H. unfold hread, hwrite. apply upd_nth_other. auto. Qed.

(* agreement of two heaps on the cells reachable from l *)
Definition agree (f : nat) (h1 h2 : heap) (l : loc) : Prop :=
  forall x, In x (reach_val f h1 l) -> hread h2 x = hread h1 x.

Lemma agree_entries f h1 h2 (es : list (string * loc)) :
  (forall x, In x (flat_map (fun kl => reach_val f h1 (snd kl)) es) -> hread h2 x = hread h1 x) ->
  Forall (fun kl => agree f h1 h2 (snd kl)) es.
Proof.
  intros H. apply Forall_forall. intros kl Hin x Hx. apply H. apply in_flat_map. exists kl. auto.
Qed.

Lemma reach_agree f : forall h1 h2 l, agree f h1 h2 l -> reach_val f h2 l = reach_val f h1 l.
Proof.
  induction f as [|f IH]; intros h1 h2 l HA; [reflexivity|].
  cbn [reach_val]. f_equal.
  assert (E : hread h2 l = hread h1 l) by (apply HA; cbn [reach_val]; left; reflexivity).
  rewrite E. destruct (hread h1 l) as [a|es|a ats] eqn:El; auto.
  - assert (HF : Forall (fun kl => agree f h1 h2 (snd kl)) es).
    { apply agree_entries. intros x Hx. apply HA. cbn [reach_val]. rewrite El. right. exact Hx. }
    clear -HF IH. induction HF as [|kl es Hk _ IHes]; simpl; auto. rewrite (IH _ _ _ Hk), IHes. reflexivity.
  - assert (HF : Forall (fun kl => agree f h1 h2 (snd kl)) ats).
    { apply agree_entries. intros x Hx. apply HA. cbn [reach_val]. rewrite El. right. exact Hx. }
    clear -HF IH. induction HF as [|kl es Hk _ IHes]; simpl; auto. rewrite (IH _ _ _ Hk), IHes. reflexivity.
Qed.

(* reachable cells of an ok value are valid *)
Lemma reach_valid f : forall h l, val_ok f h l -> Forall (fun x => x < length h) (reach_val f h l).
Proof.
  induction f as [|f IH]; intros h l [Hl Hc]; cbn [reach_val].
  - constructor; auto.
  - constructor; auto. destruct (hread h l) as [a|es|a ats]; auto.
    + clear -Hc IH. induction Hc as [|kl es Hk _ IHes]; simpl; auto. apply Forall_app. split; auto.
    + subst. constructor.
Qed.

Lemma val_ok_agree f : forall h1 h2 l, length h1 <= length h2 -> val_ok f h1 l -> agree f h1 h2 l -> val_ok f h2 l.
Proof.
  induction f as [|f IH]; intros h1 h2 l HL [Hl Hc] HA.
  - split; [lia|]. rewrite (HA l) by (cbn [reach_val]; left; reflexivity). exact Hc.
  - split; [lia|]. assert (E : hread h2 l = hread h1 l) by (apply HA; cbn [reach_val]; left; reflexivity).
    rewrite E. destruct (hread h1 l) as [a|es|a ats] eqn:El; auto.
    assert (HF : Forall (fun kl => agree f h1 h2 (snd kl)) es).
    { apply agree_entries. intros x Hx. apply HA. cbn [reach_val]. rewrite El. right. exact Hx. }
    clear -HF Hc IH HL. induction Hc as [|kl es Hk _ IHes]; constructor; inversion HF; subst; auto.
    eapply IH; eauto.
Qed.

(* equivalence is insensitive to changes outside the reachable cells, on either side *)
Lemma equiv_agree_r f : forall h l h1 h2 l', val_equiv f h l h1 l' -> agree f h1 h2 l' -> val_equiv f h l h2 l'.
Proof.
  induction f as [|f IH]; intros h l h1 h2 l' HE HA.
  - cbn [val_equiv] in *. rewrite (HA l') by (cbn [reach_val]; left; reflexivity). exact HE.
  - cbn [val_equiv] in *.
    assert (E : hread h2 l' = hread h1 l') by (apply HA; cbn [reach_val]; left; reflexivity).
    rewrite E. destruct (hread h l) as [a|es|a ats]; destruct (hread h1 l') as [a'|es'|a' ats'] eqn:El; auto.
    assert (HF : Forall (fun kl => agree f h1 h2 (snd kl)) es').
    { apply agree_entries. intros x Hx. apply HA. cbn [reach_val]. rewrite El. right. exact Hx. }
    clear -HE HF IH. induction HE as [|kl kl' es es' [Hk Hv] _ IHes]; constructor; inversion HF; subst; auto.
    split; auto. eapply IH; eauto.
Qed.
Lemma equiv_agree_l f : forall h1 h2 l h' l', val_equiv f h1 l h' l' -> agree f h1 h2 l -> val_equiv f h2 l h' l'.
Proof.
  induction f as [|f IH]; intros h1 h2 l h' l' HE HA.
  - cbn [val_equiv] in *. rewrite (HA l) by (cbn [reach_val]; left; reflexivity). exact HE.
  - cbn [val_equiv] in *.
    assert (E : hread h2 l = hread h1 l) by (apply HA; cbn [reach_val]; left; reflexivity).
    rewrite E. destruct (hread h1 l) as [a|es|a ats] eqn:El; destruct (hread h' l') as [a'|es'|a' ats']; auto.
    assert (HF : Forall (fun kl => agree f h1 h2 (snd kl)) es).
    { apply agree_entries. intros x Hx. apply HA. cbn [reach_val]. rewrite El. right. exact Hx. }
    clear -HE HF IH. induction HE as [|kl kl' es es' [Hk Hv] _ IHes]; constructor; inversion HF; subst; auto.
    split; auto. eapply IH; eauto.
Qed.

Lemma equiv_refl_ok f : forall h l, val_ok f h l -> val_equiv f h l h l.
Proof.
  induction f as [|f IH]; intros h l [Hl Hc]; cbn [val_equiv].
  - destruct (hread h l); auto; try contradiction.
  - destruct (hread h l) as [a|es|a ats]; auto.
    clear -Hc IH. induction Hc as [|kl es Hk _ IHes]; constructor; auto.
Qed.

(* extension of the heap leaves valid cells alone *)
Lemma agree_ext f h ext l : Forall (fun x => x < length h) (reach_val f h l) -> agree f h (h ++ ext) l.
Proof. intros H x Hx. rewrite Forall_forall in H. apply hread_app. auto. Qed.

(* ------------------------------------------------------------------ deep copy of one value *)
Definition fresh (f : nat) (h h' : heap) (l' : loc) : Prop :=
  Forall (fun x => length h <= x < length h') (reach_val f h' l').

Definition copier_spec (f : nat) (cp : heap -> loc -> heap * loc) : Prop :=
  forall h l h' l', val_ok f h l -> cp h l = (h', l') ->
    (exists ext, h' = h ++ ext) /\ val_ok f h' l' /\ fresh f h h' l' /\ val_equiv f h l h' l'.

Lemma Forall2_impl_l {A B} (P : A -> Prop) (R R' : A -> B -> Prop) l l' :
  Forall P l -> (forall a b, P a -> R a b -> R' a b) -> Forall2 R l l' -> Forall2 R' l l'.
Proof.
  intros HP HI H2. induction H2 as [|a b l l' Hab _ IH]; constructor; inversion HP; subst; auto.
Qed.

Lemma fresh_mono f h0 h h' l : length h0 <= length h -> fresh f h h' l -> fresh f h0 h' l.
Proof. intros HL HF. eapply Forall_impl; [|exact HF]. simpl. intros; lia. Qed.

(* entries copied one after the other *)
Lemma copy_entries_spec f cp : copier_spec f cp ->
  forall es h h' es', Forall (fun kl => val_ok f h (snd kl)) es -> copy_entries cp es h = (h', es') ->
    (exists ext, h' = h ++ ext) /\
    Forall (fun kl => val_ok f h' (snd kl)) es' /\
    Forall (fun kl => fresh f h h' (snd kl)) es' /\
    Forall2 (fun kl kl' => fst kl = fst kl' /\ val_equiv f h (snd kl) h' (snd kl')) es es'.
Proof.
  intros Hcp. induction es as [|kl r IH]; intros h h' es' Hok Hc.
  - simpl in Hc. inversion Hc; subst. split; [exists []; rewrite app_nil_r; reflexivity|]. repeat split; constructor.
  - cbn [copy_entries] in Hc. destruct (cp h (snd kl)) as [h1 l1] eqn:E1.
    destruct (copy_entries cp r h1) as [h2 r'] eqn:E2. inversion Hc; subst h' es'; clear Hc.
    inversion Hok as [|? ? Hk Hr]; subst.
    destruct (Hcp _ _ _ _ Hk E1) as ([ext1 ->] & Hok1 & Hfr1 & Heq1).
    assert (Hr1 : Forall (fun kl => val_ok f (h ++ ext1) (snd kl)) r).
    { eapply Forall_impl; [|exact Hr]. intros kl' Hv.
      apply (val_ok_agree f h (h ++ ext1)); [rewrite app_length; lia | exact Hv | apply agree_ext, reach_valid; exact Hv]. }
    destruct (IH _ _ _ Hr1 E2) as ([ext2 ->] & Hok2 & Hfr2 & Heq2).
    assert (AG1 : agree f (h ++ ext1) ((h ++ ext1) ++ ext2) l1) by (apply agree_ext, reach_valid; exact Hok1).
    split; [exists (ext1 ++ ext2); rewrite app_assoc; reflexivity|].
    split; [|split].
    + constructor; [|exact Hok2]. cbn [snd].
      apply (val_ok_agree f (h ++ ext1) ((h ++ ext1) ++ ext2)); [rewrite !app_length; lia | exact Hok1 | exact AG1].
    + constructor.
      * cbn [snd]. unfold fresh in *. rewrite (reach_agree f _ _ _ AG1).
        eapply Forall_impl; [|exact Hfr1]. simpl. intros x Hx. rewrite !app_length in *. lia.
      * eapply Forall_impl; [|exact Hfr2]. intros kl' Hf. eapply fresh_mono; [|exact Hf]. rewrite app_length; lia.
    + constructor.
      * split; [reflexivity|]. cbn [snd]. eapply equiv_agree_r; [exact Heq1 | exact AG1].
      * eapply (Forall2_impl_l (fun kl => val_ok f h (snd kl))); [exact Hr | | exact Heq2].
        intros a b Ha [Hab Hv]. split; auto.
        eapply equiv_agree_l; [exact Hv|].
        pose proof (reach_valid f h (snd a) Ha) as RV.
        pose proof (agree_ext f h ext1 (snd a) RV) as AG.
        intros x Hx. rewrite (reach_agree f _ _ _ AG) in Hx.
        rewrite Forall_forall in RV. symmetry. apply hread_app. auto.
Qed.

Lemma entries_ok_agree f h1 h2 (es : list (string * loc)) : length h1 <= length h2 ->
  Forall (fun kl => val_ok f h1 (snd kl)) es -> Forall (fun kl => agree f h1 h2 (snd kl)) es ->
  Forall (fun kl => val_ok f h2 (snd kl)) es.
Proof.
  intros HL H1 H2. induction H1 as [|kl es Hk _ IH]; constructor; inversion H2; subst; auto.
  eapply val_ok_agree; eauto.
Qed.
Lemma entries_reach_agree (P : loc -> Prop) f h1 h2 (es : list (string * loc)) :
  Forall (fun kl => Forall P (reach_val f h1 (snd kl))) es -> Forall (fun kl => agree f h1 h2 (snd kl)) es ->
  Forall P (flat_map (fun kl => reach_val f h2 (snd kl)) es).
Proof.
  intros H1 H2. induction H1 as [|kl es Hk _ IH]; simpl; [constructor|]. inversion H2 as [|? ? Ha Hes]; subst.
  apply Forall_app. split; auto. rewrite (reach_agree f _ _ _ Ha). exact Hk.
Qed.
Lemma entries_equiv_agree f h h1 h2 (es es' : list (string * loc)) :
  Forall2 (fun kl kl' => fst kl = fst kl' /\ val_equiv f h (snd kl) h1 (snd kl')) es es' ->
  Forall (fun kl => agree f h1 h2 (snd kl)) es' ->
  Forall2 (fun kl kl' => fst kl = fst kl' /\ val_equiv f h (snd kl) h2 (snd kl')) es es'.
Proof.
  intros H1 H2. induction H1 as [|kl kl' es es' [Hk Hv] _ IH]; constructor; inversion H2; subst; auto.
  split; auto. eapply equiv_agree_r; eauto.
Qed.

(* deep copy of one value *)
Lemma deepcopy_val_spec f : copier_spec f (deepcopy_val f).
Proof.
  induction f as [|f IH]; intros h l h' l' [Hl Hc] Hcp.
  - cbn [deepcopy_val] in Hcp. destruct (hread h l) as [a|es|a ats] eqn:El; [|contradiction|].
    + inversion Hcp; subst h' l'; clear Hcp.
      split; [eexists; reflexivity|]. split; [|split].
      * split; [rewrite app_length; simpl; lia | rewrite hread_new; exact I].
      * unfold fresh. cbn [reach_val]. constructor; [rewrite app_length; simpl; lia | constructor].
      * cbn [val_equiv]. rewrite El, hread_new. reflexivity.
    + inversion Hcp; subst h' l'; clear Hcp. subst ats.
      split; [eexists; reflexivity|]. split; [|split].
      * split; [rewrite app_length; simpl; lia | rewrite hread_new; reflexivity].
      * unfold fresh. cbn [reach_val]. constructor; [rewrite app_length; simpl; lia | constructor].
      * cbn [val_equiv]. rewrite El, hread_new. auto.
  - cbn [deepcopy_val] in Hcp. destruct (hread h l) as [a|es|a ats] eqn:El.
    + inversion Hcp; subst h' l'; clear Hcp.
      split; [eexists; reflexivity|]. split; [|split].
      * split; [rewrite app_length; simpl; lia | rewrite hread_new; exact I].
      * unfold fresh. cbn [reach_val]. rewrite hread_new. constructor; [rewrite app_length; simpl; lia | constructor].
      * cbn [val_equiv]. rewrite El, hread_new. reflexivity.
    + destruct (copy_entries (deepcopy_val f) es h) as [h1 es'] eqn:E1. inversion Hcp; subst h' l'; clear Hcp.
      destruct (copy_entries_spec f _ IH es h h1 es' Hc E1) as ([ext ->] & Hok & Hfr & Heq).
      split; [exists (ext ++ [CDict es']); rewrite app_assoc; reflexivity|].
      assert (AGs : Forall (fun kl => agree f (h ++ ext) ((h ++ ext) ++ [CDict es']) (snd kl)) es').
      { eapply Forall_impl; [|exact Hok]. intros kl Hv. apply agree_ext, reach_valid; exact Hv. }
      split; [|split].
      * split; [rewrite !app_length; simpl; lia|]. rewrite hread_new.
        apply (entries_ok_agree f (h ++ ext)); [rewrite !app_length; lia | exact Hok | exact AGs].
      * unfold fresh. cbn [reach_val]. rewrite hread_new.
        constructor; [rewrite !app_length; simpl; lia|].
        apply (entries_reach_agree _ f (h ++ ext)); [|exact AGs].
        eapply Forall_impl; [|exact Hfr]. intros kl Hk. unfold fresh in Hk.
        eapply Forall_impl; [|exact Hk]. simpl. intros x Hx. rewrite !app_length in *. simpl. lia.
      * cbn [val_equiv]. rewrite El, hread_new.
        apply (entries_equiv_agree f h (h ++ ext)); assumption.
    + inversion Hcp; subst h' l'; clear Hcp. subst ats.
      split; [eexists; reflexivity|]. split; [|split].
      * split; [rewrite app_length; simpl; lia | rewrite hread_new; reflexivity].
      * unfold fresh. cbn [reach_val]. rewrite hread_new. constructor; [rewrite app_length; simpl; lia | constructor].
      * cbn [val_equiv]. rewrite El, hread_new. auto.
Qed.

(* ------------------------------------------------------------------ objects *)
Lemma reach_obj_Forall (P : loc -> Prop) f h o :
  Forall (fun kl => Forall P (reach_val f h (snd kl))) o -> Forall P (reach_obj f h o).
Proof.
  unfold reach_obj. induction 1 as [|kl o Hk _ IH]; simpl; [constructor|]. apply Forall_app. auto.
Qed.

Theorem deepcopy_disjoint fuel h o h' o' :
  obj_ok fuel h o -> deepcopy_obj fuel h o = (h', o') ->
  (exists ext, h' = h ++ ext) /\
  Forall (fun l => length h <= l < length h') (reach_obj fuel h' o') /\
  Forall (fun l => l < length h) (reach_obj fuel h o) /\
  obj_equiv fuel h o h' o' /\
  (forall l c, In l (reach_obj fuel h' o') -> obj_equiv fuel h o (hwrite h' l c) o) /\
  (forall l c, In l (reach_obj fuel h o) -> obj_equiv fuel h' o' (hwrite h' l c) o').
Proof.
  intros Hok Hcp. unfold deepcopy_obj in Hcp.
  destruct (copy_entries_spec fuel _ (deepcopy_val_spec fuel) o h h' o' Hok Hcp) as ([ext ->] & Hok' & Hfr & Heq).
  assert (Rnew : Forall (fun l => length h <= l < length (h ++ ext)) (reach_obj fuel (h ++ ext) o')).
  { apply reach_obj_Forall. exact Hfr. }
  assert (Rold : Forall (fun l => l < length h) (reach_obj fuel h o)).
  { apply reach_obj_Forall. eapply Forall_impl; [|exact Hok]. intros kl Hv. apply reach_valid. exact Hv. }
  split; [eexists; reflexivity|]. split; [exact Rnew|]. split; [exact Rold|]. split; [exact Heq|]. split.
  - (* a write to a cell of the copy is invisible through the original *)
    intros l c Hl. rewrite Forall_forall in Rnew. specialize (Rnew l Hl).
    unfold obj_ok in Hok. clear -Hok Rnew.
    induction Hok as [|kl o Hk _ IH]; [constructor|]. constructor; [|exact IH]. split; [reflexivity|].
    eapply equiv_agree_r; [apply equiv_refl_ok; exact Hk|].
    intros x Hx. pose proof (reach_valid fuel h (snd kl) Hk) as RV. rewrite Forall_forall in RV. specialize (RV x Hx).
    rewrite hread_write_other by lia. apply hread_app. exact RV.
  - (* a write to a cell of the original is invisible through the copy *)
    intros l c Hl. rewrite Forall_forall in Rold. specialize (Rold l Hl).
    clear -Hok' Hfr Rold.
    induction Hok' as [|kl o' Hk _ IH]; [constructor|]. inversion Hfr as [|? ? Hf1 Hf2]; subst.
    constructor; [|apply IH; exact Hf2]. split; [reflexivity|].
    eapply equiv_agree_r; [apply equiv_refl_ok; exact Hk|].
    intros x Hx. unfold fresh in Hf1. rewrite Forall_forall in Hf1. specialize (Hf1 x Hx).
    apply hread_write_other. lia.
Qed.

(* The restriction of obj_ok matters: an ndarray-subclass cell that carries attributes (a Basis with its
   labels list) is copied by NumPy with the attribute references re-bound, so the deep copy and the
   original reach the same mutable cell. *)
Definition basis_heap : heap := [CArr [(1, 0)%Z]; CSub [(1, 0)%Z; (0, 0)%Z] [("labels"%string, 0)]].
Definition basis_obj : obj := [("basis"%string, 1)].
Theorem deepcopy_shares_subclass_attributes :
  exists h' o', deepcopy_obj 2 basis_heap basis_obj = (h', o') /\
                exists l, In l (reach_obj 2 basis_heap basis_obj) /\ In l (reach_obj 2 h' o').
Proof.
  eexists; eexists. split; [vm_compute; reflexivity|]. exists 0. split; vm_compute; auto.
Qed.

(* ------------------------------------------------------------------ shallow copy *)
Lemma copy_obj_spec o : forall h h' o', Forall (fun kl => snd kl < length h) o -> copy_obj h o = (h', o') ->
  (exists ext, h' = h ++ ext) /\ map fst o' = map fst o /\
  Forall2 (fun kl kl' => if String.eqb (fst kl) "_intermediates"
                         then length h <= snd kl' < length h' /\ hread h' (snd kl') = hread h (snd kl)
                         else snd kl' = snd kl) o o'.
Proof.
  induction o as [|kl r IH]; intros h h' o' Hv H.
  - simpl in H. inversion H; subst. split; [exists []; rewrite app_nil_r; reflexivity|]. split; constructor.
  - cbn [copy_obj] in H. destruct (copy_attr h kl) as [h1 l1] eqn:E1.
    destruct (copy_obj h1 r) as [h2 r'] eqn:E2. inversion H; subst h' o'; clear H.
    inversion Hv as [|? ? Hk Hr]; subst.
    unfold copy_attr in E1.
    match type of E1 with (if ?b then _ else _) = _ => destruct b eqn:Ek end.
    + unfold alloc in E1. inversion E1; subst; clear E1.
      assert (Hr1 : Forall (fun a : string * loc => snd a < length (h ++ [hread h (snd kl)])) r).
      { eapply Forall_impl; [|exact Hr]. intros a Ha. cbv beta in *. rewrite app_length. cbn [length]. unfold loc in *. lia. }
      destruct (IH _ _ _ Hr1 E2) as ([ext2 ->] & Hm & HF).
      split; [exists ([hread h (snd kl)] ++ ext2); rewrite app_assoc; reflexivity|].
      split; [simpl; f_equal; exact Hm|].
      constructor.
      * rewrite Ek. cbn [snd]. split; [rewrite !app_length; simpl; lia|].
        rewrite hread_app by (rewrite app_length; simpl; lia). apply hread_new.
      * eapply (Forall2_impl_l (fun kl => snd kl < length h)); [exact Hr | | exact HF].
        intros a b Ha Hab. cbv beta in *.
        match type of Hab with (if ?c then _ else _) => destruct c end; [|exact Hab].
        destruct Hab as [Hl Hrd]. split; [rewrite app_length in Hl; simpl in Hl; lia|].
        rewrite Hrd. apply hread_app. exact Ha.
    + try rewrite Ek in E1. inversion E1; subst; clear E1.
      destruct (IH _ _ _ Hr E2) as ([ext2 ->] & Hm & HF).
      split; [exists ext2; reflexivity|]. split; [simpl; f_equal; exact Hm|].
      constructor; [rewrite Ek; reflexivity | exact HF].
Qed.

Theorem copy_shares h o h' o' : Forall (fun kl => snd kl < length h) o -> copy_obj h o = (h', o') ->
  map fst o' = map fst o /\
  Forall2 (fun kl kl' => if String.eqb (fst kl) "_intermediates"
                         then length h <= snd kl' < length h' /\ hread h' (snd kl') = hread h (snd kl)
                         else snd kl' = snd kl) o o'.
Proof. intros Hv H. destruct (copy_obj_spec o h h' o' Hv H) as (_ & H1 & H2). auto. Qed.
