(* Semantic tie of the propagator kernels (C02): terms translated from the current Python sources by
   tools/kernel_extract.py (Extracted/Kernels.v) equal the model functions of Model/Numeric.v / Model/Propagator.v. *)
From Coq Require Import ZArith Reals Lra Lia List.
From FF Require Import Base.Ops Inst.RInst Base.RAlg Model.Numeric Model.Propagator Extracted.Kernels Proofs.Propagator.
Import ListNotations.
Local Open Scope R_scope.

Example kernels_translated_C02 : kernel_untranslated_C02 = nil.
Proof. reflexivity. Qed.

(* numeric.diagonalize: piecewise[l] = einsum('lij,jl,lkj->lik', V, cexp(-dt * ev.T), conj V) is the model's segment
   propagator of segment l (dt, ev, V: the data of that segment) *)
Theorem diag_piecewise_is_source d (ev : list R) (V : Mat (T:=R)) (dt : R) l i k : (i < d)%nat -> (k < d)%nat ->
  mget RO (segment_propagator RO d ev V dt) i k =
  diag_piecewise_src RO d (fun _ => dt) (fun _ j => vg RO ev j) (fun _ i' j => mget RO V i' j) l i k.
Proof.
  intros Hi Hk. unfold segment_propagator. rewrite mget_mbuild by assumption. unfold diag_piecewise_src.
  apply c_eq; [rewrite csumn_re | rewrite csumn_im]; apply sumn_ext; intros j _; csimp;
    replace (- (dt * vg RO ev j)) with (- dt * vg RO ev j) by ring; reflexivity.
Qed.

(* PulseSequence.propagator_at_arb_t: for the selected segment g = sel l (data ev, V, Q = propagators[g], tg = self.t[g])
   entry [l] of the result is V cexp((tg - tq) ev) V^dagger Q *)
Theorem arb_t_is_source d (ev : list R) (V Q : Mat (T:=R)) (tg tq : R) sel l i c : (i < d)%nat -> (c < d)%nat ->
  mget RO (arb_t_segment RO d ev V Q tg tq) i c =
  arb_t_entry_src RO d sel (fun _ => tq) (fun _ => tg) (fun _ j => vg RO ev j)
                  (fun _ i' j => mget RO V i' j) (fun _ i' j => mget RO Q i' j) l i c.
Proof.
  intros Hi Hc. unfold arb_t_segment, mmul. rewrite mget_mbuild by assumption. unfold arb_t_entry_src.
  apply c_eq; [rewrite csumn_re | rewrite csumn_im]; apply sumn_ext; intros k Hk;
    unfold spectral_exp; rewrite mget_mbuild by assumption; csimp; rewrite csumn_re, csumn_im; csimp; reflexivity.
Qed.

(* numeric.diagonalize: the recurrence cumulative[0] = identity, cumulative[i+1] = piecewise[i] @ cumulative[i] gives the
   model's list of cumulative propagators (nla.eigh is an oracle: evs, Vs are whatever it returned) *)
Theorem diag_cumulative_is_source d evs Vs dts : length Vs = length evs -> length dts = length evs ->
  forall r, (r <= length evs)%nat -> forall a b, (a < d)%nat -> (b < d)%nat ->
  mget RO (nth r (propagators RO d evs Vs dts) nil) a b =
  diag_cumulative_src RO d (fun g => nth g dts 0) (fun g j => vg RO (nth g evs nil) j)
                      (fun g i j => mget RO (nth g Vs nil) i j) r a b.
Proof.
  intros HV Hd. unfold propagators. induction r as [|r IH]; intros Hr a b Ha Hb.
  - rewrite cumulative_nth_0. unfold mid. rewrite mget_mbuild by assumption.
    unfold diag_cumulative_src. cbn [nat_rect fst snd]. destruct (Nat.eqb a b); reflexivity.
  - rewrite cumulative_nth_S by (assumption || lia). unfold mmul at 1. rewrite mget_mbuild by assumption.
    unfold diag_cumulative_src. cbn [nat_rect]. cbv beta.
    apply c_eq; cbn [fst snd]; [rewrite csumn_re | rewrite csumn_im]; apply sumn_ext; intros k Hk;
      rewrite (IH ltac:(lia) k b Hk Hb); rewrite (diag_piecewise_is_source d _ _ _ r a k Ha Hk);
      unfold diag_cumulative_src, diag_piecewise_src; csimp; reflexivity.
Qed.
