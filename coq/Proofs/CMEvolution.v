(* C01 <-> C02: the path U(t) = pulse_U ... of C01_control_matrix_integral IS the time-ordered evolution:
   on segment g it coincides with C02's interpolated propagator U_ g t = e^{-i H_g (t - t_g)} Q_g  (Proofs/Propagator.v),
   which satisfies i dU/dt = H_g U, starts at the identity and is continuous across the segment edges.        *)
From Coq Require Import ZArith Reals Lra Lia List Setoid Morphisms.
From Coquelicot Require Import Coquelicot.
From FF Require Import Base.Ops Inst.RInst Base.RAlg Model.Numeric Proofs.MatAlg Proofs.Propagator
  Proofs.Foi Proofs.CMBase Proofs.CMIntegral.
Import ListNotations.
Local Open Scope R_scope.

Section Select.
Variable d : nat.

(* propagator and time at the start of segment g, accumulated as pulse_U / entry_segs do *)
Definition Qacc (segs : list seg) (Q : MatR) (g : nat) : MatR := fold_left (fun Q sg => seg_next_Q d sg Q) (firstn g segs) Q.
Definition tacc (segs : list seg) (t0 : R) (g : nat) : R := fold_left (fun t sg => t + seg_dt sg) (firstn g segs) t0.

Lemma pulse_U_select : forall segs Q t0 g t ev V dt s,
  nth_error segs g = Some (ev, V, dt, s) ->
  (forall i, (i < g)%nat -> tacc segs t0 (S i) <= t) -> t < tacc segs t0 (S g) ->
  pulse_U d segs Q t0 t = Useg d ev V (Qacc segs Q g) (t - tacc segs t0 g).
Proof.
  induction segs as [|[[[ev0 V0] dt0] s0] r IH]; intros Q t0 g t ev V dt s Hn Hb Ht.
  - destruct g; discriminate.
  - destruct g as [|g].
    + simpl in Hn. injection Hn as -> -> -> ->. unfold tacc in Ht. simpl in Ht |- *.
      destruct (Rlt_dec t (t0 + dt)); [reflexivity | contradiction].
    + simpl in Hn. simpl pulse_U.
      assert (H0 : t0 + dt0 <= t) by (apply (Hb 0%nat); lia).
      destruct (Rlt_dec t (t0 + dt0)); [lra|].
      rewrite (IH (mmul RO d (segment_propagator RO d ev0 V0 dt0) Q) (t0 + dt0) g t ev V dt s Hn).
      * reflexivity.
      * intros i Hi. apply (Hb (S i)). lia.
      * exact Ht.
Qed.

(* for the segments of a pulse, the accumulated values are the package's propagators and time grid *)
Lemma Qacc_zip4 : forall evs Vs dts ss Q g, (g <= length (zip4 evs Vs dts ss))%nat ->
  Qacc (zip4 evs Vs dts ss) Q g = nth g (cumulative RO d evs Vs dts Q) [].
Proof.
  induction evs as [|ev evs IH]; intros Vs dts ss Q g Hg.
  - simpl in Hg. assert (g = 0%nat) by lia. subst. reflexivity.
  - destruct Vs as [|V Vs]; [simpl in Hg; assert (g = 0%nat) by lia; subst; reflexivity|].
    destruct dts as [|dt dts]; [simpl in Hg; assert (g = 0%nat) by lia; subst; reflexivity|].
    destruct ss as [|s ss].
    + simpl in Hg. assert (g = 0%nat) by lia. subst. reflexivity.
    + destruct g as [|g]; [reflexivity|]. simpl in Hg. unfold Qacc. simpl.
      apply (IH Vs dts ss). lia.
Qed.
Lemma tacc_zip4 : forall evs Vs dts ss t0 g, (g <= length (zip4 evs Vs dts ss))%nat ->
  tacc (zip4 evs Vs dts ss) t0 g = nth g (cumsum_from RO t0 dts) 0.
Proof.
  induction evs as [|ev evs IH]; intros Vs dts ss t0 g Hg.
  - simpl in Hg. assert (g = 0%nat) by lia. subst. destruct dts; reflexivity.
  - destruct Vs as [|V Vs]; [simpl in Hg; assert (g = 0%nat) by lia; subst; destruct dts; reflexivity|].
    destruct dts as [|dt dts]; [simpl in Hg; assert (g = 0%nat) by lia; subst; reflexivity|].
    destruct ss as [|s ss].
    + simpl in Hg. assert (g = 0%nat) by lia. subst. reflexivity.
    + destruct g as [|g]; [reflexivity|]. simpl in Hg. unfold tacc. simpl.
      apply (IH Vs dts ss). lia.
Qed.
Lemma zip4_length : forall evs Vs dts ss, length Vs = length evs -> length dts = length evs -> length ss = length evs ->
  length (zip4 evs Vs dts ss) = length evs.
Proof.
  induction evs as [|ev evs IH]; intros Vs dts ss H1 H2 H3; [reflexivity|].
  destruct Vs; [discriminate|]. destruct dts; [discriminate|]. destruct ss; [discriminate|]. simpl in *. rewrite IH; lia.
Qed.
Lemma zip4_nth_error : forall evs Vs dts ss g, length Vs = length evs -> length dts = length evs -> length ss = length evs ->
  (g < length evs)%nat ->
  nth_error (zip4 evs Vs dts ss) g = Some (nth g evs [], nth g Vs [], nth g dts 0, nth g ss 0).
Proof.
  induction evs as [|ev evs IH]; intros Vs dts ss g H1 H2 H3 Hg; [simpl in Hg; lia|].
  destruct Vs; [discriminate|]. destruct dts; [discriminate|]. destruct ss; [discriminate|].
  destruct g as [|g]; [reflexivity|]. simpl in *. apply IH; lia.
Qed.
End Select.

Section Evolution.
Variable d : nat.
Variables (evs : list (list R)) (Vs : list MatR) (dts : list R).
Hypothesis HLV : length Vs = length evs.
Hypothesis HLd : length dts = length evs.
Hypothesis HU : forall g, (g < length evs)%nat -> funitary d (toF (nth g Vs [])).
Hypothesis Hdt : forall g, (g < length dts)%nat -> 0 <= nth g dts 0.

(* inside segment g (t_g <= t < t_{g+1}) the path of C01 is C02's interpolated propagator *)
Theorem pulse_U_is_U nc j g t : (g < length evs)%nat ->
  nth g (times RO dts) 0 <= t < nth (S g) (times RO dts) 0 ->
  feq d (toF (pulse_U d (pulse_segs evs Vs dts nc j) (mid RO d) 0 t)) (U_ d evs Vs dts g t).
Proof.
  intros Hg [Hlo Hhi]. unfold pulse_segs.
  set (ss := sens_row (length dts) nc j).
  assert (Hss : length ss = length evs) by (unfold ss, sens_row; rewrite build_length; exact HLd).
  assert (Hlen : length (zip4 evs Vs dts ss) = length evs) by (apply zip4_length; auto).
  pose proof (times_nondecr dts Hdt) as Hmono.
  assert (Htl : length (times RO dts) = S (length dts)) by apply times_length.
  rewrite (pulse_U_select d (zip4 evs Vs dts ss) (mid RO d) 0 g t (nth g evs []) (nth g Vs []) (nth g dts 0) (nth g ss 0)).
  - rewrite Qacc_zip4, tacc_zip4 by lia.
    unfold Useg. rewrite toF_mmul, Propagator.toF_segment_propagator. unfold U_, Q_, t_, propagators, times. reflexivity.
  - apply zip4_nth_error; auto.
  - intros i Hi. rewrite tacc_zip4 by lia. fold (times RO dts).
    eapply Rle_trans; [|exact Hlo]. apply nondecr_mono; auto; lia.
  - rewrite tacc_zip4 by lia. exact Hhi.
Qed.

(* the time-ordered evolution: Schroedinger equation inside every segment, identity at t = 0, continuity at the edges
   (C02: U_schroedinger, U_initial, U_left_edge, U_right_edge, U_unitary) -- stated for the path of C01 *)
Theorem pulse_U_evolution nc j g t : (g < length evs)%nat ->
  nth g (times RO dts) 0 <= t < nth (S g) (times RO dts) 0 ->
  feq d (toF (pulse_U d (pulse_segs evs Vs dts nc j) (mid RO d) 0 t)) (U_ d evs Vs dts g t) /\
  (forall i k, (i < d)%nat -> (k < d)%nat ->
     cderive (fun s => U_ d evs Vs dts g s i k) t
             (fscal (cneg' ic) (fmul d (H_ d evs Vs g) (U_ d evs Vs dts g t)) i k)) /\
  feq d (U_ d evs Vs dts 0 0) fid /\
  feq d (U_ d evs Vs dts g (nth g (times RO dts) 0)) (toF (nth g (propagators RO d evs Vs dts) [])) /\
  feq d (U_ d evs Vs dts g (nth (S g) (times RO dts) 0)) (toF (nth (S g) (propagators RO d evs Vs dts) [])) /\
  fherm d (H_ d evs Vs g) /\
  feq d (fmul d (H_ d evs Vs g) (toF (nth g Vs []))) (fmul d (toF (nth g Vs [])) (fdiagv (fun k => cofr RO (vg RO (nth g evs []) k)))).
Proof.
  intros Hg Ht. split; [apply pulse_U_is_U; auto|].
  split; [intros i k Hi Hk; apply U_schroedinger; auto|].
  split; [apply U_initial; auto; lia|].
  split; [apply U_left_edge; auto|].
  split; [apply U_right_edge; auto|].
  split; [apply H_hermitian | apply H_eigen; auto].
Qed.
End Evolution.
