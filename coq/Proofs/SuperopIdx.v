(* C15: the index arrays of Basis.ggm / basis.ggm_expand exactly as the source computes them
     j = np.repeat(np.arange(d-1), np.arange(d-1, 0, -1)),  k = np.arange(1, n_sym+1) - (j*(2*d - j - 3)/2).astype(int)
   enumerate the pairs j < k in row-major order, for every d (Model/Superop.v: ggm_pairs_src = ggm_pairs). *)
From Coq Require Import ZArith Lia List Bool Arith.
From FF Require Import Base.Ops Inst.RInst Base.RAlg Model.Numeric Model.Superop Proofs.SuperopAlg Proofs.Superop.
Import ListNotations.

Lemma combine_app {A B} (a b : list A) (c e : list B) : length a = length c ->
  combine (a ++ b) (c ++ e) = combine a c ++ combine b e.
Proof.
  revert c. induction a as [|x a IH]; intros [|y c] H; simpl in *; try discriminate; auto.
  f_equal. apply IH. lia.
Qed.

Section Idx.
Variable d : nat.
Definition kf (tj : nat * nat) : nat := fst tj - (snd tj * (2 * d - snd tj - 3)) / 2.
Definition Jm (m : nat) : list nat := concat (build m (fun j => repeat j (d - 1 - j))).
Definition Pm (m : nat) : list (nat * nat) := concat (build m (fun j => map (fun k => (j, k)) (seq (S j) (d - S j)))).

Lemma Jm_S m : Jm (S m) = Jm m ++ repeat m (d - 1 - m).
Proof. unfold Jm. rewrite build_S, concat_app. simpl. rewrite app_nil_r. reflexivity. Qed.
Lemma Pm_S m : Pm (S m) = Pm m ++ map (fun k => (m, k)) (seq (S m) (d - S m)).
Proof. unfold Pm. rewrite build_S, concat_app. simpl. rewrite app_nil_r. reflexivity. Qed.

Lemma Jm_length m : (m <= d)%nat -> (2 * length (Jm m) + m * m + m = 2 * m * d)%nat.
Proof.
  induction m; intros H. reflexivity.
  rewrite Jm_S, app_length, repeat_length. specialize (IHm ltac:(lia)). nia.
Qed.

(* one block: t runs over s, s+1, ..; the k index is s' + u *)
Lemma block_eq m L : forall s s', (forall u, (u < L)%nat -> kf (s + u, m)%nat = (s' + u)%nat) ->
  combine (repeat m L) (map kf (combine (seq s L) (repeat m L))) = map (fun k => (m, k)) (seq s' L).
Proof.
  induction L; intros s s' H; simpl. reflexivity.
  f_equal.
  - f_equal. specialize (H 0%nat ltac:(lia)). rewrite !Nat.add_0_r in H. exact H.
  - apply IHL. intros u Hu. specialize (H (S u) ltac:(lia)). rewrite <- !Nat.add_succ_comm in H. exact H.
Qed.

Lemma kf_block m u : (m < d)%nat -> kf (1 + length (Jm m) + u, m)%nat = (S m + u)%nat.
Proof.
  intros Hm. unfold kf. simpl fst. simpl snd.
  pose proof (Jm_length m ltac:(lia)) as HL. set (off := length (Jm m)) in *.
  assert (E : (m * (2 * d - m - 3) = (off - m) * 2 /\ m <= off)%nat).
  { destruct m as [|m']. simpl. lia.
    assert (Hq : (2 * d - S m' - 3 + S m' + 3 = 2 * d)%nat) by lia.
    set (q := (2 * d - S m' - 3)%nat) in *. nia. }
  destruct E as [E1 E2]. rewrite E1, Nat.div_mul by lia. lia.
Qed.

Lemma prefix_eq m : (m <= d)%nat ->
  combine (Jm m) (map kf (combine (seq 1 (length (Jm m))) (Jm m))) = Pm m.
Proof.
  induction m; intros H. reflexivity.
  rewrite Jm_S, Pm_S, app_length, repeat_length.
  rewrite seq_app. rewrite (combine_app (seq 1 (length (Jm m)))) by (rewrite seq_length; reflexivity).
  rewrite map_app. rewrite combine_app by (rewrite map_length, combine_length, seq_length; lia).
  rewrite IHm by lia. f_equal.
  replace (d - S m)%nat with (d - 1 - m)%nat by lia.
  apply block_eq. intros u Hu. apply kf_block. lia.
Qed.
End Idx.

Theorem ggm_pairs_src_eq d : ggm_pairs_src d = ggm_pairs d.
Proof.
  destruct d as [|d']. reflexivity.
  set (d := S d').
  assert (EJ : ggm_j_src d = Jm d (d - 1)) by reflexivity.
  assert (EL : (d * (d - 1) / 2 = length (Jm d (d - 1)))%nat).
  { pose proof (Jm_length d (d - 1) ltac:(lia)) as H.
    symmetry. apply Nat.div_unique_exact; [lia|]. replace (d - 1)%nat with d' in * by (unfold d; lia). unfold d in *. nia. }
  unfold ggm_pairs_src, ggm_k_src. rewrite EJ, EL.
  change (fun tj : nat * nat => (fst tj - snd tj * (2 * d - snd tj - 3) / 2)%nat) with (kf d).
  rewrite (prefix_eq d (d - 1)) by lia.
  (* the model's list: blocks j = 0 .. d-1, the last one empty *)
  unfold ggm_pairs.
  replace (build d (fun j => map (fun k => (j, k)) (filter (Nat.ltb j) (seq 0 d))))
    with (build d (fun j => map (fun k => (j, k)) (seq (S j) (d - S j)))).
  2:{ unfold build. apply map_ext_in. intros j Hj. apply in_seq in Hj. rewrite filter_ltb_seq by lia. reflexivity. }
  change (concat (build d (fun j => map (fun k => (j, k)) (seq (S j) (d - S j))))) with (Pm d d).
  assert (E : Pm d d = Pm d (S (d - 1))) by (f_equal; unfold d; lia).
  rewrite E, Pm_S. replace (d - S (d - 1))%nat with 0%nat by (unfold d; lia). simpl. rewrite app_nil_r. reflexivity.
Qed.
