(* Semantic tie of numeric.calculate_cumulant_function, general branch (C09): the terms translated from the current Python
   source by tools/kernel_extract.py (Extracted/Kernels.v) equal cumulant_general_fn of Model/Cumulant.v. *)
From Coq Require Import ZArith Reals Lra Lia List.
From FF Require Import Base.Ops Inst.RInst Base.RAlg Model.Numeric Model.Decay Model.Cumulant Extracted.Kernels.
Import ListNotations.
Local Open Scope R_scope.

Example kernels_translated_C09 : kernel_untranslated_C09 = nil.
Proof. reflexivity. Qed.

(* oe.contract('...kl,<pqrs>->...ij', G, traces) with G real: real and imaginary part as the translator writes them *)
Lemma contract_re n (G : RM (T:=R)) (f : nat -> nat -> Cx) :
  fst (contract RO n G f) = sumn RO n (fun k => sumn RO n (fun l =>
    osub RO (omul RO (rmget RO G k l) (fst (f k l))) (omul RO (o0 RO) (snd (f k l))))).
Proof.
  unfold contract. rewrite csumn_re. apply sumn_ext; intros k _. rewrite csumn_re. apply sumn_ext; intros l _. csimp. ring.
Qed.

(* second_order = False: -( +'..kl,klji' - '..kl,kjli' - '..kl,kilj' + '..kl,kijl')/2, real part, for every pair of leading indices *)
Theorem cumulant_general_is_source n (Tr : nat -> nat -> nat -> nat -> Cx) (G D : RM (T:=R)) a b i j :
  cumulant_general_fn RO n Tr false G D i j =
  cumulant_general_src RO n (fun _ _ k l => rmget RO G k l) Tr a b i j.
Proof.
  unfold cumulant_general_fn, K1_entry, half, cre, cneg, cdivr, cadd, csub. cbn [fst snd].
  rewrite !contract_re. unfold cumulant_general_src. cbv beta. simpl. field.
Qed.

(* second_order = True: the frequency-shift contractions ( +'klji' - 'lkji' - 'klij' + 'lkij')/2 are subtracted *)
Theorem cumulant_general2_is_source n (Tr : nat -> nat -> nat -> nat -> Cx) (G D : RM (T:=R)) a b i j :
  cumulant_general_fn RO n Tr true G D i j =
  cumulant_general2_src RO n (fun _ _ k l => rmget RO G k l) (fun _ _ k l => rmget RO D k l) Tr a b i j.
Proof.
  unfold cumulant_general_fn, K1_entry, K2_entry, half, cre, cneg, cdivr, cadd, csub. cbn [fst snd].
  rewrite !contract_re. unfold cumulant_general2_src. cbv beta. simpl. field.
Qed.
