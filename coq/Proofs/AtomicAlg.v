(* Algebra behind the concatenation rule (real instance): setoid structure of [feq], linear
   combinations of matrices, the basis-change invariant
       Q C_k Q^dagger = sum_l L[l][k] C_l
   maintained by  L <- Liouville(P) @ L  when  Q <- P Q, for a complete Hermitian basis.        *)
From Coq Require Import ZArith Reals List Lra Lia Setoid Morphisms.
From FF Require Import Base.Ops Inst.RInst Base.RAlg Model.Numeric Model.Atomic.
Import ListNotations.
Local Open Scope R_scope.

(* ---------- feq as a setoid, operations as morphisms ---------- *)
Add Parametric Relation (d : nat) : fmat (feq d)
  reflexivity proved by (feq_refl d) symmetry proved by (feq_sym d) transitivity proved by (feq_trans d) as feq_rel.
Add Parametric Morphism (d : nat) : (fmul d) with signature (feq d) ==> (feq d) ==> (feq d) as fmul_mor.
Proof. intros; apply fmul_ext; auto. Qed.
Lemma fadj_ext d A B : feq d A B -> feq d (fadj A) (fadj B).
Proof. intros H i j Hi Hj. unfold fadj. rewrite H; auto. Qed.
Add Parametric Morphism (d : nat) : fadj with signature (feq d) ==> (feq d) as fadj_mor.
Proof. intros; apply fadj_ext; auto. Qed.
Add Parametric Morphism (d : nat) : (ftr d) with signature (feq d) ==> eq as ftr_mor.
Proof. intros; apply ftr_ext; auto. Qed.
Lemma fadj_invol_feq d A : feq d (fadj (fadj A)) A.
Proof. intros i j _ _. apply fadj_invol. Qed.

(* U^dagger A U *)
Definition ftbu (d : nat) (U A : fmat) : fmat := fmul d (fadj U) (fmul d A U).
Add Parametric Morphism (d : nat) : (ftbu d) with signature (feq d) ==> (feq d) ==> (feq d) as ftbu_mor.
Proof. intros U U' HU A A' HA. unfold ftbu. rewrite HU, HA. reflexivity. Qed.
Lemma toF_tbu d U A : feq d (toF (transform_by_unitary RO d U A)) (ftbu d (toF U) (toF A)).
Proof.
  unfold transform_by_unitary, ftbu.
  rewrite toF_mmul. rewrite toF_madj. rewrite toF_mmul. reflexivity.
Qed.

(* (Qc^dagger W)^dagger C (Qc^dagger W) = W^dagger (Qc C Qc^dagger) W *)
Lemma ftbu_shift d Qc W Cm :
  feq d (ftbu d (fmul d (fadj Qc) W) Cm) (ftbu d W (fmul d Qc (fmul d Cm (fadj Qc)))).
Proof.
  unfold ftbu. rewrite fadj_mul. rewrite fadj_invol_feq.
  repeat rewrite fmul_assoc. reflexivity.
Qed.
(* (P Q) C (P Q)^dagger = P (Q C Q^dagger) P^dagger *)
Lemma conj_mul_split d P Q Cm :
  feq d (fmul d (fmul d P Q) (fmul d Cm (fadj (fmul d P Q)))) (fmul d P (fmul d (fmul d Q (fmul d Cm (fadj Q))) (fadj P))).
Proof. rewrite fadj_mul. repeat rewrite fmul_assoc. reflexivity. Qed.

(* ---------- linear combinations ---------- *)
Definition flin (n : nat) (c : nat -> Cx) (F : nat -> fmat) : fmat :=
  fun i j => csumn' n (fun l => cmul' (c l) (F l i j)).
Lemma flin_ext d n c c' F F' : (forall l, (l < n)%nat -> c l = c' l) -> (forall l, (l < n)%nat -> feq d (F l) (F' l)) ->
  feq d (flin n c F) (flin n c' F').
Proof. intros Hc HF i j Hi Hj. unfold flin. apply csumn_ext. intros l Hl. rewrite Hc, HF; auto. Qed.
Lemma fmul_flin_r d n c F A : feq d (fmul d A (flin n c F)) (flin n c (fun l => fmul d A (F l))).
Proof.
  intros i j _ _. unfold fmul, flin.
  rewrite (csumn_ext d _ (fun k => csumn' n (fun l => cmul' (c l) (cmul' (A i k) (F l k j))))).
  2:{ intros k _. rewrite <- csumn_mul_l. apply csumn_ext. intros l _. ring. }
  rewrite csumn_swap. apply csumn_ext. intros l _. rewrite <- csumn_mul_l. reflexivity.
Qed.
Lemma fmul_flin_l d n c F A : feq d (fmul d (flin n c F) A) (flin n c (fun l => fmul d (F l) A)).
Proof.
  intros i j _ _. unfold fmul, flin.
  rewrite (csumn_ext d _ (fun k => csumn' n (fun l => cmul' (c l) (cmul' (F l i k) (A k j))))).
  2:{ intros k _. rewrite <- csumn_mul_r. apply csumn_ext. intros l _. ring. }
  rewrite csumn_swap. apply csumn_ext. intros l _. rewrite <- csumn_mul_l. reflexivity.
Qed.
Lemma ftbu_flin d n c F W : feq d (ftbu d W (flin n c F)) (flin n c (fun l => ftbu d W (F l))).
Proof. unfold ftbu. rewrite fmul_flin_l. rewrite fmul_flin_r. reflexivity. Qed.
(* a combination of combinations *)
Lemma flin_flin d n m (c : nat -> Cx) (e : nat -> nat -> Cx) (F : nat -> fmat) :
  feq d (flin n c (fun j => flin m (fun l => e l j) F)) (flin m (fun l => csumn' n (fun j => cmul' (e l j) (c j))) F).
Proof.
  intros i j _ _. unfold flin.
  rewrite (csumn_ext n _ (fun q => csumn' m (fun l => cmul' (cmul' (e l q) (c q)) (F l i j)))).
  2:{ intros q _. rewrite <- csumn_mul_l. apply csumn_ext. intros l _. ring. }
  rewrite csumn_swap. apply csumn_ext. intros l _. rewrite <- csumn_mul_r. reflexivity.
Qed.

(* ---------- traces of Hermitian products are real ---------- *)
Lemma fherm_ftbu d U A : fherm d A -> fherm d (ftbu d U A).
Proof.
  unfold fherm, ftbu. intros H. rewrite fadj_mul. rewrite fadj_mul. rewrite fadj_invol_feq. rewrite H.
  rewrite fmul_assoc. reflexivity.
Qed.
Lemma ftr_herm_real d A B : fherm d A -> fherm d B -> snd (ftr d (fmul d A B)) = 0.
Proof.
  unfold fherm. intros HA HB.
  assert (E : cconj' (ftr d (fmul d A B)) = ftr d (fmul d A B)).
  { rewrite <- ftr_adj. rewrite fadj_mul. rewrite HA, HB. apply ftr_cyclic. }
  destruct (ftr d (fmul d A B)) as [x y]. unfold cconj in E. simpl in *. inversion E. lra.
Qed.
Lemma cofr_fst (z : Cx) : snd z = 0 -> cofr RO (fst z) = z.
Proof. destruct z; simpl; intros ->. reflexivity. Qed.
Lemma cofr_sumn n (f : nat -> R) : cofr RO (sumn' n f) = csumn' n (fun k => cofr RO (f k)).
Proof. induction n; simpl. reflexivity. rewrite <- IHn. apply c_eq; csimp; ring. Qed.
Lemma cscal_cofr (x : R) (z : Cx) : cscal RO x z = cmul' (cofr RO x) z.
Proof. apply c_eq; csimp; ring. Qed.

(* ---------- real matrices as lists ---------- *)
Lemma rget_build n (f : nat -> nat -> R) i j : (i < n)%nat -> (j < n)%nat ->
  rget RO (build n (fun i => build n (f i))) i j = f i j.
Proof.
  intros Hi Hj. unfold rget, vg, vget, nthv. rewrite nth_build by auto. rewrite nth_build by auto. reflexivity.
Qed.
Lemma rget_rmatmul n A B i j : (i < n)%nat -> (j < n)%nat ->
  rget RO (rmatmul RO n A B) i j = sumn' n (fun k => rget RO A i k * rget RO B k j).
Proof. intros. unfold rmatmul. rewrite rget_build; auto. Qed.
Lemma rget_rident n i j : (i < n)%nat -> (j < n)%nat ->
  rget RO (rident RO n) i j = if Nat.eqb i j then 1 else 0.
Proof. intros. unfold rident. rewrite (rget_build n (fun i j => if Nat.eqb i j then o1 RO else o0 RO)); auto. Qed.

(* ---------- the invariant ---------- *)
Section Basis.
Variable d : nat.
Variable bs : list (Mat (T:=R)).
Let nk := length bs.
Definition Cf (l : nat) : fmat := toF (nth l bs []).
Hypothesis Hherm : forall l, (l < nk)%nat -> fherm d (Cf l).
(* completeness of the (orthonormal) basis: X = sum_l tr(C_l X) C_l for every X *)
Hypothesis Hcomplete : forall X : fmat, feq d X (flin nk (fun l => ftr d (fmul d (Cf l) X)) Cf).

Definition Inv (Qf : fmat) (L : list (list R)) : Prop :=
  forall k, (k < nk)%nat ->
    feq d (fmul d Qf (fmul d (Cf k) (fadj Qf))) (flin nk (fun l => cofr RO (rget RO L l k)) Cf).

Lemma Inv_ext Qf Qf' L : feq d Qf Qf' -> Inv Qf L -> Inv Qf' L.
Proof. intros H HI k Hk. rewrite <- H. apply HI; auto. Qed.

Lemma Inv_init : Inv fid (rident RO nk).
Proof.
  intros k Hk. rewrite fadj_id. rewrite fmul_id_r. rewrite fmul_id_l.
  intros i j Hi Hj. unfold flin.
  rewrite (csumn_ext nk _ (fun l => if Nat.eqb l k then Cf l i j else 0c)).
  - symmetry. apply (csumn_delta' nk k (fun l => Cf l i j)); auto.
  - intros l Hl. rewrite rget_rident by auto. destruct (Nat.eqb l k); apply c_eq; csimp; ring.
Qed.

(* entries of the model's Liouville representation *)
Lemma liouville_entry (P : Mat (T:=R)) l j : (l < nk)%nat -> (j < nk)%nat ->
  rget RO (liouville RO d P bs) l j = fst (ftr d (fmul d (ftbu d (toF P) (Cf l)) (Cf j))).
Proof.
  intros Hl Hj. unfold liouville. fold nk.
  rewrite (rget_build nk (fun i j => fst (mtrprod RO d (nthm (map (fun Ci => transform_by_unitary RO d P Ci) bs) i) (nthm bs j)))) by auto.
  rewrite mtrprod_ftr. f_equal.
  unfold nthm. rewrite (nth_indep _ [] (transform_by_unitary RO d P [])) by (rewrite map_length; exact Hl).
  rewrite (map_nth (fun Ci => transform_by_unitary RO d P Ci)).
  rewrite toF_tbu. reflexivity.
Qed.
Lemma liouville_real (P : Mat (T:=R)) l j : (l < nk)%nat -> (j < nk)%nat ->
  cofr RO (rget RO (liouville RO d P bs) l j) = ftr d (fmul d (Cf l) (fmul d (toF P) (fmul d (Cf j) (fadj (toF P))))).
Proof.
  intros Hl Hj. rewrite liouville_entry by auto.
  rewrite cofr_fst.
  - unfold ftbu. (* tr(P^dagger C_l P C_j) = tr(C_l P C_j P^dagger) *)
    rewrite <- fmul_assoc. rewrite ftr_cyclic. repeat rewrite <- fmul_assoc. reflexivity.
  - apply ftr_herm_real. apply fherm_ftbu. apply Hherm; auto. apply Hherm; auto.
Qed.

(* Q <- P Q,  L <- Liouville(P) @ L *)
Lemma Inv_step (P : Mat (T:=R)) Qf L : Inv Qf L -> Inv (fmul d (toF P) Qf) (rmatmul RO nk (liouville RO d P bs) L).
Proof.
  intros HI k Hk.
  rewrite conj_mul_split. rewrite (HI k Hk).
  rewrite fmul_flin_l. rewrite fmul_flin_r.
  (* each P C_j P^dagger expanded in the basis *)
  rewrite (flin_ext d nk _ (fun j => cofr RO (rget RO L j k)) _
             (fun j => flin nk (fun l => cofr RO (rget RO (liouville RO d P bs) l j)) Cf)).
  3:{ intros j Hj. rewrite (Hcomplete (fmul d (toF P) (fmul d (Cf j) (fadj (toF P))))).
      apply flin_ext. intros l Hl. rewrite liouville_real by auto. reflexivity. intros; reflexivity. }
  2:{ intros; reflexivity. }
  rewrite flin_flin. apply flin_ext; [|intros; reflexivity].
  intros l Hl. rewrite rget_rmatmul by auto. rewrite cofr_sumn. apply csumn_ext. intros j Hj.
  apply c_eq; csimp; ring.
Qed.
End Basis.
