(* C05: assembly of the cached control matrix / filter function in extend, the index map of
   equivalent_pauli_basis_elements, and the refutation of the pre-fix (block-diagonal) filling.  *)
From Coq Require Import String ZArith Reals List Lra Lia Arith Bool Permutation.
From FF Require Import Base.Ops Inst.RInst Base.RAlg Spec.Kron2 Spec.DigitPerm Model.Numeric Model.Remap Model.Extend
     Proofs.RemapIdx Proofs.RemapCov Proofs.ExtendKron.
Import ListNotations.
Local Open Scope nat_scope.

Definition a3eq_cm (n1 n2 n3 : nat) (X Y : Arr3 (T:=R)) : Prop :=
  forall a k o, a < n1 -> k < n2 -> o < n3 -> a3get RO X a k o = a3get RO Y a k o.

(* ---------- the cached filter function is sum_k conj(B_ak) B_bk of the assembled control matrix ---------- *)
Theorem ff_from_cm nrows K no bs a b o : a < nrows -> b < nrows -> o < no ->
  a3get RO (assemble_ff RO nrows K no bs) a b o =
  csumn' K (fun k => cmul' (cconj' (a3get RO (assemble_cm RO nrows K no bs) a k o))
                           (a3get RO (assemble_cm RO nrows K no bs) b k o)).
Proof. intros. unfold assemble_ff, Numeric.filter_function. rewrite a3get_a3build by auto. reflexivity. Qed.

(* entries of the assembled control matrix *)
Lemma assemble_cm_get nrows K no bs a k o : a < nrows -> k < K -> o < no ->
  a3get RO (assemble_cm RO nrows K no bs) a k o =
    match find_block bs a with
    | Some (bidx, row0, nn, sc, Bj) =>
        if memb k bidx then cscal RO sc (a3get RO Bj (a - row0) (index_of k bidx) o) else 0c
    | None => 0c
    end.
Proof. intros. unfold assemble_cm. rewrite a3get_a3build by auto. reflexivity. Qed.

(* ---------- pre-fix filling refuted: two qubits, one non-traceless noise operator on each ---------- *)
(* control matrices of the two single-qubit pulses: only the identity component, value 1 (e.g. B = 1/sqrt2 * 1 idle) *)
Definition wB : Arr3 (T:=R) := [[[1c]; [0c]; [0c]; [0c]]].
Definition wF : Arr3 (T:=R) := [[[1c]]].
Definition w_blocks : list (cmblock (T:=R)) :=
  [ (equiv_idx [0] 2, 0, 1, sqrt 2, wB); (equiv_idx [1] 2, 1, 1, sqrt 2, wB) ].
Definition w_prefix : list (nat * nat * R * Arr3 (T:=R)) := [ (0, 1, 2%R, wF); (1, 1, 2%R, wF) ].

Lemma w_cm_row a k : a < 2 -> k < 16 ->
  a3get RO (assemble_cm RO 2 16 1 w_blocks) a k 0 = if Nat.eqb k 0 then (sqrt 2, 0%R) else 0c.
Proof.
  intros Ha Hk. rewrite assemble_cm_get by lia.
  destruct a as [|[|a]]; [| |lia];
  do 16 (destruct k as [|k]; [vm_compute; try reflexivity; apply c_eq; simpl; ring|]); lia.
Qed.

Theorem prefix_refuted :
  a3get RO (assemble_ff RO 2 16 1 w_blocks) 0 1 0 = (2%R, 0%R) /\
  a3get RO (prefix_ff RO 2 1 w_prefix) 0 1 0 = 0c /\
  a3get RO (assemble_ff RO 2 16 1 w_blocks) 0 1 0 <> a3get RO (prefix_ff RO 2 1 w_prefix) 0 1 0.
Proof.
  assert (E1 : a3get RO (assemble_ff RO 2 16 1 w_blocks) 0 1 0 = (2%R, 0%R)).
  { rewrite ff_from_cm by lia.
    rewrite (csumn_ext 16 _ (fun k => if Nat.eqb 0 k then (2%R, 0%R) else 0c)).
    apply (csumn_delta 16 0 (fun _ => (2%R, 0%R))). lia.
    intros k Hk. rewrite !w_cm_row by lia. rewrite (Nat.eqb_sym k 0).
    destruct (Nat.eqb 0 k).
    - pose proof (sqrt_sqrt 2 ltac:(lra)) as Hs. apply c_eq; csimp; [nra | ring].
    - apply c_eq; csimp; ring. }
  assert (E2 : a3get RO (prefix_ff RO 2 1 w_prefix) 0 1 0 = 0c).
  { unfold prefix_ff. rewrite a3get_a3build by lia. reflexivity. }
  split; [exact E1|]. split; [exact E2|]. rewrite E1, E2. intros H. injection H. intros. lra.
Qed.

(* ---------- equivalent_pauli_basis_elements ---------- *)
Lemma spread_length N pos ind ds : length (spread N pos ind ds) = N.
Proof. revert pos ds. induction N; intros pos ds; simpl; auto. destruct (memb pos ind); [destruct ds|]; simpl; rewrite IHN; auto. Qed.
Lemma spread_lt N pos ind ds d : 0 < d -> Forall (fun x => x < d) ds -> Forall (fun x => x < d) (spread N pos ind ds).
Proof.
  intros Hd. revert pos ds. induction N; intros pos ds Hds; simpl. constructor.
  destruct (memb pos ind).
  - destruct ds as [|x ds].
    + constructor; auto.
    + inversion Hds; subst. constructor; auto.
  - constructor; auto.
Qed.
(* the N-qubit Pauli element with index equiv_idx[k] has the digits of k on the active qubits and 0 (identity) elsewhere *)
Theorem equiv_idx_digits ind N k :
  let m := length (filter (fun i => memb i ind) (seq 0 N)) in
  k < 4 ^ m ->
  digits 4 N (nth k (equiv_idx ind N) 0) = spread N 0 ind (digits 4 m k).
Proof.
  intros m Hk. unfold equiv_idx. fold m. rewrite build_nth by auto.
  rewrite <- (spread_length N 0 ind (digits 4 m k)) at 1.
  apply digits_undigits. lia. apply spread_lt. lia. apply digits_lt; auto.
Qed.
(* positions outside ind carry the digit 0 *)
Lemma spread_inactive N pos ind ds q : q < N -> memb (pos + q) ind = false -> nth q (spread N pos ind ds) 0 = 0.
Proof.
  revert pos ds q. induction N; intros pos ds q Hq Hm. lia. simpl.
  destruct q.
  - rewrite Nat.add_0_r in Hm. rewrite Hm. reflexivity.
  - destruct (memb pos ind); [destruct ds|]; simpl; apply IHN; try lia; rewrite <- Hm; f_equal; lia.
Qed.

(* ---------- the assembled rows of the first block are the from-scratch control matrix (two blocks) ---------- *)
Section FirstBlock.
Variables (d1 d2 K1 K2 na nrows : nat).
Variables (basis1 basis2 basis ns1 ns : list (Mat (T:=R))).
Hypothesis HK1 : length basis1 = K1.
Hypothesis HK : length basis = K1 * K2.
Hypothesis Hbasis : forall k l, k < K1 -> l < K2 -> krel d1 d2 (nthm basis1 k) (nthm basis2 l) (nthm basis (k * K2 + l)).
Hypothesis Hn1 : length ns1 = na.
Hypothesis Hn : length ns = na.
Hypothesis Hns : forall a, a < na -> krel d1 d2 (nthm ns1 a) (mid RO d2) (nthm ns a).
Hypothesis Honb : forall l m, l < K2 -> m < K2 ->
  mtrprod RO d2 (madj RO d2 (nthm basis2 l)) (nthm basis2 m) = if Nat.eqb l m then 1c else 0c.
Hypothesis Hd2 : 0 < d2.
Hypothesis HK2 : 0 < K2.
Hypothesis HD0 : feq d2 (toF (nthm basis2 0)) (fscal (cofr RO (Rinv (sqrt (INR d2)))) fid).
Hypothesis Hrows : na <= nrows.

Lemma memb_build_mul k l : k < K1 -> l < K2 -> memb (k * K2 + l) (build K1 (fun x => x * K2)) = Nat.eqb l 0.
Proof.
  intros Hk Hl. unfold memb. destruct (Nat.eqb_spec l 0) as [->|Hne].
  - apply existsb_exists. exists (k * K2). split. unfold build. apply in_map_iff. exists k. split; auto. apply in_seq; lia.
    apply Nat.eqb_eq. lia.
  - apply Bool.not_true_is_false. intros H. apply existsb_exists in H. destruct H as [x [Hx E]].
    apply Nat.eqb_eq in E. unfold build in Hx. apply in_map_iff in Hx. destruct Hx as [y [<- _]].
    assert ((k * K2 + l) mod K2 = (y * K2) mod K2) by (rewrite E; auto).
    rewrite Nat.mod_mul in H by lia. rewrite Nat.add_comm, Nat.mod_add in H by lia. rewrite Nat.mod_small in H; lia.
Qed.
Lemma index_of_build_mul k : k < K1 -> index_of (k * K2) (build K1 (fun x => x * K2)) = k.
Proof.
  intros Hk.
  assert (E : k * K2 = nth k (build K1 (fun x => x * K2)) 0) by (rewrite build_nth; auto).
  rewrite E at 1. apply index_of_nth. 2: rewrite build_len; auto.
  unfold build. apply FinFun.Injective_map_NoDup. intros x y Hxy. nia. apply seq_NoDup.
Qed.

(* extend: rows [0, na) of the assembled control matrix (first pulse on the leading tensor factor, indices
   k*K2 of its basis elements, scaling sqrt(d2)) equal the control matrix of the product pulse computed from scratch *)
Theorem assembled_first_block thr evs1 evs2 evs Vs1 Vs2 Vs omega nc dts B1 rest :
  Forall3 (evrel d1 d2) evs1 evs2 evs -> Forall3 (krel d1 d2) Vs1 Vs2 Vs ->
  Forall (fun V => funitary d2 (toF V)) Vs2 ->
  a3eq_cm na K1 (length omega) B1
    (control_matrix_from_scratch RO d1 thr evs1 Vs1 (Numeric.propagators RO d1 evs1 Vs1 dts) omega basis1 ns1 nc dts (times RO dts)) ->
  forall a k l o, a < na -> k < K1 -> l < K2 -> o < length omega ->
  a3get RO (assemble_cm RO nrows (K1 * K2) (length omega)
              ((build K1 (fun x => x * K2), 0, na, sqrt (INR d2), B1) :: rest)) a (k * K2 + l) o =
  a3get RO (control_matrix_from_scratch RO (d1 * d2) thr evs Vs (Numeric.propagators RO (d1 * d2) evs Vs dts) omega basis ns nc dts (times RO dts))
        a (k * K2 + l) o.
Proof.
  intros He HV UV HB a k l o Ha Hk Hl Ho.
  assert (Hkl : k * K2 + l < K1 * K2) by (apply pair_lt_prod; auto).
  rewrite assemble_cm_get by (auto; lia). simpl find_block.
  destruct (Nat.ltb_spec a na); [|lia].
  rewrite memb_build_mul by auto.
  rewrite (cm_embed d1 d2 K1 K2 na basis1 basis2 basis ns1 ns HK1 HK Hbasis Hn1 Hn Hns Honb Hd2 HK2 HD0
             thr evs1 evs2 evs Vs1 Vs2 Vs omega nc dts He HV UV a k l o Ha Hk Hl Ho).
  destruct (Nat.eqb_spec l 0) as [->|]; auto.
  rewrite Nat.add_0_r, index_of_build_mul, Nat.sub_0_r by auto.
  rewrite (HB a k o Ha Hk Ho). apply c_eq; csimp; ring.
Qed.
End FirstBlock.
