(* Closed forms of the decoupling filter functions (analytic.py, machine-translated in
   Extracted/Analytic.v) against the specification Spec/DD.v, for every order / level. *)
From Coq Require Import ZArith Reals List Lra Lia Ring.
From FF Require Import Base.Ops Inst.RInst Base.RAlg Spec.DDBase Spec.DD Extracted.Analytic.
Import ListNotations.
Local Open Scope R_scope.

(* ------------------------------------------------------------------ complex helpers *)
Lemma cabs2_mul (a b : Cx) : cabs2 RO (cmul' a b) = cabs2 RO a * cabs2 RO b.
Proof. csimp. ring. Qed.
Lemma cabs2_neg (a : Cx) : cabs2 RO (cneg' a) = cabs2 RO a.
Proof. csimp. ring. Qed.
Lemma cabs2_conj (a : Cx) : cabs2 RO (cconj' a) = cabs2 RO a.
Proof. csimp. ring. Qed.
Lemma cscal_mul (x : R) (a : Cx) : cscal RO x a = cmul' (cofr RO x) a.
Proof. cring. Qed.
Lemma cofr_mul x y : cofr RO (x * y) = cmul' (cofr RO x) (cofr RO y).
Proof. cring. Qed.
Lemma cofr_1 : cofr RO 1 = 1c. Proof. reflexivity. Qed.
Lemma cofr_m1 : cofr RO (-1) = cneg' 1c. Proof. cring. Qed.
Lemma cofr_opp x : cofr RO (- x) = cneg' (cofr RO x). Proof. cring. Qed.

Lemma cos_half x : cos x = 1 - 2 * (sin (x/2))^2.
Proof. replace x with (2 * (x/2)) at 1 by field. rewrite cos_2a_sin. simpl. ring. Qed.
Lemma cos_half' x : cos x = 2 * (cos (x/2))^2 - 1.
Proof. replace x with (2 * (x/2)) at 1 by field. rewrite cos_2a_cos. simpl. ring. Qed.
Lemma sin2_cos2' x : (sin x)^2 + (cos x)^2 = 1.
Proof. generalize (sin2_cos2 x). unfold Rsqr. simpl. lra. Qed.

(* |1 - e^{ix}|^2 = 4 sin^2(x/2),  |1 + e^{ix}|^2 = 4 cos^2(x/2) *)
Lemma cabs2_1m x : cabs2 RO (csub' 1c (cexp' x)) = 4 * (sin (x/2))^2.
Proof. csimp. generalize (sin2_cos2' x). rewrite (cos_half x). simpl. nra. Qed.
Lemma cabs2_1p x : cabs2 RO (cadd' 1c (cexp' x)) = 4 * (cos (x/2))^2.
Proof. csimp. generalize (sin2_cos2' x). rewrite (cos_half' x). simpl. nra. Qed.

(* ------------------------------------------------------------------ pulse form of y *)
(* alternating sum over the pulses *)
Fixpoint alt (z s : R) (ts : list R) : Cx :=
  match ts with [] => 0c | t :: r => cadd' (cscal RO s (ez z t)) (alt z (- s) r) end.

Lemma dd_sum_pulse z s prev ts :
  dd_sum z s prev ts =
  cadd' (cadd' (cscal RO (- s) (ez z prev)) (cscal RO 2 (alt z s ts)))
        (cscal RO (s * (-1) ^ length ts) (ez z 1)).
Proof.
  revert s prev. induction ts as [|t r IH]; intros s prev; simpl.
  - cring.
  - rewrite IH. apply c_eq; csimp; ring.
Qed.

(* y = -1 + 2 sum_k (-1)^(k-1) e^{i z delta_k} + (-1)^n e^{iz} *)
Lemma dd_y_pulse ts z :
  dd_y ts z = cadd' (cadd' (cneg' 1c) (cscal RO 2 (alt z 1 ts))) (cscal RO ((-1) ^ length ts) (ez z 1)).
Proof.
  unfold dd_y. rewrite dd_sum_pulse. unfold ez. rewrite Rmult_0_r, cexp_0.
  apply c_eq; csimp; ring.
Qed.

Lemma alt_app z s a b : alt z s (a ++ b) = cadd' (alt z s a) (alt z (s * (-1) ^ length a) b).
Proof.
  revert s. induction a as [|t r IH]; intros s; simpl.
  - rewrite Rmult_1_r. ring.
  - rewrite IH. replace (- s * (-1) ^ length r) with (s * (-1 * (-1) ^ length r)) by ring. ring.
Qed.

Lemma alt_scal z s ts : alt z s ts = cscal RO s (alt z 1 ts).
Proof.
  revert s. induction ts as [|t r IH]; intros s; simpl.
  - cring.
  - rewrite (IH (- s)), (IH (Ropp 1)). apply c_eq; csimp; ring.
Qed.

(* csumn adds at the end; lists recurse at the head *)
Lemma csumn_shift n (f : nat -> Cx) : csumn' (S n) f = cadd' (f O) (csumn' n (fun k => f (S k))).
Proof.
  induction n. simpl. ring.
  rewrite csumn_S, IHn. simpl. ring.
Qed.

Lemma alt_fam z s (f : nat -> R) a n :
  alt z s (map f (seq a n)) = csumn' n (fun k => cscal RO (s * (-1) ^ k) (ez z (f (a + k)%nat))).
Proof.
  revert a s. induction n; intros a s. reflexivity.
  rewrite csumn_shift. simpl seq. simpl map. simpl alt. rewrite IHn.
  rewrite Nat.add_0_r. f_equal. apply c_eq; csimp; ring.
  apply csumn_ext. intros k _. rewrite Nat.add_succ_r. simpl plus.
  apply c_eq; csimp; ring.
Qed.

Lemma fam_length n f : length (fam n f) = n.
Proof. unfold fam. rewrite map_length, seq_length. reflexivity. Qed.

(* ------------------------------------------------------------------ FID, SE *)
Lemma fid_closed z : dd_F fid_times z = FID z.
Proof.
  unfold dd_F, fid_times, dd_y, FID. simpl dd_sum. unfold ez.
  rewrite Rmult_0_r, Rmult_1_r, cexp_0.
  replace (cscal RO 1 (csub' (cexp' z) 1c)) with (cneg' (csub' 1c (cexp' z))) by cring.
  rewrite cabs2_neg, cabs2_1m. simpl. field.
Qed.

Lemma se_closed z : dd_F se_times z = SE z.
Proof.
  unfold dd_F, se_times. rewrite dd_y_pulse. simpl alt. simpl length. unfold ez, SE.
  rewrite Rmult_1_r.
  replace (cexp' z) with (cmul' (cexp' (z * (1/2))) (cexp' (z * (1/2)))).
  2:{ rewrite <- cexp_add. f_equal. field. }
  set (p := cexp' (z * (1/2))).
  replace (cadd' (cadd' (cneg' 1c) (cscal RO 2 (cadd' (cscal RO 1 p) 0c))) (cscal RO ((-1) ^ 1) (cmul' p p)))
    with (cneg' (cmul' (csub' 1c p) (csub' 1c p))) by (apply c_eq; csimp; ring).
  rewrite cabs2_neg, cabs2_mul. unfold p. rewrite cabs2_1m.
  replace (z * (1/2) / 2) with (z / 4) by field. simpl. field.
Qed.

(* ------------------------------------------------------------------ geometric sums *)
(* (-q)^k with q = e^{i th} *)
Definition mq (th : R) (k : nat) : Cx := cscal RO ((-1) ^ k) (cexp' (INR k * th)).

Lemma mq_0 th : mq th 0 = 1c.
Proof. unfold mq. simpl. rewrite Rmult_0_l, cexp_0. cring. Qed.
Lemma mq_S th k : mq th (S k) = cneg' (cmul' (cexp' th) (mq th k)).
Proof.
  unfold mq. rewrite S_INR, Rmult_plus_distr_r, Rmult_1_l, cexp_add.
  apply c_eq; csimp; ring.
Qed.
Lemma geom th n : cmul' (cadd' 1c (cexp' th)) (csumn' n (mq th)) = csub' 1c (mq th n).
Proof.
  induction n.
  - rewrite mq_0. simpl. ring.
  - rewrite csumn_S, cmul_add_distr_l, IHn, mq_S. ring.
Qed.

Lemma Zeven_of_nat n : Z.even (Z.of_nat n) = Nat.even n.
Proof.
  destruct (Nat.Even_or_Odd n) as [[m ->]|[m ->]].
  - rewrite Nat2Z.inj_mul, Z.even_mul, Nat.even_mul. reflexivity.
  - rewrite Nat2Z.inj_add, Nat2Z.inj_mul, Z.even_add, Z.even_mul, Nat.even_add, Nat.even_mul. reflexivity.
Qed.
Lemma pow_m1_even n : Nat.even n = true -> (-1) ^ n = 1.
Proof. intros H. apply Nat.even_spec in H. destruct H as [m ->]. rewrite pow_1_even. reflexivity. Qed.
Lemma pow_m1_odd n : Nat.even n = false -> (-1) ^ n = -1.
Proof.
  intros H. assert (Ho : Nat.odd n = true) by (rewrite <- Nat.negb_even, H; reflexivity).
  apply Nat.odd_spec in Ho. destruct Ho as [m ->].
  replace (2 * m + 1)%nat with (S (2 * m)) by lia. rewrite pow_1_odd. reflexivity.
Qed.

Lemma cabs2_1m_mq th m :
  cabs2 RO (csub' 1c (mq th m)) =
  if Nat.even m then 4 * (sin (INR m * th / 2)) ^ 2 else 4 * (cos (INR m * th / 2)) ^ 2.
Proof.
  unfold mq. destruct (Nat.even m) eqn:E.
  - rewrite (pow_m1_even _ E). rewrite <- cabs2_1m. f_equal. cring.
  - rewrite (pow_m1_odd _ E). rewrite <- cabs2_1p. f_equal. cring.
Qed.

Lemma IZR_of_nat n : IZR (Z.of_nat n) = INR n.
Proof. symmetry. apply INR_IZR_INZ. Qed.

Lemma INR_p1_neq n : INR n + 1 <> 0.
Proof. generalize (pos_INR n). lra. Qed.

(* ------------------------------------------------------------------ PDD *)
Lemma pdd_y n z : let th := z / (INR n + 1) in
  cmul' (cadd' 1c (cexp' th)) (dd_y (pdd_times n) z) =
  cmul' (cneg' (csub' 1c (cexp' th))) (csub' 1c (mq th (S n))).
Proof.
  intros th. rewrite dd_y_pulse. unfold pdd_times. rewrite fam_length. unfold fam. rewrite alt_fam.
  rewrite (csumn_ext n _ (fun k => cneg' (mq th (S k)))).
  2:{ intros k _. unfold mq, ez. simpl plus. replace (z * (INR (S k) / (INR n + 1))) with (INR (S k) * th).
      simpl pow. apply c_eq; csimp; ring. unfold th. field. apply INR_p1_neq. }
  assert (Hs : csumn' n (fun k => cneg' (mq th (S k))) = cneg' (csub' (csumn' (S n) (mq th)) 1c)).
  { rewrite csumn_shift, mq_0.
    rewrite (csumn_ext n _ (fun k => cmul' (cneg' 1c) (mq th (S k)))) by (intros; ring).
    rewrite csumn_mul_l. ring. }
  rewrite Hs.
  assert (He : cscal RO ((-1) ^ n) (ez z 1) = cneg' (mq th (S n))).
  { unfold mq, ez. replace (z * 1) with (INR (S n) * th). simpl pow. apply c_eq; csimp; ring.
    unfold th. rewrite S_INR. field. apply INR_p1_neq. }
  rewrite He. rewrite cscal_mul.
  generalize (geom th (S n)). set (G := csumn' (S n) (mq th)). set (m := mq th (S n)). set (q := cexp' th).
  set (two := cofr RO 2). intros Hg.
  transitivity (csub' (csub' (cneg' (cadd' 1c q)) (cmul' two (csub' (cmul' (cadd' 1c q) G) (cadd' 1c q)))) (cmul' (cadd' 1c q) m) ).
  ring. rewrite Hg.
  assert (H2 : two = cadd' 1c 1c) by (apply c_eq; csimp; ring). rewrite H2. ring.
Qed.

Lemma pdd_closed n z : cos (z / (2 * INR n + 2)) <> 0 -> dd_F (pdd_times n) z = PDD z (Z.of_nat n).
Proof.
  intros Hc. pose proof (pdd_y n z) as H. cbv zeta in H.
  apply (f_equal (cabs2 RO)) in H. rewrite !cabs2_mul, cabs2_neg, cabs2_1p, cabs2_1m, cabs2_1m_mq in H.
  replace (z / (INR n + 1) / 2) with (z / (2 * INR n + 2)) in H by (field; split; [apply INR_p1_neq | generalize (pos_INR n); lra]).
  replace (INR (S n) * (z / (INR n + 1)) / 2) with (z / 2) in H by (rewrite S_INR; field; apply INR_p1_neq).
  unfold dd_F, PDD. rewrite Zeven_of_nat, IZR_of_nat. unfold tan.
  set (c := cos (z / (2 * INR n + 2))) in *. set (s := sin (z / (2 * INR n + 2))) in *.
  set (Y := cabs2 RO (dd_y (pdd_times n) z)) in *.
  assert (HY : Y = (s / c) ^ 2 * (if Nat.even (S n) then 4 * sin (z / 2) ^ 2 else 4 * cos (z / 2) ^ 2)).
  { apply (Rmult_eq_reg_l (4 * c ^ 2)). rewrite H. field; auto.
    apply Rmult_integral_contrapositive_currified. lra. apply pow_nonzero; auto. }
  rewrite HY. rewrite Nat.even_succ, <- Nat.negb_even. destruct (Nat.even n); simpl negb; cbv iota; field; auto.
Qed.

(* ------------------------------------------------------------------ CPMG *)
Lemma cpmg_y n z : (1 <= n)%nat -> let ph := z / (2 * INR n) in
  cmul' (cadd' 1c (cexp' (2 * ph))) (dd_y (cpmg_times n) z) =
  cneg' (cmul' (csub' 1c (mq (2 * ph) n)) (cmul' (csub' 1c (cexp' ph)) (csub' 1c (cexp' ph)))).
Proof.
  intros Hn ph. assert (Hn0 : INR n <> 0) by (apply not_0_INR; lia).
  rewrite dd_y_pulse. unfold cpmg_times. rewrite fam_length. unfold fam. rewrite alt_fam.
  rewrite (csumn_ext n _ (fun k => cmul' (cexp' ph) (mq (2 * ph) k))).
  2:{ intros k _. unfold mq, ez.
      replace (z * ((INR (1 + k) - 1 / 2) / INR n)) with (ph + INR k * (2 * ph)).
      rewrite cexp_add. apply c_eq; csimp; ring.
      unfold ph. rewrite plus_INR. simpl INR. field; auto. }
  rewrite csumn_mul_l.
  assert (He : cscal RO ((-1) ^ n) (ez z 1) = mq (2 * ph) n).
  { unfold mq, ez. f_equal. f_equal. unfold ph. field; auto. }
  rewrite He, cscal_mul.
  assert (Hq : cexp' (2 * ph) = cmul' (cexp' ph) (cexp' ph)) by (rewrite <- cexp_add; f_equal; ring).
  generalize (geom (2 * ph) n). rewrite Hq.
  set (G := csumn' n (mq (2 * ph))). set (m := mq (2 * ph) n). set (p := cexp' ph).
  set (two := cofr RO 2). intros Hg.
  transitivity (cadd' (cadd' (cneg' (cadd' 1c (cmul' p p))) (cmul' (cmul' two p) (cmul' (cadd' 1c (cmul' p p)) G)))
                      (cmul' (cadd' 1c (cmul' p p)) m)).
  ring. rewrite Hg.
  assert (H2 : two = cadd' 1c 1c) by (apply c_eq; csimp; ring). rewrite H2. ring.
Qed.

Lemma cpmg_closed n z : (1 <= n)%nat -> cos (z / (2 * INR n)) <> 0 -> dd_F (cpmg_times n) z = CPMG z (Z.of_nat n).
Proof.
  intros Hn Hc. assert (Hn0 : INR n <> 0) by (apply not_0_INR; lia).
  pose proof (cpmg_y n z Hn) as H. cbv zeta in H.
  apply (f_equal (cabs2 RO)) in H. rewrite cabs2_neg, !cabs2_mul, cabs2_1p, cabs2_1m, cabs2_1m_mq in H.
  replace (2 * (z / (2 * INR n)) / 2) with (z / (2 * INR n)) in H by (field; auto).
  replace (INR n * (2 * (z / (2 * INR n))) / 2) with (z / 2) in H by (field; auto).
  unfold dd_F, CPMG. rewrite Zeven_of_nat, IZR_of_nat.
  replace (z / 4 / INR n) with (z / (2 * INR n) / 2) by (field; auto).
  replace (z / 2 / INR n) with (z / (2 * INR n)) by (field; auto).
  set (c := cos (z / (2 * INR n))) in *. set (s := sin (z / (2 * INR n) / 2)) in *.
  set (Y := cabs2 RO (dd_y (cpmg_times n) z)) in *.
  assert (HY : Y = (if Nat.even n then 4 * sin (z / 2) ^ 2 else 4 * cos (z / 2) ^ 2) * (4 * s ^ 4) / c ^ 2).
  { apply (Rmult_eq_reg_l (4 * c ^ 2)). rewrite H. field; auto.
    apply Rmult_integral_contrapositive_currified. lra. apply pow_nonzero; auto. }
  rewrite HY. destruct (Nat.even n); field; auto.
Qed.
