(* Closed forms of the decoupling filter functions (analytic.py, machine-translated in
   Extracted/Analytic.v) against the specification Spec/DD.v, for every order / level. *)
From Coq Require Import ZArith Reals List Lra Lia Ring.
From FF Require Import Base.Ops Inst.RInst Base.RAlg Spec.DDBase Spec.DD Extracted.Analytic.
Import ListNotations.
Local Open Scope R_scope.

(* ------------------------------------------------------------------ complex helpers *)
Lemma cabs2_mul (a b : Cx) : cabs2 RO (cmul' a b) = cabs2 RO a * cabs2 RO b.
Proof. csimp. ring. Qed.
Lemma cabs2_neg (a : Cx) : cabs2 RO (cneg' a) = cabs2 RO a.
Proof. csimp. ring. Qed.
Lemma cabs2_conj (a : Cx) : cabs2 RO (cconj' a) = cabs2 RO a.
Proof. csimp. ring. Qed.
Lemma cscal_mul (x : R) (a : Cx) : cscal RO x a = cmul' (cofr RO x) a.
Proof. cring. Qed.
Lemma cofr_mul x y : cofr RO (x * y) = cmul' (cofr RO x) (cofr RO y).
Proof. cring. Qed.
Lemma cofr_1 : cofr RO 1 = 1c. Proof. reflexivity. Qed.
Lemma cofr_m1 : cofr RO (-1) = cneg' 1c. Proof. cring. Qed.
Lemma cofr_opp x : cofr RO (- x) = cneg' (cofr RO x). Proof. cring. Qed.

Lemma cos_half x : cos x = 1 - 2 * (sin (x/2))^2.
Proof. replace x with (2 * (x/2)) at 1 by field. rewrite cos_2a_sin. simpl. ring. Qed.
Lemma cos_half' x : cos x = 2 * (cos (x/2))^2 - 1.
Proof. replace x with (2 * (x/2)) at 1 by field. rewrite cos_2a_cos. simpl. ring. Qed.
Lemma sin2_cos2' x : (sin x)^2 + (cos x)^2 = 1.
Proof. generalize (sin2_cos2 x). unfold Rsqr. simpl. lra. Qed.

(* |1 - e^{ix}|^2 = 4 sin^2(x/2),  |1 + e^{ix}|^2 = 4 cos^2(x/2) *)
Lemma cabs2_1m x : cabs2 RO (csub' 1c (cexp' x)) = 4 * (sin (x/2))^2.
Proof. csimp. generalize (sin2_cos2' x). rewrite (cos_half x). simpl. nra. Qed.
Lemma cabs2_1p x : cabs2 RO (cadd' 1c (cexp' x)) = 4 * (cos (x/2))^2.
Proof. csimp. generalize (sin2_cos2' x). rewrite (cos_half' x). simpl. nra. Qed.

(* ------------------------------------------------------------------ pulse form of y *)
(* alternating sum over the pulses *)
Fixpoint alt (z s : R) (ts : list R) : Cx :=
  match ts with [] => 0c | t :: r => cadd' (cscal RO s (ez z t)) (alt z (- s) r) end.

Lemma dd_sum_pulse z s prev ts :
  dd_sum z s prev ts =
  cadd' (cadd' (cscal RO (- s) (ez z prev)) (cscal RO 2 (alt z s ts)))
        (cscal RO (s * (-1) ^ length ts) (ez z 1)).
Proof.
  revert s prev. induction ts as [|t r IH]; intros s prev; simpl.
  - cring.
  - rewrite IH. apply c_eq; csimp; ring.
Qed.

(* y = -1 + 2 sum_k (-1)^(k-1) e^{i z delta_k} + (-1)^n e^{iz} *)
Lemma dd_y_pulse ts z :
  dd_y ts z = cadd' (cadd' (cneg' 1c) (cscal RO 2 (alt z 1 ts))) (cscal RO ((-1) ^ length ts) (ez z 1)).
Proof.
  unfold dd_y. rewrite dd_sum_pulse. unfold ez. rewrite Rmult_0_r, cexp_0.
  apply c_eq; csimp; ring.
Qed.

Lemma alt_app z s a b : alt z s (a ++ b) = cadd' (alt z s a) (alt z (s * (-1) ^ length a) b).
Proof.
  revert s. induction a as [|t r IH]; intros s; simpl.
  - rewrite Rmult_1_r. ring.
  - rewrite IH. replace (- s * (-1) ^ length r) with (s * (-1 * (-1) ^ length r)) by ring. ring.
Qed.

Lemma alt_scal z s ts : alt z s ts = cscal RO s (alt z 1 ts).
Proof.
  revert s. induction ts as [|t r IH]; intros s; simpl.
  - cring.
  - rewrite (IH (- s)), (IH (Ropp 1)). apply c_eq; csimp; ring.
Qed.

(* csumn adds at the end; lists recurse at the head *)
Lemma csumn_shift n (f : nat -> Cx) : csumn' (S n) f = cadd' (f O) (csumn' n (fun k => f (S k))).
Proof.
  induction n. simpl. ring.
  rewrite csumn_S, IHn. simpl. ring.
Qed.

Lemma alt_fam z s (f : nat -> R) a n :
  alt z s (map f (seq a n)) = csumn' n (fun k => cscal RO (s * (-1) ^ k) (ez z (f (a + k)%nat))).
Proof.
  revert a s. induction n; intros a s. reflexivity.
  rewrite csumn_shift. simpl seq. simpl map. simpl alt. rewrite IHn.
  rewrite Nat.add_0_r. f_equal. apply c_eq; csimp; ring.
  apply csumn_ext. intros k _. rewrite Nat.add_succ_r. simpl plus.
  apply c_eq; csimp; ring.
Qed.

Lemma fam_length n f : length (fam n f) = n.
Proof. unfold fam. rewrite map_length, seq_length. reflexivity. Qed.

(* ------------------------------------------------------------------ FID, SE *)
Lemma fid_closed z : dd_F fid_times z = FID z.
Proof.
  unfold dd_F, fid_times, dd_y, FID. simpl dd_sum. unfold ez.
  rewrite Rmult_0_r, Rmult_1_r, cexp_0.
  replace (cscal RO 1 (csub' (cexp' z) 1c)) with (cneg' (csub' 1c (cexp' z))) by cring.
  rewrite cabs2_neg, cabs2_1m. simpl. field.
Qed.

Lemma se_closed z : dd_F se_times z = SE z.
Proof.
  unfold dd_F, se_times. rewrite dd_y_pulse. simpl alt. simpl length. unfold ez, SE.
  rewrite Rmult_1_r.
  replace (cexp' z) with (cmul' (cexp' (z * (1/2))) (cexp' (z * (1/2)))).
  2:{ rewrite <- cexp_add. f_equal. field. }
  set (p := cexp' (z * (1/2))).
  replace (cadd' (cadd' (cneg' 1c) (cscal RO 2 (cadd' (cscal RO 1 p) 0c))) (cscal RO ((-1) ^ 1) (cmul' p p)))
    with (cneg' (cmul' (csub' 1c p) (csub' 1c p))) by (apply c_eq; csimp; ring).
  rewrite cabs2_neg, cabs2_mul. unfold p. rewrite cabs2_1m.
  replace (z * (1/2) / 2) with (z / 4) by field. simpl. field.
Qed.

(* ------------------------------------------------------------------ geometric sums *)
(* (-q)^k with q = e^{i th} *)
Definition mq (th : R) (k : nat) : Cx := cscal RO ((-1) ^ k) (cexp' (INR k * th)).

Lemma mq_0 th : mq th 0 = 1c.
Proof. unfold mq. simpl. rewrite Rmult_0_l, cexp_0. cring. Qed.
Lemma mq_S th k : mq th (S k) = cneg' (cmul' (cexp' th) (mq th k)).
Proof.
  unfold mq. rewrite S_INR, Rmult_plus_distr_r, Rmult_1_l, cexp_add.
  apply c_eq; csimp; ring.
Qed.
Lemma geom th n : cmul' (cadd' 1c (cexp' th)) (csumn' n (mq th)) = csub' 1c (mq th n).
Proof.
  induction n.
  - rewrite mq_0. simpl. ring.
  - rewrite csumn_S, cmul_add_distr_l, IHn, mq_S. ring.
Qed.

Lemma Zeven_of_nat n : Z.even (Z.of_nat n) = Nat.even n.
Proof.
  destruct (Nat.Even_or_Odd n) as [[m ->]|[m ->]].
  - rewrite Nat2Z.inj_mul, Z.even_mul, Nat.even_mul. reflexivity.
  - rewrite Nat2Z.inj_add, Nat2Z.inj_mul, Z.even_add, Z.even_mul, Nat.even_add, Nat.even_mul. reflexivity.
Qed.
Lemma pow_m1_even n : Nat.even n = true -> (-1) ^ n = 1.
Proof. intros H. apply Nat.even_spec in H. destruct H as [m ->]. rewrite pow_1_even. reflexivity. Qed.
Lemma pow_m1_odd n : Nat.even n = false -> (-1) ^ n = -1.
Proof.
  intros H. assert (Ho : Nat.odd n = true) by (rewrite <- Nat.negb_even, H; reflexivity).
  apply Nat.odd_spec in Ho. destruct Ho as [m ->].
  replace (2 * m + 1)%nat with (S (2 * m)) by lia. rewrite pow_1_odd. reflexivity.
Qed.

Lemma cabs2_1m_mq th m :
  cabs2 RO (csub' 1c (mq th m)) =
  if Nat.even m then 4 * (sin (INR m * th / 2)) ^ 2 else 4 * (cos (INR m * th / 2)) ^ 2.
Proof.
  unfold mq. destruct (Nat.even m) eqn:E.
  - rewrite (pow_m1_even _ E). rewrite <- cabs2_1m. f_equal. cring.
  - rewrite (pow_m1_odd _ E). rewrite <- cabs2_1p. f_equal. cring.
Qed.

Lemma IZR_of_nat n : IZR (Z.of_nat n) = INR n.
Proof. symmetry. apply INR_IZR_INZ. Qed.

Lemma INR_p1_neq n : INR n + 1 <> 0.
Proof. generalize (pos_INR n). lra. Qed.

(* ------------------------------------------------------------------ PDD *)
Lemma pdd_y n z : let th := z / (INR n + 1) in
  cmul' (cadd' 1c (cexp' th)) (dd_y (pdd_times n) z) =
  cmul' (cneg' (csub' 1c (cexp' th))) (csub' 1c (mq th (S n))).
Proof.
  intros th. rewrite dd_y_pulse. unfold pdd_times. rewrite fam_length. unfold fam. rewrite alt_fam.
  rewrite (csumn_ext n _ (fun k => cneg' (mq th (S k)))).
  2:{ intros k _. unfold mq, ez. simpl plus. replace (z * (INR (S k) / (INR n + 1))) with (INR (S k) * th).
      simpl pow. apply c_eq; csimp; ring. unfold th. field. apply INR_p1_neq. }
  assert (Hs : csumn' n (fun k => cneg' (mq th (S k))) = cneg' (csub' (csumn' (S n) (mq th)) 1c)).
  { rewrite csumn_shift, mq_0.
    rewrite (csumn_ext n _ (fun k => cmul' (cneg' 1c) (mq th (S k)))) by (intros; ring).
    rewrite csumn_mul_l. ring. }
  rewrite Hs.
  assert (He : cscal RO ((-1) ^ n) (ez z 1) = cneg' (mq th (S n))).
  { unfold mq, ez. replace (z * 1) with (INR (S n) * th). simpl pow. apply c_eq; csimp; ring.
    unfold th. rewrite S_INR. field. apply INR_p1_neq. }
  rewrite He. rewrite cscal_mul.
  generalize (geom th (S n)). set (G := csumn' (S n) (mq th)). set (m := mq th (S n)). set (q := cexp' th).
  set (two := cofr RO 2). intros Hg.
  transitivity (csub' (csub' (cneg' (cadd' 1c q)) (cmul' two (csub' (cmul' (cadd' 1c q) G) (cadd' 1c q)))) (cmul' (cadd' 1c q) m) ).
  ring. rewrite Hg.
  assert (H2 : two = cadd' 1c 1c) by (apply c_eq; csimp; ring). rewrite H2. ring.
Qed.

Lemma pdd_closed n z : cos (z / (2 * INR n + 2)) <> 0 -> dd_F (pdd_times n) z = PDD z (Z.of_nat n).
Proof.
  intros Hc. pose proof (pdd_y n z) as H. cbv zeta in H.
  apply (f_equal (cabs2 RO)) in H. rewrite !cabs2_mul, cabs2_neg, cabs2_1p, cabs2_1m, cabs2_1m_mq in H.
  replace (z / (INR n + 1) / 2) with (z / (2 * INR n + 2)) in H by (field; split; [apply INR_p1_neq | generalize (pos_INR n); lra]).
  replace (INR (S n) * (z / (INR n + 1)) / 2) with (z / 2) in H by (rewrite S_INR; field; apply INR_p1_neq).
  unfold dd_F, PDD. rewrite Zeven_of_nat, IZR_of_nat. unfold tan.
  set (c := cos (z / (2 * INR n + 2))) in *. set (s := sin (z / (2 * INR n + 2))) in *.
  set (Y := cabs2 RO (dd_y (pdd_times n) z)) in *.
  assert (HY : Y = (s / c) ^ 2 * (if Nat.even (S n) then 4 * sin (z / 2) ^ 2 else 4 * cos (z / 2) ^ 2)).
  { apply (Rmult_eq_reg_l (4 * c ^ 2)). rewrite H. field; auto.
    apply Rmult_integral_contrapositive_currified. lra. apply pow_nonzero; auto. }
  rewrite HY. rewrite Nat.even_succ, <- Nat.negb_even. destruct (Nat.even n); simpl negb; cbv iota; field; auto.
Qed.

(* ------------------------------------------------------------------ CPMG *)
Lemma cpmg_y n z : (1 <= n)%nat -> let ph := z / (2 * INR n) in
  cmul' (cadd' 1c (cexp' (2 * ph))) (dd_y (cpmg_times n) z) =
  cneg' (cmul' (csub' 1c (mq (2 * ph) n)) (cmul' (csub' 1c (cexp' ph)) (csub' 1c (cexp' ph)))).
Proof.
  intros Hn ph. assert (Hn0 : INR n <> 0) by (apply not_0_INR; lia).
  rewrite dd_y_pulse. unfold cpmg_times. rewrite fam_length. unfold fam. rewrite alt_fam.
  rewrite (csumn_ext n _ (fun k => cmul' (cexp' ph) (mq (2 * ph) k))).
  2:{ intros k _. unfold mq, ez.
      replace (z * ((INR (1 + k) - 1 / 2) / INR n)) with (ph + INR k * (2 * ph)).
      rewrite cexp_add. apply c_eq; csimp; ring.
      unfold ph. rewrite plus_INR. simpl INR. field; auto. }
  rewrite csumn_mul_l.
  assert (He : cscal RO ((-1) ^ n) (ez z 1) = mq (2 * ph) n).
  { unfold mq, ez. f_equal. f_equal. unfold ph. field; auto. }
  rewrite He, cscal_mul.
  assert (Hq : cexp' (2 * ph) = cmul' (cexp' ph) (cexp' ph)) by (rewrite <- cexp_add; f_equal; ring).
  generalize (geom (2 * ph) n). rewrite Hq.
  set (G := csumn' n (mq (2 * ph))). set (m := mq (2 * ph) n). set (p := cexp' ph).
  set (two := cofr RO 2). intros Hg.
  transitivity (cadd' (cadd' (cneg' (cadd' 1c (cmul' p p))) (cmul' (cmul' two p) (cmul' (cadd' 1c (cmul' p p)) G)))
                      (cmul' (cadd' 1c (cmul' p p)) m)).
  ring. rewrite Hg.
  assert (H2 : two = cadd' 1c 1c) by (apply c_eq; csimp; ring). rewrite H2. ring.
Qed.

Lemma cpmg_closed n z : (1 <= n)%nat -> cos (z / (2 * INR n)) <> 0 -> dd_F (cpmg_times n) z = CPMG z (Z.of_nat n).
Proof.
  intros Hn Hc. assert (Hn0 : INR n <> 0) by (apply not_0_INR; lia).
  pose proof (cpmg_y n z Hn) as H. cbv zeta in H.
  apply (f_equal (cabs2 RO)) in H. rewrite cabs2_neg, !cabs2_mul, cabs2_1p, cabs2_1m, cabs2_1m_mq in H.
  replace (2 * (z / (2 * INR n)) / 2) with (z / (2 * INR n)) in H by (field; auto).
  replace (INR n * (2 * (z / (2 * INR n))) / 2) with (z / 2) in H by (field; auto).
  unfold dd_F, CPMG. rewrite Zeven_of_nat, IZR_of_nat.
  replace (z / 4 / INR n) with (z / (2 * INR n) / 2) by (field; auto).
  replace (z / 2 / INR n) with (z / (2 * INR n)) by (field; auto).
  set (c := cos (z / (2 * INR n))) in *. set (s := sin (z / (2 * INR n) / 2)) in *.
  set (Y := cabs2 RO (dd_y (cpmg_times n) z)) in *.
  assert (HY : Y = (if Nat.even n then 4 * sin (z / 2) ^ 2 else 4 * cos (z / 2) ^ 2) * (4 * s ^ 4) / c ^ 2).
  { apply (Rmult_eq_reg_l (4 * c ^ 2)). rewrite H. field; auto.
    apply Rmult_integral_contrapositive_currified. lra. apply pow_nonzero; auto. }
  rewrite HY. destruct (Nat.even n); field; auto.
Qed.

(* ------------------------------------------------------------------ CDD *)
Lemma alt_map_half z s ts : alt z s (map (fun t => t / 2) ts) = alt (z / 2) s ts.
Proof.
  revert s. induction ts as [|t r IH]; intros s; simpl. reflexivity.
  rewrite IH. unfold ez. replace (z * (t / 2)) with (z / 2 * t) by field. reflexivity.
Qed.
Lemma alt_map_shift z s ts : alt z s (map (fun t => 1/2 + t) ts) = cmul' (cexp' (z / 2)) (alt z s ts).
Proof.
  revert s. induction ts as [|t r IH]; intros s; simpl. ring.
  rewrite IH. unfold ez. replace (z * (1 / 2 + t)) with (z / 2 + z * t) by field.
  rewrite cexp_add. apply c_eq; csimp; ring.
Qed.

Lemma cdd_length_parity g : (-1) ^ length (cdd_times g) = (-1) ^ g.
Proof.
  induction g. reflexivity.
  change (cdd_times (S g)) with
    (let h := map (fun t => t / 2) (cdd_times g) in let h2 := map (fun t => 1/2 + t) h in
     if Nat.even (S g) then h ++ h2 else h ++ [1/2] ++ h2).
  cbv zeta. destruct (Nat.even (S g)) eqn:E.
  - rewrite app_length, !map_length, (pow_m1_even (S g) E).
    replace (length (cdd_times g) + length (cdd_times g))%nat with (2 * length (cdd_times g))%nat by lia.
    apply pow_1_even.
  - rewrite !app_length, !map_length, (pow_m1_odd (S g) E). simpl length.
    replace (length (cdd_times g) + (1 + length (cdd_times g)))%nat with (S (2 * length (cdd_times g)))%nat by lia.
    apply pow_1_odd.
Qed.

(* y_{g+1}(z) = (1 - e^{iz/2}) y_g(z/2): the two half-length copies, the second with flipped sign *)
Lemma cdd_y_step g z :
  dd_y (cdd_times (S g)) z = cmul' (csub' 1c (cexp' (z / 2))) (dd_y (cdd_times g) (z / 2)).
Proof.
  rewrite !dd_y_pulse. rewrite !cdd_length_parity.
  change (cdd_times (S g)) with
    (let h := map (fun t => t / 2) (cdd_times g) in let h2 := map (fun t => 1/2 + t) h in
     if Nat.even (S g) then h ++ h2 else h ++ [1/2] ++ h2).
  cbv zeta. unfold ez. rewrite !Rmult_1_r.
  assert (Hp : cexp' z = cmul' (cexp' (z / 2)) (cexp' (z / 2))) by (rewrite <- cexp_add; f_equal; field).
  rewrite Hp. set (p := cexp' (z / 2)).
  destruct (Nat.even (S g)) eqn:E.
  - rewrite alt_app, map_length, cdd_length_parity. rewrite (alt_scal z (1 * (-1) ^ g)).
    rewrite alt_map_shift, alt_map_half. fold p. set (A := alt (z / 2) 1 (cdd_times g)).
    rewrite (pow_m1_even _ E).
    rewrite Nat.even_succ, <- Nat.negb_even in E. apply Bool.negb_true_iff in E. rewrite (pow_m1_odd _ E).
    apply c_eq; csimp; ring.
  - rewrite alt_app, map_length, cdd_length_parity. simpl app. simpl alt.
    rewrite (alt_scal z (- (1 * (-1) ^ g))).
    rewrite alt_map_shift, alt_map_half. unfold ez. replace (z * (1 / 2)) with (z / 2) by field.
    fold p. set (A := alt (z / 2) 1 (cdd_times g)).
    rewrite (pow_m1_odd _ E).
    rewrite Nat.even_succ, <- Nat.negb_even in E. apply Bool.negb_false_iff in E. rewrite (pow_m1_even _ E).
    apply c_eq; csimp; ring.
Qed.

(* products with the recursion structure of [seq] *)
Fixpoint cprod_from (a n : nat) (f : nat -> Cx) : Cx :=
  match n with O => 1c | S n' => cmul' (f a) (cprod_from (S a) n' f) end.
Fixpoint rprod_from (a n : nat) (f : nat -> R) : R :=
  match n with O => 1 | S n' => f a * rprod_from (S a) n' f end.
Fixpoint rsum_from (a n : nat) (f : nat -> R) : R :=
  match n with O => 0 | S n' => f a + rsum_from (S a) n' f end.

Lemma cprod_from_shift a n f : cprod_from (S a) n f = cprod_from a n (fun k => f (S k)).
Proof. revert a. induction n; intros a; simpl. reflexivity. rewrite IHn. reflexivity. Qed.
Lemma cprod_from_ext a n f g : (forall k, f k = g k) -> cprod_from a n f = cprod_from a n g.
Proof. intros H. revert a. induction n; intros a; simpl. reflexivity. rewrite IHn, H. reflexivity. Qed.
Lemma cabs2_cprod a n f : cabs2 RO (cprod_from a n f) = rprod_from a n (fun k => cabs2 RO (f k)).
Proof. revert a. induction n; intros a; cbn [cprod_from rprod_from]. csimp; ring. rewrite cabs2_mul, IHn. reflexivity. Qed.
Lemma rprod_from_ext a n f g : (forall k, f k = g k) -> rprod_from a n f = rprod_from a n g.
Proof. intros H. revert a. induction n; intros a; simpl. reflexivity. rewrite IHn, H. reflexivity. Qed.
Lemma rprod_from_scal a n c f : rprod_from a n (fun k => c * f k) = c ^ n * rprod_from a n f.
Proof. revert a. induction n; intros a; simpl. ring. rewrite IHn. ring. Qed.

Lemma prod_range_from lo hi f :
  prod_range lo hi f = rprod_from 0 (Z.to_nat (hi - lo)) (fun i => f (lo + Z.of_nat i)%Z).
Proof.
  unfold prod_range, zrange. generalize (Z.to_nat (hi - lo)) as n. generalize O as a.
  intros a n. revert a. induction n; intros a; simpl. reflexivity. rewrite IHn. reflexivity.
Qed.
Lemma sum_range_from lo hi f :
  sum_range lo hi f = rsum_from 0 (Z.to_nat (hi - lo)) (fun i => f (lo + Z.of_nat i)%Z).
Proof.
  unfold sum_range, zrange. generalize (Z.to_nat (hi - lo)) as n. generalize O as a.
  intros a n. revert a. induction n; intros a; simpl. reflexivity. rewrite IHn. reflexivity.
Qed.

(* y_g(z) = -(1 - e^{i z/2^g}) prod_{k=1}^{g} (1 - e^{i z/2^k}) *)
Lemma cdd_y g z :
  dd_y (cdd_times g) z =
  cmul' (cneg' (csub' 1c (cexp' (z / 2 ^ g)))) (cprod_from 0 g (fun k => csub' 1c (cexp' (z / 2 ^ S k)))).
Proof.
  revert z. induction g; intros z.
  - unfold dd_y. simpl. unfold ez. rewrite Rmult_0_r, Rmult_1_r, cexp_0. replace (z / 1) with z by field.
    apply c_eq; csimp; ring.
  - rewrite cdd_y_step, IHg. cbn [cprod_from]. rewrite cprod_from_shift.
    assert (H2 : forall k, z / 2 / 2 ^ k = z / 2 ^ S k).
    { intros k. simpl. field. apply pow_nonzero. lra. }
    rewrite (H2 g).
    rewrite (cprod_from_ext 0 g (fun k => csub' 1c (cexp' (z / 2 / 2 ^ S k))) (fun k => csub' 1c (cexp' (z / 2 ^ S (S k))))).
    2:{ intros k. rewrite (H2 (S k)). reflexivity. }
    replace (z / 2 ^ 1) with (z / 2) by (simpl; field). ring.
Qed.

Lemma cdd_closed g z : dd_F (cdd_times g) z = CDD z (Z.of_nat g).
Proof.
  unfold dd_F. rewrite cdd_y, cabs2_mul, cabs2_neg, cabs2_1m, cabs2_cprod.
  rewrite (rprod_from_ext 0 g _ (fun k => 4 * (sin (z / 2 ^ S (S k))) ^ 2)).
  2:{ intros k. rewrite cabs2_1m. f_equal. f_equal. f_equal. simpl. field. apply pow_nonzero; lra. }
  rewrite rprod_from_scal.
  unfold CDD. rewrite prod_range_from.
  replace (Z.to_nat (Z.of_nat g + 1 - 1)) with g by lia.
  rewrite (rprod_from_ext 0 g (fun i => sin (z / powerRZ 2 (1 + Z.of_nat i + 1)) ^ 2) (fun k => sin (z / 2 ^ S (S k)) ^ 2)).
  2:{ intros k. replace (1 + Z.of_nat k + 1)%Z with (Z.of_nat (S (S k))) by lia. rewrite <- pow_powerRZ. reflexivity. }
  replace (Z.of_nat g + 1)%Z with (Z.of_nat (S g)) by lia. rewrite <- pow_powerRZ.
  replace (2 * Z.of_nat g + 1)%Z with (Z.of_nat (S (2 * g))) by lia. rewrite <- pow_powerRZ.
  replace (z / 2 ^ g / 2) with (z / 2 ^ S g) by (simpl; field; apply pow_nonzero; lra).
  replace (2 ^ S (2 * g)) with (2 * 4 ^ g). field.
  rewrite <- tech_pow_Rmult, pow_mult. f_equal. f_equal. simpl. ring.
Qed.

(* ------------------------------------------------------------------ UDD *)
Lemma rsum_from_shift a n f : rsum_from (S a) n f = rsum_from a n (fun k => f (S k)).
Proof. revert a. induction n; intros a; simpl. reflexivity. rewrite IHn. reflexivity. Qed.
Lemma rsum_from_last a n f : rsum_from a (S n) f = rsum_from a n f + f (a + n)%nat.
Proof.
  revert a. induction n; intros a. simpl. rewrite Nat.add_0_r. ring.
  change (rsum_from a (S (S n)) f) with (f a + rsum_from (S a) (S n) f).
  rewrite IHn. simpl. replace (S (a + n)) with (a + S n)%nat by lia. ring.
Qed.
Lemma rsum_from_S a n f : rsum_from a (S n) f = f a + rsum_from (S a) n f.
Proof. reflexivity. Qed.
Lemma rsum_from_ext a n f g : (forall k, f k = g k) -> rsum_from a n f = rsum_from a n g.
Proof. intros H. revert a. induction n; intros a; simpl. reflexivity. rewrite IHn, H. reflexivity. Qed.

(* sum over k = -m .. m-1 paired as (-(k+1), k) *)
Lemma sum_range_symm m f :
  sum_range (- Z.of_nat m) (Z.of_nat m) f = sumn' m (fun k => f (- Z.of_nat (S k))%Z + f (Z.of_nat k)).
Proof.
  induction m. reflexivity.
  rewrite sum_range_from in *.
  replace (Z.to_nat (Z.of_nat (S m) - - Z.of_nat (S m))) with (S (S (2 * m))) by lia.
  replace (Z.to_nat (Z.of_nat m - - Z.of_nat m)) with (2 * m)%nat in IHm by lia.
  change (sumn' (S m) ?g) with (sumn' m g + g m). rewrite <- IHm.
  rewrite rsum_from_S, rsum_from_shift, rsum_from_last.
  rewrite Z.add_0_r.
  rewrite (rsum_from_ext 0 (2 * m) _ (fun i => f (- Z.of_nat m + Z.of_nat i)%Z)).
  2:{ intros k. f_equal. lia. }
  replace (- Z.of_nat (S m) + Z.of_nat (S (0 + 2 * m)))%Z with (Z.of_nat m) by lia.
  simpl. ring.
Qed.

Lemma pow_m1_sq m : (-1) ^ m * (-1) ^ m = 1.
Proof. rewrite <- Rpow_mult_distr. replace (-1 * -1) with 1 by ring. apply pow1. Qed.
Lemma powerRZ_m1_neg m : powerRZ (-1) (- Z.of_nat m) = (-1) ^ m.
Proof.
  destruct m. reflexivity.
  simpl Z.of_nat. simpl Z.opp. unfold powerRZ. rewrite SuccNat2Pos.id_succ.
  apply (Rmult_eq_reg_l ((-1) ^ S m)). rewrite Rinv_r, pow_m1_sq. reflexivity.
  apply pow_nonzero; lra. apply pow_nonzero; lra.
Qed.

(* telescoping of the pairs: sum_{k<=n} (D(k+1) + D(k)) = D(0) + D(n+1) + 2 sum_{1<=k<=n} D(k) *)
Lemma csumn_pairs n (D : nat -> Cx) :
  csumn' (S n) (fun k => cadd' (D (S k)) (D k)) =
  cadd' (cadd' (D O) (D (S n))) (cmul' (cadd' 1c 1c) (csumn' n (fun k => D (S k)))).
Proof.
  induction n. simpl. ring.
  rewrite csumn_S, IHn. rewrite (csumn_S n). ring.
Qed.

Section UDD.
Variables (n : nat) (z : R).
Definition udd_c (k : nat) : R := cos (PI * INR k / (INR n + 1)).
(* (-1)^k e^{i z/2 cos(pi k/(n+1))}: the terms of the shipped expression *)
Definition udd_E (k : nat) : Cx := cscal RO ((-1) ^ k) (cexp' (z / 2 * udd_c k)).
Definition udd_U : Cx := csumn' (S n) (fun k => cadd' (udd_E (S k)) (udd_E k)).
(* (-1)^k e^{i z delta_k} *)
Definition udd_D (k : nat) : Cx := cscal RO ((-1) ^ k) (ez z ((sin (PI * INR k / (2 * INR n + 2))) ^ 2)).

Lemma udd_D_E k : udd_D k = cmul' (cexp' (z / 2)) (cconj' (udd_E k)).
Proof.
  unfold udd_D, udd_E, ez, udd_c.
  replace (z * sin (PI * INR k / (2 * INR n + 2)) ^ 2) with (z / 2 + - (z / 2 * cos (PI * INR k / (INR n + 1)))).
  rewrite cexp_add, cexp_neg. apply c_eq; csimp; ring.
  rewrite (cos_half (PI * INR k / (INR n + 1))).
  replace (PI * INR k / (INR n + 1) / 2) with (PI * INR k / (2 * INR n + 2)).
  field. field. split. apply INR_p1_neq. generalize (pos_INR n); lra.
Qed.

Lemma udd_y : dd_y (udd_times n) z = cneg' (cmul' (cexp' (z / 2)) (cconj' udd_U)).
Proof.
  unfold udd_U. rewrite csumn_conj, <- csumn_mul_l.
  rewrite (csumn_ext (S n) _ (fun k => cadd' (udd_D (S k)) (udd_D k))).
  2:{ intros k _. rewrite cconj_add, cmul_add_distr_l, <- !udd_D_E. reflexivity. }
  rewrite csumn_pairs.
  rewrite dd_y_pulse. unfold udd_times. rewrite fam_length. unfold fam. rewrite alt_fam.
  rewrite (csumn_ext n _ (fun k => cneg' (udd_D (S k)))).
  2:{ intros k _. unfold udd_D. simpl plus. simpl pow. apply c_eq; csimp; ring. }
  assert (H0 : udd_D 0 = 1c).
  { unfold udd_D, ez. simpl INR. replace (PI * 0 / (2 * INR n + 2)) with 0.
    rewrite sin_0. simpl pow. rewrite !Rmult_0_l, Rmult_0_r, cexp_0. cring.
    field. generalize (pos_INR n); lra. }
  assert (H1 : udd_D (S n) = cneg' (cscal RO ((-1) ^ n) (ez z 1))).
  { unfold udd_D. replace (PI * INR (S n) / (2 * INR n + 2)) with (PI / 2).
    rewrite sin_PI2. simpl pow. rewrite !Rmult_1_r. apply c_eq; csimp; ring.
    rewrite S_INR. field. generalize (pos_INR n); lra. }
  rewrite H0, H1.
  rewrite (csumn_ext n (fun k => cneg' (udd_D (S k))) (fun k => cmul' (cneg' 1c) (udd_D (S k)))) by (intros; ring).
  rewrite csumn_mul_l, cscal_mul.
  replace (cofr RO 2) with (cadd' 1c 1c) by (apply c_eq; csimp; ring). ring.
Qed.

Lemma udd_term_neg (t : R -> R) k :
  powerRZ (-1) (- Z.of_nat k) * t (z / 2 * cos (PI * IZR (- Z.of_nat k) / (IZR (Z.of_nat n) + 1))) =
  (-1) ^ k * t (z / 2 * udd_c k).
Proof.
  rewrite powerRZ_m1_neg. unfold udd_c. f_equal. f_equal. f_equal. rewrite <- cos_neg. f_equal.
  rewrite opp_IZR, !IZR_of_nat. field. apply INR_p1_neq.
Qed.
Lemma udd_term_pos (t : R -> R) k :
  powerRZ (-1) (Z.of_nat k) * t (z / 2 * cos (PI * IZR (Z.of_nat k) / (IZR (Z.of_nat n) + 1))) =
  (-1) ^ k * t (z / 2 * udd_c k).
Proof. rewrite <- pow_powerRZ, !IZR_of_nat. reflexivity. Qed.

Lemma udd_U_shipped :
  UDD z (Z.of_nat n) = cabs2 RO udd_U / 2.
Proof.
  unfold UDD. replace (- Z.of_nat n - 1)%Z with (- Z.of_nat (S n))%Z by lia.
  replace (Z.of_nat n + 1)%Z with (Z.of_nat (S n)) by lia.
  rewrite !sum_range_symm.
  replace (Ropp (IZR 1)) with (-1) by lra.
  rewrite (sumn_ext (S n) _ (fun k => fst (cadd' (udd_E (S k)) (udd_E k)))).
  2:{ intros k _. rewrite (udd_term_neg cos), (udd_term_pos cos). unfold udd_E. csimp. ring. }
  rewrite <- csumn_re. fold udd_U.
  rewrite (sumn_ext (S n) _ (fun k => snd (cadd' (udd_E (S k)) (udd_E k)))).
  2:{ intros k _. rewrite (udd_term_neg sin), (udd_term_pos sin). unfold udd_E. csimp. ring. }
  rewrite <- csumn_im. fold udd_U. unfold cabs2. cbn [oadd omul RO]. f_equal. ring.
Qed.
End UDD.

Lemma udd_closed n z : dd_F (udd_times n) z = UDD z (Z.of_nat n).
Proof.
  rewrite udd_U_shipped. unfold dd_F. rewrite udd_y, cabs2_neg, cabs2_mul, cexp_abs2, cabs2_conj, Rmult_1_l. reflexivity.
Qed.

(* ------------------------------------------------------------------ CDD sign function = product of Rademacher functions *)
Lemma fold_ext_in (F G : nat -> R) l : (forall k, In k l -> F k = G k) ->
  fold_right (fun k acc => F k * acc) 1 l = fold_right (fun k acc => G k * acc) 1 l.
Proof. induction l; intros H; simpl. reflexivity. rewrite H, IHl; auto. intros; apply H; right; auto. left; auto. Qed.
Lemma fold_map_S (F : nat -> R) l :
  fold_right (fun k acc => F k * acc) 1 (map S l) = fold_right (fun k acc => F (S k) * acc) 1 l.
Proof. induction l; simpl. reflexivity. rewrite IHl. reflexivity. Qed.

Lemma rad_sign_S g m : rad_sign (S g) m = (-1) ^ (m / 2 ^ g) * rad_sign g m.
Proof.
  unfold rad_sign. change (seq 1 (S g)) with (1%nat :: seq 2 g). rewrite <- seq_shift.
  simpl fold_right. rewrite fold_map_S. unfold rad at 1. replace (S g - 1)%nat with g by lia.
  f_equal.
Qed.

Lemma pow2_nat_pos n : (0 < 2 ^ n)%nat. Proof. apply Nat.neq_0_lt_0, Nat.pow_nonzero. lia. Qed.

Lemma rad_sign_shift g m : rad_sign g (2 ^ g + m) = rad_sign g m.
Proof.
  unfold rad_sign. apply fold_ext_in. intros k Hk. apply in_seq in Hk. unfold rad.
  assert (E : (2 ^ g = 2 ^ k * 2 ^ (g - k))%nat) by (rewrite <- Nat.pow_add_r; f_equal; lia).
  rewrite E, Nat.div_add_l by (generalize (pow2_nat_pos (g - k)); lia).
  rewrite pow_add. replace (2 ^ k)%nat with (2 * 2 ^ (k - 1))%nat.
  rewrite pow_1_even. ring.
  replace k with (S (k - 1)) at 2 by lia. reflexivity.
Qed.

Lemma rad_sign_lo g m : (m < 2 ^ g)%nat -> rad_sign (S g) m = rad_sign g m.
Proof. intros H. rewrite rad_sign_S, Nat.div_small by auto. simpl. ring. Qed.
Lemma rad_sign_hi g m : (m < 2 ^ g)%nat -> rad_sign (S g) (2 ^ g + m) = - rad_sign g m.
Proof.
  intros H. rewrite rad_sign_S, rad_sign_shift.
  replace ((2 ^ g + m) / 2 ^ g)%nat with 1%nat. simpl. ring.
  symmetry. replace (2 ^ g + m)%nat with (1 * 2 ^ g + m)%nat by lia.
  rewrite Nat.div_add_l by (generalize (pow2_nat_pos g); lia). rewrite Nat.div_small by auto. lia.
Qed.

Lemma pow2_R_neq n : (2:R) ^ n <> 0. Proof. apply pow_nonzero. lra. Qed.

Lemma rad_y_step g z : rad_y (S g) z = cmul' (csub' 1c (cexp' (z / 2))) (rad_y g (z / 2)).
Proof.
  unfold rad_y. change (2 ^ S g)%nat with (2 * 2 ^ g)%nat. replace (2 * 2 ^ g)%nat with (2 ^ g + 2 ^ g)%nat by lia.
  rewrite csumn_app.
  assert (Hez : forall x, ez z (x / 2 ^ S g) = ez (z / 2) (x / 2 ^ g)).
  { intros x. unfold ez. f_equal. simpl. field. apply pow2_R_neq. }
  assert (Hez2 : forall x, ez z ((2 ^ g + x) / 2 ^ S g) = cmul' (cexp' (z / 2)) (ez (z / 2) (x / 2 ^ g))).
  { intros x. unfold ez. rewrite <- cexp_add. f_equal. simpl. field. apply pow2_R_neq. }
  rewrite (csumn_ext (2 ^ g) _ (fun m => cscal RO (rad_sign g m)
            (csub' (ez (z / 2) (INR (S m) / 2 ^ g)) (ez (z / 2) (INR m / 2 ^ g))))).
  2:{ intros m Hm. rewrite rad_sign_lo, !Hez by auto. reflexivity. }
  rewrite (csumn_ext (2 ^ g) (fun k => cscal RO (rad_sign (S g) (2 ^ g + k)) _)
            (fun m => cmul' (cneg' (cexp' (z / 2))) (cscal RO (rad_sign g m)
               (csub' (ez (z / 2) (INR (S m) / 2 ^ g)) (ez (z / 2) (INR m / 2 ^ g)))))).
  2:{ intros m Hm. rewrite rad_sign_hi by auto.
      assert (H2 : INR (2 ^ g) = 2 ^ g) by (rewrite pow_INR; f_equal; simpl; lra).
      replace (INR (S (2 ^ g + m))) with (2 ^ g + INR (S m)) by (rewrite !S_INR, plus_INR, H2; ring).
      replace (INR (2 ^ g + m)) with (2 ^ g + INR m) by (rewrite plus_INR, H2; ring).
      rewrite !Hez2. apply c_eq; csimp; ring. }
  rewrite csumn_mul_l. ring.
Qed.

Theorem cdd_rademacher g z : dd_y (cdd_times g) z = rad_y g z.
Proof.
  revert z. induction g; intros z.
  - unfold rad_y, dd_y, rad_sign. simpl. unfold ez. replace (z * (1 / 1)) with (z * 1) by field.
    replace (z * (0 / 1)) with (z * 0) by field. apply c_eq; csimp; ring.
  - rewrite cdd_y_step, rad_y_step, IHg. reflexivity.
Qed.

(* ------------------------------------------------------------------ link to the numeric model *)
(* One segment of the control matrix for H_c = 0 (eigenvalues 0): the model's phase factor times
   its first-order integral, multiplied by i w, is the spec's increment e^{i w t_{g+1}} - e^{i w t_g}. *)
From FF Require Import Model.Numeric.
Lemma foi_segment_dd thr w tg dt : thr < Rabs (w * dt) -> 0 <= thr ->
  cmul' (cmul' ic (cofr RO w)) (cmul' (cexp' (w * tg)) (foi_entry RO thr w 0 0 dt)) =
  csub' (cexp' (w * (tg + dt))) (cexp' (w * tg)).
Proof.
  intros H Hthr. unfold foi_entry, cite. cbn [oadd osub omul oabs ogt oite RO osin ocos odiv o1 o0 fst snd].
  replace (w + (0 - 0)) with w by ring.
  apply Rgtb_true in H. rewrite H.
  assert (Hw : w <> 0).
  { intros ->. apply Rgtb_true in H. rewrite Rmult_0_l, Rabs_R0 in H. lra. }
  rewrite Rmult_plus_distr_l, cexp_add. apply c_eq; csimp; field; auto.
Qed.

(* the weight 1/2: sum_k |tr(sigma_z/2 C_k)|^2 over the normalised Pauli basis, only C_3 = sigma_z/sqrt 2 contributes *)
Lemma dd_weight : (2 * (1 / 2 * (1 / sqrt 2))) ^ 2 = 1 / 2.
Proof.
  assert (H : sqrt 2 * sqrt 2 = 2) by (apply sqrt_sqrt; lra).
  assert (H0 : sqrt 2 <> 0) by (intros E; rewrite E in H; lra).
  replace ((2 * (1 / 2 * (1 / sqrt 2))) ^ 2) with (1 / (sqrt 2 * sqrt 2)) by (field; auto).
  rewrite H. reflexivity.
Qed.

(* ------------------------------------------------------------------ satisfiable guards, sample orders *)
(* (no Coq-Interval tactic here: importing Interval.Tactic makes coqchk of this cone very slow) *)
Lemma cos_small_pos x : 0 <= x <= 1 -> 0 < cos x.
Proof. intros H. pose proof PI2_1. apply cos_gt_0; lra. Qed.
Example pdd_guard_sat : cos (1 / (2 * INR 3 + 2)) <> 0.
Proof. simpl INR. assert (0 < cos (1 / (2 * (1 + 1 + 1) + 2))) by (apply cos_small_pos; lra). lra. Qed.
Example cpmg_guard_sat : cos (1 / (2 * INR 4)) <> 0.
Proof. simpl INR. assert (0 < cos (1 / (2 * (1 + 1 + 1 + 1)))) by (apply cos_small_pos; lra). lra. Qed.
