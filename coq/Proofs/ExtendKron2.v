(* C05, two blocks, both sides and arbitrary row placement:
   the control matrix computed from scratch for the tensor-product pulse, on the rows of the noise
   operators  B_a (x) 1  (first pulse, rows rho1 a) and  1 (x) B'_b  (second pulse, rows rho2 b),
   in terms of the control matrices of the two pulses.                                         *)
From Coq Require Import ZArith Reals List Lra Lia Arith Permutation.
From FF Require Import Base.Ops Inst.RInst Base.RAlg Spec.Kron2 Model.Numeric Proofs.RemapCov Proofs.ExtendKron.
Import ListNotations.
Local Open Scope nat_scope.

Lemma foi_entry_shift_l thr w a a' b dt : foi_entry RO thr w (b + a)%R (b + a')%R dt = foi_entry RO thr w a a' dt.
Proof.
  unfold foi_entry. replace (oadd RO w (osub RO (b + a)%R (b + a')%R)) with (oadd RO w (osub RO a a')) by (simpl; ring).
  reflexivity.
Qed.

Section R.
Variables d1 d2 : nat.
Local Notation D := (d1 * d2).
Lemma dl' i : i < D -> i / d2 < d1. Proof. apply div_lt_prod. Qed.
Lemma ml' i : i < D -> i mod d2 < d2. Proof. apply mod_lt_prod. Qed.
Hint Resolve dl' ml' : core.

(* identity on the FIRST factor *)
Lemma cm_contract_embed_r thr w ev1 ev2 ev dt NT2 NT BT1 BT2 BT :
  evrel d1 d2 ev1 ev2 ev -> krel d1 d2 (mid RO d1) NT2 NT -> krel d1 d2 BT1 BT2 BT ->
  cm_contract D thr w ev dt NT BT = cmul' (mtrace RO d1 BT1) (cm_contract d2 thr w ev2 dt NT2 BT2).
Proof.
  intros He HN HB. unfold cm_contract, mtrace.
  set (g := fun m1 m2 n1 n2 : nat =>
     cmul' (cmul' (cmul' (if Nat.eqb m1 n1 then 1c else 0c) (mget RO NT2 m2 n2))
                  (foi_entry RO thr w (vg RO ev1 m1 + vg RO ev2 m2)%R (vg RO ev1 n1 + vg RO ev2 n2)%R dt))
           (cmul' (mget RO BT1 n1 m1) (mget RO BT2 n2 m2))).
  set (G := fun m1 m2 => csumn' d1 (fun n1 => csumn' d2 (fun n2 => g m1 m2 n1 n2))).
  rewrite (csumn_ext D _ (fun m => G (m / d2) (m mod d2))).
  2:{ intros m Hm. unfold G.
      rewrite (csumn_ext D _ (fun n => g (m / d2) (m mod d2) (n / d2) (n mod d2))).
      apply (csumn_prod_split d1 d2 (g (m / d2) (m mod d2))).
      intros n Hn. unfold g. rewrite HN, HB by auto. unfold foi. rewrite mget_mbuild by auto.
      rewrite !He by auto. unfold mid. rewrite mget_mbuild by auto. reflexivity. }
  rewrite (csumn_prod_split d1 d2 G). unfold G.
  rewrite <- csumn_mul_r.
  apply csumn_ext. intros m1 Hm1.
  (* sum over m2, n1, n2: the delta collapses n1 = m1 *)
  rewrite <- csumn_mul_l.
  apply csumn_ext. intros m2 Hm2.
  rewrite (csumn_swap d1 d2).
  rewrite <- csumn_mul_l. apply csumn_ext. intros n2 Hn2.
  set (X := fun n1 => cmul' (cmul' (mget RO NT2 m2 n2)
                 (foi_entry RO thr w (vg RO ev1 m1 + vg RO ev2 m2)%R (vg RO ev1 n1 + vg RO ev2 n2)%R dt))
               (cmul' (mget RO BT1 n1 m1) (mget RO BT2 n2 m2))).
  rewrite (csumn_ext d1 _ (fun n1 => if Nat.eqb m1 n1 then X n1 else 0c)).
  2:{ intros n1 _. unfold g, X. destruct (Nat.eqb m1 n1); ring. }
  rewrite (csumn_delta d1 m1 X Hm1). unfold X. rewrite foi_entry_shift_l.
  unfold foi. rewrite mget_mbuild by auto. ring.
Qed.

Section Step.
Variables (K1 K2 : nat).
Variables (basis1 basis2 basis : list (Mat (T:=R))).
Hypothesis HK1 : length basis1 = K1.
Hypothesis HK2 : length basis2 = K2.
Hypothesis HK : length basis = K1 * K2.
Hypothesis Hbasis : forall k l, k < K1 -> l < K2 -> krel d1 d2 (nthm basis1 k) (nthm basis2 l) (nthm basis (k * K2 + l)).

(* a noise operator  B (x) 1  sitting in row a of the product pulse, B in row a1 of the first pulse *)
Theorem cm_step_embed_l thr ev1 ev2 ev V1 V2 V Q1 Q2 Q tg dt omega ns1 ns c1 c a1 a k l o :
  evrel d1 d2 ev1 ev2 ev -> krel d1 d2 V1 V2 V -> krel d1 d2 Q1 Q2 Q -> funitary d2 (toF V2) -> funitary d2 (toF Q2) ->
  a1 < length ns1 -> a < length ns -> krel d1 d2 (nthm ns1 a1) (mid RO d2) (nthm ns a) -> vg RO c a = vg RO c1 a1 ->
  k < K1 -> l < K2 -> o < length omega ->
  a3get RO (cm_step RO D thr ev V Q tg dt omega basis ns c) a (k * K2 + l) o =
  cmul' (a3get RO (cm_step RO d1 thr ev1 V1 Q1 tg dt omega basis1 ns1 c1) a1 k o) (mtrace RO d2 (nthm basis2 l)).
Proof.
  intros He HV HQ UV UQ Ha1 Ha Hns Hc Hk Hl Ho.
  assert (Hkl : k * K2 + l < K1 * K2) by (apply pair_lt_prod; auto).
  unfold cm_step. rewrite HK, HK1. rewrite !a3get_a3build by auto.
  rewrite !nthm_map by (rewrite ?HK, ?HK1; auto).
  rewrite !nthm_map_foi by auto.
  set (W := mmul RO D (madj RO D Q) V). set (W1 := mmul RO d1 (madj RO d1 Q1) V1). set (W2 := mmul RO d2 (madj RO d2 Q2) V2).
  assert (HW : krel d1 d2 W1 W2 W) by (apply mmul_krel; auto; apply madj_krel; auto).
  assert (UW : funitary d2 (toF W2)) by (apply funitary_mmul; auto).
  assert (HNT : krel d1 d2 (transform_by_unitary RO d1 V1 (nthm ns1 a1)) (mid RO d2) (transform_by_unitary RO D V (nthm ns a))).
  { pose proof (transform_krel d1 d2 V1 V2 V _ _ _ HV Hns) as H0.
    intros i j Hi Hj. rewrite (H0 i j Hi Hj). f_equal.
    pose proof (unitary_transform_id d2 V2 UV (i mod d2) (j mod d2) (ml' i Hi) (ml' j Hj)) as E.
    unfold toF in E. rewrite E. unfold mid. rewrite mget_mbuild by auto. reflexivity. }
  pose proof (transform_krel d1 d2 W1 W2 W _ _ _ HW (Hbasis k l Hk Hl)) as HBT.
  fold (cm_contract D thr (vg RO omega o) ev dt (transform_by_unitary RO D V (nthm ns a)) (transform_by_unitary RO D W (nthm basis (k * K2 + l)))).
  fold (cm_contract d1 thr (vg RO omega o) ev1 dt (transform_by_unitary RO d1 V1 (nthm ns1 a1)) (transform_by_unitary RO d1 W1 (nthm basis1 k))).
  rewrite (cm_contract_embed d1 d2 thr (vg RO omega o) ev1 ev2 ev dt _ _ _ _ _ He HNT HBT).
  rewrite (unitary_transform_trace d2 W2 _ UW). rewrite Hc.
  apply c_eq; csimp; ring.
Qed.

(* a noise operator  1 (x) B  sitting in row a of the product pulse, B in row a2 of the second pulse *)
Theorem cm_step_embed_r thr ev1 ev2 ev V1 V2 V Q1 Q2 Q tg dt omega ns2 ns c2 c a2 a k l o :
  evrel d1 d2 ev1 ev2 ev -> krel d1 d2 V1 V2 V -> krel d1 d2 Q1 Q2 Q -> funitary d1 (toF V1) -> funitary d1 (toF Q1) ->
  a2 < length ns2 -> a < length ns -> krel d1 d2 (mid RO d1) (nthm ns2 a2) (nthm ns a) -> vg RO c a = vg RO c2 a2 ->
  k < K1 -> l < K2 -> o < length omega ->
  a3get RO (cm_step RO D thr ev V Q tg dt omega basis ns c) a (k * K2 + l) o =
  cmul' (mtrace RO d1 (nthm basis1 k)) (a3get RO (cm_step RO d2 thr ev2 V2 Q2 tg dt omega basis2 ns2 c2) a2 l o).
Proof.
  intros He HV HQ UV UQ Ha2 Ha Hns Hc Hk Hl Ho.
  assert (Hkl : k * K2 + l < K1 * K2) by (apply pair_lt_prod; auto).
  unfold cm_step. rewrite HK, HK2. rewrite !a3get_a3build by auto.
  rewrite !nthm_map by (rewrite ?HK, ?HK2; auto).
  rewrite !nthm_map_foi by auto.
  set (W := mmul RO D (madj RO D Q) V). set (W1 := mmul RO d1 (madj RO d1 Q1) V1). set (W2 := mmul RO d2 (madj RO d2 Q2) V2).
  assert (HW : krel d1 d2 W1 W2 W) by (apply mmul_krel; auto; apply madj_krel; auto).
  assert (UW : funitary d1 (toF W1)) by (apply funitary_mmul; auto).
  assert (HNT : krel d1 d2 (mid RO d1) (transform_by_unitary RO d2 V2 (nthm ns2 a2)) (transform_by_unitary RO D V (nthm ns a))).
  { pose proof (transform_krel d1 d2 V1 V2 V _ _ _ HV Hns) as H0.
    intros i j Hi Hj. rewrite (H0 i j Hi Hj). f_equal.
    pose proof (unitary_transform_id d1 V1 UV (i / d2) (j / d2) (dl' i Hi) (dl' j Hj)) as E.
    unfold toF in E. rewrite E. unfold mid. rewrite mget_mbuild by auto. reflexivity. }
  pose proof (transform_krel d1 d2 W1 W2 W _ _ _ HW (Hbasis k l Hk Hl)) as HBT.
  fold (cm_contract D thr (vg RO omega o) ev dt (transform_by_unitary RO D V (nthm ns a)) (transform_by_unitary RO D W (nthm basis (k * K2 + l)))).
  fold (cm_contract d2 thr (vg RO omega o) ev2 dt (transform_by_unitary RO d2 V2 (nthm ns2 a2)) (transform_by_unitary RO d2 W2 (nthm basis2 l))).
  rewrite (cm_contract_embed_r thr (vg RO omega o) ev1 ev2 ev dt _ _ _ _ _ He HNT HBT).
  rewrite (unitary_transform_trace d1 W1 _ UW). rewrite Hc.
  apply c_eq; csimp; ring.
Qed.

(* ----- lifting through the loop over segments ----- *)
Variables (na : nat) (ns : list (Mat (T:=R))).
Hypothesis Hn : length ns = na.

Section Left.
Variables (na1 : nat) (ns1 : list (Mat (T:=R))) (rho : nat -> nat).
Hypothesis Hn1 : length ns1 = na1.
Hypothesis Hrho : forall a1, a1 < na1 -> rho a1 < na.
Hypothesis Hns : forall a1, a1 < na1 -> krel d1 d2 (nthm ns1 a1) (mid RO d2) (nthm ns (rho a1)).

Definition embrel_l (no : nat) (B1 Bm : Arr3 (T:=R)) : Prop :=
  forall a1 k l o, a1 < na1 -> k < K1 -> l < K2 -> o < no ->
    a3get RO Bm (rho a1) (k * K2 + l) o = cmul' (a3get RO B1 a1 k o) (mtrace RO d2 (nthm basis2 l)).
Definition crel_l (c1 c : list R) : Prop := forall a1, a1 < na1 -> vg RO c (rho a1) = vg RO c1 a1.

Lemma cm_loop_embed_l thr omega : forall evs1 evs2 evs, Forall3 (evrel d1 d2) evs1 evs2 evs ->
  forall Vs1 Vs2 Vs Qs1 Qs2 Qs ts dts cs1 cs acc1 acc,
  Forall3 (krel d1 d2) Vs1 Vs2 Vs -> Forall3 (krel d1 d2) Qs1 Qs2 Qs ->
  Forall (fun V => funitary d2 (toF V)) Vs2 -> Forall (fun Q => funitary d2 (toF Q)) Qs2 ->
  Forall2 crel_l cs1 cs -> embrel_l (length omega) acc1 acc ->
  embrel_l (length omega) (cm_scratch_loop RO d1 thr evs1 Vs1 Qs1 ts dts omega basis1 ns1 cs1 acc1)
                          (cm_scratch_loop RO D thr evs Vs Qs ts dts omega basis ns cs acc).
Proof.
  intros evs1 evs2 evs He. induction He; intros Vs1 Vs2 Vs Qs1 Qs2 Qs ts dts cs1 cs acc1 acc HV HQ UV UQ Hc Hacc.
  - simpl. auto.
  - destruct HV; simpl; auto. destruct HQ; simpl; auto.
    destruct ts as [|tg ts]; auto. destruct dts as [|dt dts]; auto. destruct Hc; auto.
    apply Forall_cons_iff in UV. destruct UV as [UVh UVt]. apply Forall_cons_iff in UQ. destruct UQ as [UQh UQt].
    eapply IHHe; eauto.
    intros a1 k ll o Ha Hk Hl Ho. rewrite Hn, Hn1, HK, HK1.
    assert (Hkl : k * K2 + ll < K1 * K2) by (apply pair_lt_prod; auto).
    rewrite !a3get_a3add by auto. rewrite Hacc by auto.
    rewrite (cm_step_embed_l thr x y z x0 y0 z0 x1 y1 z1 tg dt omega ns1 ns x2 y2 a1 (rho a1) k ll o) by (auto; rewrite ?Hn1, ?Hn; auto).
    ring.
Qed.

Theorem control_matrix_embed_l thr evs1 evs2 evs Vs1 Vs2 Vs omega nc1 nc dts :
  Forall3 (evrel d1 d2) evs1 evs2 evs -> Forall3 (krel d1 d2) Vs1 Vs2 Vs ->
  Forall (fun V => funitary d2 (toF V)) Vs2 ->
  length nc = na -> length nc1 = na1 -> (forall a1, a1 < na1 -> nth (rho a1) nc [] = nth a1 nc1 []) ->
  embrel_l (length omega)
    (control_matrix_from_scratch RO d1 thr evs1 Vs1 (propagators RO d1 evs1 Vs1 dts) omega basis1 ns1 nc1 dts (times RO dts))
    (control_matrix_from_scratch RO D thr evs Vs (propagators RO D evs Vs dts) omega basis ns nc dts (times RO dts)).
Proof.
  intros He HV UV Lc Lc1 Hc. unfold control_matrix_from_scratch.
  apply (cm_loop_embed_l thr omega evs1 evs2 evs He Vs1 Vs2 Vs (propagators RO d1 evs1 Vs1 dts) (propagators RO d2 evs2 Vs2 dts)); auto.
  - apply propagators_krel; auto.
  - apply propagators_unitary; auto.
  - unfold transpose_coeffs. apply Forall2_build. intros g Hg a1 Ha1. unfold vg, vget.
    rewrite (nth_indep _ 0%R ((fun row => vget RO row g) [])) by (rewrite map_length, Lc; auto).
    rewrite (nth_indep (map _ nc1) 0%R ((fun row => vget RO row g) [])) by (rewrite map_length, Lc1; auto).
    rewrite !(map_nth (fun row => vg RO row g)). rewrite Hc by auto. reflexivity.
  - intros a1 k l o Ha Hk Hl Ho. rewrite Hn, Hn1, HK, HK1.
    assert (Hkl : k * K2 + l < K1 * K2) by (apply pair_lt_prod; auto).
    rewrite !a3get_a3zero by auto. ring.
Qed.
End Left.

Section Right.
Variables (na2 : nat) (ns2 : list (Mat (T:=R))) (rho : nat -> nat).
Hypothesis Hn2 : length ns2 = na2.
Hypothesis Hrho : forall a2, a2 < na2 -> rho a2 < na.
Hypothesis Hns : forall a2, a2 < na2 -> krel d1 d2 (mid RO d1) (nthm ns2 a2) (nthm ns (rho a2)).

Definition embrel_r (no : nat) (B2 Bm : Arr3 (T:=R)) : Prop :=
  forall a2 k l o, a2 < na2 -> k < K1 -> l < K2 -> o < no ->
    a3get RO Bm (rho a2) (k * K2 + l) o = cmul' (mtrace RO d1 (nthm basis1 k)) (a3get RO B2 a2 l o).
Definition crel_r (c2 c : list R) : Prop := forall a2, a2 < na2 -> vg RO c (rho a2) = vg RO c2 a2.

Lemma cm_loop_embed_r thr omega : forall evs1 evs2 evs, Forall3 (evrel d1 d2) evs1 evs2 evs ->
  forall Vs1 Vs2 Vs Qs1 Qs2 Qs ts dts cs2 cs acc2 acc,
  Forall3 (krel d1 d2) Vs1 Vs2 Vs -> Forall3 (krel d1 d2) Qs1 Qs2 Qs ->
  Forall (fun V => funitary d1 (toF V)) Vs1 -> Forall (fun Q => funitary d1 (toF Q)) Qs1 ->
  Forall2 crel_r cs2 cs -> embrel_r (length omega) acc2 acc ->
  embrel_r (length omega) (cm_scratch_loop RO d2 thr evs2 Vs2 Qs2 ts dts omega basis2 ns2 cs2 acc2)
                          (cm_scratch_loop RO D thr evs Vs Qs ts dts omega basis ns cs acc).
Proof.
  intros evs1 evs2 evs He. induction He; intros Vs1 Vs2 Vs Qs1 Qs2 Qs ts dts cs2 cs acc2 acc HV HQ UV UQ Hc Hacc.
  - simpl. auto.
  - destruct HV; simpl; auto. destruct HQ; simpl; auto.
    destruct ts as [|tg ts]; auto. destruct dts as [|dt dts]; auto. destruct Hc; auto.
    apply Forall_cons_iff in UV. destruct UV as [UVh UVt]. apply Forall_cons_iff in UQ. destruct UQ as [UQh UQt].
    eapply IHHe; eauto.
    intros a2 k ll o Ha Hk Hl Ho. rewrite Hn, Hn2, HK, HK2.
    assert (Hkl : k * K2 + ll < K1 * K2) by (apply pair_lt_prod; auto).
    rewrite !a3get_a3add by auto. rewrite Hacc by auto.
    rewrite (cm_step_embed_r thr x y z x0 y0 z0 x1 y1 z1 tg dt omega ns2 ns x2 y2 a2 (rho a2) k ll o) by (auto; rewrite ?Hn2, ?Hn; auto).
    ring.
Qed.

Theorem control_matrix_embed_r thr evs1 evs2 evs Vs1 Vs2 Vs omega nc2 nc dts :
  Forall3 (evrel d1 d2) evs1 evs2 evs -> Forall3 (krel d1 d2) Vs1 Vs2 Vs ->
  Forall (fun V => funitary d1 (toF V)) Vs1 ->
  length nc = na -> length nc2 = na2 -> (forall a2, a2 < na2 -> nth (rho a2) nc [] = nth a2 nc2 []) ->
  embrel_r (length omega)
    (control_matrix_from_scratch RO d2 thr evs2 Vs2 (propagators RO d2 evs2 Vs2 dts) omega basis2 ns2 nc2 dts (times RO dts))
    (control_matrix_from_scratch RO D thr evs Vs (propagators RO D evs Vs dts) omega basis ns nc dts (times RO dts)).
Proof.
  intros He HV UV Lc Lc2 Hc. unfold control_matrix_from_scratch.
  apply (cm_loop_embed_r thr omega evs1 evs2 evs He Vs1 Vs2 Vs (propagators RO d1 evs1 Vs1 dts) (propagators RO d2 evs2 Vs2 dts)); auto.
  - apply propagators_krel; auto.
  - apply propagators_unitary; auto.
  - unfold transpose_coeffs. apply Forall2_build. intros g Hg a2 Ha2. unfold vg, vget.
    rewrite (nth_indep _ 0%R ((fun row => vget RO row g) [])) by (rewrite map_length, Lc; auto).
    rewrite (nth_indep (map _ nc2) 0%R ((fun row => vget RO row g) [])) by (rewrite map_length, Lc2; auto).
    rewrite !(map_nth (fun row => vg RO row g)). rewrite Hc by auto. reflexivity.
  - intros a2 k l o Ha Hk Hl Ho. rewrite Hn, Hn2, HK, HK2.
    assert (Hkl : k * K2 + l < K1 * K2) by (apply pair_lt_prod; auto).
    rewrite !a3get_a3zero by auto. ring.
Qed.
End Right.
End Step.
End R.
